(* Proofs about Model/ImportTable.v (property C12).
   Part 0: specification vocabulary (well-formedness predicates, the renumbering function).
   Part 1: list / dict toolbox.   Part 2: name map.   Part 3: renaming loop.
   Part 4: _combine_multi_value_props.   Part 5: construct.   Part 6: CSV ids, edges.
   Part 7: the CSV theorems.   Part 8: the GEFF theorems. *)
From Coq Require Import ZArith List Bool Lia Permutation.
From FT Require Import Base.Dict Proofs.DictLemmas Model.ImportTable.
Import ListNotations.
Open Scope Z_scope.

(* ================= Part 0: specification vocabulary ================= *)
Definition is_single (o : option src) : bool := match o with Some (Single _) => true | _ => false end.
(* the columns used in list mappings, in map order *)
Definition multi_cols (nm : name_map) : list Z :=
  flat_map (fun kv => match snd kv with Multi cs => cs | Single _ => [] end) nm.
(* the column a key is mapped to by a single mapping *)
Definition single_col (nm : name_map) (k : Z) : Z := match lookup k nm with Some (Single c) => c | _ => 0 end.
Definition id_col (nm : name_map) : Z := single_col nm k_id.
Definition par_col (nm : name_map) : Z := single_col nm k_parent.

(* A valid key mapping for a table with columns [cols]:
   - keys and the columns used in list mappings are pairwise distinct (no clash),
   - id and parent_id are mapped to single columns, time is mapped,
   - pos is a list of >= 2 columns; ellipse_axis_radii, if mapped, is a list of the same length,
   - no empty list mapping, every mapped column exists. *)
Definition wf_map_core (cols : list Z) (nm : name_map) : bool :=
  nodup_z (keys nm ++ multi_cols nm)
  && haskey k_time nm
  && match lookup k_pos nm with
     | Some (Multi pcs) => (2 <=? length pcs)%nat
                           && match lookup k_ell nm with
                              | None => true
                              | Some (Multi cs) => Nat.eqb (length cs) (length pcs)
                              | Some (Single _) => false
                              end
     | _ => false
     end
  && forallb nonempty_src nm
  && forallb (fun kv => forallb (fun c => memz c cols) (sources (snd kv))) nm.
(* CSV: additionally id and parent_id are mapped to single columns *)
Definition wf_map (cols : list Z) (nm : name_map) : bool :=
  wf_map_core cols nm && is_single (lookup k_id nm) && is_single (lookup k_parent nm).

(* "no parent": empty cell or -1 *)
Definition is_none (p : cell) : bool := match p with CNone => true | CInt z => z =? -1 | _ => false end.
Definition is_int (c : cell) : bool := match c with CInt _ => true | _ => false end.

(* with renumbered (non-integer) ids the empty string also means "no parent" *)
Definition no_parent (ityp : bool) (p : cell) : bool := is_none p || (negb ityp && cell_eqb p empty_str).

(* A well-formed table (under a name map with single id / parent_id columns):
   distinct column names, rectangular rows,
   the MAPPED id column: pairwise distinct, never empty, never -1, never "", integers when integer-typed,
   every parent is "no parent" or the id of ANOTHER row. *)
Definition wf_table (t : table) (ityp : bool) (nm : name_map) : bool :=
  let cols := t_cols t in
  let ids := column t (id_col nm) in
  nodup_z cols
  && forallb (fun r => Nat.eqb (length r) (length cols)) (t_rows t)
  && nodup_cells ids && negb (memc CNone ids) && negb (memc (CInt (-1)) ids) && negb (memc empty_str ids)
  && (negb ityp || forallb is_int ids)
  && forallb (fun r => let p := cell_of cols r (par_col nm) in
                       no_parent ityp p || (memc p ids && negb (cell_eqb p (cell_of cols r (id_col nm))))) (t_rows t).

(* the renumbering of ids: identity on integers when the id column is integer-typed, else the
   1-based rank of first appearance in the id column *)
Definition zof (c : cell) : Z := match c with CInt z => z | _ => 0 end.
Definition renum (t : table) (ityp : bool) (nm : name_map) (c : cell) : Z :=
  if ityp then zof c
  else match cell_lookup c (id_mapping (column t (id_col nm))) with Some k => k | None => 0 end.

(* ================= Part 1: toolbox ================= *)
Lemma cell_eqb_spec a b : reflect (a = b) (cell_eqb a b).
Proof.
  destruct a, b; cbn; try (constructor; congruence);
    match goal with |- reflect _ (?x =? ?y) => destruct (Z.eqb_spec x y); constructor; congruence end.
Qed.
Lemma cell_eqb_refl a : cell_eqb a a = true.
Proof. destruct (cell_eqb_spec a a); congruence. Qed.

Lemma memc_In c l : memc c l = true <-> In c l.
Proof.
  unfold memc. rewrite existsb_exists. split.
  - intros [x [Hx E]]. destruct (cell_eqb_spec c x); [now subst|discriminate].
  - intros H. exists c. split; [exact H|apply cell_eqb_refl].
Qed.
Lemma memc_false c l : memc c l = false <-> ~ In c l.
Proof. rewrite <- memc_In. destruct (memc c l); split; congruence. Qed.

Lemma nodup_cells_NoDup l : nodup_cells l = true <-> NoDup l.
Proof.
  induction l as [|x r IH]; cbn; [split; [constructor|reflexivity]|].
  rewrite andb_true_iff, negb_true_iff, memc_false, IH. split.
  - intros [H1 H2]. now constructor.
  - intros H. inversion H; subst. now split.
Qed.
Lemma nodup_z_NoDup l : nodup_z l = true <-> NoDup l.
Proof.
  induction l as [|x r IH]; cbn; [split; [constructor|reflexivity]|].
  rewrite andb_true_iff, negb_true_iff, memz_false, IH. split.
  - intros [H1 H2]. now constructor.
  - intros H. inversion H; subst. now split.
Qed.
Lemma pair_eqb_spec a b : reflect (a = b) (pair_eqb a b).
Proof.
  destruct a as [a1 a2], b as [b1 b2]. unfold pair_eqb. cbn.
  destruct (Z.eqb_spec a1 b1), (Z.eqb_spec a2 b2); constructor; congruence.
Qed.
Lemma nodup_pairs_NoDup l : nodup_pairs l = true <-> NoDup l.
Proof.
  induction l as [|x r IH]; cbn; [split; [constructor|reflexivity]|].
  rewrite andb_true_iff, negb_true_iff, IH.
  assert (E : existsb (pair_eqb x) r = false <-> ~ In x r).
  { split.
    - intros H Hin. assert (existsb (pair_eqb x) r = true); [|congruence].
      apply existsb_exists. exists x. split; [exact Hin|]. destruct (pair_eqb_spec x x); congruence.
    - intros H. destruct (existsb (pair_eqb x) r) eqn:E; [|reflexivity]. exfalso. apply H.
      apply existsb_exists in E. destruct E as [y [Hy Ey]]. destruct (pair_eqb_spec x y); [now subst|discriminate]. }
  rewrite E. split.
  - intros [H1 H2]. now constructor.
  - intros H. inversion H; subst. now split.
Qed.

Lemma NoDup_app_iff {A} (l1 l2 : list A) :
  NoDup (l1 ++ l2) <-> NoDup l1 /\ NoDup l2 /\ (forall x, In x l1 -> ~ In x l2).
Proof.
  induction l1 as [|a l1 IH]; cbn.
  - split; [intros H; repeat split; [constructor|exact H|tauto]|tauto].
  - split.
    + intros H. inversion H as [|? ? Hn Hd]; subst. apply IH in Hd. destruct Hd as [H1 [H2 H3]].
      repeat split; [constructor; [intros Hi; apply Hn, in_or_app; now left|exact H1]|exact H2|].
      intros x [->|Hx]; [intros Hi; apply Hn, in_or_app; now right|now apply H3].
    + intros [H1 [H2 H3]]. inversion H1 as [|? ? Hn Hd]; subst. constructor.
      * intros Hi. apply in_app_or in Hi. destruct Hi as [Hi|Hi]; [contradiction|]. apply (H3 a); [now left|exact Hi].
      * apply IH. repeat split; [exact Hd|exact H2|]. intros x Hx. apply H3. now right.
Qed.

Lemma NoDup_map_inj_in {A B} (f : A -> B) l :
  (forall a b, In a l -> In b l -> f a = f b -> a = b) -> NoDup l -> NoDup (map f l).
Proof.
  induction l as [|x r IH]; intros Hinj Hnd; cbn; [constructor|].
  inversion Hnd as [|? ? Hn Hd]; subst. constructor.
  - intros Hi. apply in_map_iff in Hi. destruct Hi as [y [Ey Hy]].
    assert (y = x) by (apply Hinj; [now right|now left|exact Ey]). subst. contradiction.
  - apply IH; [|exact Hd]. intros a b Ha Hb. apply Hinj; now right.
Qed.

Lemma filter_forallb_id {A} (f : A -> bool) l : forallb f l = true -> filter f l = l.
Proof.
  induction l as [|x r IH]; cbn; [reflexivity|]. intros H. apply andb_true_iff in H. destruct H as [H1 H2].
  rewrite H1. f_equal. now apply IH.
Qed.

Section DictMore.
Context {V : Type}.
Implicit Types (d : dict V) (k : Z).

Lemma set_fresh k (v : V) d : ~ In k (keys d) -> set k v d = d ++ [(k, v)].
Proof.
  induction d as [|[k' v'] r IH]; cbn; [reflexivity|]. intros H.
  destruct (Z.eqb_spec k k') as [->|Hn]; [exfalso; apply H; now left|]. f_equal. apply IH. intros Hi. apply H. now right.
Qed.
Lemma keys_app d e : keys (d ++ e) = keys d ++ keys e.
Proof. unfold keys. apply map_app. Qed.
Lemma haskey_false k d : haskey k d = false <-> ~ In k (keys d).
Proof. rewrite <- haskey_keys. destruct (haskey k d); split; congruence. Qed.
Lemma lookup_filter_None k d (f : Z * V -> bool) : lookup k d = None -> lookup k (filter f d) = None.
Proof.
  intros H. apply lookup_None_keys. apply lookup_None_keys in H. intros Hi. apply H.
  unfold keys in *. apply in_map_iff in Hi. destruct Hi as [[k' v] [E Hi]]. apply filter_In in Hi.
  apply in_map_iff. exists (k', v). tauto.
Qed.
Lemma In_lookup_exists k d : In k (keys d) -> exists v, lookup k d = Some v.
Proof.
  intros H. destruct (lookup k d) eqn:E; [eauto|]. apply lookup_None_keys in E. contradiction.
Qed.
(* deleting a list of keys *)
Definition del_all (cs : list Z) d : dict V := fold_left (fun acc c => del c acc) cs d.
Lemma lookup_del_all x cs d : lookup x (del_all cs d) = if memz x cs then None else lookup x d.
Proof.
  revert d. induction cs as [|c cs IH]; intros d; [reflexivity|].
  change (del_all (c :: cs) d) with (del_all cs (del c d)). rewrite IH. unfold memz. cbn [existsb].
  destruct (Z.eqb_spec x c) as [->|Hn]; cbn [orb].
  - destruct (existsb (Z.eqb c) cs); [reflexivity|apply lookup_del_eq].
  - destruct (existsb (Z.eqb x) cs); [reflexivity|now apply lookup_del_neq].
Qed.
Lemma NoDup_keys_del_all cs d : NoDup (keys d) -> NoDup (keys (del_all cs d)).
Proof.
  revert d. induction cs as [|c cs IH]; intros d H; [exact H|].
  change (del_all (c :: cs) d) with (del_all cs (del c d)). apply IH. now apply NoDup_keys_del.
Qed.
Lemma in_keys_del_all x cs d : In x (keys (del_all cs d)) -> In x (keys d).
Proof.
  revert d. induction cs as [|c cs IH]; intros d H; [exact H|].
  change (del_all (c :: cs) d) with (del_all cs (del c d)) in H. apply IH in H. apply in_keys_del in H. tauto.
Qed.
End DictMore.

(* ================= Part 2: name map ================= *)
Definition multi_keys (nm : name_map) : list Z :=
  flat_map (fun kv => match snd kv with Multi _ => [fst kv] | Single _ => [] end) nm.
Definition targets (nm : name_map) : list Z := map fst (flatten nm).

Lemma targets_cons k s r : targets ((k, s) :: r) = match s with Single _ => [k] | Multi cs => cs end ++ targets r.
Proof.
  unfold targets, flatten. cbn [flat_map]. rewrite map_app. f_equal. unfold flatten_entry. cbn [fst snd].
  destruct s as [c|cs]; [reflexivity|]. rewrite map_map. cbn. apply map_id.
Qed.

Lemma perm_clean nm : Permutation (keys nm ++ multi_cols nm) (multi_keys nm ++ targets nm).
Proof.
  induction nm as [|[k s] r IH]; [constructor|]. rewrite targets_cons.
  unfold multi_cols, multi_keys in *. cbn [keys map fst flat_map snd]. fold (keys r).
  destruct s as [c|cs]; cbn [app].
  - apply Permutation_cons_app. exact IH.
  - apply perm_skip. apply Permutation_app_middle. exact IH.
Qed.

Lemma in_flatten_single k c nm : In (k, Single c) nm -> In (k, c) (flatten nm).
Proof. intros H. unfold flatten. apply in_flat_map. exists (k, Single c). split; [exact H|now left]. Qed.
Lemma in_flatten_multi k cs c nm : In (k, Multi cs) nm -> In c cs -> In (c, c) (flatten nm).
Proof.
  intros H Hc. unfold flatten. apply in_flat_map. exists (k, Multi cs). split; [exact H|].
  unfold flatten_entry. cbn. apply in_map_iff. now exists c.
Qed.
Lemma in_multi_keys k cs nm : In (k, Multi cs) nm -> In k (multi_keys nm).
Proof. intros H. unfold multi_keys. apply in_flat_map. exists (k, Multi cs). split; [exact H|now left]. Qed.
Lemma in_multi_cols k cs c nm : In (k, Multi cs) nm -> In c cs -> In c (multi_cols nm).
Proof. intros H Hc. unfold multi_cols. apply in_flat_map. exists (k, Multi cs). split; [exact H|exact Hc]. Qed.
Lemma in_targets_inv x nm : In x (targets nm) -> (exists c, In (x, Single c) nm) \/ In x (multi_cols nm).
Proof.
  induction nm as [|[k s] r IH]; [intros []|]. rewrite targets_cons. intros H. apply in_app_or in H.
  destruct H as [H|H].
  - destruct s as [c|cs]; [destruct H as [->|[]]; left; exists c; now left|].
    right. unfold multi_cols. cbn. apply in_or_app. now left.
  - destruct (IH H) as [[c Hc]|Hm]; [left; exists c; now right|]. right. unfold multi_cols in *. cbn. apply in_or_app. now right.
Qed.

(* what NoDup (keys ++ multi_cols) gives *)
Lemma clean_facts nm : NoDup (keys nm ++ multi_cols nm) ->
  NoDup (keys nm) /\ NoDup (targets nm) /\ (forall k, In k (multi_keys nm) -> ~ In k (targets nm))
  /\ (forall k, In k (keys nm) -> ~ In k (multi_cols nm)).
Proof.
  intros H. pose proof (Permutation_NoDup (perm_clean nm) H) as H'.
  apply NoDup_app_iff in H. apply NoDup_app_iff in H'. tauto.
Qed.

Lemma preprocess_id nm : haskey k_pos nm = true -> forallb nonempty_src nm = true -> preprocess nm = nm.
Proof. intros H1 H2. unfold preprocess, legacy_pos. rewrite H1. now apply filter_forallb_id. Qed.

Lemma is_single_inv nm k : is_single (lookup k nm) = true -> lookup k nm = Some (Single (single_col nm k)).
Proof. unfold single_col. destruct (lookup k nm) as [[c|cs]|]; cbn; congruence. Qed.

Lemma wf_map_core_inv cols nm : wf_map_core cols nm = true ->
  NoDup (keys nm ++ multi_cols nm) /\
  haskey k_time nm = true /\
  (exists pcs, lookup k_pos nm = Some (Multi pcs) /\ (2 <= length pcs)%nat /\
               forall s, lookup k_ell nm = Some s -> exists cs, s = Multi cs /\ length cs = length pcs) /\
  forallb nonempty_src nm = true /\
  (forall k s c, In (k, s) nm -> In c (sources s) -> In c cols).
Proof.
  unfold wf_map_core. rewrite !andb_true_iff. intros [[[[H1 H4] H5] H6] H7].
  split; [now apply nodup_z_NoDup|]. split; [exact H4|]. split.
  - destruct (lookup k_pos nm) as [[c|pcs]|]; try discriminate. apply andb_true_iff in H5. destruct H5 as [Ha Hb].
    exists pcs. split; [reflexivity|]. split; [now apply Nat.leb_le|]. intros s Hs. rewrite Hs in Hb.
    destruct s as [c|cs]; [discriminate|]. exists cs. split; [reflexivity|now apply Nat.eqb_eq].
  - split; [exact H6|]. intros k s c Hin Hc. rewrite forallb_forall in H7. specialize (H7 _ Hin). cbn [snd] in H7.
    rewrite forallb_forall in H7. apply memz_In. now apply H7.
Qed.

Lemma wf_map_is_core cols nm : wf_map cols nm = true -> wf_map_core cols nm = true.
Proof. unfold wf_map. rewrite !andb_true_iff. tauto. Qed.

Lemma wf_map_inv cols nm : wf_map cols nm = true ->
  NoDup (keys nm ++ multi_cols nm) /\
  lookup k_id nm = Some (Single (id_col nm)) /\ lookup k_parent nm = Some (Single (par_col nm)) /\
  haskey k_time nm = true /\
  (exists pcs, lookup k_pos nm = Some (Multi pcs) /\ (2 <= length pcs)%nat /\
               forall s, lookup k_ell nm = Some s -> exists cs, s = Multi cs /\ length cs = length pcs) /\
  forallb nonempty_src nm = true /\
  (forall k s c, In (k, s) nm -> In c (sources s) -> In c cols).
Proof.
  intros H. pose proof (wf_map_core_inv _ _ (wf_map_is_core _ _ H)) as [H1 [H2 [H3 [H4 H5]]]].
  unfold wf_map in H. rewrite !andb_true_iff in H. destruct H as [[_ Hi] Hp].
  repeat split; try assumption; now apply is_single_inv.
Qed.

Lemma memz_sd k : memz k sd_keys = (k =? k_pos) || (k =? k_ell).
Proof. unfold memz, sd_keys. cbn. now rewrite orb_false_r. Qed.

Lemma wf_core_validate cols nm req : wf_map_core cols nm = true -> (forall k, In k req -> haskey k nm = true) ->
  validate_name_map req cols (ndim_of_map nm) nm = true.
Proof.
  intros Hwf Hreq. destruct (wf_map_core_inv _ _ Hwf) as [Hnd [Htime [[pcs [Hpos [Hlen Hell]]] [Hne Hsrc]]]].
  destruct (clean_facts _ Hnd) as [Hk _].
  unfold validate_name_map. rewrite !andb_true_iff. repeat split.
  - unfold required_ok. apply forallb_forall. exact Hreq.
  - unfold pos_ok. rewrite Hpos. now apply Nat.leb_le.
  - unfold sources_ok. destruct cols as [|c0 cols]; [reflexivity|]. apply forallb_forall. intros [k s] Hin. cbn [snd].
    apply forallb_forall. intros c Hc. apply memz_In. eapply Hsrc; eauto.
  - unfold spatial_map_ok, ndim_of_map. rewrite Hpos. apply forallb_forall. intros [k s] Hin.
    unfold spatial_entry_ok. cbn [andb fst snd]. rewrite memz_sd. replace (S (length pcs) - 1)%nat with (length pcs) by lia.
    destruct (Z.eqb_spec k k_pos) as [->|Hn1]; cbn [orb negb].
    + rewrite (In_lookup _ _ _ Hk Hin) in Hpos. injection Hpos as ->. apply Nat.eqb_refl.
    + destruct (Z.eqb_spec k k_ell) as [->|Hn2]; cbn [negb]; [|reflexivity].
      destruct (Hell s (In_lookup _ _ _ Hk Hin)) as [cs [-> Hl]]. now apply Nat.eqb_eq.
Qed.

Lemma wf_map_validate cols nm req : wf_map cols nm = true -> (forall k, In k req -> In k [k_time; k_id; k_parent]) ->
  validate_name_map req cols (ndim_of_map nm) nm = true.
Proof.
  intros Hwf Hreq. destruct (wf_map_inv _ _ Hwf) as [_ [Hid [Hpar [Htime _]]]].
  apply wf_core_validate; [now apply wf_map_is_core|]. intros k Hk'. apply Hreq in Hk'. cbn in Hk'.
  destruct Hk' as [<-|[<-|[<-|[]]]]; [exact Htime| |]; unfold haskey; [rewrite Hid|rewrite Hpar]; reflexivity.
Qed.

(* ================= Part 3: the renaming loop ================= *)
Definition renamed (srcp : props) (nm : name_map) : props :=
  map (fun ts => (fst ts, getd (snd ts) srcp no_prop)) (flatten nm).

Lemma rename_fold srcp l : forall acc, NoDup (keys acc ++ map fst l) ->
  (forall ts, In ts l -> In (snd ts) (keys srcp)) ->
  fold_left (rename_step srcp) l acc = acc ++ map (fun ts => (fst ts, getd (snd ts) srcp no_prop)) l.
Proof.
  induction l as [|[t0 s0] l IH]; intros acc Hnd Hsrc; cbn [fold_left map]; [now rewrite app_nil_r|].
  destruct (In_lookup_exists s0 srcp (Hsrc (t0, s0) (or_introl eq_refl))) as [p Hp].
  unfold rename_step at 2. cbn [fst snd]. rewrite Hp.
  assert (Hf : haskey t0 acc = false).
  { apply haskey_false. cbn [map fst] in Hnd. apply NoDup_remove_2 in Hnd. intros Hi. apply Hnd, in_or_app. now left. }
  rewrite Hf, (set_fresh t0 p acc) by (now apply haskey_false). rewrite IH.
  - rewrite <- app_assoc. cbn [app fst snd]. unfold getd at 2. now rewrite Hp.
  - rewrite keys_app. cbn [keys map fst]. rewrite <- app_assoc. exact Hnd.
  - intros ts Hts. apply Hsrc. now right.
Qed.

Lemma rename_clean srcp nm : NoDup (targets nm) -> (forall ts, In ts (flatten nm) -> In (snd ts) (keys srcp)) ->
  rename srcp nm = renamed srcp nm.
Proof. intros H1 H2. unfold rename. rewrite rename_fold; [reflexivity|exact H1|exact H2]. Qed.

Lemma keys_renamed srcp nm : keys (renamed srcp nm) = targets nm.
Proof. unfold keys, renamed, targets. rewrite map_map. reflexivity. Qed.

Lemma lookup_renamed srcp nm k c : NoDup (targets nm) -> In (k, c) (flatten nm) ->
  lookup k (renamed srcp nm) = Some (getd c srcp no_prop).
Proof.
  intros Hnd Hin. apply In_lookup; [now rewrite keys_renamed|].
  unfold renamed. apply in_map_iff. exists (k, c). split; [reflexivity|exact Hin].
Qed.

(* ================= Part 4: _combine_multi_value_props ================= *)
Lemma comb_of_ext ps ps' cs : (forall c, In c cs -> lookup c ps = lookup c ps') -> comb_of ps cs = comb_of ps' cs.
Proof.
  intros H. unfold comb_of. assert (E : map (fun c => getd c ps no_prop) cs = map (fun c => getd c ps' no_prop) cs).
  { apply map_ext_in. intros c Hc. unfold getd. now rewrite (H c Hc). }
  now rewrite E.
Qed.

Lemma fold_del_skip k cs (d : props) : ~ In k cs ->
  fold_left (fun acc c => if c =? k then acc else del c acc) cs d = del_all cs d.
Proof.
  revert d. induction cs as [|c cs IH]; intros d H; [reflexivity|]. cbn [fold_left].
  destruct (Z.eqb_spec c k) as [->|Hn]; [exfalso; apply H; now left|].
  change (del_all (c :: cs) d) with (del_all cs (del c d)). apply IH. intros Hi. apply H. now right.
Qed.

Lemma combine_entry_multi ps k c0 cs0 : forallb (fun c => haskey c ps) (c0 :: cs0) = true -> ~ In k (c0 :: cs0) ->
  combine_entry ps (k, Multi (c0 :: cs0)) = del_all (c0 :: cs0) (set k (comb_of ps (c0 :: cs0)) ps).
Proof. intros H1 H2. unfold combine_entry. cbn [snd fst]. rewrite H1. now apply fold_del_skip. Qed.

Definition final_spec (ps : props) (todo : name_map) (x : Z) : option prop :=
  match lookup x todo with
  | Some (Multi (c :: cs)) => Some (comb_of ps (c :: cs))
  | _ => if memz x (multi_cols todo) then None else lookup x ps
  end.

Lemma memz_app x l1 l2 : memz x (l1 ++ l2) = memz x l1 || memz x l2.
Proof. unfold memz. apply existsb_app. Qed.

Lemma multi_cols_cons k s r : multi_cols ((k, s) :: r) = match s with Multi cs => cs | Single _ => [] end ++ multi_cols r.
Proof. reflexivity. Qed.

Lemma combine_multi_lookup todo : forall ps, NoDup (keys todo ++ multi_cols todo) ->
  (forall k cs c, In (k, Multi cs) todo -> In c cs -> In c (keys ps)) ->
  forall x, lookup x (combine_multi todo ps) = final_spec ps todo x.
Proof.
  induction todo as [|[k s] r IH]; intros ps Hnd Hsrc x; [reflexivity|].
  unfold combine_multi in *. cbn [fold_left].
  rewrite multi_cols_cons in Hnd. cbn [keys map fst] in Hnd. fold (keys r) in Hnd.
  inversion Hnd as [|? ? Hk Hnd']; subst.
  assert (Hskip : forall ps0, (match s with Multi (_ :: _) => False | _ => True end) ->
            (forall k cs c, In (k, Multi cs) r -> In c cs -> In c (keys ps0)) ->
            NoDup (keys r ++ multi_cols r) -> ~ In k (keys r ++ multi_cols r) ->
            lookup x (fold_left combine_entry r ps0) = final_spec ps0 ((k, s) :: r) x).
  { intros ps0 Hs Hsrc0 Hnd0 Hk0. rewrite IH by assumption. unfold final_spec. cbn [lookup].
    rewrite multi_cols_cons.
    assert (Em : memz x ((match s with Multi cs => cs | Single _ => [] end) ++ multi_cols r) = memz x (multi_cols r)).
    { destruct s as [c|[|c cs]]; try reflexivity. contradiction. }
    rewrite Em. destruct (Z.eqb_spec x k) as [->|Hn]; [|reflexivity].
    assert (El : lookup k r = None) by (apply lookup_None_keys; intros Hi; apply Hk0, in_or_app; now left).
    rewrite El. destruct s as [c|[|c cs]]; try reflexivity. contradiction. }
  destruct s as [c|[|c0 cs0]].
  - (* single *) cbn [combine_entry snd]. apply Hskip; [exact I| |exact Hnd'|exact Hk].
    intros k' cs' c' Hin Hc. eapply Hsrc; [right; exact Hin|exact Hc].
  - (* empty list *) cbn [combine_entry snd]. apply Hskip; [exact I| |exact Hnd'|exact Hk].
    intros k' cs' c' Hin Hc. eapply Hsrc; [right; exact Hin|exact Hc].
  - (* list *)
    set (cs := c0 :: cs0) in *.
    assert (Hall : forallb (fun c => haskey c ps) cs = true).
    { apply forallb_forall. intros c Hc. apply haskey_keys. eapply Hsrc; [left; reflexivity|exact Hc]. }
    apply NoDup_app_iff in Hnd'. destruct Hnd' as [Hkr [Hmc Hdis]].
    apply NoDup_app_iff in Hmc. destruct Hmc as [Hcs [Hmr Hdis2]].
    assert (Hkcs : ~ In k cs) by (intros Hi; apply Hk, in_or_app; right; apply in_or_app; now left).
    unfold cs at 1. rewrite combine_entry_multi by assumption. fold cs.
    set (ps' := del_all cs (set k (comb_of ps cs) ps)).
    assert (Hlk : forall y, y <> k -> ~ In y cs -> lookup y ps' = lookup y ps).
    { intros y Hy Hyc. unfold ps'. rewrite lookup_del_all. apply memz_false in Hyc. rewrite Hyc. now apply lookup_set_neq. }
    assert (Hnd2 : NoDup (keys r ++ multi_cols r)).
    { apply NoDup_app_iff. repeat split; [exact Hkr|exact Hmr|]. intros y Hy Hy2. apply (Hdis y Hy), in_or_app. now right. }
    assert (Hsrc2 : forall k' cs' c', In (k', Multi cs') r -> In c' cs' -> In c' (keys ps')).
    { intros k' cs' c' Hin Hc. assert (Hm : In c' (multi_cols r)) by (eapply in_multi_cols; eauto).
      assert (In c' (keys ps)) as Hi by (eapply Hsrc; [right; exact Hin|exact Hc]).
      destruct (In_lookup_exists _ _ Hi) as [p Hp]. eapply lookup_Some_keys. rewrite Hlk; [exact Hp| |].
      - intros ->. apply Hk, in_or_app. right. apply in_or_app. now right.
      - intros Hi2. exact (Hdis2 _ Hi2 Hm). }
    rewrite (IH ps' Hnd2 Hsrc2 x). unfold final_spec. cbn [lookup]. rewrite multi_cols_cons, memz_app.
    destruct (Z.eqb_spec x k) as [->|Hn].
    + assert (El : lookup k r = None) by (apply lookup_None_keys; intros Hi; apply Hk, in_or_app; now left).
      rewrite El. assert (Em : memz k (multi_cols r) = false).
      { apply memz_false. intros Hi. apply Hk, in_or_app. right. apply in_or_app. now right. }
      rewrite Em. unfold ps'. rewrite lookup_del_all. apply memz_false in Hkcs. rewrite Hkcs. apply lookup_set_eq.
    + destruct (lookup x r) as [[c|[|c' cs']]|] eqn:El.
      1,2,4: destruct (memz x (multi_cols r)); [now rewrite orb_true_r|]; rewrite orb_false_r;
        unfold ps'; rewrite lookup_del_all; destruct (memz x cs); [reflexivity|now apply lookup_set_neq].
      f_equal. symmetry. apply comb_of_ext. intros c Hc. symmetry.
      assert (Hm : In c (multi_cols r)) by (eapply in_multi_cols; [eapply lookup_In; exact El|exact Hc]).
      apply Hlk.
      * intros ->. apply Hk, in_or_app. right. apply in_or_app. now right.
      * intros Hi2. exact (Hdis2 _ Hi2 Hm).
Qed.

Lemma combine_entry_keys ps kv x : In x (keys (combine_entry ps kv)) -> In x (keys ps) \/ x = fst kv.
Proof.
  unfold combine_entry. destruct (snd kv) as [c|[|c0 cs0]]; try tauto.
  destruct (forallb _ _); [|tauto].
  assert (G : forall cs (d : props), In x (keys (fold_left (fun acc c => if c =? fst kv then acc else del c acc) cs d)) -> In x (keys d)).
  { induction cs as [|c cs IHc]; intros d H; [exact H|]. cbn [fold_left] in H. apply IHc in H.
    destruct (c =? fst kv); [exact H|]. apply in_keys_del in H. tauto. }
  intros H. apply G in H. apply in_keys_set in H. tauto.
Qed.
Lemma combine_entry_nodup ps kv : NoDup (keys ps) -> NoDup (keys (combine_entry ps kv)).
Proof.
  unfold combine_entry. destruct (snd kv) as [c|[|c0 cs0]]; try tauto.
  destruct (forallb _ _); [|tauto].
  assert (G : forall cs (d : props), NoDup (keys d) -> NoDup (keys (fold_left (fun acc c => if c =? fst kv then acc else del c acc) cs d))).
  { induction cs as [|c cs IHc]; intros d H; [exact H|]. cbn [fold_left]. apply IHc.
    destruct (c =? fst kv); [exact H|]. now apply NoDup_keys_del. }
  intros H. apply G. now apply NoDup_keys_set.
Qed.
Lemma combine_multi_keys todo : forall ps x, In x (keys (combine_multi todo ps)) -> In x (keys ps) \/ In x (keys todo).
Proof.
  induction todo as [|kv r IH]; intros ps x H; [now left|]. unfold combine_multi in *. cbn [fold_left] in H.
  apply IH in H. destruct H as [H|H]; [|right; now right]. apply combine_entry_keys in H.
  destruct H as [H|H]; [now left|]. right. left. now symmetry.
Qed.
Lemma combine_multi_nodup todo : forall ps, NoDup (keys ps) -> NoDup (keys (combine_multi todo ps)).
Proof.
  induction todo as [|kv r IH]; intros ps H; [exact H|]. unfold combine_multi in *. cbn [fold_left].
  apply IH. now apply combine_entry_nodup.
Qed.

(* ================= Part 5: construct, drop_invalid, column_stack ================= *)
Lemma lookup_app {V} k (a b : dict V) : lookup k (a ++ b) = match lookup k a with Some v => Some v | None => lookup k b end.
Proof. induction a as [|[k' v'] a IH]; cbn; [reflexivity|]. destruct (Z.eqb k k'); [reflexivity|exact IH]. Qed.

Lemma construct_nodes_fst ps ids : forall i, map fst (construct_nodes ps i ids) = ids.
Proof. induction ids as [|x r IH]; intros i; cbn; [reflexivity|]. now rewrite IH. Qed.

Lemma construct_nodes_nth ps ids : forall i j x, nth_error ids j = Some x ->
  nth_error (construct_nodes ps i ids) j = Some (x, node_attrs ps (i + j)).
Proof.
  induction ids as [|y r IH]; intros i j x H; [destruct j; discriminate|].
  destruct j as [|j]; cbn in *.
  - injection H as ->. now rewrite Nat.add_0_r.
  - rewrite (IH (S i) j x H). do 3 f_equal. lia.
Qed.

Lemma node_attrs_keys ps i x : In x (keys (node_attrs ps i)) -> In x (keys ps).
Proof.
  induction ps as [|[k p] r IH]; [intros []|]. unfold node_attrs in *. cbn [flat_map fst snd]. rewrite keys_app.
  intros H. apply in_app_or in H. destruct H as [H|H]; [|right; now apply IH].
  destruct (value_at p i); [|destruct H]. destruct H as [<-|[]]. now left.
Qed.

Lemma lookup_node_attrs ps i k : NoDup (keys ps) ->
  lookup k (node_attrs ps i) = match lookup k ps with Some p => value_at p i | None => None end.
Proof.
  induction ps as [|[k' p] r IH]; intros Hnd; [reflexivity|].
  inversion Hnd as [|? ? Hn Hd]; subst.
  change (node_attrs ((k', p) :: r) i) with
    ((match value_at p i with Some v => [(k', v)] | None => [] end) ++ node_attrs r i).
  rewrite lookup_app. cbn [lookup]. destruct (Z.eqb_spec k k') as [->|Hne].
  - destruct (value_at p i) as [v|]; cbn [lookup]; [now rewrite Z.eqb_refl|].
    apply lookup_None_keys. intros Hi. apply Hn. now apply node_attrs_keys in Hi.
  - destruct (value_at p i) as [v|]; cbn [lookup].
    + destruct (Z.eqb_spec k k'); [contradiction|]. now apply IH.
    + now apply IH.
Qed.

Lemma drop_invalid_lookup trk lin ps k : (k = k_track -> trk = true) -> (k = k_lineage -> lin = true) ->
  lookup k (drop_invalid trk lin ps) = lookup k ps.
Proof.
  intros H1 H2. unfold drop_invalid.
  set (ps1 := if haskey k_track ps && negb trk then del k_track ps else ps).
  assert (E1 : lookup k ps1 = lookup k ps).
  { unfold ps1. destruct (haskey k_track ps && negb trk) eqn:E; [|reflexivity].
    apply lookup_del_neq. intros ->. rewrite (H1 eq_refl) in E. now rewrite andb_false_r in E. }
  destruct (haskey k_lineage ps1 && negb lin) eqn:E; [|exact E1]. rewrite lookup_del_neq; [exact E1|].
  intros ->. rewrite (H2 eq_refl) in E. now rewrite andb_false_r in E.
Qed.
Lemma drop_invalid_keys trk lin ps x : In x (keys (drop_invalid trk lin ps)) -> In x (keys ps).
Proof.
  unfold drop_invalid. set (ps1 := if haskey k_track ps && negb trk then del k_track ps else ps).
  assert (E1 : In x (keys ps1) -> In x (keys ps)).
  { unfold ps1. destruct (haskey k_track ps && negb trk); [|tauto]. intros H. apply in_keys_del in H. tauto. }
  destruct (haskey k_lineage ps1 && negb lin); [|exact E1]. intros H. apply in_keys_del in H. tauto.
Qed.
Lemma drop_invalid_nodup trk lin ps : NoDup (keys ps) -> NoDup (keys (drop_invalid trk lin ps)).
Proof.
  intros H. unfold drop_invalid. set (ps1 := if haskey k_track ps && negb trk then del k_track ps else ps).
  assert (E1 : NoDup (keys ps1)) by (unfold ps1; destruct (haskey k_track ps && negb trk); [now apply NoDup_keys_del|exact H]).
  destruct (haskey k_lineage ps1 && negb lin); [now apply NoDup_keys_del|exact E1].
Qed.

Lemma hstack_map {A} (rows : list A) (f : A -> list cell) (g : A -> cell) :
  hstack (map f rows) (map (fun c => [c]) (map g rows)) = map (fun r => f r ++ [g r]) rows.
Proof. induction rows as [|r rows IH]; cbn; [reflexivity|]. now rewrite IH. Qed.

Lemma nth_map_error {A B} (f : A -> B) l : forall i r d, nth_error l i = Some r -> nth i (map f l) d = f r.
Proof.
  induction l as [|x l IH]; intros i r d H; destruct i; cbn in *; try discriminate.
  - now injection H as ->.
  - now apply IH.
Qed.

Section Stack.
Variable t : table.
Let cols := t_cols t.
Let rows := t_rows t.
Definition scol (c : Z) : prop := {| p_vals := PS (column t c); p_miss := None |}.

Lemma stack_fold cs : forall pre,
  fold_left (fun a q => hstack a (rows_of q)) (map (fun c => PS (column t c)) cs) (map (fun r => map (cell_of cols r) pre) rows)
  = map (fun r => map (cell_of cols r) (pre ++ cs)) rows.
Proof.
  induction cs as [|c cs IH]; intros pre; cbn [map fold_left]; [now rewrite app_nil_r|].
  unfold rows_of at 2. unfold column. fold cols rows. rewrite hstack_map.
  replace (map (fun r => map (cell_of cols r) pre ++ [cell_of cols r c]) rows)
    with (map (fun r => map (cell_of cols r) (pre ++ [c])) rows)
    by (apply map_ext; intros r; now rewrite map_app).
  rewrite IH. rewrite <- app_assoc. reflexivity.
Qed.
Lemma width_fold cs : forall w, fold_left (fun w q => (w + width_of q)%nat) (map (fun c => PS (column t c)) cs) w = (w + length cs)%nat.
Proof. induction cs as [|c cs IH]; intros w; cbn; [lia|]. rewrite IH. lia. Qed.

Lemma column_stack_cols c0 cs :
  column_stack (map (fun c => PS (column t c)) (c0 :: cs))
  = PV (length (c0 :: cs)) (map (fun r => map (cell_of cols r) (c0 :: cs)) rows).
Proof.
  cbn [map column_stack]. f_equal.
  - cbn [width_of]. rewrite width_fold. reflexivity.
  - replace (rows_of (PS (column t c0))) with (map (fun r => map (cell_of cols r) [c0]) rows).
    + rewrite stack_fold. reflexivity.
    + cbn [rows_of]. unfold column. fold cols rows. rewrite map_map. reflexivity.
Qed.

Lemma combine_missing_none n (cs : list Z) : combine_missing n (map p_miss (map scol cs)) = None.
Proof.
  unfold combine_missing. assert (E : existsb is_some (map p_miss (map scol cs)) = false).
  { induction cs as [|c cs IH]; [reflexivity|]. cbn. exact IH. }
  now rewrite E.
Qed.

(* the combined property of a list mapping whose columns are plain table columns *)
Lemma comb_of_cols ps c0 cs : (forall c, In c (c0 :: cs) -> lookup c ps = Some (scol c)) ->
  comb_of ps (c0 :: cs) = {| p_vals := PV (length (c0 :: cs)) (map (fun r => map (cell_of cols r) (c0 :: cs)) rows); p_miss := None |}.
Proof.
  intros H. unfold comb_of.
  assert (E : map (fun c => getd c ps no_prop) (c0 :: cs) = map scol (c0 :: cs)).
  { apply map_ext_in. intros c Hc. unfold getd. now rewrite (H c Hc). }
  rewrite E. rewrite combine_missing_none.
  replace (map p_vals (map scol (c0 :: cs))) with (map (fun c => PS (column t c)) (c0 :: cs)) by (now rewrite map_map).
  now rewrite column_stack_cols.
Qed.

Lemma lookup_table_props c : In c cols -> lookup c (table_props t) = Some (scol c).
Proof.
  unfold table_props. fold cols. intros H. induction cols as [|x r IH]; [destruct H|]. cbn [map lookup].
  destruct (Z.eqb_spec c x) as [->|Hn]; [reflexivity|]. apply IH. destruct H as [H|H]; [congruence|exact H].
Qed.
Lemma keys_table_props : keys (table_props t) = cols.
Proof. unfold keys, table_props. rewrite map_map. cbn. apply map_id. Qed.

Lemma value_at_scol c i r : nth_error rows i = Some r -> value_at (scol c) i = Some (VCell (cell_of cols r c)).
Proof.
  intros H. unfold value_at, scol. cbn [p_miss p_vals]. f_equal. f_equal. unfold column.
  now apply (nth_map_error (fun r0 => cell_of (t_cols t) r0 c)).
Qed.
Lemma value_at_stacked c0 cs i r : nth_error rows i = Some r ->
  value_at {| p_vals := PV (length (c0 :: cs)) (map (fun r => map (cell_of cols r) (c0 :: cs)) rows); p_miss := None |} i
  = Some (VList (map (cell_of cols r) (c0 :: cs))).
Proof.
  intros H. unfold value_at. cbn [p_miss p_vals]. f_equal. f_equal.
  now apply (nth_map_error (fun r0 => map (cell_of cols r0) (c0 :: cs))).
Qed.
End Stack.

(* ================= Part 6: CSV ids and edges ================= *)
Lemma ints_of_Some l : forall zs, ints_of l = Some zs -> l = map CInt zs.
Proof.
  induction l as [|c l IH]; intros zs H; cbn in H; [injection H as <-; reflexivity|].
  destruct c as [z| | |]; cbn in H; try discriminate. destruct (ints_of l) as [zs'|]; [|discriminate].
  injection H as <-. cbn. f_equal. now apply IH.
Qed.
Lemma ints_of_map {A} (rows : list A) (fc : A -> cell) (fi : A -> Z) :
  (forall r, In r rows -> fc r = CInt (fi r)) -> ints_of (map fc rows) = Some (map fi rows).
Proof.
  induction rows as [|r rows IH]; intros H; [reflexivity|]. cbn [map ints_of].
  rewrite (H r (or_introl eq_refl)). cbn. rewrite IH; [reflexivity|]. intros r' Hr'. apply H. now right.
Qed.

Lemma uniq_from_incl seen l c : In c (uniq_from seen l) -> In c l.
Proof.
  revert seen. induction l as [|x l IH]; intros seen H; [exact H|]. cbn in H.
  destruct (memc x seen); [right; eapply IH; eauto|]. destruct H as [->|H]; [now left|right; eapply IH; eauto].
Qed.
Lemma uniq_from_complete l : forall seen c, In c l -> In c seen \/ In c (uniq_from seen l).
Proof.
  induction l as [|x l IH]; intros seen c H; [destruct H|]. cbn.
  destruct (memc x seen) eqn:E.
  - destruct H as [->|H]; [left; now apply memc_In|now apply IH].
  - destruct H as [->|H]; [right; now left|]. destruct (IH (x :: seen) c H) as [[->|H']|H']; [right; now left|now left|right; now right].
Qed.
Lemma map_fst_enum l : forall k, map fst (enum_from k l) = l.
Proof. induction l as [|x l IH]; intros k; cbn; [reflexivity|]. now rewrite IH. Qed.
Lemma cell_lookup_In c m : In c (map fst m) -> exists k, cell_lookup c m = Some k.
Proof.
  induction m as [|[x k] m IH]; [intros []|]. cbn. intros H. destruct (cell_eqb_spec c x) as [->|Hn]; [eauto|].
  destruct H as [H|H]; [congruence|now apply IH].
Qed.
Lemma cell_lookup_Some_In c m k : cell_lookup c m = Some k -> In c (map fst m).
Proof.
  induction m as [|[x j] m IH]; [discriminate|]. cbn. destruct (cell_eqb_spec c x) as [->|Hn]; [now left|]. intros H. right. now apply IH.
Qed.
Lemma cell_lookup_ge c l : forall k j, cell_lookup c (enum_from k l) = Some j -> k <= j.
Proof.
  induction l as [|x l IH]; intros k j H; [discriminate|]. cbn in H.
  destruct (cell_eqb c x); [injection H as <-; lia|]. apply IH in H. lia.
Qed.
Lemma cell_lookup_inj a b l : forall k j, cell_lookup a (enum_from k l) = Some j -> cell_lookup b (enum_from k l) = Some j -> a = b.
Proof.
  induction l as [|x l IH]; intros k j Ha Hb; [discriminate|]. cbn in Ha, Hb.
  destruct (cell_eqb_spec a x) as [->|Hna], (cell_eqb_spec b x) as [->|Hnb].
  - reflexivity.
  - injection Ha as <-. apply cell_lookup_ge in Hb. lia.
  - injection Hb as <-. apply cell_lookup_ge in Ha. lia.
  - eapply IH; eauto.
Qed.
Lemma id_mapping_In ids c : In c ids -> exists k, cell_lookup c (id_mapping ids) = Some k /\ 1 <= k.
Proof.
  intros H. unfold id_mapping. destruct (uniq_from_complete ids [] c H) as [[]|H'].
  destruct (cell_lookup_In c (enum_from 1 (uniq ids))) as [k Hk]; [now rewrite map_fst_enum|].
  exists k. split; [exact Hk|]. now apply cell_lookup_ge in Hk.
Qed.
Lemma id_mapping_notin ids c : ~ In c ids -> cell_lookup c (id_mapping ids) = None.
Proof.
  intros H. destruct (cell_lookup c (id_mapping ids)) eqn:E; [|reflexivity]. exfalso. apply H.
  apply cell_lookup_Some_In in E. unfold id_mapping in E. rewrite map_fst_enum in E. eapply uniq_from_incl; eauto.
Qed.

Lemma renum_inj t ityp nm a b : (ityp = true -> is_int a = true /\ is_int b = true) ->
  In a (column t (id_col nm)) -> In b (column t (id_col nm)) -> renum t ityp nm a = renum t ityp nm b -> a = b.
Proof.
  intros Hint Ha Hb. unfold renum. destruct ityp.
  - destruct (Hint eq_refl) as [Ia Ib]. destruct a, b; try discriminate. cbn. congruence.
  - destruct (id_mapping_In _ _ Ha) as [ka [Ea _]], (id_mapping_In _ _ Hb) as [kb [Eb _]]. rewrite Ea, Eb.
    intros <-. unfold id_mapping in *. eapply cell_lookup_inj; eauto.
Qed.

Lemma edge_tuples_map {A} (rows : list A) (fp : A -> cell) (fi : A -> Z) (e : A -> list (Z * Z)) :
  (forall r, In r rows -> (fp r = CNone /\ e r = []) \/
     (exists z, fp r = CInt z /\ ((z = -1 /\ e r = []) \/ (z <> -1 /\ e r = [(z, fi r)])))) ->
  edge_tuples (map fp rows) (map fi rows) = Some (flat_map e rows).
Proof.
  induction rows as [|r rows IH]; intros H; [reflexivity|]. cbn [map edge_tuples flat_map].
  assert (IH' : edge_tuples (map fp rows) (map fi rows) = Some (flat_map e rows)) by (apply IH; intros r' Hr'; apply H; now right).
  destruct (H r (or_introl eq_refl)) as [[Ep Ee]|[z [Ep [[Ez Ee]|[Ez Ee]]]]]; rewrite Ep, Ee.
  - exact IH'.
  - subst z. cbn. exact IH'.
  - destruct (Z.eqb_spec z (-1)); [contradiction|]. now rewrite IH'.
Qed.

Lemma nodup_edges_rows {A} (rows : list A) (fi : A -> Z) (e : A -> list (Z * Z)) :
  NoDup (map fi rows) -> (forall r, In r rows -> e r = [] \/ exists u, e r = [(u, fi r)]) -> NoDup (flat_map e rows).
Proof.
  induction rows as [|r rows IH]; intros Hnd He; [constructor|]. cbn [flat_map].
  cbn [map] in Hnd. inversion Hnd as [|? ? Hn Hd]; subst.
  assert (IH' : NoDup (flat_map e rows)) by (apply IH; [exact Hd|intros r' Hr'; apply He; now right]).
  destruct (He r (or_introl eq_refl)) as [E|[u E]]; rewrite E; [exact IH'|]. cbn [app]. constructor; [|exact IH'].
  intros Hin. apply in_flat_map in Hin. destruct Hin as [r' [Hr' Hin]].
  destruct (He r' (or_intror Hr')) as [E'|[u' E']]; rewrite E' in Hin; [destruct Hin|]. destruct Hin as [Hin|[]].
  injection Hin as _ Hf. apply Hn. rewrite <- Hf. now apply in_map.
Qed.

Lemma structure_ok_rows {A} (rows : list A) (fi : A -> Z) (e : A -> list (Z * Z)) :
  NoDup (map fi rows) ->
  (forall r, In r rows -> e r = [] \/ exists u, e r = [(u, fi r)] /\ u <> fi r /\ In u (map fi rows)) ->
  structure_ok (map fi rows) (flat_map e rows) = true.
Proof.
  intros Hnd He. unfold structure_ok. rewrite !andb_true_iff. repeat split.
  - now apply nodup_z_NoDup.
  - unfold edges_known. apply forallb_forall. intros [u v] Hin. apply in_flat_map in Hin. destruct Hin as [r [Hr Hin]].
    destruct (He r Hr) as [E|[u' [E [_ Hu]]]]; rewrite E in Hin; [destruct Hin|]. destruct Hin as [Hin|[]]. injection Hin as <- <-.
    cbn [fst snd]. apply andb_true_iff. split; apply memz_In; [exact Hu|now apply in_map].
  - unfold no_self_edges. apply forallb_forall. intros [u v] Hin. apply in_flat_map in Hin. destruct Hin as [r [Hr Hin]].
    destruct (He r Hr) as [E|[u' [E [Hne _]]]]; rewrite E in Hin; [destruct Hin|]. destruct Hin as [Hin|[]]. injection Hin as <- <-.
    cbn [fst snd]. apply negb_true_iff. now apply Z.eqb_neq.
  - apply nodup_pairs_NoDup. apply nodup_edges_rows with (fi := fi); [exact Hnd|].
    intros r Hr. destruct (He r Hr) as [E|[u [E _]]]; [now left|right; now exists u].
Qed.

(* ================= Part 7: the CSV theorems ================= *)
Lemma in_flatten_source ts nm : In ts (flatten nm) -> exists k s, In (k, s) nm /\ In (snd ts) (sources s).
Proof.
  unfold flatten. intros H. apply in_flat_map in H. destruct H as [[k s] [Hin H]]. exists k, s. split; [exact Hin|].
  unfold flatten_entry in H. cbn [fst snd] in H. destruct s as [c|cs]; cbn.
  - destruct H as [<-|[]]. now left.
  - apply in_map_iff in H. destruct H as [c [<- Hc]]. exact Hc.
Qed.

(* the property dict handed to validate / construct *)
Definition csv_props (t : table) (nm : name_map) : props :=
  combine_multi nm (del k_parent (del k_id (renamed (table_props t) nm))).
(* the part of the import after the name map and the raw id column have been validated *)
Definition csv_core (t : table) (ityp trk lin : bool) (nm : name_map) (nd : nat) : outcome graph :=
  let idc0 := column t (id_col nm) in
  let parc0 := column t (par_col nm) in
  let m := id_mapping idc0 in
  let idc := if ityp then idc0 else map (map_cell m) idc0 in
  let parc := if ityp then parc0 else map (map_cell m) parc0 in
  if negb ityp && existsb (is_unknown m) parc0 then ValueErr else
  match ints_of idc with
  | Some ids => match edge_tuples parc ids with
                | Some es => finish (Some nd) trk lin ids es (csv_props t nm)
                | None => ValueErr
                end
  | None => ValueErr
  end.

Lemma import_csv_wf_map t ityp trk lin nm : wf_map (t_cols t) nm = true ->
  exists pcs, lookup k_pos nm = Some (Multi pcs) /\
    import_csv t ityp trk lin nm = if nodup_cells (column t (id_col nm)) then csv_core t ityp trk lin nm (S (length pcs)) else ValueErr.
Proof.
  intros Hwf. pose proof (wf_map_inv _ _ Hwf) as [Hnd [Hid [Hpar [Htime [[pcs [Hpos [Hlen Hell]]] [Hne Hsrc]]]]]].
  destruct (clean_facts _ Hnd) as [Hk [Ht [Hmk Hkm]]].
  exists pcs. split; [exact Hpos|].
  unfold import_csv. destruct nm as [|kv0 nm'] eqn:Enm; [discriminate|]. rewrite <- Enm in *. clear Enm kv0 nm'.
  unfold import_csv_body.
  assert (Hhp : haskey k_pos nm = true) by (unfold haskey; now rewrite Hpos).
  rewrite (preprocess_id nm Hhp Hne).
  rewrite (wf_map_validate _ _ csv_required Hwf) by (intros k Hk'; exact Hk'). cbn [negb].
  rewrite rename_clean; [|exact Ht|].
  2:{ intros ts Hts. rewrite keys_table_props. destruct (in_flatten_source _ _ Hts) as [k [s [Hin Hs]]]. eapply Hsrc; eauto. }
  assert (Hcid : In (id_col nm) (t_cols t)) by (eapply Hsrc; [eapply lookup_In; exact Hid|now left]).
  assert (Hcpar : In (par_col nm) (t_cols t)) by (eapply Hsrc; [eapply lookup_In; exact Hpar|now left]).
  rewrite (lookup_renamed _ nm k_id (id_col nm) Ht) by (apply in_flatten_single; eapply lookup_In; exact Hid).
  rewrite (lookup_renamed _ nm k_parent (par_col nm) Ht) by (apply in_flatten_single; eapply lookup_In; exact Hpar).
  unfold getd. rewrite (lookup_table_props t _ Hcid), (lookup_table_props t _ Hcpar).
  unfold scol, cells_of. cbn [p_vals]. destruct (nodup_cells (column t (id_col nm))); cbn [negb]; [|reflexivity].
  unfold ndim_of_map. rewrite Hpos. unfold csv_core, csv_props. reflexivity.
Qed.

(* what the property dict of a clean, valid name map holds *)
Lemma csv_props_spec t nm : wf_map (t_cols t) nm = true ->
  let ps := csv_props t nm in
  NoDup (keys ps) /\
  (forall k c, lookup k nm = Some (Single c) -> k <> k_id -> k <> k_parent -> lookup k ps = Some (scol t c)) /\
  (forall k c0 cs, lookup k nm = Some (Multi (c0 :: cs)) ->
     lookup k ps = Some {| p_vals := PV (length (c0 :: cs)) (map (fun r => map (cell_of (t_cols t) r) (c0 :: cs)) (t_rows t)); p_miss := None |}) /\
  (forall x, In x (keys ps) -> haskey x nm = true /\ x <> k_id /\ x <> k_parent).
Proof.
  intros Hwf ps. pose proof (wf_map_inv _ _ Hwf) as [Hnd [Hid [Hpar [Htime [[pcs [Hpos [Hlen Hell]]] [Hne Hsrc]]]]]].
  destruct (clean_facts _ Hnd) as [Hk [Ht [Hmk Hkm]]].
  set (df := renamed (table_props t) nm). set (ps0 := del k_parent (del k_id df)).
  assert (P1 : NoDup (keys ps0)).
  { unfold ps0. apply NoDup_keys_del, NoDup_keys_del. unfold df. now rewrite keys_renamed. }
  assert (P2 : forall k c, In (k, c) (flatten nm) -> k <> k_id -> k <> k_parent -> lookup k ps0 = Some (scol t c)).
  { intros k c Hin H1 H2. unfold ps0. rewrite !lookup_del_neq by assumption. unfold df. rewrite (lookup_renamed _ nm k c Ht Hin).
    unfold getd. rewrite lookup_table_props; [reflexivity|]. destruct (in_flatten_source _ _ Hin) as [k' [s [Hin' Hs]]]. eapply Hsrc; eauto. }
  assert (Hmc_ne : forall c, In c (multi_cols nm) -> c <> k_id /\ c <> k_parent).
  { intros c Hc. split; intros ->; (eapply Hkm; [|exact Hc]); eapply lookup_Some_keys; eauto. }
  assert (Hsrc0 : forall k cs c, In (k, Multi cs) nm -> In c cs -> In c (keys ps0)).
  { intros k cs c Hin Hc. destruct (Hmc_ne c (in_multi_cols _ _ _ _ Hin Hc)) as [H1 H2].
    eapply lookup_Some_keys. apply P2; [eapply in_flatten_multi; eauto|exact H1|exact H2]. }
  assert (L : forall x, lookup x ps = final_spec ps0 nm x) by (intros x; apply combine_multi_lookup; assumption).
  assert (Hkeymc : forall x, In x (keys nm) -> memz x (multi_cols nm) = false) by (intros x Hx; apply memz_false; now apply Hkm).
  split; [apply combine_multi_nodup; exact P1|]. split; [|split].
  - intros k c Hl H1 H2. rewrite L. unfold final_spec. rewrite Hl, (Hkeymc k (lookup_Some_keys _ _ _ Hl)).
    apply P2; [apply in_flatten_single; eapply lookup_In; eauto|exact H1|exact H2].
  - intros k c0 cs Hl. rewrite L. unfold final_spec. rewrite Hl. f_equal. apply comb_of_cols. intros c Hc.
    pose proof (lookup_In _ _ _ Hl) as Hin. destruct (Hmc_ne c (in_multi_cols _ _ _ _ Hin Hc)) as [H1 H2].
    apply P2; [eapply in_flatten_multi; eauto|exact H1|exact H2].
  - intros x Hx.
    assert (Hdel : forall k, (k = k_id \/ k = k_parent) -> In k (keys nm) -> lookup k ps = None).
    { intros k Hk' Hkn. rewrite L. unfold final_spec.
      assert (El : exists c, lookup k nm = Some (Single c)) by (destruct Hk' as [->| ->]; eauto).
      destruct El as [c El]. rewrite El, (Hkeymc k Hkn). unfold ps0.
      destruct Hk' as [->| ->]; [|apply lookup_del_eq]. rewrite lookup_del_neq by discriminate. apply lookup_del_eq. }
    assert (Hx' : lookup x ps <> None) by (intros E; apply lookup_None_keys in E; contradiction).
    apply combine_multi_keys in Hx. destruct Hx as [Hx|Hx].
    + unfold ps0 in Hx. apply in_keys_del in Hx. destruct Hx as [H2 Hx]. apply in_keys_del in Hx. destruct Hx as [H1 Hx].
      unfold df in Hx. rewrite keys_renamed in Hx. destruct (in_targets_inv _ _ Hx) as [[c Hc]|Hm].
      * split; [|split; assumption]. apply haskey_keys. unfold keys. apply in_map_iff. now exists (x, Single c).
      * exfalso. apply Hx'. rewrite L. unfold final_spec.
        assert (El : lookup x nm = None) by (apply lookup_None_keys; intros Hi; exact (Hkm x Hi Hm)).
        rewrite El. apply memz_In in Hm. now rewrite Hm.
    + split; [now apply haskey_keys|]. split; intros ->; apply Hx'; apply Hdel; auto.
Qed.

Lemma csv_props_spatial t nm pcs : wf_map (t_cols t) nm = true -> lookup k_pos nm = Some (Multi pcs) ->
  spatial_props_ok (Some (S (length pcs))) (csv_props t nm) = true.
Proof.
  intros Hwf Hpos. destruct (csv_props_spec t nm Hwf) as [Hnd [HS [HM HK]]].
  pose proof (wf_map_inv _ _ Hwf) as [_ [_ [_ [_ [[pcs' [Hpos' [Hlen Hell]]] [Hne _]]]]]].
  rewrite Hpos in Hpos'. injection Hpos' as <-.
  unfold spatial_props_ok. apply forallb_forall. intros [x p] Hin. cbn [fst snd]. rewrite memz_sd.
  replace (S (length pcs) - 1)%nat with (length pcs) by lia.
  pose proof (In_lookup _ _ _ Hnd Hin) as Hl.
  destruct (Z.eqb_spec x k_pos) as [->|Hn1]; cbn [orb].
  - destruct pcs as [|c0 cs]; [cbn in Hlen; lia|]. rewrite (HM _ _ _ Hpos) in Hl. injection Hl as <-. cbn [p_vals width_of]. apply Nat.eqb_refl.
  - destruct (Z.eqb_spec x k_ell) as [->|Hn2]; [|reflexivity].
    destruct (HK k_ell (lookup_Some_keys _ _ _ Hl)) as [Hh _]. unfold haskey in Hh.
    destruct (lookup k_ell nm) as [s|] eqn:El; [|discriminate]. destruct (Hell s eq_refl) as [cs [-> Hl2]].
    destruct cs as [|c0 cs]; [rewrite <- Hl2 in Hlen; cbn in Hlen; lia|].
    rewrite (HM _ _ _ El) in Hl. injection Hl as <-. cbn [p_vals width_of]. now apply Nat.eqb_eq.
Qed.

Lemma wf_table_inv t ityp nm : wf_table t ityp nm = true ->
  let ids := column t (id_col nm) in
  NoDup ids /\ ~ In CNone ids /\ ~ In (CInt (-1)) ids /\ ~ In empty_str ids /\
  (ityp = true -> forall c, In c ids -> is_int c = true) /\
  (forall r, In r (t_rows t) -> let p := cell_of (t_cols t) r (par_col nm) in
     no_parent ityp p = true \/ (In p ids /\ p <> cell_of (t_cols t) r (id_col nm))).
Proof.
  unfold wf_table. rewrite !andb_true_iff. intros [[[[[[[_ _] H4] H5] H6] H6'] H7] H8]. cbn zeta.
  split; [now apply nodup_cells_NoDup|]. split; [apply memc_false; now apply negb_true_iff|].
  split; [apply memc_false; now apply negb_true_iff|]. split; [apply memc_false; now apply negb_true_iff|]. split.
  - intros -> c Hc. cbn in H7. rewrite forallb_forall in H7. now apply H7.
  - intros r Hr. rewrite forallb_forall in H8. specialize (H8 r Hr). cbn zeta in H8. apply orb_true_iff in H8.
    destruct H8 as [H8|H8]; [now left|right]. apply andb_true_iff in H8. destruct H8 as [Ha Hb]. split; [now apply memc_In|].
    intros E. rewrite <- E, cell_eqb_refl in Hb. discriminate.
Qed.

Lemma is_none_cases p : is_none p = true -> p = CNone \/ p = CInt (-1).
Proof. destruct p as [z| | |]; cbn; try discriminate; [|now left]. intros H. apply Z.eqb_eq in H. right. now subst. Qed.
Lemma no_parent_cases ityp p : no_parent ityp p = true -> p = CNone \/ p = CInt (-1) \/ (ityp = false /\ p = empty_str).
Proof.
  unfold no_parent. intros H. apply orb_true_iff in H. destruct H as [H|H]; [destruct (is_none_cases _ H); tauto|].
  apply andb_true_iff in H. destruct H as [H1 H2]. right. right. split; [now destruct ityp|].
  destruct (cell_eqb_spec p empty_str); [assumption|discriminate].
Qed.
Lemma is_unknown_false_id ids p : In p ids -> is_unknown (id_mapping ids) p = false.
Proof.
  intros H. unfold is_unknown. assert (E : memc p (map fst (id_mapping ids)) = true).
  { apply memc_In. unfold id_mapping. rewrite map_fst_enum. destruct (uniq_from_complete ids [] p H) as [[]|H']. exact H'. }
  rewrite E. cbn. now rewrite andb_false_r.
Qed.
Lemma is_unknown_true ids p : ~ In p ids -> p <> CNone -> p <> empty_str -> p <> CInt (-1) -> is_unknown (id_mapping ids) p = true.
Proof.
  intros H H1 H2 H3. unfold is_unknown. assert (E : memc p (map fst (id_mapping ids)) = false).
  { apply memc_false. unfold id_mapping. rewrite map_fst_enum. intros Hi. apply H. eapply uniq_from_incl; eauto. }
  rewrite E. destruct (cell_eqb_spec p CNone); [contradiction|]. destruct (cell_eqb_spec p empty_str); [contradiction|].
  destruct (cell_eqb_spec p (CInt (-1))); [contradiction|]. reflexivity.
Qed.

(* the edges that the property asks for *)
Definition row_edge (t : table) (ityp : bool) (nm : name_map) (r : list cell) : list (Z * Z) :=
  let p := cell_of (t_cols t) r (par_col nm) in
  if no_parent ityp p then [] else [(renum t ityp nm p, renum t ityp nm (cell_of (t_cols t) r (id_col nm)))].

Lemma csv_core_wf t ityp trk lin nm nd : wf_table t ityp nm = true ->
  spatial_props_ok (Some nd) (csv_props t nm) = true ->
  csv_core t ityp trk lin nm nd =
    Ok (construct (map (fun r => renum t ityp nm (cell_of (t_cols t) r (id_col nm))) (t_rows t))
                  (flat_map (row_edge t ityp nm) (t_rows t))
                  (drop_invalid trk lin (csv_props t nm))).
Proof.
  intros Hwt Hsp. destruct (wf_table_inv _ _ _ Hwt) as [Hnd [Hnone [Hm1 [Hes [Hint Hpar]]]]].
  set (cols := t_cols t) in *. set (cid := id_col nm) in *. set (cpar := par_col nm) in *.
  set (ids0 := column t cid) in *. set (m := id_mapping ids0).
  assert (Hin_ids : forall r, In r (t_rows t) -> In (cell_of cols r cid) ids0).
  { intros r Hr. unfold ids0, column. apply in_map_iff. now exists r. }
  assert (Hren_id : forall c, In c ids0 -> (if ityp then c else map_cell m c) = CInt (renum t ityp nm c)).
  { intros c Hc. unfold renum. fold cid ids0 m. destruct ityp eqn:Ei.
    - specialize (Hint eq_refl c Hc). destruct c; try discriminate. reflexivity.
    - unfold map_cell. destruct (id_mapping_In _ _ Hc) as [k [Ek _]]. fold m in Ek. now rewrite Ek. }
  unfold csv_core. fold cid cpar ids0 m.
  assert (E0 : negb ityp && existsb (is_unknown m) (column t cpar) = false).
  { destruct ityp; [reflexivity|]. cbn [negb andb]. destruct (existsb (is_unknown m) (column t cpar)) eqn:E; [|reflexivity].
    exfalso. apply existsb_exists in E. destruct E as [p [Hp Hu]]. unfold column in Hp. apply in_map_iff in Hp.
    destruct Hp as [r [<- Hr]]. fold cols in Hu. destruct (Hpar r Hr) as [Hn|[Hp _]].
    - unfold is_unknown in Hu. destruct (no_parent_cases _ _ Hn) as [E|[E|[_ E]]]; rewrite E in Hu; cbn in Hu;
        rewrite ?andb_false_r in Hu; discriminate.
    - unfold m in Hu. rewrite (is_unknown_false_id _ _ Hp) in Hu. discriminate. }
  rewrite E0.
  assert (E1 : ints_of (if ityp then ids0 else map (map_cell m) ids0)
               = Some (map (fun r => renum t ityp nm (cell_of cols r cid)) (t_rows t))).
  { replace (if ityp then ids0 else map (map_cell m) ids0)
      with (map (fun r => if ityp then cell_of cols r cid else map_cell m (cell_of cols r cid)) (t_rows t)).
    - apply ints_of_map. intros r Hr. now apply Hren_id, Hin_ids.
    - unfold ids0, column. fold cols. destruct ityp; [reflexivity|now rewrite map_map]. }
  rewrite E1.
  assert (E2 : edge_tuples (if ityp then column t cpar else map (map_cell m) (column t cpar))
                 (map (fun r => renum t ityp nm (cell_of cols r cid)) (t_rows t))
               = Some (flat_map (row_edge t ityp nm) (t_rows t))).
  { replace (if ityp then column t cpar else map (map_cell m) (column t cpar))
      with (map (fun r => if ityp then cell_of cols r cpar else map_cell m (cell_of cols r cpar)) (t_rows t))
      by (unfold column; fold cols; destruct ityp; [reflexivity|now rewrite map_map]).
    apply edge_tuples_map. intros r Hr. unfold row_edge. fold cols cpar cid.
    destruct (Hpar r Hr) as [Hn|[Hp Hne]].
    - rewrite Hn. destruct (no_parent_cases _ _ Hn) as [E|[E|[Ei E]]]; rewrite E.
      + left. split; [|reflexivity]. destruct ityp; [reflexivity|]. unfold map_cell, m. now rewrite (id_mapping_notin _ _ Hnone).
      + destruct ityp.
        * right. exists (-1). split; [reflexivity|]. left. now split.
        * left. split; [|reflexivity]. unfold map_cell, m. now rewrite (id_mapping_notin _ _ Hm1).
      + subst ityp. left. split; [|reflexivity]. unfold map_cell, m. now rewrite (id_mapping_notin _ _ Hes).
    - assert (Hnn : no_parent ityp (cell_of cols r cpar) = false).
      { destruct (no_parent ityp (cell_of cols r cpar)) eqn:E; [|reflexivity]. exfalso.
        destruct (no_parent_cases _ _ E) as [E'|[E'|[_ E']]]; rewrite E' in Hp; contradiction. }
      rewrite Hnn. right. exists (renum t ityp nm (cell_of cols r cpar)). split; [now apply Hren_id|]. right. split; [|reflexivity].
      unfold renum. fold cid ids0 m. destruct ityp eqn:Ei.
      + specialize (Hint eq_refl _ Hp). destruct (cell_of cols r cpar) as [z| | |] eqn:Ec; try discriminate. cbn.
        intros ->. now apply Hm1.
      + destruct (id_mapping_In _ _ Hp) as [k [Ek Hk]]. fold m in Ek. rewrite Ek. lia. }
  rewrite E2. unfold finish. rewrite Hsp. cbn [negb].
  rewrite structure_ok_rows; [reflexivity| |].
  - replace (map (fun r => renum t ityp nm (cell_of cols r cid)) (t_rows t)) with (map (renum t ityp nm) ids0)
      by (unfold ids0, column; now rewrite map_map).
    apply NoDup_map_inj_in; [|exact Hnd]. intros a b Ha Hb. apply renum_inj; [|exact Ha|exact Hb].
    intros Ei. split; now apply Hint.
  - intros r Hr. unfold row_edge. fold cols cpar cid.
    destruct (no_parent ityp (cell_of cols r cpar)) eqn:En; [now left|right].
    destruct (Hpar r Hr) as [Hn|[Hp Hne]]; [congruence|].
    eexists. split; [reflexivity|]. split.
    + intros E. apply Hne. eapply renum_inj; [|exact Hp|now apply Hin_ids|exact E].
      intros Ei. split; apply Hint; auto.
    + unfold ids0, column in Hp. apply in_map_iff in Hp. destruct Hp as [r' [E Hr']]. apply in_map_iff. exists r'. split; [|exact Hr'].
      fold cols in E. now rewrite E.
Qed.

Lemma wf_table_nodup t ityp nm : wf_table t ityp nm = true -> nodup_cells (column t (id_col nm)) = true.
Proof. intros H. destruct (wf_table_inv _ _ _ H) as [Hnd _]. now apply nodup_cells_NoDup. Qed.

(* ---- (1) nodes and edges, (4) the renumbering ---- *)
Theorem csv_nodes_edges : forall t ityp trk lin nm,
  wf_map (t_cols t) nm = true -> wf_table t ityp nm = true ->
  exists g, import_csv t ityp trk lin nm = Ok g /\
    map fst (g_nodes g) = map (fun r => renum t ityp nm (cell_of (t_cols t) r (id_col nm))) (t_rows t) /\
    g_edges g = flat_map (row_edge t ityp nm) (t_rows t).
Proof.
  intros t ityp trk lin nm Hwm Hwt. destruct (import_csv_wf_map t ityp trk lin nm Hwm) as [pcs [Hpos E]].
  rewrite (wf_table_nodup _ _ _ Hwt) in E.
  rewrite (csv_core_wf t ityp trk lin nm _ Hwt (csv_props_spatial t nm pcs Hwm Hpos)) in E.
  eexists. split; [exact E|]. cbn [g_nodes g_edges construct]. split; [apply construct_nodes_fst|reflexivity].
Qed.

Theorem csv_edges_iff : forall t ityp trk lin nm g,
  wf_map (t_cols t) nm = true -> wf_table t ityp nm = true -> import_csv t ityp trk lin nm = Ok g ->
  forall u v, In (u, v) (g_edges g) <->
    exists r, In r (t_rows t) /\ no_parent ityp (cell_of (t_cols t) r (par_col nm)) = false /\
              u = renum t ityp nm (cell_of (t_cols t) r (par_col nm)) /\
              v = renum t ityp nm (cell_of (t_cols t) r (id_col nm)).
Proof.
  intros t ityp trk lin nm g Hwm Hwt Hg u v. destruct (csv_nodes_edges t ityp trk lin nm Hwm Hwt) as [g' [Hg' [_ He]]].
  rewrite Hg in Hg'. injection Hg' as <-. rewrite He, in_flat_map. unfold row_edge. split.
  - intros [r [Hr Hin]]. exists r. destruct (no_parent _ _); [destruct Hin|]. destruct Hin as [Hin|[]]. injection Hin as <- <-. auto.
  - intros [r [Hr [Hn [-> ->]]]]. exists r. split; [exact Hr|]. rewrite Hn. now left.
Qed.

Theorem renumber_injective : forall t ityp nm, wf_table t ityp nm = true ->
  (forall a b, In a (column t (id_col nm)) -> In b (column t (id_col nm)) -> renum t ityp nm a = renum t ityp nm b -> a = b) /\
  (ityp = true -> forall z, renum t ityp nm (CInt z) = z).
Proof.
  intros t ityp nm Hwt. destruct (wf_table_inv _ _ _ Hwt) as [_ [_ [_ [_ [Hint _]]]]]. split.
  - intros a b Ha Hb. apply renum_inj; [|exact Ha|exact Hb]. intros Ei. split; now apply Hint.
  - intros -> z. reflexivity.
Qed.

(* ---- (2) values ---- *)
Theorem csv_values : forall t ityp trk lin nm g,
  wf_map (t_cols t) nm = true -> wf_table t ityp nm = true -> import_csv t ityp trk lin nm = Ok g ->
  forall i r, nth_error (t_rows t) i = Some r ->
  exists attrs, nth_error (g_nodes g) i = Some (renum t ityp nm (cell_of (t_cols t) r (id_col nm)), attrs) /\
    (forall k c, lookup k nm = Some (Single c) -> k <> k_id -> k <> k_parent ->
       (k = k_track -> trk = true) -> (k = k_lineage -> lin = true) ->
       lookup k attrs = Some (VCell (cell_of (t_cols t) r c))) /\
    (forall k cs, lookup k nm = Some (Multi cs) ->
       (k = k_track -> trk = true) -> (k = k_lineage -> lin = true) ->
       lookup k attrs = Some (VList (map (cell_of (t_cols t) r) cs))) /\
    (forall k, In k (keys attrs) -> haskey k nm = true /\ k <> k_id /\ k <> k_parent).
Proof.
  intros t ityp trk lin nm g Hwm Hwt Hg i r Hi. destruct (import_csv_wf_map t ityp trk lin nm Hwm) as [pcs [Hpos E]].
  rewrite (wf_table_nodup _ _ _ Hwt) in E.
  rewrite (csv_core_wf t ityp trk lin nm _ Hwt (csv_props_spatial t nm pcs Hwm Hpos)) in E.
  rewrite Hg in E. injection E as ->. cbn [g_nodes construct].
  destruct (csv_props_spec t nm Hwm) as [Hnd [HS [HM HK]]].
  set (ps := drop_invalid trk lin (csv_props t nm)).
  assert (Hndp : NoDup (keys ps)) by (now apply drop_invalid_nodup).
  eexists. split.
  - erewrite construct_nodes_nth; [reflexivity|].
    now apply (map_nth_error (fun r0 => renum t ityp nm (cell_of (t_cols t) r0 (id_col nm)))).
  - cbn [Nat.add]. split; [|split].
    + intros k c Hl H1 H2 H3 H4. rewrite lookup_node_attrs by exact Hndp. unfold ps.
      rewrite drop_invalid_lookup by assumption. rewrite (HS k c Hl H1 H2). now apply value_at_scol.
    + intros k cs Hl H3 H4. rewrite lookup_node_attrs by exact Hndp. unfold ps. rewrite drop_invalid_lookup by assumption.
      destruct cs as [|c0 cs].
      * exfalso. pose proof (wf_map_inv _ _ Hwm) as [_ [_ [_ [_ [_ [Hne _]]]]]]. rewrite forallb_forall in Hne.
        specialize (Hne _ (lookup_In _ _ _ Hl)). discriminate.
      * rewrite (HM k c0 cs Hl). now apply value_at_stacked.
    + intros k Hk. apply node_attrs_keys in Hk. unfold ps in Hk. apply drop_invalid_keys in Hk. now apply HK.
Qed.

(* ---- (3) rejection ---- *)
Lemma forallb_false_intro {A} (f : A -> bool) l x : In x l -> f x = false -> forallb f l = false.
Proof.
  intros Hin Hf. destruct (forallb f l) eqn:E; [|reflexivity]. rewrite forallb_forall in E. rewrite (E x Hin) in Hf. discriminate.
Qed.

Lemma finish_cases nd trk lin ids es ps :
  (structure_ok ids es = true /\ exists g, finish nd trk lin ids es ps = Ok g) \/ finish nd trk lin ids es ps = ValueErr.
Proof.
  unfold finish. destruct (spatial_props_ok nd ps); cbn [negb]; [|now right].
  destruct (structure_ok ids es); cbn [negb]; [left; split; [reflexivity|eauto]|now right].
Qed.

Lemma ints_of_zof l zs : ints_of l = Some zs -> zs = map zof l.
Proof. intros H. apply ints_of_Some in H. subst l. rewrite map_map. cbn. symmetry. apply map_id. Qed.

Lemma edge_tuples_In ps : forall ids es, edge_tuples ps ids = Some es ->
  forall z i, In (CInt z, i) (List.combine ps ids) -> z <> -1 -> In (z, i) es.
Proof.
  induction ps as [|p ps IH]; intros ids es H z i Hin Hz; [destruct Hin|].
  destruct ids as [|i0 ids]; [destruct Hin|]. cbn [List.combine] in Hin. cbn [edge_tuples] in H.
  destruct Hin as [Hin|Hin].
  - injection Hin as -> ->. destruct (Z.eqb_spec z (-1)); [contradiction|].
    destruct (edge_tuples ps ids); [|discriminate]. injection H as <-. now left.
  - destruct p as [z'| | |]; try discriminate.
    + destruct (z' =? -1); [eapply IH; eauto|]. destruct (edge_tuples ps ids) as [es'|] eqn:E; [|discriminate].
      injection H as <-. right. eapply IH; eauto.
    + eapply IH; eauto.
Qed.

Lemma in_combine_map {A B C} (f : A -> B) (g : A -> C) l r : In r l -> In (f r, g r) (List.combine (map f l) (map g l)).
Proof. induction l as [|x l IH]; intros H; [destruct H|]. cbn. destruct H as [->|H]; [now left|right; now apply IH]. Qed.

(* under a valid clean name map the outcome is a graph or ValueError, and a graph passes every check *)
Lemma import_csv_outcome t ityp trk lin nm : wf_map (t_cols t) nm = true ->
  import_csv t ityp trk lin nm = ValueErr \/
  exists g ids es,
    import_csv t ityp trk lin nm = Ok g /\ nodup_cells (column t (id_col nm)) = true /\
    (ityp = false -> existsb (is_unknown (id_mapping (column t (id_col nm)))) (column t (par_col nm)) = false) /\
    ints_of (if ityp then column t (id_col nm) else map (map_cell (id_mapping (column t (id_col nm)))) (column t (id_col nm))) = Some ids /\
    edge_tuples (if ityp then column t (par_col nm) else map (map_cell (id_mapping (column t (id_col nm)))) (column t (par_col nm))) ids = Some es /\
    structure_ok ids es = true.
Proof.
  intros Hwm. destruct (import_csv_wf_map t ityp trk lin nm Hwm) as [pcs [_ E]]. rewrite E.
  destruct (nodup_cells _); [|now left]. unfold csv_core.
  destruct (negb ityp && existsb _ _) eqn:E0; [now left|].
  destruct (ints_of _) as [ids|] eqn:E1; [|now left]. destruct (edge_tuples _ ids) as [es|] eqn:E2; [|now left].
  destruct (finish_cases (Some (S (length pcs))) trk lin ids es (csv_props t nm)) as [[Hs [g Hg]]|Hv]; [|now left].
  right. exists g, ids, es. repeat split; auto. intros ->. exact E0.
Qed.

(* (3a) two rows with the same id (in the MAPPED id column) *)
Theorem csv_reject_duplicate_id : forall t ityp trk lin nm,
  wf_map (t_cols t) nm = true -> nodup_cells (column t (id_col nm)) = false ->
  import_csv t ityp trk lin nm = ValueErr.
Proof.
  intros t ityp trk lin nm Hwm Hdup. destruct (import_csv_wf_map t ityp trk lin nm Hwm) as [pcs [_ E]]. now rewrite E, Hdup.
Qed.

(* (3b) a parent that is neither "no parent" nor an id *)
Theorem csv_reject_unknown_parent : forall t ityp trk lin nm r,
  wf_map (t_cols t) nm = true -> In r (t_rows t) ->
  no_parent ityp (cell_of (t_cols t) r (par_col nm)) = false ->
  ~ In (cell_of (t_cols t) r (par_col nm)) (column t (id_col nm)) ->
  (ityp = true -> is_int (cell_of (t_cols t) r (par_col nm)) = true) ->
  import_csv t ityp trk lin nm = ValueErr.
Proof.
  intros t ityp trk lin nm r Hwm Hr Hnp Hni Hint.
  destruct (import_csv_outcome t ityp trk lin nm Hwm) as [E|[g [ids [es [_ [_ [E0 [E1 [E2 Hs]]]]]]]]]; [exact E|].
  exfalso. destruct ityp.
  - specialize (Hint eq_refl). destruct (cell_of (t_cols t) r (par_col nm)) as [z| | |] eqn:Hp; try discriminate.
    assert (Hz : z <> -1) by (intros ->; unfold no_parent in Hnp; cbn in Hnp; discriminate).
    cbn iota in E1, E2. pose proof (ints_of_zof _ _ E1) as Hids. pose proof (ints_of_Some _ _ E1) as Hcol.
    unfold column in Hids at 1. rewrite map_map in Hids.
    assert (Hin : In (z, zof (cell_of (t_cols t) r (id_col nm))) es).
    { eapply edge_tuples_In; [exact E2| |exact Hz]. rewrite Hids. unfold column. rewrite <- Hp.
      apply (in_combine_map (fun r => cell_of (t_cols t) r (par_col nm)) (fun r => zof (cell_of (t_cols t) r (id_col nm)))). exact Hr. }
    unfold structure_ok in Hs. rewrite !andb_true_iff in Hs. destruct Hs as [[[_ Hk] _] _].
    unfold edges_known in Hk. rewrite forallb_forall in Hk. specialize (Hk _ Hin). cbn [fst snd] in Hk.
    apply andb_true_iff in Hk. destruct Hk as [Hk _]. apply memz_In in Hk. apply Hni. rewrite Hcol. now apply in_map.
  - specialize (E0 eq_refl). assert (existsb (is_unknown (id_mapping (column t (id_col nm)))) (column t (par_col nm)) = true); [|congruence].
    apply existsb_exists. exists (cell_of (t_cols t) r (par_col nm)). split; [unfold column; apply in_map_iff; now exists r|].
    unfold no_parent in Hnp. cbn [negb andb] in Hnp. apply orb_false_iff in Hnp. destruct Hnp as [Hn1 Hn2].
    apply is_unknown_true; [exact Hni| | |]; intros E; rewrite E in *; discriminate.
Qed.

(* (3c) a row that is its own parent *)
Theorem csv_reject_self_parent : forall t ityp trk lin nm r,
  wf_map (t_cols t) nm = true -> In r (t_rows t) ->
  cell_of (t_cols t) r (par_col nm) = cell_of (t_cols t) r (id_col nm) ->
  (ityp = true -> is_none (cell_of (t_cols t) r (par_col nm)) = false) ->
  import_csv t ityp trk lin nm = ValueErr.
Proof.
  intros t ityp trk lin nm r Hwm Hr Heq Hnn.
  destruct (import_csv_outcome t ityp trk lin nm Hwm) as [E|[g [ids [es [_ [_ [_ [E1 [E2 Hs]]]]]]]]]; [exact E|].
  exfalso. set (cols := t_cols t) in *. set (cid := id_col nm) in *. set (cpar := par_col nm) in *.
  set (m := id_mapping (column t cid)) in *.
  set (fc := fun r0 : list cell => if ityp then cell_of cols r0 cid else map_cell m (cell_of cols r0 cid)).
  set (fp := fun r0 : list cell => if ityp then cell_of cols r0 cpar else map_cell m (cell_of cols r0 cpar)).
  assert (Eidc : (if ityp then column t cid else map (map_cell m) (column t cid)) = map fc (t_rows t)).
  { unfold fc, column. fold cols. destruct ityp; [reflexivity|now rewrite map_map]. }
  assert (Eparc : (if ityp then column t cpar else map (map_cell m) (column t cpar)) = map fp (t_rows t)).
  { unfold fp, column. fold cols. destruct ityp; [reflexivity|now rewrite map_map]. }
  rewrite Eidc in E1. rewrite Eparc in E2.
  pose proof (ints_of_zof _ _ E1) as Hids. rewrite map_map in Hids. pose proof (ints_of_Some _ _ E1) as Hcol.
  assert (Hfr : fc r = CInt (zof (fc r))).
  { assert (In (fc r) (map CInt ids)) as Hi by (rewrite <- Hcol; now apply in_map).
    apply in_map_iff in Hi. destruct Hi as [z [<- _]]. reflexivity. }
  assert (Hpr : fp r = fc r) by (unfold fp, fc; now rewrite Heq).
  assert (Hz : zof (fc r) <> -1).
  { unfold fc in *. destruct ityp.
    - specialize (Hnn eq_refl). rewrite Heq in Hnn. rewrite Hfr in Hnn. cbn in Hnn. now apply Z.eqb_neq.
    - unfold map_cell in *. assert (Hi : In (cell_of cols r cid) (column t cid)) by (unfold column; apply in_map_iff; now exists r).
      destruct (id_mapping_In _ _ Hi) as [k [Ek Hk]]. fold m in Ek. rewrite Ek. cbn. lia. }
  assert (Hin : In (zof (fc r), zof (fc r)) es).
  { eapply edge_tuples_In; [exact E2| |exact Hz]. rewrite Hids, <- Hfr. rewrite <- Hpr at 1.
    apply (in_combine_map fp (fun r0 => zof (fc r0))). exact Hr. }
  unfold structure_ok in Hs. rewrite !andb_true_iff in Hs. destruct Hs as [[_ Hself] _].
  unfold no_self_edges in Hself. rewrite forallb_forall in Hself. specialize (Hself _ Hin). cbn [fst snd] in Hself.
  now rewrite Z.eqb_refl in Hself.
Qed.

(* (3d, 3e) malformed name maps: generic in the required keys and the available columns *)
Lemma legacy_step_None k (st : name_map * list Z) c : lookup k (fst st) = None -> lookup k (fst (legacy_step st c)) = None.
Proof.
  intros H. unfold legacy_step. destruct (lookup c (fst st)) as [[c'|cs]|] eqn:E; cbn [fst]; [| |exact H];
    (destruct (Z.eq_dec k c) as [->|Hn]; [apply lookup_del_eq|now rewrite lookup_del_neq]).
Qed.
Lemma legacy_fold_None k l : forall st : name_map * list Z, lookup k (fst st) = None -> lookup k (fst (fold_left legacy_step l st)) = None.
Proof.
  induction l as [|c l IH]; intros st H; [exact H|]. cbn [fold_left]. apply IH. now apply legacy_step_None.
Qed.
Lemma lookup_preprocess_None k (nm : name_map) : k <> k_pos -> lookup k nm = None -> lookup k (preprocess nm) = None.
Proof.
  intros Hk H. unfold preprocess. apply lookup_filter_None. unfold legacy_pos. destruct (haskey k_pos nm); [exact H|].
  set (st := fold_left legacy_step [k_z; k_y; k_x] (nm, [])).
  assert (E : lookup k (fst st) = None) by (apply legacy_fold_None; exact H).
  destruct (2 <=? length (snd st))%nat; [|exact E]. now rewrite lookup_set_neq.
Qed.

Lemma validate_required_missing req cols nd (nm : name_map) k : In k req -> k <> k_pos -> lookup k nm = None ->
  validate_name_map req cols nd (preprocess nm) = false.
Proof.
  intros Hin Hk H. unfold validate_name_map. assert (E : required_ok req (preprocess nm) = false).
  { unfold required_ok. eapply forallb_false_intro; [exact Hin|]. unfold haskey. now rewrite lookup_preprocess_None. }
  now rewrite E.
Qed.
Lemma validate_pos_missing req cols nd (nm : name_map) :
  lookup k_pos nm = None -> lookup k_z nm = None -> lookup k_y nm = None -> lookup k_x nm = None ->
  validate_name_map req cols nd (preprocess nm) = false.
Proof.
  intros Hp Hz Hy Hx. unfold validate_name_map. assert (E : pos_ok (preprocess nm) = false).
  { unfold pos_ok, preprocess, legacy_pos, haskey. rewrite Hp. cbn [fold_left]. unfold legacy_step. cbn [fst snd].
    rewrite Hz. cbn [fst snd]. rewrite Hy. cbn [fst snd]. rewrite Hx. cbn [fst snd length Nat.leb].
    now rewrite (lookup_filter_None _ _ _ Hp). }
  rewrite E. now rewrite andb_false_r.
Qed.
Lemma validate_missing_column req cols nd (nm : name_map) k s c : haskey k_pos nm = true -> In (k, s) nm -> In c (sources s) ->
  cols <> [] -> ~ In c cols -> validate_name_map req cols nd (preprocess nm) = false.
Proof.
  intros Hp Hin Hc Hcols Hni. unfold validate_name_map. assert (E : sources_ok cols (preprocess nm) = false).
  { unfold sources_ok. destruct cols as [|c0 cols']; [congruence|]. unfold preprocess, legacy_pos. rewrite Hp.
    apply forallb_false_intro with (x := (k, s)).
    - apply filter_In. split; [exact Hin|]. unfold nonempty_src. cbn [snd]. destruct s as [c'|[|c' cs]]; try reflexivity. destruct Hc.
    - cbn [snd]. eapply forallb_false_intro; [exact Hc|]. now apply memz_false. }
  rewrite E. now rewrite andb_false_r.
Qed.

Lemma import_csv_invalid_map t ityp trk lin nm :
  validate_name_map csv_required (t_cols t) (ndim_of_map nm) (preprocess nm) = false ->
  import_csv t ityp trk lin nm = ValueErr.
Proof. intros H. unfold import_csv. destruct nm; [reflexivity|]. unfold import_csv_body. now rewrite H. Qed.

Theorem csv_reject_unmapped_required : forall t ityp trk lin nm k,
  In k [k_time; k_id; k_parent] -> lookup k nm = None -> import_csv t ityp trk lin nm = ValueErr.
Proof.
  intros t ityp trk lin nm k Hk H. apply import_csv_invalid_map. apply validate_required_missing with (k := k); [exact Hk| |exact H].
  cbn in Hk. destruct Hk as [<-|[<-|[<-|[]]]]; discriminate.
Qed.
Theorem csv_reject_unmapped_pos : forall t ityp trk lin nm,
  lookup k_pos nm = None -> lookup k_z nm = None -> lookup k_y nm = None -> lookup k_x nm = None ->
  import_csv t ityp trk lin nm = ValueErr.
Proof. intros. apply import_csv_invalid_map. now apply validate_pos_missing. Qed.
Theorem csv_reject_missing_column : forall t ityp trk lin nm k s c,
  haskey k_pos nm = true -> In (k, s) nm -> In c (sources s) -> t_cols t <> [] -> ~ In c (t_cols t) ->
  import_csv t ityp trk lin nm = ValueErr.
Proof. intros. apply import_csv_invalid_map. eapply validate_missing_column; eauto. Qed.

(* ================= Part 8: the GEFF theorems ================= *)
Definition geff_props (store : props) (nm : name_map) : props := combine_multi nm (renamed store nm).
(* every column of a list mapping is a 1-D property of the store *)
Definition multi_1d (store : props) (nm : name_map) : Prop :=
  forall c, In c (multi_cols nm) -> exists v m, lookup c store = Some {| p_vals := PS v; p_miss := m |}.

Lemma import_geff_wf_map ids es store trk lin nm : wf_map_core (keys store) nm = true ->
  exists pcs, lookup k_pos nm = Some (Multi pcs) /\
    import_geff ids es store trk lin nm = finish (Some (S (length pcs))) trk lin ids es (geff_props store nm).
Proof.
  intros Hwf. pose proof (wf_map_core_inv _ _ Hwf) as [Hnd [Htime [[pcs [Hpos [Hlen Hell]]] [Hne Hsrc]]]].
  destruct (clean_facts _ Hnd) as [Hk [Ht [Hmk Hkm]]].
  exists pcs. split; [exact Hpos|].
  unfold import_geff. destruct nm as [|kv0 nm'] eqn:Enm; [discriminate|]. rewrite <- Enm in *. clear Enm kv0 nm'.
  unfold import_geff_body.
  assert (Hhp : haskey k_pos nm = true) by (unfold haskey; now rewrite Hpos).
  rewrite (preprocess_id nm Hhp Hne).
  rewrite (wf_core_validate _ _ geff_required Hwf) by (intros k [<-|[]]; exact Htime). cbn [negb].
  rewrite rename_clean; [|exact Ht|].
  2:{ intros ts Hts. destruct (in_flatten_source _ _ Hts) as [k [s [Hin Hs]]]. eapply Hsrc; eauto. }
  rewrite Hpos. unfold ndim_of_map. rewrite Hpos. reflexivity.
Qed.

Lemma geff_props_spec store nm : wf_map_core (keys store) nm = true ->
  let ps := geff_props store nm in
  NoDup (keys ps) /\
  (forall k c, lookup k nm = Some (Single c) -> lookup k ps = lookup c store) /\
  (forall k c0 cs, lookup k nm = Some (Multi (c0 :: cs)) -> lookup k ps = Some (comb_of store (c0 :: cs))) /\
  (forall x, In x (keys ps) -> haskey x nm = true).
Proof.
  intros Hwf ps. pose proof (wf_map_core_inv _ _ Hwf) as [Hnd [Htime [[pcs [Hpos [Hlen Hell]]] [Hne Hsrc]]]].
  destruct (clean_facts _ Hnd) as [Hk [Ht [Hmk Hkm]]].
  set (ps0 := renamed store nm).
  assert (P1 : NoDup (keys ps0)) by (unfold ps0; now rewrite keys_renamed).
  assert (P2 : forall k c, In (k, c) (flatten nm) -> lookup k ps0 = lookup c store /\ In k (keys ps0)).
  { intros k c Hin. unfold ps0. rewrite (lookup_renamed _ nm k c Ht Hin).
    destruct (in_flatten_source _ _ Hin) as [k' [s [Hin' Hs]]]. cbn [snd] in Hs.
    destruct (In_lookup_exists c store (Hsrc _ _ _ Hin' Hs)) as [p Hp]. unfold getd. rewrite Hp. split; [reflexivity|].
    rewrite keys_renamed. unfold targets. apply in_map_iff. now exists (k, c). }
  assert (Hsrc0 : forall k cs c, In (k, Multi cs) nm -> In c cs -> In c (keys ps0)).
  { intros k cs c Hin Hc. apply (P2 c c). eapply in_flatten_multi; eauto. }
  assert (L : forall x, lookup x ps = final_spec ps0 nm x) by (intros x; apply combine_multi_lookup; assumption).
  assert (Hkeymc : forall x, In x (keys nm) -> memz x (multi_cols nm) = false) by (intros x Hx; apply memz_false; now apply Hkm).
  split; [apply combine_multi_nodup; exact P1|]. split; [|split].
  - intros k c Hl. rewrite L. unfold final_spec. rewrite Hl, (Hkeymc k (lookup_Some_keys _ _ _ Hl)).
    apply P2. apply in_flatten_single. eapply lookup_In; eauto.
  - intros k c0 cs Hl. rewrite L. unfold final_spec. rewrite Hl. f_equal. apply comb_of_ext. intros c Hc.
    apply P2. eapply in_flatten_multi; [eapply lookup_In; exact Hl|exact Hc].
  - intros x Hx.
    assert (Hx' : lookup x ps <> None) by (intros E; apply lookup_None_keys in E; contradiction).
    apply combine_multi_keys in Hx. destruct Hx as [Hx|Hx]; [|now apply haskey_keys].
    unfold ps0 in Hx. rewrite keys_renamed in Hx. destruct (in_targets_inv _ _ Hx) as [[c Hc]|Hm].
    + apply haskey_keys. unfold keys. apply in_map_iff. now exists (x, Single c).
    + exfalso. apply Hx'. rewrite L. unfold final_spec.
      assert (El : lookup x nm = None) by (apply lookup_None_keys; intros Hi; exact (Hkm x Hi Hm)).
      rewrite El. apply memz_In in Hm. now rewrite Hm.
Qed.

Lemma width_fold_1 (ps : list pcol) : (forall p, In p ps -> width_of p = 1%nat) ->
  forall w, fold_left (fun w q => (w + width_of q)%nat) ps w = (w + length ps)%nat.
Proof.
  induction ps as [|p ps IH]; intros H w; cbn; [lia|]. rewrite IH by (intros q Hq; apply H; now right).
  rewrite (H p (or_introl eq_refl)). lia.
Qed.
Lemma width_comb_of store cs : (forall c, In c cs -> exists v m, lookup c store = Some {| p_vals := PS v; p_miss := m |}) ->
  width_of (p_vals (comb_of store cs)) = length cs.
Proof.
  intros H. unfold comb_of. cbn [p_vals]. rewrite map_map.
  assert (H1 : forall p, In p (map (fun c => p_vals (getd c store no_prop)) cs) -> width_of p = 1%nat).
  { intros p Hp. apply in_map_iff in Hp. destruct Hp as [c [<- Hc]]. destruct (H c Hc) as [v [m E]]. unfold getd. now rewrite E. }
  destruct cs as [|c0 cs]; [reflexivity|]. cbn [map column_stack width_of].
  rewrite width_fold_1 by (intros p Hp; apply H1; now right). rewrite (H1 _ (or_introl eq_refl)). rewrite map_length. reflexivity.
Qed.

Lemma geff_props_spatial store nm pcs : wf_map_core (keys store) nm = true -> multi_1d store nm ->
  lookup k_pos nm = Some (Multi pcs) -> spatial_props_ok (Some (S (length pcs))) (geff_props store nm) = true.
Proof.
  intros Hwf H1d Hpos. destruct (geff_props_spec store nm Hwf) as [Hnd [HS [HM HK]]].
  pose proof (wf_map_core_inv _ _ Hwf) as [_ [_ [[pcs' [Hpos' [Hlen Hell]]] [Hne _]]]].
  rewrite Hpos in Hpos'. injection Hpos' as <-.
  unfold spatial_props_ok. apply forallb_forall. intros [x p] Hin. cbn [fst snd]. rewrite memz_sd.
  replace (S (length pcs) - 1)%nat with (length pcs) by lia.
  pose proof (In_lookup _ _ _ Hnd Hin) as Hl.
  assert (Hw : forall k cs, lookup k nm = Some (Multi cs) -> lookup k (geff_props store nm) = Some p -> (2 <= length cs)%nat ->
                 width_of (p_vals p) = length cs).
  { intros k cs Hk Hp Hl2. destruct cs as [|c0 cs]; [cbn in Hl2; lia|]. rewrite (HM _ _ _ Hk) in Hp. injection Hp as <-.
    apply width_comb_of. intros c Hc. apply H1d. eapply in_multi_cols; [eapply lookup_In; exact Hk|exact Hc]. }
  destruct (Z.eqb_spec x k_pos) as [->|Hn1]; cbn [orb].
  - apply Nat.eqb_eq. eapply Hw; eauto.
  - destruct (Z.eqb_spec x k_ell) as [->|Hn2]; [|reflexivity].
    pose proof (HK k_ell (lookup_Some_keys _ _ _ Hl)) as Hh. unfold haskey in Hh.
    destruct (lookup k_ell nm) as [s|] eqn:El; [|discriminate]. destruct (Hell s eq_refl) as [cs [-> Hl2]].
    apply Nat.eqb_eq. rewrite <- Hl2. eapply Hw; eauto. lia.
Qed.

Theorem geff_nodes_edges : forall ids es store trk lin nm,
  wf_map_core (keys store) nm = true -> multi_1d store nm -> structure_ok ids es = true ->
  exists g, import_geff ids es store trk lin nm = Ok g /\ map fst (g_nodes g) = ids /\ g_edges g = es.
Proof.
  intros ids es store trk lin nm Hwf H1d Hs. destruct (import_geff_wf_map ids es store trk lin nm Hwf) as [pcs [Hpos E]].
  rewrite E. unfold finish. rewrite (geff_props_spatial store nm pcs Hwf H1d Hpos), Hs. cbn [negb].
  eexists. split; [reflexivity|]. cbn [g_nodes g_edges construct]. split; [apply construct_nodes_fst|reflexivity].
Qed.

Theorem geff_values : forall ids es store trk lin nm g,
  wf_map_core (keys store) nm = true -> import_geff ids es store trk lin nm = Ok g ->
  forall i x, nth_error ids i = Some x ->
  exists attrs, nth_error (g_nodes g) i = Some (x, attrs) /\
    (forall k c p, lookup k nm = Some (Single c) -> lookup c store = Some p ->
       (k = k_track -> trk = true) -> (k = k_lineage -> lin = true) -> lookup k attrs = value_at p i) /\
    (forall k c0 cs, lookup k nm = Some (Multi (c0 :: cs)) ->
       (k = k_track -> trk = true) -> (k = k_lineage -> lin = true) -> lookup k attrs = value_at (comb_of store (c0 :: cs)) i) /\
    (forall k, In k (keys attrs) -> haskey k nm = true).
Proof.
  intros ids es store trk lin nm g Hwf Hg i x Hi. destruct (import_geff_wf_map ids es store trk lin nm Hwf) as [pcs [Hpos E]].
  rewrite E in Hg. unfold finish in Hg. destruct (spatial_props_ok _ _); [|discriminate]. destruct (structure_ok ids es); [|discriminate].
  cbn [negb] in Hg. injection Hg as <-. cbn [g_nodes construct].
  destruct (geff_props_spec store nm Hwf) as [Hnd [HS [HM HK]]].
  set (ps := drop_invalid trk lin (geff_props store nm)).
  assert (Hndp : NoDup (keys ps)) by (now apply drop_invalid_nodup).
  eexists. split; [now apply construct_nodes_nth|]. cbn [Nat.add]. split; [|split].
  - intros k c p Hl Hc H3 H4. rewrite lookup_node_attrs by exact Hndp. unfold ps. rewrite drop_invalid_lookup by assumption.
    now rewrite (HS k c Hl), Hc.
  - intros k c0 cs Hl H3 H4. rewrite lookup_node_attrs by exact Hndp. unfold ps. rewrite drop_invalid_lookup by assumption.
    now rewrite (HM k c0 cs Hl).
  - intros k Hk. apply node_attrs_keys in Hk. unfold ps in Hk. apply drop_invalid_keys in Hk. now apply HK.
Qed.

(* a list-valued attribute: absent when any component is missing on the node, else the components in mapped order *)
Definition miss_at (p : prop) (i : nat) : bool := match p_miss p with Some m => nth i m false | None => false end.
Definition cell_at (p : prop) (i : nat) : cell := match p_vals p with PS v => nth i v CNone | PV _ v => hd CNone (nth i v []) end.

Lemma hstack_length a : forall b, length a = length b -> length (hstack a b) = length a.
Proof. induction a as [|x a IH]; intros [|y b] H; cbn in *; try lia. now rewrite IH by lia. Qed.
Lemma nth_hstack a : forall b i, length a = length b -> (i < length a)%nat -> nth i (hstack a b) [] = nth i a [] ++ nth i b [].
Proof.
  induction a as [|x a IH]; intros [|y b] i H Hi; cbn in *; try lia. destruct i as [|i]; [reflexivity|]. apply IH; lia.
Qed.
Lemma orb_list_length a : forall b, length a = length b -> length (orb_list a b) = length a.
Proof. induction a as [|x a IH]; intros [|y b] H; cbn in *; try lia. now rewrite IH by lia. Qed.
Lemma nth_orb_list a : forall b i, length a = length b -> nth i (orb_list a b) false = nth i a false || nth i b false.
Proof.
  induction a as [|x a IH]; intros [|y b] i H; cbn in *; try lia; [now destruct i|]. destruct i as [|i]; [reflexivity|]. apply IH; lia.
Qed.

Lemma stack_rows_nth n i (ps : list prop) : (i < n)%nat ->
  (forall p, In p ps -> exists v, p_vals p = PS v /\ length v = n) ->
  forall acc, length acc = n ->
  length (fold_left (fun a q => hstack a (rows_of q)) (map p_vals ps) acc) = n /\
  nth i (fold_left (fun a q => hstack a (rows_of q)) (map p_vals ps) acc) [] = nth i acc [] ++ map (fun p => cell_at p i) ps.
Proof.
  intros Hi. induction ps as [|p ps IH]; intros H acc Hacc; cbn [map fold_left]; [now rewrite app_nil_r|].
  destruct (H p (or_introl eq_refl)) as [v [Ev Hv]].
  assert (Hr : length (rows_of (p_vals p)) = n) by (rewrite Ev; cbn; now rewrite map_length).
  destruct (IH (fun q Hq => H q (or_intror Hq)) (hstack acc (rows_of (p_vals p)))) as [L N].
  { rewrite hstack_length; lia. }
  assert (En : nth i (rows_of (p_vals p)) [] = [cell_at p i]).
  { unfold cell_at. rewrite Ev. cbn [rows_of]. rewrite nth_indep with (d' := [CNone]) by (rewrite map_length; lia).
    change [CNone] with ((fun c : cell => [c]) CNone). now rewrite map_nth. }
  split; [exact L|]. rewrite N, nth_hstack by lia. rewrite <- app_assoc, En. reflexivity.
Qed.

Lemma missing_fold_nth n i (ms : list (option (list bool))) :
  (forall l, In (Some l) ms -> length l = n) ->
  forall acc, length acc = n ->
  length (fold_left (fun acc m => match m with Some l => orb_list acc l | None => acc end) ms acc) = n /\
  nth i (fold_left (fun acc m => match m with Some l => orb_list acc l | None => acc end) ms acc) false
  = nth i acc false || existsb (fun m => match m with Some l => nth i l false | None => false end) ms.
Proof.
  induction ms as [|m ms IH]; intros H acc Hacc; cbn [fold_left existsb]; [now rewrite orb_false_r|].
  destruct m as [l|].
  - destruct (IH (fun l' Hl' => H l' (or_intror Hl')) (orb_list acc l)) as [L N].
    { rewrite orb_list_length; [exact Hacc|]. rewrite (H l (or_introl eq_refl)). exact Hacc. }
    split; [exact L|]. rewrite N, nth_orb_list by (rewrite (H l (or_introl eq_refl)); exact Hacc). now rewrite orb_assoc.
  - destruct (IH (fun l' Hl' => H l' (or_intror Hl')) acc Hacc) as [L N]. split; [exact L|]. rewrite N. reflexivity.
Qed.

Theorem geff_list_value : forall store n i c0 cs,
  (i < n)%nat ->
  (forall c, In c (c0 :: cs) -> exists v m, lookup c store = Some {| p_vals := PS v; p_miss := m |} /\ length v = n /\
                                            (forall l, m = Some l -> length l = n)) ->
  value_at (comb_of store (c0 :: cs)) i =
    if existsb (fun c => miss_at (getd c store no_prop) i) (c0 :: cs) then None
    else Some (VList (map (fun c => cell_at (getd c store no_prop) i) (c0 :: cs))).
Proof.
  intros store n i c0 cs Hi H. unfold comb_of.
  set (srcs := map (fun c => getd c store no_prop) (c0 :: cs)).
  assert (Hs : forall p, In p srcs -> exists v, p_vals p = PS v /\ length v = n).
  { intros p Hp. unfold srcs in Hp. apply in_map_iff in Hp. destruct Hp as [c [<- Hc]].
    destruct (H c Hc) as [v [m [E [Hv _]]]]. unfold getd. rewrite E. now exists v. }
  assert (Hm : forall l, In (Some l) (map p_miss srcs) -> length l = n).
  { intros l Hl. apply in_map_iff in Hl. destruct Hl as [p [Ep Hp]]. unfold srcs in Hp. apply in_map_iff in Hp.
    destruct Hp as [c [<- Hc]]. destruct (H c Hc) as [v [m [E [_ Hml]]]]. unfold getd in Ep. rewrite E in Ep. cbn in Ep. now apply Hml. }
  assert (Esr : srcs = getd c0 store no_prop :: map (fun c => getd c store no_prop) cs) by reflexivity.
  destruct (Hs (getd c0 store no_prop)) as [v0 [Ev0 Hv0]]; [rewrite Esr; now left|].
  assert (Hr0 : length (rows_of (p_vals (getd c0 store no_prop))) = n) by (rewrite Ev0; cbn; now rewrite map_length).
  destruct (stack_rows_nth n i (map (fun c => getd c store no_prop) cs) Hi
              (fun p Hp => Hs p (ltac:(rewrite Esr; now right))) _ Hr0) as [L N].
  assert (Ecs : column_stack (map p_vals srcs)
                = PV (fold_left (fun w q => (w + width_of q)%nat) (map p_vals (map (fun c => getd c store no_prop) cs)) (width_of (p_vals (getd c0 store no_prop))))
                     (fold_left (fun a q => hstack a (rows_of q)) (map p_vals (map (fun c => getd c store no_prop) cs)) (rows_of (p_vals (getd c0 store no_prop)))))
    by (rewrite Esr; reflexivity).
  rewrite Ecs. cbn [rows_of]. rewrite L. unfold value_at. cbn [p_miss p_vals].
  assert (Emiss : match combine_missing n (map p_miss srcs) with Some m => nth i m false | None => false end
                  = existsb (fun c => miss_at (getd c store no_prop) i) (c0 :: cs)).
  { assert (Eex : existsb (fun m => match m with Some l => nth i l false | None => false end) (map p_miss srcs)
                  = existsb (fun c => miss_at (getd c store no_prop) i) (c0 :: cs)).
    { unfold srcs. rewrite map_map. clear. induction (c0 :: cs) as [|c l IH]; [reflexivity|]. cbn [map existsb]. now rewrite IH. }
    unfold combine_missing. destruct (existsb is_some (map p_miss srcs)) eqn:Ei.
    - destruct (missing_fold_nth n i (map p_miss srcs) Hm (repeat false n) (repeat_length _ _)) as [_ Nm].
      rewrite Nm, Eex. replace (nth i (repeat false n) false) with false; [reflexivity|].
      symmetry. apply nth_repeat.
    - rewrite <- Eex. symmetry. clear - Ei. induction (map p_miss srcs) as [|m l IH]; [reflexivity|]. cbn in *.
      destruct m; [discriminate|]. cbn in Ei. now apply IH. }
  rewrite Emiss. destruct (existsb _ (c0 :: cs)); [reflexivity|]. f_equal. f_equal. rewrite N.
  cbn [map]. rewrite map_map.
  assert (En : nth i (rows_of (PS v0)) [] = [cell_at (getd c0 store no_prop) i]).
  { unfold cell_at. rewrite Ev0. cbn [rows_of]. rewrite nth_indep with (d' := [CNone]) by (rewrite map_length; lia).
    change [CNone] with ((fun c : cell => [c]) CNone). now rewrite map_nth. }
  rewrite <- Ev0 in En. rewrite En. reflexivity.
Qed.

(* rejection *)
Lemma structure_ok_false ids es :
  ~ NoDup ids \/ (exists u v, In (u, v) es /\ (~ In u ids \/ ~ In v ids)) \/ (exists u, In (u, u) es) \/ ~ NoDup es ->
  structure_ok ids es = false.
Proof.
  intros H. destruct (structure_ok ids es) eqn:E; [|reflexivity]. exfalso.
  unfold structure_ok in E. rewrite !andb_true_iff in E. destruct E as [[[E1 E2] E3] E4].
  destruct H as [H|[[u [v [Hin H]]]|[[u Hin]|H]]].
  - apply H. now apply nodup_z_NoDup.
  - unfold edges_known in E2. rewrite forallb_forall in E2. specialize (E2 _ Hin). cbn [fst snd] in E2.
    apply andb_true_iff in E2. destruct E2 as [Ea Eb]. apply memz_In in Ea. apply memz_In in Eb. tauto.
  - unfold no_self_edges in E3. rewrite forallb_forall in E3. specialize (E3 _ Hin). cbn [fst snd] in E3. now rewrite Z.eqb_refl in E3.
  - apply H. now apply nodup_pairs_NoDup.
Qed.

Theorem geff_reject_structure : forall ids es store trk lin nm,
  wf_map_core (keys store) nm = true ->
  (~ NoDup ids \/ (exists u v, In (u, v) es /\ (~ In u ids \/ ~ In v ids)) \/ (exists u, In (u, u) es) \/ ~ NoDup es) ->
  import_geff ids es store trk lin nm = ValueErr.
Proof.
  intros ids es store trk lin nm Hwf H. destruct (import_geff_wf_map ids es store trk lin nm Hwf) as [pcs [_ E]]. rewrite E.
  unfold finish. destruct (spatial_props_ok _ _); cbn [negb]; [|reflexivity]. now rewrite (structure_ok_false ids es H).
Qed.

(* whatever the name map, a structurally malformed graph is never imported *)
Theorem geff_reject_structure_any_map : forall ids es store trk lin nm g,
  (~ NoDup ids \/ (exists u v, In (u, v) es /\ (~ In u ids \/ ~ In v ids)) \/ (exists u, In (u, u) es) \/ ~ NoDup es) ->
  import_geff ids es store trk lin nm <> Ok g.
Proof.
  intros ids es store trk lin nm g H. pose proof (structure_ok_false ids es H) as Hs.
  unfold import_geff. destruct nm as [|kv nm']; [discriminate|]. unfold import_geff_body.
  destruct (validate_name_map _ _ _ _); cbn [negb]; [|discriminate].
  destruct (lookup k_pos (preprocess (kv :: nm'))) as [[c|cs]|]; try (destruct (lookup k_pos _); try discriminate);
    unfold finish; destruct (spatial_props_ok _ _); cbn [negb]; try discriminate; rewrite Hs; discriminate.
Qed.

Lemma import_geff_invalid_map ids es store trk lin nm :
  validate_name_map geff_required (keys store) (ndim_of_map nm) (preprocess nm) = false ->
  import_geff ids es store trk lin nm = ValueErr.
Proof. intros H. unfold import_geff. destruct nm; [reflexivity|]. unfold import_geff_body. now rewrite H. Qed.

Theorem geff_reject_unmapped_time : forall ids es store trk lin nm,
  lookup k_time nm = None -> import_geff ids es store trk lin nm = ValueErr.
Proof.
  intros. apply import_geff_invalid_map. apply validate_required_missing with (k := k_time); [now left|discriminate|assumption].
Qed.
Theorem geff_reject_unmapped_pos : forall ids es store trk lin nm,
  lookup k_pos nm = None -> lookup k_z nm = None -> lookup k_y nm = None -> lookup k_x nm = None ->
  import_geff ids es store trk lin nm = ValueErr.
Proof. intros. apply import_geff_invalid_map. now apply validate_pos_missing. Qed.
Theorem geff_reject_missing_prop : forall ids es store trk lin nm k s c,
  haskey k_pos nm = true -> In (k, s) nm -> In c (sources s) -> keys store <> [] -> ~ In c (keys store) ->
  import_geff ids es store trk lin nm = ValueErr.
Proof. intros. apply import_geff_invalid_map. eapply validate_missing_column; eauto. Qed.

(* the legacy z / y / x keys are turned into a composite pos *)
Theorem legacy_pos_2d : forall (nm : name_map) cy cx,
  lookup k_pos nm = None -> lookup k_z nm = None -> lookup k_y nm = Some (Single cy) -> lookup k_x nm = Some (Single cx) ->
  legacy_pos nm = set k_pos (Multi [cy; cx]) (del k_x (del k_y nm)).
Proof.
  intros nm cy cx Hp Hz Hy Hx. unfold legacy_pos, haskey. rewrite Hp. cbn [fold_left]. unfold legacy_step. cbn [fst snd].
  rewrite Hz. cbn [fst snd]. rewrite Hy. cbn [fst snd]. rewrite lookup_del_neq by discriminate. rewrite Hx. cbn [fst snd app length Nat.leb].
  reflexivity.
Qed.
Theorem legacy_pos_3d : forall (nm : name_map) cz cy cx,
  lookup k_pos nm = None -> lookup k_z nm = Some (Single cz) -> lookup k_y nm = Some (Single cy) -> lookup k_x nm = Some (Single cx) ->
  legacy_pos nm = set k_pos (Multi [cz; cy; cx]) (del k_x (del k_y (del k_z nm))).
Proof.
  intros nm cz cy cx Hp Hz Hy Hx. unfold legacy_pos, haskey. rewrite Hp. cbn [fold_left]. unfold legacy_step. cbn [fst snd].
  rewrite Hz. cbn [fst snd]. rewrite lookup_del_neq by discriminate. rewrite Hy. cbn [fst snd].
  rewrite !lookup_del_neq by discriminate. rewrite Hx. cbn [fst snd app length Nat.leb]. reflexivity.
Qed.
