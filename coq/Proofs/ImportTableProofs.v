(* Proofs about Model/ImportTable.v (property C12).
   Part 0: specification vocabulary (well-formedness predicates, the renumbering function).
   Part 1: list / dict toolbox.   Part 2: name map.   Part 3: renaming loop.
   Part 4: _combine_multi_value_props.   Part 5: construct.   Part 6: CSV ids, edges.
   Part 7: the CSV theorems.   Part 8: the GEFF theorems. *)
From Coq Require Import ZArith List Bool Lia Permutation.
From FT Require Import Base.Dict Proofs.DictLemmas Model.ImportTable.
Import ListNotations.
Open Scope Z_scope.

(* ================= Part 0: specification vocabulary ================= *)
Definition is_single (o : option src) : bool := match o with Some (Single _) => true | _ => false end.
(* the columns used in list mappings, in map order *)
Definition multi_cols (nm : name_map) : list Z :=
  flat_map (fun kv => match snd kv with Multi cs => cs | Single _ => [] end) nm.
(* the column a key is mapped to by a single mapping *)
Definition single_col (nm : name_map) (k : Z) : Z := match lookup k nm with Some (Single c) => c | _ => 0 end.
Definition id_col (nm : name_map) : Z := single_col nm k_id.
Definition par_col (nm : name_map) : Z := single_col nm k_parent.

(* A valid key mapping for a table with columns [cols]:
   - keys and the columns used in list mappings are pairwise distinct (no clash),
   - id and parent_id are mapped to single columns, time is mapped,
   - pos is a list of >= 2 columns; ellipse_axis_radii, if mapped, is a list of the same length,
   - no empty list mapping, every mapped column exists. *)
Definition wf_map (cols : list Z) (nm : name_map) : bool :=
  nodup_z (keys nm ++ multi_cols nm)
  && is_single (lookup k_id nm) && is_single (lookup k_parent nm) && haskey k_time nm
  && match lookup k_pos nm with
     | Some (Multi pcs) => (2 <=? length pcs)%nat
                           && match lookup k_ell nm with
                              | None => true
                              | Some (Multi cs) => Nat.eqb (length cs) (length pcs)
                              | Some (Single _) => false
                              end
     | _ => false
     end
  && forallb nonempty_src nm
  && forallb (fun kv => forallb (fun c => memz c cols) (sources (snd kv))) nm.

(* "no parent": empty cell or -1 *)
Definition is_none (p : cell) : bool := match p with CNone => true | CInt z => z =? -1 | _ => false end.
Definition is_int (c : cell) : bool := match c with CInt _ => true | _ => false end.

(* A well-formed table (under a name map with single id / parent_id columns):
   distinct column names, rectangular rows, [a raw column called "id" is duplicate-free],
   ids pairwise distinct, never empty and never -1, integers when the column is integer-typed,
   every parent is "no parent" or the id of ANOTHER row. *)
Definition wf_table (t : table) (ityp : bool) (nm : name_map) : bool :=
  let cols := t_cols t in
  let ids := column t (id_col nm) in
  nodup_z cols
  && forallb (fun r => Nat.eqb (length r) (length cols)) (t_rows t)
  && raw_id_unique t
  && nodup_cells ids && negb (memc CNone ids) && negb (memc (CInt (-1)) ids)
  && (negb ityp || forallb is_int ids)
  && forallb (fun r => let p := cell_of cols r (par_col nm) in
                       is_none p || (memc p ids && negb (cell_eqb p (cell_of cols r (id_col nm))))) (t_rows t).

(* the renumbering of ids: identity on integers when the id column is integer-typed, else the
   1-based rank of first appearance in the id column *)
Definition zof (c : cell) : Z := match c with CInt z => z | _ => 0 end.
Definition renum (t : table) (ityp : bool) (nm : name_map) (c : cell) : Z :=
  if ityp then zof c
  else match cell_lookup c (id_mapping (column t (id_col nm))) with Some k => k | None => 0 end.

(* ================= Part 1: toolbox ================= *)
Lemma cell_eqb_spec a b : reflect (a = b) (cell_eqb a b).
Proof.
  destruct a, b; cbn; try (constructor; congruence);
    match goal with |- reflect _ (?x =? ?y) => destruct (Z.eqb_spec x y); constructor; congruence end.
Qed.
Lemma cell_eqb_refl a : cell_eqb a a = true.
Proof. destruct (cell_eqb_spec a a); congruence. Qed.

Lemma memc_In c l : memc c l = true <-> In c l.
Proof.
  unfold memc. rewrite existsb_exists. split.
  - intros [x [Hx E]]. destruct (cell_eqb_spec c x); [now subst|discriminate].
  - intros H. exists c. split; [exact H|apply cell_eqb_refl].
Qed.
Lemma memc_false c l : memc c l = false <-> ~ In c l.
Proof. rewrite <- memc_In. destruct (memc c l); split; congruence. Qed.

Lemma nodup_cells_NoDup l : nodup_cells l = true <-> NoDup l.
Proof.
  induction l as [|x r IH]; cbn; [split; [constructor|reflexivity]|].
  rewrite andb_true_iff, negb_true_iff, memc_false, IH. split.
  - intros [H1 H2]. now constructor.
  - intros H. inversion H; subst. now split.
Qed.
Lemma nodup_z_NoDup l : nodup_z l = true <-> NoDup l.
Proof.
  induction l as [|x r IH]; cbn; [split; [constructor|reflexivity]|].
  rewrite andb_true_iff, negb_true_iff, memz_false, IH. split.
  - intros [H1 H2]. now constructor.
  - intros H. inversion H; subst. now split.
Qed.
Lemma pair_eqb_spec a b : reflect (a = b) (pair_eqb a b).
Proof.
  destruct a as [a1 a2], b as [b1 b2]. unfold pair_eqb. cbn.
  destruct (Z.eqb_spec a1 b1), (Z.eqb_spec a2 b2); constructor; congruence.
Qed.
Lemma nodup_pairs_NoDup l : nodup_pairs l = true <-> NoDup l.
Proof.
  induction l as [|x r IH]; cbn; [split; [constructor|reflexivity]|].
  rewrite andb_true_iff, negb_true_iff, IH.
  assert (E : existsb (pair_eqb x) r = false <-> ~ In x r).
  { split.
    - intros H Hin. assert (existsb (pair_eqb x) r = true); [|congruence].
      apply existsb_exists. exists x. split; [exact Hin|]. destruct (pair_eqb_spec x x); congruence.
    - intros H. destruct (existsb (pair_eqb x) r) eqn:E; [|reflexivity]. exfalso. apply H.
      apply existsb_exists in E. destruct E as [y [Hy Ey]]. destruct (pair_eqb_spec x y); [now subst|discriminate]. }
  rewrite E. split.
  - intros [H1 H2]. now constructor.
  - intros H. inversion H; subst. now split.
Qed.

Lemma NoDup_app_iff {A} (l1 l2 : list A) :
  NoDup (l1 ++ l2) <-> NoDup l1 /\ NoDup l2 /\ (forall x, In x l1 -> ~ In x l2).
Proof.
  induction l1 as [|a l1 IH]; cbn.
  - split; [intros H; repeat split; [constructor|exact H|tauto]|tauto].
  - split.
    + intros H. inversion H as [|? ? Hn Hd]; subst. apply IH in Hd. destruct Hd as [H1 [H2 H3]].
      repeat split; [constructor; [intros Hi; apply Hn, in_or_app; now left|exact H1]|exact H2|].
      intros x [->|Hx]; [intros Hi; apply Hn, in_or_app; now right|now apply H3].
    + intros [H1 [H2 H3]]. inversion H1 as [|? ? Hn Hd]; subst. constructor.
      * intros Hi. apply in_app_or in Hi. destruct Hi as [Hi|Hi]; [contradiction|]. apply (H3 a); [now left|exact Hi].
      * apply IH. repeat split; [exact Hd|exact H2|]. intros x Hx. apply H3. now right.
Qed.

Lemma NoDup_map_inj_in {A B} (f : A -> B) l :
  (forall a b, In a l -> In b l -> f a = f b -> a = b) -> NoDup l -> NoDup (map f l).
Proof.
  induction l as [|x r IH]; intros Hinj Hnd; cbn; [constructor|].
  inversion Hnd as [|? ? Hn Hd]; subst. constructor.
  - intros Hi. apply in_map_iff in Hi. destruct Hi as [y [Ey Hy]].
    assert (y = x) by (apply Hinj; [now right|now left|exact Ey]). subst. contradiction.
  - apply IH; [|exact Hd]. intros a b Ha Hb. apply Hinj; now right.
Qed.

Lemma filter_forallb_id {A} (f : A -> bool) l : forallb f l = true -> filter f l = l.
Proof.
  induction l as [|x r IH]; cbn; [reflexivity|]. intros H. apply andb_true_iff in H. destruct H as [H1 H2].
  rewrite H1. f_equal. now apply IH.
Qed.

Section DictMore.
Context {V : Type}.
Implicit Types (d : dict V) (k : Z).

Lemma set_fresh k (v : V) d : ~ In k (keys d) -> set k v d = d ++ [(k, v)].
Proof.
  induction d as [|[k' v'] r IH]; cbn; [reflexivity|]. intros H.
  destruct (Z.eqb_spec k k') as [->|Hn]; [exfalso; apply H; now left|]. f_equal. apply IH. intros Hi. apply H. now right.
Qed.
Lemma keys_app d e : keys (d ++ e) = keys d ++ keys e.
Proof. unfold keys. apply map_app. Qed.
Lemma haskey_false k d : haskey k d = false <-> ~ In k (keys d).
Proof. rewrite <- haskey_keys. destruct (haskey k d); split; congruence. Qed.
Lemma lookup_filter_None k d (f : Z * V -> bool) : lookup k d = None -> lookup k (filter f d) = None.
Proof.
  intros H. apply lookup_None_keys. apply lookup_None_keys in H. intros Hi. apply H.
  unfold keys in *. apply in_map_iff in Hi. destruct Hi as [[k' v] [E Hi]]. apply filter_In in Hi.
  apply in_map_iff. exists (k', v). tauto.
Qed.
Lemma In_lookup_exists k d : In k (keys d) -> exists v, lookup k d = Some v.
Proof.
  intros H. destruct (lookup k d) eqn:E; [eauto|]. apply lookup_None_keys in E. contradiction.
Qed.
(* deleting a list of keys *)
Definition del_all (cs : list Z) d : dict V := fold_left (fun acc c => del c acc) cs d.
Lemma lookup_del_all x cs d : lookup x (del_all cs d) = if memz x cs then None else lookup x d.
Proof.
  revert d. induction cs as [|c cs IH]; intros d; [reflexivity|].
  change (del_all (c :: cs) d) with (del_all cs (del c d)). rewrite IH. unfold memz. cbn [existsb].
  destruct (Z.eqb_spec x c) as [->|Hn]; cbn [orb].
  - destruct (existsb (Z.eqb c) cs); [reflexivity|apply lookup_del_eq].
  - destruct (existsb (Z.eqb x) cs); [reflexivity|now apply lookup_del_neq].
Qed.
Lemma NoDup_keys_del_all cs d : NoDup (keys d) -> NoDup (keys (del_all cs d)).
Proof.
  revert d. induction cs as [|c cs IH]; intros d H; [exact H|].
  change (del_all (c :: cs) d) with (del_all cs (del c d)). apply IH. now apply NoDup_keys_del.
Qed.
Lemma in_keys_del_all x cs d : In x (keys (del_all cs d)) -> In x (keys d).
Proof.
  revert d. induction cs as [|c cs IH]; intros d H; [exact H|].
  change (del_all (c :: cs) d) with (del_all cs (del c d)) in H. apply IH in H. apply in_keys_del in H. tauto.
Qed.
End DictMore.
