(* Proofs about Model/SubsetExport.v (property C15). *)
From Coq Require Import ZArith List Bool Lia Arith Relations.
From FT Require Import Model.SubsetExport.
Import ListNotations.
Open Scope Z_scope.

(* ------------------------------------------------------------------ *)
(* basic list facts                                                     *)
(* ------------------------------------------------------------------ *)

Lemma memz_In x l : memz x l = true <-> In x l.
Proof.
  unfold memz. rewrite existsb_exists. split.
  - intros (y & Hy & E). apply Z.eqb_eq in E. now subst.
  - intros H. exists x. split; [exact H|apply Z.eqb_refl].
Qed.

Lemma memz_false x l : memz x l = false <-> ~ In x l.
Proof.
  rewrite <- memz_In. destruct (memz x l); split; intros H.
  - discriminate.
  - exfalso. apply H. reflexivity.
  - discriminate.
  - reflexivity.
Qed.

Lemma preds_In es u v : In u (preds es v) <-> In (u, v) es.
Proof.
  unfold preds. rewrite in_map_iff. split.
  - intros ((a, b) & E & H). apply filter_In in H. destruct H as [H1 H2]. cbn in *.
    apply Z.eqb_eq in H2. subst. exact H1.
  - intros H. exists (u, v). split; [reflexivity|]. apply filter_In. split; [exact H|cbn; apply Z.eqb_refl].
Qed.

Lemma NoDup_app_intro {A} : forall (l1 l2 : list A),
  NoDup l1 -> NoDup l2 -> (forall x, In x l1 -> ~ In x l2) -> NoDup (l1 ++ l2).
Proof.
  induction l1 as [|a l1 IH]; intros l2 H1 H2 Hd; cbn [app]; [exact H2|].
  inversion H1 as [|? ? Hna H1']; subst. constructor.
  - intros Hin. apply in_app_or in Hin. destruct Hin as [Hin|Hin]; [exact (Hna Hin)|].
    exact (Hd a (or_introl eq_refl) Hin).
  - apply IH; [exact H1'|exact H2|]. intros x Hx. apply Hd. right. exact Hx.
Qed.

(* ------------------------------------------------------------------ *)
(* ancestors                                                            *)
(* ------------------------------------------------------------------ *)

(* [anc es a b]: there is a non-empty directed path a -> ... -> b, i.e. a is a proper
   ancestor of b (the transitive closure of the edge relation, see [anc_clos_trans]) *)
Inductive anc (es : list (Z * Z)) : Z -> Z -> Prop :=
| anc_edge a b : In (a, b) es -> anc es a b
| anc_cons a b c : In (a, b) es -> anc es b c -> anc es a c.

Lemma anc_snoc es a b c : anc es a b -> In (b, c) es -> anc es a c.
Proof.
  intros H Hbc. induction H as [a b Hab|a b c' Hab Hbc' IH].
  - eapply anc_cons; [exact Hab|apply anc_edge; exact Hbc].
  - eapply anc_cons; [exact Hab|apply IH; exact Hbc].
Qed.

Lemma anc_trans es a b c : anc es a b -> anc es b c -> anc es a c.
Proof.
  intros Hab Hbc. induction Hab as [a b Hab|a b' b Hab Hb' IH].
  - eapply anc_cons; eauto.
  - eapply anc_cons; [exact Hab|apply IH; exact Hbc].
Qed.

Lemma anc_clos_trans es a b : anc es a b <-> clos_trans Z (fun u v => In (u, v) es) a b.
Proof.
  split.
  - intros H. induction H as [a b Hab|a b c Hab Hbc IH].
    + apply t_step. exact Hab.
    + eapply t_trans; [apply t_step; exact Hab|exact IH].
  - intros H. induction H as [a b Hab|a b c _ IH1 _ IH2].
    + apply anc_edge. exact Hab.
    + eapply anc_trans; eauto.
Qed.

Lemma anc_source es a b : anc es a b -> exists b', In (a, b') es.
Proof. intros H. destruct H as [a b Hab|a b c Hab _]; exists b; exact Hab. Qed.

Lemma fresh_In es cur x :
  In x (fresh es cur) <-> ~ In x cur /\ exists v, In v cur /\ In (x, v) es.
Proof.
  unfold fresh. rewrite nodup_In, filter_In, in_flat_map, negb_true_iff, memz_false.
  split.
  - intros [(v & Hv & Hp) Hn]. split; [exact Hn|]. exists v. split; [exact Hv|]. apply preds_In. exact Hp.
  - intros [Hn (v & Hv & He)]. split; [|exact Hn]. exists v. split; [exact Hv|]. apply preds_In. exact He.
Qed.

Definition reach (es : list (Z * Z)) (cur : list Z) (x : Z) : Prop :=
  In x cur \/ exists c, In c cur /\ anc es x c.

Lemma reach_step es cur x : reach es (step es cur) x -> reach es cur x.
Proof.
  unfold reach, step. intros [Hx|(c & Hc & Ha)].
  - apply in_app_or in Hx. destruct Hx as [Hx|Hx]; [left; exact Hx|].
    apply fresh_In in Hx. destruct Hx as [_ (v & Hv & He)]. right. exists v. split; [exact Hv|].
    apply anc_edge. exact He.
  - apply in_app_or in Hc. destruct Hc as [Hc|Hc]; [right; exists c; split; assumption|].
    apply fresh_In in Hc. destruct Hc as [_ (v & Hv & He)]. right. exists v. split; [exact Hv|].
    eapply anc_snoc; eauto.
Qed.

(* soundness of the fuelled search: whatever it returns is a start node or an ancestor of one *)
Lemma close_sound es : forall fuel cur x, In x (close es fuel cur) -> reach es cur x.
Proof.
  induction fuel as [|k IH]; intros cur x Hx; cbn [close] in Hx.
  - left. exact Hx.
  - apply reach_step. apply IH. exact Hx.
Qed.

Lemma close_incl es : forall fuel cur, incl cur (close es fuel cur).
Proof.
  induction fuel as [|k IH]; intros cur x Hx; cbn [close]; [exact Hx|].
  apply IH. unfold step. apply in_or_app. left. exact Hx.
Qed.

Lemma close_fix es : forall fuel cur, fresh es cur = [] -> close es fuel cur = cur.
Proof.
  induction fuel as [|k IH]; intros cur E; cbn [close]; [reflexivity|].
  unfold step. rewrite E, app_nil_r. apply IH. exact E.
Qed.

(* a set is saturated when it contains the parents of its members *)
Definition saturated (es : list (Z * Z)) (C : list Z) : Prop :=
  forall u v, In (u, v) es -> In v C -> In u C.

Lemma fresh_nil_saturated es cur : fresh es cur = [] -> saturated es cur.
Proof.
  intros E u v He Hv. destruct (in_dec Z.eq_dec u cur) as [Hin|Hnin]; [exact Hin|].
  exfalso. assert (In u (fresh es cur)) as H.
  { apply fresh_In. split; [exact Hnin|]. exists v. split; assumption. }
  rewrite E in H. destruct H.
Qed.

Lemma saturated_anc es C : saturated es C -> forall x c, anc es x c -> In c C -> In x C.
Proof.
  intros Hs x c H. induction H as [a b Hab|a b c Hab Hbc IH]; intros Hc.
  - eapply Hs; eauto.
  - eapply Hs; [exact Hab|]. apply IH. exact Hc.
Qed.

(* the fuel suffices: the visited set grows strictly inside the finite universe [nodes]
   until a round adds nothing, which must happen within |nodes| - |cur| rounds *)
Lemma close_saturates es nodes :
  (forall u v, In (u, v) es -> In u nodes) ->
  forall fuel cur, NoDup cur -> incl cur nodes -> (length nodes <= length cur + fuel)%nat ->
  fresh es (close es fuel cur) = [].
Proof.
  intros Hsrc. induction fuel as [|k IH]; intros cur Hnd Hincl Hlen; cbn [close].
  - assert (incl nodes cur) as Hall.
    { apply NoDup_length_incl; [exact Hnd|lia|exact Hincl]. }
    destruct (fresh es cur) as [|z r] eqn:E; [reflexivity|exfalso].
    assert (In z (fresh es cur)) as Hz by (rewrite E; left; reflexivity).
    apply fresh_In in Hz. destruct Hz as [Hn (v & _ & He)]. apply Hn. apply Hall. eapply Hsrc. exact He.
  - destruct (fresh es cur) as [|z r] eqn:E.
    + unfold step. rewrite E, app_nil_r. rewrite (close_fix es k cur E). exact E.
    + apply IH.
      * unfold step. apply NoDup_app_intro; [exact Hnd|apply NoDup_nodup|].
        intros x Hx Hf. apply fresh_In in Hf. destruct Hf as [Hn _]. exact (Hn Hx).
      * unfold step. intros x Hx. apply in_app_or in Hx. destruct Hx as [Hx|Hx]; [apply Hincl; exact Hx|].
        apply fresh_In in Hx. destruct Hx as [_ (v & _ & He)]. eapply Hsrc. exact He.
      * unfold step. rewrite app_length, E. cbn [length]. lia.
Qed.

(* nx.ancestors: exactly the proper ancestors, the node itself excluded *)
Lemma ancestors_spec nodes es n x :
  (forall u v, In (u, v) es -> In u nodes) -> In n nodes ->
  (In x (ancestors (nodes, es) n) <-> x <> n /\ anc es x n).
Proof.
  intros Hsrc Hn. unfold ancestors, g_edges, g_nodes. cbn [fst snd]. split.
  - intros H. apply in_remove in H. destruct H as [H Hne]. split; [exact Hne|].
    apply close_sound in H. destruct H as [H|(c & Hc & Ha)].
    + destruct H as [H|[]]. congruence.
    + destruct Hc as [<-|[]]. exact Ha.
  - intros [Hne Ha]. apply in_in_remove; [exact Hne|].
    assert (saturated es (close es (length nodes) [n])) as Hs.
    { apply fresh_nil_saturated. apply (close_saturates es nodes Hsrc).
      - constructor; [intros []|constructor].
      - intros y [<-|[]]. exact Hn.
      - cbn [length]. lia. }
    eapply saturated_anc; [exact Hs|exact Ha|]. apply close_incl. left. reflexivity.
Qed.

(* ------------------------------------------------------------------ *)
(* filter_graph_with_ancestors                                          *)
(* ------------------------------------------------------------------ *)

Definition well_formed (g : graph) : Prop :=
  forall u v, In (u, v) (g_edges g) -> In u (g_nodes g) /\ In v (g_nodes g).

Theorem keep_spec g sel :
  well_formed g -> incl sel (g_nodes g) ->
  let keep := filter_graph_with_ancestors g sel in
  (forall n, In n keep <-> In n sel \/ exists s, In s sel /\ anc (g_edges g) n s) /\
  NoDup keep /\ incl keep (g_nodes g).
Proof.
  intros Hwf Hsel keep. destruct g as [nodes es]. unfold well_formed, g_edges, g_nodes in *. cbn [fst snd] in *.
  assert (forall u v, In (u, v) es -> In u nodes) as Hsrc by (intros u v H; apply (Hwf u v H)).
  assert (forall n, In n keep <-> In n sel \/ exists s, In s sel /\ anc es n s) as Hspec.
  { intros n. unfold keep, filter_graph_with_ancestors. rewrite nodup_In, in_app_iff, in_flat_map. split.
    - intros [H|(s & Hs & Ha)]; [left; exact H|]. right. exists s. split; [exact Hs|].
      apply (ancestors_spec nodes es s n Hsrc (Hsel s Hs)) in Ha. apply Ha.
    - intros [H|(s & Hs & Ha)]; [left; exact H|].
      destruct (Z.eq_dec n s) as [->|Hne]; [left; exact Hs|].
      right. exists s. split; [exact Hs|]. apply (ancestors_spec nodes es s n Hsrc (Hsel s Hs)). split; assumption. }
  split; [exact Hspec|]. split; [apply NoDup_nodup|].
  intros n Hn. apply Hspec in Hn. destruct Hn as [Hn|(s & _ & Ha)]; [apply Hsel; exact Hn|].
  destruct (anc_source _ _ _ Ha) as (b & Hb). eapply Hsrc. exact Hb.
Qed.

(* closed under parents: the parent of a kept node is kept *)
Theorem keep_parent_closed g sel :
  well_formed g -> incl sel (g_nodes g) ->
  let keep := filter_graph_with_ancestors g sel in
  forall u v, In (u, v) (g_edges g) -> In v keep -> In u keep.
Proof.
  intros Hwf Hsel keep u v He Hv. destruct (keep_spec g sel Hwf Hsel) as (Hspec & _ & _). fold keep in Hspec.
  apply Hspec. apply Hspec in Hv. right. destruct Hv as [Hv|(s & Hs & Ha)].
  - exists v. split; [exact Hv|]. apply anc_edge. exact He.
  - exists s. split; [exact Hs|]. eapply anc_cons; eauto.
Qed.

Lemma geff_edges_In g keep u v :
  In (u, v) (geff_edges g keep) <-> In (u, v) (g_edges g) /\ In u keep /\ In v keep.
Proof.
  unfold geff_edges. rewrite filter_In. cbn [fst snd]. rewrite andb_true_iff, !memz_In. tauto.
Qed.

Lemma geff_nodes_In g keep n : In n (geff_nodes g keep) <-> In n (g_nodes g) /\ In n keep.
Proof. unfold geff_nodes. rewrite filter_In, memz_In. tauto. Qed.

(* GEFF export: the written graph has exactly the kept nodes and exactly the edges of the
   solution among them; in particular every parent edge of a written node is written *)
Theorem geff_graph_spec g sel :
  well_formed g -> incl sel (g_nodes g) ->
  let keep := filter_graph_with_ancestors g sel in
  (forall n, In n (geff_nodes g keep) <-> In n keep) /\
  (forall u v, In (u, v) (geff_edges g keep) <-> In (u, v) (g_edges g) /\ In u keep /\ In v keep) /\
  (forall u v, In (u, v) (g_edges g) -> In v (geff_nodes g keep) ->
     In u (geff_nodes g keep) /\ In (u, v) (geff_edges g keep)).
Proof.
  intros Hwf Hsel keep. destruct (keep_spec g sel Hwf Hsel) as (Hspec & _ & Hincl). fold keep in Hspec, Hincl.
  assert (forall n, In n (geff_nodes g keep) <-> In n keep) as Hn.
  { intros n. rewrite geff_nodes_In. split; [tauto|]. intros H. split; [apply Hincl; exact H|exact H]. }
  split; [exact Hn|]. split; [intros u v; apply geff_edges_In|].
  intros u v He Hv. apply Hn in Hv.
  pose proof (keep_parent_closed g sel Hwf Hsel u v He Hv) as Hu. fold keep in Hu.
  split; [apply Hn; exact Hu|]. apply geff_edges_In. tauto.
Qed.

Lemma parent_of_Some es v p : parent_of es v = Some p -> In (p, v) es.
Proof.
  unfold parent_of. intros H. apply preds_In. destruct (preds es v) as [|a r]; cbn in H; [discriminate|].
  injection H as ->. left. reflexivity.
Qed.

Lemma parent_of_None es v : parent_of es v = None <-> forall u, ~ In (u, v) es.
Proof.
  unfold parent_of. split.
  - intros H u Hu. apply preds_In in Hu. destruct (preds es v); [destruct Hu|discriminate].
  - intros H. destruct (preds es v) as [|a r] eqn:E; [reflexivity|exfalso].
    apply (H a). apply preds_In. rewrite E. left. reflexivity.
Qed.

(* CSV export: one row per kept node; the parent column names a parent of the node in the
   solution, and that parent has a row of its own; it is empty only for nodes that have
   no parent in the solution *)
Theorem csv_rows_spec g sel :
  well_formed g -> incl sel (g_nodes g) ->
  let keep := filter_graph_with_ancestors g sel in
  let rows := csv_rows g sel in
  map fst rows = keep /\
  (forall n p, In (n, Some p) rows -> In (p, n) (g_edges g) /\ In p (map fst rows)) /\
  (forall n, In (n, None) rows -> forall u, ~ In (u, n) (g_edges g)) /\
  ((forall u u' v, In (u, v) (g_edges g) -> In (u', v) (g_edges g) -> u = u') ->
     forall n p, In n keep -> In (p, n) (g_edges g) -> In (n, Some p) rows).
Proof.
  intros Hwf Hsel keep rows.
  assert (map fst rows = keep) as Hfst.
  { unfold rows, csv_rows. rewrite map_map. cbn [fst]. apply map_id. }
  assert (forall n q, In (n, q) rows <-> In n keep /\ q = parent_of (g_edges g) n) as Hrow.
  { intros n q. unfold rows, csv_rows. rewrite in_map_iff. fold keep. split.
    - intros (m & E & Hm). injection E as -> <-. split; [exact Hm|reflexivity].
    - intros [Hn ->]. exists n. split; [reflexivity|exact Hn]. }
  split; [exact Hfst|]. split; [|split].
  - intros n p H. apply Hrow in H. destruct H as [Hn E]. symmetry in E. apply parent_of_Some in E.
    split; [exact E|]. rewrite Hfst. exact (keep_parent_closed g sel Hwf Hsel p n E Hn).
  - intros n H. apply Hrow in H. destruct H as [_ E]. symmetry in E. apply parent_of_None. exact E.
  - intros Hforest n p Hn He. apply Hrow. split; [exact Hn|].
    destruct (parent_of (g_edges g) n) as [q|] eqn:E.
    + apply parent_of_Some in E. f_equal. eapply Hforest; eauto.
    + exfalso. rewrite parent_of_None in E. exact (E p He).
Qed.

(* ------------------------------------------------------------------ *)
(* chunk tiling                                                         *)
(* ------------------------------------------------------------------ *)

Lemma chunk_starts_from_In c dim : 0 < c -> forall f s x,
  In x (chunk_starts_from f s dim c) <-> exists k, 0 <= k < Z.of_nat f /\ x = s + k * c /\ x < dim.
Proof.
  intros Hc. induction f as [|f IH]; intros s x.
  - cbn [chunk_starts_from]. split; [intros []|]. intros (k & Hk & _). cbn in Hk. lia.
  - cbn [chunk_starts_from]. rewrite Nat2Z.inj_succ. destruct (Z.ltb_spec s dim) as [Hlt|Hge].
    + cbn [In]. rewrite IH. split.
      * intros [<-|(k & Hk & -> & Hx)].
        -- exists 0. split; [lia|]. split; lia.
        -- exists (k + 1). split; [lia|]. split; lia.
      * intros (k & Hk & -> & Hx). destruct (Z.eq_dec k 0) as [->|Hne]; [left; lia|].
        right. exists (k - 1). split; [lia|]. split; lia.
    + split; [intros []|]. intros (k & Hk & -> & Hx). exfalso. nia.
Qed.

Lemma chunk_starts_In c dim x : 0 < c ->
  (In x (chunk_starts dim c) <-> exists k, 0 <= k /\ x = k * c /\ x < dim).
Proof.
  intros Hc. unfold chunk_starts. rewrite (chunk_starts_from_In c dim Hc). split.
  - intros (k & Hk & -> & Hx). exists k. split; [lia|]. split; lia.
  - intros (k & Hk & -> & Hx). exists k. split; [|split; lia].
    assert (k <= k * c) by nia. rewrite Z2Nat.id by lia. lia.
Qed.

Lemma chunk_starts_from_NoDup c dim : 0 < c -> forall f s, NoDup (chunk_starts_from f s dim c).
Proof.
  intros Hc. induction f as [|f IH]; intros s; cbn [chunk_starts_from]; [constructor|].
  destruct (s <? dim); [|constructor]. constructor; [|apply IH].
  intros H. apply (chunk_starts_from_In c dim Hc) in H. destruct H as (k & Hk & E & _). nia.
Qed.

(* the slice of axis length [dim] that begins at s *)
Definition in_slice (s c dim i : Z) : Prop := s <= i < Z.min (s + c) dim.

(* C15 (4): the slices [s, min(s+chunk, dim)) for s in range(0, dim, chunk) stay inside
   [0, dim), are non-empty, are listed once, and every index of [0, dim) lies in exactly one *)
Theorem chunks_tile c dim : 0 < c ->
  NoDup (chunk_starts dim c) /\
  (forall s, In s (chunk_starts dim c) -> 0 <= s /\ s < Z.min (s + c) dim /\ Z.min (s + c) dim <= dim) /\
  (forall i, 0 <= i < dim ->
     exists s, In s (chunk_starts dim c) /\ in_slice s c dim i /\
       forall s', In s' (chunk_starts dim c) -> in_slice s' c dim i -> s' = s) /\
  (forall s i, In s (chunk_starts dim c) -> in_slice s c dim i -> 0 <= i < dim).
Proof.
  intros Hc. split; [apply chunk_starts_from_NoDup; exact Hc|]. split; [|split].
  - intros s Hs. apply (chunk_starts_In c dim s Hc) in Hs. destruct Hs as (k & Hk & -> & Hx). nia.
  - intros i Hi. pose proof (Z.div_mod i c ltac:(lia)) as Hdm. pose proof (Z.mod_pos_bound i c Hc) as Hmb.
    assert (0 <= i / c) as Hq by (apply Z.div_pos; lia).
    exists (i / c * c). split; [|split].
    + apply chunk_starts_In; [exact Hc|]. exists (i / c). split; [exact Hq|]. split; [reflexivity|]. lia.
    + unfold in_slice. lia.
    + intros s' Hs' Hin. apply (chunk_starts_In c dim s' Hc) in Hs'. destruct Hs' as (k & Hk & -> & Hx).
      unfold in_slice in Hin. assert (k = i / c) as ->; [|reflexivity].
      apply (Z.div_unique i c k (i - k * c)); [left; lia|lia].
  - intros s i Hs Hin. apply (chunk_starts_In c dim s Hc) in Hs. destruct Hs as (k & Hk & -> & Hx).
    unfold in_slice in Hin. nia.
Qed.

(* ---- N-dimensional blocks: itertools.product of the per-axis slices ---- *)

Definition in_range (shape idx : list Z) : Prop := Forall2 (fun i d => 0 <= i < d) idx shape.

Lemma NoDup_flat_map {A B} (f : A -> list B) : forall l,
  NoDup l -> (forall x, In x l -> NoDup (f x)) ->
  (forall x y z, In x l -> In y l -> In z (f x) -> In z (f y) -> x = y) ->
  NoDup (flat_map f l).
Proof.
  induction l as [|a l IH]; intros Hnd Hf Hdis; cbn [flat_map]; [constructor|].
  inversion Hnd as [|? ? Hna Hnd']; subst. apply NoDup_app_intro.
  - apply Hf. left. reflexivity.
  - apply IH; [exact Hnd'| |].
    + intros x Hx. apply Hf. right. exact Hx.
    + intros x y z Hx Hy. apply Hdis; right; assumption.
  - intros z Hz Hz'. apply in_flat_map in Hz'. destruct Hz' as (y & Hy & Hzy).
    assert (a = y) as -> by (apply (Hdis a y z); [left; reflexivity|right; exact Hy|exact Hz|exact Hzy]).
    exact (Hna Hy).
Qed.

Lemma NoDup_map_injective {A B} (f : A -> B) : (forall a b, f a = f b -> a = b) ->
  forall l, NoDup l -> NoDup (map f l).
Proof.
  intros Hinj. induction l as [|x l IH]; intros H; cbn [map]; [constructor|].
  inversion H as [|? ? Hn Hl]; subst. constructor; [|apply IH; exact Hl].
  intros Hin. apply in_map_iff in Hin. destruct Hin as (y & E & Hy). apply Hinj in E. subst. exact (Hn Hy).
Qed.

Lemma product_NoDup : forall ls, Forall (@NoDup Z) ls -> NoDup (product ls).
Proof.
  induction ls as [|l r IH]; intros H; cbn [product].
  - constructor; [intros []|constructor].
  - inversion H as [|? ? Hl Hr]; subst. apply NoDup_flat_map; [exact Hl| |].
    + intros x _. apply NoDup_map_injective; [|apply IH; exact Hr].
      intros a b E. injection E as ->. reflexivity.
    + intros x y z _ _ Hx Hy. apply in_map_iff in Hx. apply in_map_iff in Hy.
      destruct Hx as (a & <- & _). destruct Hy as (b & E & _). injection E as -> _. reflexivity.
Qed.

Lemma chunk_ranges_NoDup : forall shape chunks, Forall (fun c => 0 < c) chunks ->
  Forall (@NoDup Z) (chunk_ranges shape chunks).
Proof.
  induction shape as [|d sr IH]; intros chunks Hc; cbn [chunk_ranges]; [constructor|].
  destruct chunks as [|c cr]; [constructor|]. inversion Hc as [|? ? Hc0 Hcr]; subst.
  constructor; [apply chunk_starts_from_NoDup; exact Hc0|apply IH; exact Hcr].
Qed.

(* C15 (4), all axes: the blocks visited by the chunk loop are pairwise different and
   every in-range multi-index lies inside exactly one of them *)
Theorem blocks_tile : forall shape chunks idx,
  length chunks = length shape -> Forall (fun c => 0 < c) chunks -> in_range shape idx ->
  NoDup (blocks shape chunks) /\
  exists starts, In starts (blocks shape chunks) /\ inside starts chunks shape idx = true /\
    forall st', In st' (blocks shape chunks) -> inside st' chunks shape idx = true -> st' = starts.
Proof.
  intros shape chunks idx Hlen Hc Hr.
  split; [apply product_NoDup; apply chunk_ranges_NoDup; exact Hc|].
  revert chunks idx Hlen Hc Hr. induction shape as [|d sr IH]; intros chunks idx Hlen Hc Hr.
  - destruct chunks; [|discriminate]. inversion Hr; subst. exists []. cbn.
    split; [left; reflexivity|]. split; [reflexivity|]. intros st' [<-|[]] _. reflexivity.
  - destruct chunks as [|c cr]; [discriminate|]. cbn [length] in Hlen.
    inversion Hc as [|? ? Hc0 Hcr]; subst. inversion Hr as [|i ? ir ? Hi Hir]; subst.
    destruct (chunks_tile c d Hc0) as (_ & _ & Hex & _). destruct (Hex i Hi) as (s & Hs & Hin & Huniq).
    destruct (IH cr ir ltac:(lia) Hcr Hir) as (str & Hstr & Hinside & Hu).
    unfold blocks in *. cbn [chunk_ranges product].
    exists (s :: str). split; [|split].
    + apply in_flat_map. exists s. split; [exact Hs|]. apply in_map. exact Hstr.
    + cbn [inside]. unfold in_slice in Hin. rewrite Hinside.
      destruct (Z.leb_spec s i); [|lia]. destruct (Z.ltb_spec i (Z.min (s + c) d)); [|lia]. reflexivity.
    + intros st' Hst' Hins. apply in_flat_map in Hst'. destruct Hst' as (x & Hx & Hm).
      apply in_map_iff in Hm. destruct Hm as (ys & <- & Hys). cbn [inside] in Hins.
      apply andb_prop in Hins. destruct Hins as [Hins Hrest]. apply andb_prop in Hins. destruct Hins as [H1 H2].
      apply Z.leb_le in H1. apply Z.ltb_lt in H2.
      rewrite (Huniq x Hx (conj H1 H2)). rewrite (Hu ys Hys Hrest). reflexivity.
Qed.

Lemma covered_in_range shape chunks idx :
  length chunks = length shape -> Forall (fun c => 0 < c) chunks -> in_range shape idx ->
  covered (blocks shape chunks) chunks shape idx = true.
Proof.
  intros Hlen Hc Hr. destruct (blocks_tile shape chunks idx Hlen Hc Hr) as (_ & st & Hst & Hin & _).
  unfold covered. apply existsb_exists. exists st. split; assumption.
Qed.

(* ---- flat index -> multi-index ---- *)

Definition prodz (l : list Z) : Z := fold_right Z.mul 1 l.

Lemma prodz_app a b : prodz (a ++ b) = prodz a * prodz b.
Proof. unfold prodz. induction a as [|x a IH]; cbn [app fold_right]; [lia|]. rewrite IH. lia. Qed.

Lemma prodz_rev l : prodz (rev l) = prodz l.
Proof.
  induction l as [|x l IH]; cbn [rev]; [reflexivity|]. rewrite prodz_app, IH. unfold prodz. cbn [fold_right]. lia.
Qed.

Lemma unravel_rev_cons2 d d' r k : unravel_rev (d :: d' :: r) k = (k mod d) :: unravel_rev (d' :: r) (k / d).
Proof. reflexivity. Qed.

Lemma unravel_rev_range : forall rshape k, Forall (fun d => 0 < d) rshape -> 0 <= k < prodz rshape ->
  Forall2 (fun i d => 0 <= i < d) (unravel_rev rshape k) rshape.
Proof.
  induction rshape as [|d r IH]; intros k Hpos Hk; [constructor|].
  inversion Hpos as [|? ? Hd Hr]; subst. destruct r as [|d' r'].
  - cbn [unravel_rev]. cbn [prodz fold_right] in Hk. constructor; [lia|constructor].
  - rewrite unravel_rev_cons2. constructor.
    + apply Z.mod_pos_bound. exact Hd.
    + apply IH; [exact Hr|]. change (prodz (d :: d' :: r')) with (d * prodz (d' :: r')) in Hk. split.
      * apply Z.div_pos; lia.
      * apply Z.div_lt_upper_bound; lia.
Qed.

Lemma Forall2_rev {A B} (R : A -> B -> Prop) : forall a b, Forall2 R a b -> Forall2 R (rev a) (rev b).
Proof.
  intros a b H. induction H as [|x y a b Hxy _ IH]; cbn [rev]; [constructor|].
  apply Forall2_app; [exact IH|]. constructor; [exact Hxy|constructor].
Qed.

Lemma unravel_in_range shape k : Forall (fun d => 0 < d) shape -> 0 <= k < prodz shape ->
  in_range shape (unravel shape k).
Proof.
  intros Hpos Hk. unfold in_range, unravel. rewrite <- (rev_involutive shape) at 2.
  apply Forall2_rev. apply unravel_rev_range.
  - apply Forall_rev. exact Hpos.
  - rewrite prodz_rev. exact Hk.
Qed.

(* ---- the masked segmentation ---- *)

Lemma mask_from_spec bl chunks shape keep : forall seg k,
  (forall i, 0 <= i < Z.of_nat (length seg) -> covered bl chunks shape (unravel shape (k + i)) = true) ->
  mask_from bl chunks shape keep k seg = map (mask_label keep) seg.
Proof.
  induction seg as [|l r IH]; intros k Hcov; cbn [mask_from map]; [reflexivity|].
  pose proof (Hcov 0) as H0. rewrite Z.add_0_r in H0. rewrite H0 by (cbn [length]; lia). f_equal.
  apply IH. intros i Hi. replace (k + 1 + i) with (k + (i + 1)) by lia. apply Hcov. cbn [length]. lia.
Qed.

Theorem export_seg_with_spec chunks shape keep seg :
  length chunks = length shape -> Forall (fun c => 0 < c) chunks ->
  Forall (fun d => 0 < d) shape -> length seg = Z.to_nat (prodz shape) ->
  export_seg_with chunks shape keep seg = map (mask_label keep) seg.
Proof.
  intros Hlen Hc Hpos Hseg. unfold export_seg_with. apply mask_from_spec.
  intros i Hi. rewrite Z.add_0_l. apply covered_in_range; [exact Hlen|exact Hc|].
  apply unravel_in_range; [exact Hpos|]. rewrite Hseg in Hi. lia.
Qed.

Lemma Forall_firstn {A} (P : A -> Prop) : forall n l, Forall P l -> Forall P (firstn n l).
Proof.
  induction n as [|n IH]; intros l H; cbn [firstn]; [constructor|].
  destruct l as [|x l]; [constructor|]. inversion H; subst. constructor; [assumption|apply IH; assumption].
Qed.

Lemma chunk_sizes_ok n : length (chunk_sizes n) = n /\ Forall (fun c => 0 < c) (chunk_sizes n).
Proof.
  unfold chunk_sizes. split.
  - rewrite firstn_length, app_length, repeat_length. cbn [length]. lia.
  - apply Forall_firstn. apply Forall_app. split.
    + repeat constructor.
    + apply Forall_forall. intros x Hx. apply repeat_spec in Hx. lia.
Qed.

Theorem export_seg_spec shape keep seg :
  Forall (fun d => 0 < d) shape -> length seg = Z.to_nat (prodz shape) ->
  export_seg shape keep seg = map (mask_label keep) seg.
Proof.
  intros Hpos Hseg. unfold export_seg. destruct (chunk_sizes_ok (length shape)) as [Hl Hc].
  apply export_seg_with_spec; assumption.
Qed.

Lemma mask_label_spec keep l :
  (In l keep -> mask_label keep l = l) /\ (~ In l keep -> mask_label keep l = 0).
Proof.
  unfold mask_label. split; intros H.
  - apply memz_In in H. rewrite H. reflexivity.
  - apply memz_false in H. rewrite H. reflexivity.
Qed.

(* C15 (3): pixel by pixel, the exported segmentation keeps the label of a kept node and is
   background elsewhere; "kept" unfolded to "selected or an ancestor of a selected node" *)
Theorem export_geff_seg_spec g sel shape seg :
  well_formed g -> incl sel (g_nodes g) ->
  Forall (fun d => 0 < d) shape -> length seg = Z.to_nat (prodz shape) ->
  let out := snd (export_geff g sel shape seg) in
  length out = length seg /\
  forall k, (k < length seg)%nat ->
    let l := nth k seg 0 in
    ((In l sel \/ exists s, In s sel /\ anc (g_edges g) l s) -> nth k out 0 = l) /\
    (~ (In l sel \/ exists s, In s sel /\ anc (g_edges g) l s) -> nth k out 0 = 0).
Proof.
  intros Hwf Hsel Hpos Hseg out. unfold out, export_geff. cbn [snd].
  rewrite (export_seg_spec shape _ seg Hpos Hseg). split; [apply map_length|].
  intros k Hk. cbv zeta. set (l := nth k seg 0). destruct (keep_spec g sel Hwf Hsel) as (Hspec & _ & _).
  rewrite (nth_indep _ 0 (mask_label (filter_graph_with_ancestors g sel) 0)) by (rewrite map_length; exact Hk).
  rewrite map_nth. fold l. destruct (mask_label_spec (filter_graph_with_ancestors g sel) l) as [A B].
  split; intros H.
  - apply A. apply Hspec. exact H.
  - apply B. intros Hin. apply H. apply Hspec. exact Hin.
Qed.
