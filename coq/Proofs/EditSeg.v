(* C07: the label array of the edit machine (Model/Edit.v).
   Part A: array lemmas (write_frame / upd_frame / set_pixels / mask_of / get_pixels).
   Part B: effect of every basic action on node set, times and array; W_seg preservation.
   Part C: the paint stroke: the array after a successful stroke is exactly the painted one,
           after a failed stroke exactly the previous one. *)
From Coq Require Import ZArith List Bool Lia Sorted.
From FT Require Import Base.Dict Model.Edit Proofs.DictLemmas Proofs.EditInv.
Import ListNotations.
Open Scope Z_scope.

(* ================================================================== *)
(* Part A: arrays                                                      *)
(* ================================================================== *)

Lemma write_frame_length i f idx v : length (write_frame i f idx v) = length f.
Proof. revert i; induction f as [|x r IH]; intros i; cbn; [reflexivity|now rewrite IH]. Qed.

Lemma write_frame_nth i f idx v j : (j < length f)%nat ->
  nth j (write_frame i f idx v) 0 = if memz (i + Z.of_nat j) idx then v else nth j f 0.
Proof.
  revert i j; induction f as [|x r IH]; intros i j Hj; cbn [length] in Hj; [lia|].
  destruct j as [|j]; cbn [write_frame nth].
  - replace (i + Z.of_nat 0) with i by lia. reflexivity.
  - rewrite IH by lia. replace (i + 1 + Z.of_nat j) with (i + Z.of_nat (S j)) by lia. reflexivity.
Qed.

Lemma write_frame_nil i idx v : write_frame i [] idx v = [].
Proof. reflexivity. Qed.

Lemma upd_frame_length k h sg : length (upd_frame k h sg) = length sg.
Proof. revert k; induction sg as [|f r IH]; intros k; [now destruct k|]. destruct k; cbn; [reflexivity|now rewrite IH]. Qed.

Lemma upd_frame_nth_eq k h sg : h [] = [] -> nth k (upd_frame k h sg) [] = h (nth k sg []).
Proof.
  intros Hh. revert k; induction sg as [|f r IH]; intros k.
  - destruct k; cbn; now rewrite Hh.
  - destruct k; cbn; [reflexivity|apply IH].
Qed.

Lemma upd_frame_nth_neq k j h sg : j <> k -> nth j (upd_frame k h sg) [] = nth j sg [].
Proof.
  revert k j; induction sg as [|f r IH]; intros k j Hn.
  - now destruct k.
  - destruct k, j; cbn; try reflexivity; try lia. apply IH. lia.
Qed.

(* the array after  seg[t][idx] = v  *)
Definition paint_arr (sg : list (list Z)) (t : Z) (idx : list Z) (v : Z) : list (list Z) :=
  upd_frame (Z.to_nat t) (fun f => write_frame 0 f idx v) sg.

(* same number of frames, same frame sizes *)
Definition same_shape (a b : list (list Z)) : Prop :=
  length a = length b /\ forall t, length (frame_of a t) = length (frame_of b t).

Lemma same_shape_refl a : same_shape a a.
Proof. split; reflexivity. Qed.
Lemma same_shape_trans a b c : same_shape a b -> same_shape b c -> same_shape a c.
Proof. intros [H1 H2] [H3 H4]. split; [congruence|]. intros t. now rewrite H2. Qed.
Lemma same_shape_sym a b : same_shape a b -> same_shape b a.
Proof. intros [H1 H2]. split; [congruence|]. intros t. now rewrite H2. Qed.

Lemma frame_of_paint sg t idx v t' :
  frame_of (paint_arr sg t idx v) t' =
    if (Z.to_nat t' =? Z.to_nat t)%nat then write_frame 0 (frame_of sg t') idx v else frame_of sg t'.
Proof.
  unfold frame_of, paint_arr. destruct (Nat.eqb_spec (Z.to_nat t') (Z.to_nat t)) as [E|E].
  - rewrite E. now rewrite upd_frame_nth_eq.
  - now rewrite upd_frame_nth_neq.
Qed.

Lemma paint_same_shape sg t idx v : same_shape (paint_arr sg t idx v) sg.
Proof.
  split; [apply upd_frame_length|]. intros t'. rewrite frame_of_paint.
  destruct (Z.to_nat t' =? Z.to_nat t)%nat; [apply write_frame_length|reflexivity].
Qed.

Lemma frame_ok_shape a b t : same_shape a b -> frame_ok a t = frame_ok b t.
Proof. intros [H _]. unfold frame_ok. now rewrite H. Qed.

Lemma frame_ok_range sg t : frame_ok sg t = true <-> 0 <= t < Z.of_nat (length sg).
Proof. unfold frame_ok. rewrite andb_true_iff, Z.leb_le, Z.ltb_lt. tauto. Qed.

(* pointwise value of the array after a write *)
Lemma label_at_paint sg t idx v t' i : 0 <= t -> 0 <= t' ->
  label_at (paint_arr sg t idx v) t' i =
    if (t' =? t) && memz (Z.of_nat i) idx && (i <? length (frame_of sg t))%nat then v else label_at sg t' i.
Proof.
  intros Ht Ht'. unfold label_at. rewrite frame_of_paint.
  destruct (Z.eqb_spec t' t) as [->|Hne].
  - rewrite Nat.eqb_refl. cbn [andb]. destruct (Nat.ltb_spec i (length (frame_of sg t))) as [Hi|Hi].
    + rewrite write_frame_nth by exact Hi. rewrite Z.add_0_l, andb_true_r. reflexivity.
    + rewrite andb_false_r. rewrite !nth_overflow; [reflexivity|lia|rewrite write_frame_length; lia].
  - cbn [andb]. destruct (Nat.eqb_spec (Z.to_nat t') (Z.to_nat t)) as [E|E]; [lia|reflexivity].
Qed.

Lemma label_at_overflow sg t i : (length (frame_of sg t) <= i)%nat -> label_at sg t i = 0.
Proof. intros H. unfold label_at. now apply nth_overflow. Qed.

(* ---- set_pixels ---- *)
Lemma set_pixels_ok st px v s : set_pixels st px v = Ok tt s ->
  exists sg, seg st = Some sg /\ frame_ok sg (fst px) = true /\ s = upd_seg st (Some (paint_arr sg (fst px) (snd px) v)).
Proof.
  unfold set_pixels. destruct (seg st) as [sg|]; [|discriminate].
  destruct (frame_ok sg (fst px)) eqn:E; [|discriminate]. intros H. injection H as <-. exists sg. auto.
Qed.

Lemma set_pixels_some st sg px v : seg st = Some sg -> frame_ok sg (fst px) = true ->
  set_pixels st px v = Ok tt (upd_seg st (Some (paint_arr sg (fst px) (snd px) v))).
Proof. intros H1 H2. unfold set_pixels. now rewrite H1, H2. Qed.

Lemma set_pixels_err st px v e s : set_pixels st px v = Err e s -> s = st.
Proof.
  unfold set_pixels. destruct (seg st) as [sg|]; [|intros H; now injection H].
  destruct (frame_ok sg (fst px)); [discriminate|intros H; now injection H].
Qed.

(* ---- mask_of ---- *)
Lemma positions_from_In s f n p :
  In p (positions_from s f n) <-> exists j, (j < length f)%nat /\ p = s + Z.of_nat j /\ nth j f 0 = n.
Proof.
  revert s; induction f as [|x r IH]; intros s; cbn [positions_from].
  - split; [intros []|intros (j & Hj & _); cbn in Hj; lia].
  - assert (Hr : In p (positions_from (s + 1) r n) <-> exists j, (0 < j < length (x :: r))%nat /\ p = s + Z.of_nat j /\ nth j (x :: r) 0 = n).
    { rewrite IH. split.
      - intros (j & Hj & -> & E). exists (S j). cbn [length nth]. split; [lia|split; [lia|exact E]].
      - intros (j & Hj & -> & E). destruct j as [|j]; [lia|]. exists j. cbn [length nth] in *. split; [lia|split; [lia|exact E]]. }
    destruct (Z.eqb_spec x n) as [->|Hx]; cbn [In]; rewrite Hr.
    + split.
      * intros [<-|(j & Hj & H)]; [exists 0%nat; cbn; split; [lia|split; [lia|reflexivity]]|exists j; split; [lia|exact H]].
      * intros (j & Hj & -> & E). destruct j as [|j]; [left; lia|right; exists (S j); split; [lia|auto]].
    + split.
      * intros (j & Hj & H). exists j. split; [lia|exact H].
      * intros (j & Hj & -> & E). destruct j as [|j]; [cbn in E; contradiction|exists (S j); split; [lia|auto]].
Qed.

Lemma positions_from_ge s f n p : In p (positions_from s f n) -> s <= p.
Proof. rewrite positions_from_In. intros (j & _ & -> & _). lia. Qed.

Lemma positions_from_sorted s f n : StronglySorted Z.lt (positions_from s f n).
Proof.
  revert s; induction f as [|x r IH]; intros s; cbn [positions_from]; [constructor|].
  destruct (x =? n); [|apply IH]. constructor; [apply IH|].
  apply Forall_forall. intros p Hp. apply positions_from_ge in Hp. lia.
Qed.

Lemma sorted_lt_NoDup (l : list Z) : StronglySorted Z.lt l -> NoDup l.
Proof.
  induction 1 as [|x l Hs IH Hf]; constructor; [|exact IH].
  intros Hin. rewrite Forall_forall in Hf. specialize (Hf _ Hin). lia.
Qed.

Lemma mask_of_sorted sg t n : StronglySorted Z.lt (mask_of sg t n).
Proof. apply positions_from_sorted. Qed.
Lemma mask_of_NoDup sg t n : NoDup (mask_of sg t n).
Proof. apply sorted_lt_NoDup, mask_of_sorted. Qed.

(* np.nonzero(seg[t] == n): exactly the in-range flat indices that carry label n *)
Lemma mask_of_In sg t n p :
  In p (mask_of sg t n) <-> 0 <= p < Z.of_nat (length (frame_of sg t)) /\ label_at sg t (Z.to_nat p) = n.
Proof.
  unfold mask_of, label_at. rewrite positions_from_In. split.
  - intros (j & Hj & -> & E). rewrite Z.add_0_l, Nat2Z.id. split; [lia|exact E].
  - intros (Hp & E). exists (Z.to_nat p). split; [lia|split; [lia|exact E]].
Qed.

Lemma mask_of_In_nat sg t n i :
  In (Z.of_nat i) (mask_of sg t n) <-> (i < length (frame_of sg t))%nat /\ label_at sg t i = n.
Proof. rewrite mask_of_In, Nat2Z.id. split; intros [H1 H2]; (split; [lia|exact H2]). Qed.

Lemma mask_nonempty sg t n :
  mask_of sg t n <> [] <-> exists i, (i < length (frame_of sg t))%nat /\ label_at sg t i = n.
Proof.
  split.
  - destruct (mask_of sg t n) as [|p r] eqn:E; [congruence|]. intros _.
    assert (Hp : In p (mask_of sg t n)) by (rewrite E; now left).
    apply mask_of_In in Hp. exists (Z.to_nat p). split; [lia|tauto].
  - intros (i & Hi & E) Hnil. assert (Hp : In (Z.of_nat i) (mask_of sg t n)) by (apply mask_of_In_nat; auto).
    rewrite Hnil in Hp. contradiction.
Qed.

Lemma positions_from_ext s f f' n : length f = length f' ->
  (forall j, (j < length f)%nat -> (nth j f 0 = n <-> nth j f' 0 = n)) ->
  positions_from s f n = positions_from s f' n.
Proof.
  revert s f'; induction f as [|x r IH]; intros s f' Hl He; destruct f' as [|x' r']; cbn in Hl; try lia; [reflexivity|].
  cbn [positions_from]. assert (H0 := He 0%nat ltac:(cbn; lia)). cbn in H0.
  assert (Hr : positions_from (s + 1) r n = positions_from (s + 1) r' n).
  { apply IH; [lia|]. intros j Hj. apply (He (S j)). cbn. lia. }
  rewrite Hr. destruct (Z.eqb_spec x n) as [E|E], (Z.eqb_spec x' n) as [E'|E']; try reflexivity; tauto.
Qed.

(* a mask depends only on which positions of its frame carry the label *)
Lemma mask_of_ext sg sg' t n : length (frame_of sg t) = length (frame_of sg' t) ->
  (forall i, (i < length (frame_of sg t))%nat -> (label_at sg t i = n <-> label_at sg' t i = n)) ->
  mask_of sg t n = mask_of sg' t n.
Proof. intros Hl He. unfold mask_of. apply positions_from_ext; assumption. Qed.

(* tracks.get_pixels(node) *)
Lemma get_pixels_spec st sg n : seg st = Some sg ->
  get_pixels st n = Some (time_of st n, mask_of sg (time_of st n) n).
Proof. intros H. unfold get_pixels. now rewrite H. Qed.

Lemma pixels_exact st sg n t m : seg st = Some sg -> get_pixels st n = Some (t, m) ->
  t = time_of st n /\ NoDup m /\ StronglySorted Z.lt m /\
  forall p, In p m <-> 0 <= p < Z.of_nat (length (frame_of sg t)) /\ label_at sg t (Z.to_nat p) = n.
Proof.
  intros Hs Hg. rewrite (get_pixels_spec _ _ _ Hs) in Hg. injection Hg as <- <-.
  split; [reflexivity|]. split; [apply mask_of_NoDup|]. split; [apply mask_of_sorted|]. intros p. apply mask_of_In.
Qed.

(* ================================================================== *)
(* Part B.1: effect of the primitive writes on the graph               *)
(* ================================================================== *)

Lemma is_node_haskey st n : is_node st n <-> has_node st n = true.
Proof. unfold is_node, node_ids, has_node. symmetry. apply haskey_keys. Qed.

Lemma is_node_lookup st n : is_node st n <-> exists d, lookup n (nodes (g st)) = Some d.
Proof.
  rewrite is_node_haskey. unfold has_node, haskey. destruct (lookup n (nodes (g st))) as [d|].
  - split; [intros _; now exists d|reflexivity].
  - split; [discriminate|intros [d H]; discriminate].
Qed.

(* only node-attribute keys in K may differ; the node list is the same *)
Definition nodes_keep (K : Z -> Prop) (st st' : state) : Prop :=
  node_ids st' = node_ids st /\ forall m k, ~ K k -> attr st' m k = attr st m k.

Lemma nodes_keep_refl K st : nodes_keep K st st.
Proof. split; reflexivity. Qed.
Lemma nodes_keep_trans K a b c : nodes_keep K a b -> nodes_keep K b c -> nodes_keep K a c.
Proof. intros [H1 H2] [H3 H4]. split; [congruence|]. intros m k Hk. rewrite H4, H2; auto. Qed.
Lemma nodes_keep_weaken (K K' : Z -> Prop) a b : (forall k, K k -> K' k) -> nodes_keep K a b -> nodes_keep K' a b.
Proof. intros Hi [H1 H2]. split; [exact H1|]. intros m k Hk. apply H2. auto. Qed.
Lemma nodes_keep_eq K a b : nodes (g b) = nodes (g a) -> nodes_keep K a b.
Proof. intros E. unfold nodes_keep, node_ids, attr, node_attrs. rewrite E. auto. Qed.

Lemma nodes_keep_is_node K a b n : nodes_keep K a b -> (is_node b n <-> is_node a n).
Proof. intros [H _]. unfold is_node. now rewrite H. Qed.
Lemma nodes_keep_time K a b n : ~ K KTime -> nodes_keep K a b -> time_of b n = time_of a n.
Proof. intros Hk [_ H]. unfold time_of, zattr. now rewrite H. Qed.

Lemma sna_seg st n k v : seg (set_node_attr st n k v) = seg st.
Proof. unfold set_node_attr. now destruct (lookup n (nodes (g st))). Qed.
Lemma sna_ft st n k v : ft (set_node_attr st n k v) = ft st.
Proof. unfold set_node_attr. now destruct (lookup n (nodes (g st))). Qed.
Lemma sna_succs st n k v : succs (g (set_node_attr st n k v)) = succs (g st).
Proof. unfold set_node_attr. now destruct (lookup n (nodes (g st))). Qed.

Lemma sna_node_ids st n k v : node_ids (set_node_attr st n k v) = node_ids st.
Proof.
  unfold set_node_attr, node_ids. destruct (lookup n (nodes (g st))) as [d|] eqn:E; [|reflexivity].
  cbn. apply keys_set_in. eapply lookup_Some_keys; eauto.
Qed.

Lemma sna_attr st n k v m k' :
  attr (set_node_attr st n k v) m k' = if (m =? n) && (k' =? k) && has_node st n then Some v else attr st m k'.
Proof.
  unfold set_node_attr, attr, node_attrs, has_node, haskey.
  destruct (lookup n (nodes (g st))) as [d|] eqn:E; [|now rewrite andb_false_r].
  cbn. rewrite andb_true_r. destruct (Z.eqb_spec m n) as [->|Hm]; cbn [andb].
  - rewrite getd_set_eq. unfold getd. rewrite E. destruct (Z.eqb_spec k' k) as [->|Hk].
    + apply lookup_set_eq.
    + now apply lookup_set_neq.
  - now rewrite getd_set_neq.
Qed.

Lemma sna_keep st n k v : nodes_keep (eq k) st (set_node_attr st n k v).
Proof.
  split; [apply sna_node_ids|]. intros m k' Hk. rewrite sna_attr.
  destruct (Z.eqb_spec k' k) as [->|Hne]; [congruence|]. now rewrite andb_false_r.
Qed.

(* a state transformer that leaves array, features and adjacency alone *)
Definition graph_only (st st' : state) : Prop :=
  seg st' = seg st /\ ft st' = ft st /\ succs (g st') = succs (g st).
Lemma graph_only_refl st : graph_only st st.
Proof. repeat split. Qed.
Lemma graph_only_trans a b c : graph_only a b -> graph_only b c -> graph_only a c.
Proof. intros (A1 & A2 & A3) (B1 & B2 & B3). repeat split; congruence. Qed.
Lemma sna_graph_only st n k v : graph_only st (set_node_attr st n k v).
Proof. split; [apply sna_seg|split; [apply sna_ft|apply sna_succs]]. Qed.

(* for (k, v) in attrs: graph.nodes[n][k] = v *)
Definition set_attrs (st : state) (n : Z) (a : attrs) : state :=
  fold_left (fun s kv => set_node_attr s n (fst kv) (snd kv)) a st.

Lemma set_attrs_graph_only st n a : graph_only st (set_attrs st n a).
Proof.
  unfold set_attrs. revert st; induction a as [|[k v] r IH]; intros st; cbn [fold_left]; [apply graph_only_refl|].
  eapply graph_only_trans; [apply sna_graph_only|apply IH].
Qed.

Lemma set_attrs_keep st n a : nodes_keep (fun k => In k (keys a)) st (set_attrs st n a).
Proof.
  unfold set_attrs. revert st; induction a as [|[k v] r IH]; intros st; cbn [fold_left]; [apply nodes_keep_refl|].
  eapply nodes_keep_trans.
  - eapply nodes_keep_weaken; [|apply sna_keep]. cbn. intros k' <-. now left.
  - eapply nodes_keep_weaken; [|apply IH]. cbn. intros k' H. now right.
Qed.

Lemma set_attrs_other st n a m k : m <> n -> attr (set_attrs st n a) m k = attr st m k.
Proof.
  unfold set_attrs. revert st; induction a as [|[k1 v1] r IH]; intros st Hm; cbn [fold_left]; [reflexivity|].
  rewrite IH by exact Hm. rewrite sna_attr. destruct (Z.eqb_spec m n); [contradiction|reflexivity].
Qed.

Lemma set_attrs_lookup st n a k v : is_node st n -> NoDup (keys a) -> lookup k a = Some v ->
  attr (set_attrs st n a) n k = Some v.
Proof.
  unfold set_attrs. revert st; induction a as [|[k1 v1] r IH]; intros st Hn Hnd Hl; [discriminate|].
  cbn [fold_left fst snd]. rewrite keys_cons in Hnd. inversion Hnd as [|? ? Hk1 Hr]; subst.
  cbn [lookup] in Hl. destruct (Z.eqb_spec k k1) as [->|Hne].
  - injection Hl as ->. destruct (set_attrs_keep (set_node_attr st n k1 v) n r) as [_ Hkeep].
    unfold set_attrs in Hkeep. rewrite Hkeep by exact Hk1. rewrite sna_attr, !Z.eqb_refl.
    apply is_node_haskey in Hn. now rewrite Hn.
  - apply IH; [|exact Hr|exact Hl]. unfold is_node. now rewrite sna_node_ids.
Qed.

(* graph.nodes[n].pop(k, None) *)
Lemma dna_seg st n k : seg (del_node_attr st n k) = seg st.
Proof. unfold del_node_attr. now destruct (lookup n (nodes (g st))). Qed.
Lemma dna_ft st n k : ft (del_node_attr st n k) = ft st.
Proof. unfold del_node_attr. now destruct (lookup n (nodes (g st))). Qed.
Lemma dna_succs st n k : succs (g (del_node_attr st n k)) = succs (g st).
Proof. unfold del_node_attr. now destruct (lookup n (nodes (g st))). Qed.

Lemma dna_node_ids st n k : node_ids (del_node_attr st n k) = node_ids st.
Proof.
  unfold del_node_attr, node_ids. destruct (lookup n (nodes (g st))) as [d|] eqn:E; [|reflexivity].
  cbn. apply keys_set_in. eapply lookup_Some_keys; eauto.
Qed.

Lemma dna_attr st n k m k' :
  attr (del_node_attr st n k) m k' = if (m =? n) && (k' =? k) && has_node st n then None else attr st m k'.
Proof.
  unfold del_node_attr, attr, node_attrs, has_node, haskey.
  destruct (lookup n (nodes (g st))) as [d|] eqn:E; [|now rewrite andb_false_r].
  cbn. rewrite andb_true_r. destruct (Z.eqb_spec m n) as [->|Hm]; cbn [andb].
  - rewrite getd_set_eq. unfold getd. rewrite E. destruct (Z.eqb_spec k' k) as [->|Hk].
    + apply lookup_del_eq.
    + now apply lookup_del_neq.
  - now rewrite getd_set_neq.
Qed.

Lemma dna_keep st n k : nodes_keep (eq k) st (del_node_attr st n k).
Proof.
  split; [apply dna_node_ids|]. intros m k' Hk. rewrite dna_attr.
  destruct (Z.eqb_spec k' k) as [->|Hne]; [congruence|]. now rewrite andb_false_r.
Qed.
Lemma dna_graph_only st n k : graph_only st (del_node_attr st n k).
Proof. split; [apply dna_seg|split; [apply dna_ft|apply dna_succs]]. Qed.

(* UpdateNodeAttrs._apply: a None value removes the attribute, any other value is stored *)
Lemma apply_attr_keep st n kv : nodes_keep (eq (fst kv)) st (apply_attr st n kv).
Proof. unfold apply_attr. destruct (snd kv); first [apply dna_keep | apply sna_keep]. Qed.
Lemma apply_attr_graph_only st n kv : graph_only st (apply_attr st n kv).
Proof. unfold apply_attr. destruct (snd kv); first [apply dna_graph_only | apply sna_graph_only]. Qed.

Definition apply_attrs (st : state) (n : Z) (a : attrs) : state :=
  fold_left (fun s kv => apply_attr s n kv) a st.

Lemma apply_attrs_graph_only st n a : graph_only st (apply_attrs st n a).
Proof.
  unfold apply_attrs. revert st; induction a as [|[k v] r IH]; intros st; cbn [fold_left]; [apply graph_only_refl|].
  eapply graph_only_trans; [apply apply_attr_graph_only|apply IH].
Qed.

Lemma apply_attrs_keep st n a : nodes_keep (fun k => In k (keys a)) st (apply_attrs st n a).
Proof.
  unfold apply_attrs. revert st; induction a as [|[k v] r IH]; intros st; cbn [fold_left]; [apply nodes_keep_refl|].
  eapply nodes_keep_trans.
  - eapply nodes_keep_weaken; [|apply (apply_attr_keep st n (k, v))]. cbn. intros k' <-. now left.
  - eapply nodes_keep_weaken; [|apply IH]. cbn. intros k' H. now right.
Qed.

(* for k in keys: graph.nodes[n][k] = v *)
Definition set_keys (st : state) (n : Z) (ks : list Z) (v : value) : state :=
  fold_left (fun s k => set_node_attr s n k v) ks st.

Lemma set_keys_graph_only st n ks v : graph_only st (set_keys st n ks v).
Proof.
  unfold set_keys. revert st; induction ks as [|k r IH]; intros st; cbn [fold_left]; [apply graph_only_refl|].
  eapply graph_only_trans; [apply sna_graph_only|apply IH].
Qed.

Lemma set_keys_node_ids st n ks v : node_ids (set_keys st n ks v) = node_ids st.
Proof.
  unfold set_keys. revert st; induction ks as [|k r IH]; intros st; cbn [fold_left]; [reflexivity|].
  rewrite IH. apply sna_node_ids.
Qed.

Lemma set_keys_attr st n ks v m k :
  attr (set_keys st n ks v) m k = if (m =? n) && memz k ks && has_node st n then Some v else attr st m k.
Proof.
  unfold set_keys. revert st; induction ks as [|k1 r IH]; intros st; cbn [fold_left].
  - cbn. now rewrite andb_false_r.
  - rewrite IH, sna_attr. assert (Hh : has_node (set_node_attr st n k1 v) n = has_node st n).
    { destruct (has_node st n) eqn:E.
      - apply is_node_haskey. unfold is_node. rewrite sna_node_ids. now apply is_node_haskey.
      - destruct (has_node (set_node_attr st n k1 v) n) eqn:E'; [|reflexivity].
        apply is_node_haskey in E'. unfold is_node in E'. rewrite sna_node_ids in E'. apply is_node_haskey in E'. congruence. }
    rewrite Hh. cbn [memz existsb]. fold (memz k r).
    destruct (Z.eqb_spec m n) as [->|Hm]; cbn [andb]; [|reflexivity].
    destruct (has_node st n); [|now rewrite !andb_false_r].
    rewrite !andb_true_r. destruct (memz k r); [now rewrite orb_true_r|]. rewrite orb_false_r. reflexivity.
Qed.

Lemma set_keys_keep st n ks v : nodes_keep (fun k => In k ks) st (set_keys st n ks v).
Proof.
  split; [apply set_keys_node_ids|]. intros m k Hk. rewrite set_keys_attr.
  apply memz_false in Hk. now rewrite Hk, andb_false_r.
Qed.

(* RegionpropsAnnotator.update *)
Lemma rp_update_unfold st sg n : seg st = Some sg ->
  rp_update st n = set_keys st n (rp_act (ft st))
     (match mask_of sg (time_of st n) n with [] => VNone | _ => VRp (mask_of sg (time_of st n) n) end).
Proof. intros H. unfold rp_update, set_keys. rewrite H. reflexivity. Qed.

Lemma rp_update_graph_only st n : graph_only st (rp_update st n).
Proof. unfold rp_update. destruct (seg st); [apply set_keys_graph_only|apply graph_only_refl]. Qed.

Lemma rp_update_keep st n : nodes_keep (fun k => In k (rp_act (ft st))) st (rp_update st n).
Proof. unfold rp_update. destruct (seg st); [apply set_keys_keep|apply nodes_keep_refl]. Qed.

(* edges *)
Lemma sea_nodes st u v k x : nodes (g (set_edge_attr st u v k x)) = nodes (g st).
Proof. unfold set_edge_attr. now destruct (has_edge st u v). Qed.
Lemma sea_seg st u v k x : seg (set_edge_attr st u v k x) = seg st.
Proof. unfold set_edge_attr. now destruct (has_edge st u v). Qed.
Lemma sea_ft st u v k x : ft (set_edge_attr st u v k x) = ft st.
Proof. unfold set_edge_attr. now destruct (has_edge st u v). Qed.

Lemma iou_update_nodes st es : nodes (g (iou_update_edges st es)) = nodes (g st).
Proof.
  unfold iou_update_edges. destruct (seg st) as [sg|]; [|reflexivity]. destruct (iou_act (ft st)); [|reflexivity].
  revert st; induction es as [|e r IH]; intros st; cbn [fold_left]; [reflexivity|]. rewrite IH. apply sea_nodes.
Qed.
Lemma iou_update_seg st es : seg (iou_update_edges st es) = seg st.
Proof.
  unfold iou_update_edges. destruct (seg st) as [sg|] eqn:Hs; [|exact Hs]. destruct (iou_act (ft st)); [|exact Hs].
  rewrite <- Hs. clear Hs. revert st; induction es as [|e r IH]; intros st; cbn [fold_left]; [reflexivity|]. rewrite IH. apply sea_seg.
Qed.
Lemma iou_update_ft st es : ft (iou_update_edges st es) = ft st.
Proof.
  unfold iou_update_edges. destruct (seg st) as [sg|]; [|reflexivity]. destruct (iou_act (ft st)); [|reflexivity].
  revert st; induction es as [|e r IH]; intros st; cbn [fold_left]; [reflexivity|]. rewrite IH. apply sea_ft.
Qed.

(* ================================================================== *)
(* Part B.2: control flow of the three array-writing basic actions      *)
(* ================================================================== *)

(* everything the invariants read from the graph is a function of [g st] *)
Lemma attr_g a b m k : g a = g b -> attr a m k = attr b m k.
Proof. intros E. unfold attr, node_attrs. now rewrite E. Qed.
Lemma is_node_g a b m : g a = g b -> (is_node a m <-> is_node b m).
Proof. intros E. unfold is_node, node_ids. now rewrite E. Qed.
Lemma time_of_g a b m : g a = g b -> time_of a m = time_of b m.
Proof. intros E. unfold time_of, zattr. now rewrite (attr_g a b m KTime E). Qed.
Lemma adj_g a b u : g a = g b -> adj a u = adj b u.
Proof. intros E. unfold adj. now rewrite E. Qed.
Lemma time_of_attr a b m : attr a m KTime = attr b m KTime -> time_of a m = time_of b m.
Proof. intros E. unfold time_of, zattr. now rewrite E. Qed.

(* the graph / annotator part of AddNode, after the pixels were written *)
Definition add_node_core (st : state) (n : Z) (a : attrs) : state :=
  let nd := nodes (g st) in
  let st := if haskey n nd then st
            else upd_g st {| nodes := nd ++ [(n, [])]; succs := set n (getd n (succs (g st)) []) (succs (g st)) |} in
  rp_update (set_attrs st n a) n.

Lemma do_add_node_ok st n a px b st' : do_add_node st n a px = Ok b st' ->
  exists st1, (match px with Some p => set_pixels st p n | None => Ok tt st end) = Ok tt st1 /\
    g st' = g (add_node_core st1 n a) /\ seg st' = seg (add_node_core st1 n a) /\ ft st' = ft (add_node_core st1 n a).
Proof.
  unfold do_add_node.
  destruct (negb (haskey KTime a)); [discriminate|]. destruct (negb (haskey KTrack a)); [discriminate|].
  destruct (match px with None => negb (all_in (pos_keys (ft st)) a) | Some _ => false end); [discriminate|].
  destruct (match px with Some p => set_pixels st p n | None => Ok tt st end) as [[] st1|e st1] eqn:E1; [|discriminate].
  cbn [bind]. fold (set_attrs (if haskey n (nodes (g st1)) then st1 else upd_g st1 {| nodes := nodes (g st1) ++ [(n, [])]; succs := set n (getd n (succs (g st1)) []) (succs (g st1)) |}) n a).
  change (rp_update (set_attrs (if haskey n (nodes (g st1)) then st1 else upd_g st1 {| nodes := nodes (g st1) ++ [(n, [])]; succs := set n (getd n (succs (g st1)) []) (succs (g st1)) |}) n a) n) with (add_node_core st1 n a).
  set (s4 := add_node_core st1 n a).
  destruct (negb (trk_act (ft s4))).
  - intros H. injection H as _ <-. exists st1. auto.
  - destruct (zattr s4 n KTrack) as [t|]; [|discriminate].
    destruct (if lin_act (ft s4) then _ else _) as [lb ml]. intros H. injection H as _ <-. exists st1. auto.
Qed.

Lemma do_del_node_ok st n pxo b st' : do_del_node st n pxo = Ok b st' ->
  exists d st1, lookup n (nodes (g st)) = Some d /\
    (match (match pxo with Some p => Some p | None => get_pixels st n end) with Some p => set_pixels st p 0 | None => Ok tt st end) = Ok tt st1 /\
    g st' = {| nodes := del n (nodes (g st1)); succs := map (fun ua => (fst ua, del n (snd ua))) (del n (succs (g st1))) |} /\
    seg st' = seg st1 /\ ft st' = ft st1.
Proof.
  unfold do_del_node. destruct (lookup n (nodes (g st))) as [d|]; [|discriminate].
  destruct (match (match pxo with Some p => Some p | None => get_pixels st n end) with Some p => set_pixels st p 0 | None => Ok tt st end) as [[] st1|e st1] eqn:E1; [|discriminate].
  cbn [bind]. cbn [ft upd_g]. destruct (negb (trk_act (ft st1))).
  - intros H. injection H as _ <-. exists d, st1. auto.
  - intros H. injection H as _ <-. exists d, st1. auto.
Qed.

Definition upd_seg_edges (s : state) (n : Z) : list (Z * Z) :=
  map (fun p => (p, n)) (predecessors s n) ++ map (fun c => (n, c)) (successors s n).

Lemma do_upd_seg_ok st n px added b st' : do_upd_seg st n px added = Ok b st' ->
  exists st1, set_pixels st px (if added then n else 0) = Ok tt st1 /\
    st' = iou_update_edges (rp_update st1 n) (upd_seg_edges (rp_update st1 n) n).
Proof.
  unfold do_upd_seg. destruct (set_pixels st px (if added then n else 0)) as [[] st1|e st1] eqn:E1; [|discriminate].
  cbn [bind]. destruct (negb (has_node st1 n) && _); [discriminate|]. destruct (negb (has_node st1 n) && _); [discriminate|].
  intros H. injection H as _ <-. exists st1. auto.
Qed.

Lemma lookup_snoc {V} k n (x : V) (d : dict V) :
  lookup k (d ++ [(n, x)]) = match lookup k d with Some v => Some v | None => if k =? n then Some x else None end.
Proof. induction d as [|[k' v'] r IH]; cbn; [reflexivity|]. destruct (k =? k'); [reflexivity|exact IH]. Qed.

Lemma keys_app {V} (d e : dict V) : keys (d ++ e) = keys d ++ keys e.
Proof. unfold keys. apply map_app. Qed.

Lemma add_node_core_spec st n a : ~ is_node st n ->
  let s' := add_node_core st n a in
  seg s' = seg st /\ ft s' = ft st /\
  (forall m, is_node s' m <-> m = n \/ is_node st m) /\
  (forall m k, m <> n -> attr s' m k = attr st m k) /\
  (forall k v, NoDup (keys a) -> lookup k a = Some v -> ~ In k (rp_act (ft st)) -> attr s' n k = Some v) /\
  (forall sg t, seg st = Some sg -> NoDup (keys a) -> lookup KTime a = Some (VZ t) -> ~ In KTime (rp_act (ft st)) ->
      forall k, In k (rp_act (ft st)) ->
      attr s' n k = Some (match mask_of sg t n with [] => VNone | _ => VRp (mask_of sg t n) end)) /\
  (forall u, adj s' u = adj st u).
Proof.
  intros Hn. unfold add_node_core.
  assert (Hh : haskey n (nodes (g st)) = false).
  { destruct (haskey n (nodes (g st))) eqn:E; [|reflexivity]. exfalso. apply Hn. now apply is_node_haskey. }
  rewrite Hh.
  set (s2 := upd_g st {| nodes := nodes (g st) ++ [(n, [])]; succs := set n (getd n (succs (g st)) []) (succs (g st)) |}).
  set (s3 := set_attrs s2 n a). set (s4 := rp_update s3 n). cbv zeta.
  assert (Hids2 : node_ids s2 = node_ids st ++ [n]) by (unfold node_ids, s2; cbn [g nodes upd_g]; apply keys_app).
  assert (Hattr2 : forall m k, m <> n -> attr s2 m k = attr st m k).
  { intros m k Hm. unfold attr, node_attrs, s2, getd. cbn. rewrite lookup_snoc.
    destruct (lookup m (nodes (g st))); [reflexivity|]. destruct (Z.eqb_spec m n); [contradiction|reflexivity]. }
  assert (Hadj2 : forall u, adj s2 u = adj st u).
  { intros u. unfold adj, s2. cbn. destruct (Z.eq_dec u n) as [->|Hu]; [now rewrite getd_set_eq|now rewrite getd_set_neq]. }
  assert (Hn2 : is_node s2 n) by (unfold is_node; rewrite Hids2, in_app_iff; right; now left).
  destruct (set_attrs_graph_only s2 n a) as (G31 & G32 & G33). fold s3 in G31, G32, G33.
  destruct (set_attrs_keep s2 n a) as (K31 & K32). fold s3 in K31, K32.
  destruct (rp_update_graph_only s3 n) as (G41 & G42 & G43). fold s4 in G41, G42, G43.
  destruct (rp_update_keep s3 n) as (K41 & K42). fold s4 in K41, K42.
  assert (Hft : ft s4 = ft st) by (rewrite G42, G32; reflexivity).
  assert (Hseg : seg s4 = seg st) by (rewrite G41, G31; reflexivity).
  split; [exact Hseg|]. split; [exact Hft|]. split; [|split; [|split; [|split]]].
  - intros m. unfold is_node. rewrite K41, K31, Hids2, in_app_iff. cbn. split; [intros [H|[H|[]]]; auto|intros [H|H]; auto].
  - intros m k Hm. transitivity (attr s3 m k).
    + unfold s4. destruct (seg s3) as [sg3|] eqn:E3; [|unfold rp_update; now rewrite E3].
      rewrite (rp_update_unfold _ _ _ E3), set_keys_attr. destruct (Z.eqb_spec m n); [contradiction|reflexivity].
    + unfold s3. rewrite set_attrs_other by exact Hm. now apply Hattr2.
  - intros k v Hnd Hl Hk. rewrite K42 by (rewrite G32; exact Hk). unfold s3. now apply set_attrs_lookup.
  - intros sg t Hsg Hnd Hl Hkt k Hk.
    assert (Ht3 : time_of s3 n = t).
    { unfold time_of, zattr. unfold s3. rewrite (set_attrs_lookup s2 n a KTime (VZ t)); auto. }
    assert (Hsg3 : seg s3 = Some sg) by (rewrite G31; exact Hsg).
    unfold s4. rewrite (rp_update_unfold _ _ _ Hsg3), set_keys_attr, Ht3, Z.eqb_refl. cbn [andb].
    assert (Hm : memz k (rp_act (ft s3)) = true) by (apply memz_In; rewrite G32; exact Hk). rewrite Hm.
    assert (Hh3 : has_node s3 n = true) by (apply is_node_haskey; unfold is_node; rewrite K31; exact Hn2). rewrite Hh3. reflexivity.
  - intros u. unfold adj. rewrite G43, G33. apply Hadj2.
Qed.

(* ================================================================== *)
(* Part B.3: W_seg and array writes                                    *)
(* ================================================================== *)

(* W_seg with the node set and the time map abstracted *)
Definition seg_inv (N : Z -> Prop) (tm : Z -> Z) (sg : list (list Z)) : Prop :=
  (forall n, N n -> frame_ok sg (tm n) = true /\ mask_of sg (tm n) n <> []) /\
  (forall t i, frame_ok sg t = true -> label_at sg t i <> 0 -> N (label_at sg t i) /\ tm (label_at sg t i) = t) /\
  (forall n, N n -> n <> 0).

Lemma W_seg_iff st sg : seg st = Some sg -> (W_seg st <-> seg_inv (is_node st) (time_of st) sg).
Proof. intros H. unfold W_seg, seg_inv. rewrite H. tauto. Qed.

Lemma W_seg_none st : seg st = None -> W_seg st.
Proof. intros H. unfold W_seg. now rewrite H. Qed.

Lemma seg_inv_ext (N N' : Z -> Prop) tm tm' sg :
  (forall m, N' m <-> N m) -> (forall m, N m -> tm' m = tm m) -> seg_inv N tm sg -> seg_inv N' tm' sg.
Proof.
  intros HN Ht (I1 & I2 & I3). split; [|split].
  - intros n Hn. apply HN in Hn. rewrite (Ht _ Hn). now apply I1.
  - intros t i Hf Hl. destruct (I2 t i Hf Hl) as [Ha Hb]. split; [now apply HN|]. now rewrite (Ht _ Ha).
  - intros n Hn. apply I3. now apply HN.
Qed.

(* node m (living in frame tm) has a pixel that the write to (t, idx) does not touch *)
Definition keeps_pixel (sg : list (list Z)) (t : Z) (idx : list Z) (tm m : Z) : Prop :=
  exists i, (i < length (frame_of sg tm))%nat /\ label_at sg tm i = m /\ ~ (tm = t /\ In (Z.of_nat i) idx).
(* the write touches at least one pixel of the frame *)
Definition hits (sg : list (list Z)) (t : Z) (idx : list Z) : Prop :=
  exists i, (i < length (frame_of sg t))%nat /\ In (Z.of_nat i) idx.

(* What W_seg requires of everything but the pixels (t, idx) about to be overwritten:
   nodes are non-zero and live in existing frames, every node not exempted by [ex] keeps a pixel,
   and every non-zero label outside (t, idx) is a node sitting in its own frame. *)
Definition pre_write (st : state) (sg : list (list Z)) (t : Z) (idx : list Z) (ex : Z -> Prop) : Prop :=
  (forall m, is_node st m -> m <> 0 /\ frame_ok sg (time_of st m) = true) /\
  (forall m, is_node st m -> ~ ex m -> keeps_pixel sg t idx (time_of st m) m) /\
  (forall t' i, frame_ok sg t' = true -> label_at sg t' i <> 0 -> ~ (t' = t /\ In (Z.of_nat i) idx) ->
     is_node st (label_at sg t' i) /\ time_of st (label_at sg t' i) = t').

Lemma seg_inv_write (N : Z -> Prop) tm sg t idx v :
  frame_ok sg t = true ->
  (forall m, N m -> m <> 0 /\ frame_ok sg (tm m) = true) ->
  (forall m, N m -> keeps_pixel sg t idx (tm m) m \/ (m = v /\ tm m = t /\ hits sg t idx)) ->
  (forall t' i, frame_ok sg t' = true -> label_at sg t' i <> 0 -> ~ (t' = t /\ In (Z.of_nat i) idx) ->
     N (label_at sg t' i) /\ tm (label_at sg t' i) = t') ->
  (v <> 0 -> hits sg t idx -> N v /\ tm v = t) ->
  seg_inv N tm (paint_arr sg t idx v).
Proof.
  intros Hft Hnz Hkeep Hout Hv.
  assert (Hsh := paint_same_shape sg t idx v). assert (Ht0 : 0 <= t) by (apply frame_ok_range in Hft; lia).
  split; [|split].
  - intros m Hm. destruct (Hnz m Hm) as [Hm0 Hfm]. split; [now rewrite (frame_ok_shape _ _ _ Hsh)|].
    assert (Htm0 : 0 <= tm m) by (apply frame_ok_range in Hfm; lia).
    apply mask_nonempty. destruct (Hkeep m Hm) as [(i & Hi & Hl & Hno)|(-> & Htm & (i & Hi & Hin))].
    + exists i. split; [destruct Hsh as [_ Hs]; now rewrite Hs|]. rewrite label_at_paint by assumption.
      destruct ((tm m =? t) && memz (Z.of_nat i) idx && (i <? length (frame_of sg t))%nat) eqn:E; [|exact Hl].
      exfalso. apply Hno. apply andb_true_iff in E. destruct E as [E _]. apply andb_true_iff in E. destruct E as [E1 E2].
      split; [now apply Z.eqb_eq|now apply memz_In].
    + exists i. rewrite Htm. split; [destruct Hsh as [_ Hs]; now rewrite Hs|]. rewrite label_at_paint by assumption.
      rewrite Z.eqb_refl. apply memz_In in Hin. rewrite Hin. apply Nat.ltb_lt in Hi. now rewrite Hi.
  - intros t' i Hf Hl. rewrite (frame_ok_shape _ _ _ Hsh) in Hf.
    assert (Ht'0 : 0 <= t') by (apply frame_ok_range in Hf; lia).
    rewrite label_at_paint in Hl |- * by assumption.
    destruct ((t' =? t) && memz (Z.of_nat i) idx && (i <? length (frame_of sg t))%nat) eqn:E.
    + apply andb_true_iff in E. destruct E as [E E3]. apply andb_true_iff in E. destruct E as [E1 E2].
      apply Z.eqb_eq in E1. subst t'. apply Hv; [exact Hl|]. exists i. split; [now apply Nat.ltb_lt|now apply memz_In].
    + apply Hout; [exact Hf|exact Hl|]. intros [-> Hin].
      rewrite Z.eqb_refl in E. apply memz_In in Hin. rewrite Hin in E. cbn in E. apply Nat.ltb_ge in E.
      apply Hl. now apply label_at_overflow.
  - intros m Hm. now apply Hnz.
Qed.

(* W_seg gives pre_write for any write that only overwrites background and exempted labels *)
Lemma W_seg_pre_write st sg t idx (ex : Z -> Prop) : seg st = Some sg -> W_seg st ->
  (forall i, (i < length (frame_of sg t))%nat -> In (Z.of_nat i) idx -> label_at sg t i = 0 \/ ex (label_at sg t i)) ->
  pre_write st sg t idx ex.
Proof.
  intros Hs HW Hidx. apply (W_seg_iff _ _ Hs) in HW. destruct HW as (I1 & I2 & I3). split; [|split].
  - intros m Hm. split; [now apply I3|now apply I1].
  - intros m Hm Hex. destruct (I1 m Hm) as [Hf Hne]. apply mask_nonempty in Hne. destruct Hne as (i & Hi & Hl).
    exists i. split; [exact Hi|split; [exact Hl|]]. intros [Ht Hin]. rewrite Ht in Hi, Hl.
    destruct (Hidx i Hi Hin) as [H0|He]; [apply (I3 m Hm); congruence|apply Hex; now rewrite <- Hl].
  - intros t' i Hf Hl _. now apply I2.
Qed.

(* ---- AddNode with pixels ---- *)
Lemma W_seg_add_node_gen st n a t idx b st' sg :
  do_add_node st n a (Some (t, idx)) = Ok b st' -> seg st = Some sg ->
  ~ is_node st n -> n <> 0 ->
  NoDup (keys a) -> lookup KTime a = Some (VZ t) -> ~ In KTime (rp_act (ft st)) ->
  hits sg t idx ->
  pre_write st sg t idx (fun _ => False) ->
  W_seg st'.
Proof.
  intros Hdo Hs Hn Hn0 Hnd Hl Hkt Hhit (P1 & P2 & P3).
  apply do_add_node_ok in Hdo. destruct Hdo as (st1 & Hsp & Hg & Hsg' & Hft').
  apply set_pixels_ok in Hsp. destruct Hsp as (sg0 & Hs0 & Hfok & ->). rewrite Hs in Hs0. injection Hs0 as <-. cbn [fst snd] in *.
  set (s1 := upd_seg st (Some (paint_arr sg t idx n))) in *.
  assert (Hn1 : ~ is_node s1 n) by exact Hn.
  destruct (add_node_core_spec s1 n a Hn1) as (C1 & C2 & C3 & C4 & C5 & _ & _).
  assert (Hseg : seg st' = Some (paint_arr sg t idx n)) by (rewrite Hsg', C1; reflexivity).
  apply (W_seg_iff _ _ Hseg).
  assert (HN : forall m, is_node st' m <-> m = n \/ is_node st m).
  { intros m. rewrite (is_node_g _ _ m Hg). apply C3. }
  assert (HT : forall m, m <> n -> time_of st' m = time_of st m).
  { intros m Hm. rewrite (time_of_g _ _ m Hg). apply time_of_attr. now apply C4. }
  assert (HTn : time_of st' n = t).
  { rewrite (time_of_g _ _ n Hg). unfold time_of, zattr. rewrite (C5 KTime (VZ t)); auto. }
  apply seg_inv_write; [exact Hfok| | | |].
  - intros m Hm. apply HN in Hm. destruct Hm as [->|Hm].
    + split; [exact Hn0|now rewrite HTn].
    + assert (m <> n) by (intros ->; contradiction). rewrite HT by assumption. now apply P1.
  - intros m Hm. apply HN in Hm. destruct Hm as [->|Hm].
    + right. auto.
    + left. assert (m <> n) by (intros ->; contradiction). rewrite HT by assumption. apply P2; [exact Hm|tauto].
  - intros t' i Hf Hlab Hno. destruct (P3 t' i Hf Hlab Hno) as [Ha Hb].
    assert (label_at sg t' i <> n) by (intros E; rewrite E in Ha; contradiction).
    split; [apply HN; now right|]. now rewrite HT.
  - intros _ _. split; [apply HN; now left|exact HTn].
Qed.

(* the documented use: a new node painted onto background *)
Lemma W_seg_add_node st n a t idx b st' sg :
  do_add_node st n a (Some (t, idx)) = Ok b st' -> seg st = Some sg -> W_seg st ->
  ~ is_node st n -> n <> 0 ->
  NoDup (keys a) -> lookup KTime a = Some (VZ t) -> ~ In KTime (rp_act (ft st)) ->
  hits sg t idx ->
  (forall i, (i < length (frame_of sg t))%nat -> In (Z.of_nat i) idx -> label_at sg t i = 0) ->
  W_seg st'.
Proof.
  intros Hdo Hs HW Hn Hn0 Hnd Hl Hkt Hhit Hbg. eapply W_seg_add_node_gen; eauto.
  apply W_seg_pre_write; [exact Hs|exact HW|]. intros i Hi Hin. left. now apply Hbg.
Qed.

(* ---- DeleteNode ---- *)
Definition eff_pixels (st : state) (n : Z) (pxo : option pixels) : option pixels :=
  match pxo with Some p => Some p | None => get_pixels st n end.

Lemma del_node_effect st n pxo b st' : do_del_node st n pxo = Ok b st' ->
  is_node st n /\ ft st' = ft st /\
  (forall m, is_node st' m <-> m <> n /\ is_node st m) /\
  (forall m k, m <> n -> attr st' m k = attr st m k) /\
  match eff_pixels st n pxo with
  | Some p => exists sg, seg st = Some sg /\ frame_ok sg (fst p) = true /\ seg st' = Some (paint_arr sg (fst p) (snd p) 0)
  | None => seg st' = seg st
  end.
Proof.
  intros Hdo. apply do_del_node_ok in Hdo. destruct Hdo as (d & st1 & Hl & Hsp & Hg & Hsg & Hft).
  fold (eff_pixels st n pxo) in Hsp.
  assert (Hg1 : g st1 = g st /\ ft st1 = ft st).
  { destruct (eff_pixels st n pxo) as [p|]; [|injection Hsp as <-; auto].
    apply set_pixels_ok in Hsp. destruct Hsp as (sg & _ & _ & ->). auto. }
  destruct Hg1 as [Hg1 Hft1]. rewrite Hg1 in Hg.
  split; [apply is_node_lookup; eauto|]. split; [congruence|]. split; [|split].
  - intros m. unfold is_node, node_ids. rewrite Hg. cbn [nodes]. apply in_keys_del.
  - intros m k Hm. unfold attr, node_attrs, getd. rewrite Hg. cbn [nodes]. now rewrite lookup_del_neq.
  - destruct (eff_pixels st n pxo) as [p|].
    + apply set_pixels_ok in Hsp. destruct Hsp as (sg & Hs & Hf & ->). exists sg. rewrite Hsg. auto.
    + injection Hsp as <-. exact Hsg.
Qed.

Lemma W_seg_del_node_gen st n t idx b st' sg :
  do_del_node st n (Some (t, idx)) = Ok b st' -> seg st = Some sg ->
  pre_write st sg t idx (eq n) ->
  (forall t' i, frame_ok sg t' = true -> label_at sg t' i = n -> t' = t /\ In (Z.of_nat i) idx) ->
  W_seg st'.
Proof.
  intros Hdo Hs (P1 & P2 & P3) Hgone. apply del_node_effect in Hdo.
  destruct Hdo as (Hn & _ & HN & HA & (sg0 & Hs0 & Hfok & Hseg)). rewrite Hs in Hs0. injection Hs0 as <-. cbn [fst snd] in *.
  apply (W_seg_iff _ _ Hseg).
  assert (HT : forall m, m <> n -> time_of st' m = time_of st m) by (intros m Hm; apply time_of_attr; now apply HA).
  apply seg_inv_write; [exact Hfok| | | |].
  - intros m Hm. apply HN in Hm. destruct Hm as [Hne Hm]. rewrite HT by exact Hne. now apply P1.
  - intros m Hm. apply HN in Hm. destruct Hm as [Hne Hm]. left. rewrite HT by exact Hne. apply P2; [exact Hm|congruence].
  - intros t' i Hf Hl Hno. destruct (P3 t' i Hf Hl Hno) as [Ha Hb].
    assert (Hne : label_at sg t' i <> n) by (intros E; apply Hno; now apply Hgone).
    split; [apply HN; auto|]. now rewrite HT.
  - intros H. congruence.
Qed.

(* the documented use: pixels = None, the node's own mask is cleared *)
Lemma W_seg_del_node st n b st' :
  do_del_node st n None = Ok b st' -> W_seg st -> W_seg st'.
Proof.
  intros Hdo HW. destruct (seg st) as [sg|] eqn:Hs.
  - assert (Hdo' : do_del_node st n (Some (time_of st n, mask_of sg (time_of st n) n)) = Ok b st').
    { unfold do_del_node in *. now rewrite (get_pixels_spec _ _ _ Hs) in Hdo. }
    assert (Hn : is_node st n) by (apply del_node_effect in Hdo; tauto).
    assert (HW' := HW). apply (W_seg_iff _ _ Hs) in HW'. destruct HW' as (I1 & I2 & I3).
    eapply W_seg_del_node_gen; [exact Hdo'|exact Hs| |].
    + apply W_seg_pre_write; [exact Hs|exact HW|]. intros i Hi Hin. right. apply mask_of_In_nat in Hin. symmetry. tauto.
    + intros t' i Hf Hl. assert (Hl0 : label_at sg t' i <> 0) by (rewrite Hl; now apply I3).
      destruct (I2 t' i Hf Hl0) as [_ Ht]. rewrite Hl in Ht. split; [now symmetry|]. rewrite Ht.
      apply mask_of_In_nat. split; [|exact Hl].
      destruct (Nat.lt_ge_cases i (length (frame_of sg t'))) as [H|H]; [exact H|]. exfalso. apply Hl0. now apply label_at_overflow.
  - apply W_seg_none. apply del_node_effect in Hdo. destruct Hdo as (_ & _ & _ & _ & He).
    unfold eff_pixels, get_pixels in He. rewrite Hs in He. congruence.
Qed.

(* ---- UpdateNodeSeg ---- *)
Lemma upd_seg_effect st n t idx added b st' sg :
  do_upd_seg st n (t, idx) added = Ok b st' -> seg st = Some sg ->
  frame_ok sg t = true /\ seg st' = Some (paint_arr sg t idx (if added then n else 0)) /\ ft st' = ft st /\
  nodes_keep (fun k => In k (rp_act (ft st))) st st'.
Proof.
  intros Hdo Hs. apply do_upd_seg_ok in Hdo. destruct Hdo as (st1 & Hsp & ->).
  apply set_pixels_ok in Hsp. destruct Hsp as (sg0 & Hs0 & Hfok & ->). rewrite Hs in Hs0. injection Hs0 as <-. cbn [fst snd] in *.
  set (s1 := upd_seg st (Some (paint_arr sg t idx (if added then n else 0)))).
  destruct (rp_update_graph_only s1 n) as (G1 & G2 & G3).
  split; [exact Hfok|]. split; [now rewrite iou_update_seg, G1|]. split; [now rewrite iou_update_ft, G2|].
  eapply nodes_keep_trans; [apply (rp_update_keep s1 n)|]. apply nodes_keep_eq. apply iou_update_nodes.
Qed.

Lemma W_seg_upd_seg_gen st n t idx added b st' sg :
  do_upd_seg st n (t, idx) added = Ok b st' -> seg st = Some sg ->
  ~ In KTime (rp_act (ft st)) ->
  pre_write st sg t idx (fun m => added = true /\ m = n) ->
  (added = true -> is_node st n /\ time_of st n = t /\ (keeps_pixel sg t idx t n \/ hits sg t idx)) ->
  W_seg st'.
Proof.
  intros Hdo Hs Hkt (P1 & P2 & P3) Hgrow. destruct (upd_seg_effect _ _ _ _ _ _ _ _ Hdo Hs) as (Hfok & Hseg & _ & Hk).
  apply (W_seg_iff _ _ Hseg).
  apply (seg_inv_ext (is_node st) _ (time_of st)); [intros m; apply (nodes_keep_is_node _ _ _ m Hk)|intros m _; now apply (nodes_keep_time _ _ _ m Hkt Hk)|].
  apply seg_inv_write; [exact Hfok|exact P1| |exact P3|].
  - intros m Hm. destruct added.
    + destruct (Z.eq_dec m n) as [->|Hne].
      * destruct (Hgrow eq_refl) as (_ & Ht & [Hkp|Hh]); [left; now rewrite Ht|right; auto].
      * left. apply P2; [exact Hm|]. intros [_ E]. contradiction.
    + left. apply P2; [exact Hm|]. intros [E _]. discriminate.
  - intros Hv Hh. destruct added; [|congruence]. destruct (Hgrow eq_refl) as (Hn & Ht & _). auto.
Qed.

(* grow: the pixels were background (or already carried the label) and lie in the node's frame *)
Lemma W_seg_upd_seg_grow st n idx b st' sg :
  do_upd_seg st n (time_of st n, idx) true = Ok b st' -> seg st = Some sg -> W_seg st ->
  ~ In KTime (rp_act (ft st)) -> is_node st n ->
  (forall i, (i < length (frame_of sg (time_of st n)))%nat -> In (Z.of_nat i) idx ->
     label_at sg (time_of st n) i = 0 \/ label_at sg (time_of st n) i = n) ->
  W_seg st'.
Proof.
  intros Hdo Hs HW Hkt Hn Hidx. eapply W_seg_upd_seg_gen; [exact Hdo|exact Hs|exact Hkt| |].
  - apply W_seg_pre_write; [exact Hs|exact HW|]. intros i Hi Hin. destruct (Hidx i Hi Hin) as [H|H]; [now left|right; auto].
  - intros _. split; [exact Hn|split; [reflexivity|]].
    apply (W_seg_iff _ _ Hs) in HW. destruct HW as (I1 & _ & _). destruct (I1 n Hn) as [_ Hne].
    apply mask_nonempty in Hne. destruct Hne as (i & Hi & Hl).
    destruct (in_dec Z.eq_dec (Z.of_nat i) idx) as [Hin|Hin]; [right; exists i; auto|left; exists i; tauto].
Qed.

(* shrink: the pixels carried the node's label, and the node keeps at least one pixel *)
Lemma W_seg_upd_seg_shrink st n t idx b st' sg :
  do_upd_seg st n (t, idx) false = Ok b st' -> seg st = Some sg -> W_seg st ->
  ~ In KTime (rp_act (ft st)) -> is_node st n ->
  (forall i, (i < length (frame_of sg t))%nat -> In (Z.of_nat i) idx -> label_at sg t i = n) ->
  keeps_pixel sg t idx (time_of st n) n ->
  W_seg st'.
Proof.
  intros Hdo Hs HW Hkt Hn Hidx Hkeep. eapply W_seg_upd_seg_gen; [exact Hdo|exact Hs|exact Hkt| |intros H; discriminate].
  destruct (W_seg_pre_write st sg t idx (eq n) Hs HW) as (P1 & P2 & P3); [intros i Hi Hin; right; symmetry; auto|].
  split; [exact P1|split; [|exact P3]]. intros m Hm _. destruct (Z.eq_dec m n) as [->|Hne]; [exact Hkeep|]. apply P2; [exact Hm|congruence].
Qed.

(* ================================================================== *)
(* Part B.4: the basic actions that do not write the array              *)
(* ================================================================== *)

Lemma W_seg_keep (K : Z -> Prop) st st' : seg st' = seg st -> nodes_keep K st st' -> ~ K KTime -> W_seg st -> W_seg st'.
Proof.
  intros Hs Hk Hkt HW. destruct (seg st) as [sg|] eqn:E; [|now apply W_seg_none].
  apply (W_seg_iff _ _ Hs). apply (W_seg_iff _ _ E) in HW.
  eapply seg_inv_ext; [intros m; apply (nodes_keep_is_node _ _ _ m Hk)|intros m _; now apply (nodes_keep_time _ _ _ m Hkt Hk)|exact HW].
Qed.

(* AddEdge / DeleteEdge: array, features and node dictionary untouched (also when they raise) *)
Lemma add_edge_effect st u v a : let s' := rstate (do_add_edge st u v a) in
  seg s' = seg st /\ ft s' = ft st /\ nodes (g s') = nodes (g st).
Proof.
  unfold do_add_edge. destruct (negb (has_node st u)); [cbn; auto|]. destruct (negb (has_node st v)); [cbn; auto|].
  cbn [rstate]. rewrite iou_update_seg, iou_update_ft, iou_update_nodes. cbn. auto.
Qed.

Lemma del_edge_effect st u v : let s' := rstate (do_del_edge st u v) in
  seg s' = seg st /\ ft s' = ft st /\ nodes (g s') = nodes (g st).
Proof. unfold do_del_edge. destruct (negb (has_edge st u v)); cbn; auto. Qed.

(* UpdateNodeAttrs *)
Lemma upd_attrs_effect st n new : let s' := rstate (do_upd_attrs st n new) in
  graph_only st s' /\ nodes_keep (fun k => In k (keys new) /\ memz k (protected_keys st) = false) st s'.
Proof.
  unfold do_upd_attrs. destruct (existsb _ new) eqn:Ex; [cbn; split; [apply graph_only_refl|apply nodes_keep_refl]|].
  destruct (lookup n (nodes (g st))) as [d|].
  - cbn [rstate]. fold (apply_attrs st n new). split; [apply apply_attrs_graph_only|].
    eapply nodes_keep_weaken; [|apply apply_attrs_keep]. cbn. intros k Hk. split; [exact Hk|].
    unfold keys in Hk. apply in_map_iff in Hk. destruct Hk as (kv & <- & Hin).
    destruct (memz (fst kv) (protected_keys st)) eqn:E; [|reflexivity].
    assert (existsb (fun kv => memz (fst kv) (protected_keys st)) new = true) by (apply existsb_exists; eauto). congruence.
  - destruct new; cbn; split; try apply graph_only_refl; apply nodes_keep_refl.
Qed.

Lemma KTime_protected st : memz KTime (protected_keys st) = true.
Proof. apply memz_In. unfold protected_keys. rewrite !in_app_iff. right. right. cbn. auto. Qed.

(* UpdateTrackIDs: only the track / lineage id attributes change *)
Definition trk_only (st st' : state) : Prop :=
  graph_only st st' /\ nodes_keep (fun k => k = KTrack \/ k = KLin) st st'.
Lemma trk_only_refl st : trk_only st st.
Proof. split; [apply graph_only_refl|apply nodes_keep_refl]. Qed.
Lemma trk_only_trans a b c : trk_only a b -> trk_only b c -> trk_only a c.
Proof. intros [A1 A2] [B1 B2]. split; [eapply graph_only_trans; eauto|eapply nodes_keep_trans; eauto]. Qed.
Lemma sna_trk_only st n k v : k = KTrack \/ k = KLin -> trk_only st (set_node_attr st n k v).
Proof. intros Hk. split; [apply sna_graph_only|]. eapply nodes_keep_weaken; [|apply sna_keep]. cbn. intros k' <-. exact Hk. Qed.

Definition acc_st (acc : state * bool * list Z * list Z * list Z) : state := fst (fst (fst (fst acc))).

Lemma visit_trk_only oldT newT newL acc n : trk_only (acc_st acc) (acc_st (visit oldT newT newL acc n)).
Proof.
  destruct acc as [[[[st flag] tn] ln] next]. unfold visit, acc_st.
  destruct newL as [l|]; destruct flag.
  - destruct (match zattr (set_node_attr st n KLin (VZ l)) n KTrack with Some t => t =? oldT | None => false end); cbn.
    + eapply trk_only_trans; apply sna_trk_only; auto.
    + apply sna_trk_only; auto.
  - cbn. apply sna_trk_only; auto.
  - destruct (match zattr st n KTrack with Some t => t =? oldT | None => false end); cbn.
    + apply sna_trk_only; auto.
    + apply trk_only_refl.
  - cbn. apply trk_only_refl.
Qed.

Lemma fold_visit_trk_only oldT newT newL curr acc :
  trk_only (acc_st acc) (acc_st (fold_left (visit oldT newT newL) curr acc)).
Proof.
  revert acc; induction curr as [|n r IH]; intros acc; cbn [fold_left]; [apply trk_only_refl|].
  eapply trk_only_trans; [apply visit_trk_only|apply IH].
Qed.

Lemma walk_trk_only fuel oldT newT newL st curr flag tn ln st' tn' ln' :
  walk fuel oldT newT newL st curr flag tn ln = Some (st', tn', ln') -> trk_only st st'.
Proof.
  revert st curr flag tn ln; induction fuel as [|f IH]; intros st curr flag tn ln H.
  - destruct curr; cbn in H; [|discriminate]. injection H as <- _ _. apply trk_only_refl.
  - destruct curr as [|c r]; [cbn in H; injection H as <- _ _; apply trk_only_refl|].
    cbn [walk] in H. assert (Hf := fold_visit_trk_only oldT newT newL (c :: r) (st, flag, tn, ln, [])).
    destruct (fold_left (visit oldT newT newL) (c :: r) (st, flag, tn, ln, [])) as [[[[s1 f1] t1] l1] n1].
    unfold acc_st in Hf. cbn [fst] in Hf. eapply trk_only_trans; [exact Hf|]. eapply IH; eauto.
Qed.

Lemma upd_track_effect st start newT newL : trk_only st (rstate (do_upd_track st start newT newL)).
Proof.
  unfold do_upd_track. destruct (negb (has_node st start)); [apply trk_only_refl|].
  destruct (zattr st start KTrack) as [oldT|]; [|apply trk_only_refl].
  destruct (negb (trk_act (ft st))); [apply trk_only_refl|].
  destruct (walk _ _ _ _ _ _ _ _ _) as [[[st1 tn] ln]|] eqn:Hw; [|apply trk_only_refl].
  apply walk_trk_only in Hw. destruct (if lin_act (ft st) then newL else None); cbn [rstate]; exact Hw.
Qed.

Definition KTime_not_trk : ~ (KTime = KTrack \/ KTime = KLin).
Proof. unfold KTime, KTrack, KLin. lia. Qed.

Lemma W_seg_add_edge st u v a b st' : do_add_edge st u v a = Ok b st' -> W_seg st -> W_seg st'.
Proof.
  intros H. destruct (add_edge_effect st u v a) as (E1 & _ & E3). rewrite H in E1, E3. cbn in E1, E3.
  apply (W_seg_keep (fun _ => False)); [exact E1|now apply nodes_keep_eq|tauto].
Qed.
Lemma W_seg_del_edge st u v b st' : do_del_edge st u v = Ok b st' -> W_seg st -> W_seg st'.
Proof.
  intros H. destruct (del_edge_effect st u v) as (E1 & _ & E3). rewrite H in E1, E3. cbn in E1, E3.
  apply (W_seg_keep (fun _ => False)); [exact E1|now apply nodes_keep_eq|tauto].
Qed.
Lemma W_seg_upd_attrs st n new b st' : do_upd_attrs st n new = Ok b st' -> W_seg st -> W_seg st'.
Proof.
  intros H. destruct (upd_attrs_effect st n new) as ((E1 & _) & E2). rewrite H in E1, E2. cbn in E1, E2.
  eapply W_seg_keep; [exact E1|exact E2|]. intros [_ Hp]. rewrite KTime_protected in Hp. discriminate.
Qed.
Lemma W_seg_upd_track st start newT newL b st' : do_upd_track st start newT newL = Ok b st' -> W_seg st -> W_seg st'.
Proof.
  intros H. destruct (upd_track_effect st start newT newL) as ((E1 & _) & E2). rewrite H in E1, E2. cbn in E1, E2.
  eapply W_seg_keep; [exact E1|exact E2|exact KTime_not_trk].
Qed.

(* ================================================================== *)
(* Part C.1: user-level sub-actions that never write the array          *)
(* ================================================================== *)

Lemma bind_ok {A B} (r : res A) (f : A -> state -> res B) x s' :
  bind r f = Ok x s' -> exists a s, r = Ok a s /\ f a s = Ok x s'.
Proof. destruct r as [a s|e s]; cbn; [eauto|discriminate]. Qed.

(* a transitive state relation passes through bind *)
Lemma bind_rel {A B} (P : state -> state -> Prop) (r : res A) (f : A -> state -> res B) st :
  (forall a b c, P a b -> P b c -> P a c) ->
  P st (rstate r) -> (forall a s, r = Ok a s -> P s (rstate (f a s))) -> P st (rstate (bind r f)).
Proof. intros Ht H1 H2. destruct r as [a s|e s]; cbn in *; [eapply Ht; [exact H1|now apply H2]|exact H1]. Qed.

Definition seg_eq (a b : state) : Prop := seg b = seg a.
Lemma seg_eq_trans a b c : seg_eq a b -> seg_eq b c -> seg_eq a c.
Proof. unfold seg_eq. congruence. Qed.
Lemma seg_eq_refl a : seg_eq a a.
Proof. reflexivity. Qed.

Lemma seg_eq_del_edge st u v : seg_eq st (rstate (do_del_edge st u v)).
Proof. apply del_edge_effect. Qed.
Lemma seg_eq_add_edge st u v a : seg_eq st (rstate (do_add_edge st u v a)).
Proof. apply add_edge_effect. Qed.
Lemma seg_eq_upd_track st s t l : seg_eq st (rstate (do_upd_track st s t l)).
Proof. apply upd_track_effect. Qed.
Lemma seg_eq_upd_attrs st n new : seg_eq st (rstate (do_upd_attrs st n new)).
Proof. apply upd_attrs_effect. Qed.

Lemma seg_finish_top s a p : seg (finish_top s a p) = seg s.
Proof. unfold finish_top, hist_add. destruct (redo_stack s); reflexivity. Qed.

Lemma seg_eq_top_wrap top p (r : res action) st : seg_eq st (rstate r) -> seg_eq st (rstate (top_wrap top p r)).
Proof. unfold seg_eq. destruct r as [a s|e s]; cbn; [|auto]. destruct top; [now rewrite seg_finish_top|auto]. Qed.

Ltac seg_step :=
  first [ apply seg_eq_refl
        | apply seg_eq_del_edge | apply seg_eq_add_edge | apply seg_eq_upd_track | apply seg_eq_upd_attrs ].

Lemma seg_eq_user_delete_edge_core st u v : seg_eq st (rstate (user_delete_edge_core st u v)).
Proof.
  unfold user_delete_edge_core. destruct (negb (has_edge st u v)); [seg_step|].
  apply bind_rel; [exact seg_eq_trans|seg_step|]. intros b1 s _.
  apply bind_rel; [exact seg_eq_trans| |intros; seg_step].
  destruct (out_degree s u =? 0).
  - apply bind_rel; [exact seg_eq_trans|seg_step|intros; seg_step].
  - destruct (out_degree s u =? 1); [|seg_step].
    destruct (successors s u) as [|sib r]; [seg_step|]. destruct (zattr s u KTrack) as [t|]; [|seg_step].
    apply bind_rel; [exact seg_eq_trans|seg_step|]. intros b2 s2 _.
    destruct (zattr s2 v KTrack); [|seg_step]. apply bind_rel; [exact seg_eq_trans|seg_step|intros; seg_step].
Qed.

Lemma seg_eq_user_delete_edge st u v top : seg_eq st (rstate (user_delete_edge st u v top)).
Proof. apply seg_eq_top_wrap, seg_eq_user_delete_edge_core. Qed.

Lemma seg_track_neighbors st T t : seg (fst (track_neighbors st T t)) = seg st.
Proof. unfold track_neighbors. destruct (lookup T (trk_book (bk st))) as [[|x l]|]; reflexivity. Qed.

Lemma seg_eq_udn_preds n ps s acc : seg_eq s (rstate (udn_preds n ps s acc)).
Proof.
  revert s acc; induction ps as [|p r IH]; intros s acc; cbn [udn_preds]; [seg_step|].
  apply bind_rel; [exact seg_eq_trans| |].
  - destruct (length (successors s p) =? 2)%nat; [|seg_step].
    destruct (remove1 n (successors s p)); [seg_step|]. destruct (zattr s p KTrack); [|seg_step].
    apply bind_rel; [exact seg_eq_trans|seg_step|intros; seg_step].
  - intros acc1 s1 _. apply bind_rel; [exact seg_eq_trans|seg_step|]. intros b s2 _. apply IH.
Qed.

Lemma seg_eq_udn_succs n cs s acc : seg_eq s (rstate (udn_succs n cs s acc)).
Proof.
  revert s acc; induction cs as [|c r IH]; intros s acc; cbn [udn_succs]; [seg_step|].
  apply bind_rel; [exact seg_eq_trans|seg_step|]. intros b s1 _. apply IH.
Qed.

Lemma seg_eq_udn_orphans os s acc : seg_eq s (rstate (udn_orphans os s acc)).
Proof.
  revert s acc; induction os as [|o r IH]; intros s acc; cbn [udn_orphans]; [seg_step|].
  destruct (zattr s o KTrack); [|seg_step]. apply bind_rel; [exact seg_eq_trans|seg_step|]. intros b s1 _. apply IH.
Qed.

Lemma uan_conflicts_state st pred succ force : rstate (uan_conflicts st pred succ force) = st.
Proof.
  unfold uan_conflicts.
  assert (Hd : forall c, rstate (match predecessors st c with
                | q :: _ => if out_degree st q =? 2 then if negb force then Err (EInvalid true) st else Ok [(q, c)] st else Ok [] st
                | [] => Ok [] st end) = st).
  { intros c. destruct (predecessors st c); [reflexivity|]. destruct (out_degree st z =? 2); [destruct (negb force)|]; reflexivity. }
  destruct pred as [p|].
  - destruct (out_degree st p =? 2); [destruct (negb force); reflexivity|]. destruct succ; [apply Hd|reflexivity].
  - destruct succ; [apply Hd|reflexivity].
Qed.

Lemma seg_eq_uan_cut es s acc : seg_eq s (rstate (uan_cut es s acc)).
Proof.
  revert s acc; induction es as [|e r IH]; intros s acc; cbn [uan_cut]; [seg_step|].
  apply bind_rel; [exact seg_eq_trans|apply seg_eq_user_delete_edge|]. intros x s1 _. apply IH.
Qed.

(* ================================================================== *)
(* Part C.2: the array after the sub-actions of a stroke (success path) *)
(* ================================================================== *)

Lemma add_node_core_seg st n a : seg (add_node_core st n a) = seg st /\ ft (add_node_core st n a) = ft st.
Proof.
  unfold add_node_core.
  set (s2 := if haskey n (nodes (g st)) then st else upd_g st _).
  assert (H2 : seg s2 = seg st /\ ft s2 = ft st) by (unfold s2; destruct (haskey n (nodes (g st))); auto).
  destruct (set_attrs_graph_only s2 n a) as (G1 & G2 & _). destruct (rp_update_graph_only (set_attrs s2 n a) n) as (G3 & G4 & _).
  destruct H2. split; congruence.
Qed.

Lemma add_node_seg st n a p b st' sg : do_add_node st n a (Some p) = Ok b st' -> seg st = Some sg ->
  frame_ok sg (fst p) = true /\ seg st' = Some (paint_arr sg (fst p) (snd p) n).
Proof.
  intros Hdo Hs. apply do_add_node_ok in Hdo. destruct Hdo as (st1 & Hsp & _ & Hsg & _).
  apply set_pixels_ok in Hsp. destruct Hsp as (sg0 & Hs0 & Hf & ->). rewrite Hs in Hs0. injection Hs0 as <-.
  split; [exact Hf|]. rewrite Hsg. now destruct (add_node_core_seg (upd_seg st (Some (paint_arr sg (fst p) (snd p) n))) n a).
Qed.

Lemma add_node_none_seg st n a b st' : do_add_node st n a None = Ok b st' -> seg st' = seg st.
Proof.
  intros Hdo. apply do_add_node_ok in Hdo. destruct Hdo as (st1 & Hsp & _ & Hsg & _). injection Hsp as <-.
  rewrite Hsg. now destruct (add_node_core_seg st n a).
Qed.

Ltac ok_step H x s Hx :=
  apply bind_ok in H; destruct H as (x & s & Hx & H).

Lemma ok_seg_eq {A} (r : res A) st a s : seg_eq st (rstate r) -> r = Ok a s -> seg s = seg st.
Proof. intros H ->. exact H. Qed.

Lemma udn_core_seg st n pxo a s' : user_delete_node_core st n pxo = Ok a s' ->
  exists s, seg s = seg st /\ exists b, do_del_node s n pxo = Ok b s'.
Proof.
  unfold user_delete_node_core. intros H. destruct (px_check st pxo); [discriminate|]. destruct (negb (has_node st n)); [discriminate|].
  ok_step H acts1 s1 H1. assert (E1 := ok_seg_eq _ _ _ _ (seg_eq_udn_preds _ _ _ _) H1).
  ok_step H acts2 s2 H2. assert (E2 := ok_seg_eq _ _ _ _ (seg_eq_udn_succs _ _ _ _) H2).
  ok_step H ao s3 H3.
  assert (E3 : seg s3 = seg s2).
  { destruct (zattr s2 n KTrack) as [T|]; [|discriminate].
    assert (Etn := seg_track_neighbors s2 T (time_of s2 n)).
    destruct (track_neighbors s2 T (time_of s2 n)) as [s2' [p c]]. cbn [fst] in Etn.
    destruct p as [p|]; [destruct c as [c|]|].
    - ok_step H3 b0 s4 H4. injection H3 as _ <-. rewrite (ok_seg_eq _ _ _ _ (seg_eq_add_edge _ _ _ _) H4). exact Etn.
    - injection H3 as _ <-. exact Etn.
    - injection H3 as _ <-. exact Etn. }
  destruct ao as [acts3 orphans]. ok_step H acts4 s4 H4. assert (E4 := ok_seg_eq _ _ _ _ (seg_eq_udn_orphans _ _ _) H4).
  ok_step H b s5 H5. injection H as _ <-. exists s4. split; [congruence|eauto].
Qed.

Lemma udn_core_seg_px st n px a s' sg : user_delete_node_core st n (Some px) = Ok a s' -> seg st = Some sg ->
  frame_ok sg (fst px) = true /\ seg s' = Some (paint_arr sg (fst px) (snd px) 0).
Proof.
  intros H Hs. apply udn_core_seg in H. destruct H as (s & Es & b & Hd). apply del_node_effect in Hd.
  destruct Hd as (_ & _ & _ & _ & He). cbn [eff_pixels] in He. destruct He as (sg0 & Hs0 & Hf & Hs').
  rewrite Es, Hs in Hs0. injection Hs0 as <-. auto.
Qed.

Lemma uan_core_seg st n a p force x s' sg : user_add_node_core st n a (Some p) force = Ok x s' -> seg st = Some sg ->
  frame_ok sg (fst p) = true /\ seg s' = Some (paint_arr sg (fst p) (snd p) n).
Proof.
  unfold user_add_node_core. intros H Hs.
  destruct (lookup KTime a) as [tv|]; [|discriminate]. destruct (lookup KTrack a) as [kv|]; [|discriminate].
  destruct (has_node st n); [discriminate|].
  destruct (if has_track_at st _ _ then _ else _) as [T a1].
  assert (Etn := seg_track_neighbors st T (match tv with VZ z => z | _ => 0 end)).
  destruct (track_neighbors st T _) as [st0 [pred succ]]. cbn [fst] in Etn.
  ok_step H conflicts s1 H1. assert (E1 : s1 = st0) by (rewrite <- (uan_conflicts_state st0 pred succ force), H1; reflexivity). subst s1.
  cbn [negb] in H. destruct (px_check st0 (Some p)); [discriminate|].
  ok_step H acts s2 H2. assert (E2 := ok_seg_eq _ _ _ _ (seg_eq_uan_cut _ _ _) H2).
  ok_step H acts' s3 H3.
  assert (E3 : seg s3 = seg s2).
  { destruct pred as [pp|]; [destruct succ as [cc|]|].
    - ok_step H3 b0 s4 H4. injection H3 as _ <-. exact (ok_seg_eq _ _ _ _ (seg_eq_del_edge _ _ _) H4).
    - now injection H3 as _ <-.
    - now injection H3 as _ <-. }
  ok_step H b s4 H4.
  assert (Hs3 : seg s3 = Some sg) by congruence.
  destruct (add_node_seg _ _ _ _ _ _ _ H4 Hs3) as [Hf Hs4].
  ok_step H acts'' s5 H5.
  assert (E5 : seg s5 = seg s4).
  { destruct pred as [pp|].
    - ok_step H5 b0 s6 H6. injection H5 as _ <-. exact (ok_seg_eq _ _ _ _ (seg_eq_add_edge _ _ _ _) H6).
    - now injection H5 as _ <-. }
  ok_step H acts''' s6 H6.
  assert (E6 : seg s6 = seg s5).
  { destruct succ as [cc|].
    - ok_step H6 b0 s7 H7. injection H6 as _ <-. exact (ok_seg_eq _ _ _ _ (seg_eq_add_edge _ _ _ _) H7).
    - now injection H6 as _ <-. }
  injection H as _ <-. split; [exact Hf|congruence].
Qed.

(* the array writes of UserUpdateSegmentation, as a function *)
Definition zero_group (acc : list (list Z)) (g : pixels * Z) : list (list Z) :=
  if snd g =? 0 then acc else paint_arr acc (fst (fst g)) (snd (fst g)) 0.
Definition seg_after_groups (gs : list (pixels * Z)) (sg : list (list Z)) : list (list Z) := fold_left zero_group gs sg.
Definition all_pixels (groups : list (pixels * Z)) : list Z := flat_map (fun g => snd (fst g)) groups.
Definition stroke_result (nv : Z) (groups : list (pixels * Z)) (sg : list (list Z)) : list (list Z) :=
  let sg1 := seg_after_groups groups sg in
  match groups with
  | [] => sg1
  | (px0, _) :: _ => if nv =? 0 then sg1 else paint_arr sg1 (fst px0) (all_pixels groups) nv
  end.

Lemma top_wrap_false_ok p r a s : top_wrap false p r = Ok a s -> r = Ok a s.
Proof. destruct r; cbn; [intros H; now injection H as -> ->|discriminate]. Qed.

Lemma uus_groups_seg gs s acc acts s' sg : uus_groups gs s acc = Ok acts s' -> seg s = Some sg ->
  seg s' = Some (seg_after_groups gs sg).
Proof.
  revert s acc sg; induction gs as [|[px old] r IH]; intros s acc sg H Hs.
  - cbn in H. injection H as _ <-. exact Hs.
  - cbn [uus_groups] in H. unfold seg_after_groups. cbn [fold_left]. unfold zero_group at 2. cbn [fst snd].
    destruct (old =? 0); [eapply IH; eauto|].
    destruct (match seg s with Some sg0 => mask_of sg0 (fst px) old | None => [] end).
    + ok_step H a s1 H1. unfold user_delete_node in H1. apply top_wrap_false_ok in H1.
      destruct (udn_core_seg_px _ _ _ _ _ _ H1 Hs) as [_ Hs1]. eapply IH; eauto.
    + ok_step H b s1 H1. destruct px as [t idx]. destruct (upd_seg_effect _ _ _ _ _ _ _ _ H1 Hs) as (_ & Hs1 & _). eapply IH; eauto.
Qed.

Lemma uus_core_seg st nv groups T force a pl s' sg :
  user_update_seg_core st nv groups T force = Ok (a, pl) s' -> seg st = Some sg ->
  seg s' = Some (stroke_result nv groups sg).
Proof.
  unfold user_update_seg_core. intros H Hs. rewrite Hs in H.
  destruct (negb (nv =? 0) && _ && has_node st nv && _); [discriminate|].
  ok_step H acts s1 H1. assert (Hs1 := uus_groups_seg _ _ _ _ _ _ H1 Hs).
  unfold stroke_result. destruct groups as [|[px0 old0] gr]; [injection H as _ _ <-; exact Hs1|].
  destruct (nv =? 0); [injection H as _ _ <-; exact Hs1|].
  fold (all_pixels ((px0, old0) :: gr)) in H. set (allpx := all_pixels ((px0, old0) :: gr)) in *. cbv zeta in H.
  destruct (has_node s1 nv).
  - ok_step H b s2 H2. injection H as _ _ <-. destruct (upd_seg_effect _ _ _ _ _ _ _ _ H2 Hs1) as (_ & Hs2 & _). exact Hs2.
  - match type of H with context [user_add_node ?x1 ?x2 ?x3 ?x4 ?x5 ?x6] => destruct (user_add_node x1 x2 x3 x4 x5 x6) as [x s2|e s2] eqn:H2 end.
    + injection H as _ _ <-. unfold user_add_node in H2. apply top_wrap_false_ok in H2.
      now destruct (uan_core_seg _ _ _ _ _ _ _ _ H2 Hs1) as [_ Hs2].
    + destruct e; try discriminate. destruct (rollback _ s2); discriminate.
Qed.

(* ================================================================== *)
(* Part C.3: the caller's grouping of the painted pixels                *)
(* ================================================================== *)

Lemma olds_of_In s f idx p x :
  In (p, x) (olds_of s f idx) <-> exists j, (j < length f)%nat /\ p = s + Z.of_nat j /\ memz p idx = true /\ nth j f 0 = x.
Proof.
  revert s; induction f as [|y r IH]; intros s; cbn [olds_of].
  - split; [intros []|intros (j & Hj & _); cbn in Hj; lia].
  - rewrite in_app_iff, IH. split.
    + intros [H|(j & Hj & -> & Hm & E)].
      * destruct (memz s idx) eqn:Em; [|contradiction]. destruct H as [H|[]]. injection H as <- <-.
        exists 0%nat. replace (s + Z.of_nat 0) with s by lia. cbn [length nth]. split; [lia|split; [reflexivity|split; [exact Em|reflexivity]]].
      * exists (S j). cbn [length nth]. split; [lia|split; [lia|split; [|exact E]]]. now replace (s + Z.of_nat (S j)) with (s + 1 + Z.of_nat j) by lia.
    + intros (j & Hj & -> & Hm & E). destruct j as [|j].
      * left. replace (s + Z.of_nat 0) with s in * by lia. rewrite Hm. cbn in E. subst. now left.
      * right. exists j. cbn [length nth] in *. split; [lia|split; [lia|split; [|exact E]]]. now replace (s + 1 + Z.of_nat j) with (s + Z.of_nat (S j)) by lia.
Qed.

Lemma insert_sorted_In x y l : In y (insert_sorted x l) <-> y = x \/ In y l.
Proof.
  induction l as [|z r IH]; cbn [insert_sorted]; [cbn; intuition|].
  destruct (x <? z); [cbn; intuition|]. destruct (Z.eqb_spec x z) as [->|Hne]; [cbn; intuition|].
  cbn [In]. rewrite IH. intuition.
Qed.

Lemma fold_insert_In (io : list (Z * Z)) acc v :
  In v (fold_left (fun acc p => insert_sorted (snd p) acc) io acc) <-> In v acc \/ exists p, In p io /\ snd p = v.
Proof.
  revert acc; induction io as [|q r IH]; intros acc; cbn [fold_left].
  - split; [auto|intros [H|(p & [] & _)]; exact H].
  - rewrite IH, insert_sorted_In. split.
    + intros [[->|H]|(p & Hp & E)]; [right; exists q; split; [now left|reflexivity]|now left|right; exists p; split; [now right|exact E]].
    + intros [H|(p & [<-|Hp] & E)]; [left; now right|left; left; now symmetry|right; eauto].
Qed.

(* (index, previous label) of the stroke's pixels whose label changes *)
Definition io_of (sg : list (list Z)) (t : Z) (idx : list Z) (nv : Z) : list (Z * Z) :=
  filter (fun p => negb (snd p =? nv)) (olds_of 0 (frame_of sg t) idx).

Lemma io_of_In sg t idx nv p x :
  In (p, x) (io_of sg t idx nv) <->
  exists i, p = Z.of_nat i /\ (i < length (frame_of sg t))%nat /\ In p idx /\ label_at sg t i = x /\ x <> nv.
Proof.
  unfold io_of. rewrite filter_In, olds_of_In. cbn [snd]. unfold label_at. split.
  - intros [(j & Hj & -> & Hm & E) Hx]. exists j. rewrite Z.add_0_l in *. apply memz_In in Hm.
    split; [reflexivity|split; [exact Hj|split; [exact Hm|split; [exact E|]]]].
    intros ->. now rewrite Z.eqb_refl in Hx.
  - intros (i & -> & Hi & Hin & E & Hx). split.
    + exists i. rewrite Z.add_0_l. apply memz_In in Hin. auto.
    + destruct (Z.eqb_spec x nv); [contradiction|reflexivity].
Qed.

Lemma paint_groups_In sg t idx nv g : In g (paint_groups sg t idx nv) ->
  fst (fst g) = t /\ (exists p, In (p, snd g) (io_of sg t idx nv)) /\
  forall p, In p (snd (fst g)) <-> In (p, snd g) (io_of sg t idx nv).
Proof.
  unfold paint_groups. fold (io_of sg t idx nv). intros H. apply in_map_iff in H. destruct H as (v & <- & Hv).
  cbn [fst snd]. split; [reflexivity|]. split.
  - apply fold_insert_In in Hv. destruct Hv as [[]|([p x] & Hp & E)]. cbn in E. subst. eauto.
  - intros p. rewrite in_map_iff. split.
    + intros ([p' x] & <- & Hf). apply filter_In in Hf. cbn [fst snd] in *. destruct Hf as [Hf E]. apply Z.eqb_eq in E. now subst.
    + intros Hp. exists (p, v). split; [reflexivity|]. apply filter_In. split; [exact Hp|]. cbn. apply Z.eqb_refl.
Qed.

Lemma paint_groups_cover sg t idx nv p x : In (p, x) (io_of sg t idx nv) ->
  exists g, In g (paint_groups sg t idx nv) /\ snd g = x /\ In p (snd (fst g)).
Proof.
  intros Hp. unfold paint_groups. fold (io_of sg t idx nv).
  exists ((t, map fst (filter (fun q => snd q =? x) (io_of sg t idx nv))), x). split; [|split; [reflexivity|]].
  - apply in_map_iff. exists x. split; [reflexivity|]. apply fold_insert_In. right. exists (p, x). auto.
  - cbn [fst snd]. apply in_map_iff. exists (p, x). split; [reflexivity|]. apply filter_In. split; [exact Hp|]. cbn. apply Z.eqb_refl.
Qed.

(* the pixels the caller paints: those of the stroke, in range, whose label is not yet the new one *)
Lemma changed_In sg t idx nv i :
  In (Z.of_nat i) (all_pixels (paint_groups sg t idx nv)) <->
  (i < length (frame_of sg t))%nat /\ In (Z.of_nat i) idx /\ label_at sg t i <> nv.
Proof.
  unfold all_pixels. rewrite in_flat_map. split.
  - intros (g & Hg & Hp). apply paint_groups_In in Hg. destruct Hg as (_ & _ & Hg). apply Hg in Hp.
    apply io_of_In in Hp. destruct Hp as (j & Hj & Hlt & Hin & E & Hx). apply Nat2Z.inj in Hj. subst j.
    split; [exact Hlt|split; [exact Hin|congruence]].
  - intros (Hi & Hin & Hx). destruct (paint_groups_cover sg t idx nv (Z.of_nat i) (label_at sg t i)) as (g & Hg & _ & Hp).
    + apply io_of_In. exists i. auto.
    + exists g. auto.
Qed.

Lemma changed_nonneg sg t idx nv p : In p (all_pixels (paint_groups sg t idx nv)) -> exists i, p = Z.of_nat i.
Proof.
  unfold all_pixels. rewrite in_flat_map. intros (g & Hg & Hp). apply paint_groups_In in Hg. destruct Hg as (_ & _ & Hg).
  apply Hg in Hp. apply io_of_In in Hp. destruct Hp as (j & Hj & _). eauto.
Qed.

(* ---- pointwise content of the array after the writes of the stroke ---- *)
Lemma seg_after_groups_rel gs sg : (forall g, In g gs -> 0 <= fst (fst g)) ->
  same_shape (seg_after_groups gs sg) sg /\
  forall t' i, 0 <= t' ->
    label_at (seg_after_groups gs sg) t' i = label_at sg t' i \/
    (label_at (seg_after_groups gs sg) t' i = 0 /\ (i < length (frame_of sg t'))%nat /\
     exists g, In g gs /\ fst (fst g) = t' /\ In (Z.of_nat i) (snd (fst g))).
Proof.
  revert sg; induction gs as [|g r IH]; intros sg Hg; unfold seg_after_groups; cbn [fold_left].
  - split; [apply same_shape_refl|auto].
  - fold (seg_after_groups r (zero_group sg g)).
    destruct (IH (zero_group sg g)) as [Sh Hp]; [intros g' Hg'; apply Hg; now right|].
    assert (Sh1 : same_shape (zero_group sg g) sg).
    { unfold zero_group. match goal with |- context [if ?c then _ else _] => destruct c end; [apply same_shape_refl|apply paint_same_shape]. }
    split; [eapply same_shape_trans; eauto|]. intros t' i Ht'.
    destruct (Hp t' i Ht') as [E|(E0 & Hi & g' & Hg' & Hf & Hin)].
    + rewrite E. unfold zero_group. match goal with |- context [if ?c then _ else _] => destruct c end; [now left|].
      rewrite label_at_paint; [|apply Hg; now left|exact Ht'].
      match goal with |- context [if ?c then _ else _] => destruct c eqn:Ec end; [|now left].
      right. apply andb_true_iff in Ec. destruct Ec as [Ec E3]. apply andb_true_iff in Ec. destruct Ec as [E1 E2].
      apply Z.eqb_eq in E1. apply memz_In in E2. apply Nat.ltb_lt in E3. rewrite <- E1 in E3.
      split; [reflexivity|split; [exact E3|]]. exists g. split; [now left|auto].
    + right. split; [exact E0|]. destruct Sh1 as [_ Sh1]. rewrite Sh1 in Hi. split; [exact Hi|]. exists g'. split; [now right|auto].
Qed.

Lemma stroke_result_pointwise sg t idx nv : frame_ok sg t = true ->
  let groups := paint_groups sg t idx nv in
  let painted := paint_arr sg t (all_pixels groups) nv in
  let final := stroke_result nv groups painted in
  same_shape final sg /\
  forall t' i, 0 <= t' ->
    label_at final t' i = if (t' =? t) && memz (Z.of_nat i) idx && (i <? length (frame_of sg t))%nat then nv else label_at sg t' i.
Proof.
  intros Hf groups painted final. assert (Ht0 : 0 <= t) by (apply frame_ok_range in Hf; lia).
  assert (Hg0 : forall g, In g groups -> 0 <= fst (fst g)).
  { intros g Hg. apply paint_groups_In in Hg. destruct Hg as [-> _]. exact Ht0. }
  destruct (seg_after_groups_rel groups painted Hg0) as [Sh1 Hp1].
  assert (ShP : same_shape painted sg) by apply paint_same_shape.
  (* the painted array, pointwise *)
  assert (HP : forall t' i, 0 <= t' -> label_at painted t' i =
             if (t' =? t) && memz (Z.of_nat i) idx && (i <? length (frame_of sg t))%nat then nv else label_at sg t' i).
  { intros t' i Ht'. unfold painted. rewrite label_at_paint by assumption.
    destruct (Z.eqb_spec t' t) as [->|Hne]; [|reflexivity]. cbn [andb].
    destruct (Nat.ltb_spec i (length (frame_of sg t))) as [Hi|Hi]; [|now rewrite !andb_false_r].
    rewrite !andb_true_r. destruct (memz (Z.of_nat i) (all_pixels groups)) eqn:E1.
    - apply memz_In in E1. apply changed_In in E1. destruct E1 as (_ & Hin & _). apply memz_In in Hin. now rewrite Hin.
    - destruct (memz (Z.of_nat i) idx) eqn:E2; [|reflexivity]. apply memz_In in E2. apply memz_false in E1.
      destruct (Z.eq_dec (label_at sg t i) nv) as [E|E]; [exact E|]. exfalso. apply E1. apply changed_In. auto. }
  (* after the zeroing of the overwritten nodes' pixels *)
  assert (H1 : forall t' i, 0 <= t' -> label_at (seg_after_groups groups painted) t' i = label_at painted t' i \/
              (label_at (seg_after_groups groups painted) t' i = 0 /\ t' = t /\ (i < length (frame_of sg t))%nat /\ In (Z.of_nat i) (all_pixels groups))).
  { intros t' i Ht'. destruct (Hp1 t' i Ht') as [E|(E0 & Hi & g & Hg & Hfg & Hin)]; [now left|right].
    assert (Hgt : fst (fst g) = t) by (apply paint_groups_In in Hg; tauto). rewrite Hgt in Hfg. subst t'.
    destruct ShP as [_ ShP]. rewrite ShP in Hi. split; [exact E0|split; [reflexivity|split; [exact Hi|]]].
    unfold all_pixels. apply in_flat_map. eauto. }
  assert (Hcase : final = seg_after_groups groups painted /\ (nv = 0 \/ groups = []) \/
                  (exists px0 o r, groups = (px0, o) :: r /\ fst px0 = t /\ nv <> 0 /\ final = paint_arr (seg_after_groups groups painted) t (all_pixels groups) nv)).
  { unfold final, stroke_result. destruct groups as [|[px0 o] r] eqn:Eg; [left; auto|].
    destruct (Z.eqb_spec nv 0); [left; auto|right].
    assert (fst px0 = t) by (assert (Hin : In (px0, o) groups) by (rewrite Eg; now left); apply paint_groups_In in Hin; tauto).
    exists px0, o, r. subst t. auto. }
  destruct Hcase as [[-> Hz]|(px0 & o & r & Eg & Hpx0 & Hnv & ->)].
  - split; [eapply same_shape_trans; eauto|]. intros t' i Ht'.
    destruct (H1 t' i Ht') as [E|(E0 & -> & Hi & Hin)]; [rewrite E; now apply HP|].
    rewrite E0. destruct Hz as [->|Hz]; [|unfold groups in Hin; fold groups in Hin; rewrite Hz in Hin; destruct Hin].
    apply changed_In in Hin. destruct Hin as (_ & Hin & _). apply memz_In in Hin. apply Nat.ltb_lt in Hi.
    now rewrite Z.eqb_refl, Hin, Hi.
  - split; [eapply same_shape_trans; [apply paint_same_shape|eapply same_shape_trans; eauto]|]. intros t' i Ht'.
    rewrite label_at_paint by assumption.
    assert (Hlen : length (frame_of (seg_after_groups groups painted) t) = length (frame_of sg t)).
    { destruct Sh1 as [_ Sh1]. destruct ShP as [_ ShP]. now rewrite Sh1, ShP. }
    rewrite Hlen.
    destruct ((t' =? t) && memz (Z.of_nat i) (all_pixels groups) && (i <? length (frame_of sg t))%nat) eqn:Ec.
    + apply andb_true_iff in Ec. destruct Ec as [Ec E3]. apply andb_true_iff in Ec. destruct Ec as [E1 E2].
      apply memz_In in E2. apply changed_In in E2. destruct E2 as (_ & Hin & _). apply memz_In in Hin. now rewrite E1, Hin, E3.
    + destruct (H1 t' i Ht') as [E|(E0 & -> & Hi & Hin)]; [rewrite E; now apply HP|].
      apply memz_In in Hin. apply Nat.ltb_lt in Hi. rewrite Z.eqb_refl, Hin, Hi in Ec. discriminate.
Qed.

Lemma user_update_seg_ok st nv groups T force a s : user_update_seg st nv groups T force = Ok a s ->
  exists pl s0, user_update_seg_core st nv groups T force = Ok (a, pl) s0 /\ seg s = seg s0.
Proof.
  unfold user_update_seg. destruct (user_update_seg_core st nv groups T force) as [[a0 pl] s0|e s0]; [|discriminate].
  intros H. injection H as <- <-. exists pl, s0. split; [reflexivity|apply seg_finish_top].
Qed.

(* C07: a successful paint / erase stroke leaves the array exactly as painted *)
Theorem paint_exact st nv t idx T force a st' sg :
  paint st nv t idx T force = Ok a st' -> seg st = Some sg ->
  frame_ok sg t = true /\
  exists sg', seg st' = Some sg' /\ same_shape sg' sg /\
    forall t' i, 0 <= t' ->
      label_at sg' t' i = if (t' =? t) && memz (Z.of_nat i) idx && (i <? length (frame_of sg t))%nat then nv else label_at sg t' i.
Proof.
  unfold paint. intros H Hs. rewrite Hs in H. destruct (frame_ok sg t) eqn:Hf; [|discriminate]. cbn [negb] in H.
  split; [reflexivity|].
  destruct (user_update_seg _ nv (paint_groups sg t idx nv) T force) as [a0 s0|e s0] eqn:Hu; [|discriminate].
  injection H as _ <-. apply user_update_seg_ok in Hu. destruct Hu as (pl & s1 & Hc & Es).
  eapply uus_core_seg in Hc; [|reflexivity]. rewrite <- Es in Hc.
  eexists. split; [exact Hc|]. apply (stroke_result_pointwise sg t idx nv Hf).
Qed.

(* ================================================================== *)
(* Part C.4: footprint of a stroke - whatever happens (success, error,   *)
(* rollback), only the painted pixels of the painted frame are written   *)
(* ================================================================== *)

(* between a and b the array keeps its shape and changes at most inside R *)
Definition seg_fp (R : Z -> nat -> Prop) (a b : state) : Prop :=
  match seg a with
  | Some sg => exists sg', seg b = Some sg' /\ same_shape sg' sg /\
                 forall t i, 0 <= t -> ~ R t i -> label_at sg' t i = label_at sg t i
  | None => seg b = None
  end.
Definition px_in (R : Z -> nat -> Prop) (p : pixels) : Prop := forall i, In (Z.of_nat i) (snd p) -> R (fst p) i.

Lemma seg_fp_of_eq R a b : seg_eq a b -> seg_fp R a b.
Proof.
  unfold seg_eq, seg_fp. intros E. destruct (seg a) as [sg|]; [|exact E].
  exists sg. split; [exact E|split; [apply same_shape_refl|reflexivity]].
Qed.
Lemma seg_fp_refl R a : seg_fp R a a.
Proof. apply seg_fp_of_eq, seg_eq_refl. Qed.
Lemma seg_fp_trans R a b c : seg_fp R a b -> seg_fp R b c -> seg_fp R a c.
Proof.
  unfold seg_fp. destruct (seg a) as [sg|].
  - intros (sg1 & E1 & S1 & P1). rewrite E1. intros (sg2 & E2 & S2 & P2). exists sg2.
    split; [exact E2|split; [eapply same_shape_trans; eauto|]]. intros t i Ht Hr. rewrite P2, P1; auto.
  - intros ->. auto.
Qed.

Lemma seg_fp_set_pixels R st p v : px_in R p -> seg_fp R st (rstate (set_pixels st p v)).
Proof.
  intros Hp. unfold set_pixels, seg_fp. destruct (seg st) as [sg|] eqn:Hs; [|cbn; exact Hs].
  destruct (frame_ok sg (fst p)) eqn:Hf; cbn [rstate].
  - cbn. exists (paint_arr sg (fst p) (snd p) v). split; [reflexivity|split; [apply paint_same_shape|]].
    intros t i Ht Hr. rewrite label_at_paint; [|apply frame_ok_range in Hf; lia|exact Ht].
    destruct ((t =? fst p) && memz (Z.of_nat i) (snd p) && (i <? length (frame_of sg (fst p)))%nat) eqn:Ec; [|reflexivity].
    exfalso. apply Hr. apply andb_true_iff in Ec. destruct Ec as [Ec _]. apply andb_true_iff in Ec. destruct Ec as [E1 E2].
    apply Z.eqb_eq in E1. subst t. apply Hp. now apply memz_In.
  - rewrite Hs. exists sg. split; [reflexivity|split; [apply same_shape_refl|reflexivity]].
Qed.

Lemma seg_fp_add_node R st n a pxo : (forall p, pxo = Some p -> px_in R p) -> seg_fp R st (rstate (do_add_node st n a pxo)).
Proof.
  intros Hp. unfold do_add_node.
  destruct (negb (haskey KTime a)); [apply seg_fp_refl|]. destruct (negb (haskey KTrack a)); [apply seg_fp_refl|].
  destruct (match pxo with None => negb (all_in (pos_keys (ft st)) a) | Some _ => false end); [apply seg_fp_refl|].
  apply bind_rel; [apply seg_fp_trans| |].
  - destruct pxo as [p|]; [apply seg_fp_set_pixels; auto|apply seg_fp_refl].
  - intros [] st1 _. apply seg_fp_of_eq. unfold seg_eq.
    fold (set_attrs (if haskey n (nodes (g st1)) then st1 else upd_g st1 {| nodes := nodes (g st1) ++ [(n, [])]; succs := set n (getd n (succs (g st1)) []) (succs (g st1)) |}) n a).
    change (rp_update (set_attrs (if haskey n (nodes (g st1)) then st1 else upd_g st1 {| nodes := nodes (g st1) ++ [(n, [])]; succs := set n (getd n (succs (g st1)) []) (succs (g st1)) |}) n a) n) with (add_node_core st1 n a).
    destruct (add_node_core_seg st1 n a) as [Es _]. set (s4 := add_node_core st1 n a) in *.
    destruct (negb (trk_act (ft s4))); [exact Es|]. destruct (zattr s4 n KTrack); [|exact Es].
    destruct (if lin_act (ft s4) then _ else _). exact Es.
Qed.

Lemma seg_fp_del_node R st n pxo : (forall p, eff_pixels st n pxo = Some p -> px_in R p) -> seg_fp R st (rstate (do_del_node st n pxo)).
Proof.
  intros Hp. unfold do_del_node. destruct (lookup n (nodes (g st))); [|apply seg_fp_refl].
  fold (eff_pixels st n pxo). apply bind_rel; [apply seg_fp_trans| |].
  - destruct (eff_pixels st n pxo) as [p|]; [apply seg_fp_set_pixels; auto|apply seg_fp_refl].
  - intros [] st1 _. apply seg_fp_of_eq. unfold seg_eq. cbn [ft upd_g]. destruct (negb (trk_act (ft st1))); reflexivity.
Qed.

Lemma seg_fp_upd_seg R st n p added : px_in R p -> seg_fp R st (rstate (do_upd_seg st n p added)).
Proof.
  intros Hp. unfold do_upd_seg. apply bind_rel; [apply seg_fp_trans|now apply seg_fp_set_pixels|].
  intros [] st1 _. apply seg_fp_of_eq. unfold seg_eq.
  destruct (negb (has_node st1 n) && _); [reflexivity|]. destruct (negb (has_node st1 n) && _); [reflexivity|].
  cbn [rstate]. rewrite iou_update_seg. apply rp_update_graph_only.
Qed.

Ltac fp_eq := apply seg_fp_of_eq; first [seg_step | apply seg_eq_udn_preds | apply seg_eq_udn_succs | apply seg_eq_udn_orphans
                                         | apply seg_eq_uan_cut | apply seg_eq_user_delete_edge ].

Lemma seg_fp_udn_core R st n pxo : (forall s p, seg s = seg st -> eff_pixels s n pxo = Some p -> px_in R p) ->
  seg_fp R st (rstate (user_delete_node_core st n pxo)).
Proof.
  intros Hp. unfold user_delete_node_core. destruct (px_check st pxo); [apply seg_fp_refl|]. destruct (negb (has_node st n)); [apply seg_fp_refl|].
  (* everything before DeleteNode leaves the array alone *)
  assert (Hgen : forall (r : res (list action)) (k : list action -> state -> res action),
            seg_eq st (rstate r) -> (forall x s, seg s = seg st -> seg_fp R s (rstate (k x s))) -> seg_fp R st (rstate (bind r k))).
  { intros r k Hr Hk. apply bind_rel; [apply seg_fp_trans|now apply seg_fp_of_eq|]. intros x s E. apply Hk. rewrite E in Hr. exact Hr. }
  apply Hgen; [apply seg_eq_udn_preds|]. intros acts1 s1 E1.
  apply bind_rel; [apply seg_fp_trans|fp_eq|]. intros acts2 s2 H2. assert (E2 := ok_seg_eq _ _ _ _ (seg_eq_udn_succs _ _ _ _) H2).
  apply bind_rel; [apply seg_fp_trans| |].
  - apply seg_fp_of_eq. destruct (zattr s2 n KTrack) as [T|]; [|seg_step].
    assert (Etn := seg_track_neighbors s2 T (time_of s2 n)). destruct (track_neighbors s2 T (time_of s2 n)) as [s2' [p c]]. cbn [fst] in Etn.
    destruct p as [p|]; [destruct c as [c|]|]; try exact Etn.
    eapply seg_eq_trans; [exact Etn|]. apply bind_rel; [exact seg_eq_trans|seg_step|intros; seg_step].
  - intros [acts3 orphans] s3 H3.
    assert (E3 : seg s3 = seg s2).
    { destruct (zattr s2 n KTrack) as [T|]; [|discriminate].
      assert (Etn := seg_track_neighbors s2 T (time_of s2 n)). destruct (track_neighbors s2 T (time_of s2 n)) as [s2' [p c]]. cbn [fst] in Etn.
      destruct p as [p|]; [destruct c as [c|]|].
      - ok_step H3 b0 s4 H4. injection H3 as _ _ <-. rewrite (ok_seg_eq _ _ _ _ (seg_eq_add_edge _ _ _ _) H4). exact Etn.
      - injection H3 as _ _ <-. exact Etn.
      - injection H3 as _ _ <-. exact Etn. }
    apply bind_rel; [apply seg_fp_trans|fp_eq|]. intros acts4 s4 H4. assert (E4 := ok_seg_eq _ _ _ _ (seg_eq_udn_orphans _ _ _) H4).
    apply bind_rel; [apply seg_fp_trans| |intros; apply seg_fp_refl].
    apply seg_fp_del_node. intros p. apply Hp. congruence.
Qed.

Lemma seg_fp_uan_core R st n a pxo force : (forall p, pxo = Some p -> px_in R p) ->
  seg_fp R st (rstate (user_add_node_core st n a pxo force)).
Proof.
  intros Hp. unfold user_add_node_core.
  destruct (lookup KTime a) as [tv|]; [|apply seg_fp_refl]. destruct (lookup KTrack a) as [kv|]; [|apply seg_fp_refl].
  destruct (has_node st n); [apply seg_fp_refl|].
  destruct (if has_track_at st _ _ then _ else _) as [T a1].
  assert (Etn := seg_track_neighbors st T (match tv with VZ z => z | _ => 0 end)).
  destruct (track_neighbors st T _) as [st0 [pred succ]]. cbn [fst] in Etn.
  eapply seg_fp_trans; [apply seg_fp_of_eq; exact Etn|].
  apply bind_rel; [apply seg_fp_trans|rewrite uan_conflicts_state; apply seg_fp_refl|]. intros conflicts s1 H1.
  assert (E1 : s1 = st0) by (rewrite <- (uan_conflicts_state st0 pred succ force), H1; reflexivity). subst s1.
  destruct (match pxo with None => negb (all_in (pos_keys (ft st0)) a1) | Some _ => false end); [apply seg_fp_refl|].
  destruct (px_check st0 pxo); [apply seg_fp_refl|].
  apply bind_rel; [apply seg_fp_trans|fp_eq|]. intros acts s2 _.
  apply bind_rel; [apply seg_fp_trans| |].
  - destruct pred as [pp|]; [destruct succ as [cc|]|]; try apply seg_fp_refl.
    apply bind_rel; [apply seg_fp_trans|fp_eq|intros; apply seg_fp_refl].
  - intros acts' s3 _. apply bind_rel; [apply seg_fp_trans|now apply seg_fp_add_node|]. intros b s4 _.
    apply bind_rel; [apply seg_fp_trans| |].
    + destruct pred as [pp|]; [|apply seg_fp_refl]. apply bind_rel; [apply seg_fp_trans|fp_eq|intros; apply seg_fp_refl].
    + intros acts'' s5 _. apply bind_rel; [apply seg_fp_trans| |intros; apply seg_fp_refl].
      destruct succ as [cc|]; [|apply seg_fp_refl]. apply bind_rel; [apply seg_fp_trans|fp_eq|intros; apply seg_fp_refl].
Qed.

(* recorded actions whose inverse writes only inside R *)
Definition basic_ok (R : Z -> nat -> Prop) (b : basic) : Prop :=
  match b with
  | BAddNode _ _ _ => False
  | BDelNode _ _ (Some p) => px_in R p
  | BUpdSeg _ p _ => px_in R p
  | _ => True
  end.
Fixpoint act_ok (R : Z -> nat -> Prop) (a : action) : Prop :=
  match a with
  | ABasic b => basic_ok R b
  | AGroup l => (fix go (l : list action) : Prop := match l with [] => True | x :: r => act_ok R x /\ go r end) l
  end.
Fixpoint acts_ok (R : Z -> nat -> Prop) (l : list action) : Prop :=
  match l with [] => True | x :: r => act_ok R x /\ acts_ok R r end.
Lemma act_ok_group R l : act_ok R (AGroup l) = acts_ok R l.
Proof. cbn. induction l as [|x r IH]; [reflexivity|]. now rewrite IH. Qed.
Lemma acts_ok_app R l1 l2 : acts_ok R (l1 ++ l2) <-> acts_ok R l1 /\ acts_ok R l2.
Proof. induction l1 as [|x r IH]; cbn; [tauto|]. rewrite IH. tauto. Qed.
Lemma acts_ok_snoc R l x : acts_ok R l -> act_ok R x -> acts_ok R (l ++ [x]).
Proof. intros H1 H2. apply acts_ok_app. cbn. auto. Qed.
Lemma acts_ok_rev R l : acts_ok R l -> acts_ok R (rev l).
Proof. induction l as [|x r IH]; cbn; [auto|]. intros [H1 H2]. apply acts_ok_snoc; auto. Qed.

Lemma seg_fp_inv_basic R st b : basic_ok R b -> seg_fp R st (rstate (inv_basic st b)).
Proof.
  destruct b as [n a px|n saved px|u v a|u v saved|n prev new|n px added|start oldT newT oldL newL]; cbn [inv_basic basic_ok]; intros Hb.
  - contradiction.
  - apply seg_fp_add_node. intros p ->. exact Hb.
  - fp_eq.
  - fp_eq.
  - fp_eq.
  - now apply seg_fp_upd_seg.
  - fp_eq.
Qed.

Lemma seg_fp_inv_action R : forall a st, act_ok R a -> seg_fp R st (rstate (inv_action st a)).
Proof.
  fix IH 1. intros a st. destruct a as [b|l].
  - cbn [inv_action act_ok]. intros Hb. apply bind_rel; [apply seg_fp_trans|now apply seg_fp_inv_basic|intros; apply seg_fp_refl].
  - rewrite act_ok_group. cbn [inv_action]. intros Hl.
    apply bind_rel; [apply seg_fp_trans| |intros; apply seg_fp_refl].
    revert st Hl. induction l as [|x r IHl]; intros st Hl; [apply seg_fp_refl|].
    destruct Hl as [Hx Hr]. apply bind_rel; [apply seg_fp_trans|now apply IHl|]. intros accr s _.
    apply bind_rel; [apply seg_fp_trans|now apply IH|intros; apply seg_fp_refl].
Qed.

Lemma seg_fp_rollback R l s : acts_ok R l -> seg_fp R s (rstate (rollback l s)).
Proof.
  revert s; induction l as [|x r IH]; intros s Hl; cbn [rollback]; [apply seg_fp_refl|].
  destruct Hl as [Hx Hr]. apply bind_rel; [apply seg_fp_trans|now apply seg_fp_inv_action|]. intros _i s1 _. now apply IH.
Qed.

(* what the sub-actions record *)
Lemma upd_track_out R st s t l b st' : do_upd_track st s t l = Ok b st' -> basic_ok R b.
Proof.
  unfold do_upd_track. destruct (negb (has_node st s)); [discriminate|]. destruct (zattr st s KTrack); [|discriminate].
  destruct (negb (trk_act (ft st))); [intros H; injection H as <- _; exact I|].
  destruct (walk _ _ _ _ _ _ _ _ _) as [[[st1 tn] ln]|]; [|discriminate].
  destruct (match (if lin_act (ft st) then l else None) with Some _ => _ | None => _ end). intros H; injection H as <- _; exact I.
Qed.
Lemma del_edge_out R st u v b st' : do_del_edge st u v = Ok b st' -> basic_ok R b.
Proof. unfold do_del_edge. destruct (negb (has_edge st u v)); [discriminate|]. intros H; injection H as <- _; exact I. Qed.
Lemma add_edge_out R st u v a b st' : do_add_edge st u v a = Ok b st' -> basic_ok R b.
Proof.
  unfold do_add_edge. destruct (negb (has_node st u)); [discriminate|]. destruct (negb (has_node st v)); [discriminate|].
  intros H; injection H as <- _; exact I.
Qed.
Lemma del_node_out R st n p b st' : do_del_node st n (Some p) = Ok b st' -> px_in R p -> basic_ok R b.
Proof.
  unfold do_del_node. destruct (lookup n (nodes (g st))); [|discriminate].
  destruct (set_pixels st p 0) as [[] st1|]; [|discriminate]. cbn [bind ft upd_g].
  destruct (negb (trk_act (ft st1))); intros H; injection H as <- _; auto.
Qed.
Lemma upd_seg_out R st n p added b st' : do_upd_seg st n p added = Ok b st' -> px_in R p -> basic_ok R b.
Proof. intros H Hp. apply do_upd_seg_ok in H as H'. unfold do_upd_seg in H. destruct (set_pixels _ _ _) as [[] st1|]; [|discriminate]. cbn [bind] in H.
  destruct (negb (has_node st1 n) && _); [discriminate|]. destruct (negb (has_node st1 n) && _); [discriminate|]. injection H as <- _. exact Hp. Qed.

Lemma udn_preds_out R n ps s acc acts s' : udn_preds n ps s acc = Ok acts s' -> acts_ok R acc -> acts_ok R acts.
Proof.
  revert s acc; induction ps as [|p r IH]; intros s acc H Hacc; cbn [udn_preds] in H; [injection H as <- _; exact Hacc|].
  ok_step H acc1 s1 H1. ok_step H b s2 H2. eapply IH; [exact H|]. apply acts_ok_snoc; [|eapply del_edge_out; eauto].
  destruct (length (successors s p) =? 2)%nat; [|injection H1 as <- _; exact Hacc].
  destruct (remove1 n (successors s p)); [discriminate|]. destruct (zattr s p KTrack); [|discriminate].
  ok_step H1 b0 s0 H0. injection H1 as <- _. apply acts_ok_snoc; [exact Hacc|eapply upd_track_out; eauto].
Qed.
Lemma udn_succs_out R n cs s acc acts s' : udn_succs n cs s acc = Ok acts s' -> acts_ok R acc -> acts_ok R acts.
Proof.
  revert s acc; induction cs as [|c r IH]; intros s acc H Hacc; cbn [udn_succs] in H; [injection H as <- _; exact Hacc|].
  ok_step H b s1 H1. eapply IH; [exact H|]. apply acts_ok_snoc; [exact Hacc|eapply del_edge_out; eauto].
Qed.
Lemma udn_orphans_out R os s acc acts s' : udn_orphans os s acc = Ok acts s' -> acts_ok R acc -> acts_ok R acts.
Proof.
  revert s acc; induction os as [|o r IH]; intros s acc H Hacc; cbn [udn_orphans] in H; [injection H as <- _; exact Hacc|].
  destruct (zattr s o KTrack); [|discriminate]. ok_step H b s1 H1. eapply IH; [exact H|].
  apply acts_ok_snoc; [exact Hacc|eapply upd_track_out; eauto].
Qed.

Lemma udn_core_out R st n p a s' : user_delete_node_core st n (Some p) = Ok a s' -> px_in R p -> act_ok R a.
Proof.
  unfold user_delete_node_core. intros H Hp. destruct (px_check st (Some p)); [discriminate|]. destruct (negb (has_node st n)); [discriminate|].
  ok_step H acts1 s1 H1. apply (udn_preds_out R) in H1; [|exact I].
  ok_step H acts2 s2 H2. apply (udn_succs_out R) in H2; [|exact H1].
  ok_step H ao s3 H3. destruct ao as [acts3 orphans].
  assert (A3 : acts_ok R acts3).
  { destruct (zattr s2 n KTrack) as [T|]; [|discriminate]. destruct (track_neighbors s2 T (time_of s2 n)) as [s2' [pp cc]].
    destruct pp as [pp|]; [destruct cc as [cc|]|].
    - ok_step H3 b0 s4 H4. injection H3 as <- _ _. apply acts_ok_snoc; [exact H2|eapply add_edge_out; eauto].
    - injection H3 as <- _ _. exact H2.
    - injection H3 as <- _ _. exact H2. }
  ok_step H acts4 s4 H4. apply (udn_orphans_out R) in H4; [|exact A3].
  ok_step H b s5 H5. injection H as <- _. rewrite act_ok_group. apply acts_ok_snoc; [exact H4|]. cbn. eapply del_node_out; eauto.
Qed.

Lemma uus_groups_out R gs s acc acts s' : uus_groups gs s acc = Ok acts s' ->
  (forall g, In g gs -> px_in R (fst g)) -> acts_ok R acc -> acts_ok R acts.
Proof.
  revert s acc; induction gs as [|[px old] r IH]; intros s acc H Hg Hacc; cbn [uus_groups] in H; [injection H as <- _; exact Hacc|].
  assert (Hpx : px_in R px) by (apply (Hg (px, old)); now left).
  assert (Hr : forall g, In g r -> px_in R (fst g)) by (intros g Hin; apply Hg; now right).
  destruct (old =? 0); [eapply IH; eauto|].
  destruct (match seg s with Some sg0 => mask_of sg0 (fst px) old | None => [] end).
  - ok_step H a s1 H1. unfold user_delete_node in H1. apply top_wrap_false_ok in H1.
    eapply IH; [exact H|exact Hr|]. apply acts_ok_snoc; [exact Hacc|eapply udn_core_out; eauto].
  - ok_step H b s1 H1. eapply IH; [exact H|exact Hr|]. apply acts_ok_snoc; [exact Hacc|]. cbn. eapply upd_seg_out; eauto.
Qed.

Lemma seg_fp_uus_groups R gs s acc : (forall g, In g gs -> px_in R (fst g)) -> seg_fp R s (rstate (uus_groups gs s acc)).
Proof.
  revert s acc; induction gs as [|[px old] r IH]; intros s acc Hg; cbn [uus_groups]; [apply seg_fp_refl|].
  assert (Hpx : px_in R px) by (apply (Hg (px, old)); now left).
  assert (Hr : forall g, In g r -> px_in R (fst g)) by (intros g Hin; apply Hg; now right).
  destruct (old =? 0); [now apply IH|].
  destruct (match seg s with Some sg0 => mask_of sg0 (fst px) old | None => [] end).
  - apply bind_rel; [apply seg_fp_trans| |intros; now apply IH].
    unfold user_delete_node, top_wrap.
    assert (Hc : seg_fp R s (rstate (user_delete_node_core s old (Some px)))) by (apply seg_fp_udn_core; intros s2 p _ E; injection E as <-; exact Hpx).
    destruct (user_delete_node_core s old (Some px)) as [a0 s0|e0 s0]; exact Hc.
  - apply bind_rel; [apply seg_fp_trans|now apply seg_fp_upd_seg|intros; now apply IH].
Qed.

Lemma seg_fp_uus_core R st nv groups T force :
  (forall g, In g groups -> px_in R (fst g)) ->
  (forall px0 o r, groups = (px0, o) :: r -> px_in R (fst px0, all_pixels groups)) ->
  seg_fp R st (rstate (user_update_seg_core st nv groups T force)).
Proof.
  intros Hg Hall. unfold user_update_seg_core. destruct (seg st) eqn:Hs; [|apply seg_fp_refl].
  destruct (negb (nv =? 0) && _ && has_node st nv && _); [apply seg_fp_refl|].
  assert (Hfp := seg_fp_uus_groups R groups st [] Hg).
  destruct (uus_groups groups st []) as [acts s1|e s1] eqn:Hu; cbn [bind rstate] in Hfp |- *; [|exact Hfp].
  eapply seg_fp_trans; [exact Hfp|].
  apply (uus_groups_out R) in Hu; [|exact Hg|exact I].
  destruct groups as [|[px0 old0] gr] eqn:Eg; [apply seg_fp_refl|].
  destruct (nv =? 0); [apply seg_fp_refl|].
  fold (all_pixels ((px0, old0) :: gr)). set (allpx := all_pixels ((px0, old0) :: gr)). cbv zeta.
  assert (Hpx : px_in R (fst px0, allpx)) by (eapply Hall; reflexivity).
  destruct (has_node s1 nv).
  - apply bind_rel; [apply seg_fp_trans|now apply seg_fp_upd_seg|intros; apply seg_fp_refl].
  - match goal with |- context [user_add_node ?x1 ?x2 ?x3 ?x4 ?x5 ?x6] => 
      assert (Hadd : seg_fp R s1 (rstate (user_add_node x1 x2 x3 x4 x5 x6)));
      [|destruct (user_add_node x1 x2 x3 x4 x5 x6) as [x s2|e s2]] end.
    { unfold user_add_node, top_wrap.
      match goal with |- context [user_add_node_core ?x1 ?x2 ?x3 ?x4 ?x5] =>
        assert (Hc := seg_fp_uan_core R x1 x2 x3 x4 x5); destruct (user_add_node_core x1 x2 x3 x4 x5) end;
      cbn [rstate] in *; apply Hc; intros p E; injection E as <-; exact Hpx. }
    + exact Hadd.
    + cbn [rstate] in Hadd. destruct e; try exact Hadd.
      assert (Hrb := seg_fp_rollback R (rev acts) s2 (acts_ok_rev R _ Hu)).
      destruct (rollback (rev acts) s2); cbn [rstate] in *; eapply seg_fp_trans; eauto.
Qed.

(* ---- the caller restores the painted pixels ---- *)
Lemma restore_same_shape t gs acc : same_shape (restore_groups t gs acc) acc.
Proof.
  unfold restore_groups. revert acc; induction gs as [|g r IH]; intros acc; cbn [fold_left]; [apply same_shape_refl|].
  eapply same_shape_trans; [apply IH|]. apply (paint_same_shape acc t (snd (fst g)) (snd g)).
Qed.

Lemma restore_pointwise t gs acc x t' i : 0 <= t -> 0 <= t' ->
  (forall g, In g gs -> In (Z.of_nat i) (snd (fst g)) -> snd g = x) ->
  label_at (restore_groups t gs acc) t' i =
    if (t' =? t) && existsb (fun g => memz (Z.of_nat i) (snd (fst g))) gs && (i <? length (frame_of acc t))%nat
    then x else label_at acc t' i.
Proof.
  intros Ht Ht'. unfold restore_groups. revert acc; induction gs as [|g r IH]; intros acc Hx; cbn [fold_left existsb].
  - now rewrite andb_false_r.
  - fold (paint_arr acc t (snd (fst g)) (snd g)). rewrite IH by (intros g' Hg'; apply Hx; now right).
    destruct (paint_same_shape acc t (snd (fst g)) (snd g)) as [_ Sh]. rewrite Sh.
    rewrite label_at_paint by assumption.
    destruct (t' =? t); cbn [andb]; [|reflexivity].
    destruct (i <? length (frame_of acc t))%nat; [|now rewrite !andb_false_r]. rewrite !andb_true_r.
    destruct (existsb (fun g0 => memz (Z.of_nat i) (snd (fst g0))) r); [now rewrite orb_true_r|]. rewrite orb_false_r.
    destruct (memz (Z.of_nat i) (snd (fst g))) eqn:E; [|reflexivity]. apply Hx; [now left|now apply memz_In].
Qed.

(* two arrays of the same shape with the same labels are the same list *)
Lemma arr_ext a b : same_shape a b -> (forall t i, 0 <= t -> label_at a t i = label_at b t i) -> a = b.
Proof.
  intros [Hl Hf] Hp. apply (nth_ext a b [] []); [exact Hl|]. intros k Hk.
  assert (Hfk := Hf (Z.of_nat k)). unfold frame_of in Hfk. rewrite Nat2Z.id in Hfk.
  apply (nth_ext _ _ 0 0); [exact Hfk|]. intros i Hi.
  assert (H := Hp (Z.of_nat k) i ltac:(lia)). unfold label_at, frame_of in H. now rewrite Nat2Z.id in H.
Qed.

Lemma user_update_seg_err st nv groups T force e s : user_update_seg st nv groups T force = Err e s ->
  s = rstate (user_update_seg_core st nv groups T force).
Proof.
  unfold user_update_seg. destruct (user_update_seg_core st nv groups T force) as [[a0 pl] s0|e0 s0]; [discriminate|].
  intros H. now injection H as _ <-.
Qed.

(* C07: a stroke that raises - at any point, also after a partial rollback - leaves the previous array, bit for bit *)
Theorem paint_error_restores st nv t idx T force e st' sg :
  paint st nv t idx T force = Err e st' -> seg st = Some sg -> seg st' = Some sg.
Proof.
  unfold paint. intros H Hs. rewrite Hs in H. destruct (frame_ok sg t) eqn:Hf; cbn [negb] in H; [|injection H as _ <-; exact Hs].
  set (groups := paint_groups sg t idx nv) in *. fold (all_pixels groups) in H.
  set (painted := upd_seg st (Some (upd_frame (Z.to_nat t) (fun f => write_frame 0 f (all_pixels groups) nv) sg))) in *.
  destruct (user_update_seg painted nv groups T force) as [a0 s0|e0 s0] eqn:Hu; [discriminate|]. injection H as _ <-.
  apply user_update_seg_err in Hu.
  assert (Ht0 : 0 <= t) by (apply frame_ok_range in Hf; lia).
  set (R := fun (t' : Z) (i : nat) => t' = t /\ In (Z.of_nat i) (all_pixels groups)).
  assert (Hg : forall g, In g groups -> px_in R (fst g)).
  { intros g Hin i Hi. apply paint_groups_In in Hin as Hgi. destruct Hgi as (Hgt & _ & _). split; [exact Hgt|].
    unfold all_pixels. apply in_flat_map. eauto. }
  assert (Hall : forall px0 o r, groups = (px0, o) :: r -> px_in R (fst px0, all_pixels groups)).
  { intros px0 o r Eg i Hi. cbn [fst snd] in *. split; [|exact Hi].
    assert (Hin : In (px0, o) groups) by (rewrite Eg; now left). apply paint_groups_In in Hin. tauto. }
  assert (Hfp := seg_fp_uus_core R painted nv groups T force Hg Hall). rewrite <- Hu in Hfp.
  unfold seg_fp in Hfp. cbn [seg painted upd_seg] in Hfp. fold (paint_arr sg t (all_pixels groups) nv) in Hfp.
  destruct Hfp as (sg2 & Hs2 & Sh2 & P2). rewrite Hs2. cbn [seg upd_seg]. f_equal.
  assert (ShP := paint_same_shape sg t (all_pixels groups) nv).
  apply arr_ext; [eapply same_shape_trans; [apply restore_same_shape|eapply same_shape_trans; eauto]|].
  intros t' i Ht'.
  rewrite (restore_pointwise t groups sg2 (label_at sg t i)); try assumption.
  - assert (Hlen : length (frame_of sg2 t) = length (frame_of sg t)) by (destruct Sh2 as [_ S2]; destruct ShP as [_ SP]; now rewrite S2, SP).
    rewrite Hlen.
    destruct ((t' =? t) && existsb (fun g => memz (Z.of_nat i) (snd (fst g))) groups && (i <? length (frame_of sg t))%nat) eqn:Ec.
    + apply andb_true_iff in Ec. destruct Ec as [Ec _]. apply andb_true_iff in Ec. destruct Ec as [E1 _]. apply Z.eqb_eq in E1. now subst.
    + (* not restored: never written, or out of range *)
      destruct (Z.eqb_spec t' t) as [->|Hne].
      * cbn [andb] in Ec. destruct (Nat.ltb_spec i (length (frame_of sg t))) as [Hi|Hi].
        -- rewrite andb_true_r in Ec.
           assert (Hnot : ~ R t i).
           { intros [_ Hin]. unfold all_pixels in Hin. apply in_flat_map in Hin. destruct Hin as (g & Hgin & Hp).
             assert (existsb (fun g => memz (Z.of_nat i) (snd (fst g))) groups = true) by (apply existsb_exists; exists g; split; [exact Hgin|now apply memz_In]).
             congruence. }
           rewrite (P2 t i Ht' Hnot). rewrite label_at_paint by assumption.
           assert (Em : memz (Z.of_nat i) (all_pixels groups) = false) by (apply memz_false; intros Hin; apply Hnot; split; [reflexivity|exact Hin]).
           now rewrite Em, andb_false_r.
        -- rewrite !label_at_overflow; [reflexivity|lia|lia].
      * rewrite P2; [|exact Ht'|intros [E _]; contradiction]. rewrite label_at_paint by assumption.
        destruct (Z.eqb_spec t' t); [contradiction|reflexivity].
  - intros g Hgin Hp. apply paint_groups_In in Hgin. destruct Hgin as (_ & _ & Hgi). apply Hgi in Hp.
    apply io_of_In in Hp. destruct Hp as (j & Hj & _ & _ & E & _). apply Nat2Z.inj in Hj. subst j. now symmetry.
Qed.

(* ---- Part A, summary form: tracks.set_pixels ---- *)
Lemma set_pixels_spec st t idx v s sg : set_pixels st (t, idx) v = Ok tt s -> seg st = Some sg ->
  frame_ok sg t = true /\ g s = g st /\ ft s = ft st /\
  exists sg', seg s = Some sg' /\ same_shape sg' sg /\
    forall t' i, 0 <= t' ->
      label_at sg' t' i = if (t' =? t) && memz (Z.of_nat i) idx && (i <? length (frame_of sg t))%nat then v else label_at sg t' i.
Proof.
  intros H Hs. apply set_pixels_ok in H. destruct H as (sg0 & Hs0 & Hf & ->). rewrite Hs in Hs0. injection Hs0 as <-. cbn [fst snd] in *.
  split; [exact Hf|]. split; [reflexivity|]. split; [reflexivity|]. exists (paint_arr sg t idx v).
  split; [reflexivity|]. split; [apply paint_same_shape|]. intros t' i Ht'. apply label_at_paint; [apply frame_ok_range in Hf; lia|exact Ht'].
Qed.

Lemma mask_of_spec sg t n :
  (forall p, In p (mask_of sg t n) <-> 0 <= p < Z.of_nat (length (frame_of sg t)) /\ label_at sg t (Z.to_nat p) = n) /\
  StronglySorted Z.lt (mask_of sg t n) /\ NoDup (mask_of sg t n).
Proof. split; [intros p; apply mask_of_In|split; [apply mask_of_sorted|apply mask_of_NoDup]]. Qed.
