(* Proofs about Model/CandGraph.v (property C18). *)
From Coq Require Import ZArith List Bool Lia Arith.
From FT Require Import Model.CandGraph.
Import ListNotations.
Open Scope Z_scope.

(* ------------------------------------------------------------------ *)
(* sort                                                                *)
(* ------------------------------------------------------------------ *)
Lemma insert_In x y l : In y (insert x l) <-> y = x \/ In y l.
Proof.
  induction l as [|z l IH]; cbn [insert In].
  - intuition.
  - destruct (x <=? z); cbn [In]; [intuition|]. rewrite IH. intuition.
Qed.

Lemma sort_In x l : In x (sort l) <-> In x l.
Proof.
  induction l as [|y l IH]; cbn [sort fold_right In]; [tauto|].
  fold (sort l). rewrite insert_In, IH. intuition.
Qed.

Lemma insert_NoDup x l : ~ In x l -> NoDup l -> NoDup (insert x l).
Proof.
  induction l as [|z l IH]; cbn [insert]; intros Hn Hl.
  - constructor; [intros []|constructor].
  - destruct (x <=? z).
    + constructor; assumption.
    + inversion Hl as [|? ? Hz Hl']; subst. constructor.
      * rewrite insert_In. intros [->|H]; [apply Hn; now left|contradiction].
      * apply IH; [intros H; apply Hn; now right|assumption].
Qed.

Lemma sort_NoDup l : NoDup l -> NoDup (sort l).
Proof.
  induction l as [|y l IH]; cbn [sort fold_right]; intros H; [constructor|].
  fold (sort l). inversion H as [|? ? Hy Hl]; subst.
  apply insert_NoDup; [rewrite sort_In; assumption|auto].
Qed.

(* ------------------------------------------------------------------ *)
(* node_frame_dict                                                     *)
(* ------------------------------------------------------------------ *)
(* u is listed under frame t *)
Definition dict_in (d : nfdict) (t u : Z) : Prop := exists ids, nfd_get t d = Some ids /\ In u ids.

Lemma nfd_get_key t d : In t (map fst d) <-> nfd_get t d <> None.
Proof.
  induction d as [|[k ids] r IH]; cbn [map fst In nfd_get]; [intuition|].
  destruct (Z.eqb_spec k t) as [->|Hne].
  - split; [discriminate|auto].
  - rewrite <- IH. intuition.
Qed.

Lemma nfd_get_extend t new d t' :
  nfd_get t' (nfd_extend t new d) =
  if t =? t' then Some (match nfd_get t d with Some ids => ids ++ new | None => new end) else nfd_get t' d.
Proof.
  induction d as [|[k ids] r IH]; cbn [nfd_extend nfd_get].
  - reflexivity.
  - destruct (k =? t) eqn:Ekt; cbn [nfd_get].
    + apply Z.eqb_eq in Ekt. subst k.
      destruct (t =? t') eqn:Ett'; reflexivity.
    + destruct (k =? t') eqn:Ekt'; [|exact IH].
      apply Z.eqb_eq in Ekt'. subst k. rewrite Z.eqb_sym, Ekt. reflexivity.
Qed.

Lemma dict_in_extend t new d t' u :
  dict_in (nfd_extend t new d) t' u <-> dict_in d t' u \/ (t' = t /\ In u new).
Proof.
  unfold dict_in. rewrite nfd_get_extend.
  destruct (Z.eqb_spec t t') as [->|Hne].
  - split.
    + intros (ids & E & Hin). injection E as <-.
      destruct (nfd_get t' d) as [ids0|] eqn:G.
      * apply in_app_or in Hin. destruct Hin as [H|H]; [left; eauto|right; auto].
      * right; auto.
    + intros [(ids & E & Hin)|[_ Hin]].
      * rewrite E. eexists; split; [reflexivity|]. apply in_or_app; now left.
      * eexists; split; [reflexivity|]. destruct (nfd_get t' d); [apply in_or_app; now right|assumption].
  - split.
    + intros H; now left.
    + intros [H|[-> _]]; [assumption|congruence].
Qed.

Lemma dict_in_nil t u : ~ dict_in [] t u.
Proof. intros (ids & E & _). discriminate. Qed.

(* a dict built by extending with one batch per element of a list *)
Lemma dict_in_fold {X} (kt : X -> Z) (ki : X -> list Z) xs : forall d t u,
  dict_in (fold_left (fun d x => nfd_extend (kt x) (ki x) d) xs d) t u <->
  dict_in d t u \/ exists x, In x xs /\ kt x = t /\ In u (ki x).
Proof.
  induction xs as [|x xs IH]; intros d t u; cbn [fold_left].
  - split; [auto|]. intros [H|(x & [] & _)]; assumption.
  - rewrite IH, dict_in_extend. split.
    + intros [[H|[-> H]]|(y & Hy & E & H)]; [now left| |].
      * right. exists x. cbn; auto.
      * right. exists y. cbn; auto.
    + intros [H|(y & [<-|Hy] & E & H)]; [now left; left| |].
      * left; right; auto.
      * right; eauto.
Qed.

(* what a correct node_frame_dict of a graph is *)
Definition nfd_spec (g : graph) (d : nfdict) : Prop :=
  forall t u, dict_in d t u <-> exists n, In n g /\ n_id n = u /\ n_time n = t.

Lemma compute_nfd_spec g : nfd_spec g (compute_nfd g).
Proof.
  intros t u. unfold compute_nfd.
  rewrite (dict_in_fold n_time (fun n => [n_id n])). split.
  - intros [H|(n & Hn & E & [H|[]])]; [destruct (dict_in_nil _ _ H)|]. eauto.
  - intros (n & Hn & E1 & E2). right. exists n. cbn. auto.
Qed.

(* ------------------------------------------------------------------ *)
(* add_cand_edges                                                      *)
(* ------------------------------------------------------------------ *)
Section Edges.
Variable near : Z -> Z -> bool.

Lemma frame_edges_In prev next u v :
  In (u, v) (frame_edges near prev next) <-> In u prev /\ In v next /\ near u v = true.
Proof.
  unfold frame_edges. rewrite in_flat_map. split.
  - intros (x & Hx & H). apply in_map_iff in H. destruct H as (y & E & Hy).
    injection E as <- <-. apply filter_In in Hy. tauto.
  - intros (Hu & Hv & Hn). exists u. split; [assumption|].
    apply in_map_iff. exists v. split; [reflexivity|]. apply filter_In. auto.
Qed.

Lemma add_cand_edges_nfd_In d u v :
  In (u, v) (add_cand_edges_nfd near d) <->
  exists t, dict_in d t u /\ dict_in d (t + 1) v /\ near u v = true.
Proof.
  unfold add_cand_edges_nfd. rewrite in_flat_map. split.
  - intros (t & _ & H). exists t.
    destruct (nfd_get (t + 1) d) as [next|] eqn:G1; [|destruct H].
    destruct (nfd_get t d) as [prev|] eqn:G0; [|destruct H].
    apply frame_edges_In in H. destruct H as (Hu & Hv & Hn).
    unfold dict_in. rewrite G0, G1. repeat split; [exists prev; auto|exists next; auto|assumption].
  - intros (t & (prev & G0 & Hu) & (next & G1 & Hv) & Hn). exists t. split.
    + apply sort_In, nfd_get_key. congruence.
    + rewrite G1, G0. apply frame_edges_In. auto.
Qed.

(* the falsy-dict fallback keeps a correct dict correct *)
Lemma fallback_spec g d : nfd_spec g d -> nfd_spec g (match d with [] => compute_nfd g | _ => d end).
Proof. intros H. destruct d; [apply compute_nfd_spec|exact H]. Qed.

Lemma edges_of_spec g d : nfd_spec g d -> forall u v,
  In (u, v) (add_cand_edges_nfd near d) <->
  exists nu nv, In nu g /\ In nv g /\ n_id nu = u /\ n_id nv = v /\
                n_time nv = n_time nu + 1 /\ near u v = true.
Proof.
  intros Hs u v. rewrite add_cand_edges_nfd_In. split.
  - intros (t & Hu & Hv & Hn). apply Hs in Hu. apply Hs in Hv.
    destruct Hu as (nu & Hnu & Eu & Et). destruct Hv as (nv & Hnv & Ev & Et').
    exists nu, nv. repeat split; try assumption. lia.
  - intros (nu & nv & Hnu & Hnv & Eu & Ev & Et & Hn). exists (n_time nu). repeat split.
    + apply Hs. eauto.
    + apply Hs. eauto.
    + assumption.
Qed.

Lemma add_cand_edges_In g d : nfd_spec g d -> forall u v,
  In (u, v) (add_cand_edges near g d) <->
  exists nu nv, In nu g /\ In nv g /\ n_id nu = u /\ n_id nv = v /\
                n_time nv = n_time nu + 1 /\ near u v = true.
Proof. intros Hs. unfold add_cand_edges. apply edges_of_spec, fallback_spec, Hs. Qed.

(* C18_edges: the dict computed from the graph itself (node_frame_dict=None) *)
Theorem cand_edges_spec : forall g u v,
  In (u, v) (add_cand_edges near g (compute_nfd g)) <->
  exists nu nv, In nu g /\ In nv g /\ n_id nu = u /\ n_id nv = v /\
                n_time nv = n_time nu + 1 /\ near u v = true.
Proof. intros g. apply add_cand_edges_In, compute_nfd_spec. Qed.

(* no link across a gap: an edge never joins frames that are not consecutive;
   no missing link after a gap: any near pair in consecutive frames is linked, whatever lies before *)
Corollary cand_edges_gap : forall g u v nu nv,
  NoDup (map n_id g) -> In nu g -> In nv g -> n_id nu = u -> n_id nv = v ->
  (In (u, v) (add_cand_edges near g (compute_nfd g)) -> n_time nv = n_time nu + 1) /\
  (n_time nv = n_time nu + 1 -> near u v = true -> In (u, v) (add_cand_edges near g (compute_nfd g))).
Proof.
  intros g u v nu nv Hnd Hnu Hnv Eu Ev. split.
  - intros H. apply cand_edges_spec in H. destruct H as (nu' & nv' & Hnu' & Hnv' & Eu' & Ev' & Et & _).
    assert (forall a b, In a g -> In b g -> n_id a = n_id b -> a = b) as Inj.
    { clear -Hnd. induction g as [|x g IH]; cbn [map] in Hnd; intros a b Ha Hb E; [destruct Ha|].
      inversion Hnd as [|? ? Hx Hg]; subst.
      destruct Ha as [<-|Ha]; destruct Hb as [<-|Hb]; auto.
      - exfalso. apply Hx. rewrite E. now apply in_map.
      - exfalso. apply Hx. rewrite <- E. now apply in_map. }
    rewrite (Inj nu nu') , (Inj nv nv'); try assumption; congruence.
  - intros Et Hn. apply cand_edges_spec. exists nu, nv. auto 10.
Qed.
End Edges.

(* ------------------------------------------------------------------ *)
(* generic list facts                                                  *)
(* ------------------------------------------------------------------ *)
Lemma NoDup_app_iff {A} (a b : list A) :
  NoDup (a ++ b) <-> NoDup a /\ NoDup b /\ (forall x, In x a -> ~ In x b).
Proof.
  induction a as [|x a IH]; cbn [app].
  - split; [intros H; repeat split; [constructor|assumption|intros x []]|tauto].
  - split.
    + intros H. inversion H as [|? ? Hx Hab]; subst. apply IH in Hab. destruct Hab as (Ha & Hb & Hd).
      repeat split; [constructor; [intros Hin; apply Hx, in_or_app; now left|assumption]|assumption|].
      intros y [<-|Hy] Hyb; [apply Hx, in_or_app; now right|exact (Hd y Hy Hyb)].
    + intros (Ha & Hb & Hd). inversion Ha as [|? ? Hx Ha']; subst. constructor.
      * intros Hin. apply in_app_or in Hin. destruct Hin as [Hin|Hin]; [contradiction|].
        apply (Hd x); [now left|assumption].
      * apply IH. repeat split; [assumption|assumption|]. intros y Hy. apply Hd. now right.
Qed.

Lemma NoDup_ids_inj (g : graph) : NoDup (map n_id g) ->
  forall a b, In a g -> In b g -> n_id a = n_id b -> a = b.
Proof.
  induction g as [|x g IH]; cbn [map]; intros Hnd a b Ha Hb E; [destruct Ha|].
  inversion Hnd as [|? ? Hx Hg]; subst.
  destruct Ha as [<-|Ha]; destruct Hb as [<-|Hb]; auto.
  - exfalso. apply Hx. rewrite E. now apply in_map.
  - exfalso. apply Hx. rewrite <- E. now apply in_map.
Qed.

(* ------------------------------------------------------------------ *)
(* positions and the exact distance test                               *)
(* ------------------------------------------------------------------ *)
Lemma pos_of_In g n : NoDup (map n_id g) -> In n g -> pos_of g (n_id n) = n_pos n.
Proof.
  intros Hnd Hn. unfold pos_of.
  destruct (find (fun m => n_id m =? n_id n) g) as [m|] eqn:F.
  - apply find_some in F. destruct F as [Hm E]. apply Z.eqb_eq in E.
    now rewrite (NoDup_ids_inj g Hnd m n Hm Hn E).
  - exfalso. apply (find_none _ _ F) in Hn. rewrite Z.eqb_refl in Hn. discriminate.
Qed.

(* ------------------------------------------------------------------ *)
(* nodes_from_points_list                                              *)
(* ------------------------------------------------------------------ *)
Fixpoint enum_nodes (i : Z) (pts : list (list Z)) : graph :=
  match pts with
  | [] => []
  | p :: r => mk_point_node i p :: enum_nodes (i + 1) r
  end.

Lemma points_loop_eq : forall pts i g d,
  points_loop i pts g d =
  (g ++ enum_nodes i pts, fold_left (fun d n => nfd_extend (n_time n) [n_id n] d) (enum_nodes i pts) d).
Proof.
  induction pts as [|p r IH]; intros i g d; cbn [points_loop enum_nodes fold_left].
  - now rewrite app_nil_r.
  - rewrite IH, <- app_assoc. reflexivity.
Qed.

Lemma enum_nodes_nth : forall pts i k,
  nth_error (enum_nodes i pts) k = option_map (mk_point_node (i + Z.of_nat k)) (nth_error pts k).
Proof.
  induction pts as [|p r IH]; intros i k; cbn [enum_nodes].
  - destruct k; reflexivity.
  - destruct k as [|k]; cbn [nth_error option_map].
    + now rewrite Z.add_0_r.
    + rewrite IH. replace (i + 1 + Z.of_nat k) with (i + Z.of_nat (S k)) by lia. reflexivity.
Qed.

Lemma enum_nodes_length pts i : length (enum_nodes i pts) = length pts.
Proof. revert i; induction pts as [|p r IH]; intros i; cbn [enum_nodes length]; [reflexivity|]. now rewrite IH. Qed.

Lemma enum_nodes_ids : forall pts i x, In x (map n_id (enum_nodes i pts)) -> i <= x.
Proof.
  induction pts as [|p r IH]; intros i x; cbn [enum_nodes map In]; [intros []|].
  intros [<-|H]; [cbn; lia|]. apply IH in H. lia.
Qed.

Lemma enum_nodes_NoDup : forall pts i, NoDup (map n_id (enum_nodes i pts)).
Proof.
  induction pts as [|p r IH]; intros i; cbn [enum_nodes map]; constructor; [|apply IH].
  intros H. apply enum_nodes_ids in H. cbn in H. lia.
Qed.

Fixpoint zipmul (p s : list Z) : list Z :=
  match p, s with
  | x :: p', y :: s' => x * y :: zipmul p' s'
  | _, _ => []
  end.

Lemma scale_point_zipmul s p : scale_point (Some s) p = zipmul p s.
Proof.
  unfold scale_point. revert s; induction p as [|x p IH]; intros [|y s]; cbn [combine map zipmul fst snd]; try reflexivity.
  now rewrite IH.
Qed.

Theorem nodes_from_points_spec : forall sc pts g d,
  nodes_from_points_list sc pts = Some (g, d) ->
  length g = length pts /\
  (forall k p, nth_error pts k = Some p ->
     nth_error g k = Some (mk_point_node (Z.of_nat k) (scale_point sc p))) /\
  NoDup (map n_id g) /\
  d = compute_nfd g.
Proof.
  intros sc pts g d. unfold nodes_from_points_list.
  destruct (match sc with None => true | Some s => forallb _ pts end); [|discriminate].
  rewrite points_loop_eq. cbn [app]. intros E. injection E as <- <-.
  repeat split.
  - now rewrite enum_nodes_length, map_length.
  - intros k p Hk. rewrite enum_nodes_nth, nth_error_map, Hk. reflexivity.
  - apply enum_nodes_NoDup.
Qed.

Theorem nodes_from_points_error : forall sc pts,
  nodes_from_points_list sc pts = None <->
  exists s p, sc = Some s /\ In p pts /\ length p <> length s.
Proof.
  intros sc pts. unfold nodes_from_points_list. destruct sc as [s|].
  - destruct (forallb (fun p => Nat.eqb (length p) (length s)) pts) eqn:F.
    + split; [discriminate|]. intros (s' & p & E & Hp & Hl). injection E as <-.
      rewrite forallb_forall in F. apply F in Hp. apply Nat.eqb_eq in Hp. contradiction.
    + split; [intros _|reflexivity].
      assert (exists p, In p pts /\ Nat.eqb (length p) (length s) = false) as (p & Hp & Hl).
      { clear -F. induction pts as [|q r IH]; cbn [forallb] in F; [discriminate|].
        apply andb_false_iff in F. destruct F as [F|F].
        - exists q. split; [now left|assumption].
        - destruct (IH F) as (p & Hp & Hl). exists p. split; [now right|assumption]. }
      exists s, p. repeat split; [assumption|]. now apply Nat.eqb_neq.
  - split; [discriminate|]. intros (s & p & E & _). discriminate.
Qed.

(* the whole point-list pipeline with the exact squared-distance test *)
Theorem points_graph_edges : forall d2max sc pts g e,
  compute_graph_from_points_list d2max sc pts = Some (g, e) ->
  forall u v, In (u, v) e <->
    exists nu nv, In nu g /\ In nv g /\ n_id nu = u /\ n_id nv = v /\
                  n_time nv = n_time nu + 1 /\ dist2 (n_pos nu) (n_pos nv) <= d2max.
Proof.
  intros d2max sc pts g e. unfold compute_graph_from_points_list.
  destruct (nodes_from_points_list sc pts) as [[g0 d0]|] eqn:N; [|discriminate].
  intros E. injection E as <- <-.
  destruct (nodes_from_points_spec _ _ _ _ N) as (_ & _ & Hnd & ->).
  intros u v. rewrite cand_edges_spec. split.
  - intros (nu & nv & Hnu & Hnv & <- & <- & Et & Hn). exists nu, nv. repeat split; try assumption.
    unfold near_pos in Hn. rewrite !pos_of_In in Hn by assumption. now apply Z.leb_le.
  - intros (nu & nv & Hnu & Hnv & <- & <- & Et & Hn). exists nu, nv. repeat split; try assumption.
    unfold near_pos. rewrite !pos_of_In by assumption. now apply Z.leb_le.
Qed.

Theorem graph_edges_exact : forall d2max g, NoDup (map n_id g) ->
  forall u v, In (u, v) (add_cand_edges_graph d2max g) <->
    exists nu nv, In nu g /\ In nv g /\ n_id nu = u /\ n_id nv = v /\
                  n_time nv = n_time nu + 1 /\ dist2 (n_pos nu) (n_pos nv) <= d2max.
Proof.
  intros d2max g Hnd u v. unfold add_cand_edges_graph, add_cand_edges.
  rewrite (edges_of_spec _ g _ (compute_nfd_spec g)). split.
  - intros (nu & nv & Hnu & Hnv & <- & <- & Et & Hn). exists nu, nv. repeat split; try assumption.
    unfold near_pos in Hn. rewrite !pos_of_In in Hn by assumption. now apply Z.leb_le.
  - intros (nu & nv & Hnu & Hnv & <- & <- & Et & Hn). exists nu, nv. repeat split; try assumption.
    unfold near_pos. rewrite !pos_of_In by assumption. now apply Z.leb_le.
Qed.

(* ------------------------------------------------------------------ *)
(* nodes_from_segmentation                                             *)
(* ------------------------------------------------------------------ *)
Lemma frame_labels_In l f : In l (frame_labels f) <-> 0 < l /\ In l f.
Proof.
  unfold frame_labels. rewrite sort_In, nodup_In, filter_In, Z.ltb_lt. tauto.
Qed.

Lemma frame_labels_NoDup f : NoDup (frame_labels f).
Proof. unfold frame_labels. apply sort_NoDup, NoDup_nodup. Qed.

(* the nodes of a label array, frame by frame *)
Fixpoint seg_nodes (t : Z) (fs : list (list Z)) : graph :=
  match fs with
  | [] => []
  | f :: r => map (mk_seg_node t f) (frame_labels f) ++ seg_nodes (t + 1) r
  end.

Lemma seg_node_ids t f labs : map n_id (map (mk_seg_node t f) labs) = labs.
Proof. rewrite map_map. cbn. apply map_id. Qed.

Lemma add_frame_nodes_some t f : forall labs g g',
  add_frame_nodes t f labs g = Some g' -> g' = g ++ map (mk_seg_node t f) labs.
Proof.
  induction labs as [|l r IH]; intros g g'; cbn [add_frame_nodes map].
  - intros E. injection E as <-. now rewrite app_nil_r.
  - destruct (existsb (fun n => n_id n =? l) g); [discriminate|].
    intros E. apply IH in E. rewrite E, <- app_assoc. reflexivity.
Qed.

Lemma existsb_id g l : existsb (fun n => n_id n =? l) g = true <-> In l (map n_id g).
Proof.
  rewrite existsb_exists, in_map_iff. split.
  - intros (n & Hn & E). apply Z.eqb_eq in E. eauto.
  - intros (n & E & Hn). exists n. split; [assumption|now apply Z.eqb_eq].
Qed.

Lemma add_frame_nodes_none t f : forall labs g, NoDup labs ->
  (add_frame_nodes t f labs g = None <-> exists l, In l labs /\ In l (map n_id g)).
Proof.
  induction labs as [|l r IH]; intros g Hnd; cbn [add_frame_nodes].
  - split; [discriminate|]. intros (l & [] & _).
  - inversion Hnd as [|? ? Hl Hr]; subst.
    destruct (existsb (fun n => n_id n =? l) g) eqn:Ex.
    + split; [intros _|reflexivity]. exists l. split; [now left|now apply existsb_id].
    + rewrite (IH _ Hr). split.
      * intros (l' & Hl' & Hin). rewrite map_app in Hin. apply in_app_or in Hin.
        destruct Hin as [Hin|[<-|[]]]; [exists l'; split; [now right|assumption]|contradiction].
      * intros (l' & [<-|Hl'] & Hin).
        -- apply existsb_id in Hin. congruence.
        -- exists l'. split; [assumption|]. rewrite map_app. apply in_or_app. now left.
Qed.

Lemma dict_in_cond_extend t labs d t' u :
  dict_in (match labs with [] => d | _ => nfd_extend t labs d end) t' u <->
  dict_in d t' u \/ (t' = t /\ In u labs).
Proof.
  destruct labs as [|l r]; [|apply dict_in_extend].
  split; [auto|]. intros [H|[_ []]]. exact H.
Qed.

Lemma seg_loop_some : forall fs t g d g' d',
  seg_loop t fs g d = Some (g', d') ->
  g' = g ++ seg_nodes t fs /\
  (forall t' u, dict_in d' t' u <->
     dict_in d t' u \/ exists n, In n (seg_nodes t fs) /\ n_id n = u /\ n_time n = t').
Proof.
  induction fs as [|f r IH]; intros t g d g' d'; cbn [seg_loop seg_nodes].
  - intros E. injection E as <- <-. rewrite app_nil_r. split; [reflexivity|].
    intros t' u. split; [auto|]. intros [H|(n & [] & _)]. exact H.
  - destruct (add_frame_nodes t f (frame_labels f) g) as [g1|] eqn:A; [|discriminate].
    apply add_frame_nodes_some in A. subst g1. intros E. apply IH in E. destruct E as [-> Hd].
    split; [now rewrite <- app_assoc|].
    intros t' u. rewrite Hd, dict_in_cond_extend. split.
    + intros [[H|[-> Hu]]|(n & Hn & E1 & E2)].
      * now left.
      * right. exists (mk_seg_node t f u). split; [|split; reflexivity].
        apply in_or_app. left. now apply in_map.
      * right. exists n. split; [apply in_or_app; now right|auto].
    + intros [H|(n & Hn & E1 & E2)]; [now left; left|].
      apply in_app_or in Hn. destruct Hn as [Hn|Hn].
      * apply in_map_iff in Hn. destruct Hn as (l & <- & Hl). cbn in E1, E2. subst. left; right; auto.
      * right. eauto.
Qed.

Lemma seg_loop_ok : forall fs t g d, NoDup (map n_id g) ->
  (seg_loop t fs g d <> None <-> NoDup (map n_id (g ++ seg_nodes t fs))).
Proof.
  induction fs as [|f r IH]; intros t g d Hg; cbn [seg_loop seg_nodes].
  - rewrite app_nil_r. split; [auto|discriminate].
  - destruct (add_frame_nodes t f (frame_labels f) g) as [g1|] eqn:A.
    + pose proof A as A'. apply add_frame_nodes_some in A'. subst g1.
      assert (NoDup (map n_id (g ++ map (mk_seg_node t f) (frame_labels f)))) as Hg1.
      { rewrite map_app, seg_node_ids. apply NoDup_app_iff. repeat split; [assumption|apply frame_labels_NoDup|].
        intros x Hx Hl.
        assert (add_frame_nodes t f (frame_labels f) g = None) as C
          by (apply add_frame_nodes_none; [apply frame_labels_NoDup|eauto]).
        congruence. }
      rewrite (IH _ _ _ Hg1), <- app_assoc. reflexivity.
    + split; [congruence|]. intros Hnd _.
      apply add_frame_nodes_none in A; [|apply frame_labels_NoDup]. destruct A as (l & Hl & Hin).
      rewrite map_app in Hnd. apply NoDup_app_iff in Hnd. destruct Hnd as (_ & _ & Hd).
      apply (Hd l Hin). rewrite map_app, seg_node_ids. apply in_or_app. now left.
Qed.

Lemma seg_nodes_ids : forall fs t, map n_id (seg_nodes t fs) = flat_map frame_labels fs.
Proof.
  induction fs as [|f r IH]; intros t; cbn [seg_nodes flat_map map]; [reflexivity|].
  now rewrite map_app, seg_node_ids, IH.
Qed.

Lemma seg_nodes_In : forall fs t n,
  In n (seg_nodes t fs) <->
  exists k f l, nth_error fs k = Some f /\ 0 < l /\ In l f /\ n = mk_seg_node (t + Z.of_nat k) f l.
Proof.
  induction fs as [|f r IH]; intros t n; cbn [seg_nodes].
  - split; [intros []|]. intros (k & f & l & E & _). destruct k; discriminate.
  - rewrite in_app_iff, IH, in_map_iff. split.
    + intros [(l & <- & Hl)|(k & f' & l & E & Hl & Hin & ->)].
      * apply frame_labels_In in Hl. exists O, f, l. rewrite Z.add_0_r. cbn. tauto.
      * exists (S k), f', l. cbn [nth_error]. replace (t + Z.of_nat (S k)) with (t + 1 + Z.of_nat k) by lia. tauto.
    + intros (k & f' & l & E & Hl & Hin & ->). destruct k as [|k]; cbn [nth_error] in E.
      * injection E as <-. left. exists l. rewrite Z.add_0_r. split; [reflexivity|]. apply frame_labels_In. tauto.
      * right. exists k, f', l. replace (t + 1 + Z.of_nat k) with (t + Z.of_nat (S k)) by lia. tauto.
Qed.

(* labels are unique across frames (positive labels; regionprops ignores the others) *)
Definition unique_labels (fs : list (list Z)) : Prop :=
  forall k1 k2 f1 f2 l, nth_error fs k1 = Some f1 -> nth_error fs k2 = Some f2 ->
    0 < l -> In l f1 -> In l f2 -> k1 = k2.

Lemma in_flat_labels fs l :
  In l (flat_map frame_labels fs) <-> exists k f, nth_error fs k = Some f /\ 0 < l /\ In l f.
Proof.
  rewrite in_flat_map. split.
  - intros (f & Hf & Hl). apply In_nth_error in Hf. destruct Hf as (k & Hk).
    apply frame_labels_In in Hl. eauto.
  - intros (k & f & Hk & Hl). exists f. split; [eapply nth_error_In; eauto|now apply frame_labels_In].
Qed.

Lemma unique_labels_NoDup fs : unique_labels fs <-> NoDup (flat_map frame_labels fs).
Proof.
  induction fs as [|f r IH]; cbn [flat_map].
  - split; [constructor|]. intros _ k1 k2 f1 f2 l E. destruct k1; discriminate.
  - rewrite NoDup_app_iff, <- IH. split.
    + intros U. repeat split; [apply frame_labels_NoDup| |].
      * intros k1 k2 f1 f2 l E1 E2 Hl H1 H2.
        specialize (U (S k1) (S k2) f1 f2 l E1 E2 Hl H1 H2). congruence.
      * intros l Hl Hin. apply frame_labels_In in Hl. apply in_flat_labels in Hin.
        destruct Hin as (k & f2 & Hk & _ & H2).
        specialize (U O (S k) f f2 l eq_refl Hk (proj1 Hl) (proj2 Hl) H2). discriminate.
    + intros (_ & U & Hd) k1 k2 f1 f2 l E1 E2 Hl H1 H2.
      destruct k1 as [|k1]; destruct k2 as [|k2]; cbn [nth_error] in E1, E2.
      * reflexivity.
      * injection E1 as <-. exfalso. apply (Hd l); [now apply frame_labels_In|].
        apply in_flat_labels. eauto.
      * injection E2 as <-. exfalso. apply (Hd l); [now apply frame_labels_In|].
        apply in_flat_labels. eauto.
      * f_equal. eapply U; eauto.
Qed.

Theorem nodes_from_seg_ok : forall fs, nodes_from_segmentation fs <> None <-> unique_labels fs.
Proof.
  intros fs. unfold nodes_from_segmentation.
  rewrite (seg_loop_ok fs 0 [] [] ltac:(constructor)). cbn [app].
  now rewrite seg_nodes_ids, unique_labels_NoDup.
Qed.

Theorem nodes_from_seg_spec : forall fs g d,
  nodes_from_segmentation fs = Some (g, d) ->
  (forall n, In n g <->
     exists k f l, nth_error fs k = Some f /\ 0 < l /\ In l f /\
                   n = {| n_id := l; n_time := Z.of_nat k; n_pos := []; n_area := count l f |}) /\
  NoDup (map n_id g) /\
  nfd_spec g d.
Proof.
  intros fs g d E.
  assert (nodes_from_segmentation fs <> None) as Hok by congruence.
  unfold nodes_from_segmentation in *.
  apply seg_loop_some in E. cbn [app] in E. destruct E as [-> Hd].
  repeat split.
  - intros H. apply seg_nodes_In in H. exact H.
  - intros H. apply seg_nodes_In. exact H.
  - apply (seg_loop_ok fs 0 [] [] ltac:(constructor)) in Hok. exact Hok.
  - intros (ids & Hget & Hin).
    assert (dict_in d t u) as H by (exists ids; auto).
    apply Hd in H. destruct H as [H|H]; [destruct (dict_in_nil _ _ H)|exact H].
  - intros H. apply Hd. now right.
Qed.

(* edges of the segmentation pipeline *)
Theorem seg_graph_edges : forall near iou fs g e ious,
  compute_graph_from_seg near iou fs = Some (g, e, ious) ->
  forall u v, In (u, v) e <->
    exists nu nv, In nu g /\ In nv g /\ n_id nu = u /\ n_id nv = v /\
                  n_time nv = n_time nu + 1 /\ near u v = true.
Proof.
  intros near iou fs g e ious. unfold compute_graph_from_seg.
  destruct (nodes_from_segmentation fs) as [[g0 d0]|] eqn:N; [|discriminate].
  intros E. injection E as <- <- _.
  destruct (nodes_from_seg_spec _ _ _ N) as (_ & _ & Hs).
  apply add_cand_edges_In. exact Hs.
Qed.

(* ------------------------------------------------------------------ *)
(* IoU                                                                 *)
(* ------------------------------------------------------------------ *)
(* number of positions p with f1[p] = l1 and f2[p] = l2 *)
Fixpoint inter (l1 l2 : Z) (f1 f2 : list Z) : Z :=
  match f1, f2 with
  | a :: r1, b :: r2 => (if (a =? l1) && (b =? l2) then 1 else 0) + inter l1 l2 r1 r2
  | _, _ => 0
  end.
(* the value the property demands: |A n B| / |A u B| as an exact fraction; 0/1 without overlap *)
Definition iou_value (l1 l2 : Z) (f1 f2 : list Z) : Z * Z :=
  let i := inter l1 l2 f1 f2 in
  if i =? 0 then (0, 1) else (i, count l1 f1 + count l2 f2 - i).

Lemma pair_eqb_eq a b : pair_eqb a b = true <-> a = b.
Proof.
  destruct a as [a1 a2], b as [b1 b2]. unfold pair_eqb. cbn [fst snd].
  rewrite andb_true_iff, !Z.eqb_eq. split; [intros [-> ->]; reflexivity|intros E; injection E; auto].
Qed.

Lemma inter_nonneg l1 l2 : forall f1 f2, 0 <= inter l1 l2 f1 f2.
Proof.
  induction f1 as [|a r1 IH]; intros [|b r2]; cbn [inter]; try lia.
  specialize (IH r2). destruct ((a =? l1) && (b =? l2)); lia.
Qed.

Lemma inter_pos_In l1 l2 : forall f1 f2, 0 < inter l1 l2 f1 f2 -> In l1 f1 /\ In l2 f2.
Proof.
  induction f1 as [|a r1 IH]; intros [|b r2]; cbn [inter]; try lia.
  intros H. destruct ((a =? l1) && (b =? l2)) eqn:E.
  - apply andb_true_iff in E. destruct E as [E1 E2]. apply Z.eqb_eq in E1, E2. subst. split; now left.
  - destruct (IH r2 ltac:(lia)). split; now right.
Qed.

Lemma overlap_count l1 l2 : l1 <> 0 -> l2 <> 0 -> forall f1 f2,
  Z.of_nat (count_occ pair_dec (overlap_pairs f1 f2) (l1, l2)) = inter l1 l2 f1 f2.
Proof.
  intros H1 H2. induction f1 as [|a r1 IH]; intros [|b r2]; try reflexivity.
  unfold overlap_pairs in *. cbn [combine filter inter fst snd]. specialize (IH r2).
  destruct (Z.eqb_spec a l1) as [->|Ha]; destruct (Z.eqb_spec b l2) as [->|Hb]; cbn [andb].
  - destruct (Z.eqb_spec l1 0); [contradiction|]. destruct (Z.eqb_spec l2 0); [contradiction|]. cbn [negb andb].
    rewrite count_occ_cons_eq by reflexivity. lia.
  - destruct (negb (l1 =? 0) && negb (b =? 0)); [rewrite count_occ_cons_neq by congruence|]; lia.
  - destruct (negb (a =? 0) && negb (l2 =? 0)); [rewrite count_occ_cons_neq by congruence|]; lia.
  - destruct (negb (a =? 0) && negb (b =? 0)); [rewrite count_occ_cons_neq by congruence|]; lia.
Qed.

Lemma overlap_nonzero f1 f2 pr : In pr (overlap_pairs f1 f2) -> fst pr <> 0 /\ snd pr <> 0.
Proof.
  unfold overlap_pairs. rewrite filter_In, andb_true_iff, !negb_true_iff, !Z.eqb_neq. tauto.
Qed.

Theorem compute_ious_spec : forall f1 f2 l1 l2 x,
  In ((l1, l2), x) (compute_ious f1 f2) <->
  l1 <> 0 /\ l2 <> 0 /\ 0 < inter l1 l2 f1 f2 /\
  x = (inter l1 l2 f1 f2, count l1 f1 + count l2 f2 - inter l1 l2 f1 f2).
Proof.
  intros f1 f2 l1 l2 x. unfold compute_ious. rewrite in_map_iff. split.
  - intros (pr & E & Hpr). apply nodup_In in Hpr. injection E as -> <-.
    destruct (overlap_nonzero _ _ _ Hpr) as [H1 H2]. cbn [fst snd] in *.
    rewrite (overlap_count l1 l2 H1 H2). repeat split; try assumption.
    rewrite <- (overlap_count l1 l2 H1 H2).
    apply (count_occ_In pair_dec) in Hpr. lia.
  - intros (H1 & H2 & Hpos & ->). exists (l1, l2). cbn [fst snd].
    rewrite (overlap_count l1 l2 H1 H2). split; [reflexivity|].
    apply nodup_In. apply (count_occ_In pair_dec).
    rewrite <- (overlap_count l1 l2 H1 H2) in Hpos. lia.
Qed.

Lemma compute_ious_keys f1 f2 : NoDup (map fst (compute_ious f1 f2)).
Proof.
  unfold compute_ious. rewrite map_map. cbn [fst]. rewrite map_id. apply NoDup_nodup.
Qed.

Lemma iou_get_unique d u v x :
  In ((u, v), x) d -> (forall y, In ((u, v), y) d -> y = x) -> iou_get u v d = x.
Proof.
  intros Hin Hu. unfold iou_get.
  destruct (find (fun e => pair_eqb (fst e) (u, v)) (rev d)) as [e|] eqn:F.
  - apply find_some in F. destruct F as [He E]. apply pair_eqb_eq in E.
    apply in_rev in He. destruct e as [k y]. cbn [fst snd] in *. subst k. now apply Hu.
  - exfalso. apply in_rev in Hin. apply (find_none _ _ F) in Hin. cbn [fst] in Hin.
    assert (pair_eqb (u, v) (u, v) = true) by now apply pair_eqb_eq. congruence.
Qed.

Lemma iou_get_none d u v : (forall y, ~ In ((u, v), y) d) -> iou_get u v d = (0, 1).
Proof.
  intros Hn. unfold iou_get.
  destruct (find (fun e => pair_eqb (fst e) (u, v)) (rev d)) as [e|] eqn:F; [|reflexivity].
  exfalso. apply find_some in F. destruct F as [He E]. apply pair_eqb_eq in E.
  apply in_rev in He. destruct e as [k y]. cbn [fst] in E. subst k. exact (Hn y He).
Qed.

(* C18_iou on two flat frames *)
Theorem iou_two_frames : forall f1 f2 l1 l2,
  length f1 = length f2 -> l1 <> 0 -> l2 <> 0 ->
  iou_get l1 l2 (compute_ious f1 f2) = iou_value l1 l2 f1 f2 /\
  (inter l1 l2 f1 f2 = 0 <-> forall x, ~ In ((l1, l2), x) (compute_ious f1 f2)).
Proof.
  intros f1 f2 l1 l2 _ H1 H2. unfold iou_value. cbv zeta.
  pose proof (inter_nonneg l1 l2 f1 f2) as Hnn.
  destruct (Z.eqb_spec (inter l1 l2 f1 f2) 0) as [E0|Hne].
  - assert (forall x, ~ In ((l1, l2), x) (compute_ious f1 f2)) as Hn.
    { intros x Hx. apply compute_ious_spec in Hx. lia. }
    split; [now apply iou_get_none|tauto].
  - split.
    + apply iou_get_unique.
      * apply compute_ious_spec. repeat split; try assumption. lia.
      * intros y Hy. apply compute_ious_spec in Hy. tauto.
    + split; [contradiction|]. intros Hn. exfalso.
      apply (Hn (inter l1 l2 f1 f2, count l1 f1 + count l2 f2 - inter l1 l2 f1 f2)).
      apply compute_ious_spec. repeat split; try assumption. lia.
Qed.

Lemma get_iou_dict_In : forall fs e,
  In e (get_iou_dict fs) <->
  exists k f1 f2, nth_error fs k = Some f1 /\ nth_error fs (S k) = Some f2 /\ In e (compute_ious f1 f2).
Proof.
  induction fs as [|f1 r IH]; intros e.
  - cbn. split; [intros []|]. intros (k & ? & ? & E & _). destruct k; discriminate.
  - destruct r as [|f2 r'].
    + cbn [get_iou_dict]. split; [intros []|]. intros (k & ? & ? & _ & E & _).
      destruct k as [|[|k]]; discriminate.
    + change (get_iou_dict (f1 :: f2 :: r')) with (compute_ious f1 f2 ++ get_iou_dict (f2 :: r')).
      rewrite in_app_iff, IH. split.
      * intros [H|(k & a & b & E1 & E2 & H)]; [exists O, f1, f2; auto|].
        exists (S k), a, b. auto.
      * intros (k & a & b & E1 & E2 & H). destruct k as [|k].
        -- cbn in E1, E2. injection E1 as <-. injection E2 as <-. now left.
        -- right. exists k, a, b. auto.
Qed.

(* with labels unique across frames the merged dict answers with the overlap in the right frame pair *)
Lemma iou_get_frames : forall fs k f1 f2 u v,
  unique_labels fs -> nth_error fs k = Some f1 -> nth_error fs (S k) = Some f2 ->
  0 < u -> In u f1 -> v <> 0 ->
  iou_get u v (get_iou_dict fs) = iou_value u v f1 f2.
Proof.
  intros fs k f1 f2 u v U E1 E2 Hu Hin Hv.
  assert (forall y, In ((u, v), y) (get_iou_dict fs) -> In ((u, v), y) (compute_ious f1 f2)) as Hloc.
  { intros y Hy. apply get_iou_dict_In in Hy. destruct Hy as (k' & a & b & Ea & Eb & Hy).
    pose proof Hy as Hy'. apply compute_ious_spec in Hy'. destruct Hy' as (_ & _ & Hpos & _).
    apply inter_pos_In in Hpos. destruct Hpos as [Hua _].
    assert (k' = k) as -> by (eapply U; eauto). congruence. }
  unfold iou_value. cbv zeta. pose proof (inter_nonneg u v f1 f2) as Hnn.
  destruct (Z.eqb_spec (inter u v f1 f2) 0) as [E0|Hne].
  - apply iou_get_none. intros y Hy. apply Hloc, compute_ious_spec in Hy. lia.
  - apply iou_get_unique.
    + apply get_iou_dict_In. exists k, f1, f2. repeat split; try assumption.
      apply compute_ious_spec. repeat split; try assumption; lia.
    + intros y Hy. apply Hloc, compute_ious_spec in Hy. tauto.
Qed.

Lemma existsb_pair e u v : existsb (pair_eqb (u, v)) e = true <-> In (u, v) e.
Proof.
  rewrite existsb_exists. split.
  - intros (x & Hx & E). apply pair_eqb_eq in E. now subst.
  - intros H. exists (u, v). split; [assumption|now apply pair_eqb_eq].
Qed.

Lemma add_iou_In e fs d u v x :
  In ((u, v), x) (add_iou e fs d) <->
  In (u, v) e /\ (exists t, dict_in d t u /\ dict_in d (t + 1) v) /\ x = iou_get u v (get_iou_dict fs).
Proof.
  unfold add_iou. cbv zeta. rewrite in_flat_map. split.
  - intros (t & _ & H).
    destruct (nfd_get (t + 1) d) as [next|] eqn:G1; [|destruct H].
    destruct (nfd_get t d) as [prev|] eqn:G0; [|destruct H].
    apply in_flat_map in H. destruct H as (u' & Hu' & H).
    apply in_flat_map in H. destruct H as (v' & Hv' & H).
    destruct (existsb (pair_eqb (u', v')) e) eqn:Ex; [|destruct H].
    destruct H as [H|[]]. injection H as -> -> <-.
    apply existsb_pair in Ex. repeat split; [assumption|].
    exists t. unfold dict_in. rewrite G0, G1. split; [exists prev; auto|exists next; auto].
  - intros (He & (t & (prev & G0 & Hu) & (next & G1 & Hv)) & ->). exists t. split.
    + apply sort_In, nfd_get_key. congruence.
    + rewrite G1, G0. apply in_flat_map. exists u. split; [assumption|].
      apply in_flat_map. exists v. split; [assumption|].
      apply existsb_pair in He. rewrite He. now left.
Qed.

(* C18_iou on the pipeline: every edge gets exactly one iou value, the true overlap *)
Theorem seg_graph_iou : forall near fs g e ious,
  (forall f f', In f fs -> In f' fs -> length f = length f') ->
  compute_graph_from_seg near true fs = Some (g, e, ious) ->
  forall u v, In (u, v) e ->
    exists k f1 f2, nth_error fs k = Some f1 /\ nth_error fs (S k) = Some f2 /\
      0 < u /\ 0 < v /\ In u f1 /\ In v f2 /\
      forall x, In ((u, v), x) ious <-> x = iou_value u v f1 f2.
Proof.
  intros near fs g e ious _ C u v He.
  pose proof (seg_graph_edges _ _ _ _ _ _ C u v) as Hedge.
  unfold compute_graph_from_seg in C.
  destruct (nodes_from_segmentation fs) as [[g0 d0]|] eqn:N; [|discriminate].
  injection C as <- <- <-.
  assert (unique_labels fs) as U by (apply nodes_from_seg_ok; congruence).
  destruct (nodes_from_seg_spec _ _ _ N) as (Hg & _ & Hs).
  pose proof He as He0.
  apply Hedge in He. destruct He as (nu & nv & Hnu & Hnv & Eu & Ev & Et & _).
  pose proof Hnu as Hnu'. pose proof Hnv as Hnv'.
  apply Hg in Hnu'. destruct Hnu' as (k & f1 & l1 & E1 & Hl1 & Hin1 & ->).
  apply Hg in Hnv'. destruct Hnv' as (k2 & f2 & l2 & E2 & Hl2 & Hin2 & ->).
  cbn [n_id n_time] in *. subst l1 l2.
  assert (k2 = S k) as -> by lia.
  exists k, f1, f2. repeat split; try assumption.
  - intros Hx. apply add_iou_In in Hx. destruct Hx as (_ & _ & ->).
    apply (iou_get_frames fs k); try assumption. lia.
  - intros ->. apply add_iou_In. repeat split.
    + exact He0.
    + exists (Z.of_nat k). split; apply Hs.
      * eexists. split; [exact Hnu|]. split; reflexivity.
      * eexists. split; [exact Hnv|]. split; [reflexivity|]. cbn [n_time]. lia.
    + symmetry. apply (iou_get_frames fs k); try assumption. lia.
Qed.

Theorem seg_graph_no_iou : forall near fs g e ious,
  compute_graph_from_seg near false fs = Some (g, e, ious) -> ious = [].
Proof.
  intros near fs g e ious. unfold compute_graph_from_seg.
  destruct (nodes_from_segmentation fs) as [[g0 d0]|]; [|discriminate].
  intros E. now injection E as _ _ <-.
Qed.

(* ------------------------------------------------------------------ *)
(* statements in the form used by Props/C18.v                          *)
(* ------------------------------------------------------------------ *)
Lemma add_cand_edges_none near g : add_cand_edges near g [] = add_cand_edges near g (compute_nfd g).
Proof. unfold add_cand_edges. destruct (compute_nfd g); reflexivity. Qed.

Theorem cand_edges_spec_none : forall near g u v,
  In (u, v) (add_cand_edges near g []) <->
  exists nu nv, In nu g /\ In nv g /\ n_id nu = u /\ n_id nv = v /\
                n_time nv = n_time nu + 1 /\ near u v = true.
Proof. intros near g u v. rewrite add_cand_edges_none. apply cand_edges_spec. Qed.

Lemma zipmul_nth : forall p s, length p = length s ->
  length (zipmul p s) = length p /\ forall j, nth j (zipmul p s) 0 = nth j p 0 * nth j s 0.
Proof.
  induction p as [|x p IH]; intros [|y s] L; cbn [length] in L; try discriminate.
  - split; [reflexivity|]. intros [|j]; reflexivity.
  - destruct (IH s ltac:(lia)) as [Hl Hn]. cbn [zipmul length]. split; [now rewrite Hl|].
    intros [|j]; cbn [nth]; [reflexivity|apply Hn].
Qed.

Theorem nodes_from_points_full : forall sc pts g d,
  nodes_from_points_list sc pts = Some (g, d) ->
  length g = length pts /\
  NoDup (map n_id g) /\
  d = compute_nfd g /\
  (sc = None -> forall k t pos, nth_error pts k = Some (t :: pos) ->
     nth_error g k = Some {| n_id := Z.of_nat k; n_time := t; n_pos := pos; n_area := 0 |}) /\
  (forall s, sc = Some s -> forall k t pos, nth_error pts k = Some (t :: pos) ->
     exists st ss, s = st :: ss /\ length pos = length ss /\
     nth_error g k = Some {| n_id := Z.of_nat k; n_time := t * st; n_pos := zipmul pos ss; n_area := 0 |}).
Proof.
  intros sc pts g d N.
  destruct (nodes_from_points_spec _ _ _ _ N) as (Hl & Hn & Hnd & Hd).
  repeat split; try assumption.
  - intros -> k t pos Hk. now rewrite (Hn _ _ Hk).
  - intros s -> k t pos Hk.
    assert (length (t :: pos) = length s) as L.
    { destruct (Nat.eq_dec (length (t :: pos)) (length s)) as [E|Hne]; [exact E|exfalso].
      assert (nodes_from_points_list (Some s) pts = None) as C.
      { apply nodes_from_points_error. exists s, (t :: pos). repeat split; [|assumption].
        eapply nth_error_In; eauto. }
      congruence. }
    destruct s as [|st ss]; [discriminate|]. exists st, ss. cbn [length] in L.
    repeat split; [lia|]. rewrite (Hn _ _ Hk), scale_point_zipmul. reflexivity.
Qed.

Theorem cand_edges_full : forall (near : Z -> Z -> bool) (g : graph) (u v : Z),
  (In (u, v) (add_cand_edges near g []) <->
   exists nu nv, In nu g /\ In nv g /\ n_id nu = u /\ n_id nv = v /\
                 n_time nv = n_time nu + 1 /\ near u v = true) /\
  (In (u, v) (add_cand_edges near g (compute_nfd g)) <-> In (u, v) (add_cand_edges near g [])).
Proof.
  intros near g u v. split; [exact (cand_edges_spec_none near g u v)|].
  rewrite (add_cand_edges_none near g). reflexivity.
Qed.
