(* Property C06: the TrackAnnotator lookups and the fresh-id counters agree with the graph.
   Preservation of W_book (and of W_dict where cheap) by the seven basic actions of
   Model/Edit.v, the three queries of solution_tracks.py, and the fresh-id theorems.
   No axioms are used. *)
From Coq Require Import ZArith List Bool Lia Permutation Sorted.
From FT Require Import Base.Dict Model.Edit Proofs.DictLemmas Proofs.EditInv Proofs.BookLemmas.
Import ListNotations.
Open Scope Z_scope.

(* ================================================================== *)
(* 0. reading the state                                                *)
(* ================================================================== *)
Lemma book_ok_bok st b idof mx : book_ok st b idof mx = bok (is_node st) b idof mx.
Proof. reflexivity. Qed.

Lemma has_node_is_node st n : has_node st n = true <-> is_node st n.
Proof. unfold has_node, is_node, node_ids. apply haskey_keys. Qed.
Lemma has_node_false st n : has_node st n = false <-> ~ is_node st n.
Proof. rewrite <- has_node_is_node. destruct (has_node st n); split; intros; congruence. Qed.

Lemma is_node_lookup st n : is_node st n <-> exists d, lookup n (nodes (g st)) = Some d.
Proof.
  unfold is_node, node_ids. rewrite <- haskey_keys. split; [apply haskey_lookup|].
  intros [d E]. eapply lookup_Some_haskey; eauto.
Qed.

Lemma attr_is_node st n k v : attr st n k = Some v -> is_node st n.
Proof.
  unfold attr, node_attrs, getd. intros H. apply is_node_lookup.
  destruct (lookup n (nodes (g st))) as [d|]; [now exists d|discriminate].
Qed.
Lemma zattr_is_node st n k z : zattr st n k = Some z -> is_node st n.
Proof. unfold zattr. destruct (attr st n k) as [v|] eqn:E; [|discriminate]. intros _. eapply attr_is_node; eauto. Qed.

Lemma zattr_VZ st n k z : attr st n k = Some (VZ z) -> zattr st n k = Some z.
Proof. unfold zattr. now intros ->. Qed.
Lemma zattr_inv st n k z : zattr st n k = Some z -> attr st n k = Some (VZ z).
Proof. unfold zattr. destruct (attr st n k) as [[]|]; try discriminate. now intros [= ->]. Qed.

Lemma edge_successors st u v : edge st u v <-> In v (successors st u).
Proof. unfold edge, has_edge, successors. apply haskey_keys. Qed.

(* W_book reads only the node dictionary and the books *)
Lemma W_book_ext st st' :
  (forall n, is_node st' n <-> is_node st n) ->
  (forall n, is_node st n -> trk st' n = trk st n) -> (forall n, is_node st n -> lin st' n = lin st n) ->
  bk st' = bk st -> W_book st -> W_book st'.
Proof.
  intros Hn Ht Hl Hb [H1 H2]. unfold W_book. rewrite !book_ok_bok in *. rewrite Hb. split.
  - eapply bok_ext; [|exact H1]. intros n T. rewrite Hn. split; intros [A B]; (split; [exact A|]).
    + now rewrite Ht.
    + now rewrite <- Ht.
  - eapply bok_ext; [|exact H2]. intros n T. rewrite Hn. split; intros [A B]; (split; [exact A|]).
    + now rewrite Hl.
    + now rewrite <- Hl.
Qed.

Lemma W_book_same st st' : nodes (g st') = nodes (g st) -> bk st' = bk st -> W_book st -> W_book st'.
Proof.
  intros E1 E2. apply W_book_ext; [| | |exact E2].
  - intros n. unfold is_node, node_ids. now rewrite E1.
  - intros n _. unfold trk, zattr, attr, node_attrs. now rewrite E1.
  - intros n _. unfold lin, zattr, attr, node_attrs. now rewrite E1.
Qed.

(* W_dict reads the node ids, the keys of the adjacency, the successor lists and the attributes *)
Lemma W_dict_ext st st' :
  node_ids st' = node_ids st -> keys (succs (g st')) = keys (succs (g st)) ->
  (forall u, successors st' u = successors st u) ->
  (forall n k, is_node st n -> (k = KTime \/ k = KTrack \/ k = KLin) ->
               forall z, attr st n k = Some (VZ z) -> exists z', attr st' n k = Some (VZ z')) ->
  (forall n, NoDup (keys (node_attrs st n)) -> NoDup (keys (node_attrs st' n))) ->
  W_dict st -> W_dict st'.
Proof.
  intros Hn Hk Hs Ha Hd W.
  assert (Hin : forall n, is_node st' n <-> is_node st n) by (intros n; unfold is_node; now rewrite Hn).
  assert (He : forall u v, edge st' u v <-> edge st u v) by (intros u v; rewrite !edge_successors; now rewrite Hs).
  constructor.
  - rewrite Hn. apply W.
  - rewrite Hk. apply W.
  - intros n. rewrite Hin, <- (wd_succ_keys st W n), !haskey_keys, Hk. tauto.
  - intros u. rewrite Hs. apply W.
  - intros u v. rewrite He, !Hin. apply W.
  - intros n Hi. apply Hin in Hi. destruct (wd_time st W n Hi) as [t Et]. eapply Ha; eauto.
  - intros n Hi. apply Hin in Hi. destruct (wd_track st W n Hi) as [t Et]. eapply Ha; eauto.
  - intros n Hi. apply Hin in Hi. destruct (wd_lin st W n Hi) as [t Et]. eapply Ha; eauto.
  - intros n. apply Hd. apply W.
Qed.

(* ================================================================== *)
(* 1. graph.nodes[n][k] = v                                            *)
(* ================================================================== *)
Lemma sna_notnode st n k v : ~ is_node st n -> set_node_attr st n k v = st.
Proof.
  intros H. unfold set_node_attr. destruct (lookup n (nodes (g st))) as [d|] eqn:E; [|reflexivity].
  exfalso. apply H. apply is_node_lookup. now exists d.
Qed.

Lemma sna_node_ids st n k v : node_ids (set_node_attr st n k v) = node_ids st.
Proof.
  unfold set_node_attr, node_ids. destruct (lookup n (nodes (g st))) as [d|] eqn:E; [|reflexivity].
  cbn. apply keys_set_in. eapply lookup_Some_keys; eauto.
Qed.
Lemma sna_succs st n k v : succs (g (set_node_attr st n k v)) = succs (g st).
Proof. unfold set_node_attr. destruct (lookup n (nodes (g st))); reflexivity. Qed.
Lemma sna_bk st n k v : bk (set_node_attr st n k v) = bk st.
Proof. unfold set_node_attr. destruct (lookup n (nodes (g st))); reflexivity. Qed.
Lemma sna_ft st n k v : ft (set_node_attr st n k v) = ft st.
Proof. unfold set_node_attr. destruct (lookup n (nodes (g st))); reflexivity. Qed.
Lemma sna_seg st n k v : seg (set_node_attr st n k v) = seg st.
Proof. unfold set_node_attr. destruct (lookup n (nodes (g st))); reflexivity. Qed.

Lemma sna_node_attrs_other st n k v m : m <> n -> node_attrs (set_node_attr st n k v) m = node_attrs st m.
Proof.
  intros H. unfold set_node_attr, node_attrs. destruct (lookup n (nodes (g st))) as [d|]; [|reflexivity].
  cbn. now apply getd_set_neq.
Qed.
Lemma sna_node_attrs_same st n k v : is_node st n -> node_attrs (set_node_attr st n k v) n = set k v (node_attrs st n).
Proof.
  intros H. apply is_node_lookup in H. destruct H as [d E]. unfold set_node_attr, node_attrs. rewrite E. cbn.
  rewrite getd_set_eq. unfold getd. now rewrite E.
Qed.

Lemma sna_attr_same st n k v : is_node st n -> attr (set_node_attr st n k v) n k = Some v.
Proof. intros H. unfold attr. rewrite sna_node_attrs_same by exact H. apply lookup_set_eq. Qed.
Lemma sna_attr_other st n k v m k' : (m <> n \/ k' <> k) -> attr (set_node_attr st n k v) m k' = attr st m k'.
Proof.
  intros H. destruct (Z.eq_dec m n) as [->|Hm].
  - destruct H as [H|H]; [contradiction|]. destruct (in_dec Z.eq_dec n (node_ids st)) as [Hi|Hi].
    + unfold attr. rewrite sna_node_attrs_same by exact Hi. now apply lookup_set_neq.
    + now rewrite sna_notnode.
  - unfold attr. now rewrite sna_node_attrs_other.
Qed.
Lemma sna_attrs_nodup st n k v m : NoDup (keys (node_attrs st m)) -> NoDup (keys (node_attrs (set_node_attr st n k v) m)).
Proof.
  intros H. destruct (Z.eq_dec m n) as [->|Hm]; [|now rewrite sna_node_attrs_other].
  destruct (in_dec Z.eq_dec n (node_ids st)) as [Hi|Hi].
  - rewrite sna_node_attrs_same by exact Hi. now apply NoDup_keys_set.
  - now rewrite sna_notnode.
Qed.

(* graph.nodes[n].pop(k, None): the same facts for the removal of an attribute *)
Lemma dna_notnode st n k : ~ is_node st n -> del_node_attr st n k = st.
Proof.
  intros H. unfold del_node_attr. destruct (lookup n (nodes (g st))) as [d|] eqn:E; [|reflexivity].
  exfalso. apply H. apply is_node_lookup. now exists d.
Qed.
Lemma dna_node_ids st n k : node_ids (del_node_attr st n k) = node_ids st.
Proof.
  unfold del_node_attr, node_ids. destruct (lookup n (nodes (g st))) as [d|] eqn:E; [|reflexivity].
  cbn. apply keys_set_in. eapply lookup_Some_keys; eauto.
Qed.
Lemma dna_succs st n k : succs (g (del_node_attr st n k)) = succs (g st).
Proof. unfold del_node_attr. destruct (lookup n (nodes (g st))); reflexivity. Qed.
Lemma dna_bk st n k : bk (del_node_attr st n k) = bk st.
Proof. unfold del_node_attr. destruct (lookup n (nodes (g st))); reflexivity. Qed.
Lemma dna_ft st n k : ft (del_node_attr st n k) = ft st.
Proof. unfold del_node_attr. destruct (lookup n (nodes (g st))); reflexivity. Qed.
Lemma dna_seg st n k : seg (del_node_attr st n k) = seg st.
Proof. unfold del_node_attr. destruct (lookup n (nodes (g st))); reflexivity. Qed.
Lemma dna_node_attrs_other st n k m : m <> n -> node_attrs (del_node_attr st n k) m = node_attrs st m.
Proof.
  intros H. unfold del_node_attr, node_attrs. destruct (lookup n (nodes (g st))) as [d|]; [|reflexivity].
  cbn. now apply getd_set_neq.
Qed.
Lemma dna_node_attrs_same st n k : is_node st n -> node_attrs (del_node_attr st n k) n = del k (node_attrs st n).
Proof.
  intros H. apply is_node_lookup in H. destruct H as [d E]. unfold del_node_attr, node_attrs. rewrite E. cbn.
  rewrite getd_set_eq. unfold getd. now rewrite E.
Qed.
Lemma dna_attr_same st n k : is_node st n -> attr (del_node_attr st n k) n k = None.
Proof. intros H. unfold attr. rewrite dna_node_attrs_same by exact H. apply lookup_del_eq. Qed.
Lemma dna_attr_other st n k m k' : (m <> n \/ k' <> k) -> attr (del_node_attr st n k) m k' = attr st m k'.
Proof.
  intros H. destruct (Z.eq_dec m n) as [->|Hm].
  - destruct H as [H|H]; [contradiction|]. destruct (in_dec Z.eq_dec n (node_ids st)) as [Hi|Hi].
    + unfold attr. rewrite dna_node_attrs_same by exact Hi. now apply lookup_del_neq.
    + now rewrite dna_notnode.
  - unfold attr. now rewrite dna_node_attrs_other.
Qed.
Lemma dna_attrs_nodup st n k m : NoDup (keys (node_attrs st m)) -> NoDup (keys (node_attrs (del_node_attr st n k) m)).
Proof.
  intros H. destruct (Z.eq_dec m n) as [->|Hm]; [|now rewrite dna_node_attrs_other].
  destruct (in_dec Z.eq_dec n (node_ids st)) as [Hi|Hi].
  - rewrite dna_node_attrs_same by exact Hi. now apply NoDup_keys_del.
  - now rewrite dna_notnode.
Qed.

(* ---- "st' is st with some attributes of node n, at keys in K, rewritten" ---- *)
Record attr_upd (st st' : state) : Prop := {
  au_ids : node_ids st' = node_ids st;
  au_succs : succs (g st') = succs (g st);
  au_bk : bk st' = bk st;
  au_ft : ft st' = ft st;
  au_seg : seg st' = seg st;
  au_nodup : forall m, NoDup (keys (node_attrs st m)) -> NoDup (keys (node_attrs st' m))
}.
Lemma attr_upd_refl st : attr_upd st st.
Proof. constructor; auto. Qed.
Lemma attr_upd_trans a b c : attr_upd a b -> attr_upd b c -> attr_upd a c.
Proof.
  intros [A1 A2 A3 A4 A5 A6] [B1 B2 B3 B4 B5 B6]. constructor; try congruence. intros m H. apply B6, A6, H.
Qed.
Lemma attr_upd_sna st n k v : attr_upd st (set_node_attr st n k v).
Proof.
  constructor; [apply sna_node_ids|apply sna_succs|apply sna_bk|apply sna_ft|apply sna_seg|].
  intros m. apply sna_attrs_nodup.
Qed.
Lemma attr_upd_dna st n k : attr_upd st (del_node_attr st n k).
Proof.
  constructor; [apply dna_node_ids|apply dna_succs|apply dna_bk|apply dna_ft|apply dna_seg|].
  intros m. apply dna_attrs_nodup.
Qed.
Lemma attr_upd_is_node st st' n : attr_upd st st' -> (is_node st' n <-> is_node st n).
Proof. intros H. unfold is_node. now rewrite (au_ids _ _ H). Qed.
Lemma attr_upd_successors st st' u : attr_upd st st' -> successors st' u = successors st u.
Proof. intros H. unfold successors, adj. now rewrite (au_succs _ _ H). Qed.

Definition upd_at (n : Z) (K : Z -> Prop) (st st' : state) : Prop :=
  attr_upd st st' /\ forall m k, (m <> n \/ ~ K k) -> attr st' m k = attr st m k.
Lemma upd_at_refl n K st : upd_at n K st st.
Proof. split; [apply attr_upd_refl|reflexivity]. Qed.
Lemma upd_at_trans n K a b c : upd_at n K a b -> upd_at n K b c -> upd_at n K a c.
Proof. intros [A1 A2] [B1 B2]. split; [eapply attr_upd_trans; eauto|]. intros m k H. now rewrite B2, A2. Qed.
Lemma upd_at_sna n (K : Z -> Prop) st k v : K k -> upd_at n K st (set_node_attr st n k v).
Proof.
  intros HK. split; [apply attr_upd_sna|]. intros m k' H. apply sna_attr_other.
  destruct H as [H|H]; [now left|right; intros ->; contradiction].
Qed.
Lemma upd_at_dna n (K : Z -> Prop) st k : K k -> upd_at n K st (del_node_attr st n k).
Proof.
  intros HK. split; [apply attr_upd_dna|]. intros m k' H. apply dna_attr_other.
  destruct H as [H|H]; [now left|right; intros ->; contradiction].
Qed.
(* UpdateNodeAttrs._apply: a None value removes the attribute, any other value is stored *)
Lemma upd_at_apply n (K : Z -> Prop) st kv : K (fst kv) -> upd_at n K st (apply_attr st n kv).
Proof. intros HK. unfold apply_attr. destruct (snd kv); first [now apply upd_at_dna | now apply upd_at_sna]. Qed.
Lemma upd_at_weaken n (K K' : Z -> Prop) a b : (forall k, K k -> K' k) -> upd_at n K a b -> upd_at n K' a b.
Proof. intros H [A B]. split; [exact A|]. intros m k [Hm|Hk]; apply B; [now left|right; auto]. Qed.

(* for key, value in attrs.items(): graph.nodes[n][key] = value *)
Definition set_attrs st n (a : attrs) : state := fold_left (fun s kv => set_node_attr s n (fst kv) (snd kv)) a st.
Lemma set_attrs_upd_at st n a : upd_at n (fun k => In k (keys a)) st (set_attrs st n a).
Proof.
  unfold set_attrs. revert st. induction a as [|[k v] r IH]; intros st; cbn [fold_left]; [apply upd_at_refl|].
  eapply upd_at_trans.
  - apply upd_at_sna with (k := k). cbn. now left.
  - eapply upd_at_weaken; [|apply IH]. cbn. intros k' H. now right.
Qed.
Lemma set_attrs_lookup st n a k v :
  is_node st n -> NoDup (keys a) -> lookup k a = Some v -> attr (set_attrs st n a) n k = Some v.
Proof.
  unfold set_attrs. revert st. induction a as [|[k1 v1] r IH]; intros st Hn Hnd E; [discriminate|].
  cbn [fold_left fst snd]. rewrite keys_cons in Hnd. inversion Hnd as [|? ? Hk Hr]; subst. cbn [lookup] in E.
  destruct (Z.eqb_spec k k1) as [->|Hne].
  - injection E as ->. destruct (set_attrs_upd_at (set_node_attr st n k1 v) n r) as [_ F]. unfold set_attrs in F.
    rewrite F by (right; exact Hk). now apply sna_attr_same.
  - apply IH; [|exact Hr|exact E]. unfold is_node. now rewrite sna_node_ids.
Qed.

(* for key, value in attrs.items(): UpdateNodeAttrs._apply *)
Definition apply_attrs st n (a : attrs) : state := fold_left (fun s kv => apply_attr s n kv) a st.
Lemma apply_attrs_upd_at st n a : upd_at n (fun k => In k (keys a)) st (apply_attrs st n a).
Proof.
  unfold apply_attrs. revert st. induction a as [|[k v] r IH]; intros st; cbn [fold_left]; [apply upd_at_refl|].
  eapply upd_at_trans.
  - apply (upd_at_apply n (fun k' => In k' (keys ((k, v) :: r))) st (k, v)). cbn. now left.
  - eapply upd_at_weaken; [|apply IH]. cbn. intros k' H. now right.
Qed.

(* RegionpropsAnnotator.update *)
Lemma rp_update_upd_at st n : upd_at n (fun k => In k (rp_act (ft st))) st (rp_update st n).
Proof.
  unfold rp_update. destruct (seg st) as [sg|]; [|apply upd_at_refl].
  generalize (match mask_of sg (time_of st n) n with [] => VNone | _ :: _ => VRp (mask_of sg (time_of st n) n) end).
  intros v. generalize (rp_act (ft st)) as ks. intros ks. revert st.
  induction ks as [|k r IH]; intros st; cbn [fold_left]; [apply upd_at_refl|].
  eapply upd_at_trans.
  - apply upd_at_sna with (k := k). now left.
  - eapply upd_at_weaken; [|apply IH]. cbn. intros k' H. now right.
Qed.

(* tracks.set_pixels touches the array only *)
Lemma set_pixels_ok st px v u st' :
  set_pixels st px v = Ok u st' -> g st' = g st /\ bk st' = bk st /\ ft st' = ft st /\ nctr st' = nctr st.
Proof.
  unfold set_pixels. destruct (seg st); [|discriminate]. destruct (frame_ok _ _); [|discriminate].
  intros H. inversion H; subst. cbn. auto.
Qed.
Lemma opt_set_pixels_ok st (px : option pixels) v u st' :
  (match px with Some p => set_pixels st p v | None => Ok tt st end) = Ok u st' ->
  g st' = g st /\ bk st' = bk st /\ ft st' = ft st /\ nctr st' = nctr st.
Proof. destruct px as [p|]; [apply set_pixels_ok|]. intros H. inversion H; subst. auto. Qed.

(* edge attribute writes keep the node dictionary, the books and every successor list *)
Lemma sea_nodes st u v k x : nodes (g (set_edge_attr st u v k x)) = nodes (g st) /\ bk (set_edge_attr st u v k x) = bk st
  /\ ft (set_edge_attr st u v k x) = ft st /\ seg (set_edge_attr st u v k x) = seg st.
Proof. unfold set_edge_attr. destruct (has_edge st u v); cbn; auto. Qed.
Lemma sea_succ_keys st u v k x : keys (succs (g (set_edge_attr st u v k x))) = keys (succs (g st)).
Proof.
  unfold set_edge_attr. destruct (has_edge st u v) eqn:E; [|reflexivity]. cbn. apply keys_set_in.
  unfold has_edge, adj, getd in E. destruct (lookup u (succs (g st))) eqn:E2; [eapply lookup_Some_keys; eauto|discriminate].
Qed.
Lemma sea_successors st u v k x w : successors (set_edge_attr st u v k x) w = successors st w.
Proof.
  unfold set_edge_attr. destruct (has_edge st u v) eqn:E; [|reflexivity]. unfold successors, adj at 1. cbn.
  destruct (Z.eq_dec w u) as [->|Hw].
  - rewrite getd_set_eq. apply keys_set_in. now apply haskey_keys.
  - now rewrite getd_set_neq.
Qed.

Record edge_upd (st st' : state) : Prop := {
  eu_nodes : nodes (g st') = nodes (g st);
  eu_bk : bk st' = bk st;
  eu_ft : ft st' = ft st;
  eu_seg : seg st' = seg st;
  eu_keys : keys (succs (g st')) = keys (succs (g st));
  eu_succ : forall w, successors st' w = successors st w
}.
Lemma edge_upd_refl st : edge_upd st st.
Proof. constructor; auto. Qed.
Lemma edge_upd_trans a b c : edge_upd a b -> edge_upd b c -> edge_upd a c.
Proof. intros [A1 A2 A3 A4 A5 A6] [B1 B2 B3 B4 B5 B6]. constructor; try congruence; intros w; now rewrite B6. Qed.
Lemma edge_upd_sea st u v k x : edge_upd st (set_edge_attr st u v k x).
Proof.
  destruct (sea_nodes st u v k x) as (A & B & C & D).
  constructor; try assumption; [apply sea_succ_keys|intros w; apply sea_successors].
Qed.
Lemma iou_update_edges_upd st es : edge_upd st (iou_update_edges st es).
Proof.
  unfold iou_update_edges. destruct (seg st) as [sg|]; [|apply edge_upd_refl].
  destruct (iou_act (ft st)); [|apply edge_upd_refl].
  revert st. induction es as [|e r IH]; intros st; cbn [fold_left]; [apply edge_upd_refl|].
  eapply edge_upd_trans; [apply edge_upd_sea|apply IH].
Qed.

(* ================================================================== *)
(* 2. frames for W_dict / W_book                                       *)
(* ================================================================== *)
Lemma bok_ext_simple P P' b idof idof' mx :
  (forall n, P n <-> P' n) -> (forall n, P n -> idof n = idof' n) -> bok P b idof mx -> bok P' b idof' mx.
Proof.
  intros HP Hi. apply bok_ext. intros n T. rewrite <- HP. split; intros [A B]; (split; [exact A|]).
  - now rewrite <- Hi.
  - now rewrite Hi.
Qed.

Lemma W_dict_same_g st st' : g st' = g st -> W_dict st -> W_dict st'.
Proof.
  intros E. apply W_dict_ext.
  - unfold node_ids. now rewrite E.
  - now rewrite E.
  - intros u. unfold successors, adj. now rewrite E.
  - intros n k _ _ z H. exists z. unfold attr, node_attrs in *. now rewrite E.
  - intros n. unfold node_attrs. now rewrite E.
Qed.
Lemma W_book_same_g st st' : g st' = g st -> bk st' = bk st -> W_book st -> W_book st'.
Proof. intros E. apply W_book_same. now rewrite E. Qed.

Definition id_key (k : Z) : Prop := k = KTime \/ k = KTrack \/ k = KLin.

Lemma W_dict_attr_upd st st' :
  attr_upd st st' -> (forall m k, id_key k -> attr st' m k = attr st m k) -> W_dict st -> W_dict st'.
Proof.
  intros A F. apply W_dict_ext.
  - apply A.
  - now rewrite (au_succs _ _ A).
  - intros u. now apply attr_upd_successors.
  - intros n k _ Hk z H. exists z. now rewrite F.
  - apply A.
Qed.
Lemma W_book_attr_upd st st' :
  attr_upd st st' -> (forall m k, id_key k -> attr st' m k = attr st m k) -> W_book st -> W_book st'.
Proof.
  intros A F. apply W_book_ext.
  - intros n. now apply attr_upd_is_node.
  - intros n _. unfold trk, zattr. rewrite F; [reflexivity|unfold id_key; auto].
  - intros n _. unfold lin, zattr. rewrite F; [reflexivity|unfold id_key; auto].
  - apply A.
Qed.

Lemma W_dict_edge_upd st st' : edge_upd st st' -> W_dict st -> W_dict st'.
Proof.
  intros A. apply W_dict_ext.
  - unfold node_ids. now rewrite (eu_nodes _ _ A).
  - apply A.
  - apply A.
  - intros n k _ _ z H. exists z. unfold attr, node_attrs in *. now rewrite (eu_nodes _ _ A).
  - intros n. unfold node_attrs. now rewrite (eu_nodes _ _ A).
Qed.
Lemma W_book_edge_upd st st' : edge_upd st st' -> W_book st -> W_book st'.
Proof. intros A. apply W_book_same; apply A. Qed.

(* one adjacency row rewritten: graph.add_edge / graph.remove_edge *)
Lemma W_dict_row st st' u (X : dict attrs) :
  nodes (g st') = nodes (g st) -> succs (g st') = set u X (succs (g st)) ->
  is_node st u -> NoDup (keys X) -> (forall b, In b (keys X) -> is_node st b) ->
  W_dict st -> W_dict st'.
Proof.
  intros En Es Hu HX HXn W.
  assert (Hin : forall n, is_node st' n <-> is_node st n) by (intros n; unfold is_node, node_ids; now rewrite En).
  assert (Hsu : forall w, successors st' w = if Z.eq_dec w u then keys X else successors st w).
  { intros w. unfold successors, adj. rewrite Es. destruct (Z.eq_dec w u) as [->|Hw]; [now rewrite getd_set_eq|now rewrite getd_set_neq]. }
  constructor.
  - unfold node_ids. rewrite En. apply W.
  - rewrite Es. apply NoDup_keys_set. apply W.
  - intros n. rewrite Hin, haskey_keys, Es, in_keys_set, <- haskey_keys, (wd_succ_keys st W n).
    split; [intros [->|H]; assumption|auto].
  - intros w. rewrite Hsu. destruct (Z.eq_dec w u); [exact HX|apply W].
  - intros a b. rewrite edge_successors, Hsu, !Hin. destruct (Z.eq_dec a u) as [->|Ha].
    + intros H. split; [exact Hu|now apply HXn].
    + intros H. apply (wd_edge_nodes st W). now apply edge_successors.
  - intros n Hi. apply Hin in Hi. unfold attr, node_attrs. rewrite En. now apply (wd_time st W).
  - intros n Hi. apply Hin in Hi. unfold attr, node_attrs. rewrite En. now apply (wd_track st W).
  - intros n Hi. apply Hin in Hi. unfold attr, node_attrs. rewrite En. now apply (wd_lin st W).
  - intros n. unfold node_attrs. rewrite En. apply W.
Qed.

(* ================================================================== *)
(* 3. AddEdge, DeleteEdge, UpdateNodeAttrs, UpdateNodeSeg               *)
(* ================================================================== *)
Lemma do_add_edge_inv st u v a b st' :
  do_add_edge st u v a = Ok b st' ->
  is_node st u /\ is_node st v /\
  exists st1, nodes (g st1) = nodes (g st) /\ bk st1 = bk st /\
              succs (g st1) = set u (set v (update (edge_attrs st u v) a) (adj st u)) (succs (g st)) /\
              edge_upd st1 st'.
Proof.
  unfold do_add_edge. destruct (has_node st u) eqn:Eu; [|discriminate]. destruct (has_node st v) eqn:Ev; [|discriminate].
  cbn [negb]. intros H. inversion H; subst. split; [now apply has_node_is_node|split; [now apply has_node_is_node|]].
  eexists. split; [|split; [|split; [|apply iou_update_edges_upd]]]; reflexivity.
Qed.

Theorem add_edge_W_book st u v a b st' : do_add_edge st u v a = Ok b st' -> W_book st -> W_book st'.
Proof.
  intros H W. destruct (do_add_edge_inv _ _ _ _ _ _ H) as (_ & _ & st1 & En & Eb & _ & Hu).
  eapply W_book_edge_upd; [exact Hu|]. now apply (W_book_same st st1).
Qed.
Theorem add_edge_W_dict st u v a b st' : do_add_edge st u v a = Ok b st' -> W_dict st -> W_dict st'.
Proof.
  intros H W. destruct (do_add_edge_inv _ _ _ _ _ _ H) as (Hu & Hv & st1 & En & Eb & Es & Hup).
  eapply W_dict_edge_upd; [exact Hup|]. eapply W_dict_row; [exact En|exact Es|exact Hu| | |exact W].
  - apply NoDup_keys_set. apply (wd_adj_nodup st W u).
  - intros x Hx. apply in_keys_set in Hx. destruct Hx as [->|Hx]; [exact Hv|].
    apply (wd_edge_nodes st W u x). now apply edge_successors.
Qed.

Lemma do_del_edge_inv st u v b st' :
  do_del_edge st u v = Ok b st' ->
  edge st u v /\ nodes (g st') = nodes (g st) /\ bk st' = bk st /\
  succs (g st') = set u (del v (adj st u)) (succs (g st)).
Proof.
  unfold do_del_edge. destruct (has_edge st u v) eqn:E; [|discriminate]. cbn [negb]. intros H. inversion H; subst.
  cbn. auto.
Qed.
Theorem del_edge_W_book st u v b st' : do_del_edge st u v = Ok b st' -> W_book st -> W_book st'.
Proof. intros H. destruct (do_del_edge_inv _ _ _ _ _ H) as (_ & En & Eb & _). now apply W_book_same. Qed.
Theorem del_edge_W_dict st u v b st' : do_del_edge st u v = Ok b st' -> W_dict st -> W_dict st'.
Proof.
  intros H W. destruct (do_del_edge_inv _ _ _ _ _ H) as (He & En & Eb & Es).
  eapply W_dict_row; [exact En|exact Es| | | |exact W].
  - apply (wd_edge_nodes st W u v He).
  - apply NoDup_keys_del. apply (wd_adj_nodup st W u).
  - intros x Hx. apply in_keys_del in Hx. apply (wd_edge_nodes st W u x). apply edge_successors. apply Hx.
Qed.

Lemma protected_id_key st k : id_key k -> In k (protected_keys st).
Proof. unfold protected_keys, id_key. rewrite !in_app_iff. cbn. intuition. Qed.

Lemma do_upd_attrs_inv st n new b st' :
  do_upd_attrs st n new = Ok b st' ->
  (forall k, In k (keys new) -> ~ In k (protected_keys st)) /\ upd_at n (fun k => In k (keys new)) st st'.
Proof.
  unfold do_upd_attrs. destruct (existsb _ new) eqn:Ex; [discriminate|].
  assert (Hk : forall k, In k (keys new) -> ~ In k (protected_keys st)).
  { intros k Hk Hp. unfold keys in Hk. apply in_map_iff in Hk. destruct Hk as (kv & <- & Hkv).
    assert (existsb (fun kv => memz (fst kv) (protected_keys st)) new = true); [|congruence].
    apply existsb_exists. exists kv. split; [exact Hkv|now apply memz_In]. }
  destruct (lookup n (nodes (g st))) as [d|].
  - intros H. inversion H; subst. split; [exact Hk|apply apply_attrs_upd_at].
  - destruct new; [|discriminate]. intros H. inversion H; subst. split; [exact Hk|apply upd_at_refl].
Qed.
Lemma upd_attrs_frame st n new b st' :
  do_upd_attrs st n new = Ok b st' -> attr_upd st st' /\ forall m k, id_key k -> attr st' m k = attr st m k.
Proof.
  intros H. destruct (do_upd_attrs_inv _ _ _ _ _ H) as [Hk [A F]]. split; [exact A|].
  intros m k Hid. apply F. right. intros Hi. apply (Hk k Hi). now apply protected_id_key.
Qed.
Theorem upd_attrs_W_book st n new b st' : do_upd_attrs st n new = Ok b st' -> W_book st -> W_book st'.
Proof. intros H. destruct (upd_attrs_frame _ _ _ _ _ H). now apply W_book_attr_upd. Qed.
Theorem upd_attrs_W_dict st n new b st' : do_upd_attrs st n new = Ok b st' -> W_dict st -> W_dict st'.
Proof. intros H. destruct (upd_attrs_frame _ _ _ _ _ H). now apply W_dict_attr_upd. Qed.

(* the regionprops keys never include time / track id / lineage id *)
Definition rp_disjoint (st : state) : Prop := forall k, id_key k -> ~ In k (rp_act (ft st)).

Lemma do_upd_seg_inv st n px added b st' :
  do_upd_seg st n px added = Ok b st' ->
  exists st0 st1, g st0 = g st /\ bk st0 = bk st /\ ft st0 = ft st /\
     upd_at n (fun k => In k (rp_act (ft st))) st0 st1 /\ edge_upd st1 st'.
Proof.
  unfold do_upd_seg. destruct (set_pixels st px (if added then n else 0)) as [u st0|e st0] eqn:Ep; [|discriminate].
  cbn [bind]. destruct (set_pixels_ok _ _ _ _ _ Ep) as (Eg & Eb & Ef & _).
  destruct (negb (has_node st0 n) && _); [discriminate|]. destruct (negb (has_node st0 n) && _); [discriminate|].
  intros H. inversion H; subst. exists st0, (rp_update st0 n).
  split; [exact Eg|split; [exact Eb|split; [exact Ef|split; [|apply iou_update_edges_upd]]]].
  rewrite <- Ef. apply rp_update_upd_at.
Qed.
Theorem upd_seg_W_book st n px added b st' :
  do_upd_seg st n px added = Ok b st' -> rp_disjoint st -> W_book st -> W_book st'.
Proof.
  intros H Hrp W. destruct (do_upd_seg_inv _ _ _ _ _ _ H) as (st0 & st1 & Eg & Eb & Ef & [A F] & Hu).
  eapply W_book_edge_upd; [exact Hu|]. eapply W_book_attr_upd; [exact A| |now apply (W_book_same_g st st0)].
  intros m k Hk. apply F. right. now apply Hrp.
Qed.
Theorem upd_seg_W_dict st n px added b st' :
  do_upd_seg st n px added = Ok b st' -> rp_disjoint st -> W_dict st -> W_dict st'.
Proof.
  intros H Hrp W. destruct (do_upd_seg_inv _ _ _ _ _ _ H) as (st0 & st1 & Eg & Eb & Ef & [A F] & Hu).
  eapply W_dict_edge_upd; [exact Hu|]. eapply W_dict_attr_upd; [exact A| |now apply (W_dict_same_g st st0)].
  intros m k Hk. apply F. right. now apply Hrp.
Qed.

(* ================================================================== *)
(* 4. AddNode                                                          *)
(* ================================================================== *)
Definition add_node_graph st n (a : attrs) : state :=
  let nd := nodes (g st) in
  let st := if haskey n nd then st
            else upd_g st {| nodes := nd ++ [(n, [])]; succs := set n (getd n (succs (g st)) []) (succs (g st)) |} in
  let st := fold_left (fun s kv => set_node_attr s n (fst kv) (snd kv)) a st in
  rp_update st n.
Definition add_node_tail st n (a : attrs) (px : option pixels) : res basic :=
  if negb (trk_act (ft st)) then Ok (BAddNode n a px) st else
  match zattr st n KTrack with
  | None => Err EKey st
  | Some t =>
    let b := bk st in
    let tb := book_add_extend (trk_book b) [n] t in
    let mt := Z.max (max_trk b) t in
    let '(lb, ml) := if lin_act (ft st)
                     then match zattr st n KLin with
                          | Some l => (book_add_dedup (lin_book b) [n] l, Z.max (max_lin b) l)
                          | None => (lin_book b, max_lin b) end
                     else (lin_book b, max_lin b) in
    Ok (BAddNode n a px) (upd_bk st {| trk_book := tb; lin_book := lb; max_trk := mt; max_lin := ml |})
  end.
Lemma do_add_node_eq st n a px : do_add_node st n a px =
  if negb (haskey KTime a) then Err EValue st else
  if negb (haskey KTrack a) then Err EValue st else
  if (match px with None => negb (all_in (pos_keys (ft st)) a) | Some _ => false end) then Err EValue st else
  do _u, st0 <- (match px with Some p => set_pixels st p n | None => Ok tt st end);
  add_node_tail (add_node_graph st0 n a) n a px.
Proof. reflexivity. Qed.

Lemma add_node_graph_spec st n a : ~ is_node st n ->
  exists st1, upd_at n (fun _ => True) st1 (add_node_graph st n a) /\
    upd_at n (fun k => In k (rp_act (ft st))) (set_attrs st1 n a) (add_node_graph st n a) /\
    nodes (g st1) = nodes (g st) ++ [(n, [])] /\
    succs (g st1) = set n (getd n (succs (g st)) []) (succs (g st)) /\
    bk st1 = bk st /\ ft st1 = ft st.
Proof.
  intros Hn. unfold add_node_graph. cbv zeta. apply has_node_false in Hn. unfold has_node in Hn. rewrite Hn.
  exists (upd_g st {| nodes := nodes (g st) ++ [(n, [])]; succs := set n (getd n (succs (g st)) []) (succs (g st)) |}).
  split; [|split; [|split; [reflexivity|split; [reflexivity|split; reflexivity]]]].
  - eapply upd_at_trans.
    + eapply upd_at_weaken; [|apply set_attrs_upd_at]. auto.
    + eapply upd_at_weaken; [|apply rp_update_upd_at]. auto.
  - fold (set_attrs (upd_g st {| nodes := nodes (g st) ++ [(n, [])]; succs := set n (getd n (succs (g st)) []) (succs (g st)) |}) n a).
    match goal with |- upd_at _ _ ?s _ => replace (ft st) with (ft s) end; [apply rp_update_upd_at|].
    destruct (set_attrs_upd_at (upd_g st {| nodes := nodes (g st) ++ [(n, [])]; succs := set n (getd n (succs (g st)) []) (succs (g st)) |}) n a) as [A _].
    now rewrite (au_ft _ _ A).
Qed.

(* the new node joins; every other node keeps its attributes *)
Lemma add_node_graph_nodes st n a : ~ is_node st n ->
  let st3 := add_node_graph st n a in
  node_ids st3 = node_ids st ++ [n] /\ bk st3 = bk st /\ ft st3 = ft st /\
  (forall m k, m <> n -> attr st3 m k = attr st m k).
Proof.
  intros Hn. cbv zeta. destruct (add_node_graph_spec st n a Hn) as (st1 & [A F] & _ & En & Es & Eb & Ef).
  split; [|split; [|split]].
  - rewrite (au_ids _ _ A). unfold node_ids. rewrite En, keys_app. reflexivity.
  - now rewrite (au_bk _ _ A).
  - now rewrite (au_ft _ _ A).
  - intros m k Hm. rewrite F by (now left). unfold attr, node_attrs, getd. rewrite En, lookup_app.
    destruct (lookup m (nodes (g st))); [reflexivity|]. cbn. destruct (Z.eqb_spec m n); [contradiction|reflexivity].
Qed.

Theorem add_node_W_book st n a px b st' :
  cfg_ok st -> ~ is_node st n -> do_add_node st n a px = Ok b st' -> W_book st -> W_book st'.
Proof.
  intros (Cta & Cla & _) Hn H W. rewrite do_add_node_eq in H.
  destruct (negb (haskey KTime a)); [discriminate|]. destruct (negb (haskey KTrack a)); [discriminate|].
  destruct (match px with None => _ | Some _ => false end); [discriminate|].
  destruct (match px with Some p => set_pixels st p n | None => Ok tt st end) as [u st0|e st0] eqn:Ep; [|discriminate].
  cbn [bind] in H. destruct (opt_set_pixels_ok _ _ _ _ _ Ep) as (Eg & Eb & Ef & _).
  assert (W0 : W_book st0) by (now apply (W_book_same_g st st0)).
  assert (Hn0 : ~ is_node st0 n) by (unfold is_node, node_ids; now rewrite Eg).
  assert (Hi0 : forall m, is_node st0 m <-> is_node st m) by (intros m; unfold is_node, node_ids; now rewrite Eg).
  destruct (add_node_graph_nodes st0 n a Hn0) as (Eids & Ebk & Eft & Hat). cbv zeta in *.
  remember (add_node_graph st0 n a) as st3 eqn:E3. clear E3.
  unfold add_node_tail in H. rewrite Eft, Ef, Cta, Cla in H. cbn [negb] in H.
  destruct (zattr st3 n KTrack) as [t|] eqn:Et; [|discriminate].
  assert (Hnode : forall s m, node_ids s = node_ids st3 -> (is_node s m <-> is_node st0 m \/ In m [n])).
  { intros s m Es. unfold is_node. rewrite Es, Eids, in_app_iff. reflexivity. }
  assert (Htrk : forall m, is_node st0 m -> trk st0 m = trk st3 m).
  { intros m Hm. unfold trk, zattr. rewrite Hat; [reflexivity|]. intros ->. contradiction. }
  assert (Hlin : forall m, is_node st0 m -> lin st0 m = lin st3 m).
  { intros m Hm. unfold lin, zattr. rewrite Hat; [reflexivity|]. intros ->. contradiction. }
  destruct W0 as [WT WL]. rewrite book_ok_bok in WT, WL.
  assert (WT' : bok (fun m => is_node st0 m \/ In m [n]) (book_add_extend (trk_book (bk st3)) [n] t) (trk st3) (Z.max (max_trk (bk st3)) t)).
  { rewrite Ebk. apply bok_add_extend.
    - eapply bok_ext_simple; [| |exact WT]; [reflexivity|exact Htrk].
    - constructor; [intros []|constructor].
    - discriminate.
    - intros m [<-|[]]. exact Hn0.
    - intros m [<-|[]]. exact Et. }
  destruct (zattr st3 n KLin) as [l|] eqn:El; inversion H; subst; clear H; split; rewrite book_ok_bok; cbn [bk upd_bk trk_book lin_book max_trk max_lin].
  - eapply bok_ext_simple; [| |exact WT']; [intros m; symmetry; now apply Hnode|reflexivity].
  - eapply bok_ext_simple; [| |apply bok_add_dedup with (P := is_node st0) (idof := lin st3) (ns := [n])].
    + intros m; symmetry; now apply Hnode.
    + reflexivity.
    + rewrite Ebk. eapply bok_ext_simple; [| |exact WL]; [reflexivity|exact Hlin].
    + discriminate.
    + intros m [<-|[]]. exact El.
  - eapply bok_ext_simple; [| |exact WT']; [intros m; symmetry; now apply Hnode|reflexivity].
  - rewrite Ebk. eapply bok_ext; [|exact WL]. intros m T. rewrite (Hnode _ m eq_refl). cbn [In].
    match goal with |- context [lin ?s m] => change (lin s m) with (lin st3 m) end. split.
    + intros [A B]. split; [now left|]. now rewrite <- Hlin.
    + intros [[A|[<-|[]]] B].
      * split; [exact A|]. now rewrite Hlin.
      * unfold lin in B. rewrite El in B. discriminate.
Qed.

Lemma add_node_tail_g st3 n a px b st' : add_node_tail st3 n a px = Ok b st' -> g st' = g st3.
Proof.
  unfold add_node_tail. destruct (negb (trk_act (ft st3))); [intros H; now inversion H|].
  destruct (zattr st3 n KTrack); [|discriminate]. destruct (lin_act (ft st3)); [destruct (zattr st3 n KLin)|];
    intros H; now inversion H.
Qed.

Theorem add_node_W_dict st n a px b st' t0 T L :
  ~ is_node st n -> rp_disjoint st -> NoDup (keys a) ->
  lookup KTime a = Some (VZ t0) -> lookup KTrack a = Some (VZ T) -> lookup KLin a = Some (VZ L) ->
  do_add_node st n a px = Ok b st' -> W_dict st -> W_dict st'.
Proof.
  intros Hn Hrp Hnd Ha0 Ha1 Ha2 H W. rewrite do_add_node_eq in H.
  destruct (negb (haskey KTime a)); [discriminate|]. destruct (negb (haskey KTrack a)); [discriminate|].
  destruct (match px with None => _ | Some _ => false end); [discriminate|].
  destruct (match px with Some p => set_pixels st p n | None => Ok tt st end) as [u st0|e st0] eqn:Ep; [|discriminate].
  cbn [bind] in H. destruct (opt_set_pixels_ok _ _ _ _ _ Ep) as (Eg & Eb & Ef & _).
  apply add_node_tail_g in H. apply (W_dict_same_g _ _ Eg) in W.
  assert (Hn0 : ~ is_node st0 n) by (unfold is_node, node_ids; now rewrite Eg).
  assert (Hrp0 : rp_disjoint st0) by (unfold rp_disjoint; now rewrite Ef).
  clear Hn Hrp Eg Eb Ef Ep st. apply (W_dict_same_g _ _ H). clear H st'.
  destruct (add_node_graph_spec st0 n a Hn0) as (st1 & [A F] & [_ F2] & En & Es & Eb & Ef).
  destruct (add_node_graph_nodes st0 n a Hn0) as (Eids & _ & _ & Hat). cbv zeta in *.
  remember (add_node_graph st0 n a) as st3 eqn:E3. clear E3.
  assert (Hin : forall m, is_node st3 m <-> is_node st0 m \/ m = n).
  { intros m. unfold is_node. rewrite Eids, in_app_iff. cbn. intuition. }
  assert (Hn1 : is_node st1 n).
  { unfold is_node, node_ids. rewrite En, keys_app, in_app_iff. right. now left. }
  assert (Hsu : forall w, successors st3 w = successors st0 w).
  { intros w. rewrite (attr_upd_successors _ _ w A). unfold successors, adj. rewrite Es.
    destruct (Z.eq_dec w n) as [->|Hw]; [now rewrite getd_set_eq|now rewrite getd_set_neq]. }
  assert (Hnew : forall k v, id_key k -> lookup k a = Some v -> attr st3 n k = Some v).
  { intros k v Hk E. rewrite F2 by (right; now apply Hrp0). now apply set_attrs_lookup. }
  assert (Hold : forall m, is_node st3 m -> m <> n -> is_node st0 m).
  { intros m Hm Hne. apply Hin in Hm. destruct Hm; [assumption|contradiction]. }
  constructor.
  - rewrite Eids. apply NoDup_snoc; [apply W|exact Hn0].
  - rewrite (au_succs _ _ A), Es. apply NoDup_keys_set. apply W.
  - intros m. rewrite Hin, haskey_keys, (au_succs _ _ A), Es, in_keys_set, <- haskey_keys, (wd_succ_keys st0 W m). tauto.
  - intros w. rewrite Hsu. apply W.
  - intros x y. rewrite edge_successors, Hsu, <- edge_successors, !Hin. intros He.
    destruct (wd_edge_nodes st0 W x y He). auto.
  - intros m Hm. destruct (Z.eq_dec m n) as [->|Hne].
    + exists t0. apply Hnew; [unfold id_key; auto|exact Ha0].
    + rewrite Hat by exact Hne. apply (wd_time st0 W). now apply Hold.
  - intros m Hm. destruct (Z.eq_dec m n) as [->|Hne].
    + exists T. apply Hnew; [unfold id_key; auto|exact Ha1].
    + rewrite Hat by exact Hne. apply (wd_track st0 W). now apply Hold.
  - intros m Hm. destruct (Z.eq_dec m n) as [->|Hne].
    + exists L. apply Hnew; [unfold id_key; auto|exact Ha2].
    + rewrite Hat by exact Hne. apply (wd_lin st0 W). now apply Hold.
  - intros m. apply (au_nodup _ _ A). unfold node_attrs, getd. rewrite En, lookup_app.
    generalize (wd_attr_nodup st0 W m). unfold node_attrs, getd.
    destruct (lookup m (nodes (g st0))); [auto|]. intros _. cbn. destruct (m =? n); constructor.
Qed.

(* ================================================================== *)
(* 5. DeleteNode                                                       *)
(* ================================================================== *)
Definition del_node_graph st n : state :=
  upd_g st {| nodes := del n (nodes (g st)); succs := map (fun ua => (fst ua, del n (snd ua))) (del n (succs (g st))) |}.
Definition del_node_tail st n (saved : attrs) (px : option pixels) : res basic :=
  if negb (trk_act (ft st)) then Ok (BDelNode n saved px) st else
  let b := bk st in
  let tb := match lookup KTrack saved with Some (VZ t) => book_remove (trk_book b) [n] t | _ => trk_book b end in
  let lb := if lin_act (ft st)
            then match lookup KLin saved with Some (VZ l) => book_remove (lin_book b) [n] l | _ => lin_book b end
            else lin_book b in
  Ok (BDelNode n saved px) (upd_bk st {| trk_book := tb; lin_book := lb; max_trk := max_trk b; max_lin := max_lin b |}).
Lemma do_del_node_eq st n pxo : do_del_node st n pxo =
  match lookup n (nodes (g st)) with
  | None => Err EKey st
  | Some d =>
    let saved := saved_attrs (reg_node (ft st)) d in
    let px := match pxo with Some p => Some p | None => get_pixels st n end in
    do _u, st0 <- (match px with Some p => set_pixels st p 0 | None => Ok tt st end);
    del_node_tail (del_node_graph st0 n) n saved px
  end.
Proof. reflexivity. Qed.

Lemma saved_attrs_lookup reg d k v :
  In k reg -> lookup k d = Some v -> v <> VNone -> lookup k (saved_attrs reg d) = Some v.
Proof.
  intros Hk Hd Hv. unfold saved_attrs.
  assert (G : forall reg acc, (lookup k acc = Some v \/ (lookup k acc = None /\ In k reg)) ->
     lookup k (fold_left (fun acc k => match lookup k d with Some VNone => acc | Some v => acc ++ [(k, v)] | None => acc end) reg acc) = Some v).
  { clear Hk. intros reg0. induction reg0 as [|k1 r IH]; intros acc Hc; cbn [fold_left].
    - destruct Hc as [Hc1|Hc2]; [exact Hc1|destruct Hc2 as [Hc2 Hf]; destruct Hf].
    - apply IH. destruct Hc as [Hc|[Hc Hi]].
      + left. destruct (lookup k1 d) as [[]|]; try exact Hc; rewrite lookup_app, Hc; reflexivity.
      + destruct (Z.eq_dec k k1) as [<-|Hne].
        * left. rewrite Hd. destruct v; try (rewrite lookup_app, Hc; cbn; now rewrite Z.eqb_refl). contradiction.
        * destruct Hi as [Hi|Hi]; [congruence|]. right. split; [|exact Hi].
          assert (Hx : forall x, lookup k (acc ++ [(k1, x)]) = None).
          { intros x. rewrite lookup_app, Hc. cbn. destruct (Z.eqb_spec k k1); [contradiction|reflexivity]. }
          destruct (lookup k1 d) as [[]|]; auto. }
  apply G. right. split; [reflexivity|exact Hk].
Qed.

Lemma lookup_map_vals {V W} (f : V -> W) k (d : dict V) :
  lookup k (map (fun kv => (fst kv, f (snd kv))) d) = option_map f (lookup k d).
Proof. induction d as [|[k' v'] r IH]; cbn; [reflexivity|]. destruct (k =? k'); [reflexivity|exact IH]. Qed.
Lemma keys_map_vals {V W} (f : V -> W) (d : dict V) : keys (map (fun kv => (fst kv, f (snd kv))) d) = keys d.
Proof. unfold keys. rewrite map_map. reflexivity. Qed.

Lemma del_node_graph_spec st n :
  let st1 := del_node_graph st n in
  (forall m, is_node st1 m <-> m <> n /\ is_node st m) /\
  (forall m, m <> n -> node_attrs st1 m = node_attrs st m) /\
  (forall u, successors st1 u = if Z.eq_dec u n then [] else keys (del n (adj st u))) /\
  bk st1 = bk st /\ ft st1 = ft st.
Proof.
  cbv zeta. split; [|split; [|split; [|split; reflexivity]]].
  - intros m. unfold is_node, node_ids, del_node_graph. cbn. apply in_keys_del.
  - intros m Hm. unfold node_attrs, del_node_graph, getd. cbn. now rewrite lookup_del_neq.
  - intros u. unfold successors, adj at 1, del_node_graph, getd. cbn. rewrite lookup_map_vals.
    destruct (Z.eq_dec u n) as [->|Hu]; [now rewrite lookup_del_eq|]. rewrite lookup_del_neq by exact Hu.
    unfold adj, getd. destruct (lookup u (succs (g st))); reflexivity.
Qed.

Lemma del_node_tail_g st1 n saved px b st' : del_node_tail st1 n saved px = Ok b st' -> g st' = g st1.
Proof. unfold del_node_tail. destruct (negb (trk_act (ft st1))); intros H; now inversion H. Qed.

Theorem del_node_W_dict st n pxo b st' : do_del_node st n pxo = Ok b st' -> W_dict st -> W_dict st'.
Proof.
  intros H W. rewrite do_del_node_eq in H. destruct (lookup n (nodes (g st))) as [d|] eqn:Ed; [|discriminate].
  cbv zeta in H.
  destruct (match (match pxo with Some p => Some p | None => get_pixels st n end) with Some p => set_pixels st p 0 | None => Ok tt st end)
    as [u st0|e st0] eqn:Ep; [|discriminate].
  cbn [bind] in H. destruct (opt_set_pixels_ok _ _ _ _ _ Ep) as (Eg & Eb & Ef & _).
  apply del_node_tail_g in H. apply (W_dict_same_g _ _ Eg) in W. apply (W_dict_same_g _ _ H).
  clear H Ep Eg Eb Ef Ed. destruct (del_node_graph_spec st0 n) as (Hin & Hat & Hsu & _). cbv zeta in *.
  assert (Hk : keys (succs (g (del_node_graph st0 n))) = keys (del n (succs (g st0)))).
  { unfold del_node_graph. cbn. apply keys_map_vals. }
  constructor.
  - unfold node_ids, del_node_graph. cbn. apply NoDup_keys_del. apply W.
  - rewrite Hk. apply NoDup_keys_del. apply W.
  - intros m. rewrite Hin, haskey_keys, Hk, in_keys_del, <- haskey_keys, (wd_succ_keys st0 W m). tauto.
  - intros w. rewrite Hsu. destruct (Z.eq_dec w n); [constructor|]. apply NoDup_keys_del. apply (wd_adj_nodup st0 W w).
  - intros x y. rewrite edge_successors, Hsu, !Hin. destruct (Z.eq_dec x n) as [->|Hu]; [intros []|].
    intros Hv. apply in_keys_del in Hv. destruct Hv as [Hv1 Hv2].
    destruct (wd_edge_nodes st0 W x y) as [A B]; [now apply edge_successors|]. auto.
  - intros m Hm. apply Hin in Hm. unfold attr. rewrite Hat by apply Hm. apply (wd_time st0 W). apply Hm.
  - intros m Hm. apply Hin in Hm. unfold attr. rewrite Hat by apply Hm. apply (wd_track st0 W). apply Hm.
  - intros m Hm. apply Hin in Hm. unfold attr. rewrite Hat by apply Hm. apply (wd_lin st0 W). apply Hm.
  - intros m. destruct (Z.eq_dec m n) as [->|Hm]; [|rewrite Hat by exact Hm; apply W].
    unfold node_attrs, del_node_graph, getd. cbn. rewrite lookup_del_eq. constructor.
Qed.

Theorem del_node_W_book st n pxo b st' :
  cfg_ok st -> W_dict st -> do_del_node st n pxo = Ok b st' -> W_book st -> W_book st'.
Proof.
  intros (Cta & Cla & _ & Crt & Crl) WD H W. rewrite do_del_node_eq in H.
  destruct (lookup n (nodes (g st))) as [d|] eqn:Ed; [|discriminate]. cbv zeta in H.
  destruct (match (match pxo with Some p => Some p | None => get_pixels st n end) with Some p => set_pixels st p 0 | None => Ok tt st end)
    as [u st0|e st0] eqn:Ep; [|discriminate].
  cbn [bind] in H. destruct (opt_set_pixels_ok _ _ _ _ _ Ep) as (Eg & Eb & Ef & _).
  assert (Hn : is_node st n) by (apply is_node_lookup; now exists d).
  assert (Hd : node_attrs st n = d) by (unfold node_attrs, getd; now rewrite Ed).
  destruct (wd_track st WD n Hn) as [t Et]. destruct (wd_lin st WD n Hn) as [l El].
  assert (Est : lookup KTrack (saved_attrs (reg_node (ft st)) d) = Some (VZ t)).
  { apply saved_attrs_lookup; [exact Crt| |discriminate]. unfold attr in Et. now rewrite Hd in Et. }
  assert (Esl : lookup KLin (saved_attrs (reg_node (ft st)) d) = Some (VZ l)).
  { apply saved_attrs_lookup; [exact Crl| |discriminate]. unfold attr in El. now rewrite Hd in El. }
  destruct (del_node_graph_spec st0 n) as (Hin & Hat & _ & Ebk & Eft). cbv zeta in *.
  unfold del_node_tail in H. rewrite Eft, Ef, Cta, Cla, Est, Esl, Ebk, Eb in H. cbn [negb] in H.
  inversion H; subst; clear H.
  assert (Hi0 : forall m, is_node st0 m <-> is_node st m) by (intros m; unfold is_node, node_ids; now rewrite Eg).
  assert (Ha0 : forall m, node_attrs st0 m = node_attrs st m) by (intros m; unfold node_attrs; now rewrite Eg).
  destruct W as [WT WL]. rewrite book_ok_bok in WT, WL. split; rewrite book_ok_bok; cbn [bk upd_bk trk_book lin_book max_trk max_lin].
  - eapply bok_ext; [|apply bok_remove with (ns := [n]) (id := t); [exact WT|]].
    + intros m T.
      match goal with |- context [trk ?s m] => change (trk s m) with (trk (del_node_graph st0 n) m);
         change (is_node s m) with (is_node (del_node_graph st0 n) m) end.
      rewrite Hin, Hi0. cbn [In].
      assert (Hm : m <> n -> trk (del_node_graph st0 n) m = trk st m).
      { intros Hm. unfold trk, zattr, attr. now rewrite Hat, Ha0. }
      split.
      * intros [[A B] C]. assert (m <> n) by (intros ->; apply B; now left). rewrite Hm by assumption. tauto.
      * intros [[A B] C]. rewrite Hm in C by assumption. split; [split; [exact B|]|exact C]. intros [E|[]]. congruence.
    + intros m [<-|[]] _. unfold trk. now apply zattr_VZ.
  - eapply bok_ext; [|apply bok_remove with (ns := [n]) (id := l); [exact WL|]].
    + intros m T.
      match goal with |- context [lin ?s m] => change (lin s m) with (lin (del_node_graph st0 n) m);
         change (is_node s m) with (is_node (del_node_graph st0 n) m) end.
      rewrite Hin, Hi0. cbn [In].
      assert (Hm : m <> n -> lin (del_node_graph st0 n) m = lin st m).
      { intros Hm. unfold lin, zattr, attr. now rewrite Hat, Ha0. }
      split.
      * intros [[A B] C]. assert (m <> n) by (intros ->; apply B; now left). rewrite Hm by assumption. tauto.
      * intros [[A B] C]. rewrite Hm in C by assumption. split; [split; [exact B|]|exact C]. intros [E|[]]. congruence.
    + intros m [<-|[]] _. unfold lin. now apply zattr_VZ.
Qed.

(* ================================================================== *)
(* 6. UpdateTrackIDs: the breadth-first relabelling walk               *)
(* ================================================================== *)
(* [visit] without the queue of the next level *)
Definition visit1 (oldT newT : Z) (newL : option Z) (acc : state * bool * list Z * list Z) (n : Z)
  : state * bool * list Z * list Z :=
  let '(st, flag, tn, ln) := acc in
  let '(st, ln) := match newL with Some l => (set_node_attr st n KLin (VZ l), ln ++ [n]) | None => (st, ln) end in
  if flag then
    (if match zattr st n KTrack with Some t => t =? oldT | None => false end
     then (set_node_attr st n KTrack (VZ newT), true, tn ++ [n], ln) else (st, false, tn, ln))
  else (st, flag, tn, ln).

(* the order in which the walk visits the nodes: level by level below [curr] *)
Fixpoint bfs (fuel : nat) (st : state) (curr : list Z) : option (list Z) :=
  match curr with
  | [] => Some []
  | _ => match fuel with
         | O => None
         | S f => match bfs f st (flat_map (successors st) curr) with Some r => Some (curr ++ r) | None => None end
         end
  end.

Lemma sna_successors st n k v u : successors (set_node_attr st n k v) u = successors st u.
Proof. unfold successors, adj. now rewrite sna_succs. Qed.

Lemma visit_visit1 oldT newT newL st flag tn ln next n :
  visit oldT newT newL (st, flag, tn, ln, next) n =
  let '(st', flag', tn', ln') := visit1 oldT newT newL (st, flag, tn, ln) n in
  (st', flag', tn', ln', next ++ successors st n).
Proof.
  unfold visit, visit1. destruct newL as [l|]; destruct flag; cbn.
  - destruct (zattr (set_node_attr st n KLin (VZ l)) n KTrack) as [t|]; [destruct (t =? oldT)|]; now rewrite !sna_successors.
  - now rewrite !sna_successors.
  - destruct (zattr st n KTrack) as [t|]; [destruct (t =? oldT)|]; now rewrite ?sna_successors.
  - reflexivity.
Qed.

Lemma visit1_spec oldT newT newL st flag tn ln x sa fa tna lna :
  visit1 oldT newT newL (st, flag, tn, ln) x = (sa, fa, tna, lna) ->
  attr_upd st sa /\
  lna = ln ++ (match newL with Some _ => [x] | None => [] end) /\
  (forall m k, k <> KTrack -> k <> KLin -> attr sa m k = attr st m k) /\
  (forall l, newL = Some l -> is_node st x -> attr sa x KLin = Some (VZ l)) /\
  (forall m, (newL = None \/ m <> x) -> attr sa m KLin = attr st m KLin) /\
  (((flag = true /\ trk st x = Some oldT) /\ fa = true /\ tna = tn ++ [x] /\
    attr sa x KTrack = Some (VZ newT) /\ forall m, m <> x -> attr sa m KTrack = attr st m KTrack)
   \/ (~ (flag = true /\ trk st x = Some oldT) /\ fa = false /\ tna = tn /\
       forall m, attr sa m KTrack = attr st m KTrack)).
Proof.
  unfold visit1.
  set (s0 := match newL with Some l => set_node_attr st x KLin (VZ l) | None => st end).
  assert (E0 : (match newL with Some l => (set_node_attr st x KLin (VZ l), ln ++ [x]) | None => (st, ln) end)
               = (s0, ln ++ match newL with Some _ => [x] | None => [] end)).
  { unfold s0. destruct newL; [reflexivity|now rewrite app_nil_r]. }
  rewrite E0. clear E0.
  assert (U0 : upd_at x (fun k => k = KLin) st s0).
  { unfold s0. destruct newL; [now apply upd_at_sna|apply upd_at_refl]. }
  assert (L0 : forall l, newL = Some l -> is_node st x -> attr s0 x KLin = Some (VZ l)).
  { intros l -> Hx. unfold s0. now apply sna_attr_same. }
  assert (L1 : forall m, (newL = None \/ m <> x) -> attr s0 m KLin = attr st m KLin).
  { intros m [E|Hm]; [unfold s0; now rewrite E|]. apply U0. now left. }
  assert (T0 : forall m, attr s0 m KTrack = attr st m KTrack).
  { intros m. apply U0. right. discriminate. }
  destruct U0 as [A0 F0]. clearbody s0.
  assert (Hz : match zattr s0 x KTrack with Some t => t =? oldT | None => false end = true <-> trk st x = Some oldT).
  { unfold trk, zattr. rewrite T0. destruct (attr st x KTrack) as [[z| | | |]|]; try (split; discriminate).
    rewrite Z.eqb_eq. split; [now intros ->|now intros [= ->]]. }
  destruct flag.
  - destruct (match zattr s0 x KTrack with Some t => t =? oldT | None => false end) eqn:Ez.
    + intros H. inversion H; subst. clear H. assert (Ht : trk st x = Some oldT) by (now apply Hz).
      assert (Hx : is_node s0 x).
      { apply (attr_upd_is_node _ _ x A0). unfold trk in Ht. eapply zattr_is_node; eauto. }
      split; [eapply attr_upd_trans; [exact A0|apply attr_upd_sna]|]. split; [reflexivity|]. split; [|split; [|split]].
      * intros m k H1 H2. rewrite sna_attr_other by (now right). apply F0. right. exact H2.
      * intros l El Hn. rewrite sna_attr_other by (right; discriminate). now apply L0.
      * intros m Hm. rewrite sna_attr_other by (right; discriminate). now apply L1.
      * left. split; [split; [reflexivity|exact Ht]|]. split; [reflexivity|]. split; [reflexivity|].
        split; [now apply sna_attr_same|]. intros m Hm. rewrite sna_attr_other by (now left). apply T0.
    + intros H. inversion H; subst. clear H.
      split; [exact A0|]. split; [reflexivity|]. split; [|split; [exact L0|split; [exact L1|]]].
      * intros m k H1 H2. apply F0. now right.
      * right. split; [|split; [reflexivity|split; [reflexivity|exact T0]]].
        intros [_ Ht]. apply Hz in Ht. congruence.
  - intros H. inversion H; subst. clear H.
    split; [exact A0|]. split; [reflexivity|]. split; [|split; [exact L0|split; [exact L1|]]].
    + intros m k H1 H2. apply F0. now right.
    + right. split; [|split; [reflexivity|split; [reflexivity|exact T0]]]. intros [Hf _]. discriminate.
Qed.

Lemma visit1_fold_spec oldT newT newL vis : forall st flag tn ln st1 flag1 tn1 ln1,
  fold_left (visit1 oldT newT newL) vis (st, flag, tn, ln) = (st1, flag1, tn1, ln1) ->
  attr_upd st st1 /\
  ln1 = ln ++ (match newL with Some _ => vis | None => [] end) /\
  (forall m k, k <> KTrack -> k <> KLin -> attr st1 m k = attr st m k) /\
  (forall m l, newL = Some l -> In m vis -> is_node st m -> attr st1 m KLin = Some (VZ l)) /\
  (forall m, (newL = None \/ ~ In m vis) -> attr st1 m KLin = attr st m KLin) /\
  exists tnew, tn1 = tn ++ tnew /\ incl tnew vis /\ (flag = false -> tnew = []) /\
    (NoDup vis -> NoDup tnew) /\
    (forall x r, vis = x :: r -> flag = true -> trk st x = Some oldT -> In x tnew) /\
    (forall m, In m tnew -> trk st m = Some oldT /\ attr st1 m KTrack = Some (VZ newT)) /\
    (forall m, ~ In m tnew -> attr st1 m KTrack = attr st m KTrack).
Proof.
  induction vis as [|x r IH]; intros st flag tn ln st1 flag1 tn1 ln1 H.
  - cbn in H. inversion H; subst. split; [apply attr_upd_refl|]. split; [destruct newL; now rewrite app_nil_r|].
    split; [reflexivity|]. split; [intros m l _ []|]. split; [reflexivity|].
    exists []. split; [now rewrite app_nil_r|]. split; [intros m []|]. split; [reflexivity|]. split; [constructor|].
    split; [discriminate|]. split; [intros m []|reflexivity].
  - cbn [fold_left] in H. destruct (visit1 oldT newT newL (st, flag, tn, ln) x) as [[[sa fa] tna] lna] eqn:Ev.
    destruct (visit1_spec _ _ _ _ _ _ _ _ _ _ _ _ Ev) as (A0 & Eln & F0 & L0 & L1 & HT).
    destruct (IH _ _ _ _ _ _ _ _ H) as (A1 & Eln1 & F1 & Lr & Lr2 & tnew' & Etn & Hincl & Hfl & Hnd & _ & T1 & T2).
    split; [eapply attr_upd_trans; eauto|]. split; [|split; [|split; [|split]]].
    + rewrite Eln1, Eln. destruct newL; [now rewrite <- app_assoc|now rewrite app_nil_r].
    + intros m k H1 H2. now rewrite F1, F0.
    + intros m l El Hi Hn. destruct (in_dec Z.eq_dec m r) as [Hr|Hr].
      * apply (Lr m l El Hr). now apply (attr_upd_is_node _ _ m A0).
      * destruct Hi as [<-|Hi]; [|contradiction]. rewrite Lr2 by (now right). now apply L0.
    + intros m Hm. rewrite Lr2, L1; [reflexivity| |].
      * destruct Hm as [Hm|Hm]; [now left|right; intros ->; apply Hm; now left].
      * destruct Hm as [Hm|Hm]; [now left|right; intros Hi; apply Hm; now right].
    + destruct HT as [([Hf Ht] & Efa & Etna & Tx & Tm)|(Hno & Efa & Etna & Tm)].
      * exists (x :: tnew'). split; [rewrite Etn, Etna, <- app_assoc; reflexivity|].
        split; [intros m [<-|Hm]; [now left|right; now apply Hincl]|]. split; [congruence|].
        split; [intros Hn; inversion Hn as [|? ? Hx Hr]; subst; constructor; [intros Hi; apply Hx; now apply Hincl|auto]|].
        split; [intros x0 r0 E _ _; injection E as <- <-; now left|]. split.
        -- intros m Hm. destruct (in_dec Z.eq_dec m tnew') as [Hi|Hi].
           ++ destruct (T1 m Hi) as [B C]. split; [|exact C]. destruct (Z.eq_dec m x) as [->|Hne]; [exact Ht|].
              unfold trk, zattr in *. now rewrite <- Tm.
           ++ destruct Hm as [<-|Hm]; [|contradiction]. split; [exact Ht|]. now rewrite T2.
        -- intros m Hm. rewrite T2 by (intros Hi; apply Hm; now right). apply Tm. intros ->. apply Hm. now left.
      * specialize (Hfl Efa). subst tnew'. exists []. split; [rewrite Etn, Etna; reflexivity|].
        split; [intros m []|]. split; [reflexivity|]. split; [constructor|].
        split; [intros x0 r0 E Hf Ht; injection E as <- <-; exfalso; apply Hno; now split|].
        split; [intros m []|]. intros m _. rewrite T2 by (intros []). apply Tm.
Qed.

Lemma visit_fold oldT newT newL curr : forall st flag tn ln next,
  fold_left (visit oldT newT newL) curr (st, flag, tn, ln, next) =
  let '(st', flag', tn', ln') := fold_left (visit1 oldT newT newL) curr (st, flag, tn, ln) in
  (st', flag', tn', ln', next ++ flat_map (successors st) curr).
Proof.
  induction curr as [|x r IH]; intros st flag tn ln next; cbn [fold_left flat_map]; [now rewrite app_nil_r|].
  rewrite visit_visit1. destruct (visit1 oldT newT newL (st, flag, tn, ln) x) as [[[sa fa] tna] lna] eqn:Ev.
  rewrite IH. destruct (visit1_spec _ _ _ _ _ _ _ _ _ _ _ _ Ev) as (A0 & _).
  rewrite (flat_map_ext _ _ (fun u => attr_upd_successors _ _ u A0)), <- app_assoc. reflexivity.
Qed.

Lemma bfs_ext fuel : forall st st' curr,
  (forall u, successors st' u = successors st u) -> bfs fuel st' curr = bfs fuel st curr.
Proof.
  induction fuel as [|f IH]; intros st st' curr Hs; destruct curr as [|c cs]; cbn [bfs]; try reflexivity.
  rewrite (flat_map_ext _ _ Hs). now rewrite (IH st st').
Qed.

Lemma walk_bfs oldT newT newL fuel : forall st curr flag tn ln st1 tn1 ln1,
  walk fuel oldT newT newL st curr flag tn ln = Some (st1, tn1, ln1) ->
  exists vis flag1, bfs fuel st curr = Some vis /\
    fold_left (visit1 oldT newT newL) vis (st, flag, tn, ln) = (st1, flag1, tn1, ln1).
Proof.
  induction fuel as [|f IH]; intros st curr flag tn ln st1 tn1 ln1 H; destruct curr as [|c cs]; cbn [walk] in H.
  - inversion H; subst. exists [], flag. split; reflexivity.
  - discriminate.
  - inversion H; subst. exists [], flag. split; reflexivity.
  - rewrite visit_fold in H.
    destruct (fold_left (visit1 oldT newT newL) (c :: cs) (st, flag, tn, ln)) as [[[sa fa] tna] lna] eqn:Ef.
    rewrite app_nil_l in H. apply IH in H. destruct H as (vis & flag1 & Eb & Efold).
    destruct (visit1_fold_spec _ _ _ _ _ _ _ _ _ _ _ _ Ef) as (A0 & _).
    rewrite (bfs_ext f st sa) in Eb by (intros u; now apply attr_upd_successors).
    exists ((c :: cs) ++ vis), flag1. split; [cbn [bfs]; now rewrite Eb|].
    rewrite fold_left_app, Ef. exact Efold.
Qed.

(* every visited node satisfies any predicate that holds of the start level and is closed under successors *)
Lemma bfs_inv (Q : Z -> Prop) st :
  (forall u v, Q u -> In v (successors st u) -> Q v) ->
  forall fuel curr vis, (forall c, In c curr -> Q c) -> bfs fuel st curr = Some vis -> forall n, In n vis -> Q n.
Proof.
  intros Hcl. induction fuel as [|f IH]; intros curr vis Hc H; destruct curr as [|c cs]; cbn [bfs] in H;
    try (inversion H; subst; intros n []); try discriminate.
  destruct (bfs f st (flat_map (successors st) (c :: cs))) as [r|] eqn:Er; [|discriminate]. inversion H; subst.
  intros n Hn. change (In n ((c :: cs) ++ r)) in Hn. apply in_app_iff in Hn. destruct Hn as [Hn|Hn]; [now apply Hc|].
  apply (IH _ _ (fun x Hx => match proj1 (in_flat_map _ _ _) Hx with ex_intro _ u (conj Hu Hv) => Hcl u x (Hc u Hu) Hv end) Er n Hn).
Qed.

Lemma upd_track_walk st start oldT newT newL st1 tn ln :
  W_dict st -> is_node st start -> trk st start = Some oldT ->
  walk (S (length (nodes (g st)))) oldT newT newL st [start] true [] [] = Some (st1, tn, ln) ->
  exists vis, bfs (S (length (nodes (g st)))) st [start] = Some vis /\
    attr_upd st st1 /\
    (forall m k, k <> KTrack -> k <> KLin -> attr st1 m k = attr st m k) /\
    In start vis /\ (forall m, In m vis -> is_node st m) /\
    ln = (match newL with Some _ => vis | None => [] end) /\
    (forall m l, newL = Some l -> In m vis -> attr st1 m KLin = Some (VZ l)) /\
    (forall m, (newL = None \/ ~ In m vis) -> attr st1 m KLin = attr st m KLin) /\
    incl tn vis /\ In start tn /\ (NoDup vis -> NoDup tn) /\
    (forall m, In m tn -> trk st m = Some oldT /\ attr st1 m KTrack = Some (VZ newT)) /\
    (forall m, ~ In m tn -> attr st1 m KTrack = attr st m KTrack).
Proof.
  intros W Hs Ht Hw. destruct (walk_bfs _ _ _ _ _ _ _ _ _ _ _ _ Hw) as (vis & flag1 & Eb & Ef).
  destruct (visit1_fold_spec _ _ _ _ _ _ _ _ _ _ _ _ Ef) as (A & Eln & F & L1 & L2 & tnew & Etn & Hincl & _ & Hnd & Hhd & T1 & T2).
  cbn [app] in Etn, Eln. subst tnew.
  assert (Hvn : forall m, In m vis -> is_node st m).
  { apply (bfs_inv (is_node st) st) with (fuel := S (length (nodes (g st)))) (curr := [start]); [|intros c [<-|[]]; exact Hs|exact Eb].
    intros u v _ Hv. apply (wd_edge_nodes st W u v). now apply edge_successors. }
  assert (Hsv : exists r, vis = start :: r).
  { cbn [bfs] in Eb. destruct (bfs _ st (flat_map (successors st) [start])) as [r|]; [|discriminate]. inversion Eb. now exists r. }
  destruct Hsv as [r Er].
  exists vis. split; [exact Eb|]. split; [exact A|]. split; [exact F|]. split; [rewrite Er; now left|]. split; [exact Hvn|].
  split; [exact Eln|]. split; [intros m l El Hm; apply (L1 m l El Hm); now apply Hvn|]. split; [exact L2|].
  split; [exact Hincl|]. split; [apply (Hhd start r Er eq_refl Ht)|]. split; [exact Hnd|]. split; [exact T1|exact T2].
Qed.

Lemma do_upd_track_inv st start newT newL b st' :
  cfg_ok st -> do_upd_track st start newT newL = Ok b st' ->
  exists oldT st1 tn ln, is_node st start /\ trk st start = Some oldT /\
    walk (S (length (nodes (g st)))) oldT newT newL st [start] true [] [] = Some (st1, tn, ln) /\
    st' = upd_bk st1
      {| trk_book := book_add_extend (book_remove (trk_book (bk st1)) tn oldT) tn newT;
         lin_book := match newL with
                     | Some l => book_add_dedup (match lin st start with Some o => book_remove (lin_book (bk st1)) ln o | None => lin_book (bk st1) end) ln l
                     | None => lin_book (bk st1) end;
         max_trk := Z.max (max_trk (bk st1)) newT;
         max_lin := match newL with Some l => Z.max (max_lin (bk st1)) l | None => max_lin (bk st1) end |}.
Proof.
  intros (Cta & Cla & _). unfold do_upd_track. destruct (has_node st start) eqn:Eh; [|discriminate]. cbn [negb].
  destruct (zattr st start KTrack) as [oldT|] eqn:Et; [|discriminate]. rewrite Cta, Cla. cbn [negb].
  destruct (walk _ oldT newT newL st [start] true [] []) as [[[st1 tn] ln]|] eqn:Ew; [|discriminate].
  intros H. exists oldT, st1, tn, ln. split; [now apply has_node_is_node|]. split; [exact Et|]. split; [exact Ew|].
  destruct newL as [l|]; inversion H; reflexivity.
Qed.

(* W_book after UpdateTrackIDs, from the two facts about the visited nodes the Python code relies on:
   no node is visited twice, and (when a lineage id is written) all of them carry the lineage id of
   the start node *)
Theorem upd_track_W_book_vis st start newT newL b st' :
  cfg_ok st -> W_dict st -> W_book st ->
  do_upd_track st start newT newL = Ok b st' ->
  (forall vis, bfs (S (length (nodes (g st)))) st [start] = Some vis ->
     NoDup vis /\ (newL <> None -> forall n, In n vis -> lin st n = lin st start)) ->
  W_book st'.
Proof.
  intros C WD [WT WL] H Hvis. destruct (do_upd_track_inv _ _ _ _ _ _ C H) as (oldT & st1 & tn & ln & Hs & Ht & Hw & ->).
  destruct (upd_track_walk _ _ _ _ _ _ _ _ WD Hs Ht Hw) as (vis & Eb & A & F & Hsv & Hvn & Eln & L1 & L2 & Hincl & Hst & Hnd & T1 & T2).
  destruct (Hvis vis Eb) as [Hndv Hun]. specialize (Hnd Hndv).
  assert (Hin : forall s m, node_ids s = node_ids st1 -> (is_node s m <-> is_node st m)).
  { intros s m Es. unfold is_node. now rewrite Es, (au_ids _ _ A). }
  rewrite book_ok_bok in WT, WL. rewrite (au_bk _ _ A).
  split; rewrite book_ok_bok; cbn [bk upd_bk trk_book lin_book max_trk max_lin].
  - (* tracklet lookup *)
    match goal with |- bok _ _ (trk ?s) _ => change (trk s) with (trk st1) end.
    eapply bok_ext_simple; [| |apply bok_add_extend with (P := fun m => is_node st m /\ ~ In m tn) (idof := trk st1) (ns := tn)].
    + intros m. rewrite (Hin _ m eq_refl). split; [intros [[X _]|X]; [exact X|apply Hvn, Hincl, X]|].
      intros X. destruct (in_dec Z.eq_dec m tn); [now right|left; now split].
    + reflexivity.
    + eapply bok_ext_simple; [| |apply bok_remove with (ns := tn) (id := oldT); [exact WT|]].
      * reflexivity.
      * intros m [_ Hm]. unfold trk, zattr. now rewrite T2.
      * intros m Hm _. apply T1, Hm.
    + exact Hnd.
    + intros E. rewrite E in Hst. destruct Hst.
    + intros m Hm [_ X]. contradiction.
    + intros m Hm. unfold trk. apply zattr_VZ. apply T1, Hm.
  - (* lineage lookup *)
    match goal with |- bok _ _ (lin ?s) _ => change (lin s) with (lin st1) end.
    destruct newL as [l|].
    + destruct (wd_lin st WD start Hs) as [o Eo]. apply zattr_VZ in Eo. change (lin st start = Some o) in Eo. rewrite Eo.
      subst ln.
      eapply bok_ext_simple; [| |apply bok_add_dedup with (P := fun m => is_node st m /\ ~ In m vis) (idof := lin st1) (ns := vis)].
      * intros m. rewrite (Hin _ m eq_refl). split; [intros [[X _]|X]; [exact X|apply Hvn, X]|].
        intros X. destruct (in_dec Z.eq_dec m vis); [now right|left; now split].
      * reflexivity.
      * eapply bok_ext_simple; [| |apply bok_remove with (ns := vis) (id := o); [exact WL|]].
        -- reflexivity.
        -- intros m [_ Hm]. unfold lin, zattr. now rewrite L2 by (now right).
        -- intros m Hm _. rewrite (Hun ltac:(discriminate) m Hm). exact Eo.
      * intros E. rewrite E in Hsv. destruct Hsv.
      * intros m Hm. unfold lin. apply zattr_VZ. now apply (L1 m l).
    + eapply bok_ext_simple; [| |exact WL].
      * intros m. symmetry. now apply Hin.
      * intros m _. unfold lin, zattr. now rewrite L2 by (now left).
Qed.

Theorem upd_track_W_dict st start newT newL b st' :
  cfg_ok st -> W_dict st -> do_upd_track st start newT newL = Ok b st' -> W_dict st'.
Proof.
  intros C WD H. destruct (do_upd_track_inv _ _ _ _ _ _ C H) as (oldT & st1 & tn & ln & Hs & Ht & Hw & ->).
  destruct (upd_track_walk _ _ _ _ _ _ _ _ WD Hs Ht Hw) as (vis & Eb & A & F & Hsv & Hvn & Eln & L1 & L2 & Hincl & Hst & Hnd & T1 & T2).
  apply (W_dict_same_g st1); [reflexivity|]. revert WD. apply W_dict_ext.
  - apply A.
  - now rewrite (au_succs _ _ A).
  - intros u. now apply attr_upd_successors.
  - intros n k Hn [->|[->| ->]] z Hz.
    + exists z. rewrite F; [exact Hz|discriminate|discriminate].
    + destruct (in_dec Z.eq_dec n tn) as [Hi|Hi]; [exists newT; apply T1, Hi|exists z; now rewrite T2].
    + destruct newL as [l|].
      * destruct (in_dec Z.eq_dec n vis) as [Hi|Hi]; [exists l; now apply (L1 n l)|exists z; rewrite L2; auto].
      * exists z. rewrite L2; auto.
  - apply A.
Qed.

(* ================================================================== *)
(* 7. queries: get_track_neighbors, has_track_at                        *)
(* ================================================================== *)
Definition tle st (a b : Z) : Prop := time_of st a <= time_of st b.

Lemma insert_by_time_perm st x l : Permutation (x :: l) (insert_by_time st x l).
Proof.
  induction l as [|y r IH]; cbn [insert_by_time]; [apply Permutation_refl|].
  destruct (time_of st x <? time_of st y); [apply Permutation_refl|].
  eapply Permutation_trans; [apply perm_swap|]. now apply perm_skip.
Qed.
Lemma insert_by_time_sorted st x l : StronglySorted (tle st) l -> StronglySorted (tle st) (insert_by_time st x l).
Proof.
  induction l as [|y r IH]; cbn [insert_by_time]; intros Hs; [repeat constructor|].
  apply StronglySorted_inv in Hs. destruct Hs as [Hr Hy].
  destruct (Z.ltb_spec (time_of st x) (time_of st y)) as [Hlt|Hge].
  - constructor; [constructor; assumption|]. constructor; [unfold tle; lia|].
    eapply Forall_impl; [|exact Hy]. unfold tle. intros a Ha. lia.
  - constructor; [now apply IH|]. apply Forall_forall. intros a Ha.
    apply (Permutation_in _ (Permutation_sym (insert_by_time_perm st x r))) in Ha. destruct Ha as [<-|Ha].
    + unfold tle. lia.
    + rewrite Forall_forall in Hy. now apply Hy.
Qed.
Lemma sort_by_time_perm st l : Permutation l (sort_by_time st l).
Proof.
  unfold sort_by_time. rewrite <- (app_nil_r l) at 1. generalize (@nil Z) as acc.
  induction l as [|x r IH]; intros acc; cbn [fold_left app]; [apply Permutation_refl|].
  eapply Permutation_trans; [|apply IH]. eapply Permutation_trans; [apply Permutation_middle|].
  apply Permutation_app_head. apply insert_by_time_perm.
Qed.
Lemma sort_by_time_sorted st l : StronglySorted (tle st) (sort_by_time st l).
Proof.
  unfold sort_by_time. assert (G : forall acc, StronglySorted (tle st) acc ->
    StronglySorted (tle st) (fold_left (fun acc x => insert_by_time st x acc) l acc)).
  { induction l as [|x r IH]; intros acc Ha; cbn [fold_left]; [exact Ha|]. apply IH. now apply insert_by_time_sorted. }
  apply G. constructor.
Qed.

Definition best_before st (t : Z) (l : list Z) (p : option Z) : Prop :=
  match p with
  | Some n => In n l /\ time_of st n < t /\ forall m, In m l -> time_of st m < t -> time_of st m <= time_of st n
  | None => forall m, In m l -> ~ time_of st m < t
  end.
Definition best_after st (t : Z) (l : list Z) (s : option Z) : Prop :=
  match s with
  | Some n => In n l /\ t < time_of st n /\ forall m, In m l -> t < time_of st m -> time_of st n <= time_of st m
  | None => forall m, In m l -> ~ t < time_of st m
  end.

Lemma scan_neighbors_spec st t l : StronglySorted (tle st) l -> forall pred p s,
  scan_neighbors st t l pred = (p, s) ->
  ((p = pred /\ forall m, In m l -> ~ time_of st m < t) \/ (exists n, p = Some n /\ best_before st t l p)) /\
  best_after st t l s.
Proof.
  induction l as [|c r IH]; intros Hs pred p s H; cbn [scan_neighbors] in H.
  - inversion H; subst. split; [left; split; [reflexivity|intros m []]|intros m []].
  - apply StronglySorted_inv in Hs. destruct Hs as [Hr Hc]. rewrite Forall_forall in Hc. unfold tle in Hc.
    destruct (Z.ltb_spec (time_of st c) t) as [Hlt|Hge].
    + destruct (IH Hr _ _ _ H) as [HP HS]. split.
      * right. destruct HP as [[-> Hno]|(n & -> & Hi & Hn & Hmax)].
        -- exists c. split; [reflexivity|]. split; [now left|split; [exact Hlt|]].
           intros m [<-|Hm] Hmt; [lia|]. exfalso. now apply (Hno m).
        -- exists n. split; [reflexivity|]. split; [now right|split; [exact Hn|]].
           intros m [<-|Hm] Hmt; [now apply Hc|now apply Hmax].
      * destruct s as [n|]; cbn in *.
        -- destruct HS as (Hi & Hn & Hmin). split; [now right|split; [exact Hn|]].
           intros m [<-|Hm] Hmt; [lia|now apply Hmin].
        -- intros m [<-|Hm]; [lia|now apply HS].
    + destruct (Z.gtb_spec (time_of st c) t) as [Hgt|Hle].
      * inversion H; subst. split.
        -- left. split; [reflexivity|]. intros m [<-|Hm]; [lia|]. specialize (Hc m Hm). lia.
        -- cbn. split; [now left|split; [exact Hgt|]]. intros m [<-|Hm] _; [lia|now apply Hc].
      * destruct (IH Hr _ _ _ H) as [HP HS]. split.
        -- destruct HP as [[-> Hno]|(n & -> & Hi & Hn & Hmax)].
           ++ left. split; [reflexivity|]. intros m [<-|Hm]; [lia|now apply Hno].
           ++ right. exists n. split; [reflexivity|]. split; [now right|split; [exact Hn|]].
              intros m [<-|Hm] Hmt; [lia|now apply Hmax].
        -- destruct s as [n|]; cbn in *.
           ++ destruct HS as (Hi & Hn & Hmin). split; [now right|split; [exact Hn|]].
              intros m [<-|Hm] Hmt; [lia|now apply Hmin].
           ++ intros m [<-|Hm]; [lia|now apply HS].
Qed.

Lemma best_before_perm st t l l' p : (forall x, In x l <-> In x l') -> best_before st t l p -> best_before st t l' p.
Proof.
  intros Hl. destruct p as [n|]; cbn.
  - intros (A & B & C). split; [now apply Hl|split; [exact B|]]. intros m Hm. apply C. now apply Hl.
  - intros A m Hm. apply A. now apply Hl.
Qed.
Lemma best_after_perm st t l l' s : (forall x, In x l <-> In x l') -> best_after st t l s -> best_after st t l' s.
Proof.
  intros Hl. destruct s as [n|]; cbn.
  - intros (A & B & C). split; [now apply Hl|split; [exact B|]]. intros m Hm. apply C. now apply Hl.
  - intros A m Hm. apply A. now apply Hl.
Qed.

(* [st'] is [st] except that the lookup list of track T was reordered *)
Definition reordered (T : Z) (st st' : state) : Prop :=
  g st' = g st /\ seg st' = seg st /\ ft st' = ft st /\ undo_stack st' = undo_stack st /\
  redo_stack st' = redo_stack st /\ rlog st' = rlog st /\ nctr st' = nctr st /\
  lin_book (bk st') = lin_book (bk st) /\ max_trk (bk st') = max_trk (bk st) /\ max_lin (bk st') = max_lin (bk st) /\
  keys (trk_book (bk st')) = keys (trk_book (bk st)) /\
  (forall T', T' <> T -> lookup T' (trk_book (bk st')) = lookup T' (trk_book (bk st))) /\
  (forall l, lookup T (trk_book (bk st)) = Some l -> exists l', lookup T (trk_book (bk st')) = Some l' /\ Permutation l l').
Lemma reordered_refl T st : reordered T st st.
Proof. unfold reordered. do 11 (split; [reflexivity|]). split; [reflexivity|]. intros l E. exists l. split; [exact E|apply Permutation_refl]. Qed.

(* the scan of the graph the query is compared with *)
Definition track_nodes st (T : Z) (n : Z) : Prop := is_node st n /\ trk st n = Some T.
Definition pred_in_track st (T t : Z) (p : option Z) : Prop :=
  match p with
  | Some n => track_nodes st T n /\ time_of st n < t /\ forall m, track_nodes st T m -> time_of st m < t -> time_of st m <= time_of st n
  | None => forall m, track_nodes st T m -> ~ time_of st m < t
  end.
Definition succ_in_track st (T t : Z) (s : option Z) : Prop :=
  match s with
  | Some n => track_nodes st T n /\ t < time_of st n /\ forall m, track_nodes st T m -> t < time_of st m -> time_of st n <= time_of st m
  | None => forall m, track_nodes st T m -> ~ t < time_of st m
  end.

Theorem track_neighbors_spec st T t st' p s :
  W_book st -> track_neighbors st T t = (st', (p, s)) ->
  reordered T st st' /\ W_book st' /\ pred_in_track st T t p /\ succ_in_track st T t s.
Proof.
  intros [WT WL] H. assert (WT0 := WT). rewrite book_ok_bok in WT. destruct WT as (Hk & Hl & Hn).
  unfold track_neighbors in H. destruct (lookup T (trk_book (bk st))) as [l|] eqn:El.
  - destruct (Hl T l El) as (Hne & Hnd & Hin).
    assert (Hsort : StronglySorted (tle st) (sort_by_time st l)) by apply sort_by_time_sorted.
    assert (Hperm : Permutation l (sort_by_time st l)) by apply sort_by_time_perm.
    assert (Hmem : forall x, In x (sort_by_time st l) <-> track_nodes st T x).
    { intros x. unfold track_nodes. rewrite <- Hin. split; apply Permutation_in; [now apply Permutation_sym|exact Hperm]. }
    destruct l as [|x0 l0]; [now contradiction Hne|].
    remember (x0 :: l0) as l eqn:Heql. clear Heql x0 l0.
    inversion H as [[Hst Hscan]]. clear H.
    destruct (scan_neighbors_spec st t _ Hsort None p s Hscan) as [HP HS].
    split; [|split; [|split]].
    + unfold reordered. cbn. do 10 (split; [reflexivity|]).
      split; [apply keys_set_in; eapply lookup_Some_keys; eauto|].
      split; [intros T' HT; now apply lookup_set_neq|]. intros l1 E1. rewrite El in E1. injection E1 as <-.
      exists (sort_by_time st l). split; [apply lookup_set_eq|exact Hperm].
    + split; rewrite book_ok_bok; cbn.
      * apply (bok_permute (is_node st) (trk_book (bk st)) (trk st) (max_trk (bk st)) T l); [|exact El|exact Hperm].
        split; [exact Hk|split; [exact Hl|exact Hn]].
      * exact WL.
    + destruct HP as [[-> Hno]|(n & -> & Hb)].
      * cbn. intros m Hm. apply Hno. now apply Hmem.
      * cbn in Hb |- *. destruct Hb as (A & B & C). split; [now apply Hmem|split; [exact B|]].
        intros m Hm. apply C. now apply Hmem.
    + destruct s as [n|]; cbn in HS |- *.
      * destruct HS as (A & B & C). split; [now apply Hmem|split; [exact B|]]. intros m Hm. apply C. now apply Hmem.
      * intros m Hm. apply HS. now apply Hmem.
  - injection H as <- <- <-. split; [apply reordered_refl|]. split; [split; assumption|].
    assert (Hnone : forall m, ~ track_nodes st T m).
    { intros m [A B]. destruct (Hn m T A B) as [Hh _]. unfold haskey in Hh. rewrite El in Hh. discriminate. }
    split; cbn; intros m Hm; exfalso; exact (Hnone m Hm).
Qed.

Theorem has_track_at_spec st T t :
  W_book st -> (has_track_at st T t = true <-> exists n, is_node st n /\ trk st n = Some T /\ time_of st n = t).
Proof.
  intros [WT _]. rewrite book_ok_bok in WT. destruct WT as (Hk & Hl & Hn). unfold has_track_at.
  destruct (lookup T (trk_book (bk st))) as [l|] eqn:El.
  - destruct (Hl T l El) as (_ & _ & Hin). rewrite existsb_exists. split.
    + intros (n & Hi & E). apply Z.eqb_eq in E. apply Hin in Hi. exists n. tauto.
    + intros (n & A & B & C). exists n. split; [apply Hin; tauto|now apply Z.eqb_eq].
  - split; [discriminate|]. intros (n & A & B & _). destruct (Hn n T A B) as [Hh _]. unfold haskey in Hh.
    rewrite El in Hh. discriminate.
Qed.

(* ================================================================== *)
(* 8. fresh ids                                                        *)
(* ================================================================== *)
Theorem next_trk_fresh st : W_book st -> forall n, is_node st n -> trk st n <> Some (next_trk st).
Proof.
  intros [WT _] n Hn E. rewrite book_ok_bok in WT. destruct WT as (_ & _ & H). destruct (H n _ Hn E) as [_ Hle].
  unfold next_trk in Hle. lia.
Qed.
Theorem next_lin_fresh st : W_book st -> forall n, is_node st n -> lin st n <> Some (next_lin st).
Proof.
  intros [_ WL] n Hn E. rewrite book_ok_bok in WL. destruct WL as (_ & _ & H). destruct (H n _ Hn E) as [_ Hle].
  unfold next_lin in Hle. lia.
Qed.

(* if the loop stops on a used id, it has tested [fuel] pairwise distinct used ids *)
Lemma skip_used_fuel st : forall fuel id c id' c',
  id < c -> skip_used fuel st id c = (id', c') -> has_node st id' = true ->
  exists l, NoDup l /\ length l = fuel /\ forall x, In x l -> (x = id \/ c <= x) /\ has_node st x = true.
Proof.
  induction fuel as [|f IH]; intros id c id' c' Hlt H Hh; cbn [skip_used] in H.
  - exists []. split; [constructor|split; [reflexivity|intros x []]].
  - destruct (has_node st id) eqn:Ei; [|inversion H; subst; congruence].
    destruct (IH c (c + 1) id' c' ltac:(lia) H Hh) as (l & Hnd & Hlen & Hl).
    exists (id :: l). split; [|split; [cbn; now rewrite Hlen|]].
    + constructor; [|exact Hnd]. intros Hi. destruct (Hl id Hi) as [[E|E] _]; lia.
    + intros x [<-|Hx]; [split; [now left|exact Ei]|]. destruct (Hl x Hx) as [[E|E] Hx2]; (split; [right; lia|exact Hx2]).
Qed.

Lemma skip_used_spec st id c id' c' :
  id < c -> skip_used (S (length (nodes (g st)))) st id c = (id', c') ->
  ~ is_node st id' /\ c <= c' /\ ((id' = id /\ c' = c) \/ (c <= id' /\ id' < c')).
Proof.
  intros Hlt H. split.
  - apply has_node_false. destruct (has_node st id') eqn:Eh; [|reflexivity]. exfalso.
    destruct (skip_used_fuel st _ _ _ _ _ Hlt H Eh) as (l & Hnd & Hlen & Hl).
    assert (Hincl : incl l (node_ids st)) by (intros x Hx; apply has_node_is_node; apply Hl, Hx).
    apply (NoDup_incl_length Hnd) in Hincl. unfold node_ids, keys in Hincl. rewrite map_length in Hincl. lia.
  - revert id c Hlt H. generalize (S (length (nodes (g st)))) as fuel.
    induction fuel as [|f IH]; intros id c Hlt H; cbn [skip_used] in H.
    + inversion H; subst. split; [lia|now left].
    + destruct (has_node st id); [|inversion H; subst; split; [lia|now left]].
      destruct (IH c (c + 1) ltac:(lia) H) as [A [[-> ->]|B]]; split; try lia; right; lia.
Qed.

Lemma new_ids_loop_spec st : forall ids c ids' c',
  NoDup ids -> (forall i, In i ids -> i < c) -> new_ids_loop st ids c = (ids', c') ->
  length ids' = length ids /\ NoDup ids' /\ c <= c' /\
  forall x, In x ids' -> ~ is_node st x /\ (In x ids \/ (c <= x /\ x < c')).
Proof.
  induction ids as [|i r IH]; intros c ids' c' Hnd Hlt H; cbn [new_ids_loop] in H.
  - inversion H; subst. split; [reflexivity|split; [constructor|split; [lia|intros x []]]].
  - destruct (skip_used (S (length (nodes (g st)))) st i c) as [i1 c1] eqn:Es.
    destruct (new_ids_loop st r c1) as [r1 c2] eqn:El. inversion H; subst. clear H.
    inversion Hnd as [|? ? Hi Hr]; subst.
    destruct (skip_used_spec st i c i1 c1 (Hlt i (or_introl eq_refl)) Es) as (Hfresh & Hc & Hcase).
    destruct (IH c1 r1 c' Hr (fun x Hx => Z.lt_le_trans _ _ _ (Hlt x (or_intror Hx)) Hc) El) as (Hlen & Hnd1 & Hc1 & Hall).
    split; [cbn; now rewrite Hlen|]. split; [|split; [lia|]].
    + constructor; [|exact Hnd1]. intros Hi1. destruct (Hall i1 Hi1) as [_ [Hir|Hrange]].
      * destruct Hcase as [[-> _]|[Hge _]]; [contradiction|]. specialize (Hlt i1 (or_intror Hir)). lia.
      * destruct Hcase as [[-> ->]|[_ Hlt1]]; [|lia]. specialize (Hlt i (or_introl eq_refl)). lia.
    + intros x [<-|Hx].
      * split; [exact Hfresh|]. destruct Hcase as [[-> _]|[A B]]; [left; now left|right; lia].
      * destruct (Hall x Hx) as [A [B|B]]; (split; [exact A|]); [left; now right|right; lia].
Qed.

Theorem get_new_node_ids_spec st k st' ids :
  get_new_node_ids st k = (st', ids) ->
  NoDup ids /\ length ids = k /\ (forall i, In i ids -> ~ is_node st i) /\
  g st' = g st /\ bk st' = bk st /\ nctr st <= nctr st'.
Proof.
  unfold get_new_node_ids.
  destruct (new_ids_loop st (map (fun i => nctr st + Z.of_nat i) (seq 0 k)) (nctr st + Z.of_nat k)) as [ids' c] eqn:El.
  intros H. inversion H; subst. clear H.
  apply new_ids_loop_spec in El.
  - destruct El as (Hlen & Hnd & Hc & Hall). rewrite map_length, seq_length in Hlen.
    split; [exact Hnd|split; [exact Hlen|split; [intros i Hi; apply Hall, Hi|]]]. cbn. split; [reflexivity|split; [reflexivity|lia]].
  - apply FinFun.Injective_map_NoDup; [intros a b E; lia|apply seq_NoDup].
  - intros i Hi. apply in_map_iff in Hi. destruct Hi as (j & <- & Hj). apply in_seq in Hj. lia.
Qed.

(* ================================================================== *)
(* 9. on a forward-in-time forest the walk visits every node once, and *)
(*    an edge-wise constant lineage id is constant on the visited set  *)
(* ================================================================== *)
Inductive reach (st : state) : Z -> Z -> Prop :=
  | reach_refl u : reach st u u
  | reach_step u v w : reach st u v -> edge st v w -> reach st u w.

Lemma reach_left st u v w : edge st u v -> reach st v w -> reach st u w.
Proof. intros He H. induction H as [v|v x y _ IH Hxy]; [eapply reach_step; [apply reach_refl|exact He]|eapply reach_step; eauto]. Qed.

Lemma reach_time st : (forall u v, edge st u v -> time_of st u < time_of st v) ->
  forall u v, reach st u v -> time_of st u <= time_of st v.
Proof. intros Ht u v H. induction H as [u|u x y _ IH Hxy]; [lia|]. specialize (Ht x y Hxy). lia. Qed.

Lemma NoDup_flat_map (f : Z -> list Z) (l : list Z) :
  NoDup l -> (forall a, In a l -> NoDup (f a)) ->
  (forall a b x, In a l -> In b l -> In x (f a) -> In x (f b) -> a = b) -> NoDup (flat_map f l).
Proof.
  induction l as [|a r IH]; intros Hnd Hf Hd; cbn [flat_map]; [constructor|].
  inversion Hnd as [|? ? Ha Hr]; subst. apply NoDup_app_intro.
  - apply Hf. now left.
  - apply IH; [exact Hr|intros b Hb; apply Hf; now right|].
    intros b c x Hb Hc. apply Hd; now right.
  - intros x Hx Hx2. apply in_flat_map in Hx2. destruct Hx2 as (b & Hb & Hxb).
    assert (a = b) by (apply (Hd a b x); [now left|now right|exact Hx|exact Hxb]). subst b. contradiction.
Qed.

Lemma bfs_forest st :
  W_dict st -> (forall u u' v, edge st u v -> edge st u' v -> u = u') ->
  (forall u v, edge st u v -> time_of st u < time_of st v) ->
  forall fuel curr vis, NoDup curr -> (forall a b, In a curr -> In b curr -> reach st a b -> a = b) ->
  bfs fuel st curr = Some vis -> NoDup vis /\ forall n, In n vis -> exists c, In c curr /\ reach st c n.
Proof.
  intros WD Hin Htime. induction fuel as [|f IH]; intros curr vis Hnd Hanti H; destruct curr as [|c0 cs]; cbn [bfs] in H;
    try (inversion H; subst; split; [constructor|intros n []]); try discriminate.
  remember (c0 :: cs) as curr eqn:Ecurr. clear Ecurr c0 cs.
  destruct (bfs f st (flat_map (successors st) curr)) as [r|] eqn:Er; [|discriminate]. inversion H; subst. clear H.
  assert (Hcyc : forall a x, edge st a x -> reach st x a -> False).
  { intros a x He Hr. pose proof (Htime a x He). pose proof (reach_time st Htime x a Hr). lia. }
  assert (Hndn : NoDup (flat_map (successors st) curr)).
  { apply NoDup_flat_map; [exact Hnd|intros a _; apply (wd_adj_nodup st WD a)|].
    intros a b x _ _ Ha Hb. apply (Hin a b x); now apply edge_successors. }
  assert (Hantin : forall v w, In v (flat_map (successors st) curr) -> In w (flat_map (successors st) curr) -> reach st v w -> v = w).
  { (* the next level is an antichain *)
    intros v w Hv Hw Hvw. apply in_flat_map in Hv. destruct Hv as (a & Ha & Hav). apply in_flat_map in Hw. destruct Hw as (b & Hb & Hbw).
    apply edge_successors in Hav. apply edge_successors in Hbw.
    inversion Hvw as [|? p ? Hvp Hpw]; subst; [reflexivity|]. exfalso.
    assert (p = b) by (apply (Hin p b w); assumption). subst p.
    assert (a = b) by (apply Hanti; [exact Ha|exact Hb|eapply reach_left; eauto]). subst b.
    exact (Hcyc a v Hav Hvp). }
  destruct (IH _ _ Hndn Hantin Er) as [Hndr Hreach].
  assert (Hdown : forall n, In n r -> exists a, In a curr /\ reach st a n /\ exists x, edge st a x /\ reach st x n).
    { intros n Hn. destruct (Hreach n Hn) as (x & Hx & Hxn). apply in_flat_map in Hx. destruct Hx as (a & Ha & Hax).
    apply edge_successors in Hax. exists a. split; [exact Ha|split; [eapply reach_left; eauto|exists x; auto]]. }
  split.
  - apply NoDup_app_intro; [exact Hnd|exact Hndr|]. intros n Hn Hn2.
    destruct (Hdown n Hn2) as (a & Ha & Han & x & Hax & Hxn).
    assert (a = n) by (apply Hanti; assumption). subst a. exact (Hcyc n x Hax Hxn).
  - intros n Hn. apply in_app_iff in Hn. destruct Hn as [Hn|Hn]; [exists n; split; [exact Hn|apply reach_refl]|].
    destruct (Hdown n Hn) as (a & Ha & Han & _). exists a. auto.
Qed.

Theorem upd_track_W_book st start newT newL b st' :
  cfg_ok st -> W_dict st -> W_forest st -> (forall u v, edge st u v -> lin st u = lin st v) -> W_book st ->
  do_upd_track st start newT newL = Ok b st' -> W_book st'.
Proof.
  intros C WD WF Hl1 WB H. apply (upd_track_W_book_vis st start newT newL b st' C WD WB H).
  intros vis Eb. split.
  - apply (proj1 (bfs_forest st WD (wf_in st WF) (wf_time st WF) (S (length (nodes (g st)))) [start] vis
        ltac:(constructor; [intros []|constructor]) ltac:(intros a b' [<-|[]] [<-|[]] _; reflexivity) Eb)).
  - intros _. apply (bfs_inv (fun n => lin st n = lin st start) st) with (fuel := S (length (nodes (g st)))) (curr := [start]).
    + intros u v Hu Hv. rewrite <- Hu. symmetry. apply Hl1. now apply edge_successors.
    + intros c [<-|[]]. reflexivity.
    + exact Eb.
Qed.

(* ================================================================== *)
(* 10. the statements restated in Props/C06.v                          *)
(* ================================================================== *)
Theorem edge_attr_seg_W_book st :
  W_book st ->
  (forall u v a b st', do_add_edge st u v a = Ok b st' -> W_book st') /\
  (forall u v b st', do_del_edge st u v = Ok b st' -> W_book st') /\
  (forall n new b st', do_upd_attrs st n new = Ok b st' -> W_book st') /\
  (forall n px added b st', rp_disjoint st -> do_upd_seg st n px added = Ok b st' -> W_book st').
Proof.
  intros W. split; [|split; [|split]].
  - intros u v a b st' H. eapply add_edge_W_book; eauto.
  - intros u v b st' H. eapply del_edge_W_book; eauto.
  - intros n new b st' H. eapply upd_attrs_W_book; eauto.
  - intros n px added b st' Hrp H. eapply upd_seg_W_book; eauto.
Qed.

Theorem basic_W_dict st :
  cfg_ok st -> W_dict st ->
  (forall n a px b st' t0 T L, ~ is_node st n -> rp_disjoint st -> NoDup (keys a) ->
       lookup KTime a = Some (VZ t0) -> lookup KTrack a = Some (VZ T) -> lookup KLin a = Some (VZ L) ->
       do_add_node st n a px = Ok b st' -> W_dict st') /\
  (forall n px b st', do_del_node st n px = Ok b st' -> W_dict st') /\
  (forall u v a b st', do_add_edge st u v a = Ok b st' -> W_dict st') /\
  (forall u v b st', do_del_edge st u v = Ok b st' -> W_dict st') /\
  (forall n new b st', do_upd_attrs st n new = Ok b st' -> W_dict st') /\
  (forall n px added b st', rp_disjoint st -> do_upd_seg st n px added = Ok b st' -> W_dict st') /\
  (forall start newT newL b st', do_upd_track st start newT newL = Ok b st' -> W_dict st').
Proof.
  intros C W. split; [|split; [|split; [|split; [|split; [|split]]]]].
  - intros n a px b st' t0 T L H1 H2 H3 H4 H5 H6 H. eapply add_node_W_dict; eauto.
  - intros n px b st' H. eapply del_node_W_dict; eauto.
  - intros u v a b st' H. eapply add_edge_W_dict; eauto.
  - intros u v b st' H. eapply del_edge_W_dict; eauto.
  - intros n new b st' H. eapply upd_attrs_W_dict; eauto.
  - intros n px added b st' Hrp H. eapply upd_seg_W_dict; eauto.
  - intros start newT newL b st' H. eapply upd_track_W_dict; eauto.
Qed.
