(* _compute_ious of annotators/_compute_ious.py: the definition generated from THAT file (Gen/Annotators_gen.v, module Ious)
   returns the list [compute_ious_sorted]: one entry ((id1, id2), (intersection, |id1| + |id2| - intersection)) per overlapping
   pair of non-zero labels, in np.unique's (ascending column) order; a Permutation of Model/CandGraph.v's compute_ious.

   The function is textually the one of candidate_graph/iou.py, and the lemmas and the proof below are those of
   Proofs/CandGraphTie.v (section "_compute_ious"), COPIED here so that this file depends only on hand-written files
   (Base/Dict.v, Model/NpRt.v, Model/PyRt5.v, Model/CandGraph.v, Proofs/CandGraphProofs.v) and on the annotators' own generated
   file: a change of candidate_graph/*.py cannot stop it from compiling.  Imported by Proofs/AnnotatorsTie.v without `Import`
   (the names of Model/CandGraph.v and Model/PyRt5.v would shadow those of Model/Edit.v). *)
From Coq Require Import ZArith List Bool Lia Arith Permutation.
From FT Require Import Base.Dict Model.NpRt Model.PyRt5 Model.CandGraph Proofs.CandGraphProofs.
From FT Require Gen.Annotators_gen.
Import ListNotations.
Open Scope Z_scope.

Module AG := FT.Gen.Annotators_gen.

(* a loop whose body always falls through is a fold *)
Lemma forM_fold {A S S' R} (f : A -> S -> S) (P : S -> Prop) (body : A -> S -> ctl S R) (k : S -> ctl S' R) :
  forall l s, P s ->
    (forall x s, In x l -> P s -> body x s = Cont (f x s) /\ P (f x s)) ->
    forM l s body k = k (fold_left (fun s x => f x s) l s) /\ P (fold_left (fun s x => f x s) l s).
Proof.
  induction l as [|x r IH]; intros s Hs H; cbn [forM fold_left]; [split; [reflexivity|exact Hs]|].
  destruct (H x s (or_introl eq_refl) Hs) as [E Hs']. rewrite E.
  apply IH; [exact Hs'|]. intros y s' Hy. apply H. right. exact Hy.
Qed.

Lemma forM_fold' {A S S' R} (f : A -> S -> S) (body : A -> S -> ctl S R) (k : S -> ctl S' R) :
  forall l s, (forall x s, In x l -> body x s = Cont (f x s)) ->
    forM l s body k = k (fold_left (fun s x => f x s) l s).
Proof.
  intros l s H. apply (forM_fold f (fun _ => True) body k l s I).
  intros x s' Hx _. split; [apply H; exact Hx|exact I].
Qed.


Lemma lookup_set {V} k k' (v : V) d : lookup k (set k' v d) = if k =? k' then Some v else lookup k d.
Proof.
  induction d as [|[k0 v0] r IH]; cbn [set lookup].
  - destruct (k =? k'); reflexivity.
  - destruct (Z.eqb_spec k' k0) as [->|Hne]; cbn [lookup].
    + destruct (k =? k0); reflexivity.
    + rewrite IH. destruct (Z.eqb_spec k k0) as [->|_]; [|reflexivity].
      destruct (Z.eqb_spec k0 k'); [congruence|reflexivity].
Qed.


(* frame1[nz], frame2[nz] stacked = the model's overlap_pairs *)
Lemma stacked_overlap : forall f1 f2,
  np_array_rows2 (np_bool_index f1 (np_logical_and f1 f2)) (np_bool_index f2 (np_logical_and f1 f2))
  = overlap_pairs f1 f2.
Proof.
  unfold np_array_rows2, np_bool_index, np_logical_and, overlap_pairs.
  induction f1 as [|a r1 IH]; intros [|b r2]; cbn [combine map filter]; try reflexivity.
  cbn [fst snd]. destruct (negb (a =? 0) && negb (b =? 0)); cbn [map fst combine]; rewrite IH; reflexivity.
Qed.

(* np.unique on a 1-D array *)
Lemma insert_sorted_In x y l : In x (insert_sorted y l) <-> y = x \/ In x l.
Proof.
  induction l as [|z r IH]; cbn [insert_sorted In]; [tauto|].
  destruct (y <? z); cbn [In]; [tauto|].
  destruct (Z.eqb_spec y z) as [->|_]; cbn [In]; [tauto|]. rewrite IH. tauto.
Qed.
Lemma np_unique_In x l : In x (np_unique l) <-> In x l.
Proof.
  unfold np_unique. induction l as [|y r IH]; cbn [fold_right In]; [tauto|].
  rewrite insert_sorted_In, IH. split; intros [H|H]; auto.
Qed.

Lemma count_filter v f : Z.of_nat (length (filter (Z.eqb v) f)) = count v f.
Proof.
  unfold count. f_equal. induction f as [|x r IH]; cbn [filter count_occ]; [reflexivity|].
  destruct (Z.eqb_spec v x) as [E0|Hne]; destruct (Z.eq_dec x v) as [E|E]; try congruence; cbn [length]; now rewrite IH.
Qed.

(* dict(zip(values, counts)) of one np.unique(.., return_counts=True) *)
Lemma lookup_fold_pairs {V} (c : Z -> V) v : forall l d,
  lookup v (fold_left (fun d kv => set (fst kv) (snd kv) d) (map (fun x => (x, c x)) l) d)
  = if existsb (Z.eqb v) l then Some (c v) else lookup v d.
Proof.
  induction l as [|x r IH]; intros d; cbn [map fold_left existsb]; [reflexivity|].
  rewrite IH. cbn [fst snd]. destruct (existsb (Z.eqb v) r); [now rewrite orb_true_r|].
  rewrite orb_false_r, lookup_set. destruct (Z.eqb_spec v x) as [->|]; reflexivity.
Qed.

Lemma label_sizes_get f v : In v f ->
  dict_get v (let '(vals, cnts) := np_unique_counts f in py_dict_of_pairs (py_zip_strict vals cnts)) = Ok (count v f).
Proof.
  intros Hv. unfold np_unique_counts, py_dict_of_pairs, py_zip_strict, dict_get. cbv zeta.
  assert (E : forall l (c : Z -> Z), combine l (map c l) = map (fun x => (x, c x)) l)
    by (induction l as [|x r IH]; intros c; cbn [combine map]; [reflexivity|now rewrite IH]).
  rewrite E, lookup_fold_pairs.
  replace (existsb (Z.eqb v) (np_unique f)) with true; [now rewrite count_filter|].
  symmetry. apply existsb_exists. exists v. split; [now apply np_unique_In|apply Z.eqb_refl].
Qed.

(* np.unique(.., axis=1) on a (2, n) array *)
Definition col_lt (a b : Z * Z) : Prop := fst a < fst b \/ (fst a = fst b /\ snd a < snd b).
Lemma col_ltb_lt a b : col_ltb a b = true <-> col_lt a b.
Proof. unfold col_ltb, col_lt. rewrite orb_true_iff, andb_true_iff, !Z.ltb_lt, Z.eqb_eq. tauto. Qed.
Lemma col_eqb_eq a b : col_eqb a b = true <-> a = b.
Proof.
  destruct a, b. unfold col_eqb. cbn [fst snd]. rewrite andb_true_iff, !Z.eqb_eq.
  split; [intros [-> ->]; reflexivity|intros E; injection E; auto].
Qed.

Lemma col_insert_In x y l : In x (col_insert y l) <-> y = x \/ In x l.
Proof.
  induction l as [|z r IH]; cbn [col_insert In]; [tauto|].
  destruct (col_ltb y z); cbn [In]; [tauto|].
  destruct (col_eqb y z) eqn:E; cbn [In]; [apply col_eqb_eq in E; subst; tauto|]. rewrite IH. tauto.
Qed.

Inductive col_sorted : list (Z * Z) -> Prop :=
| cs_nil : col_sorted []
| cs_cons x l : (forall y, In y l -> col_lt x y) -> col_sorted l -> col_sorted (x :: l).

Lemma col_insert_sorted y l : col_sorted l -> col_sorted (col_insert y l).
Proof.
  induction 1 as [|x l Hx Hs IH]; cbn [col_insert]; [constructor; [intros ? []|constructor]|].
  destruct (col_ltb y x) eqn:E1.
  - apply col_ltb_lt in E1. constructor; [|constructor; assumption].
    intros z [<-|Hz]; [exact E1|]. specialize (Hx z Hz). unfold col_lt in *. lia.
  - destruct (col_eqb y x) eqn:E2; [constructor; assumption|].
    constructor; [|exact IH]. intros z Hz. apply col_insert_In in Hz. destruct Hz as [<-|Hz]; [|auto].
    assert (~ col_lt y x) by (intros C; apply col_ltb_lt in C; congruence).
    assert (y <> x) by (intros C; apply col_eqb_eq in C; congruence).
    destruct x, y. unfold col_lt in *. cbn [fst snd] in *.
    assert (z <> z1 \/ z0 <> z2) by (destruct (Z.eq_dec z z1), (Z.eq_dec z0 z2); subst; auto; congruence). lia.
Qed.

Lemma col_sorted_NoDup l : col_sorted l -> NoDup l.
Proof.
  induction 1 as [|x l Hx Hs IH]; constructor; [|exact IH].
  intros Hin. specialize (Hx x Hin). unfold col_lt in Hx. lia.
Qed.

Definition unique_cols (c : list (Z * Z)) : list (Z * Z) := fold_right col_insert [] c.
Lemma unique_cols_In x c : In x (unique_cols c) <-> In x c.
Proof.
  unfold unique_cols. induction c as [|y r IH]; cbn [fold_right In]; [tauto|].
  rewrite col_insert_In, IH. split; intros [H|H]; auto.
Qed.
Lemma unique_cols_NoDup c : NoDup (unique_cols c).
Proof.
  apply col_sorted_NoDup. unfold unique_cols. induction c as [|y r IH]; cbn [fold_right]; [constructor|].
  now apply col_insert_sorted.
Qed.

Lemma count_cols pr ov : Z.of_nat (length (filter (col_eqb pr) ov)) = Z.of_nat (count_occ pair_dec ov pr).
Proof.
  f_equal. induction ov as [|x r IH]; cbn [filter count_occ]; [reflexivity|].
  destruct (pair_dec x pr) as [->|Hne].
  - replace (col_eqb pr pr) with true by (symmetry; now apply col_eqb_eq). cbn [length]. now rewrite IH.
  - replace (col_eqb pr x) with false; [exact IH|].
    symmetry. destruct (col_eqb pr x) eqn:E; [apply col_eqb_eq in E; congruence|reflexivity].
Qed.

(* the model's entry for one overlapping label pair *)
Definition iou_entry (f1 f2 : list Z) (ov : list (Z * Z)) (pr : Z * Z) : (Z * Z) * (Z * Z) :=
  let i := Z.of_nat (count_occ pair_dec ov pr) in (pr, (i, count (fst pr) f1 + count (snd pr) f2 - i)).
(* the model's list in numpy's order (columns ascending) instead of first-occurrence order *)
Definition compute_ious_sorted (f1 f2 : list Z) : list ((Z * Z) * (Z * Z)) :=
  map (iou_entry f1 f2 (overlap_pairs f1 f2)) (unique_cols (overlap_pairs f1 f2)).

Lemma compute_ious_sorted_perm f1 f2 : Permutation (compute_ious_sorted f1 f2) (compute_ious f1 f2).
Proof.
  unfold compute_ious_sorted, compute_ious. cbv zeta. apply (Permutation_map (iou_entry f1 f2 (overlap_pairs f1 f2))).
  apply NoDup_Permutation; [apply unique_cols_NoDup|apply NoDup_nodup|].
  intros x. rewrite unique_cols_In, nodup_In. reflexivity.
Qed.

Lemma compute_ious_sorted_keys f1 f2 : NoDup (map fst (compute_ious_sorted f1 f2)).
Proof.
  unfold compute_ious_sorted. rewrite map_map. cbn [iou_entry fst]. rewrite map_id. apply unique_cols_NoDup.
Qed.

Lemma overlap_In_frames f1 f2 a b : In (a, b) (overlap_pairs f1 f2) -> In a f1 /\ In b f2.
Proof.
  unfold overlap_pairs. intros H. apply filter_In in H. destruct H as [H _].
  split; [exact (in_combine_l _ _ _ _ H)|exact (in_combine_r _ _ _ _ H)].
Qed.

Lemma map_nth_range {A B} (F : A -> B) (dflt : A) (U : list A) :
  map (fun i => F (nth (Z.to_nat i) U dflt)) (py_range (Z.of_nat (length U))) = map F U.
Proof.
  unfold py_range. rewrite Nat2Z.id, map_map.
  transitivity (map (fun i => F (nth i U dflt)) (seq 0 (length U))).
  { apply map_ext. intros i. now rewrite Nat2Z.id. }
  rewrite <- (map_map (fun i => nth i U dflt) F). f_equal.
  clear. induction U as [|x r IH]; cbn [length seq map]; [reflexivity|].
  f_equal. rewrite <- seq_shift, map_map. exact IH.
Qed.

Lemma fold_snoc {A B} (F : A -> B) : forall l acc,
  fold_left (fun acc x => acc ++ [F x]) l acc = acc ++ map F l.
Proof.
  induction l as [|x l IH]; intros acc; cbn [fold_left map]; [now rewrite app_nil_r|].
  rewrite IH, <- app_assoc. reflexivity.
Qed.

Theorem gen__compute_ious_eq : forall f1 f2 : list Z,
  AG.Ious.gen__compute_ious f1 f2 = Ok (compute_ious_sorted f1 f2).
Proof.
  intros f1 f2. unfold AG.Ious.gen__compute_ious, np_flatten. cbv zeta.
  rewrite stacked_overlap. set (ov := overlap_pairs f1 f2).
  unfold np_unique_cols_counts. cbv zeta. fold (unique_cols ov). set (U := unique_cols ov).
  pose proof (label_sizes_get f1) as S1. pose proof (label_sizes_get f2) as S2.
  destruct (np_unique_counts f1) as [v1 c1]. destruct (np_unique_counts f2) as [v2 c2].
  unfold np_cols_shape1.
  match goal with |- run (forM _ _ ?body ?k) = _ =>
    rewrite (forM_fold' (fun idx acc => acc ++ [iou_entry f1 f2 ov (nth (Z.to_nat idx) U (0, 0))]) body k)
  end.
  - cbn [run]. f_equal. unfold compute_ious_sorted. fold ov. fold U.
    rewrite (fold_snoc (fun idx => iou_entry f1 f2 ov (nth (Z.to_nat idx) U (0, 0)))). cbn [app].
    apply (map_nth_range (iou_entry f1 f2 ov) (0, 0) U).
  - intros idx acc Hidx. unfold np_col, np_item.
    assert (Hin : In (nth (Z.to_nat idx) U (0, 0)) U).
    { apply nth_In. unfold py_range in Hidx. apply in_map_iff in Hidx. destruct Hidx as (i & <- & Hi).
      apply in_seq in Hi. rewrite !Nat2Z.id in *. lia. }
    assert (Hc : nth (Z.to_nat idx) (map (fun x => Z.of_nat (length (filter (col_eqb x) ov))) U) 0
                 = Z.of_nat (count_occ pair_dec ov (nth (Z.to_nat idx) U (0, 0)))).
    { rewrite <- count_cols.
      unfold py_range in Hidx. apply in_map_iff in Hidx. destruct Hidx as (i & <- & Hi). apply in_seq in Hi.
      rewrite !Nat2Z.id in *. rewrite (nth_indep _ 0 ((fun x => Z.of_nat (length (filter (col_eqb x) ov))) (0, 0)))
        by (rewrite map_length; lia).
      exact (map_nth (fun x => Z.of_nat (length (filter (col_eqb x) ov))) U (0, 0) i). }
    rewrite Hc. destruct (nth (Z.to_nat idx) U (0, 0)) as [a b] eqn:Epr.
    apply (proj1 (unique_cols_In _ _)) in Hin. apply overlap_In_frames in Hin. destruct Hin as [Ha Hb].
    rewrite (S1 a Ha), (S2 b Hb). cbn [bind]. reflexivity.
Qed.

Print Assumptions gen__compute_ious_eq.
Print Assumptions compute_ious_sorted_perm.
Print Assumptions compute_ious_sorted_keys.
