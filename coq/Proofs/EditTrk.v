(* Property C04 on the edit machine: which nodes the relabelling walk of UpdateTrackIDs
   (Model/Edit.v: visit, walk, do_upd_track) gives the new track id - exactly the unbranched
   chain below the start node - and, from that, preservation of the local track invariant
   W_trk (Proofs/EditInv.v) by UserDeleteEdge and UserAddEdge, with the frame clause.
   No axioms are used. *)
From Coq Require Import ZArith List Bool Lia Sorted Relations.
From FT Require Import Base.Dict Model.Edit Proofs.DictLemmas Proofs.EditInv Proofs.EditGraph Proofs.EditWalk
                       Proofs.EditBasic Proofs.EditUserEdge Proofs.EditGlobal.
From FT Require Proofs.EditBook.
Import ListNotations.
Open Scope Z_scope.

(* ================================================================== *)
(* 1. the unbranched chain below a node                                *)
(* ================================================================== *)
(* follow the unique successor for at most [fuel] steps *)
Fixpoint chain (st : state) (fuel : nat) (n : Z) : list Z :=
  match fuel with
  | O => [n]
  | S f => match successors st n with [c] => n :: chain st f c | _ => [n] end
  end.
(* the node at which [chain] stops (its last element, see [chain_end_last]) *)
Fixpoint chain_end (st : state) (fuel : nat) (n : Z) : Z :=
  match fuel with
  | O => n
  | S f => match successors st n with [c] => chain_end st f c | _ => n end
  end.

Lemma chain_hd st k n : exists r, chain st k n = n :: r.
Proof. destruct k; cbn [chain]; [now exists []|]. destruct (successors st n) as [|c [|c2 r]]; eauto. Qed.

Lemma chain_end_last st : forall k n d, last (chain st k n) d = chain_end st k n.
Proof.
  induction k as [|k IH]; intros n d; cbn [chain chain_end]; [reflexivity|].
  destruct (successors st n) as [|c [|c2 r]]; try reflexivity.
  destruct (chain_hd st k c) as [r Er]. rewrite <- (IH c d). rewrite Er. reflexivity.
Qed.

Lemma chain_self st k n : In n (chain st k n).
Proof. destruct (chain_hd st k n) as [r ->]. now left. Qed.

Lemma chain_end_in st : forall k n, In (chain_end st k n) (chain st k n).
Proof.
  induction k as [|k IH]; intros n; cbn [chain chain_end]; [now left|].
  destruct (successors st n) as [|c [|c2 r]]; try (now left). right. apply IH.
Qed.

Lemma chain_ext s s' : (forall u, successors s' u = successors s u) ->
  forall k n, chain s' k n = chain s k n /\ chain_end s' k n = chain_end s k n.
Proof.
  intros H. induction k as [|k IH]; intros n; cbn [chain chain_end]; [auto|].
  rewrite H. destruct (successors s n) as [|c [|c2 r]]; auto. destruct (IH c) as [-> ->]. auto.
Qed.

(* a member with exactly one successor passes membership on, unless it is where the chain stopped *)
Lemma chain_closed st : forall k n a c, In a (chain st k n) -> successors st a = [c] ->
  In c (chain st k n) \/ a = chain_end st k n.
Proof.
  induction k as [|k IH]; intros n a c Ha Hs; cbn [chain chain_end] in *.
  - destruct Ha as [<-|[]]. now right.
  - destruct (successors st n) as [|c0 [|c2 r]] eqn:Es; try (destruct Ha as [<-|[]]; now right).
    destruct Ha as [<-|Ha].
    + rewrite Es in Hs. injection Hs as <-. left. right. apply chain_self.
    + destruct (IH c0 a c Ha Hs) as [H|H]; [left; now right|now right].
Qed.

(* every member but the first has its parent in the chain, and is that parent's only successor *)
Lemma chain_parent st : forall k n c, In c (chain st k n) -> c = n \/ exists p, In p (chain st k n) /\ successors st p = [c].
Proof.
  induction k as [|k IH]; intros n c Hc; cbn [chain] in *.
  - destruct Hc as [<-|[]]. now left.
  - destruct (successors st n) as [|c0 [|c2 r]] eqn:Es; try (destruct Hc as [<-|[]]; now left).
    destruct Hc as [<-|Hc]; [now left|]. right.
    destruct (IH c0 c Hc) as [->|(p & Hp & Hps)].
    + exists n. split; [now left|exact Es].
    + exists p. split; [now right|exact Hps].
Qed.

Lemma chain_time st : W_forest st -> forall k n x, In x (chain st k n) -> x = n \/ time_of st n < time_of st x.
Proof.
  intros Hf. induction k as [|k IH]; intros n x Hx; cbn [chain] in *.
  - destruct Hx as [<-|[]]. now left.
  - destruct (successors st n) as [|c0 [|c2 r]] eqn:Es; try (destruct Hx as [<-|[]]; now left).
    destruct Hx as [<-|Hx]; [now left|]. right.
    assert (time_of st n < time_of st c0) as Hlt by (apply (wf_time _ Hf); apply edge_successors; rewrite Es; now left).
    destruct (IH c0 x Hx) as [->|H]; lia.
Qed.

Lemma chain_nodes st : W_dict st -> forall k n x, is_node st n -> In x (chain st k n) -> is_node st x.
Proof.
  intros Hd. induction k as [|k IH]; intros n x Hn Hx; cbn [chain] in *.
  - destruct Hx as [<-|[]]. exact Hn.
  - destruct (successors st n) as [|c0 [|c2 r]] eqn:Es; try (destruct Hx as [<-|[]]; exact Hn).
    destruct Hx as [<-|Hx]; [exact Hn|]. apply (IH c0 x); [|exact Hx].
    apply (wd_edge_nodes _ Hd n c0). apply edge_successors. rewrite Es. now left.
Qed.

Lemma chain_reach st : forall k n x, In x (chain st k n) -> reach st n x.
Proof.
  induction k as [|k IH]; intros n x Hx; cbn [chain] in *.
  - destruct Hx as [<-|[]]. apply rt_refl.
  - destruct (successors st n) as [|c0 [|c2 r]] eqn:Es; try (destruct Hx as [<-|[]]; apply rt_refl).
    destruct Hx as [<-|Hx]; [apply rt_refl|]. eapply rt_trans; [apply rt_step|apply (IH c0 x Hx)].
    apply edge_successors. rewrite Es. now left.
Qed.

Lemma chain_path st : forall k n, is_path st (chain st k n).
Proof.
  induction k as [|k IH]; intros n; cbn [chain]; [cbn; auto|].
  destruct (successors st n) as [|c0 [|c2 r]] eqn:Es; try (cbn; auto).
  destruct (chain_hd st k c0) as [r Er]. specialize (IH c0). rewrite Er in *. cbn [is_path]. split; [|exact IH].
  apply edge_successors. rewrite Es. now left.
Qed.

Lemma chain_nodup st : W_forest st -> forall k n, NoDup (chain st k n).
Proof.
  intros Hf k n. apply (NoDup_map_inv (time_of st)). apply sorted_lt_nodup. apply path_times; [exact Hf|apply chain_path].
Qed.

(* a chain that was stopped by the fuel has fuel + 1 members *)
Lemma chain_full st : forall k n, length (successors st (chain_end st k n)) = 1%nat -> length (chain st k n) = S k.
Proof.
  induction k as [|k IH]; intros n H; cbn [chain chain_end] in *; [reflexivity|].
  destruct (successors st n) as [|c0 [|c2 r]] eqn:Es.
  - rewrite Es in H. discriminate.
  - cbn [length]. now rewrite IH.
  - rewrite Es in H. cbn in H. lia.
Qed.

(* with as much fuel as there are nodes, the chain on a forest ends where the segment ends *)
Theorem chain_complete st n : W_dict st -> W_forest st -> is_node st n ->
  length (successors st (chain_end st (length (nodes (g st))) n)) <> 1%nat.
Proof.
  intros Hd Hf Hn H. apply chain_full in H.
  assert (incl (chain st (length (nodes (g st))) n) (node_ids st)) as Hincl by (intros x Hx; eapply chain_nodes; eauto).
  pose proof (NoDup_incl_length (chain_nodup st Hf _ n) Hincl) as Hle.
  unfold node_ids, keys in Hle. rewrite map_length in Hle. lia.
Qed.

(* ids that are constant along the single-successor steps of the chain are constant on it *)
Lemma chain_trk st : forall k n,
  (forall a c, In a (chain st k n) -> successors st a = [c] -> trk st a = trk st c) ->
  forall x, In x (chain st k n) -> trk st x = trk st n.
Proof.
  induction k as [|k IH]; intros n H x Hx; cbn [chain] in *.
  - destruct Hx as [<-|[]]. reflexivity.
  - destruct (successors st n) as [|c0 [|c2 r]] eqn:Es; try (destruct Hx as [<-|[]]; reflexivity).
    destruct Hx as [<-|Hx]; [reflexivity|].
    rewrite (IH c0); [symmetry; apply H; [now left|exact Es]|intros a c Ha; apply H; now right|exact Hx].
Qed.

(* ================================================================== *)
(* 2. the walk relabels exactly the chain                              *)
(* ================================================================== *)
Lemma walk_unroll oldT newT newL f st c cs flag tn ln :
  walk (S f) oldT newT newL st (c :: cs) flag tn ln =
  let '(s1, f1, tn1, ln1) := fold_left (EditBook.visit1 oldT newT newL) (c :: cs) (st, flag, tn, ln) in
  walk f oldT newT newL s1 (flat_map (successors st) (c :: cs)) f1 tn1 ln1.
Proof.
  cbn [walk]. rewrite EditBook.visit_fold.
  destruct (fold_left (EditBook.visit1 oldT newT newL) (c :: cs) (st, flag, tn, ln)) as [[[s1 f1] tn1] ln1]. reflexivity.
Qed.

Lemma walk_nil fuel oldT newT newL st flag tn ln : walk fuel oldT newT newL st [] flag tn ln = Some (st, tn, ln).
Proof. destruct fuel; reflexivity. Qed.

Lemma level1_struct oldT newT newL curr st flag tn ln s1 f1 tn1 ln1 :
  fold_left (EditBook.visit1 oldT newT newL) curr (st, flag, tn, ln) = (s1, f1, tn1, ln1) ->
  same_struct st s1 /\ vz_pres st s1.
Proof.
  intros H. pose proof (level_struct oldT newT newL curr st flag tn ln []) as L. cbn zeta in L.
  pose proof (level_vz oldT newT newL curr st flag tn ln []) as V.
  rewrite EditBook.visit_fold, H in L, V. cbn in L, V. split; [apply L|exact V].
Qed.

(* once the flag is off, nothing is relabelled any more *)
Lemma level1_flag_false oldT newT newL : forall vis st tn ln s1 f1 tn1 ln1,
  fold_left (EditBook.visit1 oldT newT newL) vis (st, false, tn, ln) = (s1, f1, tn1, ln1) ->
  f1 = false /\ tn1 = tn /\ forall m, attr s1 m KTrack = attr st m KTrack.
Proof.
  induction vis as [|x r IH]; intros st tn ln s1 f1 tn1 ln1 H; cbn [fold_left] in H.
  - inversion H; subst. auto.
  - destruct (EditBook.visit1 oldT newT newL (st, false, tn, ln) x) as [[[sa fa] tna] lna] eqn:Ev.
    destruct (EditBook.visit1_spec _ _ _ _ _ _ _ _ _ _ _ _ Ev) as (_ & _ & _ & _ & _ & HT).
    destruct HT as [([Hf _] & _)|(_ & -> & -> & Tm)]; [discriminate|].
    destruct (IH _ _ _ _ _ _ _ H) as (-> & -> & T). split; [reflexivity|]. split; [reflexivity|].
    intros m. now rewrite T, Tm.
Qed.

Lemma walk_flag_false oldT newT newL : forall fuel st curr tn ln st' tn' ln',
  walk fuel oldT newT newL st curr false tn ln = Some (st', tn', ln') ->
  tn' = tn /\ forall m, attr st' m KTrack = attr st m KTrack.
Proof.
  induction fuel as [|f IH]; intros st curr tn ln st' tn' ln' H.
  - destruct curr; cbn in H; [inversion H; subst; auto|discriminate].
  - destruct curr as [|c cs]; [cbn in H; inversion H; subst; auto|].
    rewrite walk_unroll in H.
    destruct (fold_left (EditBook.visit1 oldT newT newL) (c :: cs) (st, false, tn, ln)) as [[[s1 f1] tn1] ln1] eqn:E.
    destruct (level1_flag_false _ _ _ _ _ _ _ _ _ _ _ E) as (-> & -> & T).
    destruct (IH _ _ _ _ _ _ _ H) as (-> & T'). split; [reflexivity|]. intros m. now rewrite T', T.
Qed.

(* the lookups are not touched by the walk itself *)
Lemma walk_bk oldT newT newL : forall fuel st curr flag tn ln st' tn' ln',
  walk fuel oldT newT newL st curr flag tn ln = Some (st', tn', ln') -> bk st' = bk st.
Proof.
  induction fuel as [|f IH]; intros st curr flag tn ln st' tn' ln' H.
  - destruct curr; cbn in H; [inversion H; subst; auto|discriminate].
  - destruct curr as [|c cs]; [cbn in H; inversion H; subst; auto|].
    rewrite walk_unroll in H.
    destruct (fold_left (EditBook.visit1 oldT newT newL) (c :: cs) (st, flag, tn, ln)) as [[[s1 f1] tn1] ln1] eqn:E.
    destruct (EditBook.visit1_fold_spec _ _ _ _ _ _ _ _ _ _ _ _ E) as (A & _).
    rewrite (IH _ _ _ _ _ _ _ _ H). apply (EditBook.au_bk _ _ A).
Qed.

Lemma memz_single m n : memz m [n] = (m =? n).
Proof. unfold memz. cbn. apply orb_false_r. Qed.
Lemma memz_cons m n l : memz m (n :: l) = (m =? n) || memz m l.
Proof. reflexivity. Qed.

(* THE CHAIN LEMMA.  Started on a single node [n] with the flag on, the walk gives the new id to
   the nodes of the unbranched chain below [n] and to nothing else, provided
   (H1) the chain carries the old id, (Hcomplete) the chain ended because its last node does not have
   exactly one successor, (H2) if the last node has two or more successors, the first of them - the
   first node the walk visits after the chain - does not carry the old id. *)
Theorem walk_chain oldT newT newL : forall k f st n tn ln st' tn' ln',
  W_dict st -> W_forest st -> is_node st n ->
  (forall x, In x (chain st k n) -> trk st x = Some oldT) ->
  length (successors st (chain_end st k n)) <> 1%nat ->
  (forall c1 c2 r, successors st (chain_end st k n) = c1 :: c2 :: r -> trk st c1 <> Some oldT) ->
  walk f oldT newT newL st [n] true tn ln = Some (st', tn', ln') ->
  tn' = tn ++ chain st k n /\
  forall m, attr st' m KTrack = if memz m (chain st k n) then Some (VZ newT) else attr st m KTrack.
Proof.
  induction k as [|k IH]; intros f st n tn ln st' tn' ln' Hd Hf Hn H1 Hc H2 H.
  all: destruct f as [|f]; [cbn in H; discriminate|].
  all: rewrite walk_unroll in H; cbn [fold_left flat_map] in H; rewrite app_nil_r in H.
  all: destruct (EditBook.visit1 oldT newT newL (st, true, tn, ln) n) as [[[sa fa] tna] lna] eqn:Ev.
  all: assert (Hsv : same_struct st sa /\ vz_pres st sa) by (apply (level1_struct oldT newT newL [n] st true tn ln sa fa tna lna); cbn [fold_left]; exact Ev).
  all: destruct Hsv as [Hss Hvz].
  all: destruct (EditBook.visit1_spec _ _ _ _ _ _ _ _ _ _ _ _ Ev) as (_ & _ & _ & _ & _ & HT).
  all: assert (Hn1 : trk st n = Some oldT) by (apply H1; apply chain_self).
  all: destruct HT as [(_ & -> & -> & Tx & Tm)|(Hno & _)]; [|exfalso; apply Hno; auto].
  all: assert (Hsa : forall m, attr sa m KTrack = if m =? n then Some (VZ newT) else attr st m KTrack)
         by (intros m; destruct (Z.eqb_spec m n) as [->|Hm]; [exact Tx|now apply Tm]).
  all: assert (Htime : forall x, time_of st n < time_of st x -> trk sa x = trk st x)
         by (intros x Hx; unfold trk, zattr; rewrite Hsa; destruct (Z.eqb_spec x n) as [->|]; [lia|reflexivity]).
  all: assert (Hmany : forall c1 c2 r, successors st n = c1 :: c2 :: r -> trk st c1 <> Some oldT ->
         tn' = (tn ++ [n]) /\ forall m, attr st' m KTrack = attr sa m KTrack).
  1,3: intros c1 c2 r Es Hc1; rewrite Es in H; destruct f as [|f]; [cbn in H; discriminate|].
  1,2: remember (c2 :: r) as rest eqn:Erest; rewrite walk_unroll in H; cbn [fold_left] in H.
  1,2: destruct (EditBook.visit1 oldT newT newL (sa, true, tn ++ [n], lna) c1) as [[[sb fb] tnb] lnb] eqn:Ev1.
  1,2: destruct (EditBook.visit1_spec _ _ _ _ _ _ _ _ _ _ _ _ Ev1) as (_ & _ & _ & _ & _ & HT1).
  1,2: assert (Hlt : time_of st n < time_of st c1) by (apply (wf_time _ Hf); apply edge_successors; rewrite Es; now left).
  1,2: destruct HT1 as [([_ Ht] & _)|(_ & -> & -> & Tm1)]; [rewrite (Htime c1 Hlt) in Ht; contradiction|].
  1,2: destruct (fold_left (EditBook.visit1 oldT newT newL) rest (sb, false, tn ++ [n], lnb)) as [[[sc fc] tnc] lnc] eqn:E2.
  1,2: destruct (level1_flag_false _ _ _ _ _ _ _ _ _ _ _ E2) as (-> & -> & T2).
  1,2: destruct (walk_flag_false _ _ _ _ _ _ _ _ _ _ _ H) as (-> & T3).
  1,2: split; [reflexivity|]; intros m; now rewrite T3, T2, Tm1.
  - (* no fuel: the chain is [n] *)
    cbn [chain chain_end] in *.
    destruct (successors st n) as [|c1 [|c2 r]] eqn:Es.
    + rewrite walk_nil in H. inversion H; subst. split; [reflexivity|]. intros m. rewrite memz_single. apply Hsa.
    + exfalso. apply Hc. reflexivity.
    + destruct (Hmany c1 c2 r eq_refl (H2 c1 c2 r eq_refl)) as [-> T]. split; [reflexivity|].
      intros m. rewrite memz_single, T. apply Hsa.
  - cbn [chain chain_end] in *.
    destruct (successors st n) as [|c1 [|c2 r]] eqn:Es.
    + rewrite walk_nil in H. inversion H; subst. split; [reflexivity|]. intros m. rewrite memz_single. apply Hsa.
    + (* one successor: continue on the state in which n is relabelled *)
      assert (Hsucc : forall u, successors sa u = successors st u) by (intros u; now apply same_struct_successors).
      destruct (chain_ext st sa Hsucc k c1) as [Ech Eend].
      assert (Hlt : time_of st n < time_of st c1) by (apply (wf_time _ Hf); apply edge_successors; rewrite Es; now left).
      assert (Hbelow : forall x, In x (chain st k c1) -> time_of st n < time_of st x).
      { intros x Hx. destruct (chain_time st Hf k c1 x Hx) as [->|Hx']; lia. }
      assert (Nc1 : is_node st c1) by (apply (wd_edge_nodes _ Hd n c1); apply edge_successors; rewrite Es; now left).
      destruct (IH f sa c1 (tn ++ [n]) lna st' tn' ln') as [Etn T]; try exact H.
      * now apply (same_struct_W_dict st sa).
      * now apply (same_struct_W_forest st sa).
      * now apply (same_struct_is_node _ _ _ Hss).
      * rewrite Ech. intros x Hx. rewrite (Htime x (Hbelow x Hx)). apply H1. now right.
      * rewrite Eend, Hsucc. exact Hc.
      * rewrite Eend, Hsucc. intros d1 d2 r' Ed. rewrite Htime; [now apply (H2 d1 d2 r')|].
        pose proof (Hbelow _ (chain_end_in st k c1)) as Hb.
        assert (time_of st (chain_end st k c1) < time_of st d1); [|lia].
        apply (wf_time _ Hf). apply edge_successors. rewrite Ed. now left.
      * rewrite Ech in Etn, T. split; [rewrite Etn, <- app_assoc; reflexivity|].
        intros m. rewrite T, memz_cons, Hsa. destruct (Z.eqb_spec m n) as [->|Hm]; cbn [orb]; [|reflexivity].
        destruct (memz n (chain st k c1)) eqn:Em; [|reflexivity]. apply memz_In in Em. specialize (Hbelow n Em). lia.
    + destruct (Hmany c1 c2 r eq_refl (H2 c1 c2 r Es)) as [-> T]. split; [reflexivity|].
      intros m. rewrite memz_single, T. apply Hsa.
Qed.

(* ================================================================== *)
(* 3. UpdateTrackIDs: the track ids after the action                   *)
(* ================================================================== *)
(* the part of W_book that makes [next_trk] fresh *)
Definition trk_bounded (st : state) : Prop :=
  forall n T, is_node st n -> trk st n = Some T -> T <= max_trk (bk st).

Lemma W_book_trk_bounded st : W_book st -> trk_bounded st.
Proof. intros [(_ & _ & H) _] n T Hn Ht. apply (H n T Hn Ht). Qed.

Lemma trk_bounded_fresh st : trk_bounded st -> forall n, is_node st n -> trk st n <> Some (next_trk st).
Proof. intros H n Hn E. specialize (H n _ Hn E). unfold next_trk in H. lia. Qed.

Lemma same_g_attr s s' : g s' = g s -> forall m k, attr s' m k = attr s m k.
Proof. intros E m k. unfold attr, node_attrs. now rewrite E. Qed.

Lemma do_upd_track_inv st start newT newL b st' :
  trk_act (ft st) = true -> do_upd_track st start newT newL = Ok b st' ->
  exists oldT newL' st1 tn ln, is_node st start /\ trk st start = Some oldT /\
    walk (S (length (nodes (g st)))) oldT newT newL' st [start] true [] [] = Some (st1, tn, ln) /\
    g st' = g st1 /\ max_trk (bk st') = Z.max (max_trk (bk st)) newT.
Proof.
  intros Cta. unfold do_upd_track. destruct (has_node st start) eqn:Eh; [|discriminate]. cbn [negb].
  destruct (zattr st start KTrack) as [oldT|] eqn:Et; [|discriminate]. rewrite Cta. cbn [negb].
  set (newL' := if lin_act (ft st) then newL else None).
  destruct (walk _ oldT newT newL' st [start] true [] []) as [[[st1 tn] ln]|] eqn:Ew; [|discriminate].
  intros H. exists oldT, newL', st1, tn, ln. split; [now apply has_node_is_node|]. split; [exact Et|]. split; [exact Ew|].
  pose proof (walk_bk _ _ _ _ _ _ _ _ _ _ _ _ Ew) as Eb.
  destruct newL' as [l|]; inversion H; subst; cbn [g upd_bk bk max_trk]; rewrite Eb; auto.
Qed.

(* the action relabels exactly the chain below the start node *)
Theorem do_upd_track_trk st start newT newL b st' oldT :
  W_dict st -> W_forest st -> trk_act (ft st) = true ->
  do_upd_track st start newT newL = Ok b st' ->
  (forall x, In x (chain st (length (nodes (g st))) start) -> trk st x = Some oldT) ->
  (forall c1 c2 r, successors st (chain_end st (length (nodes (g st))) start) = c1 :: c2 :: r -> trk st c1 <> Some oldT) ->
  (forall m, trk st' m = if memz m (chain st (length (nodes (g st))) start) then Some newT else trk st m) /\
  max_trk (bk st') = Z.max (max_trk (bk st)) newT.
Proof.
  intros Hd Hf Cta H H1 H2.
  destruct (do_upd_track_inv _ _ _ _ _ _ Cta H) as (oldT' & newL' & st1 & tn & ln & Hs & Ht & Hw & Eg & Em).
  assert (oldT' = oldT) as -> by (specialize (H1 start (chain_self _ _ _)); congruence).
  destruct (walk_chain oldT newT newL' _ _ st start [] [] st1 tn ln Hd Hf Hs H1 (chain_complete st start Hd Hf Hs) H2 Hw) as [_ T].
  split; [|exact Em]. intros m. unfold trk, zattr. rewrite (same_g_attr _ _ Eg), T.
  destruct (memz m _); reflexivity.
Qed.

(* relabelling a node's tracklet with the id it already carries changes no track id *)
Theorem do_upd_track_same_id st start T newL b st' :
  W_dict st -> trk_act (ft st) = true -> do_upd_track st start T newL = Ok b st' -> trk st start = Some T ->
  (forall m, trk st' m = trk st m) /\ max_trk (bk st') = Z.max (max_trk (bk st)) T.
Proof.
  intros Hd Cta H Ht.
  destruct (do_upd_track_inv _ _ _ _ _ _ Cta H) as (oldT & newL' & st1 & tn & ln & Hs & Ht' & Hw & Eg & Em).
  assert (oldT = T) as -> by congruence.
  destruct (EditBook.upd_track_walk _ _ _ _ _ _ _ _ Hd Hs Ht' Hw) as (vis & _ & _ & _ & _ & _ & _ & _ & _ & _ & _ & _ & T1 & T2).
  split; [|exact Em]. intros m. unfold trk at 1. unfold zattr. rewrite (same_g_attr _ _ Eg).
  destruct (in_dec Z.eq_dec m tn) as [Hi|Hi].
  - destruct (T1 m Hi) as [A B]. now rewrite B, A.
  - now rewrite (T2 m Hi).
Qed.

(* ================================================================== *)
(* 4. segments have heads                                              *)
(* ================================================================== *)
Lemma not_divides_single st u v : edge st u v -> ~ divides st u -> successors st u = [v].
Proof.
  intros He Hn. apply edge_successors in He. unfold divides in Hn.
  destruct (successors st u) as [|c [|c2 r]]; [destruct He| |cbn in Hn; lia].
  destruct He as [->|[]]. reflexivity.
Qed.

Lemma single_not_divides st u v : successors st u = [v] -> edge st u v /\ ~ divides st u.
Proof. intros E. split; [apply edge_successors; rewrite E; now left|unfold divides; rewrite E; cbn; lia]. Qed.

Lemma seg_head st : W_dict st -> W_forest st ->
  (forall u v, edge st u v -> ~ divides st u -> trk st u = trk st v) ->
  forall n, is_node st n -> exists h, head st h /\ trk st h = trk st n /\ time_of st h <= time_of st n.
Proof.
  intros Hd Hf T1 n. remember (Z.to_nat (time_of st n - tmin st)) as k eqn:Hk. revert n Hk.
  induction k as [k IH] using lt_wf_ind. intros n Hk Hn.
  destruct (parent_dec st n Hd) as [[p Hp]|Hnone].
  - destruct (le_lt_dec 2 (length (successors st p))) as [Hdiv|Hnd].
    + exists n. split; [|split; [reflexivity|lia]]. split; [exact Hn|]. intros q Hq.
      assert (q = p) as -> by (apply (wf_in _ Hf q p n); assumption). exact Hdiv.
    + destruct (wd_edge_nodes _ Hd _ _ Hp) as [Np _].
      pose proof (wf_time _ Hf _ _ Hp) as Hlt. pose proof (tmin_le st p Np) as Hlo.
      destruct (IH (Z.to_nat (time_of st p - tmin st))) with (n := p) as (h & Hh & Eh & Hth); auto; [lia|].
      exists h. split; [exact Hh|]. split; [|lia]. rewrite Eh. apply T1; [exact Hp|unfold divides; lia].
  - exists n. split; [|split; [reflexivity|lia]]. split; [exact Hn|]. intros q Hq. exfalso. now apply (Hnone q).
Qed.

Lemma reach_mono s s' : (forall a c, edge s a c -> edge s' a c) -> forall a b, reach s a b -> reach s' a b.
Proof. intros H a b R. induction R; [apply rt_step; auto|apply rt_refl|eapply rt_trans; eauto]. Qed.

Lemma W_trk_ext s s' :
  (forall m, is_node s' m <-> is_node s m) -> (forall a, successors s' a = successors s a) ->
  (forall m, trk s' m = trk s m) -> W_trk s -> W_trk s'.
Proof.
  intros Hn Hs Ht W.
  assert (He : forall a c, edge s' a c <-> edge s a c) by (intros a c; rewrite !edge_successors, Hs; tauto).
  assert (Hdv : forall a, divides s' a <-> divides s a) by (intros a; unfold divides; rewrite Hs; tauto).
  assert (Hh : forall a, head s' a -> head s a).
  { intros a [Na Pa]. split; [now apply Hn|]. intros p Hp. apply Hdv, Pa, He, Hp. }
  constructor.
  - intros a c Hac Hnd. rewrite !Ht. apply (wt1 _ W); [now apply He|]. intros D. apply Hnd. now apply Hdv.
  - intros a b Ha Hb E. rewrite !Ht in E. apply (wt2 _ W); auto.
Qed.

Lemma W_trk_same_g s s' : g s' = g s -> W_trk s -> W_trk s'.
Proof.
  intros E. apply W_trk_ext.
  - intros m. unfold is_node, node_ids. now rewrite E.
  - intros a. unfold successors, adj. now rewrite E.
  - intros m. unfold trk, zattr. now rewrite (same_g_attr _ _ E).
Qed.

(* ================================================================== *)
(* 5. the two stages shared by the four branches of the edge actions   *)
(* ================================================================== *)
(* Stage 1.  [s0] satisfies W_trk; [sw] is s0 up to the successor list of [u]; UpdateTrackIDs is
   run in [sw] on a node [n] later than [u]: the chain below [n] (in sw) gets T, nothing else changes. *)
Lemma relabel_walk s0 sw u n T newL b sw' :
  W_dict s0 -> W_forest s0 -> W_trk s0 -> W_dict sw -> W_forest sw ->
  node_ids sw = node_ids s0 -> (forall m k, attr sw m k = attr s0 m k) ->
  (forall a, a <> u -> successors sw a = successors s0 a) ->
  is_node s0 n -> time_of s0 u < time_of s0 n ->
  trk_act (ft sw) = true ->
  do_upd_track sw n T newL = Ok b sw' ->
  (forall m, trk sw' m = if memz m (chain sw (length (nodes (g sw))) n) then Some T else trk s0 m) /\
  max_trk (bk sw') = Z.max (max_trk (bk sw)) T.
Proof.
  intros Hd0 Hf0 Ht0 Hdw Hfw Hids Hattr Hsucc Nn Hun Cta H.
  assert (Htrk : forall m, trk sw m = trk s0 m) by (intros m; unfold trk, zattr; now rewrite Hattr).
  assert (Htime : forall m, time_of sw m = time_of s0 m) by (intros m; unfold time_of, zattr; now rewrite Hattr).
  assert (Nnw : is_node sw n) by (unfold is_node; now rewrite Hids).
  destruct (wd_track _ Hd0 n Nn) as [oldT Ho]. apply zattr_attr in Ho. change (trk s0 n = Some oldT) in Ho.
  set (K := length (nodes (g sw))).
  assert (Hnu : forall a, In a (chain sw K n) -> a <> u /\ time_of s0 n <= time_of s0 a).
  { intros a Ha. destruct (chain_time sw Hfw K n a Ha) as [->|Hlt]; [split; [intros ->|]; lia|].
    rewrite !Htime in Hlt. split; [intros ->|]; lia. }
  assert (H1 : forall x, In x (chain sw K n) -> trk sw x = Some oldT).
  { intros x Hx. rewrite (chain_trk sw K n) with (x := x); [now rewrite Htrk| |exact Hx].
    intros a c Ha Es. destruct (Hnu a Ha) as [Hau _]. rewrite !Htrk. rewrite (Hsucc a Hau) in Es.
    destruct (single_not_divides _ _ _ Es) as [He Hnd]. now apply (wt1 _ Ht0). }
  destruct (do_upd_track_trk sw n T newL b sw' oldT Hdw Hfw Cta H H1) as [Tr Em].
  - intros c1 c2 r Es Ec1. fold K in Es.
    destruct (Hnu _ (chain_end_in sw K n)) as [Heu Hte]. rewrite (Hsucc _ Heu) in Es.
    set (e := chain_end sw K n) in *.
    assert (Hec1 : edge s0 e c1) by (apply edge_successors; rewrite Es; now left).
    assert (Hc1 : head s0 c1).
    { split; [apply (wd_edge_nodes _ Hd0 e c1 Hec1)|]. intros p Hp.
      assert (p = e) as -> by (apply (wf_in _ Hf0 p e c1); assumption). unfold divides. rewrite Es. cbn. lia. }
    destruct (seg_head s0 Hd0 Hf0 (wt1 _ Ht0) n Nn) as (h & Hh & Eh & Hth).
    assert (c1 = h) as -> by (apply (wt2 _ Ht0); [exact Hc1|exact Hh|rewrite Eh, <- Htrk, Ec1; now symmetry]).
    pose proof (wf_time _ Hf0 _ _ Hec1). lia.
  - split; [|exact Em]. intros m. rewrite Tr, Htrk. reflexivity.
Qed.

(* Stage 2.  A state [s1] that agrees with s0 away from the successor list of [u] and whose track
   ids are those of s0 except for T on the chain satisfies W_trk, given what happens at [u]. *)
Lemma W_trk_relabel s0 sw s1 u n T K :
  W_trk s0 -> W_forest sw ->
  (forall m, is_node s1 m <-> is_node s0 m) ->
  (forall a, a <> u -> successors sw a = successors s0 a) ->
  (forall a, a <> u -> successors s1 a = successors s0 a) ->
  length (successors sw (chain_end sw K n)) <> 1%nat ->
  ~ In u (chain sw K n) ->
  (forall a, edge sw a n -> a = u) ->
  (forall m, trk s1 m = if memz m (chain sw K n) then Some T else trk s0 m) ->
  (forall c, edge s1 u c -> ~ divides s1 u -> trk s1 u = trk s1 c) ->
  ((forall m, is_node s0 m -> trk s0 m <> Some T) \/ ~ head s1 n) ->
  (forall p a, edge s0 p a -> ~ In a (chain sw K n) -> head s1 a -> divides s0 p) ->
  W_trk s1.
Proof.
  intros Ht0 Hfw Hnodes Hsw Hs1 Hcomplete Hu Hpn Htrk Hat_u Hfresh Hheads.
  set (ch := chain sw K n) in *.
  assert (Hin : forall m, In m ch -> trk s1 m = Some T).
  { intros m Hm. rewrite Htrk. apply memz_In in Hm. now rewrite Hm. }
  assert (Hout : forall m, ~ In m ch -> trk s1 m = trk s0 m).
  { intros m Hm. rewrite Htrk. apply memz_false in Hm. now rewrite Hm. }
  (* a head of s1 on the chain is its first node *)
  assert (Hhead_in : forall a, head s1 a -> In a ch -> a = n).
  { intros a [_ Pa] Ha. destruct (chain_parent sw K n a Ha) as [->|(p & Hp & Eps)]; [reflexivity|exfalso].
    assert (p <> u) as Hpu by (intros ->; contradiction).
    assert (successors s1 p = [a]) as E1 by (now rewrite (Hs1 p Hpu), <- (Hsw p Hpu)).
    destruct (single_not_divides _ _ _ E1) as [He Hnd]. apply Hnd, Pa, He. }
  constructor.
  - intros a c Hac Hnd. destruct (Z.eq_dec a u) as [->|Hau]; [now apply Hat_u|].
    pose proof (not_divides_single _ _ _ Hac Hnd) as E1.
    assert (successors s0 a = [c]) as E0 by (now rewrite <- (Hs1 a Hau)).
    assert (successors sw a = [c]) as Ew by (now rewrite (Hsw a Hau)).
    destruct (single_not_divides _ _ _ E0) as [He0 Hnd0].
    destruct (in_dec Z.eq_dec a ch) as [Ha|Ha].
    + destruct (chain_closed sw K n a c Ha Ew) as [Hc|Hend].
      * now rewrite (Hin a Ha), (Hin c Hc).
      * exfalso. apply Hcomplete. fold ch in Hend. rewrite <- Hend, Ew. reflexivity.
    + destruct (in_dec Z.eq_dec c ch) as [Hc|Hc].
      * exfalso. destruct (chain_parent sw K n c Hc) as [->|(p & Hp & Eps)].
        -- apply Hau. apply Hpn. apply edge_successors. rewrite Ew. now left.
        -- assert (a = p) as -> by (apply (wf_in _ Hfw a p c); apply edge_successors; [rewrite Ew|rewrite Eps]; now left).
           contradiction.
      * rewrite (Hout a Ha), (Hout c Hc). now apply (wt1 _ Ht0).
  - intros a b Ha Hb E.
    assert (Hto0 : forall x, head s1 x -> ~ In x ch -> head s0 x).
    { intros x Hx Hxc. split; [apply Hnodes, Hx|]. intros p Hp. now apply (Hheads p x). }
    destruct (in_dec Z.eq_dec a ch) as [Hac|Hac]; destruct (in_dec Z.eq_dec b ch) as [Hbc|Hbc].
    + rewrite (Hhead_in a Ha Hac), (Hhead_in b Hb Hbc). reflexivity.
    + exfalso. rewrite (Hin a Hac), (Hout b Hbc) in E. destruct Hfresh as [Hfr|Hnh].
      * apply (Hfr b); [apply Hnodes, Hb|now symmetry].
      * apply Hnh. now rewrite <- (Hhead_in a Ha Hac).
    + exfalso. rewrite (Hout a Hac), (Hin b Hbc) in E. destruct Hfresh as [Hfr|Hnh].
      * apply (Hfr a); [apply Hnodes, Ha|exact E].
      * apply Hnh. now rewrite <- (Hhead_in b Hb Hbc).
    + rewrite (Hout a Hac), (Hout b Hbc) in E. apply (wt2 _ Ht0); auto.
Qed.

(* ================================================================== *)
(* 6. UserDeleteEdge keeps W_trk                                        *)
(* ================================================================== *)
Theorem ude_trk st u v :
  W_dict st -> W_forest st -> W_trk st -> trk_bounded st -> trk_act (ft st) = true -> edge st u v ->
  exists a st', user_delete_edge_core st u v = Ok a st' /\
    W_trk st' /\ trk_bounded st' /\ (forall m, ~ reach st u m -> trk st' m = trk st m).
Proof.
  intros Hd Hf Ht Hb Cta He. unfold user_delete_edge_core. pose proof He as He'. unfold edge in He'. rewrite He'. cbn [negb].
  destruct (do_del_edge_spec st u v He) as (b1 & s1 & H1 & _ & _ & Hs1 & _). rewrite H1. cbn [bind].
  destruct (do_del_edge_WS st u v b1 s1 Hd Hf H1) as (Hd1 & Hf1 & He1 & Hn1 & Ha1 & Hr1).
  assert (gstep st s1) as G1 by (now apply rest_eq_gstep).
  destruct Hr1 as (_ & Rft & Rbk & _).
  destruct (wd_edge_nodes _ Hd u v He) as [Nu Nv].
  assert (Nu1 : is_node s1 u) by (now apply (gstep_is_node _ _ _ G1)).
  assert (Nv1 : is_node s1 v) by (now apply (gstep_is_node _ _ _ G1)).
  assert (Hlen : length (successors s1 u) = (length (successors st u) - 1)%nat).
  { rewrite Hs1, Z.eqb_refl. apply filter_remove_length; [apply (wd_adj_nodup _ Hd)|now apply edge_successors]. }
  assert (Hs1u : successors s1 u = filter (fun x => negb (v =? x)) (successors st u)) by (now rewrite Hs1, Z.eqb_refl).
  assert (Hs1x : forall x, x <> u -> successors s1 x = successors st x).
  { intros x Hx. rewrite Hs1. destruct (Z.eqb_spec x u); [contradiction|reflexivity]. }
  assert (Cta1 : trk_act (ft s1) = true) by (now rewrite Rft).
  assert (Huv : time_of st u < time_of st v) by (now apply (wf_time _ Hf)).
  assert (Hsub : forall a c, edge s1 a c -> edge st a c) by (intros a c Hac; now apply He1).
  assert (Hoff : forall p a, p <> u -> edge st p a -> edge s1 p a).
  { intros p a Hp Hpa. apply He1. split; [exact Hpa|]. intros [? _]. contradiction. }
  assert (Htime1 : forall m, time_of s1 m = time_of st m) by (intros m; apply (gstep_time _ _ _ G1)).
  set (K := length (nodes (g s1))).
  pose proof (wf_out _ Hf u) as Hout.
  unfold out_degree. destruct (successors s1 u) as [|sib rest] eqn:Es.
  - (* plain edge: the chain below v gets the fresh id *)
    cbn [length Z.of_nat Z.eqb].
    destruct (upd_track_step s1 v (next_trk s1) (Some (next_lin s1)) Hd1 Hf1 Nv1) as (b2 & s2 & H2 & Hd2 & Hf2 & G2 & E2 & S2).
    rewrite H2. cbn [bind]. eexists _, s2. split; [reflexivity|].
    destruct (relabel_walk st s1 u v (next_trk s1) _ b2 s2 Hd Hf Ht Hd1 Hf1 Hn1 Ha1 Hs1x Nv Huv Cta1 H2) as [Tr Em].
    fold K in Tr.
    assert (Hch_reach : forall m, In m (chain s1 K v) -> reach st u m).
    { intros m Hm. eapply rt_trans; [apply rt_step; exact He|]. apply (reach_mono s1 st Hsub). now apply chain_reach with (k := K). }
    assert (Hnext : next_trk s1 = max_trk (bk st) + 1) by (unfold next_trk; now rewrite Rbk).
    split; [|split].
    + apply (W_trk_relabel st s1 s2 u v (next_trk s1) K Ht Hf1).
      * intros m. rewrite (gstep_is_node _ _ _ G2). apply (gstep_is_node _ _ _ G1).
      * exact Hs1x.
      * intros a Ha. rewrite S2. now apply Hs1x.
      * apply (chain_complete s1 v Hd1 Hf1 Nv1).
      * intros Hin. destruct (chain_time s1 Hf1 K v u Hin) as [E|Hlt]; [subst; lia|rewrite !Htime1 in Hlt; lia].
      * intros a Hav. apply (wf_in _ Hf a u v); [now apply Hsub|exact He].
      * exact Tr.
      * intros c Hc. exfalso. apply E2, edge_successors in Hc. rewrite Es in Hc. destruct Hc.
      * left. intros m Nm Em'. apply Hb in Em'; [lia|exact Nm].
      * intros p a Hpa Hna Hha. destruct (Z.eq_dec p u) as [->|Hpu].
        -- exfalso. apply Hna. destruct (Z.eq_dec a v) as [->|Hav]; [apply chain_self|exfalso].
           assert (In a (filter (fun x => negb (v =? x)) (successors st u))) as Hin.
           { apply filter_In. split; [now apply edge_successors|]. destruct (Z.eqb_spec v a); [congruence|reflexivity]. }
           rewrite <- Hs1u in Hin. destruct Hin.
        -- destruct Hha as [_ P]. specialize (P p (proj2 (E2 p a) (Hoff p a Hpu Hpa))).
           unfold divides in *. now rewrite S2, (Hs1x p Hpu) in P.
    + intros m X Nm Hm. rewrite Tr in Hm. rewrite Em, Rbk.
      destruct (memz m (chain s1 K v)); [injection Hm as <-; lia|].
      assert (X <= max_trk (bk st)); [|lia]. apply (Hb m X); [|exact Hm].
      apply (gstep_is_node _ _ _ G1). now apply (gstep_is_node _ _ _ G2).
    + intros m Hm. rewrite Tr. destruct (memz m (chain s1 K v)) eqn:Em'; [|reflexivity].
      exfalso. apply Hm, Hch_reach. now apply memz_In.
  - destruct rest as [|z rest']; [|exfalso; cbn [length] in Hlen; lia].
    (* division edge: the sibling's chain joins the parent's track; v keeps its id *)
    cbn [length]. change (Z.of_nat 1 =? 0) with false. change (Z.of_nat 1 =? 1) with true. cbv iota.
    destruct (wd_track _ Hd1 u Nu1) as [t Htk]. apply zattr_attr in Htk. rewrite Htk.
    assert (Esib1 : edge s1 u sib) by (apply edge_successors; rewrite Es; now left).
    assert (Nsib1 : is_node s1 sib) by (apply (wd_edge_nodes _ Hd1 u sib Esib1)).
    destruct (upd_track_step s1 sib t None Hd1 Hf1 Nsib1) as (b2 & s2 & H2 & Hd2 & Hf2 & G2 & E2 & S2).
    rewrite H2. cbn [bind].
    assert (Nv2 : is_node s2 v) by (now apply (gstep_is_node _ _ _ G2)).
    destruct (wd_track _ Hd2 v Nv2) as [tv Htv]. apply zattr_attr in Htv. rewrite Htv.
    destruct (upd_track_step s2 v tv (Some (next_lin s2)) Hd2 Hf2 Nv2) as (b3 & s3 & H3 & Hd3 & Hf3 & G3 & E3 & S3).
    rewrite H3. cbn [bind]. eexists _, s3. split; [reflexivity|].
    pose proof (Hsub _ _ Esib1) as Esib.
    assert (Nsib : is_node st sib) by (apply (wd_edge_nodes _ Hd u sib Esib)).
    assert (Husib : time_of st u < time_of st sib) by (now apply (wf_time _ Hf)).
    destruct (relabel_walk st s1 u sib t None b2 s2 Hd Hf Ht Hd1 Hf1 Hn1 Ha1 Hs1x Nsib Husib Cta1 H2) as [Tr Em].
    fold K in Tr.
    assert (Hch_reach : forall m, In m (chain s1 K sib) -> reach st u m).
    { intros m Hm. eapply rt_trans; [apply rt_step; exact Esib|]. apply (reach_mono s1 st Hsub). now apply chain_reach with (k := K). }
    assert (Hu_out : ~ In u (chain s1 K sib)).
    { intros Hin. destruct (chain_time s1 Hf1 K sib u Hin) as [E|Hlt]; [subst; lia|rewrite !Htime1 in Hlt; lia]. }
    assert (Htu : trk st u = Some t) by (unfold trk, zattr; rewrite <- Ha1; exact Htk).
    assert (Wt2 : W_trk s2).
    { apply (W_trk_relabel st s1 s2 u sib t K Ht Hf1).
      * intros m. rewrite (gstep_is_node _ _ _ G2). apply (gstep_is_node _ _ _ G1).
      * exact Hs1x.
      * intros a Ha. rewrite S2. now apply Hs1x.
      * apply (chain_complete s1 sib Hd1 Hf1 Nsib1).
      * exact Hu_out.
      * intros a Hav. apply (wf_in _ Hf a u sib); [now apply Hsub|exact Esib].
      * exact Tr.
      * intros c Hc _. apply E2, edge_successors in Hc. rewrite Es in Hc. destruct Hc as [<-|[]].
        rewrite !Tr. apply memz_false in Hu_out. rewrite Hu_out.
        pose proof (chain_self s1 K sib) as Hself. apply memz_In in Hself. now rewrite Hself.
      * right. intros [_ P]. specialize (P u (proj2 (E2 u sib) Esib1)). unfold divides in P. rewrite S2, Es in P. cbn in P. lia.
      * intros p a Hpa Hna Hha. destruct (Z.eq_dec p u) as [->|Hpu].
        -- unfold divides. cbn [length] in Hlen. lia.
        -- destruct Hha as [_ P]. specialize (P p (proj2 (E2 p a) (Hoff p a Hpu Hpa))).
           unfold divides in *. now rewrite S2, (Hs1x p Hpu) in P. }
    assert (Cta2 : trk_act (ft s2) = true) by (rewrite (gs_ft _ _ G2); exact Cta1).
    destruct (do_upd_track_same_id s2 v tv _ b3 s3 Hd2 Cta2 H3 Htv) as [Tr3 Em3].
    split; [|split].
    + apply (W_trk_ext s2 s3); [intros m; apply (gstep_is_node _ _ _ G3)|exact S3|exact Tr3|exact Wt2].
    + intros m X Nm Hm. rewrite Tr3, Tr in Hm. rewrite Em3, Em, Rbk.
      destruct (memz m (chain s1 K sib)); [injection Hm as <-; lia|].
      assert (X <= max_trk (bk st)); [|lia]. apply (Hb m X); [|exact Hm].
      apply (gstep_is_node _ _ _ G1). apply (gstep_is_node _ _ _ G2). now apply (gstep_is_node _ _ _ G3).
    + intros m Hm. rewrite Tr3, Tr. destruct (memz m (chain s1 K sib)) eqn:Em'; [|reflexivity].
      exfalso. apply Hm, Hch_reach. now apply memz_In.
Qed.

(* ================================================================== *)
(* 7. UserAddEdge keeps W_trk                                           *)
(* ================================================================== *)
(* the part of UserAddEdge after the (possibly forced) removal of the merge edge *)
Definition uae_tail (s : state) (u v : Z) (pre : list action) : res action :=
  let od := out_degree s u in
  do acts, s <- (if od =? 0 then
                   match zattr s u KTrack with
                   | Some t => do b, s <- do_upd_track s v t (zattr s u KLin); Ok (pre ++ [ABasic b]) s
                   | None => Err EKey s end
                 else if od =? 1 then
                   match successors s u with
                   | c :: _ =>
                       do b, s <- do_upd_track s c (next_trk s) None;
                       match zattr s v KTrack with
                       | Some tv => do b2, s <- do_upd_track s v tv (zattr s u KLin); Ok (pre ++ [ABasic b; ABasic b2]) s
                       | None => Err EKey s end
                   | [] => Err EKey s end
                 else Err (EInvalid false) s);
  do b', s <- do_add_edge s u v [];
  Ok (AGroup (acts ++ [ABasic b'])) s.

Lemma uae_core_unfold st u v force :
  user_add_edge_core st u v force =
  if negb (has_node st u) then Err (EInvalid false) st else
  if negb (has_node st v) then Err (EInvalid false) st else
  if time_of st u >=? time_of st v then Err (EInvalid false) st else
  if (out_degree st u - (if has_edge st u v then 1 else 0)) >? 1 then Err (EInvalid false) st else
  do pre, s <- (if in_degree st v >? 0 then
                  if negb force then Err (EInvalid true) st
                  else match predecessors st v with
                       | p :: _ => do a, s <- user_delete_edge st p v false; Ok [a] s
                       | [] => Ok [] st end
                else Ok [] st);
  uae_tail s u v pre.
Proof. reflexivity. Qed.

Lemma uae_tail_trk s u v pre :
  W_dict s -> W_forest s -> W_trk s -> trk_bounded s -> trk_act (ft s) = true ->
  is_node s u -> is_node s v -> time_of s u < time_of s v ->
  (forall p, ~ edge s p v) -> (length (successors s u) <= 1)%nat ->
  exists a s', uae_tail s u v pre = Ok a s' /\
    W_dict s' /\ W_forest s' /\ W_trk s' /\ trk_bounded s' /\
    (forall m, ~ reach s u m -> ~ reach s v m -> trk s' m = trk s m) /\
    (forall x y, edge s' x y <-> edge s x y \/ (x = u /\ y = v)).
Proof.
  intros Hds Hfs Hts Hbs Cta Nu Nv Hts' Hnop Hod'. unfold uae_tail.
  set (K := length (nodes (g s))).
  assert (Hrefl : forall a, a <> u -> successors s a = successors s a) by reflexivity.
  unfold out_degree. destruct (successors s u) as [|c rest] eqn:Esu.
  2: destruct rest as [|c2 rest']; [|exfalso; cbn [length] in Hod'; lia].
  all: cbn [length]; try change (Z.of_nat 0 =? 0) with true; try change (Z.of_nat 1 =? 0) with false; try change (Z.of_nat 1 =? 1) with true; cbv iota.
  all: destruct (wd_track _ Hds u Nu) as [t Htk]; apply zattr_attr in Htk.
  - (* join: the chain below v adopts the track of u *)
    rewrite Htk.
    destruct (upd_track_step s v t (zattr s u KLin) Hds Hfs Nv) as (b & s2 & H2 & Hd2 & Hf2 & G2 & E2 & S2).
    rewrite H2. cbn [bind].
    assert (Nu2 : is_node s2 u) by (now apply (gstep_is_node _ _ _ G2)).
    assert (Nv2 : is_node s2 v) by (now apply (gstep_is_node _ _ _ G2)).
    destruct (do_add_edge_spec s2 u v [] Nu2 Nv2) as (b' & s3 & H3 & _ & _ & _ & Hs3 & _). rewrite H3. cbn [bind].
    destruct (do_add_edge_WS s2 u v [] b' s3 Hd2 Hf2 H3) as (Hd3 & Hf3 & E3 & N3 & A3 & R3).
    { rewrite !(gstep_time _ _ _ G2). exact Hts'. }
    { intros q Hq. apply E2 in Hq. exfalso. now apply (Hnop q). }
    { right. rewrite S2, Esu. cbn. lia. }
    destruct R3 as (_ & _ & Rbk & _).
    assert (Hne : has_edge s2 u v = false).
    { destruct (has_edge s2 u v) eqn:E; [|reflexivity]. exfalso. apply (Hnop u). now apply E2. }
    assert (Hs3u : successors s3 u = [v]) by (now rewrite Hs3, Z.eqb_refl, Hne, S2, Esu).
    assert (Hs3x : forall a, a <> u -> successors s3 a = successors s a).
    { intros a Ha. rewrite Hs3. destruct (Z.eqb_spec a u); [contradiction|apply S2]. }
    destruct (relabel_walk s s u v t _ b s2 Hds Hfs Hts Hds Hfs eq_refl (fun _ _ => eq_refl) Hrefl Nv Hts' Cta H2) as [Tr Em].
    fold K in Tr.
    assert (Tr3 : forall m, trk s3 m = if memz m (chain s K v) then Some t else trk s m).
    { intros m. unfold trk at 1. unfold zattr. rewrite A3. apply Tr. }
    assert (Hu_out : ~ In u (chain s K v)).
    { intros Hin. destruct (chain_time s Hfs K v u Hin) as [E|Hlt]; [subst; lia|lia]. }
    assert (E3uv : edge s3 u v) by (apply E3; now right).
    eexists _, s3. split; [reflexivity|]. split; [exact Hd3|]. split; [exact Hf3|]. split; [|split; [|split]].
    + apply (W_trk_relabel s s s3 u v t K Hts Hfs).
      * intros m. unfold is_node. rewrite N3. apply (gstep_is_node _ _ _ G2).
      * exact Hrefl.
      * exact Hs3x.
      * apply (chain_complete s v Hds Hfs Nv).
      * exact Hu_out.
      * intros a Hav. exfalso. now apply (Hnop a).
      * exact Tr3.
      * intros c Hc _. apply edge_successors in Hc. rewrite Hs3u in Hc. destruct Hc as [<-|[]].
        rewrite !Tr3. apply memz_false in Hu_out. rewrite Hu_out.
        pose proof (chain_self s K v) as Hself. apply memz_In in Hself. now rewrite Hself.
      * right. intros [_ P]. specialize (P u E3uv). unfold divides in P. rewrite Hs3u in P. cbn in P. lia.
      * intros p a Hpa Hna Hha.
        assert (p <> u) as Hpu by (intros ->; apply edge_successors in Hpa; rewrite Esu in Hpa; destruct Hpa).
        destruct Hha as [_ P]. specialize (P p). unfold divides in *. rewrite (Hs3x p Hpu) in P. apply P.
        apply E3. left. now apply E2.
    + intros m X Nm Hm. rewrite Tr3 in Hm. rewrite Rbk, Em.
      destruct (memz m (chain s K v)); [injection Hm as <-; lia|].
      assert (X <= max_trk (bk s)); [|lia]. apply (Hbs m X); [|exact Hm].
      apply (gstep_is_node _ _ _ G2). unfold is_node. now rewrite <- N3.
    + intros m _ Hm. rewrite Tr3. destruct (memz m (chain s K v)) eqn:Em'; [|reflexivity].
      exfalso. apply Hm. apply chain_reach with (k := K). now apply memz_In.
    + intros x y. rewrite E3, E2. tauto.
  - (* division: the chain below the existing child gets a fresh id; v keeps its id *)
    assert (Euc : edge s u c) by (apply edge_successors; rewrite Esu; now left).
    assert (Nc : is_node s c) by (apply (wd_edge_nodes _ Hds u c Euc)).
    destruct (upd_track_step s c (next_trk s) None Hds Hfs Nc) as (b & s2 & H2 & Hd2 & Hf2 & G2 & E2 & S2).
    rewrite H2. cbn [bind].
    assert (Nu2 : is_node s2 u) by (now apply (gstep_is_node _ _ _ G2)).
    assert (Nv2 : is_node s2 v) by (now apply (gstep_is_node _ _ _ G2)).
    destruct (wd_track _ Hd2 v Nv2) as [tv Htv]. apply zattr_attr in Htv. rewrite Htv.
    destruct (upd_track_step s2 v tv (zattr s2 u KLin) Hd2 Hf2 Nv2) as (b2 & s3 & H3 & Hd3 & Hf3 & G3 & E3 & S3).
    rewrite H3. cbn [bind].
    assert (Nu3 : is_node s3 u) by (now apply (gstep_is_node _ _ _ G3)).
    assert (Nv3 : is_node s3 v) by (now apply (gstep_is_node _ _ _ G3)).
    destruct (do_add_edge_spec s3 u v [] Nu3 Nv3) as (b' & s4 & H4 & _ & _ & _ & Hs4 & _). rewrite H4. cbn [bind].
    destruct (do_add_edge_WS s3 u v [] b' s4 Hd3 Hf3 H4) as (Hd4 & Hf4 & E4 & N4 & A4 & R4).
    { rewrite !(gstep_time _ _ _ G3), !(gstep_time _ _ _ G2). exact Hts'. }
    { intros q Hq. apply E3, E2 in Hq. exfalso. now apply (Hnop q). }
    { right. rewrite S3, S2, Esu. cbn. lia. }
    destruct R4 as (_ & _ & Rbk & _).
    assert (Hne : has_edge s3 u v = false).
    { destruct (has_edge s3 u v) eqn:E; [|reflexivity]. exfalso. apply (Hnop u). now apply E2, E3. }
    assert (Hs4u : successors s4 u = [c; v]) by (now rewrite Hs4, Z.eqb_refl, Hne, S3, S2, Esu).
    assert (Hs4x : forall a, a <> u -> successors s4 a = successors s a).
    { intros a Ha. rewrite Hs4. destruct (Z.eqb_spec a u); [contradiction|]. now rewrite S3, S2. }
    assert (Huc : time_of s u < time_of s c) by (now apply (wf_time _ Hfs)).
    destruct (relabel_walk s s u c (next_trk s) None b s2 Hds Hfs Hts Hds Hfs eq_refl (fun _ _ => eq_refl) Hrefl Nc Huc Cta H2) as [Tr Em].
    fold K in Tr.
    assert (Cta2 : trk_act (ft s2) = true) by (rewrite (gs_ft _ _ G2); exact Cta).
    destruct (do_upd_track_same_id s2 v tv _ b2 s3 Hd2 Cta2 H3 Htv) as [Tr3 Em3].
    assert (Tr4 : forall m, trk s4 m = if memz m (chain s K c) then Some (next_trk s) else trk s m).
    { intros m. unfold trk at 1. unfold zattr. rewrite A4. change (trk s3 m = if memz m (chain s K c) then Some (next_trk s) else trk s m).
      rewrite Tr3. apply Tr. }
    assert (Hu_out : ~ In u (chain s K c)).
    { intros Hin. destruct (chain_time s Hfs K c u Hin) as [E|Hlt]; [subst; lia|lia]. }
    eexists _, s4. split; [reflexivity|]. split; [exact Hd4|]. split; [exact Hf4|]. split; [|split; [|split]].
    + apply (W_trk_relabel s s s4 u c (next_trk s) K Hts Hfs).
      * intros m. unfold is_node. rewrite N4. rewrite <- (gstep_is_node _ _ m G2). apply (gstep_is_node _ _ _ G3).
      * exact Hrefl.
      * exact Hs4x.
      * apply (chain_complete s c Hds Hfs Nc).
      * exact Hu_out.
      * intros a Hac. apply (wf_in _ Hfs a u c Hac Euc).
      * exact Tr4.
      * intros x _ Hnd. exfalso. apply Hnd. unfold divides. rewrite Hs4u. cbn. lia.
      * left. apply (trk_bounded_fresh s Hbs).
      * intros p a Hpa Hna Hha.
        assert (p <> u) as Hpu.
        { intros ->. apply edge_successors in Hpa. rewrite Esu in Hpa. destruct Hpa as [<-|[]]. apply Hna, chain_self. }
        destruct Hha as [_ P]. specialize (P p). unfold divides in *. rewrite (Hs4x p Hpu) in P. apply P.
        apply E4. left. now apply E3, E2.
    + intros m X Nm Hm. rewrite Tr4 in Hm. rewrite Rbk, Em3, Em.
      destruct (memz m (chain s K c)); [injection Hm as <-; lia|].
      assert (X <= max_trk (bk s)); [|lia]. apply (Hbs m X); [|exact Hm].
      apply (gstep_is_node _ _ _ G2). apply (gstep_is_node _ _ _ G3). unfold is_node. now rewrite <- N4.
    + intros m Hm _. rewrite Tr4. destruct (memz m (chain s K c)) eqn:Em'; [|reflexivity].
      exfalso. apply Hm. eapply rt_trans; [apply rt_step; exact Euc|]. apply chain_reach with (k := K). now apply memz_In.
    + intros x y. rewrite E4, E3, E2. tauto.
Qed.

Theorem uae_trk st u v force a st' :
  W_dict st -> W_forest st -> W_trk st -> trk_bounded st -> trk_act (ft st) = true ->
  user_add_edge_core st u v force = Ok a st' ->
  W_dict st' /\ W_forest st' /\ W_trk st' /\ trk_bounded st' /\
  (forall m, ~ reach st u m -> ~ reach st v m -> (forall p, edge st p v -> ~ reach st p m) -> trk st' m = trk st m) /\
  (forall x y, edge st' x y <-> (edge st x y /\ y <> v) \/ (x = u /\ y = v)).
Proof.
  intros Hd Hf Ht Hb Cta H. rewrite uae_core_unfold in H.
  destruct (has_node st u) eqn:Eu; cbn [negb] in H; [|discriminate].
  destruct (has_node st v) eqn:Ev; cbn [negb] in H; [|discriminate].
  destruct (time_of st u >=? time_of st v) eqn:Et; [discriminate|].
  destruct (out_degree st u - (if has_edge st u v then 1 else 0) >? 1) eqn:Eo; [discriminate|].
  apply has_node_is_node in Eu. apply has_node_is_node in Ev.
  assert (Htm : time_of st u < time_of st v) by (rewrite Z.geb_leb in Et; apply Z.leb_gt in Et; lia).
  assert (Ho : out_degree st u - (if has_edge st u v then 1 else 0) <= 1) by (rewrite Z.gtb_ltb in Eo; apply Z.ltb_ge in Eo; lia).
  destruct (in_degree st v >? 0) eqn:Ei.
  - (* v has a parent: forced removal of the merge edge first *)
    destruct force; cbn [negb] in H; [|discriminate].
    apply in_degree_pos in Ei. destruct Ei as [p0 Hp0].
    destruct (predecessors st v) as [|p r] eqn:Ep; [destruct Hp0|].
    assert (Hpv : is_node st p /\ edge st p v) by (apply in_predecessors; rewrite Ep; now left).
    destruct Hpv as [Np Epv].
    destruct (ude_core_spec st p v Hd Hf) as [_ Hy]. destruct (Hy Epv) as (a0 & s & Hude & Hds & Hfs & Gs & Es & Sx & Sp).
    destruct (ude_trk st p v Hd Hf Ht Hb Cta Epv) as (a0' & s0' & Hude' & Wts & Hbs & Frs).
    rewrite Hude in Hude'. injection Hude' as <- <-.
    unfold user_delete_edge, top_wrap in H. rewrite Hude in H. cbn [bind] in H.
    assert (Eonly : forall x y, edge s x y <-> edge st x y /\ y <> v).
    { intros x y. rewrite Es. split.
      - intros [H1 H2]. split; [exact H1|]. intros ->. apply H2. split; [|reflexivity]. apply (wf_in _ Hf x p v H1 Epv).
      - intros [H1 H2]. split; [exact H1|]. intros [_ ->]. contradiction. }
    assert (Hod : (length (successors s u) <= 1)%nat).
    { unfold out_degree in Ho. destruct (Z.eq_dec u p) as [->|Hup].
      - rewrite Sp. rewrite filter_remove_length; [|apply (wd_adj_nodup _ Hd)|now apply edge_successors].
        unfold edge in Epv. rewrite Epv in Ho. lia.
      - rewrite (Sx u Hup). destruct (has_edge st u v) eqn:Euv; [|lia].
        exfalso. apply Hup. apply (wf_in _ Hf u p v); [exact Euv|exact Epv]. }
    destruct (uae_tail_trk s u v [a0] Hds Hfs Wts Hbs) as (a1 & s1 & Htail & Hd1 & Hf1 & Wt1 & Hb1 & Fr1 & E1).
    { rewrite (gs_ft _ _ Gs). exact Cta. }
    { now apply (gstep_is_node _ _ _ Gs). }
    { now apply (gstep_is_node _ _ _ Gs). }
    { rewrite !(gstep_time _ _ _ Gs). exact Htm. }
    { intros q Hq. apply Eonly in Hq. destruct Hq as [_ Hq]. now apply Hq. }
    { exact Hod. }
    rewrite Htail in H. injection H as <- <-.
    assert (Hsub : forall x y, edge s x y -> edge st x y) by (intros x y Hxy; now apply Eonly).
    split; [exact Hd1|]. split; [exact Hf1|]. split; [exact Wt1|]. split; [exact Hb1|]. split.
    + intros m Hu Hv Hp. rewrite Fr1.
      * apply Frs. now apply Hp.
      * intros R. apply Hu. now apply (reach_mono s st Hsub).
      * intros R. apply Hv. now apply (reach_mono s st Hsub).
    + intros x y. rewrite E1, Eonly. tauto.
  - (* v has no parent *)
    cbn [bind] in H.
    assert (Hnop : forall p, ~ edge st p v).
    { intros p Hp. assert (In p (predecessors st v)) as Hin by (apply in_predecessors; split; [apply (wd_edge_nodes _ Hd p v Hp)|exact Hp]).
      assert (in_degree st v >? 0 = true) by (apply in_degree_pos; eauto). congruence. }
    assert (Hod : (length (successors st u) <= 1)%nat).
    { unfold out_degree in Ho. destruct (has_edge st u v) eqn:E; [exfalso; now apply (Hnop u)|lia]. }
    destruct (uae_tail_trk st u v [] Hd Hf Ht Hb Cta Eu Ev Htm Hnop Hod) as (a1 & s1 & Htail & Hd1 & Hf1 & Wt1 & Hb1 & Fr1 & E1).
    rewrite Htail in H. injection H as <- <-.
    split; [exact Hd1|]. split; [exact Hf1|]. split; [exact Wt1|]. split; [exact Hb1|]. split.
    + intros m Hu Hv _. now apply Fr1.
    + intros x y. rewrite E1. split; [intros [Hxy|Hxy]; [left; split; [exact Hxy|intros ->; now apply (Hnop x)]|now right]|tauto].
Qed.

(* ================================================================== *)
(* 8. the user-facing actions (with the history / signal tail) and the *)
(*    frame clause in terms of weakly connected components             *)
(* ================================================================== *)
Lemma finish_top_g s a p : g (finish_top s a p) = g s /\ bk (finish_top s a p) = bk s.
Proof. unfold finish_top, hist_add. destruct (redo_stack s); auto. Qed.

Lemma trk_bounded_same s s' : g s' = g s -> bk s' = bk s -> trk_bounded s -> trk_bounded s'.
Proof.
  intros Eg Eb H n T Hn Htk. rewrite Eb. apply (H n T).
  - unfold is_node, node_ids in *. now rewrite <- Eg.
  - unfold trk, zattr in *. now rewrite <- (same_g_attr _ _ Eg).
Qed.

Lemma top_wrap_inv top p r a st' : top_wrap top p r = Ok a st' ->
  exists s, r = Ok a s /\ g st' = g s /\ bk st' = bk s.
Proof.
  unfold top_wrap. destruct r as [a0 s|e s]; [|discriminate]. intros H. injection H as <- <-.
  exists s. split; [reflexivity|]. destruct top; [apply finish_top_g|auto].
Qed.

Lemma reach_wconn st a b : reach st a b -> wconn st a b.
Proof. intros R. induction R; [now apply rst_step|apply rst_refl|eapply rst_trans; eauto]. Qed.

Lemma same_g_trk s s' : g s' = g s -> forall m, trk s' m = trk s m.
Proof. intros E m. unfold trk, zattr. now rewrite (same_g_attr _ _ E). Qed.

Lemma same_g_edge s s' : g s' = g s -> forall a c, edge s' a c <-> edge s a c.
Proof. intros E a c. unfold edge, has_edge, adj. now rewrite E. Qed.

Theorem user_delete_edge_trk st u v top a st' :
  W_dict st -> W_forest st -> W_trk st -> trk_bounded st -> trk_act (ft st) = true ->
  user_delete_edge st u v top = Ok a st' ->
  W_trk st' /\ trk_bounded st' /\
  (forall m, ~ wconn st u m -> trk st' m = trk st m) /\
  (forall x y, edge st' x y <-> edge st x y /\ ~ (x = u /\ y = v)).
Proof.
  intros Hd Hf Ht Hb Cta H. unfold user_delete_edge in H.
  destruct (top_wrap_inv _ _ _ _ _ H) as (s & Hc & Eg & Eb).
  destruct (has_edge st u v) eqn:Ee.
  - destruct (ude_trk st u v Hd Hf Ht Hb Cta Ee) as (a' & s' & Hc' & Wt & Hbs & Fr).
    destruct (ude_core_spec st u v Hd Hf) as [_ Hy]. destruct (Hy Ee) as (a2 & s2 & Hc2 & _ & _ & _ & Es & _).
    rewrite Hc in Hc', Hc2. injection Hc' as <- <-. injection Hc2 as _ <-.
    split; [now apply (W_trk_same_g s st')|]. split; [now apply (trk_bounded_same s st')|]. split.
    + intros m Hm. rewrite (same_g_trk _ _ Eg). apply Fr. intros R. apply Hm. now apply reach_wconn.
    + intros x y. rewrite (same_g_edge _ _ Eg). apply Es.
  - destruct (ude_core_spec st u v Hd Hf) as [Hn _]. rewrite Hn in Hc by (unfold edge; congruence). discriminate.
Qed.

Theorem user_add_edge_trk st u v force top a st' :
  W_dict st -> W_forest st -> W_trk st -> trk_bounded st -> trk_act (ft st) = true ->
  user_add_edge st u v force top = Ok a st' ->
  W_trk st' /\ trk_bounded st' /\
  (forall m, ~ wconn st u m -> ~ wconn st v m -> trk st' m = trk st m) /\
  (forall x y, edge st' x y <-> (edge st x y /\ y <> v) \/ (x = u /\ y = v)).
Proof.
  intros Hd Hf Ht Hb Cta H. unfold user_add_edge in H.
  destruct (top_wrap_inv _ _ _ _ _ H) as (s & Hc & Eg & Eb).
  destruct (uae_trk st u v force a s Hd Hf Ht Hb Cta Hc) as (_ & _ & Wt & Hbs & Fr & Es).
  split; [now apply (W_trk_same_g s st')|]. split; [now apply (trk_bounded_same s st')|]. split.
  - intros m Hu Hv. rewrite (same_g_trk _ _ Eg). apply Fr.
    + intros R. apply Hu. now apply reach_wconn.
    + intros R. apply Hv. now apply reach_wconn.
    + intros p Hp R. apply Hv. eapply rst_trans; [apply rst_sym, rst_step; exact Hp|now apply reach_wconn].
  - intros x y. rewrite (same_g_edge _ _ Eg). apply Es.
Qed.

(* local => global after a step: in the state after an accepted UserDeleteEdge / UserAddEdge two nodes
   carry the same track id iff they lie on the same unbranched segment *)
Theorem user_delete_edge_global st u v a st' :
  W_dict st -> W_forest st -> W_trk st -> trk_bounded st -> trk_act (ft st) = true ->
  user_delete_edge_core st u v = Ok a st' ->
  forall n m, is_node st' n -> is_node st' m -> (trk st' n = trk st' m <-> same_segment st' n m).
Proof.
  intros Hd Hf Ht Hb Cta H.
  destruct (has_edge st u v) eqn:Ee.
  - destruct (ude_trk st u v Hd Hf Ht Hb Cta Ee) as (a' & s' & Hc' & Wt & _).
    destruct (ude_core_spec st u v Hd Hf) as [_ Hy]. destruct (Hy Ee) as (a2 & s2 & Hc2 & Hd2 & Hf2 & _).
    rewrite H in Hc', Hc2. injection Hc' as <- <-. injection Hc2 as _ <-.
    now apply track_global.
  - destruct (ude_core_spec st u v Hd Hf) as [Hn _]. rewrite Hn in H by (unfold edge; congruence). discriminate.
Qed.

Theorem user_add_edge_global st u v force a st' :
  W_dict st -> W_forest st -> W_trk st -> trk_bounded st -> trk_act (ft st) = true ->
  user_add_edge_core st u v force = Ok a st' ->
  forall n m, is_node st' n -> is_node st' m -> (trk st' n = trk st' m <-> same_segment st' n m).
Proof.
  intros Hd Hf Ht Hb Cta H.
  destruct (uae_trk st u v force a st' Hd Hf Ht Hb Cta H) as (Hd' & Hf' & Wt & _).
  now apply track_global.
Qed.

Corollary user_delete_edge_frame st u v top a st' :
  W_dict st -> W_forest st -> W_trk st -> trk_bounded st -> trk_act (ft st) = true ->
  user_delete_edge st u v top = Ok a st' ->
  forall m, ~ wconn st u m -> trk st' m = trk st m.
Proof. intros Hd Hf Ht Hb Cta H. apply (user_delete_edge_trk st u v top a st' Hd Hf Ht Hb Cta H). Qed.

Corollary user_add_edge_frame st u v force top a st' :
  W_dict st -> W_forest st -> W_trk st -> trk_bounded st -> trk_act (ft st) = true ->
  user_add_edge st u v force top = Ok a st' ->
  forall m, ~ wconn st u m -> ~ wconn st v m -> trk st' m = trk st m.
Proof. intros Hd Hf Ht Hb Cta H. apply (user_add_edge_trk st u v force top a st' Hd Hf Ht Hb Cta H). Qed.

(* ================================================================== *)
(* 9. a concrete state satisfying all hypotheses (non-vacuity)          *)
(* ================================================================== *)
From FT Require Import Model.EditExec.

Definition ex_feats : feats :=
  {| reg_node := [KTime; KPos; KTrack; KLin]; reg_edge := []; pos_keys := [KPos]; rp_all := []; rp_act := [];
     iou_avail := false; iou_act := false; trk_act := true; lin_act := true |}.
(* 1 (t=0) divides into 2 and 3 (t=1); 2 continues to 4 (t=2).  Tracks: 1 = {1}, 2 = {2,4}, 3 = {3}. *)
Definition ex4 : state :=
  mk_state [(1, [(KTime, VZ 0); (KPos, VTok 0); (KTrack, VZ 1); (KLin, VZ 1)]);
            (2, [(KTime, VZ 1); (KPos, VTok 1); (KTrack, VZ 2); (KLin, VZ 1)]);
            (3, [(KTime, VZ 1); (KPos, VTok 2); (KTrack, VZ 3); (KLin, VZ 1)]);
            (4, [(KTime, VZ 2); (KPos, VTok 3); (KTrack, VZ 2); (KLin, VZ 1)])]
           [(1, 2, []); (1, 3, []); (2, 4, [])] None ex_feats
           [(1, [1]); (2, [2; 4]); (3, [3])] [(1, [1; 2; 3; 4])] 3 1 5.

Lemma succ_cases st (P : Z -> list Z -> Prop) :
  (forall u, P u []) -> (forall u, In u (keys (succs (g st))) -> P u (successors st u)) -> forall u, P u (successors st u).
Proof.
  intros H0 H u. destruct (in_dec Z.eq_dec u (keys (succs (g st)))) as [Hi|Hi]; [now apply H|].
  apply lookup_None_keys in Hi. unfold successors, adj, getd. rewrite Hi. apply H0.
Qed.

Lemma attrs_cases st (P : attrs -> Prop) :
  P [] -> (forall n, is_node st n -> P (node_attrs st n)) -> forall n, P (node_attrs st n).
Proof.
  intros H0 H n. destruct (in_dec Z.eq_dec n (node_ids st)) as [Hi|Hi]; [now apply H|].
  apply lookup_None_keys in Hi. unfold node_attrs, getd. rewrite Hi. exact H0.
Qed.

Lemma ex4_nodes n : is_node ex4 n <-> n = 1 \/ n = 2 \/ n = 3 \/ n = 4.
Proof. unfold is_node. cbn. intuition. Qed.

Lemma ex4_edges u v : edge ex4 u v -> (u, v) = (1, 2) \/ (u, v) = (1, 3) \/ (u, v) = (2, 4).
Proof.
  rewrite edge_successors. revert u.
  apply (succ_cases ex4 (fun u l => In v l -> (u, v) = (1, 2) \/ (u, v) = (1, 3) \/ (u, v) = (2, 4))); [intros u []|].
  intros u Hu. cbn in Hu. destruct Hu as [<-|[<-|[<-|[<-|[]]]]]; vm_compute; intuition congruence.
Qed.

Lemma ex4_W_dict : W_dict ex4.
Proof.
  constructor.
  - cbn. repeat constructor; cbn; intuition discriminate.
  - vm_compute. repeat constructor; cbn; intuition discriminate.
  - intros n. rewrite haskey_keys. unfold is_node. change (keys (succs (g ex4))) with (node_ids ex4). tauto.
  - apply (succ_cases ex4 (fun _ l => NoDup l)); [constructor|]. intros u Hu. cbn in Hu.
    destruct Hu as [<-|[<-|[<-|[<-|[]]]]]; vm_compute; repeat constructor; cbn; intuition discriminate.
  - intros u v He. apply ex4_edges in He. rewrite !ex4_nodes. destruct He as [E|[E|E]]; injection E as -> ->; auto.
  - intros n Hn. apply ex4_nodes in Hn. destruct Hn as [->|[->|[->| ->]]]; vm_compute; eauto.
  - intros n Hn. apply ex4_nodes in Hn. destruct Hn as [->|[->|[->| ->]]]; vm_compute; eauto.
  - intros n Hn. apply ex4_nodes in Hn. destruct Hn as [->|[->|[->| ->]]]; vm_compute; eauto.
  - apply (attrs_cases ex4 (fun a => NoDup (keys a))); [constructor|]. intros n Hn. apply ex4_nodes in Hn.
    destruct Hn as [->|[->|[->| ->]]]; vm_compute; repeat constructor; cbn; intuition discriminate.
Qed.

Lemma ex4_W_forest : W_forest ex4.
Proof.
  constructor.
  - intros u u' v E1 E2. apply ex4_edges in E1. apply ex4_edges in E2.
    destruct E1 as [E1|[E1|E1]]; destruct E2 as [E2|[E2|E2]]; congruence.
  - apply (succ_cases ex4 (fun _ l => (length l <= 2)%nat)); [cbn; lia|]. intros u Hu. cbn in Hu.
    destruct Hu as [<-|[<-|[<-|[<-|[]]]]]; vm_compute; lia.
  - intros u v He. apply ex4_edges in He. destruct He as [E|[E|E]]; injection E as -> ->; vm_compute; reflexivity.
Qed.

Lemma ex4_W_trk : W_trk ex4.
Proof.
  assert (D1 : divides ex4 1) by (vm_compute; lia).
  assert (H4 : ~ head ex4 4).
  { intros [_ P]. assert (edge ex4 2 4) as E by reflexivity. specialize (P 2 E). vm_compute in P. lia. }
  constructor.
  - intros u v He Hnd. apply ex4_edges in He. destruct He as [E|[E|E]]; injection E as -> ->; try contradiction. reflexivity.
  - intros a b Ha Hb E. pose proof (proj1 Ha) as Na. pose proof (proj1 Hb) as Nb. apply ex4_nodes in Na. apply ex4_nodes in Nb.
    destruct Na as [->|[->|[->| ->]]]; destruct Nb as [->|[->|[->| ->]]]; try reflexivity; try contradiction; vm_compute in E; discriminate.
Qed.

Lemma ex4_trk_bounded : trk_bounded ex4.
Proof.
  intros n T Hn H. apply ex4_nodes in Hn. destruct Hn as [->|[->|[->| ->]]]; vm_compute in H; injection H as <-; vm_compute; discriminate.
Qed.

Lemma ex4_W_book : W_book ex4.
Proof.
  split; (split; [cbn; repeat constructor; cbn; intuition discriminate|split]).
  - intros T l H. cbn in H.
    destruct (Z.eqb_spec T 1) as [->|H1]; [|destruct (Z.eqb_spec T 2) as [->|H2]; [|destruct (Z.eqb_spec T 3) as [->|H3]; [|discriminate]]];
      injection H as <-; (split; [discriminate|split; [repeat constructor; cbn; intuition discriminate|]]);
      intros n; rewrite ex4_nodes; cbn [In]; split.
    + intros [<-|[]]; vm_compute; auto.
    + intros [[->|[->|[->| ->]]] H]; vm_compute in H; try discriminate; auto.
    + intros [<-|[<-|[]]]; vm_compute; auto 6.
    + intros [[->|[->|[->| ->]]] H]; vm_compute in H; try discriminate; auto.
    + intros [<-|[]]; vm_compute; auto 6.
    + intros [[->|[->|[->| ->]]] H]; vm_compute in H; try discriminate; auto.
  - intros n T Hi H. apply ex4_nodes in Hi. destruct Hi as [->|[->|[->| ->]]]; vm_compute in H; injection H as <-; split; (reflexivity || discriminate).
  - intros T l H. cbn in H. destruct (Z.eqb_spec T 1) as [->|H1]; [|discriminate].
    injection H as <-. split; [discriminate|split; [repeat constructor; cbn; intuition discriminate|]].
    intros n. rewrite ex4_nodes. cbn [In]. split.
    + intros [<-|[<-|[<-|[<-|[]]]]]; vm_compute; auto 6.
    + intros [[->|[->|[->| ->]]] H]; auto.
  - intros n T Hi H. apply ex4_nodes in Hi. destruct Hi as [->|[->|[->| ->]]]; vm_compute in H; injection H as <-; split; (reflexivity || discriminate).
Qed.
