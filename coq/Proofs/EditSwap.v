(* UserSwapPredecessors on well-formed states (C03, C04, C11).
   The action validates, then runs four nested user actions:
     UserDeleteEdge(p1,n1); UserDeleteEdge(p2,n2); UserAddEdge(p1,n2); UserAddEdge(p2,n1)
   (each only when the corresponding predecessor exists).  A refusal of a nested call after the
   first cut would leave a mutated state behind an error.  This file proves that it cannot
   happen: once the checks of the swap itself pass, none of the four nested calls is refused.
     - the cuts target existing edges;
     - after both cuts n1 and n2 have no parent, so neither add is a merge;
     - each source just lost a child, so the out-degree pre-check of the add passes
       (p1 <> p2 is one of the checks; a missing predecessor skips the call);
     - the time conditions of the adds are exactly the two time checks of the swap
       (they also exclude p2 = n1 and p1 = n2).
   Hence: a refused swap returns the state it was given, an accepted swap returns a
   forward-in-time binary forest with the expected edge set, and W_trk is kept. *)
From Coq Require Import ZArith List Bool Lia.
From FT Require Import Base.Dict Model.Edit Proofs.DictLemmas Proofs.EditInv Proofs.EditGraph Proofs.EditWalk
  Proofs.EditBasic Proofs.EditUserEdge Proofs.EditUserEdgeCor.
From FT Require Proofs.EditTrk.
Import ListNotations.
Open Scope Z_scope.

(* ------------------------------------------------------------------ the predecessor the code picks *)
(* next(graph.predecessors(n), None) *)
Definition pred1 (st : state) (n : Z) : option Z := hd_error (predecessors st n).

(* on a forest it is the unique parent *)
Lemma pred1_edge st n x : W_dict st -> W_forest st -> (pred1 st n = Some x <-> edge st x n).
Proof.
  intros Hd Hf. unfold pred1. split.
  - intros H. assert (In x (predecessors st n)) as Hin.
    { destruct (predecessors st n) as [|p r]; [discriminate H|]. cbn in H. injection H as ->. now left. }
    apply in_predecessors in Hin. tauto.
  - intros H. assert (In x (predecessors st n)) as Hin by (apply in_predecessors; split; [apply (wd_edge_nodes _ Hd x n H)|exact H]).
    assert (Hall : forall p, In p (predecessors st n) -> p = x).
    { intros p Hp. apply in_predecessors in Hp. apply (wf_in _ Hf p x n); tauto. }
    destruct (predecessors st n) as [|p r]; [destruct Hin|]. cbn. f_equal. apply Hall. now left.
Qed.

Lemma pred1_none st n : W_dict st -> pred1 st n = None -> forall q, ~ edge st q n.
Proof.
  intros Hd H q Hq. assert (In q (predecessors st n)) as Hin by (apply in_predecessors; split; [apply (wd_edge_nodes _ Hd q n Hq)|exact Hq]).
  unfold pred1 in H. destruct (predecessors st n); [destruct Hin|discriminate H].
Qed.

(* ------------------------------------------------------------------ the checks of the swap, in the code's order *)
Definition swap_refused (st : state) (n1 n2 : Z) : option err :=
  if negb (has_node st n1) || negb (has_node st n2) then Some ENetworkX else
  let p1 := pred1 st n1 in let p2 := pred1 st n2 in
  match p1, p2 with
  | None, None => Some (EInvalid false)
  | _, _ =>
    if match p1, p2 with Some a, Some b => a =? b | _, _ => false end then Some (EInvalid false) else
    if match p1 with Some p => time_of st p >=? time_of st n2 | None => false end then Some (EInvalid false) else
    if match p2 with Some p => time_of st p >=? time_of st n1 | None => false end then Some (EInvalid false) else
    None
  end.

(* the four nested calls *)
Definition opt_cut (s : state) (po : option Z) (n : Z) (acc : list action) : res (list action) :=
  match po with Some p => do a, s0 <- user_delete_edge s p n false; Ok (acc ++ [a]) s0 | None => Ok acc s end.
Definition opt_add (s : state) (po : option Z) (n : Z) (acc : list action) : res (list action) :=
  match po with Some p => do a, s0 <- user_add_edge s p n false false; Ok (acc ++ [a]) s0 | None => Ok acc s end.
Definition swap_steps (st : state) (n1 n2 : Z) (p1 p2 : option Z) : res action :=
  do a1, s <- opt_cut st p1 n1 [];
  do a2, s <- opt_cut s p2 n2 a1;
  do a3, s <- opt_add s p1 n2 a2;
  do a4, s <- opt_add s p2 n1 a3;
  Ok (AGroup a4) s.

(* the code is: checks, then the four calls *)
Lemma swap_core_cases st n1 n2 :
  match swap_refused st n1 n2 with
  | Some e => user_swap_core st n1 n2 = Err e st
  | None => user_swap_core st n1 n2 = swap_steps st n1 n2 (pred1 st n1) (pred1 st n2) /\
            has_node st n1 = true /\ has_node st n2 = true /\
            (pred1 st n1 = None -> pred1 st n2 = None -> False) /\
            (forall a b, pred1 st n1 = Some a -> pred1 st n2 = Some b -> a <> b) /\
            (forall p, pred1 st n1 = Some p -> time_of st p < time_of st n2) /\
            (forall p, pred1 st n2 = Some p -> time_of st p < time_of st n1)
  end.
Proof.
  unfold swap_refused, user_swap_core, pred1.
  destruct (has_node st n1) eqn:E1; cbn [negb orb]; [|reflexivity].
  destruct (has_node st n2) eqn:E2; cbn [negb orb]; [|reflexivity].
  destruct (hd_error (predecessors st n1)) as [p1|]; destruct (hd_error (predecessors st n2)) as [p2|]; cbv zeta.
  - destruct (p1 =? p2) eqn:Eq; [reflexivity|].
    destruct (time_of st p1 >=? time_of st n2) eqn:T1; [reflexivity|].
    destruct (time_of st p2 >=? time_of st n1) eqn:T2; [reflexivity|].
    rewrite Z.geb_leb in T1, T2. apply Z.leb_gt in T1. apply Z.leb_gt in T2. apply Z.eqb_neq in Eq.
    split; [reflexivity|]. split; [reflexivity|]. split; [reflexivity|]. split; [intros C; discriminate C|].
    split; [|split].
    + intros a b Ha Hb. injection Ha as <-. injection Hb as <-. exact Eq.
    + intros p Hp. injection Hp as <-. exact T1.
    + intros p Hp. injection Hp as <-. exact T2.
  - destruct (time_of st p1 >=? time_of st n2) eqn:T1; [reflexivity|].
    rewrite Z.geb_leb in T1. apply Z.leb_gt in T1.
    split; [reflexivity|]. split; [reflexivity|]. split; [reflexivity|]. split; [intros C; discriminate C|].
    split; [|split].
    + intros a b _ Hb. discriminate Hb.
    + intros p Hp. injection Hp as <-. exact T1.
    + intros p Hp. discriminate Hp.
  - destruct (time_of st p2 >=? time_of st n1) eqn:T2; [reflexivity|].
    rewrite Z.geb_leb in T2. apply Z.leb_gt in T2.
    split; [reflexivity|]. split; [reflexivity|]. split; [reflexivity|]. split; [intros _ C; discriminate C|].
    split; [|split].
    + intros a b Ha _. discriminate Ha.
    + intros p Hp. discriminate Hp.
    + intros p Hp. injection Hp as <-. exact T2.
  - reflexivity.
Qed.

(* ------------------------------------------------------------------ one optional cut *)
Lemma opt_cut_step s po n acc : W_dict s -> W_forest s -> (forall p, po = Some p -> edge s p n) ->
  exists r s', opt_cut s po n acc = Ok r s' /\
    W_dict s' /\ W_forest s' /\ gstep s s' /\
    (forall x y, edge s' x y <-> edge s x y /\ ~ (po = Some x /\ y = n)) /\
    (forall x, po <> Some x -> successors s' x = successors s x) /\
    (forall p, po = Some p -> length (successors s' p) = (length (successors s p) - 1)%nat) /\
    (W_trk s -> EditTrk.trk_bounded s -> trk_act (ft s) = true -> W_trk s' /\ EditTrk.trk_bounded s').
Proof.
  intros Hd Hf He. unfold opt_cut. destruct po as [p|].
  - assert (Ep : edge s p n) by (now apply He).
    destruct (ude_core_spec s p n Hd Hf) as [_ Hy]. destruct (Hy Ep) as (a & s' & H & Hd' & Hf' & G & E & Sx & Sp).
    unfold user_delete_edge, top_wrap. rewrite H. cbn [bind].
    exists (acc ++ [a]), s'. split; [reflexivity|]. split; [exact Hd'|]. split; [exact Hf'|]. split; [exact G|].
    split; [|split; [|split]].
    + intros x y. rewrite E. split; intros [A B]; (split; [exact A|]).
      * intros [C Hy']. injection C as C. apply B. split; [now symmetry|exact Hy'].
      * intros [Hx Hy']. apply B. split; [now rewrite Hx|exact Hy'].
    + intros x Hx. apply Sx. intros C. apply Hx. now rewrite C.
    + intros q Hq. injection Hq as <-. rewrite Sp. apply filter_remove_length; [apply (wd_adj_nodup _ Hd)|now apply edge_successors].
    + intros Ht Hb Ca. destruct (EditTrk.ude_trk s p n Hd Hf Ht Hb Ca Ep) as (a' & s'' & H' & Wt & Hb' & _).
      rewrite H in H'. injection H' as _ <-. now split.
  - exists acc, s. split; [reflexivity|]. split; [exact Hd|]. split; [exact Hf|]. split; [apply gstep_refl|].
    split; [|split; [|split]].
    + intros x y. split; [intros A; split; [exact A|intros [C _]; discriminate C]|tauto].
    + reflexivity.
    + intros p C. discriminate C.
    + tauto.
Qed.

(* ------------------------------------------------------------------ one optional add onto a parentless node *)
Lemma no_parent_in_degree st v : (forall q, ~ edge st q v) -> in_degree st v >? 0 = false.
Proof.
  intros H. destruct (in_degree st v >? 0) eqn:E; [|reflexivity]. apply in_degree_pos in E. destruct E as [p Hp].
  apply in_predecessors in Hp. exfalso. apply (H p). tauto.
Qed.

(* UserAddEdge without force is accepted on: existing endpoints, forward in time, source with at
   most one child, target without parent *)
Lemma uae_accepts s u v : is_node s u -> is_node s v -> time_of s u < time_of s v ->
  (length (successors s u) <= 1)%nat -> (forall q, ~ edge s q v) -> uae_refused s u v false = None.
Proof.
  intros Nu Nv Ht Ho Hnp. unfold uae_refused.
  apply has_node_is_node in Nu. apply has_node_is_node in Nv. rewrite Nu, Nv. cbn [negb].
  assert (time_of s u >=? time_of s v = false) as -> by (rewrite Z.geb_leb; apply Z.leb_gt; lia).
  assert (out_degree s u - (if has_edge s u v then 1 else 0) >? 1 = false) as ->.
  { rewrite Z.gtb_ltb. apply Z.ltb_ge. unfold out_degree. destruct (has_edge s u v); lia. }
  rewrite (no_parent_in_degree s v Hnp). reflexivity.
Qed.

Lemma opt_add_step s po n acc : W_dict s -> W_forest s -> is_node s n -> (forall q, ~ edge s q n) ->
  (forall p, po = Some p -> is_node s p /\ time_of s p < time_of s n /\ (length (successors s p) <= 1)%nat) ->
  exists r s', opt_add s po n acc = Ok r s' /\
    W_dict s' /\ W_forest s' /\ gstep s s' /\
    (forall x y, edge s' x y <-> edge s x y \/ (po = Some x /\ y = n)) /\
    (forall x, po <> Some x -> (length (successors s' x) <= length (successors s x))%nat) /\
    (W_trk s -> EditTrk.trk_bounded s -> trk_act (ft s) = true -> W_trk s' /\ EditTrk.trk_bounded s').
Proof.
  intros Hd Hf Nn Hnp Hp. unfold opt_add. destruct po as [p|].
  - destruct (Hp p eq_refl) as (Np & Ht & Ho).
    pose proof (uae_core_spec s p n false Hd Hf) as S. rewrite (uae_accepts s p n Np Nn Ht Ho Hnp) in S.
    destruct S as (a & s' & H & Hd' & Hf' & G & E).
    unfold user_add_edge, top_wrap. rewrite H. cbn [bind].
    assert (E' : forall x y, edge s' x y <-> edge s x y \/ (Some p = Some x /\ y = n)).
    { intros x y. rewrite E. split.
      - intros [[A _]|[Hx Hy]]; [now left|right; split; [now rewrite Hx|exact Hy]].
      - intros [A|[C Hy]]; [left; split; [exact A|intros Hy; rewrite Hy in A; now apply (Hnp x)]|right; injection C as C; auto]. }
    exists (acc ++ [a]), s'. split; [reflexivity|]. split; [exact Hd'|]. split; [exact Hf'|]. split; [exact G|].
    split; [exact E'|]. split.
    + intros x Hx. apply NoDup_incl_length; [apply (wd_adj_nodup _ Hd')|].
      intros y Hy. apply edge_successors in Hy. apply E' in Hy. destruct Hy as [Hy|[C _]]; [now apply edge_successors|contradiction].
    + intros Ht' Hb Ca. destruct (EditTrk.uae_trk s p n false a s' Hd Hf Ht' Hb Ca H) as (_ & _ & Wt & Hb' & _). now split.
  - exists acc, s. split; [reflexivity|]. split; [exact Hd|]. split; [exact Hf|]. split; [apply gstep_refl|].
    split; [|split].
    + intros x y. split; [now left|intros [A|[C _]]; [exact A|discriminate C]].
    + intros x _. lia.
    + tauto.
Qed.

(* ------------------------------------------------------------------ the four calls in sequence *)
Lemma swap_steps_spec st n1 n2 p1 p2 : W_dict st -> W_forest st ->
  is_node st n1 -> is_node st n2 ->
  (forall x, p1 = Some x <-> edge st x n1) -> (forall x, p2 = Some x <-> edge st x n2) ->
  (p1 = None -> p2 = None -> False) ->
  (forall a b, p1 = Some a -> p2 = Some b -> a <> b) ->
  (forall p, p1 = Some p -> time_of st p < time_of st n2) ->
  (forall p, p2 = Some p -> time_of st p < time_of st n1) ->
  exists a st', swap_steps st n1 n2 p1 p2 = Ok a st' /\
    W_dict st' /\ W_forest st' /\ gstep st st' /\
    (forall x y, edge st' x y <-> (edge st x y /\ y <> n1 /\ y <> n2) \/ (p1 = Some x /\ y = n2) \/ (p2 = Some x /\ y = n1)) /\
    (W_trk st -> EditTrk.trk_bounded st -> trk_act (ft st) = true -> W_trk st' /\ EditTrk.trk_bounded st').
Proof.
  intros Hd Hf N1 N2 P1 P2 Hnn Hdist Ht1 Ht2.
  (* the two nodes differ: otherwise they would share their predecessor *)
  assert (Hne : n1 <> n2).
  { intros C. rewrite <- C in P2. destruct p1 as [a|].
    - apply (Hdist a a eq_refl); [|reflexivity]. apply P2. now apply P1.
    - destruct p2 as [b|]; [|now apply Hnn]. assert (None = Some b) as X by (apply P1; now apply P2). discriminate X. }
  unfold swap_steps.
  (* cut (p1, n1) *)
  destruct (opt_cut_step st p1 n1 [] Hd Hf) as (a1 & s1 & H1 & Hd1 & Hf1 & G1 & E1 & S1x & S1p & T1).
  { intros p Hp. now apply P1. }
  rewrite H1. cbn [bind].
  (* cut (p2, n2): the first cut did not touch this edge *)
  destruct (opt_cut_step s1 p2 n2 a1 Hd1 Hf1) as (a2 & s2 & H2 & Hd2 & Hf2 & G2 & E2 & S2x & S2p & T2).
  { intros p Hp. apply E1. split; [now apply P2|]. intros [_ C]. apply Hne. now symmetry. }
  rewrite H2. cbn [bind].
  (* add (p1, n2): n2 has lost its parent, p1 has lost n1 *)
  destruct (opt_add_step s2 p1 n2 a2 Hd2 Hf2) as (a3 & s3 & H3 & Hd3 & Hf3 & G3 & E3 & S3 & T3).
  { apply (gstep_is_node _ _ _ G2), (gstep_is_node _ _ _ G1). exact N2. }
  { intros q Hq. apply E2 in Hq. destruct Hq as [Hq Hn]. apply E1 in Hq. destruct Hq as [Hq _].
    apply Hn. split; [now apply P2|reflexivity]. }
  { intros p Hp. assert (Ep : edge st p n1) by (now apply P1). split; [|split].
    - apply (gstep_is_node _ _ _ G2), (gstep_is_node _ _ _ G1). apply (wd_edge_nodes _ Hd p n1 Ep).
    - rewrite !(gstep_time _ _ _ G2), !(gstep_time _ _ _ G1). now apply Ht1.
    - assert (Hnp2 : p2 <> Some p) by (intros C; apply (Hdist p p Hp C); reflexivity).
      rewrite (S2x p Hnp2), (S1p p Hp). pose proof (wf_out _ Hf p). lia. }
  rewrite H3. cbn [bind].
  (* add (p2, n1): n1 has lost its parent, p2 has lost n2 and did not get a child in the third call *)
  destruct (opt_add_step s3 p2 n1 a3 Hd3 Hf3) as (a4 & s4 & H4 & Hd4 & Hf4 & G4 & E4 & S4 & T4).
  { apply (gstep_is_node _ _ _ G3), (gstep_is_node _ _ _ G2), (gstep_is_node _ _ _ G1). exact N1. }
  { intros q Hq. apply E3 in Hq. destruct Hq as [Hq|[_ C]]; [|now apply Hne].
    apply E2 in Hq. destruct Hq as [Hq _]. apply E1 in Hq. destruct Hq as [Hq Hn].
    apply Hn. split; [now apply P1|reflexivity]. }
  { intros p Hp. assert (Ep : edge st p n2) by (now apply P2). split; [|split].
    - apply (gstep_is_node _ _ _ G3), (gstep_is_node _ _ _ G2), (gstep_is_node _ _ _ G1). apply (wd_edge_nodes _ Hd p n2 Ep).
    - rewrite !(gstep_time _ _ _ G3), !(gstep_time _ _ _ G2), !(gstep_time _ _ _ G1). now apply Ht2.
    - assert (Hnp1 : p1 <> Some p) by (intros C; apply (Hdist p p C Hp); reflexivity).
      pose proof (S3 p Hnp1) as L3. rewrite (S2p p Hp), (S1x p Hnp1) in L3. pose proof (wf_out _ Hf p). lia. }
  rewrite H4. cbn [bind].
  exists (AGroup a4), s4. split; [reflexivity|]. split; [exact Hd4|]. split; [exact Hf4|].
  split; [eapply gstep_trans; [exact G1|eapply gstep_trans; [exact G2|eapply gstep_trans; [exact G3|exact G4]]]|].
  split.
  - intros x y. rewrite E4, E3, E2, E1. split.
    + intros [[[[A B] C]|B]|B]; [left|right; now left|right; now right].
      split; [exact A|]. split.
      * intros Hy. apply B. split; [|exact Hy]. apply P1. now rewrite <- Hy.
      * intros Hy. apply C. split; [|exact Hy]. apply P2. now rewrite <- Hy.
    + intros [(A & B & C)|[B|B]]; [left; left|left; now right|now right].
      split; [split; [exact A|]|]; intros [_ Hy]; contradiction.
  - intros Ht Hb Ca.
    destruct (T1 Ht Hb Ca) as [Wt1 Hb1].
    assert (Ca1 : trk_act (ft s1) = true) by (rewrite (gs_ft _ _ G1); exact Ca).
    destruct (T2 Wt1 Hb1 Ca1) as [Wt2 Hb2].
    assert (Ca2 : trk_act (ft s2) = true) by (rewrite (gs_ft _ _ G2); exact Ca1).
    destruct (T3 Wt2 Hb2 Ca2) as [Wt3 Hb3].
    assert (Ca3 : trk_act (ft s3) = true) by (rewrite (gs_ft _ _ G3); exact Ca2).
    exact (T4 Wt3 Hb3 Ca3).
Qed.

(* ------------------------------------------------------------------ the complete specification *)
Lemma swap_core_full st n1 n2 : W_dict st -> W_forest st ->
  match swap_refused st n1 n2 with
  | Some e => user_swap_core st n1 n2 = Err e st
  | None => exists a st', user_swap_core st n1 n2 = Ok a st' /\
      W_dict st' /\ W_forest st' /\ gstep st st' /\
      (forall x y, edge st' x y <-> (edge st x y /\ y <> n1 /\ y <> n2) \/
                                    (pred1 st n1 = Some x /\ y = n2) \/ (pred1 st n2 = Some x /\ y = n1)) /\
      (W_trk st -> EditTrk.trk_bounded st -> trk_act (ft st) = true -> W_trk st' /\ EditTrk.trk_bounded st')
  end.
Proof.
  intros Hd Hf. pose proof (swap_core_cases st n1 n2) as C.
  destruct (swap_refused st n1 n2) as [e|]; [exact C|].
  destruct C as (Hc & N1 & N2 & Hnn & Hdist & Ht1 & Ht2). rewrite Hc.
  apply has_node_is_node in N1. apply has_node_is_node in N2.
  apply (swap_steps_spec st n1 n2 (pred1 st n1) (pred1 st n2) Hd Hf N1 N2); auto.
  - intros x. now apply pred1_edge.
  - intros x. now apply pred1_edge.
Qed.

(* refused (with which error) exactly when a check fails, and then nothing is touched; otherwise
   accepted, and the result is a forest in which n1 and n2 have exchanged their parents *)
Theorem swap_core_spec st n1 n2 : W_dict st -> W_forest st ->
  match swap_refused st n1 n2 with
  | Some e => user_swap_core st n1 n2 = Err e st
  | None => exists a st', user_swap_core st n1 n2 = Ok a st' /\
      W_dict st' /\ W_forest st' /\ gstep st st' /\
      (forall x y, edge st' x y <-> (edge st x y /\ y <> n1 /\ y <> n2) \/
                                    (pred1 st n1 = Some x /\ y = n2) \/ (pred1 st n2 = Some x /\ y = n1))
  end.
Proof.
  intros Hd Hf. pose proof (swap_core_full st n1 n2 Hd Hf) as S.
  destruct (swap_refused st n1 n2) as [e|]; [exact S|].
  destruct S as (a & st' & H & Hd' & Hf' & G & E & _). exists a, st'. auto.
Qed.

(* the same edge relation with the parents named by the relation itself *)
Corollary swap_core_edges st n1 n2 a st' : W_dict st -> W_forest st -> user_swap_core st n1 n2 = Ok a st' ->
  forall x y, edge st' x y <-> (edge st x y /\ y <> n1 /\ y <> n2) \/ (edge st x n1 /\ y = n2) \/ (edge st x n2 /\ y = n1).
Proof.
  intros Hd Hf H x y. pose proof (swap_core_spec st n1 n2 Hd Hf) as S.
  destruct (swap_refused st n1 n2) as [e|]; [rewrite H in S; discriminate S|].
  destruct S as (a0 & s0 & H0 & _ & _ & _ & E). rewrite H in H0. injection H0 as _ <-.
  rewrite E, (pred1_edge st n1 x Hd Hf), (pred1_edge st n2 x Hd Hf). tauto.
Qed.

Corollary swap_core_refusal_unchanged st n1 n2 e st' : W_dict st -> W_forest st ->
  user_swap_core st n1 n2 = Err e st' -> st' = st /\ swap_refused st n1 n2 = Some e.
Proof.
  intros Hd Hf H. pose proof (swap_core_spec st n1 n2 Hd Hf) as S.
  destruct (swap_refused st n1 n2) as [e0|].
  - rewrite H in S. injection S as -> ->. auto.
  - destruct S as (a & s & H0 & _). rewrite H in H0. discriminate H0.
Qed.

(* which inputs are refused, spelled out *)
Theorem swap_refusals st n1 n2 : W_dict st -> W_forest st ->
  ((has_node st n1 = false \/ has_node st n2 = false) -> user_swap st n1 n2 = Err ENetworkX st) /\
  (has_node st n1 = true -> has_node st n2 = true -> (forall q, ~ edge st q n1) -> (forall q, ~ edge st q n2) ->
     user_swap st n1 n2 = Err (EInvalid false) st) /\
  (has_node st n1 = true -> has_node st n2 = true -> forall p, edge st p n1 -> edge st p n2 ->
     user_swap st n1 n2 = Err (EInvalid false) st) /\
  (has_node st n1 = true -> has_node st n2 = true -> forall p, edge st p n1 -> time_of st n2 <= time_of st p ->
     user_swap st n1 n2 = Err (EInvalid false) st) /\
  (has_node st n1 = true -> has_node st n2 = true -> forall p, edge st p n2 -> time_of st n1 <= time_of st p ->
     user_swap st n1 n2 = Err (EInvalid false) st).
Proof.
  intros Hd Hf. unfold user_swap, top_wrap.
  pose proof (swap_core_cases st n1 n2) as S. unfold swap_refused in S.
  split; [|split; [|split; [|split]]].
  - intros [H|H]; rewrite H in S; cbn [negb orb] in S; [|rewrite orb_true_r in S]; now rewrite S.
  - intros H1 H2 Q1 Q2. rewrite H1, H2 in S. cbn [negb orb] in S.
    assert (pred1 st n1 = None) as X1.
    { destruct (pred1 st n1) as [p|] eqn:E; [|reflexivity]. exfalso. apply (Q1 p). now apply pred1_edge. }
    assert (pred1 st n2 = None) as X2.
    { destruct (pred1 st n2) as [p|] eqn:E; [|reflexivity]. exfalso. apply (Q2 p). now apply pred1_edge. }
    rewrite X1, X2 in S. now rewrite S.
  - intros H1 H2 p Q1 Q2. rewrite H1, H2 in S. cbn [negb orb] in S.
    apply (pred1_edge st n1 p Hd Hf) in Q1. apply (pred1_edge st n2 p Hd Hf) in Q2.
    rewrite Q1, Q2 in S. cbv zeta in S. rewrite Z.eqb_refl in S. now rewrite S.
  - intros H1 H2 p Q1 Ht. rewrite H1, H2 in S. cbn [negb orb] in S.
    apply (pred1_edge st n1 p Hd Hf) in Q1. rewrite Q1 in S. cbv zeta in S.
    assert (time_of st p >=? time_of st n2 = true) as T by (rewrite Z.geb_leb; apply Z.leb_le; lia).
    rewrite T in S. destruct (pred1 st n2) as [p2|]; [destruct (p =? p2)|]; now rewrite S.
  - intros H1 H2 p Q2 Ht. rewrite H1, H2 in S. cbn [negb orb] in S.
    apply (pred1_edge st n2 p Hd Hf) in Q2. rewrite Q2 in S. cbv zeta in S.
    assert (time_of st p >=? time_of st n1 = true) as T by (rewrite Z.geb_leb; apply Z.leb_le; lia).
    rewrite T in S.
    destruct (pred1 st n1) as [p1|]; [destruct (p1 =? p); [|destruct (time_of st p1 >=? time_of st n2)]|]; now rewrite S.
Qed.

(* ------------------------------------------------------------------ the public entry point *)
(* C11: a refused swap returns the state it was given *)
Theorem swap_refused_unchanged st n1 n2 e st' : W_dict st -> W_forest st ->
  user_swap st n1 n2 = Err e st' -> st' = st.
Proof.
  intros Hd Hf H. unfold user_swap, top_wrap in H.
  destruct (user_swap_core st n1 n2) as [a0 s0|e0 s0] eqn:E; [discriminate H|]. injection H as _ <-.
  apply (swap_core_refusal_unchanged st n1 n2 e0 s0 Hd Hf E).
Qed.

(* ... and the error it reports is the one of the first failing check *)
Theorem swap_refused_error st n1 n2 e st' : W_dict st -> W_forest st ->
  user_swap st n1 n2 = Err e st' -> st' = st /\ swap_refused st n1 n2 = Some e.
Proof.
  intros Hd Hf H. unfold user_swap, top_wrap in H.
  destruct (user_swap_core st n1 n2) as [a0 s0|e0 s0] eqn:E; [discriminate H|]. injection H as <- <-.
  apply (swap_core_refusal_unchanged st n1 n2 e0 s0 Hd Hf E).
Qed.

(* the swap is accepted exactly when no check fails (no nested call can be refused) *)
Theorem swap_accepted_iff st n1 n2 : W_dict st -> W_forest st ->
  (swap_refused st n1 n2 = None <-> exists a st', user_swap st n1 n2 = Ok a st').
Proof.
  intros Hd Hf. pose proof (swap_core_spec st n1 n2 Hd Hf) as S. unfold user_swap, top_wrap. split.
  - intros R. rewrite R in S. destruct S as (a & s & H & _). rewrite H. eauto.
  - intros (a & s & H). destruct (swap_refused st n1 n2) as [e|]; [|reflexivity]. rewrite S in H. discriminate H.
Qed.

(* C03: an accepted swap keeps the forest; n1 and n2 have exchanged their parents *)
Theorem swap_keeps_forest st n1 n2 a st' : W_dict st -> W_forest st ->
  user_swap st n1 n2 = Ok a st' ->
  W_dict st' /\ W_forest st' /\
  (forall x y, edge st' x y <-> (edge st x y /\ y <> n1 /\ y <> n2) \/ (edge st x n1 /\ y = n2) \/ (edge st x n2 /\ y = n1)).
Proof.
  intros Hd Hf H. unfold user_swap, top_wrap in H.
  destruct (user_swap_core st n1 n2) as [a0 s0|e0 s0] eqn:E; [|discriminate H]. injection H as <- <-.
  pose proof (swap_core_edges st n1 n2 a0 s0 Hd Hf E) as Ed.
  pose proof (swap_core_spec st n1 n2 Hd Hf) as S.
  destruct (swap_refused st n1 n2) as [e|]; [rewrite E in S; discriminate S|].
  destruct S as (a1 & s1 & H1 & Hd1 & Hf1 & _). rewrite E in H1. injection H1 as _ <-.
  destruct (finish_top_graph s0 a0 None) as (G & _).
  split; [now apply (W_dict_same_g s0)|]. split; [now apply (W_forest_same_g s0)|].
  intros x y. rewrite (edge_same_g s0 _ x y G). apply Ed.
Qed.

(* what else an accepted swap leaves alone: node set, every attribute except the two ids, segmentation, features *)
Theorem swap_keeps_rest st n1 n2 a st' : W_dict st -> W_forest st ->
  user_swap st n1 n2 = Ok a st' ->
  node_ids st' = node_ids st /\ (forall n j, j <> KTrack -> j <> KLin -> attr st' n j = attr st n j) /\
  seg st' = seg st /\ ft st' = ft st.
Proof.
  intros Hd Hf H. unfold user_swap, top_wrap in H.
  destruct (user_swap_core st n1 n2) as [a0 s0|e0 s0] eqn:E; [|discriminate H]. injection H as <- <-.
  pose proof (swap_core_spec st n1 n2 Hd Hf) as S.
  destruct (swap_refused st n1 n2) as [e|]; [rewrite E in S; discriminate S|].
  destruct S as (a1 & s1 & H1 & _ & _ & G & _). rewrite E in H1. injection H1 as _ <-.
  destruct (finish_top_graph s0 a0 None) as (Eg & Es & Ef & _).
  split; [unfold node_ids; rewrite Eg; apply (gs_nodes _ _ G)|]. split; [|split; [rewrite Es; apply (gs_seg _ _ G)|rewrite Ef; apply (gs_ft _ _ G)]].
  intros n j H1 H2. unfold attr, node_attrs. rewrite Eg. now apply (gs_attr _ _ G).
Qed.

(* C04: an accepted swap keeps the track-id invariant *)
Theorem swap_core_trk st n1 n2 a st' : W_dict st -> W_forest st ->
  W_trk st -> EditTrk.trk_bounded st -> trk_act (ft st) = true ->
  user_swap_core st n1 n2 = Ok a st' -> W_dict st' /\ W_forest st' /\ W_trk st' /\ EditTrk.trk_bounded st'.
Proof.
  intros Hd Hf Ht Hb Ca H. pose proof (swap_core_full st n1 n2 Hd Hf) as S.
  destruct (swap_refused st n1 n2) as [e|]; [rewrite H in S; discriminate S|].
  destruct S as (a0 & s0 & H0 & Hd' & Hf' & _ & _ & T). rewrite H in H0. injection H0 as _ <-.
  destruct (T Ht Hb Ca) as [Wt Hb']. auto.
Qed.

Theorem swap_trk st n1 n2 a st' : W_dict st -> W_forest st ->
  W_trk st -> EditTrk.trk_bounded st -> trk_act (ft st) = true ->
  user_swap st n1 n2 = Ok a st' -> W_trk st' /\ EditTrk.trk_bounded st'.
Proof.
  intros Hd Hf Ht Hb Ca H. unfold user_swap, top_wrap in H.
  destruct (user_swap_core st n1 n2) as [a0 s0|e0 s0] eqn:E; [|discriminate H]. injection H as <- <-.
  destruct (swap_core_trk st n1 n2 a0 s0 Hd Hf Ht Hb Ca E) as (_ & _ & Wt & Hb').
  destruct (finish_top_graph s0 a0 None) as (Eg & _ & _ & Eb).
  split; [now apply (EditTrk.W_trk_same_g s0)|now apply (EditTrk.trk_bounded_same s0)].
Qed.
