(* The invariant WF of the edit state machine, conjunct by conjunct (DESIGN.md section 6).
   Definitions only; the preservation proofs live in the other Proofs/Edit*.v files. *)
From Coq Require Import ZArith List Bool Lia.
From FT Require Import Base.Dict Model.Edit.
Import ListNotations.
Open Scope Z_scope.

Definition node_ids (st : state) : list Z := keys (nodes (g st)).
Definition is_node (st : state) (n : Z) : Prop := In n (node_ids st).
Definition edge (st : state) (u v : Z) : Prop := has_edge st u v = true.
Definition trk (st : state) (n : Z) : option Z := zattr st n KTrack.
Definition lin (st : state) (n : Z) : option Z := zattr st n KLin.
Definition rstate {A} (r : res A) : state := match r with Ok _ s => s | Err _ s => s end.

(* ---- W_dict: the graph dictionaries are well formed, every node carries time and track id ---- *)
Record W_dict (st : state) : Prop := {
  wd_nodup : NoDup (node_ids st);
  wd_succ_nodup : NoDup (keys (succs (g st)));
  wd_succ_keys : forall n, haskey n (succs (g st)) = true <-> is_node st n;
  wd_adj_nodup : forall u, NoDup (successors st u);
  wd_edge_nodes : forall u v, edge st u v -> is_node st u /\ is_node st v;
  wd_time : forall n, is_node st n -> exists t, attr st n KTime = Some (VZ t);
  wd_track : forall n, is_node st n -> exists k, attr st n KTrack = Some (VZ k);
  wd_lin : forall n, is_node st n -> exists l, attr st n KLin = Some (VZ l);
  wd_attr_nodup : forall n, NoDup (keys (node_attrs st n))
}.

(* ---- W_forest (C03): forward-in-time binary forest ---- *)
Record W_forest (st : state) : Prop := {
  wf_in : forall u u' v, edge st u v -> edge st u' v -> u = u';
  wf_out : forall u, (length (successors st u) <= 2)%nat;
  wf_time : forall u v, edge st u v -> time_of st u < time_of st v
}.

(* ---- W_trk (C04), local form: T1 ids constant along non-division edges,
        T2 distinct heads (no parent, or the parent divides) carry distinct ids ---- *)
Definition divides (st : state) (u : Z) : Prop := (2 <= length (successors st u))%nat.
Definition head (st : state) (n : Z) : Prop := is_node st n /\ forall p, edge st p n -> divides st p.
Record W_trk (st : state) : Prop := {
  wt1 : forall u v, edge st u v -> ~ divides st u -> trk st u = trk st v;
  wt2 : forall a b, head st a -> head st b -> trk st a = trk st b -> a = b
}.

(* ---- W_lin (C05), local form: L1 ids constant along every edge, L2 distinct roots distinct ids ---- *)
Definition root (st : state) (n : Z) : Prop := is_node st n /\ forall p, ~ edge st p n.
Record W_lin (st : state) : Prop := {
  wl1 : forall u v, edge st u v -> lin st u = lin st v;
  wl2 : forall a b, root st a -> root st b -> lin st a = lin st b -> a = b
}.

(* ---- W_book (C06): the lookups are exactly the group-by of the id attributes ---- *)
Definition book_ok (st : state) (b : dict (list Z)) (idof : Z -> option Z) (mx : Z) : Prop :=
  NoDup (keys b) /\
  (forall T l, lookup T b = Some l -> l <> [] /\ NoDup l /\ forall n, In n l <-> (is_node st n /\ idof n = Some T)) /\
  (forall n T, is_node st n -> idof n = Some T -> haskey T b = true /\ T <= mx).
Definition W_book (st : state) : Prop :=
  book_ok st (trk_book (bk st)) (trk st) (max_trk (bk st)) /\
  book_ok st (lin_book (bk st)) (lin st) (max_lin (bk st)).

(* ---- W_seg (C07): labels and nodes in one-to-one correspondence ---- *)
Definition label_at (sg : list (list Z)) (t : Z) (i : nat) : Z := nth i (frame_of sg t) 0.
Definition W_seg (st : state) : Prop :=
  match seg st with
  | None => True
  | Some sg =>
    (forall n, is_node st n -> frame_ok sg (time_of st n) = true /\ mask_of sg (time_of st n) n <> []) /\
    (forall t i, frame_ok sg t = true -> label_at sg t i <> 0 ->
                 is_node st (label_at sg t i) /\ time_of st (label_at sg t i) = t) /\
    (forall n, is_node st n -> n <> 0)
  end.

(* ---- W_fresh (C08, C09): every active managed feature is the value of the current masks ---- *)
Definition W_fresh (st : state) : Prop :=
  match seg st with
  | None => True
  | Some sg =>
    (forall n k, is_node st n -> In k (rp_act (ft st)) ->
                 attr st n k = Some (VRp (mask_of sg (time_of st n) n))) /\
    (iou_act (ft st) = true -> forall u v, edge st u v ->
                 lookup KIou (edge_attrs st u v) = Some (iou_of st sg u v))
  end.

(* ---- the configuration the theorems are stated for: track and lineage features active ---- *)
Definition cfg_ok (st : state) : Prop :=
  trk_act (ft st) = true /\ lin_act (ft st) = true /\
  In KTime (reg_node (ft st)) /\ In KTrack (reg_node (ft st)) /\ In KLin (reg_node (ft st)).

Record WF (st : state) : Prop := {
  w_cfg : cfg_ok st; w_dict : W_dict st; w_forest : W_forest st; w_trk : W_trk st; w_lin : W_lin st;
  w_book : W_book st; w_seg : W_seg st; w_fresh : W_fresh st
}.
