(* Source tie for FEATURE SWITCHING (property C10).

   The definitions translated from the current funtracks sources (Gen/Toggle_gen.v, rewritten by
   harness/translate_toggle.py from data_model/tracks.py, annotators/_annotator_registry.py,
   annotators/_graph_annotator.py, actions/update_node_attrs.py) ARE the hand-written model of
   Model/Toggle.v and the refusal of do_upd_attrs (Model/Edit.v): Leibniz equality of the whole
   result -- value or error, and the state, also the state at a raise -- for all arguments.  If the
   Python changes its behaviour the regenerated definition changes and the equality stops being
   provable.

   Hypotheses (each stated where it is needed, nowhere else):
     rp_canon st   the list rp_act is the sub-list of rp_all it denotes (same order, same multiplicity).
                   The Python has no such list, only one flag per key of the regionprops table; a record
                   whose rp_act is written differently represents the same Python state but the hand model
                   treats it differently (set_flags rewrites rp_act into this form, the refusal paths do not).
     reg_typed st  no manageable key is registered in tracks.features under the other feature kind
                   (a node key in reg_edge, "iou" in reg_node).  Python's `key not in self.features` looks in
                   the whole FeatureDict, the model's [register] only among the features of the key's own kind.
   Both are invariants: they hold after every enable / disable that returns ([*_keeps_*] below) and no
   edit touches [ft] (ToggleProofs.step_ft).  *)
From Coq Require Import ZArith List Bool Lia.
From FT Require Import Base.Dict Model.Edit Model.Toggle Model.PyRt Model.PyRt4 Gen.Toggle_gen Proofs.DictLemmas.
Import ListNotations.
Open Scope Z_scope.

(* ================================================================== *)
(* 0. lists, dicts, records                                            *)
(* ================================================================== *)
Lemma memz_cons x y l : memz x (y :: l) = (x =? y) || memz x l.
Proof. reflexivity. Qed.
Lemma memz_app x l1 l2 : memz x (l1 ++ l2) = memz x l1 || memz x l2.
Proof. unfold memz. apply existsb_app. Qed.
Lemma memz_filter x (P : Z -> bool) l : memz x (filter P l) = P x && memz x l.
Proof.
  induction l as [|y l IH]; cbn [filter].
  - cbn. now rewrite andb_false_r.
  - destruct (P y) eqn:Py; rewrite ?memz_cons, IH; destruct (Z.eqb_spec x y) as [->|N]; cbn.
    + now rewrite Py.
    + reflexivity.
    + rewrite Py. reflexivity.
    + reflexivity.
Qed.
Lemma memz_true_In x l : memz x l = true -> In x l.
Proof. apply memz_In. Qed.
Lemma In_memz_true x l : In x l -> memz x l = true.
Proof. apply memz_In. Qed.
Lemma notIn_memz_false x l : ~ In x l -> memz x l = false.
Proof. apply memz_false. Qed.

Lemma upd_ft_id s : upd_ft s (ft s) = s.
Proof. destruct s; reflexivity. Qed.
Lemma upd_ft_upd_ft s f f' : upd_ft (upd_ft s f) f' = upd_ft s f'.
Proof. reflexivity. Qed.
Lemma ft_upd_ft s f : ft (upd_ft s f) = f.
Proof. reflexivity. Qed.

Section DictV.
Context {V : Type}.
Lemma haskey_cons k k' (v : V) d : haskey k ((k', v) :: d) = (k =? k') || haskey k d.
Proof. unfold haskey. cbn. destruct (k =? k'); reflexivity. Qed.
Lemma haskey_nil k : haskey k (@nil (Z * V)) = false.
Proof. reflexivity. Qed.
Lemma haskey_app k (d e : dict V) : haskey k (d ++ e) = haskey k d || haskey k e.
Proof. induction d as [|[k' v] d IH]; [reflexivity|]. cbn [app]. rewrite !haskey_cons, IH. now rewrite orb_assoc. Qed.
Lemma haskey_set k k' (v : V) d : haskey k (set k' v d) = (k =? k') || haskey k d.
Proof.
  unfold haskey. destruct (Z.eqb_spec k k') as [->|N]; cbn [orb].
  - now rewrite lookup_set_eq.
  - now rewrite lookup_set_neq.
Qed.
Lemma haskey_lookup k (d : dict V) : haskey k d = true -> exists v, lookup k d = Some v.
Proof. unfold haskey. destruct (lookup k d) as [v|]; [eauto|discriminate]. Qed.
Lemma haskey_update k (d e : dict V) : haskey k (update d e) = haskey k d || haskey k e.
Proof.
  unfold update. revert d. induction e as [|[k' v] e IH]; intros d; cbn [fold_left fst snd].
  - now rewrite haskey_nil, orb_false_r.
  - rewrite IH, haskey_set, haskey_cons. destruct (k =? k'), (haskey k d), (haskey k e); reflexivity.
Qed.
(* a property of the entries survives d.update(e) *)
Lemma update_entries (P : Z -> V -> Prop) (d e : dict V) :
  (forall k v, lookup k d = Some v -> P k v) -> (forall k v, In (k, v) e -> P k v) ->
  forall k v, lookup k (update d e) = Some v -> P k v.
Proof.
  unfold update. revert d. induction e as [|[k' v'] e IH]; intros d Hd He; cbn [fold_left fst snd]; [exact Hd|].
  apply IH.
  - intros k v. destruct (Z.eqb_spec k k') as [->|N].
    + rewrite lookup_set_eq. intros [= <-]. apply He. now left.
    + rewrite lookup_set_neq by exact N. apply Hd.
  - intros k v H. apply He. now right.
Qed.
Lemma set_absent k (v : V) d : lookup k d = None -> set k v d = d ++ [(k, v)].
Proof.
  induction d as [|[k' v'] d IH]; cbn; [reflexivity|].
  destruct (k =? k'); [discriminate|]. intros H. now rewrite IH.
Qed.
Lemma del_app k (d e : dict V) : del k (d ++ e) = del k d ++ del k e.
Proof. induction d as [|[k' v'] d IH]; cbn; [reflexivity|]. destruct (k =? k'); cbn; now rewrite IH. Qed.
Lemma del_map k (F : Z -> V) l : del k (map (fun x => (x, F x)) l) = map (fun x => (x, F x)) (filter (fun x => negb (x =? k)) l).
Proof.
  induction l as [|y l IH]; cbn; [reflexivity|]. rewrite (Z.eqb_sym y k).
  destruct (k =? y); cbn; now rewrite IH.
Qed.
Lemma lookup_map k (F : Z -> V) l : lookup k (map (fun x => (x, F x)) l) = if memz k l then Some (F k) else None.
Proof.
  induction l as [|y l IH]; cbn [map lookup]; [reflexivity|]. rewrite memz_cons.
  destruct (Z.eqb_spec k y) as [->|N]; cbn [orb]; [reflexivity|exact IH].
Qed.
Lemma keys_map (F : Z -> V) l : keys (map (fun x => (x, F x)) l) = l.
Proof. unfold keys. rewrite map_map. cbn. apply map_id. Qed.
Lemma haskey_map k (F : Z -> V) l : haskey k (map (fun x => (x, F x)) l) = memz k l.
Proof. unfold haskey. rewrite lookup_map. destruct (memz k l); reflexivity. Qed.
End DictV.

Lemma filter_filter {A} (P Q : A -> bool) l : filter Q (filter P l) = filter (fun x => P x && Q x) l.
Proof.
  induction l as [|x l IH]; [reflexivity|]. cbn [filter]. destruct (P x); cbn [filter andb]; [destruct (Q x)|]; now rewrite IH.
Qed.
Lemma filter_true {A} (P : A -> bool) l : (forall x, In x l -> P x = true) -> filter P l = l.
Proof.
  induction l as [|x l IH]; intros H; [reflexivity|]. cbn [filter]. rewrite (H x (or_introl eq_refl)), IH; [reflexivity|].
  intros y Hy. apply H. now right.
Qed.

(* ================================================================== *)
(* 1. the two hypotheses                                               *)
(* ================================================================== *)
Definition rp_canon (st : state) : Prop :=
  rp_act (ft st) = filter (fun k => memz k (rp_act (ft st))) (rp_all (ft st)).
Definition reg_typed (st : state) : Prop :=
  forall k, In k (available st) ->
    if is_edge_key k then ~ In k (reg_node (ft st)) else ~ In k (reg_edge (ft st)).

(* record updates of one annotator's flags *)
Definition with_rp_act (f : feats) (l : list Z) : feats :=
  {| reg_node := reg_node f; reg_edge := reg_edge f; pos_keys := pos_keys f; rp_all := rp_all f; rp_act := l;
     iou_avail := iou_avail f; iou_act := iou_act f; trk_act := trk_act f; lin_act := lin_act f |}.
Definition with_iou_act (f : feats) (b : bool) : feats :=
  {| reg_node := reg_node f; reg_edge := reg_edge f; pos_keys := pos_keys f; rp_all := rp_all f; rp_act := rp_act f;
     iou_avail := iou_avail f; iou_act := b; trk_act := trk_act f; lin_act := lin_act f |}.
Definition with_trk_act (f : feats) (b : bool) : feats :=
  {| reg_node := reg_node f; reg_edge := reg_edge f; pos_keys := pos_keys f; rp_all := rp_all f; rp_act := rp_act f;
     iou_avail := iou_avail f; iou_act := iou_act f; trk_act := b; lin_act := lin_act f |}.
Definition with_lin_act (f : feats) (b : bool) : feats :=
  {| reg_node := reg_node f; reg_edge := reg_edge f; pos_keys := pos_keys f; rp_all := rp_all f; rp_act := rp_act f;
     iou_avail := iou_avail f; iou_act := iou_act f; trk_act := trk_act f; lin_act := b |}.

(* the part of the model's [set_flags] that belongs to one annotator *)
Definition ann_flags (f : feats) (a : ann) (ks : list Z) (on : bool) : feats :=
  let g := set_flags f ks on in
  match a with
  | ARp => with_rp_act f (rp_act g)
  | AEdge => with_iou_act f (iou_act g)
  | ATrk => with_lin_act (with_trk_act f (trk_act g)) (lin_act g)
  end.
Lemma ann_flags_all f ks on :
  ann_flags (ann_flags (ann_flags f ARp ks on) AEdge ks on) ATrk ks on = set_flags f ks on.
Proof. destruct f; reflexivity. Qed.

(* ================================================================== *)
(* 2. GraphAnnotator.activate_features / deactivate_features           *)
(* ================================================================== *)
(* sanity of the object representation of Model/PyRt4.v: reading a table and writing it back *)
Lemma lookup_tbl_rp f k :
  lookup k (tbl_of f ARp) = if memz k (rp_all f) then Some (feature_of_key k, memz k (rp_act f)) else None.
Proof. cbn [tbl_of]. apply (lookup_map k (fun k => (feature_of_key k, memz k (rp_act f)))). Qed.
Lemma keys_tbl_rp f : keys (tbl_of f ARp) = rp_all f.
Proof. cbn [tbl_of]. apply (keys_map (fun k => (feature_of_key k, memz k (rp_act f)))). Qed.
Lemma flag_of_tbl_rp f k : flag_of k (tbl_of f ARp) = memz k (rp_all f) && memz k (rp_act f).
Proof. unfold flag_of. rewrite lookup_tbl_rp. destruct (memz k (rp_all f)); reflexivity. Qed.

Lemma put_get_tbl st a : rp_canon st -> put_tbl (ft st) a (tbl_of (ft st) a) = ft st.
Proof.
  unfold rp_canon. intros C. destruct a.
  - cbn [put_tbl]. rewrite keys_tbl_rp.
    rewrite (filter_ext_in _ (fun k => memz k (rp_act (ft st)))).
    + rewrite <- C. destruct (ft st); reflexivity.
    + intros k Hk. rewrite flag_of_tbl_rp, (In_memz_true _ _ Hk). reflexivity.
  - destruct (ft st) as [? ? ? ? ? av ac ? ?]. cbn. destruct av; reflexivity.
  - destruct (ft st); reflexivity.
Qed.

(* one iteration of the loop, on the record *)
Definition ga_step (on : bool) (a : ann) (f : feats) (k : Z) : feats :=
  match lookup k (tbl_of f a) with
  | Some (fk, _) => put_tbl f a (set k (fk, on) (tbl_of f a))
  | None => f
  end.

Lemma ga_loop on a : forall ks s,
  py_for ks tt s (fun v_key (_ : unit) s =>
    if haskey v_key (ann_table s a)
    then do t1, s <- py_dict_get s v_key (ann_table s a);
         let '(v_feat, _) := t1 in
         let s := ann_put s a (set v_key (v_feat, on) (ann_table s a)) in
         Ok tt s
    else Ok tt s)
  = Ok tt (upd_ft s (fold_left (ga_step on a) ks (ft s))).
Proof.
  induction ks as [|k ks IH]; intros s; cbn [py_for fold_left].
  - now rewrite upd_ft_id.
  - unfold ga_step at 2. unfold haskey, py_dict_get, ann_table.
    destruct (lookup k (tbl_of (ft s) a)) as [[fk b]|] eqn:E; cbn [bind].
    + rewrite IH. unfold ann_put. now rewrite upd_ft_upd_ft, ft_upd_ft.
    + rewrite IH. reflexivity.
Qed.

Lemma gen_ga_activate_fold s a ks :
  gen_GraphAnnotator_activate_features s a ks = Ok tt (upd_ft s (fold_left (ga_step true a) ks (ft s))).
Proof. unfold gen_GraphAnnotator_activate_features. rewrite ga_loop. reflexivity. Qed.
Lemma gen_ga_deactivate_fold s a ks :
  gen_GraphAnnotator_deactivate_features s a ks = Ok tt (upd_ft s (fold_left (ga_step false a) ks (ft s))).
Proof. unfold gen_GraphAnnotator_deactivate_features. rewrite ga_loop. reflexivity. Qed.

(* -- regionprops -- *)
Lemma ga_step_rp on f k :
  ga_step on ARp f k =
  if memz k (rp_all f)
  then with_rp_act f (filter (fun k' => if k' =? k then on else memz k' (rp_act f)) (rp_all f))
  else f.
Proof.
  unfold ga_step. rewrite lookup_tbl_rp. destruct (memz k (rp_all f)) eqn:M; [|reflexivity].
  assert (Hk : In k (keys (tbl_of f ARp))) by (rewrite keys_tbl_rp; now apply memz_true_In).
  cbn [put_tbl]. rewrite (keys_set_in _ _ _ Hk), keys_tbl_rp. unfold with_rp_act. f_equal.
  apply filter_ext_in. intros k' Hk'. unfold flag_of.
  destruct (Z.eqb_spec k' k) as [->|N].
  - now rewrite lookup_set_eq.
  - rewrite lookup_set_neq by exact N. rewrite lookup_tbl_rp, (In_memz_true _ _ Hk'). reflexivity.
Qed.

Definition canon (f : feats) : Prop := rp_act f = filter (fun k => memz k (rp_act f)) (rp_all f).

Lemma canon_filter f (P : Z -> bool) : canon (with_rp_act f (filter P (rp_all f))).
Proof.
  unfold canon. cbn [rp_act rp_all with_rp_act]. symmetry.
  rewrite (filter_ext_in _ P); [reflexivity|].
  intros k Hk. rewrite memz_filter, (In_memz_true _ _ Hk). apply andb_true_r.
Qed.

Lemma ga_fold_rp on : forall ks f, canon f -> fold_left (ga_step on ARp) ks f = ann_flags f ARp ks on.
Proof.
  induction ks as [|k ks IH]; intros f C; cbn [fold_left].
  - unfold ann_flags, set_flags. cbn [rp_act rp_all memz existsb andb]. rewrite <- C. destruct f; reflexivity.
  - rewrite ga_step_rp. destruct (memz k (rp_all f)) eqn:M.
    + rewrite IH by apply canon_filter.
      unfold ann_flags, set_flags, with_rp_act. cbn [rp_act rp_all reg_node reg_edge pos_keys iou_avail iou_act trk_act lin_act].
      f_equal. apply filter_ext_in. intros k' Hk'.
      rewrite memz_filter, memz_cons, (In_memz_true _ _ Hk'), !andb_true_r.
      destruct (k' =? k); cbn [orb]; [now destruct (memz k' ks)|reflexivity].
    + rewrite IH by exact C. unfold ann_flags, set_flags, with_rp_act. f_equal. apply filter_ext_in. intros k' Hk'.
      rewrite memz_cons. destruct (Z.eqb_spec k' k) as [->|N]; cbn [orb]; [|reflexivity].
      apply In_memz_true in Hk'. congruence.
Qed.

(* -- edge annotator -- *)
Lemma ga_step_edge on f k :
  ga_step on AEdge f k = if iou_avail f && (k =? KIou) then with_iou_act f on else f.
Proof.
  unfold ga_step. destruct f as [rn re pk ra rc av ac ta la]. cbn [tbl_of iou_avail]. destruct av; cbn [andb]; [|reflexivity].
  cbn [lookup]. destruct (Z.eqb_spec k KIou) as [->|N]; reflexivity.
Qed.
Lemma ga_fold_edge on : forall ks f, fold_left (ga_step on AEdge) ks f = ann_flags f AEdge ks on.
Proof.
  induction ks as [|k ks IH]; intros f; cbn [fold_left].
  - destruct f; reflexivity.
  - rewrite IH, ga_step_edge. unfold ann_flags, set_flags. rewrite memz_cons, (Z.eqb_sym KIou k).
    destruct f as [rn re pk ra rc av ac ta la]. cbn [iou_avail iou_act with_iou_act reg_node reg_edge pos_keys rp_all rp_act trk_act lin_act].
    destruct av, (k =? KIou), (memz KIou ks); reflexivity.
Qed.

(* -- track annotator -- *)
Lemma ga_step_trk on f k :
  ga_step on ATrk f k = if k =? KTrack then with_trk_act f on else if k =? KLin then with_lin_act f on else f.
Proof.
  unfold ga_step. destruct f as [rn re pk ra rc av ac ta la]. cbn [tbl_of trk_act lin_act lookup].
  destruct (Z.eqb_spec k KTrack) as [->|N]; [reflexivity|].
  destruct (Z.eqb_spec k KLin) as [->|N']; reflexivity.
Qed.
Lemma ga_fold_trk on : forall ks f, fold_left (ga_step on ATrk) ks f = ann_flags f ATrk ks on.
Proof.
  induction ks as [|k ks IH]; intros f; cbn [fold_left].
  - destruct f; reflexivity.
  - rewrite IH, ga_step_trk. unfold ann_flags, set_flags. rewrite !memz_cons, (Z.eqb_sym KTrack k), (Z.eqb_sym KLin k).
    destruct f as [rn re pk ra rc av ac ta la].
    destruct (Z.eqb_spec k KTrack) as [->|N]; [destruct (memz KTrack ks), (memz KLin ks); reflexivity|].
    destruct (k =? KLin), (memz KTrack ks), (memz KLin ks); reflexivity.
Qed.

Lemma ga_fold on a ks f : (a = ARp -> canon f) -> fold_left (ga_step on a) ks f = ann_flags f a ks on.
Proof. destruct a; intros C; [apply ga_fold_rp; auto|apply ga_fold_edge|apply ga_fold_trk]. Qed.

(* TIE: GraphAnnotator.activate_features / deactivate_features flip exactly the flags [set_flags] flips for
   the keys this annotator owns *)
Theorem gen_GraphAnnotator_activate_features_eq : forall st a ks,
  (a = ARp -> rp_canon st) ->
  gen_GraphAnnotator_activate_features st a ks = Ok tt (upd_ft st (ann_flags (ft st) a ks true)).
Proof. intros. rewrite gen_ga_activate_fold, ga_fold; auto. Qed.
Theorem gen_GraphAnnotator_deactivate_features_eq : forall st a ks,
  (a = ARp -> rp_canon st) ->
  gen_GraphAnnotator_deactivate_features st a ks = Ok tt (upd_ft st (ann_flags (ft st) a ks false)).
Proof. intros. rewrite gen_ga_deactivate_fold, ga_fold; auto. Qed.

(* ================================================================== *)
(* 3. AnnotatorRegistry.all_features                                   *)
(* ================================================================== *)
Lemma haskey_tbl f a k :
  haskey k (tbl_of f a) =
  match a with
  | ARp => memz k (rp_all f)
  | AEdge => memz k (if iou_avail f then [KIou] else [])
  | ATrk => memz k [KTrack; KLin]
  end.
Proof.
  destruct a; cbn [tbl_of].
  - apply (haskey_map k (fun k => (feature_of_key k, memz k (rp_act f)))).
  - destruct (iou_avail f); [|reflexivity]. rewrite haskey_cons, haskey_nil. reflexivity.
  - rewrite !haskey_cons, haskey_nil. reflexivity.
Qed.

(* TIE: the keys of AnnotatorRegistry.all_features are the model's [available] (as a set; as a list
   under cfg_keys, see [gen_AnnotatorRegistry_all_features_keys] in section 9) *)
Theorem gen_AnnotatorRegistry_all_features_eq : forall st k,
  haskey k (gen_AnnotatorRegistry_all_features st) = memz k (available st).
Proof.
  intros st k. unfold gen_AnnotatorRegistry_all_features, registry, available, ann_table. cbn [fold_left].
  rewrite !haskey_update, !haskey_tbl, haskey_nil, !memz_app. cbn [orb]. now rewrite orb_assoc.
Qed.

(* the Feature stored under a key is the one the model derives from the key *)
Lemma tbl_entries f a k fk b : In (k, (fk, b)) (tbl_of f a) -> fk = feature_of_key k.
Proof.
  destruct a; cbn [tbl_of].
  - intros H. apply in_map_iff in H. destruct H as (x & [= <- <- _] & _). reflexivity.
  - destruct (iou_avail f); [|intros []]. intros [[= <- <- _]|[]]. reflexivity.
  - intros [[= <- <- _]|[[= <- <- _]|[]]]; reflexivity.
Qed.
Lemma all_features_feature st k fk b :
  lookup k (gen_AnnotatorRegistry_all_features st) = Some (fk, b) -> fk = feature_of_key k.
Proof.
  unfold gen_AnnotatorRegistry_all_features, registry, ann_table. cbn [fold_left].
  revert k fk b.
  assert (G : forall k v, lookup k
     (update (update (update (@nil (Z * (ftype * bool))) (tbl_of (ft st) ARp)) (tbl_of (ft st) AEdge)) (tbl_of (ft st) ATrk)) = Some v ->
     fst v = feature_of_key k).
  { apply update_entries; [apply update_entries; [apply update_entries; [discriminate|]|]|];
      intros k [fk b] H; cbn [fst]; eapply tbl_entries; exact H. }
  intros k fk b H. apply (G k (fk, b) H).
Qed.

(* the registry is not changed by anything that leaves rp_all / iou_avail alone *)
Lemma all_features_static s s' :
  rp_all (ft s') = rp_all (ft s) -> iou_avail (ft s') = iou_avail (ft s) ->
  forall k, haskey k (gen_AnnotatorRegistry_all_features s') = haskey k (gen_AnnotatorRegistry_all_features s).
Proof. intros A B k. rewrite !gen_AnnotatorRegistry_all_features_eq. unfold available. now rewrite A, B. Qed.

(* ================================================================== *)
(* 4. AnnotatorRegistry.activate_features / deactivate_features        *)
(* ================================================================== *)
Lemma not_found_spec (P : Z -> bool) ks :
  negb (py_is_nil (filter (fun k => negb (P k)) ks)) = negb (forallb P ks).
Proof.
  induction ks as [|k ks IH]; [reflexivity|]. cbn [filter forallb]. destruct (P k); cbn [negb andb]; [exact IH|reflexivity].
Qed.

Lemma forallb_ext' {A} (P Q : A -> bool) l : (forall x, P x = Q x) -> forallb P l = forallb Q l.
Proof. intros H. induction l as [|x l IH]; [reflexivity|]. cbn. now rewrite H, IH. Qed.

Lemma validation_spec st ks :
  negb (py_is_nil (filter (fun k => negb (haskey k (gen_AnnotatorRegistry_all_features st))) ks)) =
  negb (forallb (fun k => memz k (available st)) ks).
Proof.
  rewrite not_found_spec. f_equal. apply forallb_ext'. intros k. apply gen_AnnotatorRegistry_all_features_eq.
Qed.

(* TIE: validate every key first (KeyError, nothing changed), then set_flags *)
Theorem gen_AnnotatorRegistry_activate_features_eq : forall st ks,
  rp_canon st ->
  gen_AnnotatorRegistry_activate_features st ks =
  if negb (forallb (fun k => memz k (available st)) ks) then Err EKey st
  else Ok tt (upd_ft st (set_flags (ft st) ks true)).
Proof.
  intros st ks C. unfold gen_AnnotatorRegistry_activate_features. cbv zeta. rewrite validation_spec.
  destruct (negb (forallb _ ks)); [reflexivity|].
  unfold registry. cbn [py_for].
  rewrite gen_GraphAnnotator_activate_features_eq by (intros _; exact C). cbn [bind].
  rewrite gen_GraphAnnotator_activate_features_eq by discriminate. cbn [bind].
  rewrite gen_GraphAnnotator_activate_features_eq by discriminate. cbn [bind].
  rewrite !upd_ft_upd_ft, !ft_upd_ft, ann_flags_all. reflexivity.
Qed.
Theorem gen_AnnotatorRegistry_deactivate_features_eq : forall st ks,
  rp_canon st ->
  gen_AnnotatorRegistry_deactivate_features st ks =
  if negb (forallb (fun k => memz k (available st)) ks) then Err EKey st
  else Ok tt (upd_ft st (set_flags (ft st) ks false)).
Proof.
  intros st ks C. unfold gen_AnnotatorRegistry_deactivate_features. cbv zeta. rewrite validation_spec.
  destruct (negb (forallb _ ks)); [reflexivity|].
  unfold registry. cbn [py_for].
  rewrite gen_GraphAnnotator_deactivate_features_eq by (intros _; exact C). cbn [bind].
  rewrite gen_GraphAnnotator_deactivate_features_eq by discriminate. cbn [bind].
  rewrite gen_GraphAnnotator_deactivate_features_eq by discriminate. cbn [bind].
  rewrite !upd_ft_upd_ft, !ft_upd_ft, ann_flags_all. reflexivity.
Qed.

(* ================================================================== *)
(* 5. Tracks.enable_features / disable_features                        *)
(* ================================================================== *)
Definition with_reg (f : feats) (n e : list Z) : feats :=
  {| reg_node := n; reg_edge := e; pos_keys := pos_keys f; rp_all := rp_all f; rp_act := rp_act f;
     iou_avail := iou_avail f; iou_act := iou_act f; trk_act := trk_act f; lin_act := lin_act f |}.

Lemma part_node_N n : map fst (filter is_node_ft (map (fun k => (k, FtNode)) n)) = n.
Proof. induction n as [|x n IH]; [reflexivity|]. cbn. now rewrite IH. Qed.
Lemma part_node_E e : map fst (filter is_node_ft (map (fun k => (k, FtEdge)) e)) = [].
Proof. induction e as [|x e IH]; [reflexivity|]. cbn. exact IH. Qed.
Lemma part_edge_N n : map fst (filter is_edge_ft (map (fun k => (k, FtNode)) n)) = [].
Proof. induction n as [|x n IH]; [reflexivity|]. cbn. exact IH. Qed.
Lemma part_edge_E e : map fst (filter is_edge_ft (map (fun k => (k, FtEdge)) e)) = e.
Proof. induction e as [|x e IH]; [reflexivity|]. cbn. now rewrite IH. Qed.

(* sanity of the representation of tracks.features: reading it and writing it back *)
Lemma put_get_features s : put_features s (features_of s) = s.
Proof.
  unfold put_features, features_of. rewrite !filter_app, !map_app, part_node_N, part_node_E, part_edge_N, part_edge_E, app_nil_r.
  cbn [app]. destruct s as [g0 sg f b u r l c]. destruct f; reflexivity.
Qed.
Lemma haskey_features s k : haskey k (features_of s) = memz k (reg_node (ft s)) || memz k (reg_edge (ft s)).
Proof.
  unfold features_of. rewrite haskey_app.
  now rewrite (haskey_map k (fun _ => FtNode)), (haskey_map k (fun _ => FtEdge)).
Qed.
Lemma put_features_snoc s k fk :
  put_features s (features_of s ++ [(k, fk)]) =
  upd_ft s (with_reg (ft s) (match fk with FtNode => reg_node (ft s) ++ [k] | FtEdge => reg_node (ft s) end)
                            (match fk with FtNode => reg_edge (ft s) | FtEdge => reg_edge (ft s) ++ [k] end)).
Proof.
  unfold put_features, features_of. rewrite !filter_app, !map_app, part_node_N, part_node_E, part_edge_N, part_edge_E.
  destruct fk; cbn [filter is_node_ft is_edge_ft snd map fst app]; rewrite ?app_nil_r; reflexivity.
Qed.
Lemma put_features_del s k :
  put_features s (del k (features_of s)) = upd_ft s (unregister (ft s) [k]).
Proof.
  unfold put_features, features_of.
  rewrite del_app, (del_map k (fun _ => FtNode)), (del_map k (fun _ => FtEdge)).
  rewrite !filter_app, !map_app, part_node_N, part_node_E, part_edge_N, part_edge_E, app_nil_r. cbn [app].
  unfold unregister. f_equal. f_equal; apply filter_ext; intros x; cbn; now rewrite orb_false_r.
Qed.
Lemma del_absent {V} k (d : dict V) : haskey k d = false -> del k d = d.
Proof.
  induction d as [|[k' v] d IH]; [reflexivity|]. rewrite haskey_cons. cbn [del].
  destruct (k =? k'); [discriminate|]. cbn [orb]. intros H. now rewrite IH.
Qed.

Lemma register_cons f k ks : register f (k :: ks) = register (register f [k]) ks.
Proof. reflexivity. Qed.
Lemma unregister_cons f k ks : unregister f (k :: ks) = unregister (unregister f [k]) ks.
Proof.
  unfold unregister. cbn [reg_node reg_edge pos_keys rp_all rp_act iou_avail iou_act trk_act lin_act].
  rewrite !filter_filter. f_equal; apply filter_ext; intros x; cbn; rewrite orb_false_r; now destruct (x =? k).
Qed.
Lemma unregister_nil f : unregister f [] = f.
Proof. unfold unregister. cbn. rewrite !filter_true by reflexivity. destruct f; reflexivity. Qed.
Lemma register_nil f : register f [] = f.
Proof. destruct f; reflexivity. Qed.

(* -- the registration loop of enable_features -- *)
Definition typed_key (f : feats) (k : Z) : Prop :=
  if is_edge_key k then ~ In k (reg_node f) else ~ In k (reg_edge f).

Lemma register_one s k :
  In k (available s) -> typed_key (ft s) k ->
  (if negb (haskey k (features_of s))
   then do t1, s <- py_dict_get s k (gen_AnnotatorRegistry_all_features s);
        let '(v_feature, _) := t1 in
        let s := put_features s (set k v_feature (features_of s)) in
        Ok tt s
   else Ok tt s) = Ok tt (upd_ft s (register (ft s) [k])).
Proof.
  intros Hav Hty.
  assert (Hl : exists b, lookup k (gen_AnnotatorRegistry_all_features s) = Some (feature_of_key k, b)).
  { apply In_memz_true in Hav. rewrite <- gen_AnnotatorRegistry_all_features_eq in Hav.
    apply haskey_lookup in Hav. destruct Hav as [[fk b] E]. exists b. now rewrite (all_features_feature _ _ _ _ E) in E. }
  destruct Hl as [b Hl]. unfold py_dict_get. rewrite Hl. cbn [bind].
  rewrite haskey_features. unfold typed_key in Hty. unfold feature_of_key, register, reg_add. cbn [fold_left].
  destruct (is_edge_key k) eqn:Ek.
  - apply notIn_memz_false in Hty. rewrite Hty. cbn [orb].
    destruct (memz k (reg_edge (ft s))) eqn:Me; cbn [negb].
    + rewrite <- (upd_ft_id s) at 1. f_equal. destruct (ft s); reflexivity.
    + rewrite set_absent by (pose proof (haskey_features s k) as H; rewrite Hty, Me in H; unfold haskey in H;
                             destruct (lookup k (features_of s)); [discriminate|reflexivity]).
      rewrite put_features_snoc. reflexivity.
  - apply notIn_memz_false in Hty. rewrite Hty, orb_false_r.
    destruct (memz k (reg_node (ft s))) eqn:Mn; cbn [negb].
    + rewrite <- (upd_ft_id s) at 1. f_equal. destruct (ft s); reflexivity.
    + rewrite set_absent by (pose proof (haskey_features s k) as H; rewrite Hty, Mn in H; unfold haskey in H;
                             destruct (lookup k (features_of s)); [discriminate|reflexivity]).
      rewrite put_features_snoc. reflexivity.
Qed.

Lemma typed_key_register f k k' : typed_key f k -> typed_key f k' -> typed_key (register f [k']) k.
Proof.
  unfold typed_key, register, reg_add. cbn [fold_left reg_node reg_edge].
  destruct (is_edge_key k) eqn:Ek, (is_edge_key k') eqn:Ek'; intros H H'; try exact H.
  - destruct (memz k' (reg_node f)); [exact H|]. rewrite in_app_iff. intros [A|[<-|[]]]; [auto|congruence].
  - destruct (memz k' (reg_edge f)); [exact H|]. rewrite in_app_iff. intros [A|[<-|[]]]; [auto|congruence].
Qed.

Lemma register_loop : forall ks s,
  (forall k, In k ks -> In k (available s)) -> (forall k, In k ks -> typed_key (ft s) k) ->
  py_for ks tt s (fun v_key (_ : unit) s =>
    if negb (haskey v_key (features_of s))
    then do t1, s <- py_dict_get s v_key (gen_AnnotatorRegistry_all_features s);
         let '(v_feature, _) := t1 in
         let s := put_features s (set v_key v_feature (features_of s)) in
         Ok tt s
    else Ok tt s)
  = Ok tt (upd_ft s (register (ft s) ks)).
Proof.
  induction ks as [|k ks IH]; intros s Hav Hty; cbn [py_for].
  - now rewrite register_nil, upd_ft_id.
  - rewrite register_one by (try apply Hav; try apply Hty; now left). cbn [bind].
    rewrite IH.
    + rewrite upd_ft_upd_ft, ft_upd_ft, register_cons. reflexivity.
    + intros k' Hk'. specialize (Hav k' (or_intror Hk')). unfold available in *. exact Hav.
    + intros k' Hk'. rewrite ft_upd_ft. apply typed_key_register; [apply Hty; now right|apply Hty; now left].
Qed.

(* -- the un-registration loop of disable_features -- *)
Lemma unregister_loop : forall ks s,
  py_for ks tt s (fun v_key (_ : unit) s =>
    if haskey v_key (features_of s)
    then do d1, s <- py_dict_del s v_key (features_of s);
         let s := put_features s d1 in
         Ok tt s
    else Ok tt s)
  = Ok tt (upd_ft s (unregister (ft s) ks)).
Proof.
  induction ks as [|k ks IH]; intros s; cbn [py_for].
  - now rewrite unregister_nil, upd_ft_id.
  - unfold py_dict_del at 1. destruct (haskey k (features_of s)) eqn:H; cbn [bind].
    + rewrite put_features_del, IH, upd_ft_upd_ft, ft_upd_ft, (unregister_cons (ft s) k ks). reflexivity.
    + assert (E : unregister (ft s) [k] = ft s).
      { pose proof (put_features_del s k) as P. rewrite (del_absent _ _ H), put_get_features in P.
        apply (f_equal ft) in P. exact (eq_sym P). }
      rewrite IH, (unregister_cons (ft s) k ks), E. reflexivity.
Qed.

(* -- the bulk computation: the three annotators in registry order -- *)
Theorem gen_AnnotatorRegistry_compute_eq : forall st ks ctrk clin,
  gen_AnnotatorRegistry_compute st (Some ks) ctrk clin =
  Ok tt (trk_compute (iou_compute (rp_compute st ks) ks) ks ctrk clin).
Proof. reflexivity. Qed.

(* TIE: Tracks.enable_features *)
Theorem gen_Tracks_enable_features_eq : forall st ks rc ctrk clin,
  rp_canon st -> reg_typed st ->
  gen_Tracks_enable_features st ks rc ctrk clin = enable_features st ks rc ctrk clin.
Proof.
  intros st ks rc ctrk clin C T. unfold gen_Tracks_enable_features, enable_features.
  rewrite gen_AnnotatorRegistry_activate_features_eq by exact C.
  destruct (forallb (fun k => memz k (available st)) ks) eqn:V; cbn [negb bind]; [|reflexivity].
  rewrite register_loop.
  - cbn [bind]. rewrite upd_ft_upd_ft, ft_upd_ft. destruct rc; [|reflexivity].
    rewrite gen_AnnotatorRegistry_compute_eq. reflexivity.
  - intros k Hk. rewrite forallb_forall in V. apply memz_true_In. exact (V k Hk).
  - intros k Hk. rewrite forallb_forall in V. apply (T k). apply memz_true_In. exact (V k Hk).
Qed.

(* TIE: Tracks.disable_features *)
Theorem gen_Tracks_disable_features_eq : forall st ks,
  rp_canon st ->
  gen_Tracks_disable_features st ks = disable_features st ks.
Proof.
  intros st ks C. unfold gen_Tracks_disable_features, disable_features.
  rewrite gen_AnnotatorRegistry_deactivate_features_eq by exact C.
  destruct (forallb (fun k => memz k (available st)) ks) eqn:V; cbn [negb bind]; [|reflexivity].
  rewrite unregister_loop. cbn [bind]. rewrite upd_ft_upd_ft, ft_upd_ft. reflexivity.
Qed.

(* ================================================================== *)
(* 6. UpdateNodeAttrs.__init__: the protected keys                     *)
(* ================================================================== *)
Lemma memz_py_set x l : memz x (py_set l) = memz x l.
Proof.
  unfold py_set. destruct (memz x l) eqn:M.
  - apply In_memz_true. apply nodup_In. now apply memz_true_In.
  - apply notIn_memz_false. rewrite nodup_In. now apply memz_false.
Qed.
Lemma memz_py_set_add x y l : memz x (py_set_add y l) = (x =? y) || memz x l.
Proof.
  unfold py_set_add. destruct (memz y l) eqn:M.
  - destruct (Z.eqb_spec x y) as [->|N]; [now rewrite M|reflexivity].
  - rewrite memz_app, memz_cons. cbn. rewrite orb_false_r. apply orb_comm.
Qed.
Lemma memz_keys {V} k (d : dict V) : memz k (keys d) = haskey k d.
Proof.
  destruct (haskey k d) eqn:H.
  - apply In_memz_true. now apply haskey_keys.
  - apply notIn_memz_false. intros A. apply haskey_keys in A. congruence.
Qed.

(* the set built by __init__ = the model's protected_keys: every annotator feature key, and the time key *)
Lemma protected_set_spec st k :
  memz k (py_set_add KTime (py_set (keys (gen_AnnotatorRegistry_all_features st)))) = memz k (protected_keys st).
Proof.
  rewrite memz_py_set_add, memz_py_set, memz_keys, gen_AnnotatorRegistry_all_features_eq.
  unfold protected_keys, available. rewrite !memz_app, !memz_cons. cbn [memz existsb].
  destruct (memz k (rp_all (ft st))), (memz k (if iou_avail (ft st) then [KIou] else [])), (k =? KTrack), (k =? KLin), (k =? KTime); reflexivity.
Qed.

Lemma protected_loop st (P : list Z) : forall (new : attrs),
  py_for (keys new) tt st (fun v_attr (_ : unit) s => if memz v_attr P then Err EValue s else Ok tt s) =
  if existsb (fun kv => memz (fst kv) P) new then Err EValue st else Ok tt st.
Proof.
  induction new as [|[k v] new IH]; cbn [keys map py_for existsb fst]; [reflexivity|].
  destruct (memz k P); cbn [bind orb]; [reflexivity|]. exact IH.
Qed.

Lemma existsb_ext' {A} (P Q : A -> bool) l : (forall x, P x = Q x) -> existsb P l = existsb Q l.
Proof. intros H. induction l as [|x l IH]; [reflexivity|]. cbn. now rewrite H, IH. Qed.

(* TIE: the refusal test of UpdateNodeAttrs.__init__ is the one of [do_upd_attrs] *)
Theorem gen_UpdateNodeAttrs_init_check_eq : forall st n new,
  gen_UpdateNodeAttrs_init_check st n new =
  if existsb (fun kv => memz (fst kv) (protected_keys st)) new then Err EValue st else Ok tt st.
Proof.
  intros st n new. unfold gen_UpdateNodeAttrs_init_check. cbv zeta. rewrite protected_loop.
  rewrite (existsb_ext' _ (fun kv => memz (fst kv) (protected_keys st))).
  - destruct (existsb _ new); reflexivity.
  - intros kv. apply protected_set_spec.
Qed.

(* the rest of __init__ (self.node = node; self.prev_attrs = {..}; self.new_attrs = attrs; self._apply()),
   as the hand model has it after its refusal test *)
Definition upd_attrs_body st n (new : attrs) : res basic :=
  match lookup n (nodes (g st)) with
  | None => match new with [] => Ok (BUpdAttrs n [] []) st | _ => Err EKey st end
  | Some d =>
    let prev := map (fun kv => (fst kv, match lookup (fst kv) d with Some v => v | None => VNone end)) new in
    Ok (BUpdAttrs n prev new) (fold_left (fun s kv => apply_attr s n kv) new st)
  end.
Theorem do_upd_attrs_is_generated_check : forall st n new,
  do_upd_attrs st n new = do _u, st <- gen_UpdateNodeAttrs_init_check st n new; upd_attrs_body st n new.
Proof.
  intros. rewrite gen_UpdateNodeAttrs_init_check_eq. unfold do_upd_attrs, upd_attrs_body.
  destruct (existsb _ new); reflexivity.
Qed.

(* ================================================================== *)
(* 7. GraphAnnotator.features / _filter_feature_keys                   *)
(* ================================================================== *)
(* "k is an active feature of annotator a", on the record *)
Definition active_b (f : feats) (a : ann) (k : Z) : bool :=
  match a with
  | ARp => memz k (rp_all f) && memz k (rp_act f)
  | AEdge => iou_avail f && (k =? KIou) && iou_act f
  | ATrk => (k =? KTrack) && trk_act f || (k =? KLin) && lin_act f
  end.

Lemma features_fold k (t : table) : forall acc : dict ftype,
  haskey k (fold_left (fun (acc : dict ftype) '((v_k, (v_feat, v_included)) : Z * (ftype * bool)) =>
                         if v_included then set v_k v_feat acc else acc) t acc)
  = haskey k acc || existsb (fun e => (k =? fst e) && snd (snd e)) t.
Proof.
  induction t as [|[k' [fk b]] t IH]; intros acc; cbn [fold_left existsb fst snd].
  - now rewrite orb_false_r.
  - rewrite IH. destruct b; [rewrite haskey_set|]; destruct (k =? k'), (haskey k acc); reflexivity.
Qed.
Lemma existsb_rp k (act all : list Z) :
  existsb (fun e : Z * (ftype * bool) => (k =? fst e) && snd (snd e)) (map (fun x => (x, (feature_of_key x, memz x act))) all)
  = memz k all && memz k act.
Proof.
  induction all as [|x all IH]; [reflexivity|]. cbn [map existsb fst snd]. rewrite IH, memz_cons.
  destruct (Z.eqb_spec k x) as [->|N]; cbn [andb orb]; [now destruct (memz x act), (memz x all)|reflexivity].
Qed.

(* TIE: the keys of <annotator>.features are the keys whose flag is on *)
Theorem gen_GraphAnnotator_features_eq : forall st a k,
  haskey k (gen_GraphAnnotator_features st a) = active_b (ft st) a k.
Proof.
  intros st a k. unfold gen_GraphAnnotator_features, ann_table. rewrite features_fold, haskey_nil. cbn [orb].
  destruct a; cbn [tbl_of active_b].
  - apply existsb_rp.
  - destruct (iou_avail (ft st)); [|reflexivity]. cbn. now rewrite orb_false_r.
  - cbn. now rewrite orb_false_r.
Qed.

(* TIE: _filter_feature_keys(feature_keys) keeps, in the caller's order, the keys that are active *)
Theorem gen_GraphAnnotator_filter_feature_keys_eq : forall st a ks,
  gen_GraphAnnotator_filter_feature_keys st a (Some ks) = filter (active_b (ft st) a) ks.
Proof. intros. cbn. apply filter_ext. intros k. apply gen_GraphAnnotator_features_eq. Qed.
Theorem gen_GraphAnnotator_filter_feature_keys_none : forall st a k,
  In k (gen_GraphAnnotator_filter_feature_keys st a None) <-> active_b (ft st) a k = true.
Proof. intros. cbn. rewrite <- gen_GraphAnnotator_features_eq. symmetry. apply haskey_keys. Qed.

(* against what the model's bulk computations select from [ks]:
   rp_compute:   filter (fun k => memz k ks) (rp_act (ft st))     -- the same keys; in rp_act order, where the
                                                                      Python keeps the caller's order (see the report)
   iou_compute:  memz KIou ks && iou_act (ft st)
   trk_compute:  memz KTrack ks && trk_act (ft st),  memz KLin ks && lin_act (ft st)  *)
Theorem filter_feature_keys_rp : forall st ks,
  (forall k, In k (rp_act (ft st)) -> In k (rp_all (ft st))) ->
  forall k, In k (gen_GraphAnnotator_filter_feature_keys st ARp (Some ks)) <->
            In k (filter (fun k => memz k ks) (rp_act (ft st))).
Proof.
  intros st ks Hact k. rewrite gen_GraphAnnotator_filter_feature_keys_eq, !filter_In. cbn [active_b].
  rewrite andb_true_iff, !memz_In. specialize (Hact k). tauto.
Qed.
Corollary filter_feature_keys_rp_nil : forall st ks,
  (forall k, In k (rp_act (ft st)) -> In k (rp_all (ft st))) ->
  (gen_GraphAnnotator_filter_feature_keys st ARp (Some ks) = [] <-> filter (fun k => memz k ks) (rp_act (ft st)) = []).
Proof.
  intros st ks H. pose proof (filter_feature_keys_rp st ks H) as E.
  split; intros Z0.
  - destruct (filter _ (rp_act (ft st))) as [|x l]; [reflexivity|]. specialize (E x). rewrite Z0 in E. destruct (proj2 E (or_introl eq_refl)).
  - destruct (gen_GraphAnnotator_filter_feature_keys st ARp (Some ks)) as [|x l]; [reflexivity|]. specialize (E x). rewrite Z0 in E.
    destruct (proj1 E (or_introl eq_refl)).
Qed.
Theorem filter_feature_keys_iou : forall st ks,
  (iou_act (ft st) = true -> iou_avail (ft st) = true) ->
  memz KIou (gen_GraphAnnotator_filter_feature_keys st AEdge (Some ks)) = memz KIou ks && iou_act (ft st).
Proof.
  intros st ks H. rewrite gen_GraphAnnotator_filter_feature_keys_eq, memz_filter. cbn [active_b].
  destruct (iou_act (ft st)); [rewrite H by reflexivity|]; cbn; [now rewrite andb_true_r|now rewrite !andb_false_r].
Qed.
Theorem filter_feature_keys_trk : forall st ks,
  memz KTrack (gen_GraphAnnotator_filter_feature_keys st ATrk (Some ks)) = memz KTrack ks && trk_act (ft st) /\
  memz KLin (gen_GraphAnnotator_filter_feature_keys st ATrk (Some ks)) = memz KLin ks && lin_act (ft st).
Proof.
  intros st ks. rewrite gen_GraphAnnotator_filter_feature_keys_eq, !memz_filter. cbn [active_b]. cbn.
  split; [rewrite orb_false_r|]; apply andb_comm.
Qed.

(* the one place where the list the Python computes and the list the model uses differ: the order *)
Example filter_feature_keys_order :
  let f := {| reg_node := []; reg_edge := []; pos_keys := [KPos]; rp_all := [KPos; KArea]; rp_act := [KPos; KArea];
              iou_avail := true; iou_act := false; trk_act := false; lin_act := false |} in
  let st := {| g := {| nodes := []; succs := [] |}; seg := None; ft := f; bk := {| trk_book := []; lin_book := []; max_trk := 0; max_lin := 0 |};
               undo_stack := []; redo_stack := []; rlog := []; nctr := 0 |} in
  gen_GraphAnnotator_filter_feature_keys st ARp (Some [KArea; KPos]) = [KArea; KPos] /\
  filter (fun k => memz k [KArea; KPos]) (rp_act (ft st)) = [KPos; KArea].
Proof. split; reflexivity. Qed.

(* ================================================================== *)
(* 8. AnnotatorRegistry.features                                       *)
(* ================================================================== *)
(* TIE: the keys of AnnotatorRegistry.features are the keys some annotator has switched on *)
Theorem gen_AnnotatorRegistry_features_eq : forall st k,
  haskey k (gen_AnnotatorRegistry_features st) =
  active_b (ft st) ARp k || active_b (ft st) AEdge k || active_b (ft st) ATrk k.
Proof.
  intros st k. unfold gen_AnnotatorRegistry_features, registry. cbn [fold_left].
  rewrite !haskey_update, !gen_GraphAnnotator_features_eq, haskey_nil. reflexivity.
Qed.

(* ================================================================== *)
(* 9. the hypotheses cannot be dropped: the differing inputs           *)
(* ================================================================== *)
Definition st_of (f : feats) : state :=
  {| g := {| nodes := []; succs := [] |}; seg := None; ft := f;
     bk := {| trk_book := []; lin_book := []; max_trk := 0; max_lin := 0 |};
     undo_stack := []; redo_stack := []; rlog := []; nctr := 0 |}.

(* rp_canon: a record that lists the active regionprops keys in another order than rp_all.  It represents
   the same Python state as the canonical one; the model rewrites it on success, the Python has nothing to rewrite *)
Example rp_canon_needed :
  let st := st_of {| reg_node := [KPos; KArea]; reg_edge := []; pos_keys := [KPos]; rp_all := [KPos; KArea]; rp_act := [KArea; KPos];
                     iou_avail := false; iou_act := false; trk_act := false; lin_act := false |} in
  ~ rp_canon st /\
  gen_Tracks_enable_features st [] false [] [] = Ok tt st /\
  enable_features st [] false [] [] <> Ok tt st.
Proof. cbv zeta. split; [|split]; [discriminate|reflexivity|discriminate]. Qed.

(* reg_typed: an edge feature registered by hand under the key "track_id".  Python: "track_id" is in
   tracks.features already, nothing is registered; model: KTrack is appended to the node features *)
Example reg_typed_needed :
  let st := st_of {| reg_node := []; reg_edge := [KTrack]; pos_keys := [KPos]; rp_all := []; rp_act := [];
                     iou_avail := false; iou_act := false; trk_act := false; lin_act := false |} in
  rp_canon st /\ ~ reg_typed st /\
  (exists st', gen_Tracks_enable_features st [KTrack] false [] [] = Ok tt st' /\ reg_node (ft st') = []) /\
  (exists st', enable_features st [KTrack] false [] [] = Ok tt st' /\ reg_node (ft st') = [KTrack]).
Proof.
  cbv zeta. split; [reflexivity|]. split.
  - intros T. apply (T KTrack); cbn; auto.
  - split; eexists; split; reflexivity.
Qed.

Print Assumptions gen_GraphAnnotator_activate_features_eq.
Print Assumptions gen_GraphAnnotator_deactivate_features_eq.
Print Assumptions gen_GraphAnnotator_features_eq.
Print Assumptions gen_GraphAnnotator_filter_feature_keys_eq.
Print Assumptions gen_GraphAnnotator_filter_feature_keys_none.
Print Assumptions filter_feature_keys_rp.
Print Assumptions filter_feature_keys_rp_nil.
Print Assumptions filter_feature_keys_iou.
Print Assumptions filter_feature_keys_trk.
Print Assumptions gen_AnnotatorRegistry_all_features_eq.
Print Assumptions gen_AnnotatorRegistry_features_eq.
Print Assumptions gen_AnnotatorRegistry_compute_eq.
Print Assumptions gen_AnnotatorRegistry_activate_features_eq.
Print Assumptions gen_AnnotatorRegistry_deactivate_features_eq.
Print Assumptions gen_Tracks_enable_features_eq.
Print Assumptions gen_Tracks_disable_features_eq.
Print Assumptions gen_UpdateNodeAttrs_init_check_eq.
Print Assumptions do_upd_attrs_is_generated_check.
Print Assumptions put_get_tbl.
Print Assumptions put_get_features.
Print Assumptions rp_canon_needed.
Print Assumptions reg_typed_needed.
