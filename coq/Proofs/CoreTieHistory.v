(* PyRt3.hist_undo / hist_redo (what translate_core.py maps `tracks.action_history.undo()` / `.redo()` to) and the code
   generated from actions/action_history.py (Gen/History_gen.v).  No core generated file is imported here. *)
From Coq Require Import ZArith List Bool Lia Arith.
From FT Require Import Base.Dict Model.Edit Model.PyRt Model.PyRt3.
From FT Require Import Proofs.EditInv.
From FT Require Proofs.EditFrame Gen.History_gen.
Import ListNotations.
Open Scope Z_scope.

(* [hist_undo] / [hist_redo] (Model/PyRt3.v) and the code generated from actions/action_history.py: whenever
   `action.inverse()` does not raise, the same answer and the same stacks, the new state under the
   cursor.  ([inv_total] as in Proofs/HistoryGen.v; there the same statement is made for the model's
   [undo] / [redo].) *)
Module G := FT.Gen.History_gen.
Definition inv_total (s : state) (a : action) : state * action :=
  match inv_action s a with Ok b s' => (s', b) | Err _ s' => (s', a) end.
Definition to_hist (st : state) : G.hist state action :=
  {| G.cur := st; G.undo_stack := undo_stack st; G.redo_stack := redo_stack st |}.

Theorem hist_undo_generated : forall st dA,
  let gr := G.undo state action inv_total dA (to_hist st) in
  match hist_undo st with
  | Ok b s' => snd gr = b /\ undo_stack s' = G.undo_stack _ _ (fst gr) /\ redo_stack s' = G.redo_stack _ _ (fst gr) /\
               (b = true -> upd_hist (G.cur _ _ (fst gr)) (undo_stack s') (redo_stack s') = s')
  | Err _ _ => True
  end.
Proof.
  intros st dA. unfold hist_undo, G.undo, G.undo_pointer, to_hist. cbn [G.undo_stack G.redo_stack G.cur].
  set (lu := length (undo_stack st)). set (lr := length (redo_stack st)).
  destruct (Nat.leb_spec lu lr) as [Hle|Hgt].
  - destruct (Z.ltb_spec (Z.of_nat lu - Z.of_nat lr - 1) 0) as [_|H]; [|lia]. cbn. repeat split; auto. discriminate.
  - destruct (Z.ltb_spec (Z.of_nat lu - Z.of_nat lr - 1) 0) as [H|_]; [lia|].
    replace (Z.to_nat (Z.of_nat lu - Z.of_nat lr - 1)) with (lu - lr - 1)%nat by lia.
    destruct (nth_error (undo_stack st) (lu - lr - 1)) as [a|] eqn:En.
    + rewrite (nth_error_nth _ _ dA En). unfold inv_total.
      destruct (inv_action st a) as [b s1|e s1] eqn:Ei; cbn [bind]; [|exact I].
      pose proof (EditFrame.aux_inv_action st a) as F. rewrite Ei in F. cbn [rstate] in F. destruct F as (F1 & F2 & _).
      cbn. rewrite F1, F2. repeat split; auto.
    + apply nth_error_None in En. fold lu in En. lia.
Qed.

Lemma rev_cons_last {A} (l : list A) b r' (d : A) : rev l = b :: r' -> last l d = b /\ removelast l = rev r'.
Proof.
  intros H. assert (E : l = rev r' ++ [b]) by (rewrite <- (rev_involutive l), H; reflexivity).
  subst l. split; [apply last_last|apply removelast_last].
Qed.

(* redo pops before it inverts: the generated code runs `inverse` on the state it holds ([cur]); the model
   on that state with the popped stack -- [inv_action] never looks at the stacks, so the theorem is stated
   for the popped state *)
Theorem hist_redo_generated : forall st dA,
  let gr := G.redo state action inv_total dA (to_hist st) in
  match rev (redo_stack st) with
  | [] => hist_redo st = Ok false st /\ snd gr = false
  | b :: r' =>
      snd gr = true /\ G.undo_stack _ _ (fst gr) = undo_stack st /\ G.redo_stack _ _ (fst gr) = rev r' /\
      last (redo_stack st) dA = b /\
      hist_redo st = do _x, s <- inv_action (upd_hist st (undo_stack st) (rev r')) b; Ok true s
  end.
Proof.
  intros st dA. unfold hist_redo, G.redo, to_hist. cbn [G.undo_stack G.redo_stack G.cur].
  destruct (rev (redo_stack st)) as [|b r'] eqn:E.
  - apply (f_equal (@rev action)) in E. rewrite rev_involutive in E. cbn in E. rewrite E. cbn. auto.
  - destruct (rev_cons_last _ _ _ dA E) as [E1 E2].
    assert (Hn : redo_stack st <> []) by (intros H; rewrite H in E; discriminate).
    destruct (Z.eqb_spec (Z.of_nat (length (redo_stack st))) 0) as [H|_].
    + destruct (redo_stack st); [congruence|cbn in H; lia].
    + destruct (inv_total st (last (redo_stack st) dA)) as [s2 x]. cbn. rewrite E2. auto.
Qed.

Print Assumptions hist_undo_generated.
Print Assumptions hist_redo_generated.
