(* The definitions translated from the current candidate_graph/{utils,iou,compute_graph}.py
   (Gen/CandGraph_gen.v, rewritten by harness/translate_candgraph.py on every run) ARE the hand-written
   model functions of Model/CandGraph.v that the C18 theorems (Props/C18.v) are about.  If the source
   changes its behaviour, the regenerated definitions change and a theorem below stops compiling
   (harness/selftest_candgraph.py tries 29 such changes and 4 harmless rewrites).

   Shape of the ties.  The generated functions live in the exception monad of Model/PyRt5.v and act on a
   [cgraph] (node records + log of add_edge calls + log of iou assignments); the hand model returns the
   node list, the edge list and the assignment list separately.  Each theorem has the form
       gen_f args = Ok (<the model's result, put into the cgraph>)         (or Raise .. where the model says None)
   so it also shows that no KeyError / IndexError / TypeError is reachable in the Python.

     gen__compute_node_frame_dict_eq        = compute_nfd                                     no hypothesis
     gen_create_kdtree_eq                   KDTree(map pos_of ids)                            ids are nodes
     gen_add_cand_edges_eq                  = add_cand_edges near g d                         qbt_spec, ids_in d g
        gen_add_cand_edges_none_eq / _computed_eq   (node_frame_dict None / the computed one: the two calls of
                                            C18_edges)                                        qbt_spec only
     gen_nodes_from_points_list_eq          = nodes_from_points_list (None = AssertionError)  no hypothesis
     gen_compute_graph_from_points_list_eq  = nodes + add_cand_edges                          qbt_spec
        gen_compute_graph_from_points_list_exact, gen_add_cand_edges_graph_exact: the executable instance
                                            (dist2 <= d2max) = compute_graph_from_points_list / add_cand_edges_graph
     gen__compute_ious_eq                   = compute_ious_sorted, and compute_ious_sorted_perm:
                                            a Permutation of compute_ious (see below)         no hypothesis
     gen__get_iou_dict_eq                   every dict lookup = iou_get .. (get_iou_dict fs)  no hypothesis
     gen_add_iou_eq                         = add_iou                                         no hypothesis
     gen_nodes_from_segmentation_eq         = nodes_from_segmentation_c (the model with the centroid kept), with
        nodes_from_segmentation_c_forget    forget positions -> nodes_from_segmentation       rp_labels, rp_areas, scale_ok
     gen_compute_graph_from_seg_eq          = compute_graph_from_seg (near on stored centroids)  all of the above

   Hypotheses (Section Tie; all are about the three oracles, none about the Python):
     qbt_spec   T1.query_ball_tree(T2, r) on trees built from position lists ps, qs = for each p of ps, in
                order, the ascending indices of the q of qs with [close r p q]; [close] is an arbitrary
                boolean relation on positions.  KDTree(positions) itself is an uninterpreted TOTAL function.
     rp_labels  the labels of regionprops(frame, spacing) are the positive values of the frame, ascending;
     rp_areas   its area is the pixel count (unit spacing; the harness divides by prod(scale)).
   Side conditions (about the arguments):
     ids_in d g     every id listed in a caller-supplied node_frame_dict is a node (else KeyError in
                    create_kdtree); holds for every dict the library builds itself -- the C18 theorems use
                    [] / compute_nfd g / the dict returned by nodes_from_* (nfd_spec_ids_in);
     scale_ok       len(scale) = segmentation.ndim (else AssertionError: gen_nodes_from_segmentation_scale_error;
                    the hand model has no scale parameter).

   Where the hand model is NOT literally the Python (found while proving; none touches a C18 theorem):
     1. _compute_ious returns its entries in np.unique's order (columns ascending); Model.compute_ious lists
        them in nodup's order.  Every consumer only looks entries up, keys are distinct per frame pair, so the
        tie is a Permutation here and an equality again from _get_iou_dict lookups on (gen_add_iou_eq).
     2. nodes_from_points_list on an EMPTY (0, D) array with len(scale) <> D: Python AssertionError, model
        Some ([], []) (the list-of-rows representation does not record D; PyRt5.np_shape1_is says so).
     3. a point array with zero columns: Python IndexError at point[0], the model reads time 0 (PyRt5.np_item).
     4. add_cand_edges with a caller-supplied dict that lists an EMPTY id list next to a populated frame,
        e.g. {0: [], 1: [5]}: scipy's KDTree([]) raises ValueError, model (and generated code, KDTree being a
        total oracle) add no edge.  The library's own builders never create an empty list.
     5. add_cand_edges with a caller-supplied dict naming an id that is not a node: Python KeyError, model
        reads position [] (hypothesis ids_in).
     6. Model.add_iou has no node_frame_dict=None case; the Python recomputes the dict (gen_add_iou_eq covers
        both). *)
From Coq Require Import ZArith List Bool Lia Arith Permutation.
From FT Require Import Base.Dict Model.NpRt Model.PyRt5 Model.CandGraph Proofs.CandGraphProofs.
From FT Require Gen.CandGraph_gen.
Import ListNotations.
Open Scope Z_scope.

Module G := FT.Gen.CandGraph_gen.

(* ------------------------------------------------------------------ *)
(* control: a loop whose body always falls through is a fold           *)
(* ------------------------------------------------------------------ *)
Lemma forM_fold {A S S' R} (f : A -> S -> S) (P : S -> Prop) (body : A -> S -> ctl S R) (k : S -> ctl S' R) :
  forall l s, P s ->
    (forall x s, In x l -> P s -> body x s = Cont (f x s) /\ P (f x s)) ->
    forM l s body k = k (fold_left (fun s x => f x s) l s) /\ P (fold_left (fun s x => f x s) l s).
Proof.
  induction l as [|x r IH]; intros s Hs H; cbn [forM fold_left]; [split; [reflexivity|exact Hs]|].
  destruct (H x s (or_introl eq_refl) Hs) as [E Hs']. rewrite E.
  apply IH; [exact Hs'|]. intros y s' Hy. apply H. right. exact Hy.
Qed.

Lemma forM_fold' {A S S' R} (f : A -> S -> S) (body : A -> S -> ctl S R) (k : S -> ctl S' R) :
  forall l s, (forall x s, In x l -> body x s = Cont (f x s)) ->
    forM l s body k = k (fold_left (fun s x => f x s) l s).
Proof.
  intros l s H. apply (forM_fold f (fun _ => True) body k l s I).
  intros x s' Hx _. split; [apply H; exact Hx|exact I].
Qed.

(* ------------------------------------------------------------------ *)
(* Base/Dict.v against the dict primitives of the hand model           *)
(* ------------------------------------------------------------------ *)
Lemma lookup_set {V} k k' (v : V) d : lookup k (set k' v d) = if k =? k' then Some v else lookup k d.
Proof.
  induction d as [|[k0 v0] r IH]; cbn [set lookup].
  - destruct (k =? k'); reflexivity.
  - destruct (Z.eqb_spec k' k0) as [->|Hne]; cbn [lookup].
    + destruct (k =? k0); reflexivity.
    + rewrite IH. destruct (Z.eqb_spec k k0) as [->|_]; [|reflexivity].
      destruct (Z.eqb_spec k0 k'); [congruence|reflexivity].
Qed.

Lemma lookup_nfd_get t (d : nfdict) : lookup t d = nfd_get t d.
Proof.
  induction d as [|[k ids] r IH]; cbn [lookup nfd_get]; [reflexivity|].
  rewrite (Z.eqb_sym t k). destruct (k =? t); [reflexivity|exact IH].
Qed.

Lemma haskey_nfd_get t (d : nfdict) : haskey t d = match nfd_get t d with Some _ => true | None => false end.
Proof. unfold haskey. rewrite lookup_nfd_get. reflexivity. Qed.

(* if t not in d: d[t] = []          then d[t] reads the old list (or []) *)
Lemma ensure_get t (d : nfdict) :
  dict_get t (if negb (haskey t d) then set t [] d else d) = Ok (getd t d []).
Proof.
  unfold dict_get, getd, haskey. destruct (lookup t d) as [l|] eqn:E; cbn [negb].
  - rewrite E. reflexivity.
  - rewrite lookup_set, Z.eqb_refl. reflexivity.
Qed.

(* ... and d[t] = old + new  is the model's nfd_extend *)
Lemma ensure_set t new (d : nfdict) :
  set t (getd t d [] ++ new) (if negb (haskey t d) then set t [] d else d) = nfd_extend t new d.
Proof.
  unfold getd, haskey.
  induction d as [|[k ids] r IH]; cbn [lookup set nfd_extend negb].
  - rewrite Z.eqb_refl. reflexivity.
  - rewrite (Z.eqb_sym t k). destruct (k =? t) eqn:E.
    + cbn [negb set]. rewrite (Z.eqb_sym t k), E. apply Z.eqb_eq in E. subst. reflexivity.
    + destruct (lookup t r) as [l|] eqn:L; cbn [negb] in *; cbn [set]; rewrite (Z.eqb_sym t k), E; f_equal; exact IH.
Qed.

(* ------------------------------------------------------------------ *)
(* _compute_node_frame_dict                                            *)
(* ------------------------------------------------------------------ *)
Theorem gen__compute_node_frame_dict_eq : forall g : cgraph,
  G.gen__compute_node_frame_dict g = Ok (compute_nfd (cg_nodes g)).
Proof.
  intros g. unfold G.gen__compute_node_frame_dict, compute_nfd, nx_nodes_data. cbv zeta.
  generalize (@nil (Z * list Z)). generalize (cg_nodes g). clear g.
  match goal with |- forall l d, run (forM _ _ ?body ?k) = _ => set (B := body) end.
  induction l as [|n r IH]; intros d; cbn [map forM fold_left]; [reflexivity|].
  unfold B at 1. cbv beta iota zeta. unfold nx_data_time.
  rewrite ensure_get. cbn [bind]. rewrite ensure_set. apply IH.
Qed.

(* ------------------------------------------------------------------ *)
(* small list facts                                                    *)
(* ------------------------------------------------------------------ *)
Lemma py_sorted_sort l : py_sorted l = sort l.
Proof.
  unfold py_sorted, sort. induction l as [|x r IH]; cbn [fold_right]; [reflexivity|]. rewrite IH.
  generalize (fold_right insert [] r). clear. induction l as [|y l IH]; cbn [py_insert insert]; [reflexivity|].
  destruct (x <=? y); [reflexivity|now rewrite IH].
Qed.

Lemma mapM_ok {A B} (f : A -> res B) (h : A -> B) : forall l,
  (forall x, In x l -> f x = Ok (h x)) -> mapM f l = Ok (map h l).
Proof.
  induction l as [|x r IH]; intros H; cbn [mapM map]; [reflexivity|].
  rewrite (H x (or_introl eq_refl)), IH; [reflexivity|]. intros y Hy. apply H. right. exact Hy.
Qed.

Lemma list_get_ok {A} (dflt : A) (l : list A) (j : Z) :
  0 <= j < Z.of_nat (length l) -> list_get l j = Ok (nth (Z.to_nat j) l dflt).
Proof.
  intros H. unfold list_get.
  destruct (Z.ltb_spec j 0) as [?|_]; [lia|]. cbv zeta.
  destruct (Z.ltb_spec j 0) as [?|_]; [lia|].
  destruct (nth_error l (Z.to_nat j)) as [x|] eqn:E.
  - rewrite (nth_error_nth _ _ dflt E). reflexivity.
  - apply nth_error_None in E. lia.
Qed.

Lemma enum_from_range {A} : forall (l : list A) i j x,
  In (j, x) (enum_from i l) -> i <= j < i + Z.of_nat (length l).
Proof.
  induction l as [|a r IH]; intros i j x H; cbn [enum_from In length] in *; [destruct H|].
  destruct H as [E|H]; [injection E as <- <-; lia|]. apply IH in H. lia.
Qed.

(* ------------------------------------------------------------------ *)
(* the graph value                                                     *)
(* ------------------------------------------------------------------ *)
(* the add_edge log grows by es *)
Definition add_edges (g : cgraph) (es : list (Z * Z)) : cgraph :=
  {| cg_nodes := cg_nodes g; cg_edges := cg_edges g ++ es; cg_iou := cg_iou g |}.

Lemma add_edges_nil g : add_edges g [] = g.
Proof. destruct g. unfold add_edges. cbn. now rewrite app_nil_r. Qed.
Lemma add_edges_app g a b : add_edges (add_edges g a) b = add_edges g (a ++ b).
Proof. unfold add_edges. cbn. now rewrite app_assoc. Qed.
Lemma add_edge_one g u v : nx_add_edge g u v = add_edges g [(u, v)].
Proof. reflexivity. Qed.

Lemma fold_add_edges {X} (E : X -> list (Z * Z)) : forall l g,
  fold_left (fun g x => add_edges g (E x)) l g = add_edges g (flat_map E l).
Proof.
  induction l as [|x r IH]; intros g; cbn [fold_left flat_map]; [now rewrite add_edges_nil|].
  now rewrite IH, add_edges_app.
Qed.

(* G.nodes[u]["pos"] for a node of G is the model's pos_of *)
Lemma node_pos_ok g u : In u (map n_id (cg_nodes g)) -> nx_node_pos g u = Ok (pos_of (cg_nodes g) u).
Proof.
  intros H. unfold nx_node_pos, pos_of.
  destruct (find (fun x => n_id x =? u) (cg_nodes g)) as [x|] eqn:E; [reflexivity|].
  apply in_map_iff in H. destruct H as (n & <- & Hn).
  pose proof (find_none _ _ E n Hn) as F. cbn in F. rewrite Z.eqb_refl in F. discriminate.
Qed.

(* every id a frame of the dict lists is a node (what makes cand_graph.nodes[node] succeed) *)
Definition ids_in (d : nfdict) (nodes : graph) : Prop :=
  forall t u, dict_in d t u -> In u (map n_id nodes).

Lemma nfd_spec_ids_in nodes d : nfd_spec nodes d -> ids_in d nodes.
Proof. intros H t u Hd. apply H in Hd. destruct Hd as (n & Hn & <- & _). now apply in_map. Qed.


(* ------------------------------------------------------------------ *)
(* nodes_from_points_list                                              *)
(* ------------------------------------------------------------------ *)
(* a graph with nodes only *)
Definition cg_of (nodes : graph) : cgraph := {| cg_nodes := nodes; cg_edges := []; cg_iou := [] |}.

Lemma has_node_fresh (g : graph) i : (forall n, In n g -> n_id n < i) -> nx_has_node (cg_of g) i = false.
Proof.
  intros H. unfold nx_has_node. cbn [cg_of cg_nodes].
  destruct (existsb (fun x => n_id x =? i) g) eqn:E; [|reflexivity].
  apply existsb_exists in E. destruct E as (n & Hn & E). apply Z.eqb_eq in E. specialize (H n Hn). lia.
Qed.

Lemma nth0_hd (p : list Z) : nth (Z.to_nat 0) p 0 = hd 0 p.
Proof. destruct p; reflexivity. Qed.

(* any loop over enumerate(points) whose body adds node i and files it under its time *)
Lemma points_loop_tie (body : Z * list Z -> cgraph * nfdict -> ctl (cgraph * nfdict) (cgraph * nfdict))
      (k : cgraph * nfdict -> ctl Empty_set (cgraph * nfdict)) :
  (forall i p g d, (forall n, In n g -> n_id n < i) ->
     body (i, p) (cg_of g, d) = Cont (cg_of (g ++ [mk_point_node i p]), nfd_extend (hd 0 p) [i] d)) ->
  (forall s, k s = Ret s) ->
  forall pts i g d, (forall n, In n g -> n_id n < i) ->
    run (forM (enum_from i pts) (cg_of g, d) body k)
    = Ok (let '(g', d') := points_loop i pts g d in (cg_of g', d')).
Proof.
  intros Hb Hk. induction pts as [|p r IH]; intros i g d Hf; cbn [enum_from forM points_loop].
  - rewrite Hk. reflexivity.
  - rewrite Hb by exact Hf. apply IH. intros n Hn. apply in_app_or in Hn.
    destruct Hn as [Hn|[<-|[]]]; [specialize (Hf n Hn); lia|cbn; lia].
Qed.

Lemma shape1_is_forallb pts (s : list Z) :
  np_shape1_is pts (py_len s) = forallb (fun p => Nat.eqb (length p) (length s)) pts.
Proof.
  unfold np_shape1_is, py_len. induction pts as [|p r IH]; cbn [forallb]; [reflexivity|]. rewrite IH. f_equal.
  destruct (Nat.eqb_spec (length p) (length s)) as [E|E]; [rewrite E; apply Z.eqb_refl|apply Z.eqb_neq; lia].
Qed.

Theorem gen_nodes_from_points_list_eq : forall (pts : list (list Z)) (sc : option (list Z)),
  G.gen_nodes_from_points_list pts sc =
  match nodes_from_points_list sc pts with
  | Some (g, d) => Ok (cg_of g, d)
  | None => Raise AssertionError
  end.
Proof.
  intros pts sc. unfold G.gen_nodes_from_points_list, nodes_from_points_list. cbv zeta.
  assert (Hloop : forall (body : Z * list Z -> cgraph * nfdict -> ctl (cgraph * nfdict) (cgraph * nfdict)) k pts',
            (forall i p g d, (forall n, In n g -> n_id n < i) ->
               body (i, p) (cg_of g, d) = Cont (cg_of (g ++ [mk_point_node i p]), nfd_extend (hd 0 p) [i] d)) ->
            (forall s, k s = Ret s) ->
            run (forM (py_enumerate pts') (nx_DiGraph, []) body k)
            = (let '(g, d) := points_loop 0 pts' [] [] in Ok (cg_of g, d))).
  { intros body k pts' Hb Hk. change nx_DiGraph with (cg_of []). unfold py_enumerate.
    transitivity (Ok (let '(g', d') := points_loop 0 pts' [] [] in (cg_of g', d'))).
    { apply (points_loop_tie body k Hb Hk pts' 0 [] []). intros n []. }
    destruct (points_loop 0 pts' [] []); reflexivity. }
  assert (Hbody : forall i p g d, (forall n, In n g -> n_id n < i) ->
            (let v_t := np_item p 0 in
             let v_node_frame_dict := if negb (haskey v_t d) then set v_t [] d else d in
             bind (dict_get v_t v_node_frame_dict)
               (fun t1 => @Cont _ (cgraph * nfdict)
                  (nx_add_node (cg_of g) i (attrs_set_pos (py_from1 p) (attrs_set_time v_t attrs_empty)),
                   set v_t (t1 ++ [i]) v_node_frame_dict)))
            = Cont (cg_of (g ++ [mk_point_node i p]), nfd_extend (hd 0 p) [i] d)).
  { intros i p g d Hf. cbv zeta. unfold np_item. rewrite nth0_hd, ensure_get. cbn [bind].
    rewrite ensure_set. unfold nx_add_node. rewrite (has_node_fresh g i Hf). reflexivity. }
  destruct sc as [s|]; cbn [is_some as_some bind].
  - rewrite shape1_is_forallb. destruct (forallb _ pts); [|reflexivity].
    rewrite Hloop; [reflexivity| |intros [? ?]; reflexivity].
    intros i p g d Hf. exact (Hbody i p g d Hf).
  - change (scale_point None) with (fun p : list Z => p). rewrite map_id.
    rewrite Hloop; [reflexivity| |intros [? ?]; reflexivity].
    intros i p g d Hf. exact (Hbody i p g d Hf).
Qed.

(* ------------------------------------------------------------------ *)
(* _compute_ious                                                       *)
(* ------------------------------------------------------------------ *)
(* frame1[nz], frame2[nz] stacked = the model's overlap_pairs *)
Lemma stacked_overlap : forall f1 f2,
  np_array_rows2 (np_bool_index f1 (np_logical_and f1 f2)) (np_bool_index f2 (np_logical_and f1 f2))
  = overlap_pairs f1 f2.
Proof.
  unfold np_array_rows2, np_bool_index, np_logical_and, overlap_pairs.
  induction f1 as [|a r1 IH]; intros [|b r2]; cbn [combine map filter]; try reflexivity.
  cbn [fst snd]. destruct (negb (a =? 0) && negb (b =? 0)); cbn [map fst combine]; rewrite IH; reflexivity.
Qed.

(* np.unique on a 1-D array *)
Lemma insert_sorted_In x y l : In x (insert_sorted y l) <-> y = x \/ In x l.
Proof.
  induction l as [|z r IH]; cbn [insert_sorted In]; [tauto|].
  destruct (y <? z); cbn [In]; [tauto|].
  destruct (Z.eqb_spec y z) as [->|_]; cbn [In]; [tauto|]. rewrite IH. tauto.
Qed.
Lemma np_unique_In x l : In x (np_unique l) <-> In x l.
Proof.
  unfold np_unique. induction l as [|y r IH]; cbn [fold_right In]; [tauto|].
  rewrite insert_sorted_In, IH. split; intros [H|H]; auto.
Qed.

Lemma count_filter v f : Z.of_nat (length (filter (Z.eqb v) f)) = count v f.
Proof.
  unfold count. f_equal. induction f as [|x r IH]; cbn [filter count_occ]; [reflexivity|].
  destruct (Z.eqb_spec v x) as [E0|Hne]; destruct (Z.eq_dec x v) as [E|E]; try congruence; cbn [length]; now rewrite IH.
Qed.

(* dict(zip(values, counts)) of one np.unique(.., return_counts=True) *)
Lemma lookup_fold_pairs {V} (c : Z -> V) v : forall l d,
  lookup v (fold_left (fun d kv => set (fst kv) (snd kv) d) (map (fun x => (x, c x)) l) d)
  = if existsb (Z.eqb v) l then Some (c v) else lookup v d.
Proof.
  induction l as [|x r IH]; intros d; cbn [map fold_left existsb]; [reflexivity|].
  rewrite IH. cbn [fst snd]. destruct (existsb (Z.eqb v) r); [now rewrite orb_true_r|].
  rewrite orb_false_r, lookup_set. destruct (Z.eqb_spec v x) as [->|]; reflexivity.
Qed.

Lemma label_sizes_get f v : In v f ->
  dict_get v (let '(vals, cnts) := np_unique_counts f in py_dict_of_pairs (py_zip_strict vals cnts)) = Ok (count v f).
Proof.
  intros Hv. unfold np_unique_counts, py_dict_of_pairs, py_zip_strict, dict_get. cbv zeta.
  assert (E : forall l (c : Z -> Z), combine l (map c l) = map (fun x => (x, c x)) l)
    by (induction l as [|x r IH]; intros c; cbn [combine map]; [reflexivity|now rewrite IH]).
  rewrite E, lookup_fold_pairs.
  replace (existsb (Z.eqb v) (np_unique f)) with true; [now rewrite count_filter|].
  symmetry. apply existsb_exists. exists v. split; [now apply np_unique_In|apply Z.eqb_refl].
Qed.

(* np.unique(.., axis=1) on a (2, n) array *)
Definition col_lt (a b : Z * Z) : Prop := fst a < fst b \/ (fst a = fst b /\ snd a < snd b).
Lemma col_ltb_lt a b : col_ltb a b = true <-> col_lt a b.
Proof. unfold col_ltb, col_lt. rewrite orb_true_iff, andb_true_iff, !Z.ltb_lt, Z.eqb_eq. tauto. Qed.
Lemma col_eqb_eq a b : col_eqb a b = true <-> a = b.
Proof.
  destruct a, b. unfold col_eqb. cbn [fst snd]. rewrite andb_true_iff, !Z.eqb_eq.
  split; [intros [-> ->]; reflexivity|intros E; injection E; auto].
Qed.

Lemma col_insert_In x y l : In x (col_insert y l) <-> y = x \/ In x l.
Proof.
  induction l as [|z r IH]; cbn [col_insert In]; [tauto|].
  destruct (col_ltb y z); cbn [In]; [tauto|].
  destruct (col_eqb y z) eqn:E; cbn [In]; [apply col_eqb_eq in E; subst; tauto|]. rewrite IH. tauto.
Qed.

Inductive col_sorted : list (Z * Z) -> Prop :=
| cs_nil : col_sorted []
| cs_cons x l : (forall y, In y l -> col_lt x y) -> col_sorted l -> col_sorted (x :: l).

Lemma col_insert_sorted y l : col_sorted l -> col_sorted (col_insert y l).
Proof.
  induction 1 as [|x l Hx Hs IH]; cbn [col_insert]; [constructor; [intros ? []|constructor]|].
  destruct (col_ltb y x) eqn:E1.
  - apply col_ltb_lt in E1. constructor; [|constructor; assumption].
    intros z [<-|Hz]; [exact E1|]. specialize (Hx z Hz). unfold col_lt in *. lia.
  - destruct (col_eqb y x) eqn:E2; [constructor; assumption|].
    constructor; [|exact IH]. intros z Hz. apply col_insert_In in Hz. destruct Hz as [<-|Hz]; [|auto].
    assert (~ col_lt y x) by (intros C; apply col_ltb_lt in C; congruence).
    assert (y <> x) by (intros C; apply col_eqb_eq in C; congruence).
    destruct x, y. unfold col_lt in *. cbn [fst snd] in *.
    assert (z <> z1 \/ z0 <> z2) by (destruct (Z.eq_dec z z1), (Z.eq_dec z0 z2); subst; auto; congruence). lia.
Qed.

Lemma col_sorted_NoDup l : col_sorted l -> NoDup l.
Proof.
  induction 1 as [|x l Hx Hs IH]; constructor; [|exact IH].
  intros Hin. specialize (Hx x Hin). unfold col_lt in Hx. lia.
Qed.

Definition unique_cols (c : list (Z * Z)) : list (Z * Z) := fold_right col_insert [] c.
Lemma unique_cols_In x c : In x (unique_cols c) <-> In x c.
Proof.
  unfold unique_cols. induction c as [|y r IH]; cbn [fold_right In]; [tauto|].
  rewrite col_insert_In, IH. split; intros [H|H]; auto.
Qed.
Lemma unique_cols_NoDup c : NoDup (unique_cols c).
Proof.
  apply col_sorted_NoDup. unfold unique_cols. induction c as [|y r IH]; cbn [fold_right]; [constructor|].
  now apply col_insert_sorted.
Qed.

Lemma count_cols pr ov : Z.of_nat (length (filter (col_eqb pr) ov)) = Z.of_nat (count_occ pair_dec ov pr).
Proof.
  f_equal. induction ov as [|x r IH]; cbn [filter count_occ]; [reflexivity|].
  destruct (pair_dec x pr) as [->|Hne].
  - replace (col_eqb pr pr) with true by (symmetry; now apply col_eqb_eq). cbn [length]. now rewrite IH.
  - replace (col_eqb pr x) with false; [exact IH|].
    symmetry. destruct (col_eqb pr x) eqn:E; [apply col_eqb_eq in E; congruence|reflexivity].
Qed.

(* the model's entry for one overlapping label pair *)
Definition iou_entry (f1 f2 : list Z) (ov : list (Z * Z)) (pr : Z * Z) : (Z * Z) * (Z * Z) :=
  let i := Z.of_nat (count_occ pair_dec ov pr) in (pr, (i, count (fst pr) f1 + count (snd pr) f2 - i)).
(* the model's list in numpy's order (columns ascending) instead of first-occurrence order *)
Definition compute_ious_sorted (f1 f2 : list Z) : list ((Z * Z) * (Z * Z)) :=
  map (iou_entry f1 f2 (overlap_pairs f1 f2)) (unique_cols (overlap_pairs f1 f2)).

Lemma compute_ious_sorted_perm f1 f2 : Permutation (compute_ious_sorted f1 f2) (compute_ious f1 f2).
Proof.
  unfold compute_ious_sorted, compute_ious. cbv zeta. apply (Permutation_map (iou_entry f1 f2 (overlap_pairs f1 f2))).
  apply NoDup_Permutation; [apply unique_cols_NoDup|apply NoDup_nodup|].
  intros x. rewrite unique_cols_In, nodup_In. reflexivity.
Qed.

Lemma compute_ious_sorted_keys f1 f2 : NoDup (map fst (compute_ious_sorted f1 f2)).
Proof.
  unfold compute_ious_sorted. rewrite map_map. cbn [iou_entry fst]. rewrite map_id. apply unique_cols_NoDup.
Qed.

Lemma overlap_In_frames f1 f2 a b : In (a, b) (overlap_pairs f1 f2) -> In a f1 /\ In b f2.
Proof.
  unfold overlap_pairs. intros H. apply filter_In in H. destruct H as [H _].
  split; [exact (in_combine_l _ _ _ _ H)|exact (in_combine_r _ _ _ _ H)].
Qed.

Lemma map_nth_range {A B} (F : A -> B) (dflt : A) (U : list A) :
  map (fun i => F (nth (Z.to_nat i) U dflt)) (py_range (Z.of_nat (length U))) = map F U.
Proof.
  unfold py_range. rewrite Nat2Z.id, map_map.
  transitivity (map (fun i => F (nth i U dflt)) (seq 0 (length U))).
  { apply map_ext. intros i. now rewrite Nat2Z.id. }
  rewrite <- (map_map (fun i => nth i U dflt) F). f_equal.
  clear. induction U as [|x r IH]; cbn [length seq map]; [reflexivity|].
  f_equal. rewrite <- seq_shift, map_map. exact IH.
Qed.

Lemma fold_snoc {A B} (F : A -> B) : forall l acc,
  fold_left (fun acc x => acc ++ [F x]) l acc = acc ++ map F l.
Proof.
  induction l as [|x l IH]; intros acc; cbn [fold_left map]; [now rewrite app_nil_r|].
  rewrite IH, <- app_assoc. reflexivity.
Qed.

Theorem gen__compute_ious_eq : forall f1 f2 : list Z,
  G.gen__compute_ious f1 f2 = Ok (compute_ious_sorted f1 f2).
Proof.
  intros f1 f2. unfold G.gen__compute_ious, np_flatten. cbv zeta.
  rewrite stacked_overlap. set (ov := overlap_pairs f1 f2).
  unfold np_unique_cols_counts. cbv zeta. fold (unique_cols ov). set (U := unique_cols ov).
  pose proof (label_sizes_get f1) as S1. pose proof (label_sizes_get f2) as S2.
  destruct (np_unique_counts f1) as [v1 c1]. destruct (np_unique_counts f2) as [v2 c2].
  unfold np_cols_shape1.
  match goal with |- run (forM _ _ ?body ?k) = _ =>
    rewrite (forM_fold' (fun idx acc => acc ++ [iou_entry f1 f2 ov (nth (Z.to_nat idx) U (0, 0))]) body k)
  end.
  - cbn [run]. f_equal. unfold compute_ious_sorted. fold ov. fold U.
    rewrite (fold_snoc (fun idx => iou_entry f1 f2 ov (nth (Z.to_nat idx) U (0, 0)))). cbn [app].
    apply (map_nth_range (iou_entry f1 f2 ov) (0, 0) U).
  - intros idx acc Hidx. unfold np_col, np_item.
    assert (Hin : In (nth (Z.to_nat idx) U (0, 0)) U).
    { apply nth_In. unfold py_range in Hidx. apply in_map_iff in Hidx. destruct Hidx as (i & <- & Hi).
      apply in_seq in Hi. rewrite !Nat2Z.id in *. lia. }
    assert (Hc : nth (Z.to_nat idx) (map (fun x => Z.of_nat (length (filter (col_eqb x) ov))) U) 0
                 = Z.of_nat (count_occ pair_dec ov (nth (Z.to_nat idx) U (0, 0)))).
    { rewrite <- count_cols.
      unfold py_range in Hidx. apply in_map_iff in Hidx. destruct Hidx as (i & <- & Hi). apply in_seq in Hi.
      rewrite !Nat2Z.id in *. rewrite (nth_indep _ 0 ((fun x => Z.of_nat (length (filter (col_eqb x) ov))) (0, 0)))
        by (rewrite map_length; lia).
      exact (map_nth (fun x => Z.of_nat (length (filter (col_eqb x) ov))) U (0, 0) i). }
    rewrite Hc. destruct (nth (Z.to_nat idx) U (0, 0)) as [a b] eqn:Epr.
    apply (proj1 (unique_cols_In _ _)) in Hin. apply overlap_In_frames in Hin. destruct Hin as [Ha Hb].
    rewrite (S1 a Ha), (S2 b Hb). cbn [bind]. reflexivity.
Qed.

(* ------------------------------------------------------------------ *)
(* _get_iou_dict                                                       *)
(* ------------------------------------------------------------------ *)
(* the value a (u, v) lookup finds in an entry list where later entries overwrite earlier ones *)
Definition lastval (k : Z * Z) (L : list ((Z * Z) * (Z * Z))) : option (Z * Z) :=
  option_map snd (find (fun e => pair_eqb (fst e) k) (rev L)).

Lemma iou_get_lastval u v L : iou_get u v L = match lastval (u, v) L with Some x => x | None => (0, 1) end.
Proof. unfold iou_get, lastval. destruct (find _ (rev L)); reflexivity. Qed.

Lemma find_app {A} (p : A -> bool) (a b : list A) :
  find p (a ++ b) = match find p a with Some x => Some x | None => find p b end.
Proof. induction a as [|x a IH]; cbn [app find]; [reflexivity|]. destruct (p x); [reflexivity|exact IH]. Qed.

Lemma lastval_app k A B : lastval k (A ++ B) = match lastval k B with Some x => Some x | None => lastval k A end.
Proof. unfold lastval. rewrite rev_app_distr, find_app. destruct (find _ (rev B)); reflexivity. Qed.

Lemma lastval_snoc k L e : lastval k (L ++ [e]) = if pair_eqb (fst e) k then Some (snd e) else lastval k L.
Proof. rewrite lastval_app. unfold lastval at 1. cbn [rev app find]. destruct (pair_eqb (fst e) k); reflexivity. Qed.

Lemma lastval_In k B x : NoDup (map fst B) -> (lastval k B = Some x <-> In (k, x) B).
Proof.
  intros Hnd. unfold lastval. split.
  - destruct (find _ (rev B)) as [[k' y]|] eqn:F; [|discriminate]. cbn [option_map snd]. intros E. injection E as <-.
    apply find_some in F. destruct F as [Hin E]. cbn [fst] in E. apply pair_eqb_eq in E. subst k'. now apply in_rev in Hin.
  - intros Hin. destruct (find _ (rev B)) as [[k' y]|] eqn:F.
    + apply find_some in F. destruct F as [Hin' E]. cbn [fst] in E. apply pair_eqb_eq in E. subst k'.
      apply in_rev in Hin'. cbn [option_map snd]. f_equal.
      clear -Hnd Hin Hin'. induction B as [|[k0 z] r IH]; [destruct Hin|].
      cbn [map fst] in Hnd. inversion Hnd as [|? ? Hn Hr]; subst.
      destruct Hin as [E1|H1], Hin' as [E2|H2].
      * congruence.
      * injection E1 as -> ->. exfalso. apply Hn. apply in_map_iff. exists (k, y). split; [reflexivity|exact H2].
      * injection E2 as -> ->. exfalso. apply Hn. apply in_map_iff. exists (k, x). split; [reflexivity|exact H1].
      * now apply IH.
    + exfalso. apply in_rev in Hin. apply (find_none _ _ F) in Hin. cbn [fst] in Hin.
      assert (pair_eqb k k = true) by now apply pair_eqb_eq. congruence.
Qed.

(* inside one frame pair the order of the entries does not matter *)
Lemma lastval_perm k B B' : NoDup (map fst B) -> Permutation B B' -> lastval k B = lastval k B'.
Proof.
  intros Hnd Hp.
  assert (Hnd' : NoDup (map fst B')) by (apply (Permutation_NoDup (Permutation_map fst Hp)), Hnd).
  destruct (lastval k B) as [x|] eqn:E.
  - apply (lastval_In k B x Hnd) in E. symmetry. apply (lastval_In k B' x Hnd'). now apply (Permutation_in _ Hp).
  - destruct (lastval k B') as [y|] eqn:E'; [|reflexivity].
    apply (lastval_In k B' y Hnd') in E'. apply (Permutation_in _ (Permutation_sym Hp)) in E'.
    apply (lastval_In k B y Hnd) in E'. congruence.
Qed.

(* the entries of all consecutive frame pairs, for any per-pair function *)
Fixpoint gid (cis : list Z -> list Z -> list ((Z * Z) * (Z * Z))) (fs : list (list Z)) : list ((Z * Z) * (Z * Z)) :=
  match fs with
  | [] => []
  | f1 :: r => match r with [] => [] | f2 :: _ => cis f1 f2 ++ gid cis r end
  end.
Lemma get_iou_dict_gid fs : get_iou_dict fs = gid compute_ious fs.
Proof.
  induction fs as [|f1 [|f2 r] IH]; try reflexivity.
  change (compute_ious f1 f2 ++ get_iou_dict (f2 :: r) = compute_ious f1 f2 ++ gid compute_ious (f2 :: r)).
  now rewrite IH.
Qed.

Lemma lastval_gid k : forall fs, lastval k (gid compute_ious_sorted fs) = lastval k (gid compute_ious fs).
Proof.
  induction fs as [|f1 [|f2 r] IH]; try reflexivity.
  change (lastval k (compute_ious_sorted f1 f2 ++ gid compute_ious_sorted (f2 :: r))
          = lastval k (compute_ious f1 f2 ++ gid compute_ious (f2 :: r))).
  rewrite !lastval_app, IH. destruct (lastval k (gid compute_ious (f2 :: r))); [reflexivity|].
  apply lastval_perm; [apply compute_ious_sorted_keys|apply compute_ious_sorted_perm].
Qed.

Lemma flat_map_map {A B C} (f : B -> list C) (g : A -> B) l : flat_map f (map g l) = flat_map (fun x => f (g x)) l.
Proof. induction l as [|x l IH]; cbn [map flat_map]; [reflexivity|now rewrite IH]. Qed.

(* the same list by frame index, as the Python loop produces it *)
Lemma gid_index cis : forall fs,
  gid cis fs = flat_map (fun i => cis (nth i fs []) (nth (S i) fs [])) (seq 0 (length fs - 1)).
Proof.
  induction fs as [|f1 [|f2 r] IH]; try reflexivity.
  change (gid cis (f1 :: f2 :: r)) with (cis f1 f2 ++ gid cis (f2 :: r)). rewrite IH.
  replace (length (f1 :: f2 :: r) - 1)%nat with (S (length (f2 :: r) - 1)) by (cbn [length]; lia).
  cbn [seq flat_map]. f_equal. rewrite <- seq_shift, flat_map_map. reflexivity.
Qed.

(* dict of dicts *)
Definition lookup2 (u v : Z) (D : dict (dict frac)) : option frac :=
  match lookup u D with Some m => lookup v m | None => None end.

Lemma getd2_lookup2 u v (D : dict (dict frac)) x0 :
  getd v (getd u D []) x0 = match lookup2 u v D with Some x => x | None => x0 end.
Proof. unfold getd, lookup2. destruct (lookup u D); reflexivity. Qed.

Lemma ensure_get_gen {A} t (d : dict (list A)) :
  dict_get t (if negb (haskey t d) then set t [] d else d) = Ok (getd t d []).
Proof.
  unfold dict_get, getd, haskey. destruct (lookup t d) as [l|] eqn:E; cbn [negb].
  - rewrite E. reflexivity.
  - rewrite lookup_set, Z.eqb_refl. reflexivity.
Qed.

(* if l1 not in D: D[l1] = {}  ;  D[l1][l2] = x *)
Definition ins2 (D : dict (dict frac)) (e : Z * Z * frac) : dict (dict frac) :=
  let '(l1, l2, x) := e in
  set l1 (set l2 x (getd l1 D [])) (if negb (haskey l1 D) then set l1 [] D else D).

Lemma lookup2_ins2 u v D l1 l2 x :
  lookup2 u v (ins2 D (l1, l2, x)) = if pair_eqb (l1, l2) (u, v) then Some x else lookup2 u v D.
Proof.
  unfold ins2, lookup2, pair_eqb. cbn [fst snd]. rewrite lookup_set, (Z.eqb_sym l1 u), (Z.eqb_sym l2 v).
  destruct (Z.eqb_spec u l1) as [->|Hne]; cbn [andb].
  - rewrite lookup_set. unfold getd. destruct (v =? l2); [reflexivity|]. destruct (lookup l1 D); reflexivity.
  - unfold haskey. destruct (lookup l1 D) eqn:E; cbn [negb]; [reflexivity|].
    rewrite lookup_set. destruct (Z.eqb_spec u l1); [contradiction|reflexivity].
Qed.

(* D answers every (u, v) lookup like the entry list L *)
Definition agrees (D : dict (dict frac)) (L : list ((Z * Z) * (Z * Z))) : Prop :=
  forall u v, lookup2 u v D = lastval (u, v) L.

Lemma agrees_fold : forall es D L, agrees D L -> agrees (fold_left ins2 es D) (L ++ es).
Proof.
  induction es as [|[[l1 l2] x] es IH]; intros D L H; cbn [fold_left]; [now rewrite app_nil_r|].
  replace (L ++ ((l1, l2), x) :: es) with ((L ++ [((l1, l2), x)]) ++ es) by (rewrite <- app_assoc; reflexivity).
  apply IH. intros u v. rewrite lookup2_ins2, lastval_snoc. cbn [fst snd]. rewrite H. reflexivity.
Qed.

Theorem gen__get_iou_dict_agrees : forall fs : list (list Z),
  exists D, G.gen__get_iou_dict fs = Ok D /\ agrees D (gid compute_ious_sorted fs).
Proof.
  intros fs. unfold G.gen__get_iou_dict, np_expand_dims0, np_shape1. cbv zeta. cbn [hd].
  rewrite gid_index.
  replace (py_range (Z.of_nat (length fs) - 1)) with (map Z.of_nat (seq 0 (length fs - 1)))
    by (unfold py_range; do 2 f_equal; lia).
  match goal with |- exists D', run (forM _ _ ?body ?k) = _ /\ _ =>
    set (B := body);
    assert (Hgen : forall idxs (D : dict (dict frac)) L, agrees D L ->
              exists D', run (forM (map Z.of_nat idxs) D B k) = Ok D' /\
                         agrees D' (L ++ flat_map (fun i => compute_ious_sorted (nth i fs []) (nth (S i) fs [])) idxs))
  end.
  2:{ apply (Hgen (seq 0 (length fs - 1)) [] []). intros u v. reflexivity. }
  induction idxs as [|i idxs IH]; intros D L HA; cbn [map forM flat_map].
  - exists D. split; [reflexivity|]. now rewrite app_nil_r.
  - assert (E : B (Z.of_nat i) D = Cont (fold_left ins2 (compute_ious_sorted (nth i fs []) (nth (S i) fs [])) D)).
    { unfold B. cbn [forM]. unfold np_getitem. cbn [Z.to_nat nth].
      replace (Z.to_nat (Z.of_nat i + 1)) with (S i) by lia. rewrite Nat2Z.id.
      rewrite gen__compute_ious_eq. cbn [bind].
      match goal with |- match forM _ _ ?body2 ?k2 with _ => _ end = _ =>
        rewrite (forM_fold' (fun e D0 => ins2 D0 e) body2 k2)
      end; [reflexivity|].
      intros [[l1 l2] x] D0 _. cbv beta iota zeta. rewrite ensure_get_gen. reflexivity. }
    rewrite E.
    destruct (IH (fold_left ins2 (compute_ious_sorted (nth i fs []) (nth (S i) fs [])) D)
                 (L ++ compute_ious_sorted (nth i fs []) (nth (S i) fs []))) as (D' & E' & HA').
    { now apply agrees_fold. }
    exists D'. split; [exact E'|]. rewrite app_assoc. exact HA'.
Qed.

(* what add_iou reads from the dict is what the model reads from its entry list *)
Corollary gen__get_iou_dict_eq : forall fs : list (list Z),
  exists D, G.gen__get_iou_dict fs = Ok D /\
            forall u v, getd v (getd u D []) (frac_of_int 0) = iou_get u v (get_iou_dict fs).
Proof.
  intros fs. destruct (gen__get_iou_dict_agrees fs) as (D & E & HA). exists D. split; [exact E|].
  intros u v. rewrite getd2_lookup2, HA, lastval_gid, iou_get_lastval, get_iou_dict_gid. reflexivity.
Qed.

(* what the C18 IoU theorems say about compute_ious (membership, lookups) holds of the list the Python returns *)
Corollary gen__compute_ious_In : forall f1 f2 l, G.gen__compute_ious f1 f2 = Ok l ->
  (forall e, In e l <-> In e (compute_ious f1 f2)) /\
  (forall u v, iou_get u v l = iou_get u v (compute_ious f1 f2)).
Proof.
  intros f1 f2 l H. rewrite gen__compute_ious_eq in H. injection H as <-. split.
  - intros e. split; apply Permutation_in; [|apply Permutation_sym]; apply compute_ious_sorted_perm.
  - intros u v. rewrite !iou_get_lastval.
    rewrite (lastval_perm (u, v) _ _ (compute_ious_sorted_keys f1 f2) (compute_ious_sorted_perm f1 f2)). reflexivity.
Qed.

(* ------------------------------------------------------------------ *)
(* add_iou                                                             *)
(* ------------------------------------------------------------------ *)
(* the log of edges[..]["iou"] = .. assignments grows by xs *)
Definition add_ious (g : cgraph) (xs : list ((Z * Z) * (Z * Z))) : cgraph :=
  {| cg_nodes := cg_nodes g; cg_edges := cg_edges g; cg_iou := cg_iou g ++ xs |}.
Lemma add_ious_nil g : add_ious g [] = g.
Proof. destruct g. unfold add_ious. cbn. now rewrite app_nil_r. Qed.
Lemma add_ious_app g a b : add_ious (add_ious g a) b = add_ious g (a ++ b).
Proof. unfold add_ious. cbn. now rewrite app_assoc. Qed.
Lemma fold_add_ious {X} (E : X -> list ((Z * Z) * (Z * Z))) : forall l g,
  fold_left (fun g x => add_ious g (E x)) l g = add_ious g (flat_map E l).
Proof.
  induction l as [|x r IH]; intros g; cbn [fold_left flat_map]; [now rewrite add_ious_nil|].
  now rewrite IH, add_ious_app.
Qed.

Lemma has_edge_existsb g u v : nx_has_edge g u v = existsb (pair_eqb (u, v)) (cg_edges g).
Proof.
  unfold nx_has_edge. induction (cg_edges g) as [|e r IH]; cbn [existsb]; [reflexivity|].
  rewrite IH. unfold pair_eqb. cbn [fst snd]. now rewrite (Z.eqb_sym u), (Z.eqb_sym v).
Qed.

Lemma set_edge_iou_ok g u v x : nx_has_edge g u v = true -> nx_set_edge_iou g u v x = Ok (add_ious g [((u, v), x)]).
Proof. unfold nx_set_edge_iou. intros ->. reflexivity. Qed.

(* the model's assignments for one frame *)
Definition iou_step (edges : list (Z * Z)) (val : Z -> Z -> Z * Z) (d : nfdict) (frame : Z) : list ((Z * Z) * (Z * Z)) :=
  match nfd_get (frame + 1) d with
  | None => []
  | Some next =>
      match nfd_get frame d with
      | None => []
      | Some prev =>
          flat_map (fun u => flat_map (fun v => if existsb (pair_eqb (u, v)) edges then [((u, v), val u v)] else []) next) prev
      end
  end.

Theorem gen_add_iou_eq : forall (g : cgraph) (fs : list (list Z)) (od : option nfdict),
  G.gen_add_iou g fs od =
  Ok (tt, add_ious g (add_iou (cg_edges g) fs (match od with Some d => d | None => compute_nfd (cg_nodes g) end))).
Proof.
  intros g fs od. unfold G.gen_add_iou.
  match goal with |- run (if _ then bind _ ?K else bind _ ?K) = _ =>
    assert (L : forall d', run (K d') = Ok (tt, add_ious g (add_iou (cg_edges g) fs d')))
  end.
  { intros d. cbv beta zeta. destruct (gen__get_iou_dict_eq fs) as (D & ED & HD). rewrite ED. cbn [bind].
    match goal with |- run (forM _ _ ?body ?k) = _ => set (B := body); set (Kt := k) end.
    set (edges := cg_edges g). set (val := fun u v => iou_get u v (get_iou_dict fs)).
    destruct (forM_fold (fun frame g' => add_ious g' (iou_step edges val d frame))
                        (fun g' => cg_edges g' = edges) B Kt (py_sorted (keys d)) g eq_refl) as [E _].
    - intros frame g' Hf Hg'. split; [|exact Hg'].
      rewrite py_sorted_sort, sort_In in Hf. apply (proj1 (nfd_get_key _ _)) in Hf.
      unfold B, iou_step. rewrite haskey_nfd_get.
      destruct (nfd_get (frame + 1) d) as [next|] eqn:En; cbn [negb]; [|now rewrite add_ious_nil].
      destruct (nfd_get frame d) as [prev|] eqn:Ep; [|congruence].
      unfold dict_get. rewrite !lookup_nfd_get, Ep, En. cbn [bind].
      match goal with |- forM _ _ ?body2 ?k2 = _ =>
        destruct (forM_fold (fun u g0 => add_ious g0 (flat_map (fun v => if existsb (pair_eqb (u, v)) edges then [((u, v), val u v)] else []) next))
                            (fun g0 => cg_edges g0 = edges) body2 k2 prev g' Hg') as [E2 _]
      end.
      + intros u g0 _ Hg0. split; [|exact Hg0].
        match goal with |- forM _ _ ?body3 ?k3 = _ =>
          destruct (forM_fold (fun v g1 => add_ious g1 (if existsb (pair_eqb (u, v)) edges then [((u, v), val u v)] else []))
                              (fun g1 => cg_edges g1 = edges) body3 k3 next g0 Hg0) as [E3 _]
        end.
        * intros v g1 _ Hg1. cbv zeta. rewrite HD. fold (val u v).
          pose proof (has_edge_existsb g1 u v) as Eb. rewrite Hg1 in Eb. rewrite <- Eb.
          destruct (nx_has_edge g1 u v) eqn:Eh.
          -- rewrite (set_edge_iou_ok _ _ _ _ Eh). cbn [bind]. split; [reflexivity|exact Hg1].
          -- split; [now rewrite add_ious_nil|exact Hg1].
        * rewrite E3, fold_add_ious. reflexivity.
      + rewrite E2, fold_add_ious. reflexivity.
    - rewrite E. unfold Kt. cbn [run]. rewrite fold_add_ious. unfold add_iou, iou_step, keys. cbv zeta.
      rewrite py_sorted_sort. reflexivity. }
  destruct od as [d|]; cbn [is_some negb as_some bind].
  - apply L.
  - rewrite gen__compute_node_frame_dict_eq. cbn [bind]. apply L.
Qed.
(* ------------------------------------------------------------------ *)
(* create_kdtree, add_cand_edges                                       *)
(* ------------------------------------------------------------------ *)
Section Tie.
Variables Dist KDTree : Type.
Variable scipy_KDTree : list (list Z) -> KDTree.
Variable kd_query_ball_tree : KDTree -> KDTree -> Dist -> list (list Z).

Notation gen_create_kdtree := (G.gen_create_kdtree KDTree scipy_KDTree).
Notation gen_add_cand_edges := (G.gen_add_cand_edges Dist KDTree scipy_KDTree kd_query_ball_tree).

Theorem gen_create_kdtree_eq : forall (g : cgraph) (ids : list Z),
  (forall u, In u ids -> In u (map n_id (cg_nodes g))) ->
  gen_create_kdtree g ids = Ok (scipy_KDTree (map (pos_of (cg_nodes g)) ids)).
Proof.
  intros g ids H. unfold G.gen_create_kdtree.
  rewrite (mapM_ok _ (pos_of (cg_nodes g))); [reflexivity|].
  intros u Hu. apply node_pos_ok, H, Hu.
Qed.

(* WHAT IS ASSUMED ABOUT scipy.  [close r p q] is any boolean relation between two positions
   ("q lies within distance r of p"); the executable model instantiates it with the exact test
   dist2 p q <=? d2max.  The one hypothesis: T1.query_ball_tree(T2, r), for trees built from the
   position lists ps and qs, returns for each point of ps, in order, the indices (ascending) of the
   points of qs that are close to it.  (scipy leaves the order inside each index list unspecified; it
   only affects the order of the add_edge log, and the harness compares edge sets.) *)
Variable close : Dist -> list Z -> list Z -> bool.
Definition ball_indices (r : Dist) (p : list Z) (qs : list (list Z)) : list Z :=
  map fst (filter (fun jq : Z * list Z => close r p (snd jq)) (py_enumerate qs)).
Hypothesis qbt_spec : forall ps qs r,
  kd_query_ball_tree (scipy_KDTree ps) (scipy_KDTree qs) r = map (fun p => ball_indices r p qs) ps.

(* the [near] relation of the hand model that this oracle induces on the node ids of a graph *)
Definition near_of (r : Dist) (nodes : graph) (u v : Z) : bool := close r (pos_of nodes u) (pos_of nodes v).

Lemma ball_indices_range r p qs j : In j (ball_indices r p qs) -> 0 <= j < Z.of_nat (length qs).
Proof.
  unfold ball_indices, py_enumerate. intros H. apply in_map_iff in H. destruct H as ([j' q] & <- & H).
  apply filter_In in H. destruct H as [H _]. apply enum_from_range in H. cbn [fst]. lia.
Qed.

(* next[j] for the matched indices j  =  the close nodes of next, in order *)
Lemma ball_filter (c : list Z -> bool) (pos : Z -> list Z) : forall next pre,
  map (fun j => nth (Z.to_nat j) (pre ++ next) 0)
      (map fst (filter (fun jq : Z * list Z => c (snd jq)) (enum_from (Z.of_nat (length pre)) (map pos next))))
  = filter (fun v => c (pos v)) next.
Proof.
  induction next as [|a r IH]; intros pre; cbn [map enum_from filter]; [reflexivity|].
  assert (E : enum_from (Z.of_nat (length pre) + 1) (map pos r) = enum_from (Z.of_nat (length (pre ++ [a]))) (map pos r)).
  { f_equal. rewrite app_length. cbn [length]. lia. }
  assert (E2 : pre ++ a :: r = (pre ++ [a]) ++ r) by (rewrite <- app_assoc; reflexivity).
  cbn [snd]. destruct (c (pos a)); cbn [map fst].
  - rewrite Nat2Z.id, nth_middle. f_equal. rewrite E, E2. apply IH.
  - rewrite E, E2. apply IH.
Qed.

Lemma ball_filter0 r p (pos : Z -> list Z) next :
  map (fun j => nth (Z.to_nat j) next 0) (ball_indices r p (map pos next)) = filter (fun v => close r p (pos v)) next.
Proof. exact (ball_filter (close r p) pos next []). Qed.

(* the model's per-frame edge list *)
Definition frame_step (near : Z -> Z -> bool) (d : nfdict) (frame : Z) : list (Z * Z) :=
  match nfd_get (frame + 1) d with
  | None => []
  | Some next => match nfd_get frame d with Some prev => frame_edges near prev next | None => [] end
  end.

Theorem gen_add_cand_edges_eq : forall (g : cgraph) (r : Dist) (od : option nfdict),
  let d := match od with Some d => d | None => [] end in
  ids_in d (cg_nodes g) ->
  gen_add_cand_edges g r od = Ok (tt, add_edges g (add_cand_edges (near_of r (cg_nodes g)) (cg_nodes g) d)).
Proof.
  intros g r od d Hd. unfold G.gen_add_cand_edges.
  match goal with |- run (if _ then bind _ ?K else bind _ ?K) = _ =>
    assert (L : forall d', ids_in d' (cg_nodes g) ->
              run (K d') = Ok (tt, add_edges g (add_cand_edges_nfd (near_of r (cg_nodes g)) d')))
  end.
  { clear od d Hd. intros d Hd. cbv beta zeta.
    match goal with |- run (forM _ _ ?body ?k) = _ => set (B := body); set (Kt := k) end.
    destruct (forM_fold (fun frame g' => add_edges g' (frame_step (near_of r (cg_nodes g)) d frame))
                        (fun g' => cg_nodes g' = cg_nodes g) B Kt (py_sorted (keys d)) g eq_refl) as [E _].
    - intros frame g' Hf Hg'. split; [|exact Hg'].
      rewrite py_sorted_sort, sort_In in Hf. apply (proj1 (nfd_get_key _ _)) in Hf.
      unfold B, frame_step. rewrite haskey_nfd_get.
      destruct (nfd_get (frame + 1) d) as [next|] eqn:En; cbn [negb]; [|now rewrite add_edges_nil].
      destruct (nfd_get frame d) as [prev|] eqn:Ep; [|congruence].
      unfold dict_get. rewrite !lookup_nfd_get, Ep, En. cbn [bind].
      rewrite !gen_create_kdtree_eq, Hg'.
      2:{ rewrite Hg'. intros u Hu. apply (Hd (frame + 1)). exists next. split; assumption. }
      2:{ rewrite Hg'. intros u Hu. apply (Hd frame). exists prev. split; assumption. }
      cbn [bind]. cbv zeta. rewrite qbt_spec. unfold py_zip.
      set (pos := pos_of (cg_nodes g)).
      rewrite map_map.
      match goal with |- forM _ _ ?body2 ?k2 = _ => 
        rewrite (forM_fold' (fun (ui : Z * list Z) g0 => add_edges g0 (map (fun j => (fst ui, nth (Z.to_nat j) next 0)) (snd ui))) body2 k2)
      end.
      + rewrite fold_add_edges. f_equal. f_equal. unfold frame_edges.
        clear. induction prev as [|u prev IH]; cbn [map combine flat_map]; [reflexivity|].
        rewrite IH. f_equal. cbn [fst snd].
        change (filter (near_of r (cg_nodes g) u) next) with (filter (fun v => close r (pos u) (pos v)) next).
        rewrite <- (ball_filter0 r (pos u) pos next), map_map. reflexivity.
      + intros [u idxs] g0 Hin. cbn [fst snd].
        assert (Hr : forall j, In j idxs -> 0 <= j < Z.of_nat (length next)).
        { apply in_combine_r in Hin. apply in_map_iff in Hin. destruct Hin as (u' & <- & _).
          intros j Hj. apply ball_indices_range in Hj. rewrite map_length in Hj. exact Hj. }
        match goal with |- forM _ _ ?body3 ?k3 = _ =>
          rewrite (forM_fold' (fun j g1 => add_edges g1 [(u, nth (Z.to_nat j) next 0)]) body3 k3)
        end.
        * rewrite fold_add_edges. cbv beta.
          assert (FS : forall l, flat_map (fun x => [(u, nth (Z.to_nat x) next 0)]) l = map (fun j => (u, nth (Z.to_nat j) next 0)) l)
            by (induction l as [|j l IH]; cbn [flat_map map app]; [reflexivity|now rewrite IH]).
          rewrite FS. reflexivity.
        * intros j g1 Hj. rewrite (list_get_ok 0) by (apply Hr; exact Hj). reflexivity.
    - rewrite E. unfold Kt. cbn [run]. rewrite fold_add_edges. unfold add_cand_edges_nfd, frame_step, keys.
      rewrite py_sorted_sort. reflexivity. }
  unfold add_cand_edges.
  destruct od as [[|kv d']|]; cbn [opt_falsy as_some bind] in *.
  - rewrite gen__compute_node_frame_dict_eq. cbn [bind]. apply L. apply nfd_spec_ids_in, compute_nfd_spec.
  - subst d. apply L. exact Hd.
  - rewrite gen__compute_node_frame_dict_eq. cbn [bind]. apply L. apply nfd_spec_ids_in, compute_nfd_spec.
Qed.


(* the two calls the C18 edge theorems are about need no hypothesis on the dict *)
Corollary gen_add_cand_edges_none_eq : forall (g : cgraph) (r : Dist),
  gen_add_cand_edges g r None = Ok (tt, add_edges g (add_cand_edges (near_of r (cg_nodes g)) (cg_nodes g) [])).
Proof. intros g r. apply (gen_add_cand_edges_eq g r None). intros t u H. destruct (dict_in_nil _ _ H). Qed.

Corollary gen_add_cand_edges_computed_eq : forall (g : cgraph) (r : Dist),
  gen_add_cand_edges g r (Some (compute_nfd (cg_nodes g)))
  = Ok (tt, add_edges g (add_cand_edges (near_of r (cg_nodes g)) (cg_nodes g) (compute_nfd (cg_nodes g)))).
Proof. intros g r. apply (gen_add_cand_edges_eq g r (Some (compute_nfd (cg_nodes g)))). apply nfd_spec_ids_in, compute_nfd_spec. Qed.

(* ------------------------------------------------------------------ *)
(* compute_graph_from_points_list                                      *)
(* ------------------------------------------------------------------ *)
Notation gen_compute_graph_from_points_list :=
  (G.gen_compute_graph_from_points_list Dist KDTree scipy_KDTree kd_query_ball_tree).

Theorem gen_compute_graph_from_points_list_eq : forall (pts : list (list Z)) (r : Dist) (sc : option (list Z)),
  gen_compute_graph_from_points_list pts r sc =
  match nodes_from_points_list sc pts with
  | Some (g, d) => Ok (add_edges (cg_of g) (add_cand_edges (near_of r g) g d))
  | None => Raise AssertionError
  end.
Proof.
  intros pts r sc. unfold G.gen_compute_graph_from_points_list.
  rewrite gen_nodes_from_points_list_eq.
  destruct (nodes_from_points_list sc pts) as [[g d]|] eqn:E; cbn [bind run]; [|reflexivity].
  assert (H : gen_add_cand_edges (cg_of g) r (@Some (dict (list Z)) d)
              = Ok (tt, add_edges (cg_of g) (add_cand_edges (near_of r g) g d))).
  { apply (gen_add_cand_edges_eq (cg_of g) r (Some d)). cbn [cg_of cg_nodes].
    apply nodes_from_points_spec in E. destruct E as (_ & _ & _ & ->).
    apply nfd_spec_ids_in, compute_nfd_spec. }
  rewrite H. reflexivity.
Qed.

(* ------------------------------------------------------------------ *)
(* nodes_from_segmentation, compute_graph_from_seg                     *)
(* ------------------------------------------------------------------ *)
(* WHAT IS ASSUMED ABOUT skimage.  regionprops(frame, spacing) is a list of opaque objects with a
   label, an area and a centroid.  Two hypotheses, the ones the hand model builds in:
   [rp_labels]  the labels of the regions are the positive values of the frame, ascending, once each;
   [rp_areas]   the area is the pixel count of the label (area in pixel units: with a spacing skimage
                multiplies by prod(spacing), the harness divides the stored value by it).
   Nothing is assumed about the centroid: the generated code stores it as the node position, the hand
   model erases it ([forget_pos]) and takes the [near] relation on labels as an oracle -- here it is
   the relation the KD-tree oracle induces on the stored centroids.  [np_ndim] (the number of axes of
   the array, not recorded by the flat-frame representation) only feeds the assert on len(scale). *)
Variable RegionProp : Type.
Variable skimage_regionprops : list Z -> list Z -> list RegionProp.
Variable rp_label rp_area : RegionProp -> Z.
Variable rp_centroid : RegionProp -> list Z.
Variable np_ndim : list (list Z) -> Z.
Hypothesis rp_labels : forall f sp, map rp_label (skimage_regionprops f sp) = frame_labels f.
Hypothesis rp_areas : forall f sp r, In r (skimage_regionprops f sp) -> rp_area r = count (rp_label r) f.

Notation gen_nodes_from_segmentation :=
  (G.gen_nodes_from_segmentation RegionProp skimage_regionprops rp_label rp_area rp_centroid np_ndim).
Notation gen_compute_graph_from_seg :=
  (G.gen_compute_graph_from_seg Dist KDTree RegionProp scipy_KDTree kd_query_ball_tree
     skimage_regionprops rp_label rp_area rp_centroid np_ndim).

(* the model's node builder with the centroid kept as the position *)
Definition node_c (t : Z) (r : RegionProp) : node := mk_node (rp_label r) t (rp_centroid r) (rp_area r).
Fixpoint add_frame_nodes_c (t : Z) (rs : list RegionProp) (g : graph) : option graph :=
  match rs with
  | [] => Some g
  | r :: rs' => if existsb (fun n => n_id n =? rp_label r) g then None
                else add_frame_nodes_c t rs' (g ++ [node_c t r])
  end.
Fixpoint seg_loop_c (sp : list Z) (t : Z) (fs : list (list Z)) (g : graph) (d : nfdict) : option (graph * nfdict) :=
  match fs with
  | [] => Some (g, d)
  | f :: r =>
      let rs := skimage_regionprops f sp in
      match add_frame_nodes_c t rs g with
      | None => None
      | Some g' => seg_loop_c sp (t + 1) r g' (match map rp_label rs with [] => d | labs => nfd_extend t labs d end)
      end
  end.
Definition nodes_from_segmentation_c (sp : list Z) (fs : list (list Z)) : option (graph * nfdict) :=
  seg_loop_c sp 0 fs [] [].

(* ... is the hand model once the positions are erased *)
Definition forget_pos (n : node) : node := mk_node (n_id n) (n_time n) [] (n_area n).
Definition forget (x : graph * nfdict) : graph * nfdict := (map forget_pos (fst x), snd x).

Lemma existsb_forget l g : existsb (fun n => n_id n =? l) (map forget_pos g) = existsb (fun n => n_id n =? l) g.
Proof. induction g as [|n g IH]; cbn [map existsb]; [reflexivity|]. now rewrite IH. Qed.

Lemma add_frame_nodes_forget t f : forall rs g,
  (forall r, In r rs -> rp_area r = count (rp_label r) f) ->
  option_map (map forget_pos) (add_frame_nodes_c t rs g) = add_frame_nodes t f (map rp_label rs) (map forget_pos g).
Proof.
  induction rs as [|r rs IH]; intros g Ha; cbn [add_frame_nodes_c add_frame_nodes map option_map]; [reflexivity|].
  rewrite existsb_forget. destruct (existsb _ g); [reflexivity|].
  rewrite IH by (intros r' Hr'; apply Ha; right; exact Hr').
  rewrite map_app. cbn [map]. unfold forget_pos at 2, node_c, mk_seg_node. cbn.
  rewrite (Ha r (or_introl eq_refl)). reflexivity.
Qed.

Theorem nodes_from_segmentation_c_forget : forall sp fs,
  option_map forget (nodes_from_segmentation_c sp fs) = nodes_from_segmentation fs.
Proof.
  intros sp fs. unfold nodes_from_segmentation_c, nodes_from_segmentation.
  change (@nil node) with (map forget_pos []) at 2.
  generalize (@nil node) at 1 2. generalize (@nil (Z * list Z)). generalize 0.
  induction fs as [|f r IH]; intros t d g; cbn [seg_loop_c seg_loop]; [reflexivity|].
  pose proof (add_frame_nodes_forget t f (skimage_regionprops f sp) g (rp_areas f sp)) as E.
  rewrite rp_labels in *. rewrite <- E.
  destruct (add_frame_nodes_c t (skimage_regionprops f sp) g) as [g'|]; cbn [option_map]; [|reflexivity].
  rewrite IH. destruct (frame_labels f); reflexivity.
Qed.

(* the frame loop: any body that adds the regions of frame t and files their labels under t *)
Lemma seg_frame_tie (t : Z) (body : RegionProp -> cgraph * list Z -> ctl (cgraph * list Z) (cgraph * nfdict))
      {S'} (k : cgraph * list Z -> ctl S' (cgraph * nfdict)) :
  (forall r g nif, body r (cg_of g, nif) =
     if existsb (fun n => n_id n =? rp_label r) g then Exn ValueError
     else Cont (cg_of (g ++ [node_c t r]), nif ++ [rp_label r])) ->
  forall rs g nif,
    forM rs (cg_of g, nif) body k =
    match add_frame_nodes_c t rs g with
    | None => Exn ValueError
    | Some g' => k (cg_of g', nif ++ map rp_label rs)
    end.
Proof.
  intros Hb. induction rs as [|r rs IH]; intros g nif; cbn [forM add_frame_nodes_c map].
  - now rewrite app_nil_r.
  - rewrite Hb. destruct (existsb _ g); [reflexivity|]. rewrite IH, <- app_assoc. reflexivity.
Qed.

Lemma has_node_existsb g l : nx_has_node (cg_of g) l = existsb (fun n => n_id n =? l) g.
Proof. reflexivity. Qed.

(* the spacing handed to regionprops *)
Definition spacing_of (sc : option (list Z)) (fs : list (list Z)) : list Z :=
  py_from1 (match sc with Some s => s | None => py_list_repeat [1] (np_ndim fs) end).
(* the assert on the scale passes *)
Definition scale_ok (sc : option (list Z)) (fs : list (list Z)) : Prop :=
  match sc with Some s => py_len s = np_ndim fs | None => True end.

Theorem gen_nodes_from_segmentation_eq : forall (fs : list (list Z)) (sc : option (list Z)),
  scale_ok sc fs ->
  gen_nodes_from_segmentation fs sc =
  match nodes_from_segmentation_c (spacing_of sc fs) fs with
  | Some (g, d) => Ok (cg_of g, d)
  | None => Raise ValueError
  end.
Proof.
  intros fs sc Hsc. unfold G.gen_nodes_from_segmentation. cbv zeta.
  assert (Hloop : forall sp (body : Z -> cgraph * nfdict -> ctl (cgraph * nfdict) (cgraph * nfdict)) k,
            (forall t g d, body t (cg_of g, d) =
               match add_frame_nodes_c t (skimage_regionprops (np_getitem fs t) sp) g with
               | None => Exn ValueError
               | Some g' => Cont (cg_of g', match map rp_label (skimage_regionprops (np_getitem fs t) sp) with
                                           | [] => d | labs => nfd_extend t labs d end)
               end) ->
            (forall s, k s = Ret s) ->
            run (forM (py_range (py_len fs)) (nx_DiGraph, []) body k)
            = match nodes_from_segmentation_c sp fs with Some (g, d) => Ok (cg_of g, d) | None => Raise ValueError end).
  { intros sp body k Hb Hk. unfold nodes_from_segmentation_c, py_range, py_len. rewrite Nat2Z.id.
    change nx_DiGraph with (cg_of []).
    assert (Hgen : forall rest pre g d, fs = pre ++ rest ->
              run (forM (map Z.of_nat (seq (length pre) (length rest))) (cg_of g, d) body k)
              = match seg_loop_c sp (Z.of_nat (length pre)) rest g d with
                | Some (g', d') => Ok (cg_of g', d') | None => Raise ValueError end).
    { induction rest as [|f rest IH]; intros pre g d Efs; cbn [length seq map forM seg_loop_c].
      - rewrite Hk. reflexivity.
      - rewrite Hb. unfold np_getitem. rewrite Nat2Z.id, Efs, nth_middle.
        destruct (add_frame_nodes_c _ (skimage_regionprops f sp) g) as [g'|]; [|reflexivity].
        replace (S (length pre)) with (length (pre ++ [f])) by (rewrite app_length; cbn [length]; lia).
        replace (Z.of_nat (length pre) + 1) with (Z.of_nat (length (pre ++ [f]))) by (rewrite app_length; cbn [length]; lia).
        apply IH. rewrite Efs, <- app_assoc. reflexivity. }
    exact (Hgen fs [] [] [] eq_refl). }
  assert (Hbody : forall sp t g (d : nfdict),
    forM (skimage_regionprops (np_getitem fs t) sp) (cg_of g, @nil Z)
      (fun v_regionprop '(v_cand_graph, v_nodes_in_frame) =>
         if nx_has_node v_cand_graph (rp_label v_regionprop) then Exn ValueError
         else Cont (nx_add_node v_cand_graph (rp_label v_regionprop)
                      (attrs_set_pos (rp_centroid v_regionprop)
                         (attrs_set_seg_id (rp_label v_regionprop)
                            (attrs_set_area (rp_area v_regionprop) (attrs_set_time t attrs_empty)))),
                    v_nodes_in_frame ++ [rp_label v_regionprop]))
      (fun '(v_cand_graph, v_nodes_in_frame) =>
         if negb (is_nil v_nodes_in_frame) then
           bind (dict_get t (if negb (haskey t d) then set t [] d else d))
             (fun t2 => @Cont _ (cgraph * nfdict) (v_cand_graph, set t (t2 ++ v_nodes_in_frame) (if negb (haskey t d) then set t [] d else d)))
         else Cont (v_cand_graph, d))
    = match add_frame_nodes_c t (skimage_regionprops (np_getitem fs t) sp) g with
      | None => Exn ValueError
      | Some g' => Cont (cg_of g', match map rp_label (skimage_regionprops (np_getitem fs t) sp) with
                                  | [] => d | labs => nfd_extend t labs d end)
      end).
  { intros sp t g d. rewrite (seg_frame_tie t).
    - destruct (add_frame_nodes_c t _ g) as [g'|]; [|reflexivity]. cbn [app].
      destruct (map rp_label (skimage_regionprops (np_getitem fs t) sp)) as [|l ls]; cbn [is_nil negb]; [reflexivity|].
      rewrite ensure_get. cbn [bind]. rewrite ensure_set. reflexivity.
    - intros r g0 nif. rewrite has_node_existsb. destruct (existsb _ g0) eqn:E; [reflexivity|].
      unfold nx_add_node. rewrite has_node_existsb, E. reflexivity. }
  unfold scale_ok, spacing_of in *. destruct sc as [s|]; cbn [is_some negb as_some bind].
  - rewrite Hsc, Z.eqb_refl.
    apply Hloop; [|intros [? ?]; reflexivity]. intros t g d. cbv zeta. apply Hbody.
  - apply Hloop; [|intros [? ?]; reflexivity]. intros t g d. cbv zeta. apply Hbody.
Qed.

Theorem gen_nodes_from_segmentation_scale_error : forall fs s,
  py_len s <> np_ndim fs -> gen_nodes_from_segmentation fs (Some s) = Raise AssertionError.
Proof.
  intros fs s H. unfold G.gen_nodes_from_segmentation. cbv zeta. cbn [is_some negb as_some bind].
  apply Z.eqb_neq in H. rewrite H. reflexivity.
Qed.

(* compute_graph_from_seg *)
Lemma compute_nfd_forget g : compute_nfd (map forget_pos g) = compute_nfd g.
Proof.
  unfold compute_nfd. generalize (@nil (Z * list Z)). induction g as [|n g IH]; intros d; cbn [map fold_left]; [reflexivity|].
  apply IH.
Qed.
Lemma add_cand_edges_forget near g d : add_cand_edges near (map forget_pos g) d = add_cand_edges near g d.
Proof. unfold add_cand_edges. now rewrite compute_nfd_forget. Qed.

Theorem gen_compute_graph_from_seg_eq : forall (fs : list (list Z)) (r : Dist) (iou : bool) (sc : option (list Z)),
  scale_ok sc fs ->
  match nodes_from_segmentation_c (spacing_of sc fs) fs with
  | None => gen_compute_graph_from_seg fs r iou sc = Raise ValueError /\
            forall near, compute_graph_from_seg near iou fs = None
  | Some (g, d) =>
      let e := add_cand_edges (near_of r g) g d in
      let x := if iou then add_iou e fs d else [] in
      gen_compute_graph_from_seg fs r iou sc = Ok {| cg_nodes := g; cg_edges := e; cg_iou := x |} /\
      compute_graph_from_seg (near_of r g) iou fs = Some (map forget_pos g, e, x)
  end.
Proof.
  intros fs r iou sc Hsc. unfold G.gen_compute_graph_from_seg, compute_graph_from_seg.
  rewrite (gen_nodes_from_segmentation_eq fs sc Hsc), <- (nodes_from_segmentation_c_forget (spacing_of sc fs) fs).
  destruct (nodes_from_segmentation_c (spacing_of sc fs) fs) as [[g d]|] eqn:E; cbn [option_map forget fst snd bind run].
  2:{ split; [reflexivity|intros; reflexivity]. }
  cbv zeta. rewrite add_cand_edges_forget. split; [|reflexivity].
  assert (Hids : ids_in d g).
  { pose proof (nodes_from_segmentation_c_forget (spacing_of sc fs) fs) as F. rewrite E in F. cbn [option_map forget fst snd] in F.
    symmetry in F. apply nodes_from_seg_spec in F. destruct F as (_ & _ & F).
    intros t u H. apply F in H. destruct H as (n & Hn & <- & _).
    apply in_map_iff in Hn. destruct Hn as (n' & <- & Hn'). apply in_map_iff. exists n'. split; [reflexivity|exact Hn']. }
  assert (H : gen_add_cand_edges (cg_of g) r (@Some (dict (list Z)) d)
              = Ok (tt, add_edges (cg_of g) (add_cand_edges (near_of r g) g d)))
    by (apply (gen_add_cand_edges_eq (cg_of g) r (Some d)); exact Hids).
  rewrite H. cbn [bind]. destruct iou.
  - pose proof (gen_add_iou_eq (add_edges (cg_of g) (add_cand_edges (near_of r g) g d)) fs (Some d)) as H2.
    cbn [add_edges cg_of cg_edges app] in H2.
    match type of H2 with ?lhs = _ => match goal with |- context [bind ?x _] => change x with lhs end end.
    rewrite H2. reflexivity.
  - reflexivity.
Qed.

End Tie.

(* ------------------------------------------------------------------ *)
(* the executable instance of the hand model: exact squared distances  *)
(* ------------------------------------------------------------------ *)
(* max_edge_distance is the integer d2max = floor(r^2) and "close" is dist2 p q <= d2max, the test the
   extracted model runs and the harness checks against scipy on every case *)
Definition close_exact (d2max : Z) (p q : list Z) : bool := dist2 p q <=? d2max.

Section Exact.
Variable KDTree : Type.
Variable scipy_KDTree : list (list Z) -> KDTree.
Variable kd_query_ball_tree : KDTree -> KDTree -> Z -> list (list Z).
Hypothesis qbt_exact : forall ps qs r,
  kd_query_ball_tree (scipy_KDTree ps) (scipy_KDTree qs) r = map (fun p => ball_indices Z close_exact r p qs) ps.

Theorem gen_compute_graph_from_points_list_exact : forall (pts : list (list Z)) (d2max : Z) (sc : option (list Z)),
  G.gen_compute_graph_from_points_list Z KDTree scipy_KDTree kd_query_ball_tree pts d2max sc =
  match compute_graph_from_points_list d2max sc pts with
  | Some (g, e) => Ok {| cg_nodes := g; cg_edges := e; cg_iou := [] |}
  | None => Raise AssertionError
  end.
Proof.
  intros pts d2max sc.
  rewrite (gen_compute_graph_from_points_list_eq Z KDTree scipy_KDTree kd_query_ball_tree close_exact qbt_exact).
  unfold compute_graph_from_points_list. destruct (nodes_from_points_list sc pts) as [[g d]|]; reflexivity.
Qed.

Theorem gen_add_cand_edges_graph_exact : forall (g : cgraph) (d2max : Z),
  G.gen_add_cand_edges Z KDTree scipy_KDTree kd_query_ball_tree g d2max None =
  Ok (tt, add_edges g (add_cand_edges_graph d2max (cg_nodes g))).
Proof.
  intros g d2max.
  exact (gen_add_cand_edges_none_eq Z KDTree scipy_KDTree kd_query_ball_tree close_exact qbt_exact g d2max).
Qed.
End Exact.


(* ------------------------------------------------------------------ *)
(* the hypotheses are satisfiable; the generated code runs             *)
(* ------------------------------------------------------------------ *)
(* a KD-tree that is just its position list, queried by the exact test; regions = (label, pixel count,
   centroid []) of the positive labels in ascending order *)
Definition toy_qbt (ps qs : list (list Z)) (r : Z) : list (list Z) := map (fun p => ball_indices Z close_exact r p qs) ps.
Definition toy_regionprops (f sp : list Z) : list (Z * Z * list Z) := map (fun l => (l, count l f, @nil Z)) (frame_labels f).

Lemma toy_qbt_spec : forall ps qs r, toy_qbt ((fun x => x) ps) ((fun x => x) qs) r = map (fun p => ball_indices Z close_exact r p qs) ps.
Proof. reflexivity. Qed.
Lemma toy_rp_labels : forall f sp, map (fun r : Z * Z * list Z => fst (fst r)) (toy_regionprops f sp) = frame_labels f.
Proof. intros f sp. unfold toy_regionprops. rewrite map_map. cbn [fst]. apply map_id. Qed.
Lemma toy_rp_areas : forall f sp r, In r (toy_regionprops f sp) -> snd (fst r) = count (fst (fst r)) f.
Proof. intros f sp r H. apply in_map_iff in H. destruct H as (l & <- & _). reflexivity. Qed.

(* finding F-18a: points at t = 0, 1, 3, 4 at one place -- edges only 0->1 and 2->3 (node ids) *)
Example gen_points_gap_example :
  G.gen_compute_graph_from_points_list Z (list (list Z)) (fun x => x) toy_qbt [[0;0;0]; [1;0;0]; [3;0;0]; [4;0;0]] 25 None
  = Ok {| cg_nodes := [mk_node 0 0 [0;0] 0; mk_node 1 1 [0;0] 0; mk_node 2 3 [0;0] 0; mk_node 3 4 [0;0] 0];
          cg_edges := [(0, 1); (2, 3)]; cg_iou := [] |}.
Proof. vm_compute. reflexivity. Qed.

(* a scale of the wrong length: AssertionError *)
Example gen_points_scale_example :
  G.gen_compute_graph_from_points_list Z (list (list Z)) (fun x => x) toy_qbt [[0;0;0]] 25 (Some [1;1]) = Raise AssertionError.
Proof. vm_compute. reflexivity. Qed.

(* the label array of C18_seg_example (an empty frame), with IoU; a label in two frames: ValueError *)
Example gen_seg_example :
  G.gen_compute_graph_from_seg Z (list (list Z)) (Z * Z * list Z) (fun x => x) toy_qbt toy_regionprops
     (fun r => fst (fst r)) (fun r => snd (fst r)) (fun r => snd r) (fun _ => 3)
     [[5;5;0;0]; [0;3;3;6]; [0;0;0;0]; [0;7;0;0]] 0 true None
  = Ok {| cg_nodes := [mk_node 5 0 [] 2; mk_node 3 1 [] 2; mk_node 6 1 [] 1; mk_node 7 3 [] 1];
          cg_edges := [(5, 3); (5, 6)];
          cg_iou := [((5, 3), (1, 3)); ((5, 6), (0, 1))] |}
  /\ G.gen_nodes_from_segmentation (Z * Z * list Z) toy_regionprops (fun r => fst (fst r)) (fun r => snd (fst r)) (fun r => snd r)
       (fun _ => 3) [[5;0]; [0;0]; [0;5]] None = Raise ValueError.
Proof. vm_compute. split; reflexivity. Qed.

(* numpy's column order against the model's: (2,9) before (7,1) here, the model lists (7,1) first *)
Example gen_ious_order_example :
  G.gen__compute_ious [7;2;2] [1;9;9] = Ok [((2, 9), (2, 2)); ((7, 1), (1, 1))] /\
  compute_ious [7;2;2] [1;9;9] = [((7, 1), (1, 1)); ((2, 9), (2, 2))].
Proof. vm_compute. split; reflexivity. Qed.
Print Assumptions gen__compute_node_frame_dict_eq.
Print Assumptions gen_create_kdtree_eq.
Print Assumptions gen_add_cand_edges_eq.
Print Assumptions gen_add_cand_edges_none_eq.
Print Assumptions gen_add_cand_edges_computed_eq.
Print Assumptions gen_nodes_from_points_list_eq.
Print Assumptions gen_compute_graph_from_points_list_eq.
Print Assumptions gen_compute_graph_from_points_list_exact.
Print Assumptions gen_add_cand_edges_graph_exact.
Print Assumptions gen__compute_ious_eq.
Print Assumptions compute_ious_sorted_perm.
Print Assumptions gen__compute_ious_In.
Print Assumptions gen__get_iou_dict_eq.
Print Assumptions gen_add_iou_eq.
Print Assumptions nodes_from_segmentation_c_forget.
Print Assumptions gen_nodes_from_segmentation_eq.
Print Assumptions gen_nodes_from_segmentation_scale_error.
Print Assumptions gen_compute_graph_from_seg_eq.
