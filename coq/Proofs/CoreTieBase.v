(* Small facts about dicts, the lookups and the res monad shared by the core ties (Proofs/CoreTie*.v).
   No generated file is imported here. *)
From Coq Require Import ZArith List Bool Lia Arith.
From FT Require Import Base.Dict Model.Edit Model.PyRt Model.PyRt3.
Import ListNotations.
Open Scope Z_scope.

(* ================================================================== *)
(* 0. small facts                                                      *)
(* ================================================================== *)
Lemma len_eq0 : forall A (l : list A), (Z.of_nat (length l) =? 0) = match l with [] => true | _ => false end.
Proof. destruct l; reflexivity. Qed.

Lemma set_set_eq {V} k (v v' : V) d : set k v (set k v' d) = set k v d.
Proof.
  induction d as [|[k' w] r IH]; cbn; [now rewrite Z.eqb_refl|].
  destruct (k =? k') eqn:E; cbn; rewrite ?Z.eqb_refl, ?E; [reflexivity|now rewrite IH].
Qed.
Lemma set_same {V} k (v : V) d : lookup k d = Some v -> set k v d = d.
Proof.
  induction d as [|[k' w] r IH]; cbn; [discriminate|].
  destruct (k =? k') eqn:E; intros H.
  - apply Z.eqb_eq in E. subst k'. now inversion H.
  - now rewrite IH.
Qed.
Lemma del_set_eq {V} k (v : V) d : del k (set k v d) = del k d.
Proof.
  induction d as [|[k' w] r IH]; cbn; [now rewrite Z.eqb_refl|].
  destruct (k =? k') eqn:E; cbn; rewrite ?Z.eqb_refl, ?E; [reflexivity|now rewrite IH].
Qed.

(* record eta for the lookups: writing back what is there changes nothing *)
Lemma set_trk_book_same st : set_trk_book st (trk_book (bk st)) = st.
Proof. destruct st as [g0 sg f [tb lb mt ml] u r lg c]. reflexivity. Qed.
Lemma set_lin_book_same st : set_lin_book st (lin_book (bk st)) = st.
Proof. destruct st as [g0 sg f [tb lb mt ml] u r lg c]. reflexivity. Qed.
Lemma upd_bk_same st : upd_bk st (bk st) = st.
Proof. destruct st as [g0 sg f b u r lg c]. reflexivity. Qed.
Lemma books_eta (b : books) : {| trk_book := trk_book b; lin_book := lin_book b; max_trk := max_trk b; max_lin := max_lin b |} = b.
Proof. destruct b. reflexivity. Qed.

Lemma zattr_has_node st n k z : zattr st n k = Some z -> has_node st n = true.
Proof.
  unfold zattr, attr, node_attrs, getd, has_node, haskey. destruct (lookup n (nodes (g st))); [reflexivity|discriminate].
Qed.
