(* TRANSLATION FAILED: line 32: statement: While(test=Attribute(value=Name(id='self', ctx=Load()), attr='redo_stack', ctx=Load()), body=[Expr(value=Call(func=Attri *)
Definition translation_failed : False := I.
