(* Insertion-ordered association lists: the faithful model of Python dicts (and of the
   networkx adjacency dicts), with total operations. *)
From Coq Require Import ZArith List Bool.
Import ListNotations.
Open Scope Z_scope.

Definition dict (V : Type) := list (Z * V).

Fixpoint lookup {V} (k : Z) (d : dict V) : option V :=
  match d with [] => None | (k', v) :: r => if Z.eqb k k' then Some v else lookup k r end.
(* d[k] = v : overwrite in place, or append *)
Fixpoint set {V} (k : Z) (v : V) (d : dict V) : dict V :=
  match d with
  | [] => [(k, v)]
  | (k', v') :: r => if Z.eqb k k' then (k, v) :: r else (k', v') :: set k v r
  end.
(* del d[k] (all entries with that key; dicts never hold two) *)
Fixpoint del {V} (k : Z) (d : dict V) : dict V :=
  match d with [] => [] | (k', v') :: r => if Z.eqb k k' then del k r else (k', v') :: del k r end.
Definition keys {V} (d : dict V) : list Z := map fst d.
Definition haskey {V} (k : Z) (d : dict V) : bool := match lookup k d with Some _ => true | None => false end.
Definition getd {V} (k : Z) (d : dict V) (dflt : V) : V := match lookup k d with Some v => v | None => dflt end.
(* d.update(e) *)
Definition update {V} (d e : dict V) : dict V := fold_left (fun acc kv => set (fst kv) (snd kv) acc) e d.

Definition memz (x : Z) (l : list Z) : bool := existsb (Z.eqb x) l.
(* list.remove(x): first occurrence *)
Fixpoint remove1 (x : Z) (l : list Z) : list Z :=
  match l with [] => [] | y :: r => if Z.eqb x y then r else y :: remove1 x r end.
Definition count (x : Z) (l : list Z) : Z := Z.of_nat (length (filter (Z.eqb x) l)).
