(* Python / networkx runtime combinators used by the generated shallow embedding Gen/Ctor_gen.v
   (written by harness/translate_ctor.py from annotators/_track_annotator.py and data_model/tracks.py:
   the construction of a Tracks object over a graph that may already carry managed features).
   Hand-written, small, trusted together with the translator's idiom table: each definition names the
   Python construct it stands for.  Everything else the generated file uses is reused:
     Model/PyRt.v   py_for, py_next (next(iter(l)); StopIteration reads EKey), key_is_none
     Model/PyRt3.v  py_node_attr_get_z (tracks.get_node_attr(n, k) for an id: ids are read as integers,
                    KeyError for a missing node), set_trk_book / set_lin_book / set_max_trk / set_max_lin
                    (the four bookkeeping fields of the TrackAnnotator = the record [bk])
     Model/PyRt4.v  features_of / put_features, py_dict_get, py_set
     Model/PyRt8.v  tracks_nodes (tracks.nodes()), dd_new / dd_append (collections.defaultdict(list)) *)
From Coq Require Import ZArith List Bool.
From FT Require Import Base.Dict Model.Edit.
Import ListNotations.
Open Scope Z_scope.

(* graph.number_of_nodes() *)
Definition nx_number_of_nodes (s : state) : Z := Z.of_nat (length (nodes (g s))).
(* graph.nodes()  (iteration: the node ids in insertion order) *)
Definition nx_nodes (s : state) : list Z := keys (nodes (g s)).
(* graph.nodes[n]: the attribute dict of node n; KeyError when n is not in the graph.  No idiom of the
   table writes through the value, so a local name bound to it stays equal to it. *)
Definition nx_node_view (s : state) (n : Z) : res attrs :=
  if has_node s n then Ok (node_attrs s n) s else Err EKey s.
