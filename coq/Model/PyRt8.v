(* Python / numpy / networkx runtime combinators used by the generated shallow embedding
     Gen/Annotators_gen.v   (harness/translate_annotators.py, from annotators/_edge_annotator.py,
                             annotators/_regionprops_annotator.py, annotators/_compute_ious.py)
   Hand-written, small, and TRUSTED together with the translator's idiom table: every definition names the
   Python construct it stands for and, where the hand model of Model/Edit.v / Model/Toggle.v takes a numpy /
   networkx / skimage operation as a primitive, IS that primitive (frame_of, time_of, predecessors, successors,
   set_edge_attr, set_node_attr; labels_of and mask_of enter through the oracle hypotheses of
   Proofs/AnnotatorsTie.v).  Everything effectful lives in the [res] monad of Model/Edit.v (an exception is an
   [Err] carrying the state at the raise).

   OBJECT REPRESENTATION
   * `self` of an EdgeAnnotator / a RegionpropsAnnotator: its identity [AEdge] / [ARp] (Model/PyRt4.v);
     `self.tracks` is the state s; `self.features` and `self._filter_feature_keys` are the definitions translated
     from GraphAnnotator (Gen/Toggle_gen.v).  `self.iou_key` is the interned constant [KIou].
   * `tracks.segmentation`: [seg s : option (list (list Z))] -- None, or the T flat frames.  No idiom of the
     table writes the array, so a local name bound to it stays equal to it.
   * an action (`action: BasicAction`): a value of Model/Edit.v's [basic]; its class is [class_of].
   * `_compute_ious` lives in the exception monad of Model/PyRt5.v (the one the candidate-graph translator
     uses for the textually identical function of candidate_graph/iou.py); [lift_exn] brings a result into [res].
   * an IoU value: the exact pair (intersection, union) [frac]; stored as [VIou i u]; the int 0 is 0 / 1.
   * collections.defaultdict(list): a [dict (list A)].
   * tracks.scale, the regions of regionprops_extended and their attributes are Section variables of the
     generated file: nothing is assumed about them there. *)
From Coq Require Import ZArith List Bool.
From FT Require Import Base.Dict Model.Edit Model.PyRt Model.PyRt3 Model.PyRt4.
From FT Require Model.PyRt5.
Import ListNotations.
Open Scope Z_scope.

(* ---------- exceptions of the pure fragment ---------- *)
(* TypeError / AssertionError have no code in [err]: EKey / EValue stand in (as in Model/PyRt.v, PyRt3.v) *)
Definition err_of_exn (e : PyRt5.exn) : err :=
  match e with
  | PyRt5.KeyError => EKey | PyRt5.ValueError => EValue | PyRt5.IndexError => EIndex
  | PyRt5.TypeError => EKey | PyRt5.AssertionError => EValue
  end.
(* the value of a call of a function translated into the PyRt5 monad (it does not touch the state) *)
Definition lift_exn {A : Type} (r : PyRt5.res A) (s : state) : res A :=
  match r with PyRt5.Ok a => Ok a s | PyRt5.Raise e => Err (err_of_exn e) s end.

(* ---------- actions ---------- *)
Inductive acls := CAddNode | CDeleteNode | CAddEdge | CDeleteEdge | CUpdateNodeAttrs | CUpdateNodeSeg | CUpdateTrackIDs.
Definition class_of (b : basic) : acls :=
  match b with
  | BAddNode _ _ _ => CAddNode | BDelNode _ _ _ => CDeleteNode | BAddEdge _ _ _ => CAddEdge | BDelEdge _ _ _ => CDeleteEdge
  | BUpdAttrs _ _ _ => CUpdateNodeAttrs | BUpdSeg _ _ _ => CUpdateNodeSeg | BUpdTrack _ _ _ _ _ => CUpdateTrackIDs
  end.
Definition acls_eqb (a b : acls) : bool :=
  match a, b with
  | CAddNode, CAddNode | CDeleteNode, CDeleteNode | CAddEdge, CAddEdge | CDeleteEdge, CDeleteEdge
  | CUpdateNodeAttrs, CUpdateNodeAttrs | CUpdateNodeSeg, CUpdateNodeSeg | CUpdateTrackIDs, CUpdateTrackIDs => true
  | _, _ => false
  end.
(* isinstance(action, C) / isinstance(action, (C1, .., Cn)): the seven classes do not inherit from one another *)
Definition py_isinstance (b : basic) (cs : list acls) : bool := existsb (acls_eqb (class_of b)) cs.
(* action.node: AttributeError for a class without that field (no code in [err]: EValue stands in) *)
Definition py_action_node (b : basic) (s : state) : res Z :=
  match b with
  | BAddNode n _ _ | BDelNode n _ _ | BUpdAttrs n _ _ | BUpdSeg n _ _ => Ok n s
  | _ => Err EValue s
  end.
(* action.edge *)
Definition py_action_edge (b : basic) (s : state) : res (Z * Z) :=
  match b with
  | BAddEdge u v _ | BDelEdge u v _ => Ok (u, v) s
  | _ => Err EValue s
  end.

(* ---------- the label array ---------- *)
(* a.shape[0]; on None: AttributeError / TypeError (EKey stands in, as PyRt.py_seg_index) *)
Definition py_arr_shape0 (a : option (list (list Z))) (s : state) : res Z :=
  match a with Some sg => Ok (Z.of_nat (length sg)) s | None => Err EKey s end.
(* a[t], t an int: frame t = Model/Edit.v's [frame_of] (an index outside 0 .. T-1 reads the empty frame: numpy's
   IndexError and negative indices are outside the domain -- the convention of Model/NpRt.v) *)
Definition py_arr_getitem (a : option (list (list Z))) (t : Z) (s : state) : res (list Z) :=
  match a with Some sg => Ok (frame_of sg t) s | None => Err EKey s end.
(* f == x on one frame *)
Definition np_eq_mask (f : list Z) (x : Z) : list bool := map (fun y => y =? x) f.
(* np.where(m, a, b), m a boolean array, a and b scalars *)
Definition np_where (m : list bool) (a b : Z) : list Z := map (fun c : bool => if c then a else b) m.
(* np.max(f): the largest entry (signed); numpy raises ValueError for a zero-size array, which reads 0 here *)
Definition np_max (f : list Z) : Z := match f with [] => 0 | x :: r => fold_left Z.max r x end.

(* ---------- graph ---------- *)
(* tracks.nodes() = np.array(graph.nodes()): the node ids in insertion order *)
Definition tracks_nodes (s : state) : list Z := keys (nodes (g s)).
(* tracks.get_time(n) = int(graph.nodes[n][time_key]): KeyError for a node that is not in the graph; the value
   is the model's [time_of] (a node without a time attribute reads 0: that KeyError is not modelled) *)
Definition py_get_time (s : state) (n : Z) : res Z := if has_node s n then Ok (time_of s n) s else Err EKey s.
(* list(graph.in_edges(n)) / list(graph.out_edges(n)), n ONE node: NetworkXError when it is not in the graph;
   the model's [predecessors] / [successors] *)
Definition nx_in_edges (s : state) (n : Z) : res (list (Z * Z)) :=
  if has_node s n then Ok (map (fun p => (p, n)) (predecessors s n)) s else Err ENetworkX s.
Definition nx_out_edges (s : state) (n : Z) : res (list (Z * Z)) :=
  if has_node s n then Ok (map (fun c => (n, c)) (successors s n)) s else Err ENetworkX s.
(* graph.out_edges(l), l a LIST of ids (an nbunch): ids that are not nodes are skipped, a repeated id counts once *)
Definition dedup_first (l : list Z) : list Z := fold_left (fun acc x => if memz x acc then acc else acc ++ [x]) l [].
Definition nx_out_edges_bunch (s : state) (l : list Z) : list (Z * Z) :=
  flat_map (fun u => map (fun v => (u, v)) (successors s u)) (dedup_first (filter (has_node s) l)).
(* n in tracks.graph *)
Definition nx_contains (s : state) (n : Z) : bool := has_node s n.
(* tracks._set_edge_attr(e, k, v) = graph.edges[e][k] = v: KeyError for a missing edge *)
Definition py_set_edge_attr (s : state) (e : Z * Z) (k : Z) (v : value) : res unit :=
  if has_edge s (fst e) (snd e) then Ok tt (set_edge_attr s (fst e) (snd e) k v) else Err EKey s.

(* ---------- lists of edges ---------- *)
Definition pair_eqb (a b : Z * Z) : bool := (fst a =? fst b) && (snd a =? snd b).
(* e in l *)
Definition mem_pair (e : Z * Z) (l : list (Z * Z)) : bool := existsb (pair_eqb e) l.
(* l.remove(e): first occurrence; ValueError when absent *)
Fixpoint remove1_pair (e : Z * Z) (l : list (Z * Z)) : list (Z * Z) :=
  match l with [] => [] | y :: r => if pair_eqb e y then r else y :: remove1_pair e r end.
Definition py_pairs_remove (l : list (Z * Z)) (e : Z * Z) (s : state) : res (list (Z * Z)) :=
  if mem_pair e l then Ok (remove1_pair e l) s else Err EValue s.
(* l[i]: IndexError; negative i counts from the end (PyRt5.list_get) *)
Definition py_list_get {A : Type} (l : list A) (i : Z) (s : state) : res A := lift_exn (PyRt5.list_get l i) s.
(* len(l) *)
Definition py_len {A : Type} (l : list A) : Z := Z.of_nat (length l).

(* ---------- IoU values ---------- *)
Definition frac := (Z * Z)%type.
(* an int literal where a quotient is expected *)
Definition frac_of_int (n : Z) : frac := (n, 1).
(* the value stored on the edge *)
Definition val_of_frac (q : frac) : value := VIou (fst q) (snd q).

(* ---------- collections.defaultdict(list) ---------- *)
Definition dd_new {A : Type} : dict (list A) := [].
(* D[k].append(x) *)
Definition dd_append {A : Type} (k : Z) (x : A) (d : dict (list A)) : dict (list A) := set k (getd k d [] ++ [x]) d.
(* x = D[k]: the value read ..., *)
Definition dd_read {A : Type} (k : Z) (d : dict (list A)) : list A := getd k d [].
(* ... and the dict afterwards (reading a missing key creates the entry k: []) *)
Definition dd_touch {A : Type} (k : Z) (d : dict (list A)) : dict (list A) := if haskey k d then d else set k [] d.
(* D.items() *)
Definition py_items {V : Type} (d : dict V) : list (Z * V) := d.

(* ---------- regionprops values ---------- *)
(* `if isinstance(value, tuple): value = list(value)`: a symbolic regionprops value stands for the stored
   (list) form *)
Definition py_tuple_to_list (v : value) : value := v.
(* tuple(l) of a list used as a read-only sequence *)
Definition py_tuple {A : Type} (l : list A) : list A := l.
(* l[1:] *)
Definition py_from1 {A : Type} (l : list A) : list A := tl l.
