(* Python / numpy / networkx runtime combinators used by the generated shallow embedding Gen/Accessors_gen.v
   (written by harness/translate_accessors.py from the bodies of the accessor methods of data_model/tracks.py:
   get_node_attr, get_nodes_attr, get_times, get_time, get_pixels, set_pixels, _set_node_attr, _set_nodes_attr).
   Hand-written, small, trusted together with the translator's idiom table: each definition names the Python
   construct it stands for.  Reused (nothing else is):
     Model/PyRt.v   py_for (for x in l), py_index0 (l[0]; IndexError on an empty list)
     Model/PyRt3.v  py_getitem (d[k]; KeyError)
     Model/PyRt9.v  nx_node_view (graph.nodes[n]; KeyError)
     Model/NpRt.v   np_getitem (a[i]), np_setitem (a[i] = x), np_eq_mask (a == v), np_ne_mask (a != v)
                    (referred to by their qualified names NpRt.*: that file is not imported, its py_for is not the one used)

   Data representation (the one of Model/Edit.v and Model/NpRt.v):
     the segmentation, an array of shape (T, *spatial)         : list (list Z), one frame = the spatial axes flattened in C order
     a boolean array over one frame                            : list bool
     the result of np.nonzero on one frame (a tuple of k coordinate arrays, one per spatial axis, entries in C order)
                                                               : list Z, the flat C-order indices (ascending)
     a 1-D integer array                                       : list Z
     an index tuple (i0, *ix) into the whole segmentation (the `pixels` of get_pixels / set_pixels: axis-0 coordinates
     i0 and the spatial coordinates ix, all of one length)     : np_index = list Z * list Z
   Conventions: integers are unbounded Z; a NEGATIVE index (numpy: counted from the end) is outside every stated domain
   and is read as out of range (IndexError).  None[..] is a TypeError, for which [err] has no code: EKey stands in, as in
   PyRt.py_seg_index (deliberately not EValue, the code of the `segmentation is None` guard). *)
From Coq Require Import ZArith List Bool.
From FT Require Import Base.Dict Model.Edit Model.PyRt Model.PyRt3 Model.PyRt9.
From FT Require Model.NpRt.
Import ListNotations.
Open Scope Z_scope.

Definition np_index := (list Z * list Z)%type.

(* ---------- the segmentation ---------- *)
(* `self.segmentation is None` *)
Definition seg_is_none (s : state) : bool := match seg s with None => true | Some _ => false end.
(* 0 <= i < n: a valid (non-negative) index along an axis of length n *)
Definition np_in_range (n : nat) (i : Z) : bool := (0 <=? i) && (i <? Z.of_nat n).
(* self.segmentation[t], t an integer: frame t (a view; no idiom of the table writes through it).
   IndexError outside 0 <= t < T; TypeError (EKey) when the segmentation is None *)
Definition py_seg_frame (s : state) (t : Z) : res (list Z) :=
  match seg s with
  | None => Err EKey s
  | Some sg => if np_in_range (length sg) t then Ok (NpRt.np_getitem sg t) s else Err EIndex s
  end.
(* np.nonzero(m), m a boolean frame: the coordinates of the True entries, in C order *)
Fixpoint nonzero_from (i : Z) (m : list bool) : list Z :=
  match m with [] => [] | b :: r => if b then i :: nonzero_from (i + 1) r else nonzero_from (i + 1) r end.
Definition np_nonzero (m : list bool) : list Z := nonzero_from 0 m.
(* np.ones_like(ix[0]), ix a result of np.nonzero: one 1 per selected element (every coordinate array has that length) *)
Definition np_ones_like_axis0 (ix : list Z) : list Z := map (fun _ => 1) ix.
(* a * c, a a 1-D integer array, c an integer *)
Definition np_mul_scalar (a : list Z) (c : Z) : list Z := map (fun x => x * c) a.
(* (i0, *ix): the index tuple with axis-0 coordinates i0 followed by the spatial coordinates ix *)
Definition np_index_cons (i0 ix : list Z) : np_index := (i0, ix).
(* a[ix] = v, a of shape (T, *spatial), ix an index tuple of integer arrays (fancy-index assignment of a scalar):
   numpy validates every index first (IndexError, nothing written), then a[i0[k], *ix[k]] = v for every k.
   Coordinate arrays of different lengths: IndexError (numpy's broadcasting of a length-1 array is not represented). *)
Definition np_index_ok (a : list (list Z)) (tj : Z * Z) : bool :=
  np_in_range (length a) (fst tj) && np_in_range (length (NpRt.np_getitem a (fst tj))) (snd tj).
Definition np_put1 (v : Z) (a : list (list Z)) (tj : Z * Z) : list (list Z) :=
  NpRt.np_setitem a (fst tj) (NpRt.np_setitem (NpRt.np_getitem a (fst tj)) (snd tj) v).
Definition np_index_put (a : list (list Z)) (ix : np_index) (v : Z) : option (list (list Z)) :=
  if (length (fst ix) =? length (snd ix))%nat && forallb (np_index_ok a) (combine (fst ix) (snd ix))
  then Some (fold_left (np_put1 v) (combine (fst ix) (snd ix)) a)
  else None.
(* self.segmentation[ix] = v   (in place; TypeError (EKey) when the segmentation is None) *)
Definition py_seg_setitem (s : state) (ix : np_index) (v : Z) : res unit :=
  match seg s with
  | None => Err EKey s
  | Some sg => match np_index_put sg ix v with
               | Some sg' => Ok tt (upd_seg s (Some sg'))
               | None => Err EIndex s
               end
  end.

(* ---------- node attributes ---------- *)
(* d.get(k, None), d the attribute dict of a node: a missing key reads Python's None (= VNone) *)
Definition py_attrs_get_none (d : attrs) (k : Z) : value := match lookup k d with Some v => v | None => VNone end.
(* graph.nodes[n][k] = v: the attribute dict of n is written in place; KeyError when n is not in the graph *)
Definition nx_node_setitem (s : state) (n k : Z) (v : value) : res unit :=
  match lookup n (nodes (g s)) with
  | Some d => Ok tt (upd_g s {| nodes := set n (set k v d) (nodes (g s)); succs := succs (g s) |})
  | None => Err EKey s
  end.
(* int(x), x an attribute value: an integer is itself.  The model has no other numeric value: None / a list
   (TypeError), a string (ValueError) and a float (truncated by Python) are all tokens here and read EValue *)
Definition py_int_value (v : value) (s : state) : res Z :=
  match v with VZ z => Ok z s | _ => Err EValue s end.
(* `if isinstance(x, np.ndarray): x = list(x)`, x an attribute value: attribute values are abstract (Model/Edit.v:
   a position is an opaque token compared by content), an array and the list of its elements are the same value *)
Definition np_array_to_list (v : value) : value := v.
Lemma np_array_to_list_id v : np_array_to_list v = v.
Proof. reflexivity. Qed.
(* zip(a, b, strict=False): pairs up to the shorter one *)
Definition py_zip {A B : Type} (a : list A) (b : list B) : list (A * B) := combine a b.

(* ---------- the model's [pixels] as a numpy index tuple ----------
   Model/Edit.v keeps the frame once: (t, idx) stands for the index tuple whose axis-0 array is t repeated *)
Definition px_index (px : pixels) : np_index := (repeat (fst px) (length (snd px)), snd px).
