(* Python runtime combinators used by the generated shallow embedding Gen/Toggle_gen.v
   (written by harness/translate_toggle.py from data_model/tracks.py, annotators/_annotator_registry.py,
   annotators/_graph_annotator.py, actions/update_node_attrs.py).  Hand-written, small, trusted
   together with the translator's idiom table: each definition states which Python object or
   construct it stands for.  Everything effectful lives in the [res] monad of Model/Edit.v (an
   exception is an [Err] carrying the state at the raise); loops are [py_for] of Model/PyRt.v.

   OBJECT REPRESENTATION (how the Python objects sit inside the model's [feats] record)

   * a Feature (TypedDict): the model keeps only what FeatureDict.node_features / edge_features read,
     its "feature_type" -- [ftype].  The feature an annotator offers under a key is a function of the
     key ([feature_of_key]: IoU() is the edge feature, everything else a node feature).
   * an annotator object = its identity [ann] (RegionpropsAnnotator, EdgeAnnotator, TrackAnnotator);
     its field `all_features : dict[str, tuple[Feature, bool]]` is READ out of the record by
     [tbl_of] and WRITTEN back by [put_tbl] (a lens; sanity lemmas in Proofs/ToggleTie.v):
         RegionpropsAnnotator   keys rp_all in order, flag of k = (k in rp_act)
         EdgeAnnotator          {iou: (IoU(), iou_act)} when iou_avail, else {}
                                (EdgeAnnotator.__init__: `feats = {} if tracks.segmentation is None`)
         TrackAnnotator         {track_id: (.., trk_act), lineage_id: (.., lin_act)}
   * `tracks.annotators` (AnnotatorRegistry, a list) = [registry], always the three annotators in
     the order of Tracks._get_annotators.  An annotator that _get_annotators does not instantiate
     (no segmentation) is represented by one whose table is empty -- for every method translated
     here that is the same thing.
   * `tracks.features` (FeatureDict) = [features_of]: the node keys in order, then the edge keys in
     order, each with its feature type; written back by [put_features] (node_features /
     edge_features are all the model keeps, so the interleaving of the two kinds is not represented).
   * nx.weakly_connected_components is an oracle: the component lists [ctrk] / [clin] are extra
     arguments of everything that reaches `compute`. *)
From Coq Require Import ZArith List Bool.
From FT Require Import Base.Dict Model.Edit Model.Toggle.
Import ListNotations.
Open Scope Z_scope.

(* ---------- Feature objects ---------- *)
Inductive ftype := FtNode | FtEdge.
Definition feature_of_key (k : Z) : ftype := if is_edge_key k then FtEdge else FtNode.
Definition is_node_ft (kv : Z * ftype) : bool := match snd kv with FtNode => true | FtEdge => false end.
Definition is_edge_ft (kv : Z * ftype) : bool := match snd kv with FtNode => false | FtEdge => true end.

(* ---------- annotators and their all_features tables ---------- *)
Inductive ann := ARp | AEdge | ATrk.
Definition registry : list ann := [ARp; AEdge; ATrk].
Definition table := dict (ftype * bool).

(* the is_included flag a table holds for k (as the dict lookup gives it) *)
Definition flag_of (k : Z) (t : table) : bool := match lookup k t with Some (_, b) => b | None => false end.
Definition flag_or (k : Z) (t : table) (dflt : bool) : bool := match lookup k t with Some (_, b) => b | None => dflt end.

Definition tbl_of (f : feats) (a : ann) : table :=
  match a with
  | ARp => map (fun k => (k, (feature_of_key k, memz k (rp_act f)))) (rp_all f)
  | AEdge => if iou_avail f then [(KIou, (feature_of_key KIou, iou_act f))] else []
  | ATrk => [(KTrack, (feature_of_key KTrack, trk_act f)); (KLin, (feature_of_key KLin, lin_act f))]
  end.
Definition put_tbl (f : feats) (a : ann) (t : table) : feats :=
  match a with
  | ARp => {| reg_node := reg_node f; reg_edge := reg_edge f; pos_keys := pos_keys f;
              rp_all := keys t; rp_act := filter (fun k => flag_of k t) (keys t);
              iou_avail := iou_avail f; iou_act := iou_act f; trk_act := trk_act f; lin_act := lin_act f |}
  | AEdge => {| reg_node := reg_node f; reg_edge := reg_edge f; pos_keys := pos_keys f;
                rp_all := rp_all f; rp_act := rp_act f;
                iou_avail := haskey KIou t; iou_act := flag_or KIou t (iou_act f);
                trk_act := trk_act f; lin_act := lin_act f |}
  | ATrk => {| reg_node := reg_node f; reg_edge := reg_edge f; pos_keys := pos_keys f;
               rp_all := rp_all f; rp_act := rp_act f; iou_avail := iou_avail f; iou_act := iou_act f;
               trk_act := flag_or KTrack t (trk_act f); lin_act := flag_or KLin t (lin_act f) |}
  end.
(* <annotator>.all_features (read)  /  <annotator>.all_features[k] = v  (the whole table written back) *)
Definition ann_table (s : state) (a : ann) : table := tbl_of (ft s) a.
Definition ann_put (s : state) (a : ann) (t : table) : state := upd_ft s (put_tbl (ft s) a t).

(* ---------- tracks.features ---------- *)
Definition features_of (s : state) : dict ftype :=
  map (fun k => (k, FtNode)) (reg_node (ft s)) ++ map (fun k => (k, FtEdge)) (reg_edge (ft s)).
Definition put_features (s : state) (d : dict ftype) : state :=
  let f := ft s in
  upd_ft s {| reg_node := map fst (filter is_node_ft d); reg_edge := map fst (filter is_edge_ft d);
              pos_keys := pos_keys f; rp_all := rp_all f; rp_act := rp_act f; iou_avail := iou_avail f;
              iou_act := iou_act f; trk_act := trk_act f; lin_act := lin_act f |}.

(* ---------- raising dict operations ---------- *)
(* d[k] (read): KeyError when absent *)
Definition py_dict_get {V} (s : state) (k : Z) (d : dict V) : res V :=
  match lookup k d with Some v => Ok v s | None => Err EKey s end.
(* del d[k]: KeyError when absent; the result is the dict afterwards *)
Definition py_dict_del {V} (s : state) (k : Z) (d : dict V) : res (dict V) :=
  if haskey k d then Ok (del k d) s else Err EKey s.

(* truthiness of a list: `if l:` is `negb (py_is_nil l)` *)
Definition py_is_nil {A} (l : list A) : bool := match l with [] => true | _ => false end.

(* Python sets of keys: duplicate-free lists (iteration order of a set is unspecified in Python;
   only membership is used by the translated code) *)
Definition py_set (l : list Z) : list Z := nodup Z.eq_dec l.                       (* set(l) *)
Definition py_set_add (x : Z) (s : list Z) : list Z := if memz x s then s else s ++ [x].   (* s.add(x) *)

(* <annotator>.compute(feature_keys): dynamic dispatch to the bulk computation of the annotator's
   class, which stays the hand-written model function of Model/Toggle.v.  feature_keys = None
   ("all active features") is every manageable key. *)
Definition ann_compute (s : state) (a : ann) (ks : option (list Z)) (ctrk clin : list (list Z)) : res unit :=
  let ks := match ks with Some l => l | None => available s end in
  Ok tt (match a with
         | ARp => rp_compute s ks
         | AEdge => iou_compute s ks
         | ATrk => trk_compute s ks ctrk clin
         end).
