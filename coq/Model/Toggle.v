(* Feature switching: Tracks.enable_features / disable_features over the annotator registry
   (data_model/tracks.py, annotators/_annotator_registry.py, _graph_annotator.py) and the bulk
   `compute` paths of the three annotators (post-fix tree). *)
From Coq Require Import ZArith List Bool.
From FT Require Import Base.Dict Model.Edit.
Import ListNotations.
Open Scope Z_scope.

(* AnnotatorRegistry.all_features: every key some annotator can manage *)
Definition available (st : state) : list Z :=
  rp_all (ft st) ++ (if iou_avail (ft st) then [KIou] else []) ++ [KTrack; KLin].
Definition is_edge_key (k : Z) : bool := k =? KIou.

(* activate_features / deactivate_features: each annotator flips the flags of the keys it owns *)
Definition set_flags (f : feats) (ks : list Z) (on : bool) : feats :=
  {| reg_node := reg_node f; reg_edge := reg_edge f; pos_keys := pos_keys f; rp_all := rp_all f;
     rp_act := (* keep all_features order: rp_all filtered by the new flags *)
       filter (fun k => if memz k ks && memz k (rp_all f) then on else memz k (rp_act f)) (rp_all f);
     iou_avail := iou_avail f;
     iou_act := if memz KIou ks && iou_avail f then on else iou_act f;
     trk_act := if memz KTrack ks then on else trk_act f;
     lin_act := if memz KLin ks then on else lin_act f |}.

(* self.features[key] = feature  /  del self.features[key] *)
Definition reg_add (l : list Z) (k : Z) : list Z := if memz k l then l else l ++ [k].
Definition register (f : feats) (ks : list Z) : feats :=
  {| reg_node := fold_left (fun l k => if is_edge_key k then l else reg_add l k) ks (reg_node f);
     reg_edge := fold_left (fun l k => if is_edge_key k then reg_add l k else l) ks (reg_edge f);
     pos_keys := pos_keys f; rp_all := rp_all f; rp_act := rp_act f; iou_avail := iou_avail f;
     iou_act := iou_act f; trk_act := trk_act f; lin_act := lin_act f |}.
Definition unregister (f : feats) (ks : list Z) : feats :=
  {| reg_node := filter (fun k => negb (memz k ks)) (reg_node f);
     reg_edge := filter (fun k => negb (memz k ks)) (reg_edge f);
     pos_keys := pos_keys f; rp_all := rp_all f; rp_act := rp_act f; iou_avail := iou_avail f;
     iou_act := iou_act f; trk_act := trk_act f; lin_act := lin_act f |}.

(* ---------- bulk computation ---------- *)
(* distinct non-zero labels of a frame in ascending order (skimage regionprops order) *)
Definition labels_of (f : list Z) : list Z :=
  fold_left (fun acc x => if x =? 0 then acc else insert_sorted x acc) f [].
(* RegionpropsAnnotator.compute: for t in range(T): for region in regionprops(seg[t]):
   skip labels that are not nodes; write every requested active key *)
Definition rp_compute_frame (ks : list Z) (sg : list (list Z)) (st : state) (t : Z) : state :=
  fold_left (fun s l => if has_node s l
                        then fold_left (fun s' k => set_node_attr s' l k (VRp (mask_of sg t l))) ks s
                        else s)
            (labels_of (frame_of sg t)) st.
Definition rp_compute (st : state) (ks : list Z) : state :=
  match seg st with
  | None => st
  | Some sg => let ks' := filter (fun k => memz k ks) (rp_act (ft st)) in
               match ks' with
               | [] => st
               | _ => fold_left (rp_compute_frame ks' sg) (map Z.of_nat (seq 0 (length sg))) st
               end
  end.
(* EdgeAnnotator.compute: for t in range(T-1): the out-edges of the nodes of frame t, each compared
   with the frame of its target (post-fix: grouped by target frame) *)
Definition iou_compute (st : state) (ks : list Z) : state :=
  match seg st with
  | None => st
  | Some sg =>
    if memz KIou ks && iou_act (ft st) then
      let es := filter (fun e => (0 <=? time_of st (fst e)) && (time_of st (fst e) <? Z.of_nat (length sg) - 1)) (all_edges st) in
      fold_left (fun s e => set_edge_attr s (fst e) (snd e) KIou (iou_of s sg (fst e) (snd e))) es st
    else st
  end.
(* TrackAnnotator._assign_ids over the components the networkx oracle returned *)
Fixpoint assign_ids (key : Z) (comps : list (list Z)) (i : Z) (st : state) (book : dict (list Z)) : state * dict (list Z) * Z :=
  match comps with
  | [] => (st, book, i - 1)
  | c :: r => let st' := fold_left (fun s n => set_node_attr s n key (VZ i)) c st in
              assign_ids key r (i + 1) st' (set i c book)
  end.
Definition trk_compute (st : state) (ks : list Z) (ctrk clin : list (list Z)) : state :=
  let st := if memz KTrack ks && trk_act (ft st) then
              let '(s, book, mx) := assign_ids KTrack ctrk 1 st [] in
              upd_bk s {| trk_book := book; lin_book := lin_book (bk s); max_trk := mx; max_lin := max_lin (bk s) |}
            else st in
  if memz KLin ks && lin_act (ft st) then
    let '(s, book, mx) := assign_ids KLin clin 1 st [] in
    upd_bk s {| trk_book := trk_book (bk s); lin_book := book; max_trk := max_trk (bk s); max_lin := mx |}
  else st.

(* Tracks.enable_features(keys, recompute): validate all, activate, register, compute *)
Definition enable_features (st : state) (ks : list Z) (recompute : bool) (ctrk clin : list (list Z)) : res unit :=
  if negb (forallb (fun k => memz k (available st)) ks) then Err EKey st else
  let st := upd_ft st (register (set_flags (ft st) ks true) ks) in
  if recompute then Ok tt (trk_compute (iou_compute (rp_compute st ks) ks) ks ctrk clin) else Ok tt st.

(* Tracks.disable_features(keys): validate all, deactivate, unregister *)
Definition disable_features (st : state) (ks : list Z) : res unit :=
  if negb (forallb (fun k => memz k (available st)) ks) then Err EKey st else
  Ok tt (upd_ft st (unregister (set_flags (ft st) ks false) ks)).
