(* Python runtime combinators used by the generated shallow embedding Gen/UserActions_gen.v
   (written by harness/translate_user_actions.py).  Hand-written, small, trusted together
   with the translator's idiom table: each definition states which Python construct it
   stands for.  Everything lives in the [res] monad of Model/Edit.v: an exception is an
   [Err] carrying the state at the raise. *)
From Coq Require Import ZArith List Bool.
From FT Require Import Base.Dict Model.Edit.
Import ListNotations.
Open Scope Z_scope.

(* for x in l: body          -- body maps the loop-carried variables b (and the state) to
   their values after one iteration; an exception in the body leaves the loop *)
Fixpoint py_for {A B : Type} (l : list A) (b : B) (s : state) (f : A -> B -> state -> res B) : res B :=
  match l with
  | [] => Ok b s
  | x :: r => bind (f x b s) (fun b' s' => py_for r b' s' f)
  end.

(* try: r  except InvalidActionError: h      (h sees the state at the raise; the
   [forceable] flag is kept so that a bare `raise` in the handler re-raises the same error) *)
Definition py_try_invalid {A : Type} (r : res A) (h : bool -> state -> res A) : res A :=
  match r with
  | Err (EInvalid f) s => h f s
  | _ => r
  end.

(* tracks.get_track_id(n) = graph.nodes[n][tracklet_key]: KeyError when the attribute (or the
   node) is missing.  Model convention: id attributes are read as integers ([zattr]). *)
Definition py_get_track_id (s : state) (n : Z) : res Z :=
  match zattr s n KTrack with Some t => Ok t s | None => Err EKey s end.

(* graph.predecessors(x) / tracks.predecessors(x): networkx raises NetworkXError for a node that
   is not in the graph.  (For successors(x) this is not modelled -- every use in the sources is
   on a node already known to be in the graph -- as in the hand model.) *)
Definition py_predecessors (s : state) (x : Z) : res (list Z) :=
  if has_node s x then Ok (predecessors s x) s else Err ENetworkX s.

(* next(iter(l)): StopIteration on an empty iterable.  [err] has no code for StopIteration;
   the hand model reports EKey there, and so does this helper. *)
Definition py_next {A : Type} (l : list A) (s : state) : res A :=
  match l with x :: _ => Ok x s | [] => Err EKey s end.

(* l[0]: IndexError on an empty list *)
Definition py_index0 {A : Type} (l : list A) (s : state) : res A :=
  match l with x :: _ => Ok x s | [] => Err EIndex s end.

(* graph.in_edges(v) *)
Definition in_edges (s : state) (v : Z) : list (Z * Z) := map (fun p => (p, v)) (predecessors s v).

(* an attribute value used as an integer (time, track id); model convention: a value that
   is not an integer reads as 0 *)
Definition val_z (v : value) : Z := match v with VZ z => z | _ => 0 end.
(* attributes[k] used as an integer: KeyError when absent *)
Definition py_attr_z (s : state) (a : attrs) (k : Z) : res Z :=
  match lookup k a with Some v => Ok (val_z v) s | None => Err EKey s end.

(* `features.<x>_key is None`: the model's feature keys are the interned constants
   KTime / KTrack / KLin and are always set *)
Definition key_is_none (k : Z) : bool := false.

(* a == b for two values that may be None *)
Definition opt_eqb (a b : option Z) : bool :=
  match a, b with
  | Some x, Some y => x =? y
  | None, None => true
  | _, _ => false
  end.

(* np.sum(tracks.segmentation[t] == v): how many pixels of frame t carry label v *)
Definition seg_count (s : state) (t v : Z) : Z :=
  Z.of_nat (length (match seg s with Some sg => mask_of sg t v | None => [] end)).

(* tracks.segmentation[pixels] evaluated as a statement, for its IndexError only.  Model
   convention (the one of set_pixels): only the frame index can be out of range.  Without a
   segmentation Python raises TypeError (None[...]), for which [err] has no code: EKey stands
   in for it -- deliberately not EValue, the code of the `if tracks.segmentation is None: raise
   ValueError` guard every use sits behind, so that the guard stays observable in the tie. *)
Definition py_seg_index (s : state) (px : pixels) : res unit :=
  match seg s with
  | Some sg => if frame_ok sg (fst px) then Ok tt s else Err EIndex s
  | None => Err EKey s
  end.

(* tuple(np.concatenate([pixels[dim] for pixels, _ in groups]) for dim in range(ndim)):
   all pixel groups of one stroke concatenated.  A [pixels] value carries its frame index
   once; the concatenation has the frame of the first group (the source asserts that all
   coordinates along axis 0 are equal) *)
Definition px_concat (groups : list (pixels * Z)) : pixels :=
  (match groups with (px, _) :: _ => fst px | [] => 0 end, flat_map (fun g => snd (fst g)) groups).

(* the tail of UserUpdateSegmentation:  action_history.add_new_action(self);
   refresh.emit(node_to_select)  where the payload is computed by the body *)
Definition top_wrap_dyn (r : res (action * option Z)) : res action :=
  match r with
  | Ok (a, payload) s => Ok a (finish_top s a payload)
  | Err e s => Err e s
  end.
