(* Python runtime combinators used by the generated shallow embeddings
     Gen/NameMapping_gen.v   (harness/translate_name_mapping.py, from import_export/_name_mapping.py)
     Gen/SubsetUtils_gen.v   (harness/translate_utils.py,        from import_export/_utils.py)
   Hand-written, small, trusted together with the idiom table of harness/translate_pure.py:
   each definition states which Python construct it stands for.  Data representation is the
   one of the hand models (Base/Dict.v dicts, strings interned as Z).

   Exceptions are explicit: a generated function returns [res T]; the tie theorems
   (Proofs/NameMapTie.v, Proofs/SubsetTie.v) prove [gen_f args = Ok (f args)], i.e. they
   also show that no [Raise] is reachable (under the hypotheses they state). *)
From Coq Require Import ZArith List Bool.
From FT Require Import Base.Dict.
From FT Require Model.SubsetExport.
Import ListNotations.
Open Scope Z_scope.

Inductive exn := KeyError | ValueError | IndexError | TypeError | NetworkXError.

(* the value of an expression / of a function call that may raise *)
Inductive res (A : Type) := Ok (a : A) | Raise (e : exn).
Arguments Ok {A} a.
Arguments Raise {A} e.

(* how a block of statements inside a loop body (or a function body) ends:
     Cont s   the end of the loop body, or `continue`   (s = the loop-carried variables)
     Brk s    `break`
     Ret r    `return r`
     Exn e    an exception *)
Inductive ctl (S R : Type) := Cont (s : S) | Brk (s : S) | Ret (r : R) | Exn (e : exn).
Arguments Cont {S R} s.
Arguments Brk {S R} s.
Arguments Ret {S R} r.
Arguments Exn {S R} e.

(* x = <raising expression>; rest *)
Definition bind {A S R} (x : res A) (k : A -> ctl S R) : ctl S R :=
  match x with Ok a => k a | Raise e => Exn e end.

(* for x in l: body
   rest
   [s] = the variables assigned in the body that exist before the loop; [k] = rest.
   `continue` / the end of the body goes to the next element, `break` and exhaustion go to
   the rest, `return` and exceptions leave the function. *)
Fixpoint py_for {A S S' R} (l : list A) (s : S) (body : A -> S -> ctl S R) (k : S -> ctl S' R) : ctl S' R :=
  match l with
  | [] => k s
  | x :: r =>
      match body x s with
      | Cont s' => py_for r s' body k
      | Brk s' => k s'
      | Ret v => Ret v
      | Exn e => Exn e
      end
  end.

(* a function body is a block outside every loop: it can only end in Ret or Exn *)
Definition run {R} (c : ctl Empty_set R) : res R :=
  match c with
  | Cont s | Brk s => match s with end
  | Ret r => Ok r
  | Exn e => Raise e
  end.

(* truthiness of a list / dict: `if l:` *)
Definition is_nil {A} (l : list A) : bool := match l with [] => true | _ => false end.
(* `x is not None` *)
Definition is_some {A} (o : option A) : bool := match o with Some _ => true | None => false end.
(* a possibly-None value used where a proper value is needed (None.items(), a non-str used as a
   str key): stuck, reported as TypeError *)
Definition as_some {A} (o : option A) : res A := match o with Some a => Ok a | None => Raise TypeError end.

(* d[k] (read): KeyError when absent *)
Definition dict_get {V} (k : Z) (d : dict V) : res V :=
  match lookup k d with Some v => Ok v | None => Raise KeyError end.
(* l[0]: IndexError on the empty list *)
Definition list_get0 {A} (l : list A) : res A :=
  match l with x :: _ => Ok x | [] => Raise IndexError end.
(* l.remove(x): first occurrence; ValueError when absent *)
Definition list_remove (x : Z) (l : list Z) : res (list Z) :=
  if memz x l then Ok (remove1 x l) else Raise ValueError.

(* [e for x in l] where e may raise *)
Fixpoint mapM {A B} (f : A -> res B) (l : list A) : res (list B) :=
  match l with
  | [] => Ok []
  | x :: r => match f x with
              | Ok y => match mapM f r with Ok ys => Ok (y :: ys) | Raise e => Raise e end
              | Raise e => Raise e
              end
  end.

(* sorted(l) on integers (stable insertion sort) *)
Fixpoint insert_z (x : Z) (l : list Z) : list Z :=
  match l with
  | [] => [x]
  | y :: r => if x <=? y then x :: l else y :: insert_z x r
  end.
Definition sort_z (l : list Z) : list Z := fold_right insert_z [] l.

(* enumerate(l) *)
Fixpoint enum_from (i : Z) (l : list Z) : list (Z * Z) :=
  match l with [] => [] | x :: r => (i, x) :: enum_from (i + 1) r end.
Definition enumerate (l : list Z) : list (Z * Z) := enum_from 0 l.

(* difflib.get_close_matches(q, cands, n=1, cutoff=0.4): a list of at most one string, given
   by the oracle [closest] of Model/NameMap.v ([] = None, [c] = Some c) *)
Definition close_matches (closest : Z -> list Z -> option Z) (q : Z) (cands : list Z) : list Z :=
  match closest q cands with Some c => [c] | None => [] end.

(* Python sets of integers: duplicate-free lists.  Python leaves the iteration order of a set
   unspecified; any order is a model of it, this one makes set(l) and s.update(l) canonical. *)
Definition set_of_list (l : list Z) : list Z := nodup Z.eq_dec l.        (* set(l) *)
Definition set_update (s l : list Z) : list Z := nodup Z.eq_dec (s ++ l). (* s.update(l) *)
Definition list_of_set (s : list Z) : list Z := s.                       (* list(s) *)

(* nx.ancestors(graph, node): the set of ancestors as computed by Model/SubsetExport.v (fuelled
   upward closure); networkx raises NetworkXError for a node that is not in the graph *)
Definition nx_ancestors (g : SubsetExport.graph) (n : Z) : res (list Z) :=
  if memz n (SubsetExport.g_nodes g) then Ok (SubsetExport.ancestors g n) else Raise NetworkXError.
