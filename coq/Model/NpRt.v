(* NumPy / Python / networkx runtime combinators used by the generated shallow embeddings
   Gen/LabelUtils_gen.v and Gen/Relabel_gen.v (written by harness/translate_numpy_utils.py).
   Hand-written, small, and TRUSTED together with the translator's idiom table: every
   definition names the Python construct it stands for and is meant to be obviously equal
   to its numpy meaning on the data representation of Model/LabelUtils.v / Model/Relabel.v:

     1-D array or one frame (t fixed; the spatial axes flattened in C order) : list Z
     array of shape (T, *spatial)                                            : list (list Z)
     array of shape (H, T, *spatial)  (multiseg)                             : list (list (list Z))
     boolean mask over a 1-D array / a frame                                 : list bool
     Python dict with integer keys and values (insertion ordered)            : list (Z * Z)
     a graph whose node ids are all that matters (relabel_segmentation)      : list Z

   Conventions (the ones of the hand models, see their headers and DESIGN.md):
   integers are unbounded Z (uint64 wrap-around is out of scope); an index is used through
   Z.to_nat and an out-of-range read gives the empty frame / an out-of-range write is a no-op
   (numpy: IndexError; negative indices count from the end -- both outside the stated domain);
   a mask of the wrong length is truncated (numpy: IndexError).  This file imports nothing
   from the hand models: the equalities are proved in Proofs/LabelUtilsTie.v, RelabelTie.v. *)
From Coq Require Import ZArith List Bool.
Import ListNotations.
Open Scope Z_scope.

(* ---------- no-ops of the representation ---------- *)
(* a.astype(np.uint64): a fresh copy; identity on unbounded Z *)
Definition np_astype_uint64 {A : Type} (a : A) : A := a.
(* np.asarray(a): the array itself *)
Definition np_asarray {A : Type} (a : A) : A := a.
(* X.compute() if isinstance(X, da.Array) else X: dask arrays are not distinguished *)
Definition da_compute_if_dask {A : Type} (a : A) : A := a.
(* int(x) of a numpy integer scalar *)
Definition py_int (x : Z) : Z := x.

(* ---------- control ---------- *)
(* range(n): 0, 1, .., n-1 (empty for n <= 0) *)
Definition py_range (n : Z) : list Z := map Z.of_nat (seq 0 (Z.to_nat n)).
(* for x in l: body    -- b = the loop-carried variables, f x b = their values after one iteration *)
Definition py_for {A B : Type} (l : list A) (b : B) (f : A -> B -> B) : B :=
  fold_left (fun acc x => f x acc) l b.
(* `if x:` for an integer x *)
Definition py_truthy_int (x : Z) : bool := negb (x =? 0).
(* max(a, b) of two integers *)
Definition py_max (a b : Z) : Z := Z.max a b.
(* [e(x) for x in l if c(x)] *)
Definition py_listcomp {A B : Type} (e : A -> B) (c : A -> bool) (l : list A) : list B :=
  map e (filter c l).

(* ---------- shapes and indexing along axis 0 ---------- *)
(* a.shape[0] *)
Definition np_shape0 {A : Type} (a : list A) : Z := Z.of_nat (length a).
(* np.zeros_like(a), a of shape (T, *spatial) *)
Definition np_zeros_like (a : list (list Z)) : list (list Z) := map (map (fun _ => 0)) a.
(* a[i], i an integer: the i-th sub-array *)
Definition np_getitem {A : Type} (a : list (list A)) (i : Z) : list A := nth (Z.to_nat i) a [].
(* a[i] = x *)
Fixpoint set_nth {A : Type} (i : nat) (x : A) (l : list A) : list A :=
  match l, i with
  | [], _ => []
  | _ :: r, O => x :: r
  | y :: r, S j => y :: set_nth j x r
  end.
Definition np_setitem {A : Type} (a : list A) (i : Z) (x : A) : list A := set_nth (Z.to_nat i) x a.

(* ---------- elementwise operations on a 1-D array / a frame ---------- *)
(* a == v *)
Definition np_eq_mask (a : list Z) (v : Z) : list bool := map (fun x => x =? v) a.
(* a != v *)
Definition np_ne_mask (a : list Z) (v : Z) : list bool := map (fun x => negb (x =? v)) a.
(* a[m] += c, m a boolean mask *)
Definition np_mask_iadd (a : list Z) (m : list bool) (c : Z) : list Z :=
  map (fun xb : Z * bool => if snd xb then fst xb + c else fst xb) (combine a m).
(* a[m] = v, m a boolean mask, v a scalar *)
Definition np_mask_assign (a : list Z) (m : list bool) (v : Z) : list Z :=
  map (fun xb : Z * bool => if snd xb then v else fst xb) (combine a m).
(* a[m], m a boolean mask: the selected entries in order *)
Definition np_bool_index (a : list Z) (m : list bool) : list Z := map fst (filter snd (combine a m)).
(* a + c, c a scalar *)
Definition np_add_scalar (a : list Z) (c : Z) : list Z := map (fun x => x + c) a.
(* np.max(a) of an UNSIGNED array (entries >= 0, emitted only after astype(np.uint64)):
   the maximum; numpy raises ValueError for a zero-size array, which reads 0 here *)
Definition np_max_unsigned (a : list Z) : Z := fold_right Z.max 0 a.
(* v in a *)
Definition np_contains (a : list Z) (v : Z) : bool := existsb (Z.eqb v) a.
(* np.unique(a): the distinct entries, ascending (insertion into a sorted duplicate-free list) *)
Fixpoint insert_sorted (x : Z) (l : list Z) : list Z :=
  match l with
  | [] => [x]
  | y :: r => if x <? y then x :: l else if x =? y then l else y :: insert_sorted x r
  end.
Definition np_unique (a : list Z) : list Z := fold_right insert_sorted [] a.

(* ---------- reshape between (H, T, *spatial) and (H*T, *spatial) ---------- *)
(* a.shape of an (H, T, ..) array, as far as the two idioms below need it: the number of
   frames of each hypothesis (a rectangular numpy array has T for each of the H) *)
Definition np_shape01 {A : Type} (a : list (list A)) : list nat := map (@length A) a.
(* a.reshape((-1, *a.shape[2:])): axes 0 and 1 merged, row-major *)
Definition np_reshape_merge01 {A : Type} (a : list (list A)) : list A := concat a.
(* b.reshape(s), s the shape saved before merging: split back, row-major *)
Fixpoint np_reshape_split01 {A : Type} (s : list nat) (b : list A) : list (list A) :=
  match s with
  | [] => []
  | n :: r => firstn n b :: np_reshape_split01 r (skipn n b)
  end.

(* ---------- dict with integer keys and values ---------- *)
(* d[k] = v: a present key keeps its position and takes the new value; a new key goes last *)
Fixpoint py_dict_setitem (d : list (Z * Z)) (k v : Z) : list (Z * Z) :=
  match d with
  | [] => [(k, v)]
  | (a, b) :: r => if a =? k then (a, v) :: r else (a, b) :: py_dict_setitem r k v
  end.
(* dict(pairs): insert the pairs left to right into {} *)
Definition py_dict (kvs : list (Z * Z)) : list (Z * Z) :=
  fold_left (fun d kv => py_dict_setitem d (fst kv) (snd kv)) kvs [].
(* zip(a, b, strict=True): ValueError on unequal lengths is not modelled *)
Definition py_zip_strict (a b : list Z) : list (Z * Z) := combine a b.
(* {k(x): v(x) for x in l}, kv x = (k(x), v(x)) *)
Definition py_dict_comp {A : Type} (kv : A -> Z * Z) (l : list A) : list (Z * Z) := py_dict (map kv l).
(* d.items(): the (key, value) pairs in insertion order *)
Definition py_dict_items (d : list (Z * Z)) : list (Z * Z) := d.
(* d.get(k) *)
Fixpoint py_dict_get (d : list (Z * Z)) (k : Z) : option Z :=
  match d with
  | [] => None
  | (a, b) :: r => if a =? k then Some b else py_dict_get r k
  end.

(* ---------- networkx, graph = list of node ids (relabel_segmentation) ---------- *)
(* graph.nodes() *)
Definition nx_nodes (g : list Z) : list Z := g.
(* nx.relabel_nodes(graph, mapping, copy=False): every node that is a key of the mapping is
   renamed to its value (edges and attributes move with it: not represented); positions kept *)
Definition nx_relabel_nodes (g : list Z) (m : list (Z * Z)) : list Z :=
  map (fun n => match py_dict_get m n with Some v => v | None => n end) g.

(* ---------- networkx, abstract graph (relabel_segmentation_with_track_id) ---------- *)
(* NodeAttr.TIME.value / NodeAttr.SEG_ID.value: the attribute keys; the graph operations
   themselves are Section variables of the generated file (nothing is assumed about them) *)
Inductive node_attr : Set := NodeAttr_TIME | NodeAttr_SEG_ID.
