(* Model of the import pipeline of funtracks (post-fix tree):
     funtracks/import_export/_tracks_builder.py  : flatten_name_map, TracksBuilder._preprocess_name_map,
                                                   validate_name_map, _combine_multi_value_props, validate,
                                                   construct_graph, build
     funtracks/import_export/_validation.py      : validate_node_name_map, validate_spatial_dims_in_name_map,
                                                   validate_spatial_dims, validate_in_memory_geff
     funtracks/import_export/csv/_import.py      : _ensure_integer_ids, CSVTracksBuilder.load_source, tracks_from_df
     funtracks/import_export/geff/_import.py     : import_graph_from_geff (the part after read_to_memory),
                                                   GeffTracksBuilder.load_source, import_from_geff

   Strings (column names, standard keys, custom keys, string cells) are interned as Z codes by the
   harness; column names and keys live in ONE namespace (the code compares them: "id" in df.columns,
   `c != std_key`, ...).  The standard names have the fixed codes below.

   A cell is an integer-valued number (CInt: 5, 5.0 and True==1 are the same dictionary key in Python),
   an interned string, an opaque token (a non-integral float, compared by identity = by value) or
   empty (None / NaN / pd.NA).  A table is a list of column names plus rows of cells.

   Oracles (arguments of the model, answered by the real libraries in the harness):
     ityp    : pd.api.types.is_integer_dtype(<the column that becomes "id">)   (pandas dtype inference)
     trk_ok  : geff.validate.tracks.validate_tracklets on the imported ids/edges/track_id column
     lin_ok  : geff.validate.tracks.validate_lineages  on the imported ids/edges/lineage_id column
   Outside the model: parsing of CSV text, numpy dtype coercion of the values (an empty cell comes out
   as NaN, or as the string "nan" in a string column), ast.literal_eval of "[..]" strings in unmapped
   columns, None values in a name map, node_features/segmentation arguments, edge properties,
   geff/zarr IO, SolutionTracks construction.  With integer-typed ids a parent cell that is neither an
   integer-valued number nor empty makes int() raise ValueError for the strings the harness generates
   ("" and other non-numeric strings); numeric strings and non-integral floats (int() truncates) are
   outside the model's domain: the theorems state that parent cells are CInt/CNone where it matters. *)
From Coq Require Import ZArith List Bool.
From FT Require Import Base.Dict.
Import ListNotations.
Open Scope Z_scope.

(* ---------- data ---------- *)
Inductive cell := CInt (z : Z) | CStr (s : Z) | CTok (t : Z) | CNone.

(* Python == / hash equality of two cell values (dict lookup, Series.unique, Series.is_unique) *)
Definition cell_eqb (a b : cell) : bool :=
  match a, b with
  | CInt x, CInt y => x =? y
  | CStr x, CStr y => x =? y
  | CTok x, CTok y => x =? y
  | CNone, CNone => true
  | _, _ => false
  end.

(* value of a name map entry: "t" or ["y", "x"] *)
Inductive src := Single (c : Z) | Multi (cs : list Z).
Definition name_map := dict src.

Record table := { t_cols : list Z; t_rows : list (list cell) }.

(* standard names *)
Definition k_time : Z := 1.
Definition k_id : Z := 2.
Definition k_parent : Z := 3.
Definition k_pos : Z := 4.
Definition k_z : Z := 5.
Definition k_y : Z := 6.
Definition k_x : Z := 7.
Definition k_track : Z := 8.     (* "track_id" *)
Definition k_lineage : Z := 9.   (* "lineage_id" *)
Definition k_ell : Z := 10.      (* "ellipse_axis_radii" *)

(* result of an import: the graph, ValueError, or another exception (KeyError) *)
Inductive outcome (A : Type) := Ok (a : A) | ValueErr | OtherErr (code : Z).
Arguments Ok {A} a.
Arguments ValueErr {A}.
Arguments OtherErr {A} code.

(* a property array of the InMemoryGeff: 1-D values (PS) or 2-D values of a given width (PV),
   plus the optional boolean "missing" array *)
Inductive pcol := PS (v : list cell) | PV (w : nat) (v : list (list cell)).
Record prop := { p_vals : pcol; p_miss : option (list bool) }.
Definition props := dict prop.

(* attribute value on a networkx node: a scalar or a list (ndarray.tolist()) *)
Inductive value := VCell (c : cell) | VList (l : list cell).
Record graph := { g_nodes : list (Z * dict value); g_edges : list (Z * Z) }.

(* ---------- small decision procedures ---------- *)
Definition memc (c : cell) (l : list cell) : bool := existsb (cell_eqb c) l.
Fixpoint nodup_cells (l : list cell) : bool :=
  match l with [] => true | x :: r => negb (memc x r) && nodup_cells r end.
Fixpoint nodup_z (l : list Z) : bool :=
  match l with [] => true | x :: r => negb (memz x r) && nodup_z r end.
Definition pair_eqb (a b : Z * Z) : bool := (fst a =? fst b) && (snd a =? snd b).
Fixpoint nodup_pairs (l : list (Z * Z)) : bool :=
  match l with [] => true | x :: r => negb (existsb (pair_eqb x) r) && nodup_pairs r end.

(* ---------- the table as a DataFrame ---------- *)
(* position of the first column called c *)
Fixpoint col_index (c : Z) (cols : list Z) : nat :=
  match cols with [] => O | x :: r => if c =? x then O else S (col_index c r) end.
(* df[c] of one row *)
Definition cell_of (cols : list Z) (r : list cell) (c : Z) : cell := nth (col_index c cols) r CNone.
(* df[c] *)
Definition column (t : table) (c : Z) : list cell := map (fun r => cell_of (t_cols t) r c) (t_rows t).
(* the DataFrame as a dict of 1-D property arrays *)
Definition table_props (t : table) : props :=
  map (fun c => (c, {| p_vals := PS (column t c); p_miss := None |})) (t_cols t).

(* ---------- flatten_name_map ---------- *)
(* single: [(std_key, source)]   list: [(col, col) for col in source] *)
Definition flatten_entry (kv : Z * src) : list (Z * Z) :=
  match snd kv with
  | Single c => [(fst kv, c)]
  | Multi cs => map (fun c => (c, c)) cs
  end.
Definition flatten (nm : name_map) : list (Z * Z) := flat_map flatten_entry nm.

(* ---------- TracksBuilder._preprocess_name_map ---------- *)
(* for coord in ["z","y","x"]: if coord in map: (append the column if it is a str); del map[coord] *)
Definition legacy_step (st : name_map * list Z) (coord : Z) : name_map * list Z :=
  match lookup coord (fst st) with
  | Some (Single c) => (del coord (fst st), snd st ++ [c])
  | Some (Multi _) => (del coord (fst st), snd st)
  | None => st
  end.
(* if "pos" not in map: ...; if len(pos_components) >= 2: map["pos"] = pos_components *)
Definition legacy_pos (nm : name_map) : name_map :=
  if haskey k_pos nm then nm
  else let st := fold_left legacy_step [k_z; k_y; k_x] (nm, []) in
       if (2 <=? length (snd st))%nat then set k_pos (Multi (snd st)) (fst st) else fst st.
(* keys_to_remove = [k for k, v in map.items() if v is None or v == []] *)
Definition nonempty_src (kv : Z * src) : bool := match snd kv with Multi [] => false | _ => true end.
Definition preprocess (nm : name_map) : name_map := filter nonempty_src (legacy_pos nm).

(* ---------- validate_node_name_map ---------- *)
Definition sources (s : src) : list Z := match s with Single c => [c] | Multi cs => cs end.
(* none_mappings / missing_features: every required key is mapped *)
Definition required_ok (req : list Z) (nm : name_map) : bool := forallb (fun k => haskey k nm) req.
(* "pos" in map: a list needs >= 2 columns; absent (and no segmentation): ValueError *)
Definition pos_ok (nm : name_map) : bool :=
  match lookup k_pos nm with
  | Some (Multi cs) => (2 <=? length cs)%nat
  | Some (Single _) => true
  | None => false
  end.
(* if importable_node_props: every mapped source exists *)
Definition sources_ok (cols : list Z) (nm : name_map) : bool :=
  match cols with
  | [] => true
  | _ => forallb (fun kv => forallb (fun c => memz c cols) (sources (snd kv))) nm
  end.
(* the features with spatial_dims=True: Position and EllipsoidAxes *)
Definition sd_keys : list Z := [k_pos; k_ell].
(* validate_spatial_dims_in_name_map: list mappings of spatial features have ndim-1 elements *)
Definition spatial_entry_ok (skip_pos : bool) (e : nat) (kv : Z * src) : bool :=
  if skip_pos && (fst kv =? k_pos) then true
  else if negb (memz (fst kv) sd_keys) then true
  else match snd kv with Multi cs => Nat.eqb (length cs) e | Single _ => true end.
Definition spatial_map_ok (ndim : option nat) (nm : name_map) : bool :=
  match ndim with
  | Some n => forallb (spatial_entry_ok false (n - 1)%nat) nm
  | None => match lookup k_pos nm with
            | Some (Multi cs) => forallb (spatial_entry_ok true (length cs)) nm
            | _ => true
            end
  end.
Definition validate_name_map (req cols : list Z) (ndim : option nat) (nm : name_map) : bool :=
  required_ok req nm && pos_ok nm && sources_ok cols nm && spatial_map_ok ndim nm.

(* build(): if self.ndim is None and "pos" in map and it is a list: ndim = len + 1   (raw map) *)
Definition ndim_of_map (nm : name_map) : option nat :=
  match lookup k_pos nm with Some (Multi cs) => Some (S (length cs)) | _ => None end.

(* ---------- renaming loop shared by CSV load_source and import_graph_from_geff ---------- *)
(* for target, source in flatten_name_map(map): if source in <source props> and target not in new: new[target] = copy *)
Definition rename_step (srcp : props) (acc : props) (ts : Z * Z) : props :=
  match lookup (snd ts) srcp with
  | Some p => if haskey (fst ts) acc then acc else set (fst ts) p acc
  | None => acc
  end.
Definition rename (srcp : props) (nm : name_map) : props := fold_left (rename_step srcp) (flatten nm) [].

(* ---------- _combine_multi_value_props ---------- *)
Definition rows_of (p : pcol) : list (list cell) :=
  match p with PS v => map (fun c => [c]) v | PV _ v => v end.
Definition width_of (p : pcol) : nat := match p with PS _ => 1%nat | PV w _ => w end.
Fixpoint hstack (a b : list (list cell)) : list (list cell) :=
  match a, b with x :: a', y :: b' => (x ++ y) :: hstack a' b' | _, _ => [] end.
(* np.column_stack(col_arrays) *)
Definition column_stack (ps : list pcol) : pcol :=
  match ps with
  | [] => PV 0 []
  | p :: r => PV (fold_left (fun w q => (w + width_of q)%nat) r (width_of p))
                 (fold_left (fun a q => hstack a (rows_of q)) r (rows_of p))
  end.
Fixpoint orb_list (a b : list bool) : list bool :=
  match a, b with x :: a', y :: b' => (x || y) :: orb_list a' b' | _, _ => [] end.
Definition is_some {A} (o : option A) : bool := match o with Some _ => true | None => false end.
(* combined_missing = OR of the missing arrays that exist, None if none exists *)
Definition combine_missing (n : nat) (ms : list (option (list bool))) : option (list bool) :=
  if existsb is_some ms
  then Some (fold_left (fun acc m => match m with Some l => orb_list acc l | None => acc end) ms (repeat false n))
  else None.
Definition no_prop : prop := {| p_vals := PS []; p_miss := None |}.
(* col_arrays = [props[c]["values"] for c in source_cols]; combined = np.column_stack(col_arrays);
   missing_arrays = [props[c].get("missing") for c in source_cols]; ... *)
Definition comb_of (ps : props) (cs : list Z) : prop :=
  let srcs := map (fun c => getd c ps no_prop) cs in
  let stacked := column_stack (map p_vals srcs) in
  {| p_vals := stacked; p_miss := combine_missing (length (rows_of stacked)) (map p_miss srcs) |}.
(* one iteration of  for std_key, source_cols in name_map.items()  *)
Definition combine_entry (ps : props) (kv : Z * src) : props :=
  match snd kv with
  | Single _ => ps
  | Multi [] => ps
  | Multi cs =>
    if forallb (fun c => haskey c ps) cs then
      (* props[std_key] = {...};  for c in source_cols: if c in props and c != std_key: del props[c] *)
      fold_left (fun acc c => if c =? fst kv then acc else del c acc) cs (set (fst kv) (comb_of ps cs) ps)
    else ps   (* if missing_cols: continue *)
  end.
Definition combine_multi (nm : name_map) (ps : props) : props := fold_left combine_entry nm ps.

(* ---------- validate(): validate_spatial_dims + validate_in_memory_geff ---------- *)
(* actual_dims = values.shape[1] if values.ndim == 2 else 1  must equal ndim - 1 for spatial features *)
Definition spatial_props_ok (ndim : option nat) (ps : props) : bool :=
  match ndim with
  | None => true
  | Some n => forallb (fun kp => if memz (fst kp) sd_keys then Nat.eqb (width_of (p_vals (snd kp))) (n - 1)%nat else true) ps
  end.
(* validate_unique_node_ids, validate_nodes_for_edges, validate_no_self_edges, validate_no_repeated_edges *)
Definition edges_known (ids : list Z) (es : list (Z * Z)) : bool :=
  forallb (fun e => memz (fst e) ids && memz (snd e) ids) es.
Definition no_self_edges (es : list (Z * Z)) : bool := forallb (fun e => negb (fst e =? snd e)) es.
Definition structure_ok (ids : list Z) (es : list (Z * Z)) : bool :=
  nodup_z ids && edges_known ids es && no_self_edges es && nodup_pairs es.
(* track_id / lineage_id that do not validate are removed with a warning *)
Definition drop_invalid (trk_ok lin_ok : bool) (ps : props) : props :=
  let ps1 := if haskey k_track ps && negb trk_ok then del k_track ps else ps in
  if haskey k_lineage ps1 && negb lin_ok then del k_lineage ps1 else ps1.

(* ---------- geff.construct (networkx backend) ---------- *)
(* the attribute of node number i for one property: skipped when missing[i] *)
Definition value_at (p : prop) (i : nat) : option value :=
  if match p_miss p with Some m => nth i m false | None => false end then None
  else Some match p_vals p with PS v => VCell (nth i v CNone) | PV _ v => VList (nth i v []) end.
Definition node_attrs (ps : props) (i : nat) : dict value :=
  flat_map (fun kp => match value_at (snd kp) i with Some v => [(fst kp, v)] | None => [] end) ps.
Fixpoint construct_nodes (ps : props) (i : nat) (ids : list Z) : list (Z * dict value) :=
  match ids with [] => [] | x :: r => (x, node_attrs ps i) :: construct_nodes ps (S i) r end.
Definition construct (ids : list Z) (es : list (Z * Z)) (ps : props) : graph :=
  {| g_nodes := construct_nodes ps 0 ids; g_edges := es |}.

(* steps 3-4 of build(): validate, construct *)
Definition finish (ndim : option nat) (trk_ok lin_ok : bool) (ids : list Z) (es : list (Z * Z)) (ps : props) : outcome graph :=
  if negb (spatial_props_ok ndim ps) then ValueErr
  else if negb (structure_ok ids es) then ValueErr
  else Ok (construct ids es (drop_invalid trk_ok lin_ok ps)).

(* ---------- CSV: _ensure_integer_ids ---------- *)
(* Series.unique(): distinct values in order of first appearance *)
Fixpoint uniq_from (seen : list cell) (l : list cell) : list cell :=
  match l with
  | [] => []
  | x :: r => if memc x seen then uniq_from seen r else x :: uniq_from (x :: seen) r
  end.
Definition uniq (l : list cell) : list cell := uniq_from [] l.
(* {original_id: new_id for new_id, original_id in enumerate(unique_ids, start=1)} *)
Fixpoint enum_from (k : Z) (l : list cell) : list (cell * Z) :=
  match l with [] => [] | x :: r => (x, k) :: enum_from (k + 1) r end.
Definition id_mapping (ids : list cell) : list (cell * Z) := enum_from 1 (uniq ids).
Fixpoint cell_lookup (c : cell) (m : list (cell * Z)) : option Z :=
  match m with [] => None | (x, k) :: r => if cell_eqb c x then Some k else cell_lookup c r end.
(* Series.map(id_mapping): unmapped values become NaN / <NA> *)
Definition map_cell (m : list (cell * Z)) (c : cell) : cell :=
  match cell_lookup c m with Some k => CInt k | None => CNone end.

(* int(x) of a cell *)
Definition int_of_cell (c : cell) : option Z := match c with CInt z => Some z | _ => None end.
Fixpoint ints_of (l : list cell) : option (list Z) :=
  match l with
  | [] => Some []
  | c :: r => match int_of_cell c, ints_of r with Some z, Some zs => Some (z :: zs) | _, _ => None end
  end.
(* edge_tuples = [(int(p), int(c)) for p, c in zip(parent_ids, node_ids) if not isna(p) and p != -1] *)
Fixpoint edge_tuples (pars : list cell) (ids : list Z) : option (list (Z * Z)) :=
  match pars, ids with
  | p :: pr, i :: ir =>
    match p with
    | CNone => edge_tuples pr ir
    | CInt z => if z =? -1 then edge_tuples pr ir
                else match edge_tuples pr ir with Some es => Some ((z, i) :: es) | None => None end
    | _ => None      (* int("") : ValueError *)
    end
  | _, _ => Some []
  end.
Definition cells_of (p : prop) : list cell :=
  match p_vals p with PS v => v | PV _ v => map (fun r => hd CNone r) v end.

(* CSVTracksBuilder.required_features *)
Definition csv_required : list Z := [k_time; k_id; k_parent].

(* the empty string "" has the reserved code 0 *)
Definition empty_str : cell := CStr 0.
(* _ensure_integer_ids: unknown = parents.notna() & ~parents.isin(id_mapping) & ~parents.isin(["", -1]) *)
Definition is_unknown (m : list (cell * Z)) (p : cell) : bool :=
  negb (cell_eqb p CNone) && negb (memc p (map fst m)) && negb (cell_eqb p empty_str) && negb (cell_eqb p (CInt (-1))).

(* CSVTracksBuilder.build for a non-empty name map *)
Definition import_csv_body (t : table) (ityp trk_ok lin_ok : bool) (nm0 : name_map) : outcome graph :=
  let ndim0 := ndim_of_map nm0 in
  let nm := preprocess nm0 in
  if negb (validate_name_map csv_required (t_cols t) ndim0 nm) then ValueErr
  else
    let df := rename (table_props t) nm in
    (* if "id" in df.columns and not df["id"].is_unique: raise ValueError      (the MAPPED id column) *)
    if negb (match lookup k_id df with Some pi => nodup_cells (cells_of pi) | None => true end) then ValueErr
    else
    match lookup k_id df, lookup k_parent df with
    | Some pi, Some pp =>
      (* _ensure_integer_ids: one mapping, applied to id and parent_id; a parent that is neither empty
         (NaN / "" / -1) nor an id raises ValueError *)
      let m := id_mapping (cells_of pi) in
      if negb ityp && existsb (is_unknown m) (cells_of pp) then ValueErr else
      let idc := if ityp then cells_of pi else map (map_cell m) (cells_of pi) in
      let parc := if ityp then cells_of pp else map (map_cell m) (cells_of pp) in
      (* if self.ndim is None: from the (preprocessed) pos mapping, or 4 if "z" in df.columns else 3 *)
      let ndim := match ndim0 with
                  | Some n => Some n
                  | None => match lookup k_pos nm with
                            | Some (Multi cs) => Some (S (length cs))
                            | Some (Single _) => Some (if haskey k_z df then 4%nat else 3%nat)
                            | None => Some 1%nat
                            end
                  end in
      match ints_of idc with
      | Some ids =>
        match edge_tuples parc ids with
        | Some es => finish ndim trk_ok lin_ok ids es (combine_multi nm (del k_parent (del k_id df)))
        | None => ValueErr
        end
      | None => ValueErr
      end
    | _, _ => OtherErr 1     (* df_dict.pop("id") / pop("parent_id"): KeyError *)
    end.
(* tracks_from_df(df, node_name_map=nm) = CSVTracksBuilder: read_header; build
   (if not self.node_name_map: raise ValueError) *)
Definition import_csv (t : table) (ityp trk_ok lin_ok : bool) (nm0 : name_map) : outcome graph :=
  match nm0 with [] => ValueErr | _ => import_csv_body t ityp trk_ok lin_ok nm0 end.

(* ---------- GEFF: import_from_geff after read_to_memory ---------- *)
(* GeffTracksBuilder.required_features *)
Definition geff_required : list Z := [k_time].
Definition import_geff_body (ids : list Z) (es : list (Z * Z)) (store : props) (trk_ok lin_ok : bool) (nm0 : name_map) : outcome graph :=
  let ndim0 := ndim_of_map nm0 in
  let nm := preprocess nm0 in
  if negb (validate_name_map geff_required (keys store) ndim0 nm) then ValueErr
  else
    let ps0 := rename store nm in
    (* import_graph_from_geff: ndims from the pos mapping (list) or from the stacked pos array
       (renamed_node_props["pos"]: KeyError when absent); kept only if self.ndim is still None *)
    let ndims : outcome nat :=
      match lookup k_pos nm with
      | Some (Multi cs) => Ok (S (length cs))
      | Some (Single _) => match lookup k_pos ps0 with
                           | Some p => Ok (match p_vals p with PV w _ => S w | PS _ => 2%nat end)
                           | None => OtherErr 1
                           end
      | None => Ok 1%nat
      end in
    match ndims with
    | Ok nd =>
      let ndim := match ndim0 with Some n => Some n | None => Some nd end in
      finish ndim trk_ok lin_ok ids es (combine_multi nm ps0)
    | ValueErr => ValueErr
    | OtherErr c => OtherErr c
    end.
Definition import_geff (ids : list Z) (es : list (Z * Z)) (store : props) (trk_ok lin_ok : bool) (nm0 : name_map) : outcome graph :=
  match nm0 with [] => ValueErr | _ => import_geff_body ids es store trk_ok lin_ok nm0 end.
