(* Construction of a SolutionTracks from a graph whose nodes may already carry managed features
   (data_model/tracks.py: Tracks.__init__, _check_existing_feature, _setup_core_computed_features;
   annotators/_track_annotator.py: TrackAnnotator.__init__, _get_max_id_and_map).

   Every core feature that the FIRST node of the graph carries is activated without computation (its
   values are taken at face value); every other one is enabled with computation. The id lookups are
   first filled by a scan over whatever ids the nodes carry; a computation of the ids replaces them.
   Definitions only (executable: the correspondence check runs them against the implementation); the
   theorems are in Proofs/EditCtor.v. *)
From Coq Require Import ZArith List Bool.
From FT Require Import Base.Dict Model.Edit Model.Toggle.
Import ListNotations.
Open Scope Z_scope.

(* TrackAnnotator._get_max_id_and_map(key): group the nodes by their id in graph order; ids that are
   missing (None) are skipped; the maximum starts at 0 *)
Definition scan_step (st : state) (key : Z) (acc : Z * dict (list Z)) (n : Z) : Z * dict (list Z) :=
  match attr st n key with
  | Some (VZ i) => (Z.max (fst acc) i, set i (getd i (snd acc) [] ++ [n]) (snd acc))
  | _ => acc
  end.
Definition scan_ids (st : state) (key : Z) : Z * dict (list Z) :=
  fold_left (scan_step st key) (keys (nodes (g st))) (0, []).

(* TrackAnnotator.__init__ : both lookups from the scan *)
Definition scan_books (st : state) : state :=
  let t := scan_ids st KTrack in
  let l := scan_ids st KLin in
  upd_bk st {| trk_book := snd t; lin_book := snd l; max_trk := fst t; max_lin := fst l |}.

(* Tracks._check_existing_feature(key): the key is on the first node (True when there is no node) *)
Definition first_has (st : state) (key : Z) : bool :=
  match keys (nodes (g st)) with
  | [] => true
  | n :: _ => haskey key (node_attrs st n)
  end.

(* one round of the loop of _setup_core_computed_features: activate an existing feature, compute a missing one *)
Definition ctor_step (ctrk clin : list (list Z)) (st : state) (k : Z) : state :=
  match enable_features st [k] (negb (first_has st k)) ctrk clin with Ok _ s => s | Err _ s => s end.

(* the keys the loop visits: position and area when there is an array, then the two ids *)
Definition ctor_keys (with_seg : bool) : list Z := (if with_seg then [KPos; KArea] else []) ++ [KTrack; KLin].
Definition with_seg (st : state) : bool := match seg st with Some _ => true | None => false end.

(* SolutionTracks(graph, segmentation, ...) followed by enable_features([k]) for each extra key *)
Definition construct_any (r0 : state) (ctrk clin : list (list Z)) (extra : list Z) : state :=
  let st1 := fold_left (ctor_step ctrk clin) (ctor_keys (with_seg r0)) (scan_books r0) in
  fold_left (fun st k => match enable_features st [k] true ctrk clin with Ok _ s => s | Err _ s => s end) extra st1.

(* ---- Tracks.__init__ with a prepared FeatureDict (features=...): _activate_features_from_dict.
   The registry is the caller's; every registered key that some annotator can manage is activated
   WITHOUT computation (the values on the graph are taken at face value); nothing is computed. ---- *)
Definition activate_from_dict (st : state) : state :=
  fold_left (fun s k => if memz k (available s) then upd_ft s (set_flags (ft s) [k] true) else s)
            (reg_node (ft st) ++ reg_edge (ft st)) st.
Definition construct_dict (r0 : state) : state := activate_from_dict (scan_books r0).
