(* Model of the reshaping that the exporter / importer pairs of funtracks do around the
   three file formats (post-fix tree):

     funtracks/import_export/csv/_export.py      export_to_csv            (use_display_names=False)
     funtracks/import_export/csv/_import.py      CSVTracksBuilder.load_source
     funtracks/import_export/geff/_export.py     split_position_attr
     funtracks/import_export/geff/_import.py     import_graph_from_geff (renaming part)
     funtracks/import_export/_tracks_builder.py  flatten_name_map, _combine_multi_value_props,
                                                 construct_graph (geff.construct)
     funtracks/features/_feature_dict.py         FeatureDict.__init__ / dump_json / from_json
     funtracks/import_export/_validation.py      validate_in_memory_geff (track_id part)
     funtracks/data_model/tracks.py              _check_existing_feature, _setup_core_computed_features

   What is NOT modelled is the file IO itself (pandas to_csv/read_csv, geff.write/read_to_memory,
   json.dump/load, np.save/load): these are oracles, made explicit as Section hypotheses in
   Proofs/RoundTripProofs.v and checked value by value by harness/props/c14.py.

   Encoding.  Attribute names, column names and feature keys are Z codes (the harness fixes the
   table).  Every scalar (time, track id, one coordinate, a feature value) is an opaque Z token;
   an attribute value is the list of its tokens ([value]): a scalar is a singleton, a position
   the list of its coordinates.  A table cell is [option Z] (None = the empty string / NaN).
   Dicts are the insertion-ordered association lists of Base/Dict.v. *)
From Coq Require Import ZArith List Bool.
From FT Require Import Base.Dict.
Import ListNotations.
Open Scope Z_scope.

(* ---------- names (standard keys of the importers and the column names the CSV exporter writes) ---------- *)
Definition K_time := 0.      (* "time"       (standard key) *)
Definition K_pos := 1.       (* "pos"        (standard key) *)
Definition K_track := 2.     (* "track_id"   (standard key; also the CSV column name) *)
Definition K_lineage := 3.   (* "lineage_id" *)
Definition K_z := 10.        (* "z" *)
Definition K_y := 11.        (* "y" *)
Definition K_x := 12.        (* "x" *)
Definition K_id := 20.       (* "id" *)
Definition K_parent := 21.   (* "parent_id" *)
Definition C_t := 22.        (* "t": the CSV column of the time *)

Definition value := list Z.
Definition attrs := dict value.
Definition cell := option Z.
(* a networkx DiGraph: nodes with their attribute dicts in insertion order; edges (source, target)
   in insertion order *)
Record graph := { g_nodes : list (Z * attrs); g_edges : list (Z * Z) }.
(* tracks.features.position_key : str | list[str] *)
Inductive poskey := PSingle (k : Z) | PMulti (ks : list Z).
(* a value of a name map: str | list[str] *)
Inductive mapping := MSingle (src : Z) | MMulti (srcs : list Z).
Definition name_map := list (Z * mapping).

(* list(graph.predecessors(n)) *)
Definition preds (g : graph) (n : Z) : list Z := map fst (filter (fun e => snd e =? n) (g_edges g)).

(* Tracks.get_position: the single attribute, or np.stack of one attribute per axis *)
Definition get_position (pk : poskey) (a : attrs) : value :=
  match pk with
  | PSingle k => getd k a []
  | PMulti ks => flat_map (fun k => getd k a []) ks
  end.

(* coords = ["z", "y", "x"] if tracks.ndim == 4 else ["y", "x"]
   (the same list is new_keys of split_position_attr and TracksBuilder.axis_names) *)
Definition coords (is3d : bool) : list Z := if is3d then [K_z; K_y; K_x] else [K_y; K_x].

(* ====================== CSV export ====================== *)
(* header = ["t"] + coords + ["id", "parent_id", "track_id"] *)
Definition csv_header (is3d : bool) : list Z := [C_t] ++ coords is3d ++ [K_id; K_parent; K_track].

(* one iteration of "for node_id in node_to_keep":
     parents = list(predecessors); parent_id = "" if len(parents) == 0 else parents[0]
     row["id"] = node_id; row["parent_id"] = parent_id; row["t"] = get_time(node)
     for name, value in zip(coords, pos, strict=True): row[name] = value
     row["track_id"] = get_track_id(node)
   tk / trk are tracks.features.time_key / tracklet_key.  zip(strict=True) raises on a length
   mismatch; [combine] truncates: the theorems assume equal lengths. *)
Definition csv_row (g : graph) (tk : Z) (pk : poskey) (trk : Z) (is3d : bool) (n : Z * attrs) : dict cell :=
  let i := fst n in
  let a := snd n in
  let row := set K_parent (hd_error (preds g i)) (set K_id (Some i) []) in
  let row := set C_t (hd_error (getd tk a [])) row in
  let row := fold_left (fun r cv => set (fst cv) (Some (snd cv)) r) (combine (coords is3d) (get_position pk a)) row in
  set K_track (hd_error (getd trk a [])) row.

(* a DataFrame: column name -> column, in column order *)
Definition table := dict (list cell).

(* df = pd.DataFrame(rows, columns=header)      (a key absent from a row is NaN; with no rows
   the columns are empty: a header-only file) *)
Definition dataframe (rows : list (dict cell)) (header : list Z) : table :=
  map (fun c => (c, map (fun r => getd c r None) rows)) header.

Definition export_csv (g : graph) (tk : Z) (pk : poskey) (trk : Z) (is3d : bool) : table :=
  dataframe (map (csv_row g tk pk trk is3d) (g_nodes g)) (csv_header is3d).

(* ====================== shared importer steps ====================== *)
(* flatten_name_map: {"time": "t"} -> [("time", "t")];  {"pos": ["y", "x"]} -> [("y","y"), ("x","x")] *)
Fixpoint flatten_name_map (nm : name_map) : list (Z * Z) :=
  match nm with
  | [] => []
  | (std, MSingle s) :: r => (std, s) :: flatten_name_map r
  | (std, MMulti cs) :: r => map (fun c => (c, c)) cs ++ flatten_name_map r
  end.

(* for target_key, source_col in flatten_name_map(name_map):
       if source_col in df.columns and target_key not in new_df_data: new_df_data[target_key] = df[source_col]
   (identical loop over node_props in import_graph_from_geff) *)
Definition rename_props {V} (flat : list (Z * Z)) (src : dict V) : dict V :=
  fold_left (fun acc ts => match lookup (snd ts) src with
                           | Some v => if haskey (fst ts) acc then acc else set (fst ts) v acc
                           | None => acc
                           end) flat [].

(* a property array: one row of cells per node (1-D array: rows of width 1) *)
Definition column := list (list cell).
Definition wrap (c : list cell) : column := map (fun x => [x]) c.

(* np.column_stack: rows are concatenated position-wise (equal lengths assumed) *)
Fixpoint zipapp (a b : column) : column :=
  match a, b with
  | x :: a', y :: b' => (x ++ y) :: zipapp a' b'
  | _, _ => []
  end.
Definition column_stack (cols : list column) : column :=
  match cols with [] => [] | c :: r => fold_left zipapp r c end.

(* one iteration of _combine_multi_value_props:
     if not isinstance(source_cols, list) or len(source_cols) == 0: continue
     if any column is missing: continue
     props[std_key] = column_stack([props[c] for c in source_cols])
     for c in source_cols: if c in props and c != std_key: del props[c]
   (the "missing" masks are all None for a CSV and for a GEFF whose attributes are on every node) *)
Definition combine_step (props : dict column) (m : Z * mapping) : dict column :=
  match snd m with
  | MSingle _ => props
  | MMulti [] => props
  | MMulti cs =>
      if forallb (fun c => haskey c props) cs then
        let combined := column_stack (map (fun c => getd c props []) cs) in
        fold_left (fun p c => if c =? fst m then p else del c p) cs (set (fst m) combined props)
      else props
  end.
Definition combine_multi (props : dict column) (nm : name_map) : dict column := fold_left combine_step nm props.

(* a row of cells as an attribute value (a NaN cell contributes nothing: never the case under
   the theorems' hypotheses) *)
Definition to_value (r : list cell) : value := flat_map (fun c => match c with Some x => [x] | None => [] end) r.

(* geff.construct: node i gets {name: values[i]} for every property, in property order *)
Fixpoint construct (ids : list Z) (props : dict column) : list (Z * attrs) :=
  match ids with
  | [] => []
  | i :: r => (i, map (fun kc => (fst kc, to_value (hd [] (snd kc)))) props)
              :: construct r (map (fun kc => (fst kc, tl (snd kc))) props)
  end.

(* ====================== CSV import (CSVTracksBuilder.load_source + build steps 2 and 4) ====================== *)
(* edge_tuples = [(int(p), int(c)) for p, c in zip(parent_ids, node_ids) if not isna(p) and p != -1] *)
Definition edge_tuples (parents ids : list cell) : list (Z * Z) :=
  flat_map (fun pc => match pc with
                      | (Some p, Some c) => if p =? -1 then [] else [(p, c)]
                      | _ => []
                      end) (combine parents ids).
Definition cat_some (l : list cell) : list Z := to_value l.

(* load_source: rename to the standard keys, pop "id" and "parent_id", the rest are node_props;
   build: _combine_multi_value_props, construct_graph.
   (_ensure_integer_ids is the identity on integer ids; NaN -> None is the identity on cells) *)
Definition import_csv (nm : name_map) (df : table) : graph :=
  let df1 := rename_props (flatten_name_map nm) df in
  let ids := getd K_id df1 [] in
  let parents := getd K_parent df1 [] in
  let props := map (fun kc => (fst kc, wrap (snd kc))) (del K_parent (del K_id df1)) in
  let props := combine_multi props nm in
  {| g_nodes := construct (cat_some ids) props; g_edges := edge_tuples parents ids |}.

(* the explicit name map of the round trip *)
Definition explicit_csv_map (is3d : bool) : name_map :=
  [(K_id, MSingle K_id); (K_parent, MSingle K_parent); (K_time, MSingle C_t);
   (K_pos, MMulti (coords is3d)); (K_track, MSingle K_track)].

(* what a CSV carries of a node: time, track id, position (in the key order the importer produces) *)
Definition csv_projection (tk : Z) (pk : poskey) (trk : Z) (n : Z * attrs) : Z * attrs :=
  (fst n, [(K_time, getd tk (snd n) []); (K_track, getd trk (snd n) []); (K_pos, get_position pk (snd n))]).
(* the edges a CSV carries: the first predecessor of every node, in node order *)
Definition csv_edges (g : graph) : list (Z * Z) :=
  edge_tuples (map (fun n => hd_error (preds g (fst n))) (g_nodes g)) (map (fun n => Some (fst n)) (g_nodes g)).

(* ====================== GEFF export: split_position_attr ====================== *)
Definition enumerate {A} (l : list A) : list (nat * A) := combine (seq 0 (length l)) l.
(* pos = attrs.pop(pos_key); for i in range(len(new_keys)): attrs[new_keys[i]] = pos[i]
   (pos[i] raises IndexError when pos is short; [nth] is total: the theorems assume the length) *)
Definition split_attrs (pk : Z) (keys : list Z) (a : attrs) : attrs :=
  let pos := getd pk a [] in
  fold_left (fun acc ik => set (snd ik) [nth (fst ik) pos 0] acc) (enumerate keys) (del pk a).
(* isinstance(pos_key, str): split every node, axis names = new_keys;  a list: graph as is, axis names = the keys *)
Definition split_position_attr (g : graph) (pk : poskey) (is3d : bool) : graph * list Z :=
  match pk with
  | PSingle k => ({| g_nodes := map (fun n => (fst n, split_attrs k (coords is3d) (snd n))) (g_nodes g);
                     g_edges := g_edges g |}, coords is3d)
  | PMulti ks => (g, ks)
  end.

(* oracle model of geff.write followed by read_to_memory for attributes present on every node:
   property [k] is the array of the nodes' values of [k], in node order ([names]: the properties read) *)
Definition geff_columns (names : list Z) (ns : list (Z * attrs)) : dict column :=
  map (fun k => (k, map (fun n => map Some (getd k (snd n) [])) ns)) names.

(* GEFF import: import_graph_from_geff renaming, _combine_multi_value_props, geff.construct *)
Definition import_geff (nm : name_map) (ids : list Z) (cols : dict column) : list (Z * attrs) :=
  construct ids (combine_multi (rename_props (flatten_name_map nm) cols) nm).

(* ====================== internal format: FeatureDict <-> JSON ====================== *)
Inductive json :=
| JNull
| JAtom (a : Z)                      (* a string / number / bool, opaque *)
| JList (l : list json)
| JObj (o : list (Z * json)).

Definition J_FeatureDict := 100.
Definition J_features := 101.
Definition J_time_key := 102.
Definition J_position_key := 103.
Definition J_tracklet_key := 104.
Definition J_lineage_key := 105.

(* a Feature is a TypedDict: kept as the JSON object it is dumped to *)
Record feature_dict := {
  fd_features : dict json;
  fd_time : Z;
  fd_pos : option poskey;
  fd_tracklet : option Z;
  fd_lineage : option Z }.

Definition enc_opt (o : option Z) : json := match o with Some k => JAtom k | None => JNull end.
Definition enc_pos (p : option poskey) : json :=
  match p with
  | None => JNull
  | Some (PSingle k) => JAtom k
  | Some (PMulti ks) => JList (map JAtom ks)
  end.
(* dump_json *)
Definition dump_json (fd : feature_dict) : json :=
  JObj [(J_FeatureDict, JObj [(J_features, JObj (fd_features fd));
                              (J_time_key, JAtom (fd_time fd));
                              (J_position_key, enc_pos (fd_pos fd));
                              (J_tracklet_key, enc_opt (fd_tracklet fd));
                              (J_lineage_key, enc_opt (fd_lineage fd))])].

Definition atoms (l : list json) : option (list Z) :=
  fold_right (fun j acc => match j, acc with JAtom k, Some r => Some (k :: r) | _, _ => None end) (Some []) l.
Definition dec_opt (j : option json) : option Z := match j with Some (JAtom k) => Some k | _ => None end.

(* FeatureDict.__init__: KeyError (None) unless time_key and every position key are features *)
Definition fd_init (features : dict json) (time_key : Z) (pos : option poskey) (trk lin : option Z) : option feature_dict :=
  let ok_pos := match pos with
                | None => true
                | Some (PSingle k) => haskey k features
                | Some (PMulti ks) => forallb (fun k => haskey k features) ks
                end in
  if haskey time_key features && ok_pos then
    Some {| fd_features := features; fd_time := time_key; fd_pos := pos; fd_tracklet := trk; fd_lineage := lin |}
  else None.

(* from_json: data = json_dict["FeatureDict"]; cls(features=data["features"], time_key=data["time_key"],
   position_key=data["position_key"], tracklet_key=data.get("tracklet_key"), lineage_key=data.get("lineage_key"))
   None = KeyError (or a value of the wrong JSON shape) *)
Definition from_json (j : json) : option feature_dict :=
  match j with
  | JObj top =>
    match lookup J_FeatureDict top with
    | Some (JObj data) =>
      match lookup J_features data, lookup J_time_key data, lookup J_position_key data with
      | Some (JObj feats), Some (JAtom tk), Some jp =>
        let trk := dec_opt (lookup J_tracklet_key data) in
        let lin := dec_opt (lookup J_lineage_key data) in
        match jp with
        | JNull => fd_init feats tk None trk lin
        | JAtom k => fd_init feats tk (Some (PSingle k)) trk lin
        | JList l => match atoms l with Some ks => fd_init feats tk (Some (PMulti ks)) trk lin | None => None end
        | JObj _ => None
        end
      | _, _, _ => None
      end
    | _ => None
    end
  | _ => None
  end.

(* the invariant FeatureDict.__init__ establishes *)
Definition fd_valid (fd : feature_dict) : bool :=
  haskey (fd_time fd) (fd_features fd) &&
  match fd_pos fd with
  | None => true
  | Some (PSingle k) => haskey k (fd_features fd)
  | Some (PMulti ks) => forallb (fun k => haskey k (fd_features fd)) ks
  end.

(* ====================== existing track ids are activated, not recomputed ====================== *)
(* validate_in_memory_geff: if "track_id" in node_props and not validate_tracklets(...): del node_props["track_id"]
   ([valid]: the answer of geff.validate.tracks.validate_tracklets, an oracle) *)
Definition validate_track_prop (valid : bool) (props : dict column) : dict column :=
  if haskey K_track props then (if valid then props else del K_track props) else props.

(* _check_existing_feature: true without nodes, else whether the first node carries the key *)
Definition check_existing (ns : list (Z * attrs)) (key : Z) : bool :=
  match ns with [] => true | n :: _ => haskey key (snd n) end.

(* one iteration of the last loop of _setup_core_computed_features for a feature of the TrackAnnotator:
     if self._check_existing_feature(key): activate (values untouched)
     else: self.enable_features([key])  -> annotators.compute: every node gets the computed value
   [compute]: what the annotator would assign (an oracle of the graph) *)
Definition setup_feature (compute : list (Z * attrs) -> Z -> value) (ns : list (Z * attrs)) (key : Z) : list (Z * attrs) :=
  if check_existing ns key then ns
  else map (fun n => (fst n, set key (compute ns (fst n)) (snd n))) ns.
