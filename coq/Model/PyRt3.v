(* Python runtime combinators used by Gen/Core_gen.v (written by harness/translate_core.py):
   the code the user actions call -- SolutionTracks / Tracks queries, Tracks.undo / redo,
   TrackAnnotator's incremental handlers, the basic actions.  Hand-written, small, trusted
   together with the translator's idiom table: every definition states the Python construct
   it stands for.  Everything lives in the [res] monad of Model/Edit.v (an exception is an
   [Err] carrying the state at the raise); [py_for], [py_get_track_id], [key_is_none],
   [opt_eqb], [val_z] are reused from Model/PyRt.v. *)
From Coq Require Import ZArith List Bool.
From FT Require Import Base.Dict Model.Edit Model.PyRt.
Import ListNotations.
Open Scope Z_scope.

(* ---------- where the Python objects live in the model state ----------
   TrackAnnotator.tracklet_id_to_nodes / lineage_id_to_nodes / max_tracklet_id / max_lineage_id
   are the four fields of [bk]; Tracks.node_id_counter is [nctr] (written with [upd_nctr]). *)
Definition set_trk_book (st : state) (b : dict (list Z)) : state :=
  upd_bk st {| trk_book := b; lin_book := lin_book (bk st); max_trk := max_trk (bk st); max_lin := max_lin (bk st) |}.
Definition set_lin_book (st : state) (b : dict (list Z)) : state :=
  upd_bk st {| trk_book := trk_book (bk st); lin_book := b; max_trk := max_trk (bk st); max_lin := max_lin (bk st) |}.
Definition set_max_trk (st : state) (z : Z) : state :=
  upd_bk st {| trk_book := trk_book (bk st); lin_book := lin_book (bk st); max_trk := z; max_lin := max_lin (bk st) |}.
Definition set_max_lin (st : state) (z : Z) : state :=
  upd_bk st {| trk_book := trk_book (bk st); lin_book := lin_book (bk st); max_trk := max_trk (bk st); max_lin := z |}.

(* ---------- dicts and lists ---------- *)
(* d[k] (read): KeyError when absent *)
Definition py_getitem {V : Type} (d : dict V) (k : Z) (s : state) : res V :=
  match lookup k d with Some v => Ok v s | None => Err EKey s end.
(* del d[k]: KeyError when absent *)
Definition py_delitem {V : Type} (d : dict V) (k : Z) (s : state) : res (dict V) :=
  if haskey k d then Ok (del k d) s else Err EKey s.
(* l.remove(x): ValueError when absent *)
Definition py_list_remove (l : list Z) (x : Z) (s : state) : res (list Z) :=
  if memz x l then Ok (remove1 x l) s else Err EValue s.
(* l[i] = v: IndexError outside 0 <= i < len(l)  (negative indices are outside the idiom table's use) *)
Fixpoint list_set (l : list Z) (i : nat) (v : Z) : list Z :=
  match l, i with
  | [], _ => []
  | _ :: r, O => v :: r
  | x :: r, S j => x :: list_set r j v
  end.
Definition py_list_setitem (l : list Z) (i v : Z) (s : state) : res (list Z) :=
  if (0 <=? i) && (i <? Z.of_nat (length l)) then Ok (list_set l (Z.to_nat i) v) s else Err EIndex s.
(* truthiness of a list *)
Definition py_truthy {A : Type} (l : list A) : bool := match l with [] => false | _ => true end.
(* x is not None *)
Definition py_is_some {A : Type} (x : option A) : bool := match x with Some _ => true | None => false end.
(* range(n) *)
Definition py_range (n : Z) : list Z := map Z.of_nat (seq 0 (Z.to_nat n)).
(* enumerate(l) *)
Definition py_enumerate (l : list Z) : list (Z * Z) := combine (map Z.of_nat (seq 0 (length l))) l.
(* l.sort(key=f) / sorted(l, key=f): stable, ascending by key *)
Fixpoint py_insert_by (key : Z -> Z) (x : Z) (l : list Z) : list Z :=
  match l with
  | [] => [x]
  | y :: r => if key x <? key y then x :: y :: r else y :: py_insert_by key x r
  end.
Definition py_sorted_by (key : Z -> Z) (l : list Z) : list Z :=
  fold_left (fun acc x => py_insert_by key x acc) l [].

(* ---------- loops ---------- *)
(* for x in l: body  with `break`: the body says whether the loop goes on *)
Inductive ctl := CNext | CBreak.
Fixpoint py_for_brk {A B : Type} (l : list A) (b : B) (s : state) (f : A -> B -> state -> res (ctl * B)) : res B :=
  match l with
  | [] => Ok b s
  | x :: r => bind (f x b s) (fun cb s' => match fst cb with CNext => py_for_brk r (snd cb) s' f | CBreak => Ok (snd cb) s' end)
  end.
(* while c: body     -- fuelled: [fuel] runs of the body at most.  A loop that still wants to
   run then is reported as [EFuel] ("Python would go on"; with the fuel the tie theorems use
   this is the hand model's convention for "loops forever").  There is no state at such a
   raise: as in Model/Edit.v the error carries the state at the entry of the loop. *)
Fixpoint py_while_from {B : Type} (s0 : state) (fuel : nat) (b : B) (s : state)
    (c : B -> state -> bool) (f : B -> state -> res B) : res B :=
  if c b s then
    match fuel with
    | O => Err EFuel s0
    | S k => bind (f b s) (fun b' s' => py_while_from s0 k b' s' c f)
    end
  else Ok b s.
Definition py_while {B : Type} (fuel : nat) (b : B) (s : state) (c : B -> state -> bool) (f : B -> state -> res B) : res B :=
  py_while_from s fuel b s c f.

(* ---------- graph attributes ---------- *)
(* tracks.get_node_attr(n, k, required=True) = graph.nodes[n][k] for an id key: KeyError when the
   node or the attribute is missing.  Model convention (PyRt.py_get_track_id): id attributes are
   read as integers. *)
Definition py_node_attr_req_z (s : state) (n k : Z) : res Z :=
  match zattr s n k with Some z => Ok z s | None => Err EKey s end.
(* tracks.get_node_attr(n, k) = graph.nodes[n].get(k, None): KeyError for a missing node only *)
Definition py_node_attr_get_z (s : state) (n k : Z) : res (option Z) :=
  if has_node s n then Ok (zattr s n k) s else Err EKey s.
(* tracks._set_node_attr(n, k, v) = graph.nodes[n][k] = v: KeyError for a missing node *)
Definition py_set_node_attr (s : state) (n k : Z) (v : value) : res unit :=
  if has_node s n then Ok tt (set_node_attr s n k v) else Err EKey s.
(* an `int | None` stored as an attribute value *)
Definition val_of_optz (o : option Z) : value := match o with Some z => VZ z | None => VNone end.
(* attributes.get(k) for an id key (a dict held by an action): an integer or None *)
Definition py_attrs_get_z (a : attrs) (k : Z) : option Z :=
  match lookup k a with Some (VZ z) => Some z | _ => None end.

(* ---------- tracks.action_history.undo() / .redo() in the res monad ----------
   action_history.py itself is translated separately (Gen/History_gen.v, harness/translate_history.py)
   over a total [inv]; these two are the same code with `action.inverse()` = [inv_action], whose
   exception leaves the method at once (undo: nothing appended; redo: the action already popped).
   Proofs/CoreTie.v, [hist_undo_generated] / [hist_redo_generated], ties them to the generated code. *)
Definition hist_undo (st : state) : res bool :=
  let nu := length (undo_stack st) in let nr := length (redo_stack st) in
  if (nu <=? nr)%nat then Ok false st else
  match nth_error (undo_stack st) (nu - nr - 1) with
  | None => Ok false st
  | Some a => do b, s <- inv_action st a; Ok true (upd_hist s (undo_stack s) (redo_stack s ++ [b]))
  end.
Definition hist_redo (st : state) : res bool :=
  match rev (redo_stack st) with
  | [] => Ok false st
  | b :: r' => do _x, s <- inv_action (upd_hist st (undo_stack st) (rev r')) b; Ok true s
  end.

(* `assert c`: AssertionError has no code in [err]; EValue stands in *)
Definition py_assert (c : bool) (s : state) : res unit := if c then Ok tt s else Err EValue s.

(* ---------- the basic actions (actions/*.py) ---------- *)
(* tracks.notify_annotators(action) = for annotator in registry: annotator.update(action), the registry being
   [RegionpropsAnnotator; EdgeAnnotator; TrackAnnotator] (Tracks._get_annotators).  TrackAnnotator.update is
   translated (gen_track_annotator_update); the other two are the hand model of Model/Edit.v:           *)
(* RegionpropsAnnotator.update: AddNode / UpdateNodeSeg only; nothing without a segmentation or without
   active keys; get_time(node) raises KeyError for a node that is not in the graph *)
Definition py_regionprops_update (s : state) (b : basic) : res unit :=
  let upd n := match seg s, rp_act (ft s) with
               | None, _ => Ok tt s
               | _, [] => Ok tt s
               | Some _, _ :: _ => if has_node s n then Ok tt (rp_update s n) else Err EKey s
               end in
  match b with
  | BAddNode n _ _ => upd n
  | BUpdSeg n _ _ => upd n
  | _ => Ok tt s
  end.
(* EdgeAnnotator.update: AddEdge / UpdateNodeSeg only; nothing without a segmentation or with the iou key
   inactive; graph.in_edges(node) raises NetworkXError for a node that is not in the graph *)
Definition py_edge_update (s : state) (b : basic) : res unit :=
  match b with
  | BAddEdge u v _ => Ok tt (iou_update_edges s [(u, v)])
  | BUpdSeg n _ _ =>
      match seg s with
      | None => Ok tt s
      | Some _ => if iou_act (ft s)
                  then if has_node s n
                       then Ok tt (iou_update_edges s (map (fun p => (p, n)) (predecessors s n) ++ map (fun c => (n, c)) (successors s n)))
                       else Err ENetworkX s
                  else Ok tt s
      end
  | _ => Ok tt s
  end.

(* ---------- networkx calls of the basic actions (the dict semantics of Model/Edit.v) ---------- *)
(* graph.add_node(n): a new node gets an empty attribute dict and an empty adjacency; an existing one is left alone *)
Definition nx_add_node (s : state) (n : Z) : state :=
  if haskey n (nodes (g s)) then s
  else upd_g s {| nodes := nodes (g s) ++ [(n, [])]; succs := set n (getd n (succs (g s)) []) (succs (g s)) |}.
(* graph.remove_node(n): the node, its out-adjacency, every edge into it; NetworkXError when absent *)
Definition nx_remove_node (s : state) (n : Z) : res unit :=
  if has_node s n
  then Ok tt (upd_g s {| nodes := del n (nodes (g s)); succs := map (fun ua => (fst ua, del n (snd ua))) (del n (succs (g s))) |})
  else Err ENetworkX s.
(* graph.add_edge(u, v, **attrs) between two existing nodes: the edge's attribute dict is updated with attrs *)
Definition nx_add_edge (s : state) (u v : Z) (a : attrs) : state :=
  upd_g s {| nodes := nodes (g s); succs := set u (set v (update (edge_attrs s u v) a) (adj s u)) (succs (g s)) |}.
(* graph.remove_edge(u, v): NetworkXError when absent *)
Definition nx_remove_edge (s : state) (u v : Z) : res unit :=
  if has_edge s u v
  then Ok tt (upd_g s {| nodes := nodes (g s); succs := set u (del v (adj s u)) (succs (g s)) |})
  else Err ENetworkX s.
(* graph.nodes[n].pop(k, None): KeyError for a missing node *)
Definition py_pop_node_attr (s : state) (n k : Z) : res unit :=
  if has_node s n then Ok tt (del_node_attr s n k) else Err EKey s.

(* ---------- attribute values ---------- *)
(* a value read with .get(k, None): a missing key and an explicit None are both Python's None *)
Definition py_opt_value (o : option value) : option value := match o with Some VNone => None | x => x end.
(* Python's None written back as a value *)
Definition val_of_opt (o : option value) : value := match o with Some v => v | None => VNone end.
(* `value is None` *)
Definition py_value_is_none (v : value) : bool := match v with VNone => true | _ => false end.
(* tracks.get_node_attr(n, k) for an arbitrary key: KeyError for a missing node *)
Definition py_node_attr_get (s : state) (n k : Z) : res (option value) :=
  if has_node s n then Ok (py_opt_value (attr s n k)) s else Err EKey s.
(* tracks.get_edge_attr(e, k) = graph.edges[e].get(k, None): KeyError for a missing edge *)
Definition py_edge_attr_get (s : state) (e : Z * Z) (k : Z) : res (option value) :=
  if has_edge s (fst e) (snd e) then Ok (py_opt_value (lookup k (edge_attrs s (fst e) (snd e)))) s else Err EKey s.

(* ---------- features ---------- *)
(* features.position_key is a list of per-axis keys or a single key; the model keeps the list [pos_keys] in both
   cases.  A one-element list and a single key behave alike in every use the idiom table admits (membership of
   all keys / of the key), so "is a list" is read off the length *)
Definition pos_is_list (s : state) : bool := match pos_keys (ft s) with [_] => false | _ => true end.
Definition pos_single (s : state) : Z := hd 0 (pos_keys (ft s)).
(* set(tracks.annotators.all_features.keys()): the keys the three annotators can manage, in registry order *)
Definition annot_all_features (s : state) : list Z :=
  rp_all (ft s) ++ (if iou_avail (ft s) then [KIou] else []) ++ [KTrack; KLin].
