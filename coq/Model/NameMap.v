(* Model of funtracks/import_export/_name_mapping.py (post-fix tree).

   Strings (column names, standard keys, feature keys, display names and their
   lower-cased forms) are abstract identifiers: Z codes interned by the harness;
   only string equality matters to the logic.  Python dicts are the
   insertion-ordered association lists of Base/Dict.v ([set] overwrites in place
   or appends, exactly like [d[k] = v]).

   Two library functions are ORACLES, passed as arguments:
     lower   : Z -> Z                    str.lower on codes
     closest : Z -> list Z -> option Z   difflib.get_close_matches(q, cands, n=1, cutoff=0.4)
                                         ([] -> None, [c] -> Some c)
   The dict comprehensions that build the case-insensitive lookup tables
   (lower_map, lower_display_map) are modelled, not hidden in the oracle, so the
   oracle is called with exactly the arguments the code passes to difflib.

   Totalisation: [lower_map[closest[0]]] raises KeyError in Python when difflib
   answers with a string that is not one of the candidates; the model skips the
   field/column instead.  That branch is unreachable under the hypothesis
   [closest_sound] of the theorems (Proofs/NameMapProofs.v, lemmas
   [fuzzy_lookup_reachable], [fuzzy_display_lookup_reachable]).
   [list.remove(x)] is only executed on a present element (shown in the proofs:
   every [remove1] is applied under [In x props_left]). *)
From Coq Require Import ZArith List Bool.
From FT Require Import Base.Dict.
Import ListNotations.
Open Scope Z_scope.

(* a value of the name map: one source column, or the ordered list of columns of a
   multi-value feature *)
Inductive value := Single (c : Z) | Multi (l : list Z).
Definition mapping := dict value.

(* a feature dict entry: key -> {feature_type, num_values, value_names, display_name}.
   f_num is feature.get("num_values", 1); f_vnames is feature.get("value_names", []);
   f_disp is Some d iff feature.get("display_name") is a str *)
Record feature := { f_key : Z; f_type : Z; f_num : Z; f_vnames : list Z; f_disp : option Z }.
Definition NODE : Z := 0.   (* feature_type == "node" *)
Definition EDGE : Z := 1.   (* feature_type == "edge" *)
Definition SEG_ID : Z := 0. (* the code of the string "seg_id" (fixed by the harness' interning) *)

(* state of the two display-name loops: props_left, mapping, multi_value_matches *)
Record dstate := { d_pl : list Z; d_m : mapping; d_mv : dict (dict Z) }.

Section Oracles.
Variable lower : Z -> Z.
Variable closest : Z -> list Z -> option Z.

(* _match_exact: props_left = importable_props.copy(); for field in target_fields:
     if field in mapping: continue
     if field in props_left: mapping[field] = field; props_left.remove(field) *)
Fixpoint match_exact (fields pl : list Z) (m : mapping) : list Z * mapping :=
  match fields with
  | [] => (pl, m)
  | f :: r =>
      if haskey f m then match_exact r pl m
      else if memz f pl then match_exact r (remove1 f pl) (set f (Single f) m)
      else match_exact r pl m
  end.

(* lower_map = {p.lower(): p for p in props_left} *)
Definition lower_map (pl : list Z) : dict Z :=
  fold_left (fun acc p => set (lower p) p acc) pl [].

(* _match_fuzzy: for field in target_fields:
     if field in mapping: continue
     if len(props_left) == 0: break
     lower_map = ...; closest = get_close_matches(field.lower(), lower_map.keys(), n=1, cutoff)
     if closest: best = lower_map[closest[0]]; mapping[field] = best; props_left.remove(best) *)
Fixpoint match_fuzzy (fields pl : list Z) (m : mapping) : list Z * mapping :=
  match fields with
  | [] => (pl, m)
  | f :: r =>
      if haskey f m then match_fuzzy r pl m
      else match pl with
           | [] => (pl, m)
           | _ :: _ =>
               let lm := lower_map pl in
               match closest (lower f) (keys lm) with
               | None => match_fuzzy r pl m
               | Some c =>
                   match lookup c lm with
                   | Some best => match_fuzzy r (remove1 best pl) (set f (Single best) m)
                   | None => match_fuzzy r pl m   (* KeyError in Python: unreachable, see header *)
                   end
               end
           end
  end.

(* is_multi_value = any(k == feature_key and i != idx for _, (k, i) in display_name_to_key.items()) *)
Definition is_multi (d2k : dict (Z * Z)) (fk idx : Z) : bool :=
  existsb (fun e => (fst (snd e) =? fk) && negb (snd (snd e) =? idx)) d2k.

(* feature_key in mapping or idx in multi_value_matches.get(feature_key, {}) *)
Definition assigned (fk idx : Z) (st : dstate) : bool :=
  haskey fk (d_m st) || haskey idx (getd fk (d_mv st) []).

(* body shared by both display-name loops once (feature_key, idx) is known:
     if <assigned>: continue
     if is_multi_value: (if fk not in mvm: mvm[fk] = {}); mvm[fk][idx] = prop
     else: mapping[fk] = prop
     props_left.remove(prop) *)
Definition disp_assign (d2k : dict (Z * Z)) (prop fk idx : Z) (st : dstate) : dstate :=
  if assigned fk idx st then st
  else if is_multi d2k fk idx then
    {| d_pl := remove1 prop (d_pl st); d_m := d_m st;
       d_mv := set fk (set idx prop (getd fk (d_mv st) [])) (d_mv st) |}
  else
    {| d_pl := remove1 prop (d_pl st); d_m := set fk (Single prop) (d_m st); d_mv := d_mv st |}.

(* sorted(idx_to_prop.keys()) then [idx_to_prop[i] for i in ...]: insertion sort of the
   items by index (indices of a dict are distinct) *)
Fixpoint ins (e : Z * Z) (l : list (Z * Z)) : list (Z * Z) :=
  match l with
  | [] => [e]
  | x :: r => if fst e <=? fst x then e :: l else x :: ins e r
  end.
Definition sort_items (l : list (Z * Z)) : list (Z * Z) := fold_right ins [] l.

(* for feature_key, idx_to_prop in multi_value_matches.items():
     if idx_to_prop: mapping[feature_key] = [idx_to_prop[i] for i in sorted(idx_to_prop)] *)
Definition finalize (mv : dict (dict Z)) (m : mapping) : mapping :=
  fold_left (fun acc e => match snd e with
                          | [] => acc
                          | _ :: _ => set (fst e) (Multi (map snd (sort_items (snd e)))) acc
                          end) mv m.

(* _match_display_names_exact: for prop in importable_props:
     if prop in display_name_to_key: feature_key, idx = display_name_to_key[prop]; <disp_assign> *)
Definition disp_exact_step (d2k : dict (Z * Z)) (st : dstate) (prop : Z) : dstate :=
  match lookup prop d2k with
  | Some (fk, idx) => disp_assign d2k prop fk idx st
  | None => st
  end.
Definition match_display_exact (pl : list Z) (d2k : dict (Z * Z)) (m : mapping) : list Z * mapping :=
  let st := fold_left (disp_exact_step d2k) pl {| d_pl := pl; d_m := m; d_mv := [] |} in
  (d_pl st, finalize (d_mv st) (d_m st)).

(* lower_display_map = {d.lower(): (d, k, i) for d, (k, i) in display_name_to_key.items()} *)
Definition lower_display_map (d2k : dict (Z * Z)) : dict (Z * Z * Z) :=
  fold_left (fun acc e => set (lower (fst e)) (fst e, fst (snd e), snd (snd e)) acc) d2k [].

(* _match_display_names_fuzzy: for prop in importable_props:
     if prop not in props_left: continue
     closest = get_close_matches(prop.lower(), lower_display_map.keys(), n=1, cutoff)
     if closest: _, feature_key, idx = lower_display_map[closest[0]]; <disp_assign> *)
Definition disp_fuzzy_step (d2k : dict (Z * Z)) (ldm : dict (Z * Z * Z)) (st : dstate) (prop : Z) : dstate :=
  if negb (memz prop (d_pl st)) then st
  else match closest (lower prop) (keys ldm) with
       | None => st
       | Some c =>
           match lookup c ldm with
           | Some (_, fk, idx) => disp_assign d2k prop fk idx st
           | None => st   (* KeyError in Python: unreachable, see header *)
           end
       end.
Definition match_display_fuzzy (pl : list Z) (d2k : dict (Z * Z)) (m : mapping) : list Z * mapping :=
  match pl with
  | [] => (pl, m)        (* if not props_left: return props_left *)
  | _ :: _ =>
      let ldm := lower_display_map d2k in
      let st := fold_left (disp_fuzzy_step d2k ldm) pl {| d_pl := pl; d_m := m; d_mv := [] |} in
      (d_pl st, finalize (d_mv st) (d_m st))
  end.

(* _map_remaining_to_self: {prop: prop for prop in remaining_props} *)
Definition map_remaining_to_self (pl : list Z) : mapping :=
  fold_left (fun acc p => set p (Single p) acc) pl [].

(* build_standard_fields: required_features.copy() extended by ["seg_id"] *)
Definition build_standard_fields (required : list Z) : list Z := required ++ [SEG_ID].

(* enumerate(value_names) *)
Fixpoint enum_from (i : Z) (l : list Z) : list (Z * Z) :=
  match l with [] => [] | x :: r => (i, x) :: enum_from (i + 1) r end.

(* build_display_name_mapping: for feature_key, feature in features.items():
     if num_values > 1: for idx, value_name in enumerate(value_names): d[value_name] = (feature_key, idx)
     else: if isinstance(display_name, str): d[display_name] = (feature_key, 0) *)
Definition bdm_step (acc : dict (Z * Z)) (f : feature) : dict (Z * Z) :=
  if 1 <? f_num f then
    fold_left (fun a iv => set (snd iv) (f_key f, fst iv) a) (enum_from 0 (f_vnames f)) acc
  else match f_disp f with
       | Some d => set d (f_key f, 0) acc
       | None => acc
       end.
Definition build_display_name_mapping (feats : list feature) : dict (Z * Z) :=
  fold_left bdm_step feats [].

(* the pipeline of infer_node_name_map after the set-up lines *)
Definition infer_node_core (cols std fkeys : list Z) (d2k : dict (Z * Z)) : mapping :=
  let '(pl1, m1) := match_exact std cols [] in                 (* Step 1 *)
  let '(pl2, m2) := match_fuzzy std pl1 m1 in                  (* Step 2 *)
  let '(pl3, m3) := match_exact fkeys pl2 m2 in                (* exact feature keys *)
  let '(pl4, m4) := match_display_exact pl3 d2k m3 in          (* Step 3 *)
  let '(pl5, m5) := match_display_fuzzy pl4 d2k m4 in          (* Step 4 *)
  update m5 (map_remaining_to_self pl5).                       (* Step 5: mapping.update(custom) *)

(* infer_node_name_map *)
Definition infer_node_name_map (cols required : list Z) (feats : list feature) : mapping :=
  let nf := filter (fun f => f_type f =? NODE) feats in
  infer_node_core cols (build_standard_fields required) (map f_key nf) (build_display_name_mapping nf).

(* the pipeline of infer_edge_name_map; the two display-name steps run only
   [if display_name_to_key:] *)
Definition infer_edge_core (cols fkeys : list Z) (d2k : dict (Z * Z)) : mapping :=
  let '(pl1, m1) := match_exact fkeys cols [] in
  let '(pl2, m2) := match_fuzzy fkeys pl1 m1 in
  let '(pl3, m3) := match d2k with [] => (pl2, m2) | _ :: _ => match_display_exact pl2 d2k m2 end in
  let '(pl4, m4) := match d2k with [] => (pl3, m3) | _ :: _ => match_display_fuzzy pl3 d2k m3 end in
  update m4 (map_remaining_to_self pl4).

(* infer_edge_name_map (available_computed_features=None is the empty feature list) *)
Definition infer_edge_name_map (cols : list Z) (feats : list feature) : mapping :=
  let ef := filter (fun f => f_type f =? EDGE) feats in
  infer_edge_core cols (map f_key ef) (build_display_name_mapping ef).

End Oracles.

(* the columns a name map uses, in order *)
Definition used_v (v : value) : list Z := match v with Single c => [c] | Multi l => l end.
Definition used (m : mapping) : list Z := flat_map (fun kv => used_v (snd kv)) m.

(* ---------- finite oracle tables (what the OCaml driver builds from a scenario line) ----------
   [tbl_lower]: str.lower given as a code table (identity where absent);
   [tbl_closest]: the recorded get_close_matches answers keyed by (query, candidates). *)
Definition tbl_lower (t : dict Z) (x : Z) : Z := getd x t x.
Fixpoint zlist_eqb (a b : list Z) : bool :=
  match a, b with
  | [], [] => true
  | x :: r, y :: s => (x =? y) && zlist_eqb r s
  | _, _ => false
  end.
Definition tbl_closest (t : list (Z * list Z * option Z)) (q : Z) (cands : list Z) : option Z :=
  match find (fun e => (fst (fst e) =? q) && zlist_eqb (snd (fst e)) cands) t with
  | Some e => snd e
  | None => None
  end.
(* every recorded answer is one of the recorded candidates *)
Definition tbl_sound (t : list (Z * list Z * option Z)) : bool :=
  forallb (fun e => match snd e with None => true | Some a => memz a (snd (fst e)) end) t.
