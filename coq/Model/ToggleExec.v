(* The interpreter extended with the feature-switching calls. *)
From Coq Require Import ZArith List Bool.
From FT Require Import Base.Dict Model.Edit Model.EditExec Model.Toggle.
Import ListNotations.
Open Scope Z_scope.

Inductive op2 :=
  | OEdit (o : op)
  | OEnable (ks : list Z) (recompute : bool) (ctrk clin : list (list Z))   (* components: networkx oracle answers *)
  | ODisable (ks : list Z).

Definition step2 (st : state) (o : op2) : state * (Z * list Z) :=
  match o with
  | OEdit o => step st o
  | OEnable ks rc ctrk clin => fin (enable_features st ks rc ctrk clin)
  | ODisable ks => fin (disable_features st ks)
  end.
