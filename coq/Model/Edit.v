(* Executable model of the funtracks edit state machine (post-fix tree):
   data_model/tracks.py, data_model/solution_tracks.py, actions/*.py,
   annotators/_track_annotator.py, _regionprops_annotator.py (update path),
   _edge_annotator.py (update path), user_actions/*.py.
   Python dicts and networkx adjacency are insertion-ordered association lists
   (Base/Dict.v); an exception is an [Err] that carries the state as mutated so far. *)
From Coq Require Import ZArith List Bool.
From FT Require Import Base.Dict.
Import ListNotations.
Open Scope Z_scope.

(* ---------- attribute keys (interned by the harness) ---------- *)
Definition KTime := 0.  Definition KPos := 1.  Definition KTrack := 2.  Definition KLin := 3.
Definition KArea := 4.  Definition KEll := 5.  Definition KCirc := 6.   Definition KPerim := 7.
Definition KIou := 8.   (* 10,11,12: per-axis position keys z,y,x ; >= 100: custom keys *)

Inductive value :=
  | VZ (z : Z)                 (* ints: time, track / lineage ids *)
  | VTok (t : Z)               (* opaque user value (position list, custom attribute), compared by identity *)
  | VRp (mask : list Z)        (* "regionprops value of this key computed from this mask (and the scale)" *)
  | VIou (i u : Z)             (* exact IoU  i / u ;  VIou 0 1 is the stored integer 0 *)
  | VNone.                     (* an explicit Python None *)
Definition attrs := dict value.
Definition pixels := (Z * list Z)%type.          (* frame index, flat spatial indices *)

Inductive basic :=
  | BAddNode (n : Z) (a : attrs) (px : option pixels)
  | BDelNode (n : Z) (saved : attrs) (px : option pixels)
  | BAddEdge (u v : Z) (a : attrs)
  | BDelEdge (u v : Z) (saved : attrs)
  | BUpdAttrs (n : Z) (prev new : attrs)
  | BUpdSeg (n : Z) (px : pixels) (added : bool)
  | BUpdTrack (start oldT newT : Z) (oldL newL : option Z).
Inductive action := ABasic (b : basic) | AGroup (l : list action).

Record graph := { nodes : dict attrs; succs : dict (dict attrs) }.
Record feats := {
  reg_node : list Z;           (* tracks.features node feature keys, in order *)
  reg_edge : list Z;           (* tracks.features edge feature keys *)
  pos_keys : list Z;           (* features.position_key as a list *)
  rp_all : list Z;             (* keys RegionpropsAnnotator can manage ([] without segmentation) *)
  rp_act : list Z;             (* its active keys *)
  iou_avail : bool; iou_act : bool;
  trk_act : bool; lin_act : bool }.
Record books := { trk_book : dict (list Z); lin_book : dict (list Z); max_trk : Z; max_lin : Z }.
Record state := {
  g : graph; seg : option (list (list Z)); ft : feats; bk : books;
  undo_stack : list action; redo_stack : list action;
  rlog : list (option Z);      (* payloads of the refresh signal, oldest first *)
  nctr : Z }.

Definition upd_g st g' := {| g := g'; seg := seg st; ft := ft st; bk := bk st; undo_stack := undo_stack st; redo_stack := redo_stack st; rlog := rlog st; nctr := nctr st |}.
Definition upd_seg st s' := {| g := g st; seg := s'; ft := ft st; bk := bk st; undo_stack := undo_stack st; redo_stack := redo_stack st; rlog := rlog st; nctr := nctr st |}.
Definition upd_ft st f' := {| g := g st; seg := seg st; ft := f'; bk := bk st; undo_stack := undo_stack st; redo_stack := redo_stack st; rlog := rlog st; nctr := nctr st |}.
Definition upd_bk st b' := {| g := g st; seg := seg st; ft := ft st; bk := b'; undo_stack := undo_stack st; redo_stack := redo_stack st; rlog := rlog st; nctr := nctr st |}.
Definition upd_hist st u r := {| g := g st; seg := seg st; ft := ft st; bk := bk st; undo_stack := u; redo_stack := r; rlog := rlog st; nctr := nctr st |}.
Definition emit st (p : option Z) := {| g := g st; seg := seg st; ft := ft st; bk := bk st; undo_stack := undo_stack st; redo_stack := redo_stack st; rlog := rlog st ++ [p]; nctr := nctr st |}.
Definition upd_nctr st c := {| g := g st; seg := seg st; ft := ft st; bk := bk st; undo_stack := undo_stack st; redo_stack := redo_stack st; rlog := rlog st; nctr := c |}.

Inductive err := EInvalid (forceable : bool) | EValue | EKey | ENetworkX | EIndex | EFuel.
Inductive res (A : Type) := Ok (a : A) (s : state) | Err (e : err) (s : state).
Arguments Ok {A}. Arguments Err {A}.
Definition bind {A B} (r : res A) (f : A -> state -> res B) : res B :=
  match r with Ok a s => f a s | Err e s => Err e s end.
Notation "'do' x , s <- r ; k" := (bind r (fun x s => k)) (at level 200, x name, s name, r at level 100, k at level 200).

(* ---------- graph reads (networkx) ---------- *)
Definition has_node st n := haskey n (nodes (g st)).
Definition node_attrs st n : attrs := getd n (nodes (g st)) [].
Definition attr st n k : option value := lookup k (node_attrs st n).
Definition zattr st n k : option Z := match attr st n k with Some (VZ z) => Some z | _ => None end.
Definition adj st u : dict attrs := getd u (succs (g st)) [].
Definition successors st u : list Z := keys (adj st u).
Definition has_edge st u v := haskey v (adj st u).
Definition edge_attrs st u v : attrs := getd v (adj st u) [].
Definition out_degree st u := Z.of_nat (length (successors st u)).
Definition predecessors st v : list Z := filter (fun u => has_edge st u v) (keys (nodes (g st))).
Definition in_degree st v := Z.of_nat (length (predecessors st v)).
Definition time_of st n : Z := match zattr st n KTime with Some t => t | None => 0 end.
Definition all_edges st : list (Z * Z) := flat_map (fun ua => map (fun v => (fst ua, v)) (keys (snd ua))) (succs (g st)).

(* graph.nodes[n][k] = v   (node must exist) *)
Definition set_node_attr st n k v : state :=
  match lookup n (nodes (g st)) with
  | Some d => upd_g st {| nodes := set n (set k v d) (nodes (g st)); succs := succs (g st) |}
  | None => st end.
(* graph.nodes[n].pop(k, None) *)
Definition del_node_attr st n k : state :=
  match lookup n (nodes (g st)) with
  | Some d => upd_g st {| nodes := set n (del k d) (nodes (g st)); succs := succs (g st) |}
  | None => st end.
(* UpdateNodeAttrs._apply: None stands for "no value" and removes the attribute *)
Definition apply_attr st n (kv : Z * value) : state :=
  match snd kv with VNone => del_node_attr st n (fst kv) | v => set_node_attr st n (fst kv) v end.
(* graph.edges[u,v][k] = val *)
Definition set_edge_attr st u v k val : state :=
  if has_edge st u v
  then upd_g st {| nodes := nodes (g st); succs := set u (set v (set k val (edge_attrs st u v)) (adj st u)) (succs (g st)) |}
  else st.

(* ---------- segmentation ---------- *)
Fixpoint positions_from (i : Z) (f : list Z) (n : Z) : list Z :=
  match f with [] => [] | x :: r => if x =? n then i :: positions_from (i + 1) r n else positions_from (i + 1) r n end.
Definition frame_of (sg : list (list Z)) (t : Z) : list Z := nth (Z.to_nat t) sg [].
(* np.nonzero(seg[t] == n) as flat indices *)
Definition mask_of (sg : list (list Z)) (t n : Z) : list Z := positions_from 0 (frame_of sg t) n.
Definition frame_ok (sg : list (list Z)) (t : Z) : bool := (0 <=? t) && (t <? Z.of_nat (length sg)).
Fixpoint write_frame (i : Z) (f : list Z) (idx : list Z) (v : Z) : list Z :=
  match f with [] => [] | x :: r => (if memz i idx then v else x) :: write_frame (i + 1) r idx v end.
Fixpoint upd_frame (k : nat) (h : list Z -> list Z) (sg : list (list Z)) : list (list Z) :=
  match sg, k with [], _ => [] | f :: r, O => h f :: r | f :: r, S j => f :: upd_frame j h r end.
(* tracks.set_pixels(pixels, value) *)
Definition set_pixels st (px : pixels) (v : Z) : res unit :=
  match seg st with
  | None => Err EValue st
  | Some sg => if frame_ok sg (fst px)
               then Ok tt (upd_seg st (Some (upd_frame (Z.to_nat (fst px)) (fun f => write_frame 0 f (snd px) v) sg)))
               else Err EIndex st
  end.
(* tracks.get_pixels(node) *)
Definition get_pixels st n : option pixels :=
  match seg st with None => None | Some sg => Some (time_of st n, mask_of sg (time_of st n) n) end.
(* the validation UserAddNode / UserDeleteNode run before their first sub-action (post-fix tree):
   the error set_pixels would raise for these pixels, without writing *)
Definition px_check st (px : option pixels) : option err :=
  match px with
  | None => None
  | Some p => match seg st with
              | None => Some EValue
              | Some sg => if frame_ok sg (fst p) then None else Some EIndex
              end
  end.

(* ---------- annotators: incremental updates ---------- *)
(* RegionpropsAnnotator.update for AddNode / UpdateNodeSeg *)
Definition rp_update st n : state :=
  match seg st with
  | None => st
  | Some sg =>
    let m := mask_of sg (time_of st n) n in
    let v := match m with [] => VNone | _ => VRp m end in
    fold_left (fun s k => set_node_attr s n k v) (rp_act (ft st)) st
  end.
Definition inter_count (a b : list Z) : Z := Z.of_nat (length (filter (fun x => memz x b) a)).
(* the IoU the edge annotator stores for edge (u,v): masks in their own frames *)
Definition iou_of st (sg : list (list Z)) u v : value :=
  let a := mask_of sg (time_of st u) u in let b := mask_of sg (time_of st v) v in
  match a, b with
  | [], _ => VIou 0 1 | _, [] => VIou 0 1
  | _, _ => let i := inter_count a b in
            if i =? 0 then VIou 0 1 else VIou i (Z.of_nat (length a) + Z.of_nat (length b) - i)
  end.
Definition iou_update_edges st (es : list (Z * Z)) : state :=
  match seg st with
  | None => st
  | Some sg => if iou_act (ft st)
               then fold_left (fun s e => set_edge_attr s (fst e) (snd e) KIou (iou_of s sg (fst e) (snd e))) es st
               else st
  end.

(* TrackAnnotator bookkeeping *)
Definition book_remove (b : dict (list Z)) (ns : list Z) (id : Z) : dict (list Z) :=
  match lookup id b with
  | None => b                                          (* warns and returns *)
  | Some l => let l' := fold_left (fun acc n => if memz n acc then remove1 n acc else acc) ns l in
              match l' with [] => del id b | _ => set id l' b end
  end.
Definition book_add_extend (b : dict (list Z)) (ns : list Z) (id : Z) : dict (list Z) :=
  set id (getd id b [] ++ ns) b.
Definition book_add_dedup (b : dict (list Z)) (ns : list Z) (id : Z) : dict (list Z) :=
  set id (fold_left (fun acc n => if memz n acc then acc else acc ++ [n]) ns (getd id b [])) b.

(* ---------- basic actions ---------- *)
Definition all_in (ks : list Z) (a : attrs) : bool := forallb (fun k => haskey k a) ks.

(* AddNode(tracks, node, attributes, pixels) *)
Definition do_add_node st n (a : attrs) (px : option pixels) : res basic :=
  if negb (haskey KTime a) then Err EValue st else
  if negb (haskey KTrack a) then Err EValue st else
  if (match px with None => negb (all_in (pos_keys (ft st)) a) | Some _ => false end) then Err EValue st else
  do _u, st <- (match px with Some p => set_pixels st p n | None => Ok tt st end);
  let nd := nodes (g st) in
  let st := if haskey n nd then st
            else upd_g st {| nodes := nd ++ [(n, [])]; succs := set n (getd n (succs (g st)) []) (succs (g st)) |} in
  let st := fold_left (fun s kv => set_node_attr s n (fst kv) (snd kv)) a st in
  let st := rp_update st n in
  (* TrackAnnotator._handle_add_node *)
  if negb (trk_act (ft st)) then Ok (BAddNode n a px) st else
  match zattr st n KTrack with
  | None => Err EKey st
  | Some t =>
    let b := bk st in
    let tb := book_add_extend (trk_book b) [n] t in
    let mt := Z.max (max_trk b) t in
    let '(lb, ml) := if lin_act (ft st)
                     then match zattr st n KLin with
                          | Some l => (book_add_dedup (lin_book b) [n] l, Z.max (max_lin b) l)
                          | None => (lin_book b, max_lin b) end
                     else (lin_book b, max_lin b) in
    Ok (BAddNode n a px) (upd_bk st {| trk_book := tb; lin_book := lb; max_trk := mt; max_lin := ml |})
  end.

Definition saved_attrs (reg : list Z) (d : attrs) : attrs :=
  fold_left (fun acc k => match lookup k d with Some VNone => acc | Some v => acc ++ [(k, v)] | None => acc end) reg [].

(* DeleteNode(tracks, node, pixels) *)
Definition do_del_node st n (pxo : option pixels) : res basic :=
  match lookup n (nodes (g st)) with
  | None => Err EKey st
  | Some d =>
    let saved := saved_attrs (reg_node (ft st)) d in
    let px := match pxo with Some p => Some p | None => get_pixels st n end in
    do _u, st <- (match px with Some p => set_pixels st p 0 | None => Ok tt st end);
    (* graph.remove_node: the node, its out-adjacency, and every edge into it *)
    let sc := map (fun ua => (fst ua, del n (snd ua))) (del n (succs (g st))) in
    let st := upd_g st {| nodes := del n (nodes (g st)); succs := sc |} in
    if negb (trk_act (ft st)) then Ok (BDelNode n saved px) st else
    let b := bk st in
    let tb := match lookup KTrack saved with Some (VZ t) => book_remove (trk_book b) [n] t | _ => trk_book b end in
    let lb := if lin_act (ft st)
              then match lookup KLin saved with Some (VZ l) => book_remove (lin_book b) [n] l | _ => lin_book b end
              else lin_book b in
    Ok (BDelNode n saved px) (upd_bk st {| trk_book := tb; lin_book := lb; max_trk := max_trk b; max_lin := max_lin b |})
  end.

(* AddEdge(tracks, edge, attributes) *)
Definition do_add_edge st u v (a : attrs) : res basic :=
  if negb (has_node st u) then Err EValue st else
  if negb (has_node st v) then Err EValue st else
  let ea := update (edge_attrs st u v) a in
  let st := upd_g st {| nodes := nodes (g st); succs := set u (set v ea (adj st u)) (succs (g st)) |} in
  Ok (BAddEdge u v a) (iou_update_edges st [(u, v)]).

(* DeleteEdge(tracks, edge) *)
Definition do_del_edge st u v : res basic :=
  if negb (has_edge st u v) then Err EValue st else
  let saved := saved_attrs (reg_edge (ft st)) (edge_attrs st u v) in
  Ok (BDelEdge u v saved)
     (upd_g st {| nodes := nodes (g st); succs := set u (del v (adj st u)) (succs (g st)) |}).

Definition protected_keys st : list Z :=
  rp_all (ft st) ++ (if iou_avail (ft st) then [KIou] else []) ++ [KTrack; KLin; KTime].

(* UpdateNodeAttrs(tracks, node, attrs) *)
Definition do_upd_attrs st n (new : attrs) : res basic :=
  if existsb (fun kv => memz (fst kv) (protected_keys st)) new then Err EValue st else
  match lookup n (nodes (g st)) with
  | None => match new with [] => Ok (BUpdAttrs n [] []) st | _ => Err EKey st end
  | Some d =>
    let prev := map (fun kv => (fst kv, match lookup (fst kv) d with Some v => v | None => VNone end)) new in
    Ok (BUpdAttrs n prev new) (fold_left (fun s kv => apply_attr s n kv) new st)
  end.

(* UpdateNodeSeg(tracks, node, pixels, added) *)
Definition do_upd_seg st n (px : pixels) (added : bool) : res basic :=
  do _u, st <- set_pixels st px (if added then n else 0);
  (* notify: regionprops needs get_time(node) (KeyError) when it has active keys; the edge
     annotator iterates in_edges(node) (NetworkXError) when iou is active *)
  if negb (has_node st n) && (match rp_act (ft st) with [] => false | _ => true end) then Err EKey st else
  if negb (has_node st n) && iou_act (ft st) then Err ENetworkX st else
  let st := rp_update st n in
  let es := map (fun p => (p, n)) (predecessors st n) ++ map (fun s => (n, s)) (successors st n) in
  Ok (BUpdSeg n px added) (iou_update_edges st es).

(* one BFS level of TrackAnnotator._handle_update_track_ids;
   acc = (state, still_in_tracklet, tracklet_nodes, lineage_nodes, next_nodes) *)
Definition visit (oldT newT : Z) (newL : option Z) (acc : state * bool * list Z * list Z * list Z) (n : Z) :=
  let '(st, flag, tn, ln, next) := acc in
  let '(st, ln) := match newL with Some l => (set_node_attr st n KLin (VZ l), ln ++ [n]) | None => (st, ln) end in
  let '(st, flag, tn) :=
     if flag then
       (if match zattr st n KTrack with Some t => t =? oldT | None => false end
        then (set_node_attr st n KTrack (VZ newT), true, tn ++ [n]) else (st, false, tn))
     else (st, flag, tn) in
  (st, flag, tn, ln, next ++ successors st n).
Fixpoint walk (fuel : nat) (oldT newT : Z) (newL : option Z) (st : state) (curr : list Z) (flag : bool) (tn ln : list Z)
  : option (state * list Z * list Z) :=
  match curr with
  | [] => Some (st, tn, ln)
  | _ => match fuel with
         | O => None
         | S f => let '(st', flag', tn', ln', next) := fold_left (visit oldT newT newL) curr (st, flag, tn, ln, []) in
                  walk f oldT newT newL st' next flag' tn' ln'
         end
  end.

(* UpdateTrackIDs(tracks, start_node, tracklet_id, lineage_id) *)
Definition do_upd_track st start newT (newL : option Z) : res basic :=
  if negb (has_node st start) then Err EKey st else
  match zattr st start KTrack with
  | None => Err EKey st
  | Some oldT =>
    let oldL := zattr st start KLin in
    if negb (trk_act (ft st)) then Ok (BUpdTrack start oldT newT oldL newL) st else
    let newL' := if lin_act (ft st) then newL else None in
    match walk (S (length (nodes (g st)))) oldT newT newL' st [start] true [] [] with
    | None => Err EFuel st
    | Some (st1, tn, ln) =>
      let b := bk st1 in
      let tb := book_add_extend (book_remove (trk_book b) tn oldT) tn newT in
      let mt := Z.max (max_trk b) newT in
      let '(lb, ml) := match newL' with
                       | Some l => (book_add_dedup (match oldL with Some o => book_remove (lin_book b) ln o | None => lin_book b end) ln l,
                                    Z.max (max_lin b) l)
                       | None => (lin_book b, max_lin b) end in
      Ok (BUpdTrack start oldT newT oldL newL) (upd_bk st1 {| trk_book := tb; lin_book := lb; max_trk := mt; max_lin := ml |})
    end
  end.

(* action.inverse(): construct - and thereby apply - the opposite action *)
Definition inv_basic st (b : basic) : res basic :=
  match b with
  | BAddNode n _ _ => do_del_node st n None
  | BDelNode n saved px => do_add_node st n saved px
  | BAddEdge u v _ => do_del_edge st u v
  | BDelEdge u v saved => do_add_edge st u v saved
  | BUpdAttrs n prev _ => do_upd_attrs st n prev
  | BUpdSeg n px added => do_upd_seg st n px (negb added)
  | BUpdTrack start oldT _ oldL _ => do_upd_track st start oldT oldL
  end.
(* ActionGroup.inverse: [action.inverse() for action in self.actions[::-1]] *)
Fixpoint inv_action (st : state) (a : action) {struct a} : res action :=
  match a with
  | ABasic b => do b', s <- inv_basic st b; Ok (ABasic b') s
  | AGroup l =>
      do l', s <- (fix go (l : list action) (st : state) {struct l} : res (list action) :=
         match l with
         | [] => Ok [] st
         | a :: r => do accr, s <- go r st; do a', s2 <- inv_action s a; Ok (accr ++ [a']) s2
         end) l st;
      Ok (AGroup l') s
  end.

(* ---------- history: action_history.py (kept in sync with Gen/History_gen.v by Proofs/HistoryTie.v) ---------- *)
Definition hist_add st (a : action) : state :=
  match redo_stack st with
  | [] => upd_hist st (undo_stack st ++ [a]) []
  | _ => upd_hist st ((undo_stack st ++ redo_stack st) ++ [a]) []
  end.
Definition finish_top st (a : action) (payload : option Z) : state := emit (hist_add st a) payload.

(* ---------- solution_tracks.py queries ---------- *)
Definition next_trk st := max_trk (bk st) + 1.
Definition next_lin st := max_lin (bk st) + 1.
Fixpoint insert_by_time st (x : Z) (l : list Z) : list Z :=
  match l with [] => [x] | y :: r => if time_of st x <? time_of st y then x :: y :: r else y :: insert_by_time st x r end.
Definition sort_by_time st (l : list Z) : list Z := fold_left (fun acc x => insert_by_time st x acc) l [].   (* stable *)
Fixpoint scan_neighbors st (t : Z) (l : list Z) (pred : option Z) : option Z * option Z :=
  match l with
  | [] => (pred, None)
  | c :: r => if time_of st c <? t then scan_neighbors st t r (Some c)
              else if time_of st c >? t then (pred, Some c) else scan_neighbors st t r pred
  end.
(* get_track_neighbors sorts the lookup list in place: the state is returned too *)
Definition track_neighbors st (T t : Z) : state * (option Z * option Z) :=
  match lookup T (trk_book (bk st)) with
  | None => (st, (None, None))
  | Some [] => (st, (None, None))
  | Some l => let l' := sort_by_time st l in
              let b := bk st in
              (upd_bk st {| trk_book := set T l' (trk_book b); lin_book := lin_book b; max_trk := max_trk b; max_lin := max_lin b |},
               scan_neighbors st t l' None)
  end.
Definition has_track_at st (T t : Z) : bool :=
  match lookup T (trk_book (bk st)) with Some l => existsb (fun n => time_of st n =? t) l | None => false end.
(* Tracks._get_new_node_ids(n) *)
Fixpoint skip_used (fuel : nat) st (id c : Z) : Z * Z :=
  match fuel with
  | O => (id, c)
  | S f => if has_node st id then skip_used f st c (c + 1) else (id, c)
  end.
Fixpoint new_ids_loop st (ids : list Z) (c : Z) : list Z * Z :=
  match ids with
  | [] => ([], c)
  | i :: r => let '(i', c') := skip_used (S (length (nodes (g st)))) st i c in
              let '(r', c'') := new_ids_loop st r c' in (i' :: r', c'')
  end.
Definition get_new_node_ids st (n : nat) : state * list Z :=
  let ids := map (fun i => nctr st + Z.of_nat i) (seq 0 n) in
  let '(ids', c) := new_ids_loop st ids (nctr st + Z.of_nat n) in
  (upd_nctr st c, ids').

(* ---------- user actions ---------- *)
(* Every user action is a core (validation + sub-actions, no history, no signal) wrapped
   by the tail  `if _top_level: action_history.add_new_action(self); refresh.emit(x)`. *)
Definition top_wrap (top : bool) (payload : option Z) (r : res action) : res action :=
  match r with
  | Ok a s => Ok a (if top then finish_top s a payload else s)
  | Err e s => Err e s
  end.

(* UserDeleteEdge *)
Definition user_delete_edge_core st u v : res action :=
  if negb (has_edge st u v) then Err (EInvalid false) st else
  do b1, s <- do_del_edge st u v;
  let od := out_degree s u in
  do acts, s <- (if od =? 0 then
                   do b2, s <- do_upd_track s v (next_trk s) (Some (next_lin s)); Ok [ABasic b1; ABasic b2] s
                 else if od =? 1 then
                   match successors s u, zattr s u KTrack with
                   | sib :: _, Some t =>
                       do b2, s <- do_upd_track s sib t None;
                       match zattr s v KTrack with
                       | Some tv => do b3, s <- do_upd_track s v tv (Some (next_lin s)); Ok [ABasic b1; ABasic b2; ABasic b3] s
                       | None => Err EKey s end
                   | _, _ => Err EKey s end
                 else Err (EInvalid false) s);
  Ok (AGroup acts) s.
Definition user_delete_edge st u v (top : bool) : res action :=
  top_wrap top None (user_delete_edge_core st u v).

(* UserAddEdge *)
Definition user_add_edge_core st u v (force : bool) : res action :=
  if negb (has_node st u) then Err (EInvalid false) st else
  if negb (has_node st v) then Err (EInvalid false) st else
  if time_of st u >=? time_of st v then Err (EInvalid false) st else
  if (out_degree st u - (if has_edge st u v then 1 else 0)) >? 1 then Err (EInvalid false) st else
  do pre, s <- (if in_degree st v >? 0 then
                  if negb force then Err (EInvalid true) st
                  else match predecessors st v with
                       | p :: _ => do a, s <- user_delete_edge st p v false; Ok [a] s
                       | [] => Ok [] st end
                else Ok [] st);
  let od := out_degree s u in
  do acts, s <- (if od =? 0 then
                   match zattr s u KTrack with
                   | Some t => do b, s <- do_upd_track s v t (zattr s u KLin); Ok (pre ++ [ABasic b]) s
                   | None => Err EKey s end
                 else if od =? 1 then
                   match successors s u with
                   | c :: _ =>
                       do b, s <- do_upd_track s c (next_trk s) None;
                       match zattr s v KTrack with
                       | Some tv => do b2, s <- do_upd_track s v tv (zattr s u KLin); Ok (pre ++ [ABasic b; ABasic b2]) s
                       | None => Err EKey s end
                   | [] => Err EKey s end
                 else Err (EInvalid false) s);
  do b', s <- do_add_edge s u v [];
  Ok (AGroup (acts ++ [ABasic b'])) s.
Definition user_add_edge st u v (force top : bool) : res action :=
  top_wrap top None (user_add_edge_core st u v force).

(* UserDeleteNode: the three loops *)
(* for pred in predecessors(node): [relabel the sibling]; DeleteEdge(pred, node) *)
Fixpoint udn_preds (n : Z) (ps : list Z) (s : state) (acc : list action) : res (list action) :=
  match ps with
  | [] => Ok acc s
  | p :: r =>
    let sibs := successors s p in
    do acc, s <- (if (length sibs =? 2)%nat then
                    match remove1 n sibs, zattr s p KTrack with
                    | sib :: _, Some t => do b, s <- do_upd_track s sib t None; Ok (acc ++ [ABasic b]) s
                    | _, _ => Err EKey s end
                  else Ok acc s);
    do b, s <- do_del_edge s p n; udn_preds n r s (acc ++ [ABasic b])
  end.
(* for succ in successors(node): DeleteEdge(node, succ) *)
Fixpoint udn_succs (n : Z) (cs : list Z) (s : state) (acc : list action) : res (list action) :=
  match cs with [] => Ok acc s | c :: r => do b, s <- do_del_edge s n c; udn_succs n r s (acc ++ [ABasic b]) end.
(* for orphan in orphans: UpdateTrackIDs(orphan, its track id, next lineage id) *)
Fixpoint udn_orphans (os : list Z) (s : state) (acc : list action) : res (list action) :=
  match os with
  | [] => Ok acc s
  | o :: r => match zattr s o KTrack with
              | Some t => do b, s <- do_upd_track s o t (Some (next_lin s)); udn_orphans r s (acc ++ [ABasic b])
              | None => Err EKey s end
  end.
Definition user_delete_node_core st n (pxo : option pixels) : res action :=
  match px_check st pxo with Some e => Err e st | None =>
  if negb (has_node st n) then Err ENetworkX st else
  let preds := predecessors st n in
  let had_pred := match preds with [] => false | _ => true end in
  do acts1, s <- udn_preds n preds st [];
  let orphans := successors s n in
  do acts2, s <- udn_succs n orphans s acts1;
  do ao, s <- (match zattr s n KTrack with
      | None => Err EKey s
      | Some T => let '(s, (p, c)) := track_neighbors s T (time_of s n) in
                  match p, c with
                  | Some p, Some c => do b, s <- do_add_edge s p c []; Ok (acts2 ++ [ABasic b], filter (fun o => negb (o =? c)) orphans) s
                  | _, _ => Ok (acts2, orphans) s end
      end);
  let '(acts3, orphans) := ao in
  let orphans := if had_pred then orphans else tl orphans in
  do acts4, s <- udn_orphans orphans s acts3;
  do b, s <- do_del_node s n pxo;
  Ok (AGroup (acts4 ++ [ABasic b])) s
  end.
Definition user_delete_node st n (pxo : option pixels) (top : bool) : res action :=
  top_wrap top None (user_delete_node_core st n pxo).

(* UserAddNode *)
(* the edges that conflict with splicing the node in (removed when forcing) *)
Definition uan_conflicts st (pred succ : option Z) (force : bool) : res (list (Z * Z)) :=
  let down c := match predecessors st c with
                | q :: _ => if out_degree st q =? 2
                            then if negb force then Err (EInvalid true) st else Ok [(q, c)] st
                            else Ok [] st
                | [] => Ok [] st end in
  match pred with
  | Some p => if out_degree st p =? 2
              then if negb force then Err (EInvalid true) st else Ok (map (fun s => (p, s)) (successors st p)) st
              else (match succ with Some c => down c | None => Ok [] st end)
  | None => (match succ with Some c => down c | None => Ok [] st end)
  end.
(* for conflicting_edge in conflicting_edges: UserDeleteEdge(..., _top_level=False) *)
Fixpoint uan_cut (es : list (Z * Z)) (s : state) (acc : list action) : res (list action) :=
  match es with [] => Ok acc s | e :: r => do x, s <- user_delete_edge s (fst e) (snd e) false; uan_cut r s (acc ++ [x]) end.
Definition user_add_node_core st n (a : attrs) (px : option pixels) (force : bool) : res action :=
  match lookup KTime a, lookup KTrack a with
  | None, _ => Err (EInvalid false) st
  | _, None => Err (EInvalid false) st
  | Some tv, Some kv =>
  if has_node st n then Err (EInvalid false) st else
  let t := match tv with VZ z => z | _ => 0 end in
  let T0 := match kv with VZ z => z | _ => 0 end in
  let '(T, a) := if has_track_at st T0 t then (next_trk st, set KTrack (VZ (next_trk st)) a) else (T0, a) in
  let '(st, (pred, succ)) := track_neighbors st T t in
  do conflicts, st <- uan_conflicts st pred succ force;
  if (match px with None => negb (all_in (pos_keys (ft st)) a) | Some _ => false end) then Err (EInvalid false) st else
  match px_check st px with Some e => Err e st | None =>
  do acts, s <- uan_cut conflicts st [];
  let a := if haskey KLin a then a else
     match (match pred, succ with
            | Some p, _ => zattr s p KLin
            | None, Some c => zattr s c KLin
            | None, None => Some (next_lin s) end) with
     | Some l => set KLin (VZ l) a | None => a end in
  do acts, s <- (match pred, succ with
                 | Some p, Some c => do b, s <- do_del_edge s p c; Ok (acts ++ [ABasic b]) s
                 | _, _ => Ok acts s end);
  do b, s <- do_add_node s n a px;
  do acts, s <- (match pred with Some p => do b', s <- do_add_edge s p n []; Ok (acts ++ [ABasic b; ABasic b']) s | None => Ok (acts ++ [ABasic b]) s end);
  do acts, s <- (match succ with Some c => do b', s <- do_add_edge s n c []; Ok (acts ++ [ABasic b']) s | None => Ok acts s end);
  Ok (AGroup acts) s
  end
  end.
Definition user_add_node st n (a : attrs) (px : option pixels) (force top : bool) : res action :=
  top_wrap top (Some n) (user_add_node_core st n a px force).

(* UserSwapPredecessors (always top level) *)
Definition user_swap_core st n1 n2 : res action :=
  if negb (has_node st n1) || negb (has_node st n2) then Err ENetworkX st else
  let p1 := hd_error (predecessors st n1) in let p2 := hd_error (predecessors st n2) in
  match p1, p2 with
  | None, None => Err (EInvalid false) st
  | _, _ =>
    if match p1, p2 with Some a, Some b => a =? b | _, _ => false end then Err (EInvalid false) st else
    let t1 := time_of st n1 in let t2 := time_of st n2 in
    if match p1 with Some p => time_of st p >=? t2 | None => false end then Err (EInvalid false) st else
    if match p2 with Some p => time_of st p >=? t1 | None => false end then Err (EInvalid false) st else
    do a1, s <- (match p1 with Some p => do a, s <- user_delete_edge st p n1 false; Ok [a] s | None => Ok [] st end);
    do a2, s <- (match p2 with Some p => do a, s <- user_delete_edge s p n2 false; Ok (a1 ++ [a]) s | None => Ok a1 s end);
    do a3, s <- (match p1 with Some p => do a, s <- user_add_edge s p n2 false false; Ok (a2 ++ [a]) s | None => Ok a2 s end);
    do a4, s <- (match p2 with Some p => do a, s <- user_add_edge s p n1 false false; Ok (a3 ++ [a]) s | None => Ok a3 s end);
    Ok (AGroup a4) s
  end.
Definition user_swap st n1 n2 : res action := top_wrap true None (user_swap_core st n1 n2).

(* UserUpdateNodeAttrs (always top level) *)
Definition user_update_attrs_core st n (new : attrs) : res action :=
  do b, s <- do_upd_attrs st n new; Ok (AGroup [ABasic b]) s.
Definition user_update_attrs st n (new : attrs) : res action := top_wrap true None (user_update_attrs_core st n new).

(* UserUpdateSegmentation, called after the caller painted [new_value] into the array.
   groups: (pixels, previous value) per previous label, as the caller passes them. *)
(* for pixels, old_value in updated_pixels: delete or shrink the overwritten node *)
Fixpoint uus_groups (gs : list (pixels * Z)) (s : state) (acc : list action) : res (list action) :=
  match gs with
  | [] => Ok acc s
  | (px, old) :: r =>
    if old =? 0 then uus_groups r s acc else
    let remaining := match seg s with Some sg => mask_of sg (fst px) old | None => [] end in
    match remaining with
    | [] => do a, s <- user_delete_node s old (Some px) false; uus_groups r s (acc ++ [a])
    | _ => do b, s <- do_upd_seg s old px false; uus_groups r s (acc ++ [ABasic b])
    end
  end.
(* for action in reversed(self.actions): action.inverse() *)
Fixpoint rollback (l : list action) (s : state) : res unit :=
  match l with [] => Ok tt s | x :: r => do _i, s <- inv_action s x; rollback r s end.
(* returns the recorded group and the payload of the refresh signal *)
Definition user_update_seg_core st (new_value : Z) (groups : list (pixels * Z)) (T : Z) (force : bool) : res (action * option Z) :=
  match seg st with
  | None => Err EValue st
  | Some _ =>
  if (negb (new_value =? 0)) && (match groups with [] => false | _ => true end) && has_node st new_value
     && negb (time_of st new_value =? match groups with (px, _) :: _ => fst px | [] => 0 end)
  then Err (EInvalid false) st else
  do acts, s <- uus_groups groups st [];
  match groups with
  | [] => Ok (AGroup acts, None) s
  | (px0, _) :: _ =>
    if new_value =? 0 then Ok (AGroup acts, None) s else
    let allpx : pixels := (fst px0, flat_map (fun g => snd (fst g)) groups) in
    if has_node s new_value then
      do b, s <- do_upd_seg s new_value allpx true;
      Ok (AGroup (acts ++ [ABasic b]), None) s
    else
      match user_add_node s new_value [(KTime, VZ (fst px0)); (KTrack, VZ T)] (Some allpx) force false with
      | Ok x s => Ok (AGroup (acts ++ [x]), Some new_value) s
      | Err (EInvalid f) s =>
          match rollback (rev acts) s with
          | Ok _ s' => Err (EInvalid f) s'
          | Err e s' => Err e s'
          end
      | Err e s => Err e s
      end
  end
  end.
Definition user_update_seg st (new_value : Z) (groups : list (pixels * Z)) (T : Z) (force : bool) : res action :=
  match user_update_seg_core st new_value groups T force with
  | Ok (a, payload) s => Ok a (finish_top s a payload)
  | Err e s => Err e s
  end.

(* the caller's side of a paint stroke: previous values grouped per label, array painted *)
Fixpoint olds_of (i : Z) (f : list Z) (idx : list Z) : list (Z * Z) :=   (* (index, old value) *)
  match f with [] => [] | x :: r => (if memz i idx then [(i, x)] else []) ++ olds_of (i + 1) r idx end.
Fixpoint insert_sorted (x : Z) (l : list Z) : list Z :=
  match l with [] => [x] | y :: r => if x <? y then x :: y :: r else if x =? y then y :: r else y :: insert_sorted x r end.
Definition paint_groups (sg : list (list Z)) (t : Z) (idx : list Z) (new_value : Z) : list (pixels * Z) :=
  let io := filter (fun p => negb (snd p =? new_value)) (olds_of 0 (frame_of sg t) idx) in
  let vals := fold_left (fun acc p => insert_sorted (snd p) acc) io [] in       (* np.unique: ascending *)
  map (fun v => ((t, map fst (filter (fun p => snd p =? v) io)), v)) vals.
(* the caller restores the pixels it painted *)
Definition restore_groups (t : Z) (groups : list (pixels * Z)) (sg : list (list Z)) : list (list Z) :=
  fold_left (fun acc g => upd_frame (Z.to_nat t) (fun f => write_frame 0 f (snd (fst g)) (snd g)) acc) groups sg.
Definition paint st (new_value t : Z) (idx : list Z) (T : Z) (force : bool) : res action :=
  match seg st with
  | None => user_update_seg st new_value [] T force
  | Some sg =>
    if negb (frame_ok sg t) then Err EIndex st else
    let groups := paint_groups sg t idx new_value in
    let changed := flat_map (fun g => snd (fst g)) groups in
    let painted := upd_seg st (Some (upd_frame (Z.to_nat t) (fun f => write_frame 0 f changed new_value) sg)) in
    match user_update_seg painted new_value groups T force with
    | Ok a s => Ok a s
    | Err e s =>
        Err e (match seg s with Some sg' => upd_seg s (Some (restore_groups t groups sg')) | None => s end)
    end
  end.

(* ---------- Tracks.undo / Tracks.redo over action_history ---------- *)
Definition undo st : res bool :=
  let nu := length (undo_stack st) in let nr := length (redo_stack st) in
  if (nu <=? nr)%nat then Ok false st else
  match nth_error (undo_stack st) (nu - nr - 1) with
  | None => Ok false st
  | Some a => do b, s <- inv_action st a;
              Ok true (emit (upd_hist s (undo_stack s) (redo_stack s ++ [b])) None)
  end.
Definition redo st : res bool :=
  match rev (redo_stack st) with
  | [] => Ok false st
  | b :: r' => do _x, s <- inv_action (upd_hist st (undo_stack st) (rev r')) b;
               Ok true (emit s None)
  end.
