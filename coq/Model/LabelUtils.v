(* Model of funtracks/utils/_segmentation_utils.py (post-fix tree).

   A label array of shape (T, *spatial) is a list of frames, each frame the flat
   list of its labels (numpy C order; the spatial shape is irrelevant to both
   functions, which only use elementwise operations per frame).  Labels are
   unbounded Z; the code casts to uint64, so the model is faithful for labels
   in [0, 2^64) whose shifted values do not wrap (stated as a hypothesis
   [nonneg] in the theorems; wrap-around is out of scope, see DESIGN.md). *)
From Coq Require Import ZArith List Bool.
Import ListNotations.
Open Scope Z_scope.

(* ---------- ensure_unique_labels ---------- *)
(* frame[frame != 0] += curr_max *)
Definition shift_label (m x : Z) : Z := if x =? 0 then 0 else x + m.
Definition shift_frame (m : Z) (f : list Z) : list Z := map (shift_label m) f.
(* int(np.max(frame)) on an unsigned array: the maximum, 0 for an all-background frame *)
Definition fmax (f : list Z) : Z := fold_right Z.max 0 f.
(* for idx in range(shape[0]): ... curr_max = max(curr_max, int(np.max(frame))) *)
Fixpoint eul (m : Z) (fs : list (list Z)) : list (list Z) :=
  match fs with
  | [] => []
  | f :: r => let f' := shift_frame m f in f' :: eul (Z.max m (fmax f')) r
  end.
Definition ensure_unique_labels (fs : list (list Z)) : list (list Z) := eul 0 fs.

(* multiseg=True: reshape((-1, *shape[2:])) then the same loop then reshape back.
   A (H, T, ...) array is a list of hypotheses, each a list of frames. *)
Fixpoint regroup {A} (lens : list nat) (l : list A) : list (list A) :=
  match lens with
  | [] => []
  | n :: r => firstn n l :: regroup r (skipn n l)
  end.
Definition ensure_unique_labels_multiseg (hs : list (list (list Z))) : list (list (list Z)) :=
  regroup (map (@length _) hs) (ensure_unique_labels (concat hs)).

(* ---------- relabel_segmentation_with_track_id ---------- *)
(* node = (id, time, seg_id).  [comps] is the answer of
   nx.weakly_connected_components on the solution with the out-edges of dividing
   nodes removed (an oracle: see Proofs/LabelUtilsProofs.v for what is assumed). *)
Record tnode := { n_id : Z; n_time : nat; n_seg : Z }.

(* tracked_masks[time][segmentation[time] == seg_id] = id_counter *)
Definition paint_frame (oldf : list Z) (seg_id c : Z) (newf : list Z) : list Z :=
  map (fun ab => if (fst ab) =? seg_id then c else snd ab) (combine oldf newf).
Fixpoint upd_nth {A} (i : nat) (g : A -> A) (l : list A) : list A :=
  match l, i with
  | [], _ => []
  | x :: r, O => g x :: r
  | x :: r, S j => x :: upd_nth j g r
  end.
Definition paint_node (old : list (list Z)) (c : Z) (acc : list (list Z)) (n : tnode) : list (list Z) :=
  upd_nth (n_time n) (paint_frame (nth (n_time n) old []) (n_seg n) c) acc.
(* for node_set in components: for node in node_set: ...; id_counter += 1 *)
Fixpoint paint_comps (old : list (list Z)) (c : Z) (comps : list (list tnode)) (acc : list (list Z)) : list (list Z) :=
  match comps with
  | [] => acc
  | ns :: r => paint_comps old (c + 1) r (fold_left (paint_node old c) ns acc)
  end.
Definition zeros_like (old : list (list Z)) : list (list Z) := map (map (fun _ => 0)) old.
Definition relabel_with_track_id (comps : list (list tnode)) (old : list (list Z)) : list (list Z) :=
  paint_comps old 1 comps (zeros_like old).
