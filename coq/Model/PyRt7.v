(* Python runtime combinators used by the generated shallow embedding
     Gen/ExportPipeline_gen.v   (harness/translate_export.py, from
        import_export/csv/_export.py      export_to_csv
        import_export/geff/_export.py     export_to_geff, split_position_attr
        features/_feature_dict.py         FeatureDict.__init__ / dump_json / from_json
        import_export/internal_format.py  _save_seg, _save_attrs)
   Hand-written, small, trusted together with the idiom table of harness/translate_export.py:
   every definition states which Python / pandas / numpy / zarr / networkx construct it
   stands for and, where there is one, the function of the hand models
   (Model/SubsetExport.v, Model/RoundTrip.v) it IS.  Nothing here is proved against Python.

   The exception / control monad ([res], [ctl], [bind], [py_for], [run]) is the one of
   Model/PyRt2.v.  Data representation: that of the hand models (Base/Dict.v dicts,
   strings interned as Z codes, scalars as opaque Z tokens, an attribute value = the list
   of its tokens, a table cell = option Z with None = "" / NaN, arrays flat in C order).

   File IO is not performed: a function that writes files returns, next to its value, the
   list of its write EVENTS in program order ([event] below).  The hand models treat the
   file IO as an oracle ([read (write x) = x], Proofs/RoundTripProofs.v Section Oracles);
   an event carries exactly the value handed to the writer.  Events written before an
   exception are not reported (a [Raise] carries no event list). *)
From Coq Require Import ZArith List Bool.
From FT Require Import Base.Dict Model.PyRt2 Model.RoundTrip.
From FT Require Model.SubsetExport.
Import ListNotations.
Open Scope Z_scope.

(* ------------------------------------------------------------------ monad, expression level *)
(* a raising sub-expression inside an expression whose evaluation is conditional
   (a if c else b,  the arms of a case split) *)
Definition rbind {A B} (x : res A) (k : A -> res B) : res B :=
  match x with Ok a => k a | Raise e => Raise e end.

(* the body of `for _, attrs in G.nodes(data=True): ...` as a function of the attribute dict:
   the body falls through (Cont) with the modified dict; break / return are refused by the
   translator (a return is impossible by typing) *)
Definition body_res {S} (c : ctl S Empty_set) : res S :=
  match c with Cont s | Brk s => Ok s | Ret r => match r with end | Exn e => Raise e end.

(* ------------------------------------------------------------------ string codes *)
(* the codes of Model/RoundTrip.v are used for the names it knows ("t" "z" "y" "x" "id"
   "parent_id" "track_id" "time" and the JSON keys); the remaining string constants of the
   translated functions: *)
Definition K_coords := 30.           (* "coords"        key of the local column_map *)
Definition S_w := 40.                (* "w"             zarr open mode *)
Definition S_w_minus := 41.          (* "w-" *)
Definition S_space := 42.            (* "space"         geff axis type *)
Definition S_time_axis := 43.        (* "time"          geff axis type (as a VALUE; as a KEY "time" is K_time) *)
Definition S_segmentation := 44.     (* "segmentation"  path component *)
Definition S_tracks := 45.           (* "tracks"        path component *)
Definition F_one := 46.              (* the float 1.0   (scalars are opaque tokens) *)
Definition S_seg_npy := 47.          (* "seg.npy"       internal_format.SEG_FILE *)
Definition S_attrs_json := 48.       (* "attrs.json"    internal_format.ATTRS_FILE *)
Definition J_scale := 106.           (* "scale"   } keys of attrs.json *)
Definition J_ndim := 107.            (* "ndim"    } *)
Definition J_features_attr := 108.   (* "features" as a key of attrs.json (inside the FeatureDict dump it is J_features) *)

(* ------------------------------------------------------------------ small Python *)
Definition py_len {A} (l : list A) : Z := Z.of_nat (length l).
(* l[i] for i >= 0: IndexError past the end (a negative index counts from the end in Python:
   outside the representation, reported as IndexError) *)
Definition list_get {A} (l : list A) (i : Z) : res A :=
  if i <? 0 then Raise IndexError
  else match nth_error l (Z.to_nat i) with Some x => Ok x | None => Raise IndexError end.
(* range(n) *)
Definition py_range (n : Z) : list Z := map Z.of_nat (seq 0 (Z.to_nat n)).
(* range(lo, hi, step), step > 0: lo, lo + step, ... while < hi.  step = 0: ValueError; a
   negative step is outside the representation (reported as ValueError).  For lo = 0 this is
   SubsetExport.chunk_starts hi step. *)
Definition py_range_step (lo hi step : Z) : res (list Z) :=
  if step <=? 0 then Raise ValueError
  else Ok (SubsetExport.chunk_starts_from (Z.to_nat (hi - lo)) lo hi step).
(* l * n  (list / tuple repetition; n <= 0 gives the empty list) *)
Definition py_list_repeat {A} (l : list A) (n : Z) : list A := concat (repeat l (Z.to_nat n)).
(* l[:n], n >= 0 *)
Definition py_slice_to {A} (l : list A) (n : Z) : list A := firstn (Z.to_nat n) l.
(* l.insert(0, x) *)
Definition py_insert0 {A} (x : A) (l : list A) : list A := x :: l.
(* zip(a, b, strict=True) / zip(a, b, c, strict=True), consumed completely: ValueError when the
   lengths differ (Python raises at the end of the shorter one, i.e. after the loop body ran for
   the common prefix; no translated loop has an effect that survives the exception) *)
Definition py_zip_strict {A B} (a : list A) (b : list B) : res (list (A * B)) :=
  if Nat.eqb (length a) (length b) then Ok (combine a b) else Raise ValueError.
Definition py_zip3_strict {A B C} (a : list A) (b : list B) (c : list C) : res (list (A * B * C)) :=
  if Nat.eqb (length a) (length b) && Nat.eqb (length b) (length c)
  then Ok (combine (combine a b) c) else Raise ValueError.
(* itertools.product over the unpacked list ls = SubsetExport.product *)
Definition itertools_product (ls : list (list Z)) : list (list Z) := SubsetExport.product ls.
(* d.pop(k): KeyError when absent *)
Definition dict_pop {V} (k : Z) (d : dict V) : res (V * dict V) :=
  match lookup k d with Some v => Ok (v, del k d) | None => Raise KeyError end.
(* {k: e for k, v in d.items()}: the keys are those of d, in order, each once *)
Definition dict_map_values {V W} (f : Z -> V -> W) (d : dict V) : dict W :=
  map (fun kv => (fst kv, f (fst kv) (snd kv))) d.

(* the value of a local dict[str, str | list[str]]  (column_map of export_to_csv) *)
Inductive colspec := CStr (s : Z) | CList (l : list Z).
(* typing.cast(str, v) does nothing at run time; a list used as a dict key is a TypeError *)
Definition col_as_str (c : colspec) : res Z := match c with CStr s => Ok s | CList _ => Raise TypeError end.
(* iterating a str would yield its characters: outside the representation, TypeError *)
Definition col_as_list (c : colspec) : res (list Z) := match c with CList l => Ok l | CStr _ => Raise TypeError end.

(* float(v) / int(v) of a numpy scalar: the same number, i.e. the same token *)
Definition py_float (v : Z) : Z := v.
Definition py_int_of_np (v : Z) : Z := v.

(* ------------------------------------------------------------------ arrays *)
(* a numpy array: shape, dtype (np.uint8/16/32/64 are 8/16/32/64; any other dtype is an opaque
   code), content flat in C order *)
Record ndarray := { a_shape : list Z; a_dtype : Z; a_data : list Z }.
(* a boolean array *)
Record barray := { b_shape : list Z; b_data : list bool }.
Definition np_uint8 := 8.
Definition np_uint16 := 16.
Definition np_uint32 := 32.
Definition np_uint64 := 64.
(* np.iinfo(np.uintN).max *)
Definition np_iinfo_max (d : Z) : Z := 2 ^ d - 1.
Definition shape_size (shape : list Z) : Z := fold_right Z.mul 1 shape.
Fixpoint list_eqb (a b : list Z) : bool :=
  match a, b with
  | [], [] => true
  | x :: a', y :: b' => (x =? y) && list_eqb a' b'
  | _, _ => false
  end.

(* basic slicing with a tuple of slice(lo, hi), one per axis, 0 <= lo (fewer slices than axes,
   negative bounds, steps: outside the representation).  A multi-index lies in the box: *)
Fixpoint in_box (sl : list (Z * Z)) (idx : list Z) : bool :=
  match sl, idx with
  | (lo, hi) :: sr, i :: ir => (lo <=? i) && (i <? hi) && in_box sr ir
  | [], [] => true
  | _, _ => false
  end.
(* the shape of a[sl]: numpy clips hi to the axis length *)
Fixpoint box_shape (shape : list Z) (sl : list (Z * Z)) : list Z :=
  match shape, sl with
  | d :: dr, (lo, hi) :: sr => Z.max 0 (Z.min hi d - lo) :: box_shape dr sr
  | _, _ => []
  end.
(* the elements of a[sl] in C order = the elements of a, in C order, whose index is in the box
   (np.unravel_index = SubsetExport.unravel) *)
Fixpoint gather (sl : list (Z * Z)) (shape : list Z) (k : Z) (data : list Z) : list Z :=
  match data with
  | [] => []
  | d :: r => if in_box sl (SubsetExport.unravel shape k) then d :: gather sl shape (k + 1) r
              else gather sl shape (k + 1) r
  end.
(* a[sl] = vals: the positions in the box take the values in C order *)
Fixpoint scatter (sl : list (Z * Z)) (shape : list Z) (k : Z) (data vals : list Z) : list Z :=
  match data with
  | [] => []
  | d :: r => if in_box sl (SubsetExport.unravel shape k)
              then match vals with
                   | v :: vs => v :: scatter sl shape (k + 1) r vs
                   | [] => d :: scatter sl shape (k + 1) r []
                   end
              else d :: scatter sl shape (k + 1) r vals
  end.
(* block = a[slices] *)
Definition np_getitem_slices (a : ndarray) (sl : list (Z * Z)) : res ndarray :=
  if Nat.eqb (length sl) (length (a_shape a))
  then Ok {| a_shape := box_shape (a_shape a) sl; a_dtype := a_dtype a;
             a_data := gather sl (a_shape a) 0 (a_data a) |}
  else Raise IndexError.
(* np.asarray(l) of a list of ints: the same sequence *)
Definition np_asarray (l : list Z) : list Z := l.
(* np.isin(a, l) *)
Definition np_isin (a : ndarray) (l : list Z) : barray :=
  {| b_shape := a_shape a; b_data := map (fun x => memz x l) (a_data a) |}.
(* np.where(m, a, c) with a scalar c and m, a of one shape (broadcasting: outside the
   representation, ValueError) *)
Definition np_where_scalar (m : barray) (a : ndarray) (c : Z) : res ndarray :=
  if list_eqb (b_shape m) (a_shape a)
  then Ok {| a_shape := a_shape a; a_dtype := a_dtype a;
             a_data := map (fun bx : bool * Z => if fst bx then snd bx else c) (combine (b_data m) (a_data a)) |}
  else Raise ValueError.

(* ------------------------------------------------------------------ zarr *)
(* a zarr array opened by funtracks.utils.setup_zarr_array(path, zarr_format=, shape=, dtype=,
   chunks=) with mode "w": a new array whose every element is the fill value 0.  The record is
   the store: what is assigned into it is what the directory holds; the translator reports it
   as the event [EvZarr z] when the function that created it returns. *)
Record zarr := { z_path : Z; z_format : Z; z_chunks : list Z; z_arr : ndarray }.
Definition setup_zarr_array (path fmt : Z) (shape : list Z) (dtype : Z) (chunks : list Z) : zarr :=
  {| z_path := path; z_format := fmt; z_chunks := chunks;
     z_arr := {| a_shape := shape; a_dtype := dtype; a_data := repeat 0 (Z.to_nat (shape_size shape)) |} |}.
Definition zarr_with_data (z : zarr) (data : list Z) : zarr :=
  {| z_path := z_path z; z_format := z_format z; z_chunks := z_chunks z;
     z_arr := {| a_shape := a_shape (z_arr z); a_dtype := a_dtype (z_arr z); a_data := data |} |}.
(* z[slices] = v with v of the shape of the box (anything else: ValueError / broadcasting) *)
Definition zarr_setitem (z : zarr) (sl : list (Z * Z)) (v : ndarray) : res zarr :=
  if Nat.eqb (length sl) (length (a_shape (z_arr z))) && list_eqb (a_shape v) (box_shape (a_shape (z_arr z)) sl)
  then Ok (zarr_with_data z (scatter sl (a_shape (z_arr z)) 0 (a_data (z_arr z)) (a_data v)))
  else Raise ValueError.
(* z[:] = a with a of the shape of z *)
Definition zarr_setall (z : zarr) (a : ndarray) : res zarr :=
  if list_eqb (a_shape a) (a_shape (z_arr z)) then Ok (zarr_with_data z (a_data a)) else Raise ValueError.

(* ------------------------------------------------------------------ the Tracks object, read only *)
(* tracks.graph, .features (time_key, position_key, tracklet_key, lineage_key and the features),
   .ndim, .scale, .segmentation.  The translator refuses every assignment to an attribute of
   `tracks` and every method call on it outside this section. *)
Record tracks := { t_graph : graph; t_features : feature_dict; t_ndim : Z;
                   t_scale : option (list Z); t_seg : option ndarray }.

(* graph.nodes() / list(graph.nodes) *)
Definition nx_nodes (g : graph) : list Z := map fst (g_nodes g).
(* the graph as Model/SubsetExport.v sees it: node ids, edges (per target in predecessor order,
   because SubsetExport.preds and RoundTrip.preds are the same function of the edge list) *)
Definition nx_structure (g : graph) : SubsetExport.graph := (nx_nodes g, g_edges g).
(* list(graph.predecessors(n)) = RoundTrip.preds; NetworkXError for a node not in the graph *)
Definition nx_predecessors (g : graph) (n : Z) : res (list Z) :=
  if memz n (nx_nodes g) then Ok (preds g n) else Raise NetworkXError.
(* graph.nodes[n]: KeyError for a node not in the graph *)
Definition nx_node_attrs (g : graph) (n : Z) : res attrs :=
  match lookup n (g_nodes g) with Some a => Ok a | None => Raise KeyError end.
(* a scalar attribute is a singleton value *)
Definition scalar_of (v : value) : res Z := match v with [x] => Ok x | _ => Raise TypeError end.
(* tracks.get_time(n) = int(graph.nodes[n][time_key]) *)
Definition tracks_get_time (tr : tracks) (n : Z) : res Z :=
  rbind (nx_node_attrs (t_graph tr) n) (fun a => rbind (dict_get (fd_time (t_features tr)) a) scalar_of).
(* tracks.get_track_id(n): ValueError without a tracklet key, else graph.nodes[n][tracklet_key] *)
Definition tracks_get_track_id (tr : tracks) (n : Z) : res Z :=
  match fd_tracklet (t_features tr) with
  | None => Raise ValueError
  | Some k => rbind (nx_node_attrs (t_graph tr) n) (fun a => rbind (dict_get k a) scalar_of)
  end.
(* tracks.get_position(n): ValueError without a position key, else RoundTrip.get_position (a
   missing per-axis attribute does not raise there: the convention of the hand model) *)
Definition tracks_get_position (tr : tracks) (n : Z) : res value :=
  match fd_pos (t_features tr) with
  | None => Raise ValueError
  | Some pk => rbind (nx_node_attrs (t_graph tr) n) (fun a => Ok (get_position pk a))
  end.

(* graph.copy(): a new graph with new attribute dicts (values shared, never modified) *)
Definition nx_copy (g : graph) : graph := g.
(* graph.subgraph(keep).copy(): the kept nodes in graph order and the edges between them
   (= SubsetExport.geff_nodes / geff_edges on nx_structure) *)
Definition nx_subgraph_copy (g : graph) (keep : list Z) : graph :=
  {| g_nodes := filter (fun n => memz (fst n) keep) (g_nodes g);
     g_edges := filter (fun e => memz (fst e) keep && memz (snd e) keep) (g_edges g) |}.
(* for _, attrs in G.nodes(data=True): <body modifying attrs in place>   on a graph G the
   function owns (a copy) *)
Definition nx_for_node_attrs (g : graph) (f : attrs -> res attrs) : res graph :=
  rbind (mapM (fun n => rbind (f (snd n)) (fun a => Ok (fst n, a))) (g_nodes g))
        (fun ns => Ok {| g_nodes := ns; g_edges := g_edges g |}).

(* ------------------------------------------------------------------ pandas / skimage *)
(* pd.DataFrame(rows, columns=header) = RoundTrip.dataframe *)
Definition pd_DataFrame (rows : list (dict cell)) (header : list Z) : table := dataframe rows header.
(* len(df) for a frame with at least one column (a frame without columns is outside the
   representation: it would report the number of rows given) *)
Definition df_len (t : table) : Z := match t with [] => 0 | (_, c) :: _ => py_len c end.
(* df[c]: KeyError for a missing column *)
Definition df_getitem (t : table) (c : Z) : res (list cell) := dict_get c t.
(* Series.max(): NaN cells are skipped; NaN for an empty / all-NaN column *)
Definition series_max (c : list cell) : cell :=
  fold_left (fun acc x => match x, acc with
                          | Some v, Some m => Some (Z.max m v)
                          | Some v, None => Some v
                          | None, _ => acc
                          end) c None.
(* int(x): ValueError for NaN *)
Definition py_int_cell (c : cell) : res Z := match c with Some v => Ok v | None => Raise ValueError end.
(* np.array(series) *)
Definition np_array_col (c : list cell) : list cell := c.
(* np.array(series, dtype=np.uintN): a C cast, i.e. modulo 2^N (observed: 300 -> 44 for uint8).
   A NaN cell is cast to an unspecified value with a RuntimeWarning: outside the representation,
   reported as ValueError *)
Definition np_array_col_dtype (c : list cell) (d : Z) : res (list Z * Z) :=
  rbind (mapM (fun x => match x with Some v => Ok (v mod 2 ^ d) | None => Raise ValueError end) c)
        (fun l => Ok (l, d)).
(* skimage.util.map_array(a, input_vals, output_vals): every element equal to input_vals[j] becomes
   output_vals[j] (the last such j: observed), every other element 0; dtype of output_vals *)
Definition map_lookup (pairs : list (cell * Z)) (l : Z) : Z :=
  fold_left (fun acc p => match fst p with Some i => if i =? l then snd p else acc | None => acc end) pairs 0.
Definition sk_map_array (a : ndarray) (inv : list cell) (outv : list Z * Z) : ndarray :=
  {| a_shape := a_shape a; a_dtype := snd outv;
     a_data := map (map_lookup (combine inv (fst outv))) (a_data a) |}.

(* ------------------------------------------------------------------ geff *)
(* GeffMetadata(geff_version=geff_spec.__version__, directed=isinstance(graph, nx.DiGraph),
   node_props_metadata={}, edge_props_metadata={}), optionally with
   related_objects = [{"path": "../segmentation", "type": "labels", "label_prop": "seg_id"}] *)
Inductive geff_meta := GeffMeta (related_segmentation : bool).

(* ------------------------------------------------------------------ write events *)
Inductive event :=
| EvCsv (path : Z) (t : table)                 (* df.to_csv(path, index=False) *)
| EvTif (path : Z) (a : ndarray)               (* tifffile.imwrite(path, a, compression="deflate") *)
| EvZarrGroup (path fmt mode : Z)              (* setup_zarr_group(path, zarr_format=fmt, mode=mode) *)
| EvZarr (z : zarr)                            (* the final content of a zarr array the function created *)
| EvGeff (path : Z) (g : graph) (meta : geff_meta) (axis_names axis_types scale : list Z)
         (overwrite : bool) (fmt : Z)          (* geff.write(graph=, store=, metadata=, axis_names=, ...) *)
| EvNpy (path : Z) (a : ndarray)               (* np.save(path, a) *)
| EvJson (path : Z) (j : json).                (* with open(path, "w") as f: json.dump(j, f) *)

(* ------------------------------------------------------------------ JSON values *)
(* j[k] on a JSON object: KeyError; on anything else TypeError *)
Definition json_getitem (j : json) (k : Z) : res json :=
  match j with JObj o => dict_get k o | _ => Raise TypeError end.
(* j.get(k): None (JNull) when absent *)
Definition json_get (j : json) (k : Z) : res json :=
  match j with JObj o => Ok (getd k o JNull) | _ => Raise TypeError end.
(* a JSON value used where the typed representation needs a dict of features / a str / a
   str-or-None / a str-or-list-or-None: any other shape has no counterpart in
   RoundTrip.feature_dict and is reported as TypeError *)
Definition json_as_obj (j : json) : res (dict json) := match j with JObj o => Ok o | _ => Raise TypeError end.
Definition json_as_str (j : json) : res Z := match j with JAtom a => Ok a | _ => Raise TypeError end.
Definition json_as_opt_str (j : json) : res (option Z) :=
  match j with JNull => Ok None | JAtom a => Ok (Some a) | _ => Raise TypeError end.
Definition json_as_poskey (j : json) : res (option poskey) :=
  match j with
  | JNull => Ok None
  | JAtom a => Ok (Some (PSingle a))
  | JList l => match atoms l with Some ks => Ok (Some (PMulti ks)) | None => Raise TypeError end
  | JObj _ => Raise TypeError
  end.
(* the typed values as JSON (RoundTrip.enc_opt / enc_pos); dict(v) of a Feature is the object itself *)
Definition json_of_str (s : Z) : json := JAtom s.
Definition json_of_opt_str (o : option Z) : json := enc_opt o.
Definition json_of_poskey (p : option poskey) : json := enc_pos p.
Definition json_of_int (n : Z) : json := JAtom n.
Definition json_of_opt_list (o : option (list Z)) : json :=
  match o with None => JNull | Some l => JList (map JAtom l) end.
Definition py_dict_copy (j : json) : json := j.

(* FeatureDict: super().__init__(features) followed by the four attribute assignments *)
Definition fd_new (features : dict json) (time_key : Z) (pos : option poskey) (trk lin : option Z) : feature_dict :=
  {| fd_features := features; fd_time := time_key; fd_pos := pos; fd_tracklet := trk; fd_lineage := lin |}.
