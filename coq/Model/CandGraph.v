(* Model of funtracks/candidate_graph/{utils,compute_graph,iou}.py (post-fix tree).

   Conventions.
   * A node is (id, time, pos, area).  Point-list nodes have no area attribute
     (n_area = 0 in the model); segmentation nodes carry the pixel count of their
     label as n_area and a symbolic centroid (n_pos = []): skimage regionprops'
     centroid/area scaling is an oracle, the harness compares the stored values with
     an exact recomputation.
   * Coordinates, times and scales are integers (Z).  The harness feeds rational
     (dyadic) scales after multiplying spatial units by the common denominator.
   * scipy's KDTree.query_ball_tree is the boolean [near] on node ids.  For point
     lists it is instantiated with the exact test  sum (xi-yi)^2 <= d2max ; for
     segmentations the harness passes the list of near (label, label) pairs.
   * node_frame_dict is an association list in key-insertion order (a Python dict),
     each value the list of node ids in insertion order.
   * a label array (T, *spatial) is a list of flat frames (C order).
   * The order of the edge list is: frames ascending, sources in dict order, targets
     in dict order (query_ball_tree's own order of the matches is unspecified; the
     harness compares edge sets). *)
From Coq Require Import ZArith List Bool.
Import ListNotations.
Open Scope Z_scope.

Record node := { n_id : Z; n_time : Z; n_pos : list Z; n_area : Z }.
Definition graph := list node.
Definition nfdict := list (Z * list Z).

(* ---------- dict primitives ---------- *)
(* node_frame_dict[t]  /  t in node_frame_dict *)
Fixpoint nfd_get (t : Z) (d : nfdict) : option (list Z) :=
  match d with
  | [] => None
  | (k, ids) :: r => if k =? t then Some ids else nfd_get t r
  end.
(* if t not in node_frame_dict: node_frame_dict[t] = []
   node_frame_dict[t].extend(new)            (append(x) is extend([x])) *)
Fixpoint nfd_extend (t : Z) (new : list Z) (d : nfdict) : nfdict :=
  match d with
  | [] => [(t, new)]
  | (k, ids) :: r => if k =? t then (k, ids ++ new) :: r else (k, ids) :: nfd_extend t new r
  end.

(* sorted(...) on integers: insertion sort *)
Fixpoint insert (x : Z) (l : list Z) : list Z :=
  match l with
  | [] => [x]
  | y :: r => if x <=? y then x :: l else y :: insert x r
  end.
Definition sort (l : list Z) : list Z := fold_right insert [] l.

(* ---------- _compute_node_frame_dict ---------- *)
(* for node, data in cand_graph.nodes(data=True): t = data["time"]; ...; node_frame_dict[t].append(node) *)
Definition compute_nfd (g : graph) : nfdict :=
  fold_left (fun d n => nfd_extend (n_time n) [n_id n] d) g [].

(* ---------- add_cand_edges ---------- *)
(* for prev_node_id, next_node_indices in zip(prev_node_ids, matched_indices):
     for next_node_index in next_node_indices: cand_graph.add_edge(prev_node_id, next_node_ids[next_node_index])
   matched_indices[i] = the j with  near prev[i] next[j]  (query_ball_tree oracle) *)
Definition frame_edges (near : Z -> Z -> bool) (prev next : list Z) : list (Z * Z) :=
  flat_map (fun u => map (fun v => (u, v)) (filter (near u) next)) prev.
(* frames = sorted(node_frame_dict.keys())
   for frame in frames:
       if frame + 1 not in node_frame_dict: continue
       prev_node_ids = node_frame_dict[frame]; next_node_ids = node_frame_dict[frame + 1]; ... *)
Definition add_cand_edges_nfd (near : Z -> Z -> bool) (d : nfdict) : list (Z * Z) :=
  flat_map (fun frame =>
              match nfd_get (frame + 1) d with
              | None => []
              | Some next =>
                  match nfd_get frame d with
                  | Some prev => frame_edges near prev next
                  | None => []
                  end
              end) (sort (map fst d)).
(* if not node_frame_dict: node_frame_dict = _compute_node_frame_dict(cand_graph)
   (None and the empty dict are both falsy) *)
Definition add_cand_edges (near : Z -> Z -> bool) (g : graph) (d : nfdict) : list (Z * Z) :=
  add_cand_edges_nfd near (match d with [] => compute_nfd g | _ => d end).

(* ---------- create_kdtree + query_ball_tree on integer positions ---------- *)
(* squared Euclidean distance *)
Fixpoint dist2 (p q : list Z) : Z :=
  match p, q with
  | x :: p', y :: q' => (x - y) * (x - y) + dist2 p' q'
  | _, _ => 0
  end.
(* cand_graph.nodes[node]["pos"] *)
Definition pos_of (g : graph) (id : Z) : list Z :=
  match find (fun n => n_id n =? id) g with Some n => n_pos n | None => [] end.
(* distance <= max_edge_distance, as  d^2 <= floor(max_edge_distance^2)  on integers *)
Definition near_pos (d2max : Z) (g : graph) (u v : Z) : bool :=
  dist2 (pos_of g u) (pos_of g v) <=? d2max.

(* ---------- nodes_from_points_list ---------- *)
(* points_list = points_list * np.array(scale)   (row-wise, elementwise) *)
Definition scale_point (sc : option (list Z)) (p : list Z) : list Z :=
  match sc with
  | None => p
  | Some s => map (fun ab => fst ab * snd ab) (combine p s)
  end.
Definition mk_point_node (i : Z) (p : list Z) : node :=
  {| n_id := i; n_time := hd 0 p; n_pos := tl p; n_area := 0 |}.
(* for i, point in enumerate(points_list): t = point[0]; pos = list(point[1:]); node_id = i
     cand_graph.add_node(node_id, time=t, pos=pos); node_frame_dict[t].append(node_id) *)
Fixpoint points_loop (i : Z) (pts : list (list Z)) (g : graph) (d : nfdict) : graph * nfdict :=
  match pts with
  | [] => (g, d)
  | p :: r => points_loop (i + 1) r (g ++ [mk_point_node i p]) (nfd_extend (hd 0 p) [i] d)
  end.
(* assert len(scale) == points_list.shape[1]  -> None models the AssertionError *)
Definition nodes_from_points_list (sc : option (list Z)) (pts : list (list Z)) : option (graph * nfdict) :=
  let ok := match sc with
            | None => true
            | Some s => forallb (fun p => Nat.eqb (length p) (length s)) pts
            end in
  if ok then Some (points_loop 0 (map (scale_point sc) pts) [] []) else None.

(* compute_graph_from_points_list *)
Definition compute_graph_from_points_list (d2max : Z) (sc : option (list Z)) (pts : list (list Z))
  : option (graph * list (Z * Z)) :=
  match nodes_from_points_list sc pts with
  | None => None
  | Some (g, d) => Some (g, add_cand_edges (near_pos d2max g) g d)
  end.

(* add_cand_edges(cand_graph, max_edge_distance)  on a graph with positions, node_frame_dict=None *)
Definition add_cand_edges_graph (d2max : Z) (g : graph) : list (Z * Z) :=
  add_cand_edges (near_pos d2max g) g [].

(* ---------- nodes_from_segmentation ---------- *)
(* regionprops(segs): one region per positive label present, ascending label order *)
Definition frame_labels (f : list Z) : list Z :=
  sort (nodup Z.eq_dec (filter (fun l => 0 <? l) f)).
(* regionprop.area before scaling: number of pixels of the label *)
Definition count (l : Z) (f : list Z) : Z := Z.of_nat (count_occ Z.eq_dec f l).
Definition mk_seg_node (t : Z) (f : list Z) (l : Z) : node :=
  {| n_id := l; n_time := t; n_pos := []; n_area := count l f |}.
(* for regionprop in props: node_id = regionprop.label
       if node_id in cand_graph.nodes: raise ValueError("Duplicate values found among nodes")
       cand_graph.add_node(node_id, **attrs); nodes_in_frame.append(node_id) *)
Fixpoint add_frame_nodes (t : Z) (f : list Z) (labs : list Z) (g : graph) : option graph :=
  match labs with
  | [] => Some g
  | l :: r => if existsb (fun n => n_id n =? l) g then None
              else add_frame_nodes t f r (g ++ [mk_seg_node t f l])
  end.
(* for t in range(len(segmentation)): ...
       if nodes_in_frame: (if t not in node_frame_dict: node_frame_dict[t] = []); node_frame_dict[t].extend(nodes_in_frame) *)
Fixpoint seg_loop (t : Z) (fs : list (list Z)) (g : graph) (d : nfdict) : option (graph * nfdict) :=
  match fs with
  | [] => Some (g, d)
  | f :: r =>
      let labs := frame_labels f in
      match add_frame_nodes t f labs g with
      | None => None
      | Some g' => seg_loop (t + 1) r g' (match labs with [] => d | _ => nfd_extend t labs d end)
      end
  end.
Definition nodes_from_segmentation (fs : list (list Z)) : option (graph * nfdict) := seg_loop 0 fs [] [].

(* ---------- iou.py ---------- *)
Definition pair_dec (a b : Z * Z) : {a = b} + {a <> b} :=
  match a, b with
  | (a1, a2), (b1, b2) =>
      match Z.eq_dec a1 b1, Z.eq_dec a2 b2 with
      | left e1, left e2 => left (f_equal2 pair e1 e2)
      | right n, _ => right (fun H : (a1, a2) = (b1, b2) => n (f_equal fst H))
      | _, right n => right (fun H : (a1, a2) = (b1, b2) => n (f_equal snd H))
      end
  end.
Definition pair_eqb (a b : Z * Z) : bool := (fst a =? fst b) && (snd a =? snd b).
(* non_zero_indices = np.logical_and(frame1, frame2); stacked = [frame1[nz], frame2[nz]] *)
Definition overlap_pairs (f1 f2 : list Z) : list (Z * Z) :=
  filter (fun ab => negb (fst ab =? 0) && negb (snd ab =? 0)) (combine f1 f2).
(* values, counts = np.unique(stacked, axis=1, return_counts=True)   (here: first-occurrence order, not sorted)
   union = frame1_label_sizes[id1] + frame2_label_sizes[id2] - intersection
   ious.append((id1, id2, intersection / union))    -- the quotient is kept as the exact pair *)
Definition compute_ious (f1 f2 : list Z) : list ((Z * Z) * (Z * Z)) :=
  let ov := overlap_pairs f1 f2 in
  map (fun pr => let i := Z.of_nat (count_occ pair_dec ov pr) in
                 (pr, (i, count (fst pr) f1 + count (snd pr) f2 - i)))
      (nodup pair_dec ov).
(* _get_iou_dict (multiseg=False): for frame in range(T-1): for l1, l2, iou in _compute_ious(seg[frame], seg[frame+1]):
       iou_dict[l1][l2] = iou          -- association list, later entries overwrite earlier ones *)
Fixpoint get_iou_dict (fs : list (list Z)) : list ((Z * Z) * (Z * Z)) :=
  match fs with
  | [] => []
  | f1 :: r => match r with
               | [] => []
               | f2 :: _ => compute_ious f1 f2 ++ get_iou_dict r
               end
  end.
(* ious.get(node_id, {}).get(next_id, 0) ; the default 0 is the fraction 0/1 *)
Definition iou_get (u v : Z) (d : list ((Z * Z) * (Z * Z))) : Z * Z :=
  match find (fun e => pair_eqb (fst e) (u, v)) (rev d) with
  | Some e => snd e
  | None => (0, 1)
  end.
(* add_iou: for frame in sorted(keys): if frame + 1 not in dict: continue
     for node_id in dict[frame]: for next_id in dict[frame+1]:
        iou = ...; if (node_id, next_id) in cand_graph.edges: cand_graph.edges[(node_id, next_id)]["iou"] = iou
   result: the list of attribute assignments in order *)
Definition add_iou (edges : list (Z * Z)) (fs : list (list Z)) (d : nfdict) : list ((Z * Z) * (Z * Z)) :=
  let ious := get_iou_dict fs in
  flat_map (fun frame =>
              match nfd_get (frame + 1) d with
              | None => []
              | Some next =>
                  match nfd_get frame d with
                  | None => []
                  | Some prev =>
                      flat_map (fun u =>
                        flat_map (fun v => if existsb (pair_eqb (u, v)) edges
                                           then [((u, v), iou_get u v ious)] else []) next) prev
                  end
              end) (sort (map fst d)).

(* compute_graph_from_seg; [nearpairs] = the (label, label) pairs within max_edge_distance (oracle) *)
Definition near_list (nearpairs : list (Z * Z)) (u v : Z) : bool := existsb (pair_eqb (u, v)) nearpairs.
Definition compute_graph_from_seg (near : Z -> Z -> bool) (iou : bool) (fs : list (list Z))
  : option (graph * list (Z * Z) * list ((Z * Z) * (Z * Z))) :=
  match nodes_from_segmentation fs with
  | None => None
  | Some (g, d) =>
      let e := add_cand_edges near g d in
      Some (g, e, if iou then add_iou e fs d else [])
  end.
Definition compute_graph_from_seg_list (nearpairs : list (Z * Z)) (iou : bool) (fs : list (list Z)) :=
  compute_graph_from_seg (near_list nearpairs) iou fs.
