(* Model of funtracks/import_export/_import_segmentation.py : relabel_segmentation
   and of the relabel-or-not decision of
   funtracks/import_export/_tracks_builder.py : TracksBuilder.handle_segmentation
   (post-fix tree).

   A label array of shape (T, *spatial) is a list of frames, each the flat list of
   its labels (numpy C order), as in Model/LabelUtils.v.  The imported nodes are
   the rows (node id, time, seg id) in the order of the arrays
   node_ids / time_values / seg_ids; the record [tnode] of LabelUtils.v is reused
   for a row.  Labels and ids are unbounded Z (the code writes into a uint64 array:
   faithful for ids in [0, 2^64 - 1)); times are naturals (a negative time would
   index from the end in numpy: out of scope).  A row whose time is >= T raises
   IndexError in Python; the model skips it ([upd_nth] past the end is the
   identity) and every theorem assumes all times in range.

   Reused from LabelUtils.v:  [paint_frame oldf s c newf]  is
   newf[oldf == s] = c ;  [upd_nth t g a]  is  a[t] = g(a[t]) ;  [zeros_like]. *)
From Coq Require Import ZArith List Bool.
From FT Require Import Model.LabelUtils.
Import ListNotations.
Open Scope Z_scope.

(* ---------- relabel_segmentation ---------- *)
Definition node_ids (rows : list tnode) : list Z := map n_id rows.

(* offset = 1 if 0 in node_ids else 0 *)
Definition offset (rows : list tnode) : Z := if existsb (Z.eqb 0) (node_ids rows) then 1 else 0.

(* mapping = {old_id: old_id + offset for old_id in graph.nodes()}; nx.relabel_nodes(graph, mapping, copy=False)
   node_ids = node_ids + offset          (executed only when offset = 1; adding 0 is the identity) *)
Definition shift_row (off : Z) (r : tnode) : tnode :=
  {| n_id := n_id r + off; n_time := n_time r; n_seg := n_seg r |}.
Definition shift_rows (off : Z) (rows : list tnode) : list tnode := map (shift_row off) rows.

(* np.unique(time_values): the distinct times, ascending *)
Fixpoint insert_u (t : nat) (l : list nat) : list nat :=
  match l with
  | [] => [t]
  | x :: r => if Nat.ltb t x then t :: l else if Nat.eqb t x then l else x :: insert_u t r
  end.
Definition unique_times (rows : list tnode) : list nat := fold_right insert_u [] (map n_time rows).

(* Python dict: d[k] = v keeps the position of the first insertion of k and the last value *)
Fixpoint dict_set (k v : Z) (d : list (Z * Z)) : list (Z * Z) :=
  match d with
  | [] => [(k, v)]
  | (a, b) :: r => if a =? k then (a, v) :: r else (a, b) :: dict_set k v r
  end.
(* dict(zip(keys, values)) *)
Definition dict_zip (kvs : list (Z * Z)) : list (Z * Z) :=
  fold_left (fun d kv => dict_set (fst kv) (snd kv) d) kvs [].

(* mask = time_values == t; seg_ids_t = seg_ids[mask]; node_ids_t = node_ids[mask]
   seg_to_node = dict(zip(seg_ids_t, node_ids_t, strict=True)) *)
Definition frame_dict (rows : list tnode) (t : nat) : list (Z * Z) :=
  dict_zip (map (fun r => (n_seg r, n_id r)) (filter (fun r => Nat.eqb (n_time r) t) rows)).

(* for seg_id, node_id in seg_to_node.items():
       new_segmentation[t][computed_seg[t] == seg_id] = node_id        (mask read from the ORIGINAL array) *)
Definition relabel_frame (old : list (list Z)) (t : nat) (d : list (Z * Z)) (acc : list (list Z)) : list (list Z) :=
  fold_left (fun a sn => upd_nth t (paint_frame (nth t old []) (fst sn) (snd sn)) a) d acc.

(* for t in np.unique(time_values): ... *)
Definition relabel_loop (old : list (list Z)) (rows : list tnode) (ts : list nat) (acc : list (list Z)) : list (list Z) :=
  fold_left (fun a t => relabel_frame old t (frame_dict rows t) a) ts acc.

(* whole function: returns the new array and the rows as renamed in the graph *)
Definition relabel_segmentation (rows : list tnode) (old : list (list Z)) : list (list Z) * list tnode :=
  let off := offset rows in
  let rows' := shift_rows off rows in
  (relabel_loop old rows' (unique_times rows) (zeros_like old), rows').

(* ---------- TracksBuilder.handle_segmentation: relabel or return the array as is ---------- *)
(* np.array_equal(seg_ids, node_ids) *)
Definition ids_equal (rows : list tnode) : bool := forallb (fun r => n_seg r =? n_id r) rows.
(* np.isin(np.unique(computed[t]), np.append(np.asarray(node_ids)[time_values == t], 0)).all() *)
Definition frame_labels_ok (rows : list tnode) (t : nat) (f : list Z) : bool :=
  forallb (fun x => existsb (Z.eqb x) (node_ids (filter (fun r => Nat.eqb (n_time r) t) rows) ++ [0])) f.
(* all(... for t in range(computed.shape[0])) *)
Fixpoint frames_ok (rows : list tnode) (t : nat) (fs : list (list Z)) : bool :=
  match fs with
  | [] => true
  | f :: r => frame_labels_ok rows t f && frames_ok rows (S t) r
  end.
Definition shortcut_ok (rows : list tnode) (old : list (list Z)) : bool :=
  ids_equal rows && frames_ok rows 0 old.
(* if <shortcut>: return computed   else: return relabel_segmentation(seg_array, graph, node_ids, seg_ids, time_values) *)
Definition handle_segmentation (rows : list tnode) (old : list (list Z)) : list (list Z) * list tnode :=
  if shortcut_ok rows old then (old, rows) else relabel_segmentation rows old.
