(* Model of the label image written by
     funtracks/import_export/csv/_export.py   export_to_csv(..., export_seg=True, seg_path=...)
   (post-fix tree, F-15a / F-15b): the segmentation relabelled by TRACK id, in the smallest
   unsigned dtype that holds the largest exported track id.

   [rows] = the exported rows as (node id, track id) pairs, in row order; [seg] = the flat content
   of tracks.segmentation (labels = node ids).  A dtype is its bit width (8 / 16 / 32 / 64).

     max_val = int(df["track_id"].max()) if len(df) > 0 else 0
     dtype   = uint8 if max_val <= 255 else uint16 if max_val <= 65535 else uint32 if max_val <= 2^32 - 1 else uint64
     relabeled_seg = map_array(tracks.segmentation, df["id"], df["track_id"] cast to dtype)

   map_array sends a label that is the id of an exported row to that row's track id (cast to the
   dtype: modulo 2^bits) and every other label - the background 0 included - to 0. *)
From Coq Require Import ZArith List Bool.
Import ListNotations.
Open Scope Z_scope.

Definition bits_for (m : Z) : Z :=
  if m <=? 255 then 8 else if m <=? 65535 then 16 else if m <=? 4294967295 then 32 else 64.

(* the largest track id of the rows; 0 when there is no row *)
Definition max_track (tids : list Z) : Z :=
  match tids with [] => 0 | t :: r => fold_left Z.max r t end.

Definition csv_seg_dtype (rows : list (Z * Z)) : Z := bits_for (max_track (map snd rows)).

Definition relabel_pixel (rows : list (Z * Z)) (bits : Z) (l : Z) : Z :=
  match find (fun r => fst r =? l) rows with
  | Some r => snd r mod 2 ^ bits
  | None => 0
  end.

(* (dtype, flat content) of the exported image *)
Definition csv_seg_image (rows : list (Z * Z)) (seg : list Z) : Z * list Z :=
  (csv_seg_dtype rows, map (relabel_pixel rows (csv_seg_dtype rows)) seg).
