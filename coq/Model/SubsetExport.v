(* Model of the subset export of funtracks (post-fix tree):
     funtracks/import_export/_utils.py      filter_graph_with_ancestors
     funtracks/import_export/csv/_export.py  export_to_csv(node_ids=...)   (rows, parent_id column)
     funtracks/import_export/geff/_export.py export_to_geff(node_ids=...)  (subgraph, chunked mask of the segmentation)

   A graph is the list of its node ids and the list of its edges (u, v) = (parent, child).
   The edge list is given "per target in predecessor order": for every node v the edges
   into v appear in the order of [graph.predecessors(v)] (only the CSV parent column
   depends on an order).  No forest shape is assumed: the closure below works for any
   finite digraph (merges, cycles, self loops).
   A segmentation of shape [shape] is the flat list of its labels in numpy C order. *)
From Coq Require Import ZArith List Bool.
Import ListNotations.
Open Scope Z_scope.

Definition graph : Type := (list Z * list (Z * Z))%type.
Definition g_nodes (g : graph) : list Z := fst g.
Definition g_edges (g : graph) : list (Z * Z) := snd g.

(* x in l  (Python: `in` on a set / np.isin against an id array) *)
Definition memz (x : Z) (l : list Z) : bool := existsb (Z.eqb x) l.

(* ---------- nx.ancestors(graph, node) ---------- *)
(* list(graph.predecessors(v)) *)
Definition preds (es : list (Z * Z)) (v : Z) : list Z :=
  map fst (filter (fun e => snd e =? v) es).
(* one breadth-first layer of nx.bfs_edges(G, source, reverse=True): the predecessors of
   the visited set that are not visited yet, each once *)
Definition fresh (es : list (Z * Z)) (cur : list Z) : list Z :=
  nodup Z.eq_dec (filter (fun x => negb (memz x cur)) (flat_map (preds es) cur)).
Definition step (es : list (Z * Z)) (cur : list Z) : list Z := cur ++ fresh es cur.
(* the search runs until no new node appears; here: a fixed number of rounds *)
Fixpoint close (es : list (Z * Z)) (fuel : nat) (cur : list Z) : list Z :=
  match fuel with
  | O => cur
  | S k => close es k (step es cur)
  end.
(* {child for parent, child in nx.bfs_edges(G, source, reverse=True)}: everything the
   upward search reaches, the source itself excluded.  Fuel = number of nodes. *)
Definition ancestors (g : graph) (n : Z) : list Z :=
  remove Z.eq_dec n (close (g_edges g) (length (g_nodes g)) [n]).

(* ---------- filter_graph_with_ancestors(graph, nodes_to_keep) ---------- *)
(* all_nodes_to_keep = set(nodes_to_keep); for node in nodes_to_keep:
     all_nodes_to_keep.update(nx.ancestors(graph, node)); return list(all_nodes_to_keep)
   (the order of list(set) is unspecified: compared as a set) *)
Definition filter_graph_with_ancestors (g : graph) (sel : list Z) : list Z :=
  nodup Z.eq_dec (sel ++ flat_map (ancestors g) sel).

(* ---------- export_to_csv(tracks, outfile, node_ids=sel) ---------- *)
(* parents = list(tracks.graph.predecessors(node_id));
   parent_id = "" if len(parents) == 0 else parents[0] *)
Definition parent_of (es : list (Z * Z)) (v : Z) : option Z := hd_error (preds es v).
(* for node_id in node_to_keep: row = {id: node_id, parent_id: parent_id, ...} *)
Definition csv_rows (g : graph) (sel : list Z) : list (Z * option Z) :=
  map (fun n => (n, parent_of (g_edges g) n)) (filter_graph_with_ancestors g sel).

(* ---------- export_to_geff(tracks, directory, node_ids=sel) ---------- *)
(* graph = graph.subgraph(nodes_to_keep).copy(): the nodes of the graph that are kept ... *)
Definition geff_nodes (g : graph) (keep : list Z) : list Z :=
  filter (fun n => memz n keep) (g_nodes g).
(* ... and every edge of the graph with both end points kept *)
Definition geff_edges (g : graph) (keep : list Z) : list (Z * Z) :=
  filter (fun e => memz (fst e) keep && memz (snd e) keep) (g_edges g).

(* chunk_size = (64, 64, 64); chunk_size = tuple(list(chunk_size) + [1] * (len(shape) - 3));
   chunk_size = chunk_size[: len(shape)] *)
Definition chunk_sizes (ndim : nat) : list Z :=
  firstn ndim ([64; 64; 64] ++ repeat 1 (ndim - 3)%nat).

(* range(0, dim, chunk): s, s + chunk, ... while < dim *)
Fixpoint chunk_starts_from (fuel : nat) (s dim chunk : Z) : list Z :=
  match fuel with
  | O => []
  | S f => if s <? dim then s :: chunk_starts_from f (s + chunk) dim chunk else []
  end.
Definition chunk_starts (dim chunk : Z) : list Z := chunk_starts_from (Z.to_nat dim) 0 dim chunk.
(* chunk_ranges = [range(0, dim, chunk) for dim, chunk in zip(shape, chunk_size)] *)
Fixpoint chunk_ranges (shape chunks : list Z) : list (list Z) :=
  match shape, chunks with
  | d :: sr, c :: cr => chunk_starts d c :: chunk_ranges sr cr
  | _, _ => []
  end.
(* itertools.product over the unpacked chunk_ranges *)
Fixpoint product (ls : list (list Z)) : list (list Z) :=
  match ls with
  | [] => [[]]
  | l :: r => flat_map (fun x => map (cons x) (product r)) l
  end.
Definition blocks (shape chunks : list Z) : list (list Z) := product (chunk_ranges shape chunks).
(* slices = tuple(slice(start, min(start + chunk, dim)) for start, chunk, dim in zip(...)):
   does the multi-index idx lie inside the block that begins at [starts]? *)
Fixpoint inside (starts chunks shape idx : list Z) : bool :=
  match starts, chunks, shape, idx with
  | s :: sr, c :: cr, d :: dr, i :: ir => (s <=? i) && (i <? Z.min (s + c) d) && inside sr cr dr ir
  | [], [], [], [] => true
  | _, _, _, _ => false
  end.
Definition covered (bl : list (list Z)) (chunks shape idx : list Z) : bool :=
  existsb (fun starts => inside starts chunks shape idx) bl.

(* np.unravel_index(k, shape) (C order), computed from the last axis; the first axis
   takes what is left (no wrap-around) *)
Fixpoint unravel_rev (rshape : list Z) (k : Z) : list Z :=
  match rshape with
  | [] => []
  | d :: r => match r with
              | [] => [k]
              | _ :: _ => (k mod d) :: unravel_rev r (k / d)
              end
  end.
Definition unravel (shape : list Z) (k : Z) : list Z := rev (unravel_rev (rev shape) k).

(* mask = np.isin(block, nodes_to_keep); filtered = np.where(mask, block, 0) *)
Definition mask_label (keep : list Z) (l : Z) : Z := if memz l keep then l else 0.

(* The chunk loop:  for starts in itertools.product over chunk_ranges: block = seg_data[slices];
   z[slices] = np.where(np.isin(block, keep), block, 0).
   Every write of pixel idx stores mask_label(seg[idx]) (the value does not depend on the
   block), and a pixel that no block covers keeps the fill value 0 of the fresh zarr
   array.  Hence the array after the loop, pixel by pixel in C order: *)
Fixpoint mask_from (bl : list (list Z)) (chunks shape keep : list Z) (k : Z) (seg : list Z) : list Z :=
  match seg with
  | [] => []
  | l :: r => (if covered bl chunks shape (unravel shape k) then mask_label keep l else 0)
              :: mask_from bl chunks shape keep (k + 1) r
  end.
Definition export_seg_with (chunks shape keep seg : list Z) : list Z :=
  mask_from (blocks shape chunks) chunks shape keep 0 seg.
Definition export_seg (shape keep seg : list Z) : list Z :=
  export_seg_with (chunk_sizes (length shape)) shape keep seg.

(* export_to_geff with node_ids and a segmentation: (node ids, edges, segmentation) *)
Definition export_geff (g : graph) (sel shape seg : list Z) : list Z * list (Z * Z) * list Z :=
  let keep := filter_graph_with_ancestors g sel in
  (geff_nodes g keep, geff_edges g keep, export_seg shape keep seg).
