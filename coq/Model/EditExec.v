(* The interpreter the correspondence harness drives: one [op] per call of the public API. *)
From Coq Require Import ZArith List Bool.
From FT Require Import Base.Dict Model.Edit.
Import ListNotations.
Open Scope Z_scope.

Inductive op :=
  | OAddEdge (u v : Z) (force : bool)
  | ODelEdge (u v : Z)
  | OAddNode (n : Z) (a : attrs) (px : option pixels) (force : bool)
  | ODelNode (n : Z)
  | OSwap (a b : Z)
  | OUpdAttrs (n : Z) (a : attrs)
  | OPaint (new_value t : Z) (idx : list Z) (T : Z) (force : bool)
  | OUndo | ORedo
  | ONeighbors (T t : Z) | OHasTrackAt (T t : Z) | ONewIds (n : nat) | ONextIds.

(* outcome codes: 0 ok (None returned), 1 True, 2 False,
   10 InvalidActionError, 11 InvalidActionError(forceable), 12 ValueError, 13 KeyError,
   14 NetworkXError, 15 hang (fuel), 16 IndexError *)
Definition ecode e := match e with EInvalid false => 10 | EInvalid true => 11 | EValue => 12 | EKey => 13
                                 | ENetworkX => 14 | EFuel => 15 | EIndex => 16 end.
Definition fin {A} (r : res A) : state * (Z * list Z) :=
  match r with Ok _ s => (s, (0, [])) | Err e s => (s, (ecode e, [])) end.
Definition finb (r : res bool) : state * (Z * list Z) :=
  match r with Ok b s => (s, (if b then 1 else 2, [])) | Err e s => (s, (ecode e, [])) end.
Definition oz (o : option Z) : Z := match o with Some z => z | None => -1 end.

Definition step (st : state) (o : op) : state * (Z * list Z) :=
  match o with
  | OAddEdge u v f => fin (user_add_edge st u v f true)
  | ODelEdge u v => fin (user_delete_edge st u v true)
  | OAddNode n a px f => fin (user_add_node st n a px f true)
  | ODelNode n => fin (user_delete_node st n None true)
  | OSwap a b => fin (user_swap st a b)
  | OUpdAttrs n a => fin (user_update_attrs st n a)
  | OPaint nv t idx T f => fin (paint st nv t idx T f)
  | OUndo => finb (undo st)
  | ORedo => finb (redo st)
  | ONeighbors T t => let '(s, (p, c)) := track_neighbors st T t in (s, (0, [oz p; oz c]))
  | OHasTrackAt T t => (st, (if has_track_at st T t then 1 else 2, []))
  | ONewIds n => let '(s, ids) := get_new_node_ids st n in (s, (0, ids))
  | ONextIds => (st, (0, [next_trk st; next_lin st]))
  end.

Definition run (st : state) (ops : list op) : state := fold_left (fun s o => fst (step s o)) ops st.

(* initial state as the harness describes the freshly constructed SolutionTracks *)
Definition mk_state (nd : dict attrs) (es : list (Z * Z * attrs)) (sg : option (list (list Z))) (f : feats)
                    (tb lb : dict (list Z)) (mt ml c : Z) : state :=
  let sc0 := map (fun na => (fst na, @nil (Z * attrs))) nd in
  let sc := fold_left (fun d e => let '(u, v, a) := e in set u (set v a (getd u d [])) d) es sc0 in
  {| g := {| nodes := nd; succs := sc |}; seg := sg; ft := f;
     bk := {| trk_book := tb; lin_book := lb; max_trk := mt; max_lin := ml |};
     undo_stack := []; redo_stack := []; rlog := []; nctr := c |}.
