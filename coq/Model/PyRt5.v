(* Python / numpy / networkx / scipy runtime combinators used by the generated shallow embedding
     Gen/CandGraph_gen.v   (harness/translate_candgraph.py, from candidate_graph/{utils,iou,compute_graph}.py)
   Hand-written, small, and TRUSTED together with the translator's idiom table: every definition
   names the Python construct it stands for.  Nothing here mentions a function of the hand model
   Model/CandGraph.v; only its DATA representation is shared (the [node] record, so that the ties
   of Proofs/CandGraphTie.v are plain equalities):

     python int, numpy scalar, time, node id, label                  Z   (unbounded: dtype wrap-around out of scope)
     Python dict with such keys (insertion ordered)                  Base/Dict.v  [dict V]
     1-D array / one flat frame (spatial axes flattened, C order)    list Z
     (N, D) point array = its N rows;  (T, *spatial) label array = its T flat frames      list (list Z)
     (2, n) array                                                    the list of its n COLUMNS, list (Z * Z)
     boolean mask                                                    list bool
     a quotient a / b of two integers                                the exact pair (a, b)   [frac]
     nx.DiGraph: node list in insertion order (one [node] record each: id, time, pos, area),
       the log of add_edge calls, the log of edges[..]["iou"] = .. assignments            [cgraph]

   Exceptions are explicit ([res], [ctl]); the ties prove [gen_f args = Ok (..)], i.e. also that no
   exception is reachable under the hypotheses they state.  Array indexing inside numpy
   ([np_getitem], [np_item], [np_col]) is total (out-of-range reads a default; numpy:
   IndexError) -- the convention of Model/NpRt.v. *)
From Coq Require Import ZArith List Bool.
From FT Require Import Base.Dict Model.NpRt.
From FT Require Model.CandGraph.            (* the [node] record only *)
Import ListNotations.
Open Scope Z_scope.

Notation node := CandGraph.node.
Notation n_id := CandGraph.n_id.
Notation n_time := CandGraph.n_time.
Notation n_pos := CandGraph.n_pos.
Notation n_area := CandGraph.n_area.
Notation mk_node := CandGraph.Build_node.   (* mk_node id time pos area *)

(* reused from Model/NpRt.v (same representation): py_range, np_getitem, np_bool_index, np_unique,
   py_zip_strict *)

(* ---------- exceptions and control ---------- *)
Inductive exn := KeyError | ValueError | IndexError | TypeError | AssertionError.

(* the value of an expression / of a function call that may raise *)
Inductive res (A : Type) := Ok (a : A) | Raise (e : exn).
Arguments Ok {A} a.
Arguments Raise {A} e.

(* how a block of statements inside a loop body (or a function body) ends:
     Cont s   the end of the loop body, or `continue`   (s = the loop-carried variables)
     Brk s    `break`
     Ret r    `return r`
     Exn e    an exception *)
Inductive ctl (S R : Type) := Cont (s : S) | Brk (s : S) | Ret (r : R) | Exn (e : exn).
Arguments Cont {S R} s.
Arguments Brk {S R} s.
Arguments Ret {S R} r.
Arguments Exn {S R} e.

(* x = <raising expression>; rest *)
Definition bind {A S R} (x : res A) (k : A -> ctl S R) : ctl S R :=
  match x with Ok a => k a | Raise e => Exn e end.

(* for x in l: body
   rest
   [s] = the variables assigned in the body that exist before the loop; [k] = rest.
   `continue` / the end of the body goes to the next element, `break` and exhaustion go to the
   rest, `return` and exceptions leave the function. *)
Fixpoint forM {A S S' R} (l : list A) (s : S) (body : A -> S -> ctl S R) (k : S -> ctl S' R) : ctl S' R :=
  match l with
  | [] => k s
  | x :: r =>
      match body x s with
      | Cont s' => forM r s' body k
      | Brk s' => k s'
      | Ret v => Ret v
      | Exn e => Exn e
      end
  end.

(* a function body is a block outside every loop: it can only end in Ret or Exn *)
Definition run {R} (c : ctl Empty_set R) : res R :=
  match c with
  | Cont s | Brk s => match s with end
  | Ret r => Ok r
  | Exn e => Raise e
  end.

(* [e for x in l] where e may raise *)
Fixpoint mapM {A B} (f : A -> res B) (l : list A) : res (list B) :=
  match l with
  | [] => Ok []
  | x :: r => match f x with
              | Ok y => match mapM f r with Ok ys => Ok (y :: ys) | Raise e => Raise e end
              | Raise e => Raise e
              end
  end.

(* ---------- None, truthiness ---------- *)
(* `x is not None` *)
Definition is_some {A} (o : option A) : bool := match o with Some _ => true | None => false end.
(* `if l:` for a list / dict *)
Definition is_nil {A} (l : list A) : bool := match l with [] => true | _ => false end.
(* `not x` for x: None | dict | list   (None and the empty container are falsy) *)
Definition opt_falsy {A} (o : option (list A)) : bool := match o with None | Some [] => true | _ => false end.
(* a possibly-None value used where a proper value is needed: TypeError on None *)
Definition as_some {A} (o : option A) : res A := match o with Some a => Ok a | None => Raise TypeError end.

(* ---------- Python lists, dicts, builtins ---------- *)
(* d[k] (read): KeyError when absent *)
Definition dict_get {V} (k : Z) (d : dict V) : res V :=
  match lookup k d with Some v => Ok v | None => Raise KeyError end.
(* l[i], i an int: negative i counts from the end; IndexError outside -len .. len-1 *)
Definition list_get {A} (l : list A) (i : Z) : res A :=
  let j := if i <? 0 then i + Z.of_nat (length l) else i in
  if j <? 0 then Raise IndexError
  else match nth_error l (Z.to_nat j) with Some x => Ok x | None => Raise IndexError end.
(* len(l) *)
Definition py_len {A} (l : list A) : Z := Z.of_nat (length l).
(* l[1:]  /  a[1:] on a 1-D array *)
Definition py_from1 {A} (l : list A) : list A := tl l.
(* [x] * n *)
Definition py_list_repeat {A} (l : list A) (n : Z) : list A := concat (repeat l (Z.to_nat n)).
(* sorted(l) on integers (stable insertion sort) *)
Fixpoint py_insert (x : Z) (l : list Z) : list Z :=
  match l with
  | [] => [x]
  | y :: r => if x <=? y then x :: l else y :: py_insert x r
  end.
Definition py_sorted (l : list Z) : list Z := fold_right py_insert [] l.
(* enumerate(l) *)
Fixpoint enum_from {A} (i : Z) (l : list A) : list (Z * A) :=
  match l with [] => [] | x :: r => (i, x) :: enum_from (i + 1) r end.
Definition py_enumerate {A} (l : list A) : list (Z * A) := enum_from 0 l.
(* zip(a, b, strict=False): stops at the shorter one *)
Definition py_zip {A B} (a : list A) (b : list B) : list (A * B) := combine a b.
(* dict(pairs): the (key, value) pairs inserted left to right into {}   (with NpRt.py_zip_strict for
   zip(a, b, strict=True), whose ValueError on unequal lengths is not modelled: both call sites zip
   the two results of one np.unique) *)
Definition py_dict_of_pairs {V} (kvs : list (Z * V)) : dict V :=
  fold_left (fun d kv => set (fst kv) (snd kv) d) kvs [].

(* ---------- exact quotients ---------- *)
Definition frac := (Z * Z)%type.
(* a / b (true division) of two integers, kept exact *)
Definition py_truediv (a b : Z) : frac := (a, b).
(* an int literal n where a quotient is expected: n / 1 *)
Definition frac_of_int (n : Z) : frac := (n, 1).

(* ---------- numpy ---------- *)
(* a.flatten() of a frame: frames are flat already *)
Definition np_flatten (a : list Z) : list Z := a.
(* np.array(l) of a list of numbers *)
Definition np_array1 (l : list Z) : list Z := l.
(* np.logical_and(a, b) of two integer arrays of one shape: both entries non-zero *)
Definition np_logical_and (a b : list Z) : list bool :=
  map (fun xy : Z * Z => negb (fst xy =? 0) && negb (snd xy =? 0)) (combine a b).
(* np.array([r1, r2]) of two 1-D arrays of one length: the (2, n) array, as its columns *)
Definition np_array_rows2 (r1 r2 : list Z) : list (Z * Z) := combine r1 r2.
(* lexicographic order of columns *)
Definition col_ltb (a b : Z * Z) : bool := (fst a <? fst b) || ((fst a =? fst b) && (snd a <? snd b)).
Definition col_eqb (a b : Z * Z) : bool := (fst a =? fst b) && (snd a =? snd b).
Fixpoint col_insert (x : Z * Z) (l : list (Z * Z)) : list (Z * Z) :=
  match l with
  | [] => [x]
  | y :: r => if col_ltb x y then x :: l else if col_eqb x y then l else y :: col_insert x r
  end.
(* np.unique(c, axis=1, return_counts=True) of a (2, n) array: the distinct columns in ascending
   lexicographic order, and how often each occurs *)
Definition np_unique_cols_counts (c : list (Z * Z)) : list (Z * Z) * list Z :=
  let u := fold_right col_insert [] c in
  (u, map (fun x => Z.of_nat (length (filter (col_eqb x) c))) u).
(* np.unique(a, return_counts=True) of a 1-D array: the distinct entries ascending (NpRt.np_unique),
   and how often each occurs *)
Definition np_unique_counts (a : list Z) : list Z * list Z :=
  let u := np_unique a in
  (u, map (fun x => Z.of_nat (length (filter (Z.eqb x) a))) u).
(* c.shape[1] of a (2, n) array *)
Definition np_cols_shape1 (c : list (Z * Z)) : Z := Z.of_nat (length c).
(* c[:, i] of a (2, n) array: column i *)
Definition np_col (c : list (Z * Z)) (i : Z) : Z * Z := nth (Z.to_nat i) c (0, 0).
(* a[i] of a 1-D array *)
Definition np_item (a : list Z) (i : Z) : Z := nth (Z.to_nat i) a 0.
(* a * np.array(s) for an (N, D) array a and a length-D vector s: every row times s, elementwise
   (the assert just before guarantees the lengths agree; numpy refuses to broadcast otherwise) *)
Definition np_mul_rows (a : list (list Z)) (s : list Z) : list (list Z) :=
  map (fun row => map (fun xy : Z * Z => fst xy * snd xy) (combine row s)) a.
(* len(s) == a.shape[1]  /  a.shape[1] == len(s)  for an (N, D) array a given as its N rows: every
   row has that length.  For N = 0 the representation does not record D and the test reads True
   (numpy still knows D: a (0, D) array with len(s) <> D fails the assert in Python) *)
Definition np_shape1_is (a : list (list Z)) (n : Z) : bool :=
  forallb (fun row => py_len row =? n) a.
(* np.expand_dims(a, 0) *)
Definition np_expand_dims0 {A} (a : A) : list A := [a].
(* a.shape[1] of an array with a.shape[0] >= 1, given as the list of its sub-arrays along axis 0 *)
Definition np_shape1 {A} (a : list (list A)) : Z := Z.of_nat (length (hd [] a)).

(* ---------- node attributes ---------- *)
(* the keyword dict handed to add_node: only the four keys the candidate graph uses *)
Record attrs := { a_time : option Z; a_pos : option (list Z); a_area : option Z; a_seg_id : option Z }.
(* {} *)
Definition attrs_empty : attrs := {| a_time := None; a_pos := None; a_area := None; a_seg_id := None |}.
(* attrs["time"] = t, and likewise (a dict literal is a sequence of these, left to right) *)
Definition attrs_set_time (t : Z) (a : attrs) : attrs :=
  {| a_time := Some t; a_pos := a_pos a; a_area := a_area a; a_seg_id := a_seg_id a |}.
Definition attrs_set_pos (p : list Z) (a : attrs) : attrs :=
  {| a_time := a_time a; a_pos := Some p; a_area := a_area a; a_seg_id := a_seg_id a |}.
Definition attrs_set_area (x : Z) (a : attrs) : attrs :=
  {| a_time := a_time a; a_pos := a_pos a; a_area := Some x; a_seg_id := a_seg_id a |}.
Definition attrs_set_seg_id (x : Z) (a : attrs) : attrs :=
  {| a_time := a_time a; a_pos := a_pos a; a_area := a_area a; a_seg_id := Some x |}.

(* ---------- networkx ---------- *)
Record cgraph := { cg_nodes : list node; cg_edges : list (Z * Z); cg_iou : list ((Z * Z) * frac) }.
(* nx.DiGraph() *)
Definition nx_DiGraph : cgraph := {| cg_nodes := []; cg_edges := []; cg_iou := [] |}.
(* n in G.nodes *)
Definition nx_has_node (g : cgraph) (n : Z) : bool := existsb (fun x => n_id x =? n) (cg_nodes g).
(* the attribute dict of a node after update(attrs); an absent time / area reads 0, an absent pos [],
   seg_id has no field in the record (it equals the node id at the only call site that passes it) *)
Definition node_update (n : node) (a : attrs) : node :=
  mk_node (n_id n)
          (match a_time a with Some t => t | None => n_time n end)
          (match a_pos a with Some p => p | None => n_pos n end)
          (match a_area a with Some x => x | None => n_area n end).
(* G.add_node(n, **attrs): a new node goes last; an existing one keeps its place and has its
   attributes updated *)
Definition nx_add_node (g : cgraph) (n : Z) (a : attrs) : cgraph :=
  {| cg_nodes := if nx_has_node g n
                 then map (fun x => if n_id x =? n then node_update x a else x) (cg_nodes g)
                 else cg_nodes g ++ [node_update (mk_node n 0 [] 0) a];
     cg_edges := cg_edges g; cg_iou := cg_iou g |}.
(* G.nodes(data=True): (id, attribute dict) pairs in insertion order; the attribute dict is the record *)
Definition nx_nodes_data (g : cgraph) : list (Z * node) := map (fun x => (n_id x, x)) (cg_nodes g).
(* data["time"] on such an attribute dict (KeyError for a node without time: every node of the
   representation has one) *)
Definition nx_data_time (d : node) : Z := n_time d.
(* G.nodes[n]["pos"]: KeyError when n is not a node *)
Definition nx_node_pos (g : cgraph) (n : Z) : res (list Z) :=
  match find (fun x => n_id x =? n) (cg_nodes g) with Some x => Ok (n_pos x) | None => Raise KeyError end.
(* G.add_edge(u, v) for two nodes of G: appended to the log of add_edge calls (networkx keeps an
   edge SET: the ties and the harness compare edge sets; for a u or v that is not a node networkx
   would add the node -- not represented: at the only call site both positions were read before) *)
Definition nx_add_edge (g : cgraph) (u v : Z) : cgraph :=
  {| cg_nodes := cg_nodes g; cg_edges := cg_edges g ++ [(u, v)]; cg_iou := cg_iou g |}.
(* (u, v) in G.edges *)
Definition nx_has_edge (g : cgraph) (u v : Z) : bool :=
  existsb (fun e : Z * Z => (fst e =? u) && (snd e =? v)) (cg_edges g).
(* G.edges[(u, v)]["iou"] = x: KeyError when (u, v) is not an edge; otherwise appended to the log of
   these assignments (a later entry for the same edge overwrites an earlier one) *)
Definition nx_set_edge_iou (g : cgraph) (u v : Z) (x : frac) : res cgraph :=
  if nx_has_edge g u v
  then Ok {| cg_nodes := cg_nodes g; cg_edges := cg_edges g; cg_iou := cg_iou g ++ [((u, v), x)] |}
  else Raise KeyError.
