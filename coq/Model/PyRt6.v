(* Python / pandas / numpy / geff runtime combinators used by the generated shallow embedding
     Gen/ImportPipeline_gen.v   (written by harness/translate_import.py from
                                 import_export/_tracks_builder.py, csv/_import.py, geff/_import.py,
                                 _validation.py)
   Hand-written, small, and TRUSTED together with the idiom table at the top of the translator:
   every definition names the Python construct it stands for.  The data representation is the one
   of the hand models Model/ImportTable.v (cells, name maps, property dicts, graphs) and
   Model/Relabel.v (integer arrays as lists); where the hand model takes a pandas / numpy / geff
   operation as a PRIMITIVE, the combinator below IS that model function (named in the comment),
   where it takes it as an ORACLE ANSWER the generated file has a Section variable instead.
   The equalities with the model's top-level functions are proved in Proofs/ImportTie.v.

   Exceptions are explicit: a generated function returns [res T]. *)
From Coq Require Import ZArith List Bool.
From FT Require Import Base.Dict.
From FT Require Import Model.ImportTable.
Import ListNotations.
Open Scope Z_scope.

(* ---------- exception / control monad (same shape as Model/PyRt2.v) ---------- *)
Inductive exn := KeyError | ValueError | IndexError | TypeError | StopIteration.

(* the value of an expression / of a function call that may raise *)
Inductive res (A : Type) := ROk (a : A) | Raise (e : exn).
Arguments ROk {A} a.
Arguments Raise {A} e.

(* how a block of statements ends:
     Cont s   end of the block / of the loop body, or `continue`   (s = the variables the block changed)
     Brk s    `break`
     Ret r    `return r`
     Exn e    an exception *)
Inductive ctl (S R : Type) := Cont (s : S) | Brk (s : S) | Ret (r : R) | Exn (e : exn).
Arguments Cont {S R} s.
Arguments Brk {S R} s.
Arguments Ret {S R} r.
Arguments Exn {S R} e.

(* x = <raising expression>; rest *)
Definition bind {A S R} (x : res A) (k : A -> ctl S R) : ctl S R :=
  match x with ROk a => k a | Raise e => Exn e end.
(* the same inside an expression that may raise *)
Definition rbind {A B} (x : res A) (k : A -> res B) : res B :=
  match x with ROk a => k a | Raise e => Raise e end.

(* for x in l: body ; rest       (see Model/PyRt2.v: py_for) *)
Fixpoint forM {A S S' R} (l : list A) (s : S) (body : A -> S -> ctl S R) (k : S -> ctl S' R) : ctl S' R :=
  match l with
  | [] => k s
  | x :: r =>
      match body x s with
      | Cont s' => forM r s' body k
      | Brk s' => k s'
      | Ret v => Ret v
      | Exn e => Exn e
      end
  end.

(* <if / else without return, continue, break> ; rest
   the block [c] ends in Cont (the variables it changed), or raises *)
Definition pseq {S S' R} (c : ctl S R) (k : S -> ctl S' R) : ctl S' R :=
  match c with Cont s => k s | Brk s => k s | Ret r => Ret r | Exn e => Exn e end.

(* a function body is a block outside every loop: it can only end in Ret or Exn *)
Definition run {R} (c : ctl Empty_set R) : res R :=
  match c with
  | Cont s | Brk s => match s with end
  | Ret r => ROk r
  | Exn e => Raise e
  end.

(* [e for x in l] where e may raise *)
Fixpoint mapM {A B} (f : A -> res B) (l : list A) : res (list B) :=
  match l with
  | [] => ROk []
  | x :: r => match f x with
              | ROk y => match mapM f r with ROk ys => ROk (y :: ys) | Raise e => Raise e end
              | Raise e => Raise e
              end
  end.
(* [e for x in l if c] where e may raise: c is evaluated first, e only when c holds *)
Fixpoint mapM_if {A B} (c : A -> bool) (f : A -> res B) (l : list A) : res (list B) :=
  match l with
  | [] => ROk []
  | x :: r => if c x then
                match f x with
                | ROk y => match mapM_if c f r with ROk ys => ROk (y :: ys) | Raise e => Raise e end
                | Raise e => Raise e
                end
              else mapM_if c f r
  end.

(* ---------- Python basics ---------- *)
(* truthiness of a list / dict: `if l:` *)
Definition is_nil {A} (l : list A) : bool := match l with [] => true | _ => false end.
(* a possibly-None value used where a proper value is needed: TypeError *)
Definition as_some {A} (o : option A) : res A := match o with Some a => ROk a | None => Raise TypeError end.
(* a == b for an int a and an int-or-None b *)
Definition py_eq_int_opt (a : Z) (b : option Z) : bool := match b with Some z => a =? z | None => false end.
(* d[k] (read): KeyError when absent *)
Definition dict_get {V} (k : Z) (d : dict V) : res V :=
  match lookup k d with Some v => ROk v | None => Raise KeyError end.
(* d.pop(k): the value and the dict without the key; KeyError when absent *)
Definition dict_pop {V} (k : Z) (d : dict V) : res (V * dict V) :=
  match lookup k d with Some v => ROk (v, del k d) | None => Raise KeyError end.
(* next(iter(l)): StopIteration on the empty iterable *)
Definition py_next_iter {A} (l : list A) : res A :=
  match l with x :: _ => ROk x | [] => Raise StopIteration end.
(* enumerate(l, start=k): pairs (index, element) *)
Fixpoint py_enumerate_from {A} (k : Z) (l : list A) : list (Z * A) :=
  match l with [] => [] | x :: r => (k, x) :: py_enumerate_from (k + 1) r end.
(* zip(a, b, strict=True): ValueError on unequal lengths is not modelled (as in Model/NpRt.v) *)
Definition py_zip_strict {A B} (a : list A) (b : list B) : list (A * B) := combine a b.
(* len(l) *)
Definition py_len {A} (l : list A) : Z := Z.of_nat (length l).

(* ---------- name maps: dict[str, str | list[str]]  =  ImportTable.name_map ---------- *)
(* `v is None` for a value of a name map: the representation [src] has no None (None values in a
   name map are outside the model, see the header of Model/ImportTable.v) *)
Definition src_is_none (s : src) : bool := false.
(* `isinstance(v, list)` is the case distinction Multi / Single, emitted as a [match] *)

(* ---------- cells: the values held by a DataFrame / a property array ---------- *)
(* pd.isna(x)  /  Series.notna() elementwise *)
Definition pd_isna (c : cell) : bool := cell_eqb c CNone.
(* x != <int constant> for a cell x (Python ==: 5, 5.0 and True == 1 are equal; a str is never equal to an int) *)
Definition cell_ne_int (c : cell) (z : Z) : bool := negb (cell_eqb c (CInt z)).
(* int(x) of a cell: the integer; ValueError for a non-numeric string (convention of the model:
   numeric strings and non-integral floats are outside its domain; int(None) is a TypeError in
   Python and never reached: empty parents are filtered first) *)
Definition cell_int (c : cell) : res Z := match int_of_cell c with Some z => ROk z | None => Raise ValueError end.
(* the constant "" as a cell: ImportTable.empty_str;  an int constant z as a cell: CInt z *)

(* ---------- pandas Series = list cell ---------- *)
(* s.is_unique                      = ImportTable.nodup_cells
   s.unique()                       = ImportTable.uniq *)
Definition pd_is_unique (s : list cell) : bool := nodup_cells s.
Definition pd_unique (s : list cell) : list cell := uniq s.
(* a dict with cell keys and int values (id_mapping): insertion ordered association list;
   d[k] = v keeps the position of a present key *)
Fixpoint cellmap_set (k : cell) (v : Z) (d : list (cell * Z)) : list (cell * Z) :=
  match d with
  | [] => [(k, v)]
  | (a, b) :: r => if cell_eqb a k then (a, v) :: r else (a, b) :: cellmap_set k v r
  end.
(* {k(x): v(x) for x in l} *)
Definition cellmap_comp {A} (kv : A -> cell * Z) (l : list A) : list (cell * Z) :=
  fold_left (fun d x => cellmap_set (fst (kv x)) (snd (kv x)) d) l [].
(* s.map(d), d a dict: unmapped values become NaN / <NA>     = map ImportTable.map_cell *)
Definition pd_map_dict (s : list cell) (d : list (cell * Z)) : list cell := map (map_cell d) s.
(* s.isin(d), d a dict: membership in its keys;  s.isin([..]): membership in the list  (ImportTable.memc) *)
Definition pd_isin_keys (s : list cell) (d : list (cell * Z)) : list bool := map (fun c => memc c (map fst d)) s.
Definition pd_isin (s : list cell) (l : list cell) : list bool := map (fun c => memc c l) s.
(* s.notna() *)
Definition pd_notna (s : list cell) : list bool := map (fun c => negb (pd_isna c)) s.
(* a & b, ~a on boolean Series; m.any() *)
Fixpoint mask_and (a b : list bool) : list bool :=
  match a, b with x :: a', y :: b' => (x && y) :: mask_and a' b' | _, _ => [] end.
Definition mask_not (a : list bool) : list bool := map negb a.
Definition mask_any (a : list bool) : bool := existsb (fun b => b) a.
(* s.astype(pd.Int64Dtype()): the nullable integer dtype; identity on cells *)
Definition pd_astype_Int64 (s : list cell) : list cell := s.
(* s.copy() *)
Definition pd_copy {A} (s : A) : A := s.
(* s.apply(lambda x: ast.literal_eval(x) if isinstance(x, str) and x.startswith("[") and x.endswith("]") else x):
   strings are interned codes, a string spelling a list literal is outside the representation
   (header of Model/ImportTable.v): identity *)
Definition pd_apply_literal_eval (s : list cell) : list cell := s.

(* ---------- pandas DataFrame = dict (list cell): its columns in order ---------- *)
Definition frame := dict (list cell).
(* pd.read_csv(source) if isinstance(source, Path) else source.copy(): the source IS a DataFrame
   (reading CSV text is outside the model) *)
Definition pd_source_frame (f : frame) : frame := f.
(* pd.DataFrame(d) for a dict of Series; df.to_dict(orient="list") *)
Definition pd_DataFrame (d : frame) : frame := d.
Definition pd_to_dict_list (f : frame) : frame := f.
(* df.map(lambda x: None if pd.isna(x) else x): NaN / NA / None are the one cell CNone *)
Definition pd_nan_to_none (f : frame) : frame := f.
(* df.columns (an immutable Index: a snapshot) *)
Definition pd_columns (f : frame) : list Z := keys f.

(* ---------- numpy on property arrays (ImportTable.pcol) ---------- *)
(* np.array(l) of a list of cells: a 1-D array of cells (as the "values" of a property: PS l) *)
Definition np_array1 (l : list cell) : list cell := l.
(* a 1-D array of cells stored as the "node_ids" of an InMemoryGeff: it must be an integer array.
   A non-integer id cell (possible only for a nullable integer column holding NA: domain limit) is
   reported as ValueError at this point, the convention of the model (ImportTable.ints_of) *)
Definition np_ids_of_cells (l : list cell) : res (list Z) :=
  match ints_of l with Some zs => ROk zs | None => Raise ValueError end.
(* np.array(l) of a list of int pairs; np.empty((0, 2), dtype=np.int64) *)
Definition np_array_pairs (l : list (Z * Z)) : list (Z * Z) := l.
Definition np_empty_pairs : list (Z * Z) := [].
(* np.column_stack(arrays)          = ImportTable.column_stack
   len(a) of a property array       = number of rows
   np.zeros(n, dtype=np.bool_)
   a |= m on boolean arrays         = ImportTable.orb_list *)
Definition np_len (p : pcol) : Z := Z.of_nat (length (rows_of p)).
Definition np_zeros_bool (n : Z) : list bool := repeat false (Z.to_nat n).
Definition np_ior (a m : list bool) : list bool := orb_list a m.
(* values.ndim == 2 ; values.shape[1] *)
Definition np_ndim_is2 (p : pcol) : bool := match p with PV _ _ => true | PS _ => false end.
Definition np_shape1 (p : pcol) : Z := Z.of_nat (width_of p).

(* ---------- numpy on integer arrays (handle_segmentation; the other combinators are in Model/NpRt.v) ---------- *)
(* np.array_equal(a, b): same shape and same entries *)
Fixpoint np_array_equal (a b : list Z) : bool :=
  match a, b with
  | [], [] => true
  | x :: a', y :: b' => (x =? y) && np_array_equal a' b'
  | _, _ => false
  end.
(* np.isin(a, b): for every entry of a whether it occurs in b;  m.all() *)
Definition np_isin (a b : list Z) : list bool := map (fun x => existsb (Z.eqb x) b) a.
Definition np_all (m : list bool) : bool := forallb (fun b => b) m.
(* np.append(a, v) *)
Definition np_append (a : list Z) (v : Z) : list Z := a ++ [v].
(* all(c(x) for x in l) ; any(c(x) for x in l) *)
Definition py_all {A} (c : A -> bool) (l : list A) : bool := forallb c l.
Definition py_any {A} (c : A -> bool) (l : list A) : bool := existsb c l.
(* X.compute() of a dask array; load_segmentation(X) (wraps an array into a dask array; reading a
   path is outside the model): dask arrays are not distinguished from arrays *)
Definition da_compute {A} (a : A) : A := a.
Definition io_load_segmentation {A} (a : A) : A := a.

(* ---------- the InMemoryGeff dict ---------- *)
(* {"metadata": .., "node_ids": .., "edge_ids": .., "node_props": .., "edge_props": ..}
   M = the metadata object (opaque), P = the type of a property dict *)
Record img (M P : Type) := mk_img {
  img_metadata : M; img_node_ids : list Z; img_edge_ids : list (Z * Z); img_node_props : P; img_edge_props : P }.
Arguments mk_img {M P} _ _ _ _ _.
Arguments img_metadata {M P} _.
Arguments img_node_ids {M P} _.
Arguments img_edge_ids {M P} _.
Arguments img_node_props {M P} _.
Arguments img_edge_props {M P} _.
(* g["node_props"] = p  (also: an in-place change of the dict bound by `p = g["node_props"]`) *)
Definition img_set_node_props {M P} (g : img M P) (p : P) : img M P :=
  mk_img (img_metadata g) (img_node_ids g) (img_edge_ids g) p (img_edge_props g).
Definition img_set_edge_props {M P} (g : img M P) (p : P) : img M P :=
  mk_img (img_metadata g) (img_node_ids g) (img_edge_ids g) (img_node_props g) p.
(* one property entry {"values": v, "missing": m} = ImportTable.prop *)
Definition mk_prop (v : pcol) (m : option (list bool)) : prop := {| p_vals := v; p_miss := m |}.

(* ---------- geff ---------- *)
(* geff.validate.graph: the four structural validators, as the model defines them
     validate_unique_node_ids(ids)[0]            = ImportTable.nodup_z ids
     validate_nodes_for_edges(ids, edges)[0]     = ImportTable.edges_known ids edges
     validate_no_self_edges(edges)[0]            = ImportTable.no_self_edges edges
     validate_no_repeated_edges(edges)[0]        = ImportTable.nodup_pairs edges
   (the second component of each result, used only in messages, is not represented) *)
Definition geff_validate_unique_node_ids (ids : list Z) : bool := nodup_z ids.
Definition geff_validate_nodes_for_edges (ids : list Z) (es : list (Z * Z)) : bool := edges_known ids es.
Definition geff_validate_no_self_edges (es : list (Z * Z)) : bool := no_self_edges es.
Definition geff_validate_no_repeated_edges (es : list (Z * Z)) : bool := nodup_pairs es.
(* geff.construct( ** in_memory_geff) on the networkx backend = ImportTable.construct
   (metadata and edge properties are not represented in the model's graph) *)
Definition geff_construct {M} (g : img M props) : graph :=
  construct (img_node_ids g) (img_edge_ids g) (img_node_props g).

(* ---------- string constants that are not standard names of ImportTable.v ---------- *)
Definition k_seg_id : Z := 11.      (* "seg_id" *)
Definition s_tracklet : Z := 12.    (* "tracklet"  (key of metadata.track_node_props) *)
Definition s_lineage : Z := 13.     (* "lineage" *)

(* del d[k]: KeyError when absent *)
Definition dict_del {V} (k : Z) (d : dict V) : res (dict V) :=
  if haskey k d then ROk (del k d) else Raise KeyError.

(* ---------- name-map values and feature dicts (validation of the name map) ---------- *)
(* v == [] for a name-map value *)
Definition src_eq_nil (s : src) : bool := match s with Multi [] => true | _ => false end.
(* one entry of available_computed_features (a feature dict) is represented by the one thing the import
   pipeline reads from it: feature.get("spatial_dims", False);  isinstance(feature, dict) is true *)
Definition feat_spatial_dims (f : bool) : bool := f.
(* SolutionTracks(graph=.., segmentation=.., pos_attr="pos", time_attr="time", ndim=.., scale=..): building the
   tracks object is outside the model; it is represented by the arguments it is built from *)
Record tracks_args (Scale : Type) := mk_tracks {
  ta_graph : graph; ta_segmentation : option (list (list Z)); ta_ndim : option Z; ta_scale : option Scale }.
Arguments mk_tracks {Scale} _ _ _ _.
Arguments ta_graph {Scale} _.
Arguments ta_segmentation {Scale} _.
Arguments ta_ndim {Scale} _.
Arguments ta_scale {Scale} _.

(* ---------- the GEFF path ---------- *)
(* Python sets of strings: duplicate-free lists (the iteration order of a set is unspecified; the only
   set of the import pipeline, the property filter, is handed to the oracle read_to_memory) *)
Definition py_set_add (s : list Z) (x : Z) : list Z := if memz x s then s else s ++ [x].
Definition py_set_update (s l : list Z) : list Z := fold_left py_set_add l s.
Definition py_list_of_set (s : list Z) : list Z := s.
(* d.values() *)
Definition py_values {V} (d : dict V) : list V := map snd d.
(* {k: d[k] for k in l if c(k)} where the value may raise (evaluated only when c holds) *)
Fixpoint dictM_if {V} (c : Z -> bool) (f : Z -> res V) (l : list Z) (acc : dict V) : res (dict V) :=
  match l with
  | [] => ROk acc
  | k :: r => if c k then match f k with ROk v => dictM_if c f r (set k v acc) | Raise e => Raise e end
              else dictM_if c f r acc
  end.
(* a.copy() of a property array *)
Definition np_copy (p : pcol) : pcol := p.
