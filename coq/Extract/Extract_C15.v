From Coq Require Import ZArith List.
From FT Require Import Model.SubsetExport.
Require Extraction. Require Import ExtrOcamlBasic.
Extraction "Extract/model_C15.ml" filter_graph_with_ancestors csv_rows export_geff geff_nodes geff_edges chunk_sizes chunk_starts blocks.
