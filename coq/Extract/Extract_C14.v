From Coq Require Import ZArith List.
From FT Require Import Base.Dict Model.RoundTrip.
Require Extraction. Require Import ExtrOcamlBasic.
Extraction "Extract/model_C14.ml" export_csv import_csv explicit_csv_map csv_header split_position_attr geff_columns
  import_geff dump_json from_json fd_valid check_existing setup_feature validate_track_prop.
