From Coq Require Import ZArith List.
From FT Require Import Base.Dict Model.ImportTable.
Require Extraction. Require Import ExtrOcamlBasic.
Extraction "Extract/model_C12.ml" import_csv import_geff.
