From Coq Require Import ZArith List.
From FT Require Import Base.Dict Model.Edit Model.EditExec.
Require Extraction. Require Import ExtrOcamlBasic.
Extraction "Extract/model_Edit.ml" mk_state step.
