From Coq Require Import ZArith List.
From FT Require Import Base.Dict Model.Edit Model.EditExec Model.Toggle Model.ToggleExec Model.EditCtor.
Require Extraction. Require Import ExtrOcamlBasic.
Extraction "Extract/model_Edit.ml" mk_state step step2 construct_any construct_dict.
