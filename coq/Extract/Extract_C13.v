From Coq Require Import ZArith List.
From FT Require Import Model.LabelUtils Model.Relabel.
Require Extraction. Require Import ExtrOcamlBasic.
Extraction "Extract/model_C13.ml" relabel_segmentation shortcut_ok handle_segmentation.
