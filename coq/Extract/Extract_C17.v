From Coq Require Import ZArith List.
From FT Require Import Base.Dict Model.NameMap.
Require Extraction. Require Import ExtrOcamlBasic.
Extraction "Extract/model_C17.ml" infer_node_name_map infer_edge_name_map.
