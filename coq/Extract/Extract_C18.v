From Coq Require Import ZArith List.
From FT Require Import Model.CandGraph.
Require Extraction. Require Import ExtrOcamlBasic.
Extraction "Extract/model_C18.ml" compute_graph_from_points_list nodes_from_points_list add_cand_edges_graph
  compute_graph_from_seg_list nodes_from_segmentation compute_ious.
