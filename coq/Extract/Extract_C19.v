From Coq Require Import ZArith List.
From FT Require Import Model.LabelUtils.
Require Extraction. Require Import ExtrOcamlBasic.
Extraction "Extract/model_C19.ml" ensure_unique_labels ensure_unique_labels_multiseg relabel_with_track_id.
