(* Property C08 - Node measurements always equal those of the node's current mask.
   This file holds only the property theorems (each closed by [exact] of a lemma of
   Proofs/EditFresh.v), non-vacuity examples on a concrete state, and Print Assumptions.

   Vocabulary (Model/Edit.v, Proofs/EditInv.v, Proofs/EditSeg.v, Proofs/EditFresh.v):
     VRp m                 the symbolic value "regionprops measurement of this key computed from mask m
                           (and the scale)": a stored value equals VRp m iff it was computed from m
     rp_act (ft st)        the active keys managed by RegionpropsAnnotator;  rp_all: all keys it can manage
     rp_fresh st           for every node n and every active key k: attr st n k = Some (VRp (mask of n
                           in n's own time frame in the current array))      (first half of W_fresh)
     nodes_sane st sg      nodes are non-zero and live in existing frames (part of W_seg)
     only_touches sg t idx n   the in-range pixels idx of frame t carry background or label n
     hits sg t idx         idx contains an in-range pixel of frame t
     paint_arr sg t idx v  the array after seg[t][idx] = v
   Every theorem is about one basic action returning normally; the hypotheses are the documented
   preconditions of that action plus the configuration facts (KTime / KTrack / KLin are not regionprops
   keys, active keys are manageable keys). *)
From Coq Require Import ZArith List Bool.
From FT Require Import Base.Dict Model.Edit Model.EditExec Proofs.EditInv Proofs.EditSeg Proofs.EditFresh Proofs.EditSegExample.
From FT Require Proofs.EditWFEdge.
From FT Require Gen.History_gen Proofs.HistoryGen Props.C02.
From FT Require Proofs.EditBook Proofs.EditWFNode.
From FT Require Proofs.EditSessions Proofs.EditSessionsFull Proofs.EditSessionsAll Proofs.EditWFPaint Proofs.EditWFPaintRollback.
From FT Require Gen.UserActions_gen Proofs.UserActionsTie.
From FT Require Model.Toggle Proofs.EditInit.
From FT Require Proofs.CoreTieBundle.
From FT Require Proofs.AnnotatorsTie.
From FT Require Model.EditCtor Proofs.EditCtor.
From FT Require Proofs.EditCtorDict.
From FT Require Proofs.EditSessionsToggle.
Import ListNotations.
Open Scope Z_scope.

(* W_fresh of the invariant WF is the conjunction of the node half (C08) and the edge half (C09) *)
Theorem C08_W_fresh_split : forall st, W_fresh st <-> rp_fresh st /\ iou_fresh st.
Proof. exact W_fresh_split. Qed.

(* AddNode with pixels: the new node gets, for every active key, the value of the mask just written
   (the annotator runs after the attributes were set, so a caller-supplied value is overwritten);
   the other nodes' masks and values are untouched *)
Theorem C08_fresh_add_node : forall st n a t idx b st' sg,
  do_add_node st n a (Some (t, idx)) = Ok b st' -> seg st = Some sg ->
  ~ is_node st n -> n <> 0 -> NoDup (keys a) -> lookup KTime a = Some (VZ t) -> ~ In KTime (rp_act (ft st)) ->
  hits sg t idx -> nodes_sane st sg -> only_touches sg t idx n ->
  rp_fresh st -> rp_fresh st'.
Proof. exact rp_fresh_add_node. Qed.

(* UpdateNodeSeg: the repainted node's values are recomputed from its new mask.  The pixels carried the
   node's label (shrink) or the label / background (grow); the node keeps at least one pixel (with an
   empty mask the code stores None) *)
Theorem C08_fresh_upd_seg : forall st n t idx added b st' sg,
  do_upd_seg st n (t, idx) added = Ok b st' -> seg st = Some sg ->
  is_node st n -> ~ In KTime (rp_act (ft st)) -> nodes_sane st sg ->
  (forall i, (i < length (frame_of sg t))%nat -> In (Z.of_nat i) idx ->
     label_at sg t i = n \/ (added = true /\ label_at sg t i = 0)) ->
  mask_of (paint_arr sg t idx (if added then n else 0)) (time_of st n) n <> [] ->
  rp_fresh st -> rp_fresh st'.
Proof. exact rp_fresh_upd_seg. Qed.

(* the other basic actions: AddEdge, DeleteEdge, UpdateNodeAttrs (protected keys cannot be written),
   UpdateTrackIDs, DeleteNode (own mask, or given pixels carrying background / the node's label) *)
Theorem C08_fresh_other : forall st,
  (forall u v a b st', do_add_edge st u v a = Ok b st' -> rp_fresh st -> rp_fresh st') /\
  (forall u v b st', do_del_edge st u v = Ok b st' -> rp_fresh st -> rp_fresh st') /\
  (forall n new b st', do_upd_attrs st n new = Ok b st' -> incl (rp_act (ft st)) (rp_all (ft st)) -> rp_fresh st -> rp_fresh st') /\
  (forall s T L b st', do_upd_track st s T L = Ok b st' -> ~ In KTrack (rp_act (ft st)) -> ~ In KLin (rp_act (ft st)) ->
     rp_fresh st -> rp_fresh st') /\
  (forall n b st', do_del_node st n None = Ok b st' -> W_seg st -> rp_fresh st -> rp_fresh st') /\
  (forall n t idx b st' sg, do_del_node st n (Some (t, idx)) = Ok b st' -> seg st = Some sg ->
     nodes_sane st sg -> only_touches sg t idx n -> rp_fresh st -> rp_fresh st').
Proof. exact rp_fresh_other. Qed.

(* ---------- non-vacuity ---------- *)
(* ex0 (Proofs/EditSegExample.v): frames  1 1 / 0 0 ,  2 2 / 3 0 ,  0 4 / 4 0 ; keys pos (1), area (4) active *)
(* ---- every state reachable by edge-level calls (add / delete edge with and without force, swap,
        queries, fresh ids) from a well-formed state is well formed: WF includes W_seg (labels and
        nodes in one-to-one correspondence) and W_fresh (every active regionprops feature is the value
        of the current mask, every IoU the overlap of the current masks).  Induction over the call
        list, no bound on its length. ---- *)
Theorem C08_run_edge_calls : forall ops st,
  forallb EditWFEdge.edge_fragment ops = true -> WF st -> WF (run st ops).
Proof. exact EditWFEdge.run_edge_WF. Qed.

(* attribute updates as well, provided the annotator table is consistent (every active key is a key the
   annotator declares - true by construction in the implementation, where the protected set is
   annotators.all_features): a managed feature cannot be overwritten by hand *)
Theorem C08_run_edge_attr_calls : forall ops st,
  forallb EditWFEdge.edge_attr_fragment ops = true -> incl (rp_act (ft st)) (rp_all (ft st)) ->
  WF st -> WF (run st ops).
Proof. exact EditWFEdge.run_edge_attr_WF_cfg. Qed.

(* ---- undo / redo: the history mechanism this property quantifies over (Tracks.undo / redo,
        ActionHistory) is, in the model, the code translated on every run from the current
        actions/action_history.py (Gen/History_gen.v); C02_timeline states what it guarantees ---- *)
Theorem C08_history_is_generated : forall st a dA,
  (let h := fst (FT.Gen.History_gen.add_new_action state action (FT.Proofs.HistoryGen.to_hist st) a st) in
   undo_stack (hist_add st a) = FT.Gen.History_gen.undo_stack _ _ h /\ redo_stack (hist_add st a) = FT.Gen.History_gen.redo_stack _ _ h) /\
  (let gr := FT.Gen.History_gen.undo state action FT.Proofs.HistoryGen.inv_total dA (FT.Proofs.HistoryGen.to_hist st) in
   match undo st with
   | Ok b s' => snd gr = b /\ undo_stack s' = FT.Gen.History_gen.undo_stack _ _ (fst gr) /\ redo_stack s' = FT.Gen.History_gen.redo_stack _ _ (fst gr)
   | Err _ _ => True
   end).
Proof. exact FT.Props.C02.C02_edit_machine_uses_generated. Qed.

(* ---- the same with the node calls: every state reachable from a well-formed state by any sequence, of
        any length, of UserAddNode / UserDeleteNode / edge-level calls (accepted or refused) satisfies the
        complete invariant WF, provided each UserAddNode respects its documented preconditions at the moment
        it is made (op_pre: integer time / track id, no caller-supplied lineage id, and - with a
        segmentation - a non-zero id and pixels of the node's own frame that are background; the three
        accepted-but-invariant-breaking calls of Proofs/EditWFNodeExample.v show each part is needed) ---- *)
Theorem C08_run_node_calls : forall ops st,
  forallb EditWFNode.node_fragment ops = true -> WF st -> EditBook.rp_disjoint st ->
  (forall pre o post, ops = pre ++ o :: post -> EditWFNode.op_pre (run st pre) o) ->
  WF (run st ops).
Proof. exact EditWFNode.run_node_WF. Qed.

(* ---- sessions over the WHOLE public interface (Proofs/EditSessions.v, EditSessionsFull.v, EditSessionsAll.v):
        from a well-formed state with an empty history, EVERY state reached along ANY sequence - of any
        length - of calls of the edit machine (add / delete edge, forced or not, swap, add / delete node,
        attribute update, paint / erase stroke, undo, redo, queries, fresh ids), accepted or refused,
        satisfies the complete invariant WF.  No restriction on which calls occur.  Hypotheses: three
        configuration facts that no call changes (reg_ok: every active managed feature is registered;
        rp_decl: every active regionprops key is one the annotator declares; rp_disjoint: time / track id /
        lineage id are not regionprops keys - all true by construction of Tracks, C10_registry) and the
        documented per-call preconditions at the moment each call is made (pre_along_all: for UserAddNode
        integer time / track id, no caller-supplied lineage id, and with a segmentation a non-zero id and
        background pixels of its own frame; without a segmentation a deleted / added node has its
        position attributes; strokes, edge calls, attribute updates, undo, redo have none). ---- *)
Theorem C08_sessions : forall st0 ops,
  WF st0 -> EditSessions.reg_ok st0 -> EditBook.rp_disjoint st0 -> EditSessionsFull.rp_decl st0 ->
  undo_stack st0 = [] -> redo_stack st0 = [] -> EditSessionsAll.pre_along_all st0 ops ->
  forall pre post, ops = pre ++ post -> WF (run st0 pre).
Proof. exact EditSessionsAll.session_all_reachable_WF. Qed.

(* ---- paint / erase strokes (Proofs/EditWFPaint.v): every ACCEPTED stroke on a well-formed state yields
        a well-formed state, with no precondition on the stroke (labels and nodes stay one-to-one: nodes that
        lose all pixels are deleted, with the bridge edge; partially overwritten ones are re-measured; the
        painted label exists with exactly its pixels), and reachability over edge / node / stroke calls.
        Refused strokes included, the rolled-back one too (Proofs/EditWFPaintRollback.v): the only per-call
        precondition left is that of UserAddNode; strokes have none. ---- *)
Theorem C08_paint : forall st nv t idx T force a st',
  WF st -> EditBook.rp_disjoint st -> paint st nv t idx T force = Ok a st' -> WF st'.
Proof. exact EditWFPaint.paint_WF. Qed.

Theorem C08_run_paint_calls : forall ops st,
  forallb EditWFPaint.paint_fragment ops = true -> WF st -> EditBook.rp_disjoint st -> EditSessions.reg_ok st ->
  (forall pre o post, ops = pre ++ o :: post -> EditWFNode.op_pre (run st pre) o) ->
  WF (run st ops) /\ EditBook.rp_disjoint (run st ops) /\ EditSessions.reg_ok (run st ops).
Proof. exact EditWFPaintRollback.run_paint_WF_all. Qed.

(* ---- the seven composite user actions this property quantifies over are, in the model, the code
        translated on every run from the current user_actions/*.py (Gen/UserActions_gen.v, translator
        harness/translate_user_actions.py, fail closed): the generated definitions equal the hand-written
        ones the theorems above are about, for all arguments (UserAddNode: on states whose track lookup
        lists only nodes, which W_book implies). ---- *)
Theorem C08_user_actions_are_generated :
  (forall st u v top, FT.Gen.UserActions_gen.gen_user_delete_edge st u v top = user_delete_edge st u v top) /\
  (forall st u v force top, FT.Gen.UserActions_gen.gen_user_add_edge st u v force top = user_add_edge st u v force top) /\
  (forall st n1 n2, FT.Gen.UserActions_gen.gen_user_swap st n1 n2 = user_swap st n1 n2) /\
  (forall st n new, FT.Gen.UserActions_gen.gen_user_update_attrs st n new = user_update_attrs st n new) /\
  (forall st n px top, FT.Gen.UserActions_gen.gen_user_delete_node st n px top = user_delete_node st n px top) /\
  (forall st n a px force top, W_book st ->
     FT.Gen.UserActions_gen.gen_user_add_node st n a px force top = user_add_node st n a px force top) /\
  (forall st nv groups T force, FT.Gen.UserActions_gen.gen_user_update_seg st nv groups T force = user_update_seg st nv groups T force).
Proof.
  split; [exact FT.Proofs.UserActionsTie.gen_user_delete_edge_eq|]. split; [exact FT.Proofs.UserActionsTie.gen_user_add_edge_eq|].
  split; [exact FT.Proofs.UserActionsTie.gen_user_swap_eq|]. split; [exact FT.Proofs.UserActionsTie.gen_user_update_attrs_eq|].
  split; [exact FT.Proofs.UserActionsTie.gen_user_delete_node_eq|].
  split; [intros st n a px force top WB; exact (FT.Proofs.UserActionsTie.gen_user_add_node_eq st n a px force top (FT.Proofs.UserActionsTie.W_book_book_nodes st WB))|].
  exact FT.Proofs.UserActionsTie.gen_user_update_seg_eq.
Qed.

(* ---- ... and the start state need not be assumed well formed: for every valid RAW solution (a forward-in-time
        binary forest whose nodes carry only a time - and, without a segmentation, a position -, labels and
        nodes one-to-one, the feature table of a fresh Tracks, and the networkx oracle answers being the true
        unbranched segments / weakly connected components: raw_ok), the state constructed by enabling the core
        features with recomputation (Proofs/EditInit.v: construct, following Tracks.__init__ /
        _setup_core_computed_features) is well formed, satisfies the configuration facts and has an empty
        history; hence every session over the whole interface from it stays well formed. ---- *)
Theorem C08_sessions_from_construction : forall r0 posk ctrk clin extra ops,
  EditInit.raw_ok r0 posk ctrk clin ->
  (forall k, In k extra -> In k (Toggle.available r0)) ->
  EditSessionsAll.pre_along_all (EditInit.construct r0 ctrk clin extra) ops ->
  forall pre post, ops = pre ++ post -> WF (run (EditInit.construct r0 ctrk clin extra) pre).
Proof. exact EditInit.construct_session_WF. Qed.

(* ---- one level further down: the queries (get_track_neighbors with its in-place sort, has_track_id_at_time,
        next track / lineage id), the node-id counter, Tracks.undo / redo and the seven basic actions with their
        inverses (__init__, _apply, the annotator notifications, the track-annotator bookkeeping and relabel
        walk inlined) of the model equal the code translated on every run from data_model/solution_tracks.py,
        data_model/tracks.py, annotators/_track_annotator.py and actions/*.py (Gen/Core_gen.v; translator
        harness/translate_core.py, fail closed).  The statement is Proofs/CoreTieBundle.v: core_tie_statement.
        Not translated (hand models): the regionprops / edge annotators' update, the bulk compute paths. ---- *)
Theorem C08_core_is_generated : FT.Proofs.CoreTieBundle.core_tie_statement.
Proof. exact FT.Proofs.CoreTieBundle.core_tie. Qed.

(* ---- the two segmentation-derived annotators of the model are, for all arguments, the code translated on every run from the current _regionprops_annotator.py, _edge_annotator.py and _compute_ious.py (Gen/Annotators_gen.v; translator harness/translate_annotators.py, fail closed; combinators Model/PyRt8.v; skimage's regionprops is an oracle of which only WHICH mask of WHICH frame is measured is modelled).  The statements are those of the cited theorems of Proofs/AnnotatorsTie.v ---- *)
Theorem C08_regionprops_update_is_generated : ltac:(let t := type of @FT.Proofs.AnnotatorsTie.gen_RegionpropsAnnotator_update_eq in exact t).
Proof. exact @FT.Proofs.AnnotatorsTie.gen_RegionpropsAnnotator_update_eq. Qed.

Theorem C08_regionprops_compute_is_generated : ltac:(let t := type of @FT.Proofs.AnnotatorsTie.gen_RegionpropsAnnotator_compute_eq in exact t).
Proof. exact @FT.Proofs.AnnotatorsTie.gen_RegionpropsAnnotator_compute_eq. Qed.


(* ---- ... and for a graph that ARRIVES with managed features of its own (an imported or reloaded solution):
        the constructor as the code runs it (Model/EditCtor.v: construct_any, following Tracks.__init__,
        _check_existing_feature, _setup_core_computed_features and TrackAnnotator.__init__ /
        _get_max_id_and_map) fills the id lookups by a scan of whatever ids the nodes carry, then ACTIVATES
        every core feature the first node carries (values taken at face value) and COMPUTES every other one.
        If the features detected on the first node are valid on all nodes (supplied_ok: supplied track ids label
        exactly the unbranched segments, supplied lineage ids exactly the components, supplied positions /
        areas are those of the current masks; nothing is assumed about a feature the first node lacks), the
        constructed state is well formed - whatever combination of supplied and computed features - and so
        is every state of every session over the whole interface from it. Proofs/EditCtorExample.v: a
        solution with non-contiguous supplied track ids and a stale partial lineage id (accepted), and one
        whose supplied ids are invalid (raw_ok holds, supplied_ok fails, the constructed state is NOT well
        formed: the hypothesis is needed).  Tie: the constructor correspondence of every run compares
        construct_any with SolutionTracks.__init__ on every generated raw solution (harness/ctor.py). ---- *)
Theorem C08_sessions_from_any_construction : forall r0 posk ctrk clin extra ops,
  EditInit.raw_ok r0 posk ctrk clin ->
  EditCtor.supplied_ok r0 ->
  (forall k, In k extra -> In k (Toggle.available r0)) ->
  EditSessionsAll.pre_along_all (FT.Model.EditCtor.construct_any r0 ctrk clin extra) ops ->
  forall pre post, ops = pre ++ post -> WF (run (FT.Model.EditCtor.construct_any r0 ctrk clin extra) pre).
Proof. exact EditCtor.construct_any_session_WF. Qed.

(* ---- ... and for tracks constructed with a PREPARED feature registry (features=<FeatureDict>: load_tracks of the
        internal save format, applications that build their own registry): Model/EditCtor.v construct_dict,
        following Tracks._activate_features_from_dict after TrackAnnotator.__init__ - the lookups are filled by the
        scan, every registered key an annotator can manage is activated, NOTHING is computed. If everything the
        registry lists is valid on the graph (EditCtorDict.dict_ok: time, track and lineage ids registered; track
        ids label the unbranched segments, lineage ids the components; every registered regionprops key stores
        the value of the node's current mask, a registered IoU the true overlap; the caller's table is otherwise
        arbitrary), the constructed state is well formed and so is every state of every session over the whole
        interface from it.  Proofs/EditCtorDictExample.v: a reloaded solution with a division, non-contiguous
        ids, positions, areas and IoUs (accepted; the first lineage id issued afterwards lies above the loaded
        maximum), and one with a stale registered area (dict_ok fails and the constructed state is NOT fresh).
        Tie: the constructor correspondence compares construct_dict with SolutionTracks(..., features=...)
        on 15 % of the generated raw solutions (harness/ctor.py, driver line CD). ---- *)
Theorem C08_sessions_from_prepared_registry : forall r0 ops,
  EditCtorDict.dict_ok r0 ->
  EditSessionsAll.pre_along_all (FT.Model.EditCtor.construct_dict r0) ops ->
  forall pre post, ops = pre ++ post -> WF (run (FT.Model.EditCtor.construct_dict r0) pre).
Proof. exact EditCtorDict.construct_dict_session_WF. Qed.

(* ---- sessions that MIX edits with feature switching (Tracks.enable_features with recomputation /
        disable_features of the non-id features; switch_ok excludes the two id keys - Proofs/ToggleRefuted.v
        shows why - and registration without recomputation):
        C08_switch_step: one switch call keeps the complete invariant WF and the side facts (side_ok =
        cfg_keys, reg_ok, rp_disjoint, rp_decl) and touches neither the two history stacks nor the array; a
        refused call returns the state itself.
        C08_sessions_with_switching_partial: every state reached along   switches ++ (an editing session over
        the whole interface, undo / redo included) ++ (any mix of switches and edits in which nothing is undone
        or redone)   is well formed.  "partial": undo / redo AFTER a switch is not covered unconditionally.
        C08_sessions_with_switching_conditional: the statement for ANY interleaving, from the one hypothesis
        that is still open (transport_along: the recorded actions stay consistent transitions between the
        switched timeline states - a simulation of the inverses between two feature tables).
        Proofs/EditSessionsToggle.v also contains a refutation of the unconditional statement for a configuration
        the implementation cannot be in (regionprops keys declared without a label array): the model's
        hypotheses, not the code, are too weak there; with an array no counter-example is known and the
        correspondence runs such sessions on every check (toggles in C08 / C09 / C10). ---- *)
Theorem C08_switch_step : ltac:(let t := type of @FT.Proofs.EditSessionsToggle.switch_step2 in exact t).
Proof. exact @FT.Proofs.EditSessionsToggle.switch_step2. Qed.
Theorem C08_sessions_with_switching_partial : ltac:(let t := type of @FT.Proofs.EditSessionsToggle.session_toggle_sandwich_reachable_WF in exact t).
Proof. exact @FT.Proofs.EditSessionsToggle.session_toggle_sandwich_reachable_WF. Qed.
Theorem C08_sessions_with_switching_conditional : ltac:(let t := type of @FT.Proofs.EditSessionsToggle.session_toggle_reachable_WF_conditional in exact t).
Proof. exact @FT.Proofs.EditSessionsToggle.session_toggle_reachable_WF_conditional. Qed.

Example C08_ex0_fresh :
  seg ex0 = Some sg0 /\ rp_fresh ex0 /\ W_seg ex0 /\ nodes_sane ex0 sg0 /\
  ~ In KTime (rp_act (ft ex0)) /\ ~ In KTrack (rp_act (ft ex0)) /\ ~ In KLin (rp_act (ft ex0)) /\
  incl (rp_act (ft ex0)) (rp_all (ft ex0)).
Proof. split; [reflexivity|split; [exact ex0_rp_fresh|split; [exact ex0_W_seg|split; [exact ex0_nodes_sane|exact ex0_cfg]]]]. Qed.

(* a stroke with new label 5 over a background pixel and a pixel of node 4 (frame 2): node 4 is remeasured
   on its remaining pixel, node 5 on its two; undo remeasures node 4 on its old mask *)
Example C08_ex0_paint :
  let s1 := fst (step ex0 (OPaint 5 2 [0;1] 9 false)) in
  let s2 := fst (step s1 OUndo) in
  snd (step ex0 (OPaint 5 2 [0;1] 9 false)) = (0, []) /\
  attr s1 4 KArea = Some (VRp [2]) /\ attr s1 4 KPos = Some (VRp [2]) /\
  attr s1 5 KArea = Some (VRp [0;1]) /\ attr s1 5 KPos = Some (VRp [0;1]) /\
  attr s1 2 KArea = Some (VRp [0;1]) /\
  snd (step s1 OUndo) = (1, []) /\ attr s2 4 KArea = Some (VRp [1;2]) /\ has_node s2 5 = false.
Proof. vm_compute. repeat split; reflexivity. Qed.

(* basic level: hypotheses of C08_fresh_add_node / C08_fresh_upd_seg hold on ex0 *)
Example C08_ex0_basic :
  (exists b s, do_add_node ex0 5 [(KTime, VZ 2); (KTrack, VZ 9); (KArea, VTok 77)] (Some (2, [0;3])) = Ok b s /\
     ~ is_node ex0 5 /\ hits sg0 2 [0;3] /\ only_touches sg0 2 [0;3] 5 /\
     attr s 5 KArea = Some (VRp [0;3])) /\
  (exists b s, do_upd_seg ex0 4 (2, [1]) false = Ok b s /\
     mask_of (paint_arr sg0 2 [1] 0) (time_of ex0 4) 4 <> [] /\ attr s 4 KArea = Some (VRp [2])) /\
  (exists e s, do_upd_attrs ex0 4 [(KArea, VTok 5)] = Err e s).
Proof.
  split; [|split].
  - eexists; eexists. split; [vm_compute; reflexivity|]. split; [intros H; apply ex0_nodes in H; intuition discriminate|].
    split; [exists 0%nat; split; [vm_compute; auto|now left]|]. split; [|reflexivity].
    intros i Hi [H|[H|[]]]; [replace i with 0%nat by (apply Nat2Z.inj; now rewrite <- H)|replace i with 3%nat by (apply Nat2Z.inj; now rewrite <- H)]; left; reflexivity.
  - eexists; eexists. split; [vm_compute; reflexivity|]. split; [vm_compute; discriminate|reflexivity].
  - eexists; eexists. vm_compute. reflexivity.
Qed.

Print Assumptions C08_W_fresh_split.
Print Assumptions C08_fresh_add_node.
Print Assumptions C08_fresh_upd_seg.
Print Assumptions C08_fresh_other.
Print Assumptions C08_run_edge_calls.
Print Assumptions C08_run_edge_attr_calls.
Print Assumptions C08_history_is_generated.
Print Assumptions C08_run_node_calls.
Print Assumptions C08_sessions.
Print Assumptions C08_paint.
Print Assumptions C08_run_paint_calls.
Print Assumptions C08_user_actions_are_generated.
Print Assumptions C08_sessions_from_construction.
Print Assumptions C08_core_is_generated.
Print Assumptions C08_regionprops_update_is_generated.
Print Assumptions C08_regionprops_compute_is_generated.
Print Assumptions C08_sessions_from_any_construction.
Print Assumptions C08_sessions_from_prepared_registry.
Print Assumptions C08_switch_step.
Print Assumptions C08_sessions_with_switching_partial.
Print Assumptions C08_sessions_with_switching_conditional.
