(* Property C06 - Track lookups and freshly issued ids always agree with the graph.
   This file holds only the property theorems (each closed by [exact] of a lemma of
   Proofs/EditBook.v), a non-vacuity example, and Print Assumptions.

   Reading guide (definitions in Proofs/EditInv.v, Proofs/EditBook.v):
   - [W_book st]: for both lookups (tracklet_id_to_nodes / lineage_id_to_nodes) the keys are
     duplicate free, every stored list is non-empty, duplicate free and lists exactly the
     nodes of the graph that carry that id, every id carried by a node has an entry, and is
     <= the recorded maximum;
   - [W_dict st]: the networkx dictionaries are well formed and every node carries an integer
     time, track id and lineage id;  [cfg_ok st]: track and lineage features are active;
   - [rp_disjoint st]: time / track id / lineage id are not regionprops keys (true of every
     configuration: the regionprops keys are pos, area, ellipse axes, circularity, perimeter);
   - [bfs fuel st [start]]: the nodes below [start] level by level, in the order the relabelling
     walk of UpdateTrackIDs visits them. *)
From Coq Require Import ZArith List Bool Permutation.
From FT Require Import Base.Dict Model.Edit Model.EditExec Proofs.EditInv Proofs.EditBook.
From FT Require Proofs.EditIssuedIds.
From FT Require Proofs.EditNodeBasic Proofs.EditBook Proofs.EditUDN Proofs.EditUAN Proofs.EditWFEdge.
From FT Require Gen.History_gen Proofs.HistoryGen Props.C02.
From FT Require Proofs.EditBook Proofs.EditWFNode.
From FT Require Proofs.EditSessions Proofs.EditSessionsFull Proofs.EditSessionsAll Proofs.EditWFPaint Proofs.EditWFPaintRollback.
From FT Require Gen.UserActions_gen Proofs.UserActionsTie.
From FT Require Model.Toggle Proofs.EditInit.
From FT Require Proofs.CoreTieBundle.
From FT Require Model.EditCtor Proofs.EditCtor.
From FT Require Proofs.EditCtorDict.
From FT Require Proofs.EditCtorAgree.
Import ListNotations.
Open Scope Z_scope.

(* ---- the seven basic actions keep the lookups exact ---- *)

(* AddNode of a new node id (the documented precondition). *)
Theorem C06_book_add_node : forall st n a px b st',
  cfg_ok st -> ~ is_node st n -> do_add_node st n a px = Ok b st' -> W_book st -> W_book st'.
Proof. exact add_node_W_book. Qed.

(* DeleteNode. *)
Theorem C06_book_del_node : forall st n px b st',
  cfg_ok st -> W_dict st -> do_del_node st n px = Ok b st' -> W_book st -> W_book st'.
Proof. exact del_node_W_book. Qed.

(* AddEdge, DeleteEdge, UpdateNodeAttrs, UpdateNodeSeg never touch ids or lookups. *)
Theorem C06_book_edge_attr_seg : forall st,
  W_book st ->
  (forall u v a b st', do_add_edge st u v a = Ok b st' -> W_book st') /\
  (forall u v b st', do_del_edge st u v = Ok b st' -> W_book st') /\
  (forall n new b st', do_upd_attrs st n new = Ok b st' -> W_book st') /\
  (forall n px added b st', rp_disjoint st -> do_upd_seg st n px added = Ok b st' -> W_book st').
Proof. exact edge_attr_seg_W_book. Qed.

(* UpdateTrackIDs, from exactly the two facts about the visited nodes that the bookkeeping of
   TrackAnnotator._handle_update_track_ids relies on: the walk meets no node twice, and - when a
   lineage id is written - every visited node carries the lineage id of the start node. *)
Theorem C06_book_upd_track_visited : forall st start newT newL b st',
  cfg_ok st -> W_dict st -> W_book st ->
  do_upd_track st start newT newL = Ok b st' ->
  (forall vis, bfs (S (length (nodes (g st)))) st [start] = Some vis ->
     NoDup vis /\ (newL <> None -> forall n, In n vis -> lin st n = lin st start)) ->
  W_book st'.
Proof. exact upd_track_W_book_vis. Qed.

(* Both facts hold on a forward-in-time forest whose lineage id is constant along edges
   (W_forest of C03 and clause L1 of W_lin of C05): no condition on the new ids is needed. *)
Theorem C06_book_upd_track : forall st start newT newL b st',
  cfg_ok st -> W_dict st -> W_forest st -> (forall u v, edge st u v -> lin st u = lin st v) -> W_book st ->
  do_upd_track st start newT newL = Ok b st' -> W_book st'.
Proof. exact upd_track_W_book. Qed.

(* The dictionary invariant used above is itself kept by all seven basic actions. *)
Theorem C06_dict_basic : forall st,
  cfg_ok st -> W_dict st ->
  (forall n a px b st' t0 T L, ~ is_node st n -> rp_disjoint st -> NoDup (keys a) ->
       lookup KTime a = Some (VZ t0) -> lookup KTrack a = Some (VZ T) -> lookup KLin a = Some (VZ L) ->
       do_add_node st n a px = Ok b st' -> W_dict st') /\
  (forall n px b st', do_del_node st n px = Ok b st' -> W_dict st') /\
  (forall u v a b st', do_add_edge st u v a = Ok b st' -> W_dict st') /\
  (forall u v b st', do_del_edge st u v = Ok b st' -> W_dict st') /\
  (forall n new b st', do_upd_attrs st n new = Ok b st' -> W_dict st') /\
  (forall n px added b st', rp_disjoint st -> do_upd_seg st n px added = Ok b st' -> W_dict st') /\
  (forall start newT newL b st', do_upd_track st start newT newL = Ok b st' -> W_dict st').
Proof. exact basic_W_dict. Qed.

(* ---- the queries return what a scan of the graph returns ---- *)

(* get_track_neighbors(T, t): the state changes only by the in-place sort of the list of T
   ([reordered]: same keys, other lists untouched, the list of T permuted, everything else equal),
   the lookups stay exact, and the answer is the node of track T with the greatest time < t
   (None iff there is none) and the one with the smallest time > t. *)
Theorem C06_neighbors : forall st T t st' p s,
  W_book st -> track_neighbors st T t = (st', (p, s)) ->
  reordered T st st' /\ W_book st' /\
  match p with
  | Some n => (is_node st n /\ trk st n = Some T) /\ time_of st n < t /\
              forall m, is_node st m /\ trk st m = Some T -> time_of st m < t -> time_of st m <= time_of st n
  | None => forall m, is_node st m /\ trk st m = Some T -> ~ time_of st m < t
  end /\
  match s with
  | Some n => (is_node st n /\ trk st n = Some T) /\ t < time_of st n /\
              forall m, is_node st m /\ trk st m = Some T -> t < time_of st m -> time_of st n <= time_of st m
  | None => forall m, is_node st m /\ trk st m = Some T -> ~ t < time_of st m
  end.
Proof. exact track_neighbors_spec. Qed.

Theorem C06_sort : forall st l,
  Permutation l (sort_by_time st l) /\ Sorted.StronglySorted (fun a b => time_of st a <= time_of st b) (sort_by_time st l).
Proof. exact (fun st l => conj (sort_by_time_perm st l) (sort_by_time_sorted st l)). Qed.

Theorem C06_has_track_at : forall st T t,
  W_book st -> (has_track_at st T t = true <-> exists n, is_node st n /\ trk st n = Some T /\ time_of st n = t).
Proof. exact has_track_at_spec. Qed.

(* ---- a newly issued id is never one that is in use ---- *)
Theorem C06_fresh_track : forall st, W_book st -> forall n, is_node st n -> trk st n <> Some (next_trk st).
Proof. exact next_trk_fresh. Qed.

Theorem C06_fresh_lineage : forall st, W_book st -> forall n, is_node st n -> lin st n <> Some (next_lin st).
Proof. exact next_lin_fresh. Qed.

(* _get_new_node_ids(k): k pairwise distinct ids, none of them a node (no invariant needed: the
   bound of the skip loop, one more than the number of nodes, always suffices - pigeonhole). *)
Theorem C06_fresh_node_ids : forall st k st' ids,
  get_new_node_ids st k = (st', ids) ->
  NoDup ids /\ length ids = k /\ (forall i, In i ids -> ~ is_node st i) /\
  g st' = g st /\ bk st' = bk st /\ nctr st <= nctr st'.
Proof. exact get_new_node_ids_spec. Qed.
(* ... and they lie between the counter before and after the call, so two successive calls never issue the
   same id, whether or not the first batch was added to the graph (Proofs/EditIssuedIds.v) *)
Theorem C06_issued_range : forall st k st' ids, get_new_node_ids st k = (st', ids) ->
  forall i, In i ids -> nctr st <= i < nctr st'.
Proof. exact FT.Proofs.EditIssuedIds.issued_range. Qed.
Theorem C06_issued_twice_disjoint : forall st k1 s1 ids1 k2 s2 ids2,
  get_new_node_ids st k1 = (s1, ids1) -> get_new_node_ids s1 k2 = (s2, ids2) ->
  forall i, In i ids1 -> ~ In i ids2.
Proof. exact FT.Proofs.EditIssuedIds.issued_twice_disjoint. Qed.
(* along sessions: only _get_new_node_ids moves the node-id counter, and only upwards (no edit, undo, redo or
   refusal touches it), so of any two issuing calls of one session - whatever happens in between - the later
   one issues strictly larger ids: an issued id is never issued again *)
Theorem C06_counter_only_moved_by_issuing : forall st o, (forall k, o <> ONewIds k) -> nctr (fst (step st o)) = nctr st.
Proof. exact FT.Proofs.EditIssuedIds.step_nctr. Qed.
Theorem C06_session_issued_ids_increase : forall st k1 mid k2,
  let s1 := fst (step st (ONewIds k1)) in
  let s2 := run s1 mid in
  forall i j, In i (snd (snd (step st (ONewIds k1)))) -> In j (snd (snd (step s2 (ONewIds k2)))) -> i < j.
Proof. exact FT.Proofs.EditIssuedIds.session_issued_ids_increase. Qed.

(* ---- non-vacuity: a three-node state (track 1 = 1 -> 2, track 2 = 3) ---- *)
Definition ex_feats : feats :=
  {| reg_node := [KTime; KPos; KTrack; KLin]; reg_edge := []; pos_keys := [KPos]; rp_all := []; rp_act := [];
     iou_avail := false; iou_act := false; trk_act := true; lin_act := true |}.
Definition ex_state : state :=
  mk_state [(1, [(KTime, VZ 0); (KPos, VTok 0); (KTrack, VZ 1); (KLin, VZ 1)]);
            (2, [(KTime, VZ 2); (KPos, VTok 1); (KTrack, VZ 1); (KLin, VZ 1)]);
            (3, [(KTime, VZ 0); (KPos, VTok 2); (KTrack, VZ 2); (KLin, VZ 2)])]
           [(1, 2, [])] None ex_feats
           [(1, [2; 1]); (2, [3])] [(1, [1; 2]); (2, [3])] 2 2 2.

Example C06_issued_nonvacuous :
  snd (snd (step ex_state (ONewIds 2))) = [4; 5] /\
  snd (snd (step (run (fst (step ex_state (ONewIds 2))) [ODelEdge 1 2; OUndo]) (ONewIds 2))) = [6; 7].
Proof. vm_compute. split; reflexivity. Qed.

(* ---- node actions: the six graph-and-id invariants (configuration, dictionaries, forest, track ids,
        lineage ids, lookups) are preserved together by UserDeleteNode and UserAddNode, all branches
        (dividing parent, root, bridge; splice into a skip edge, forced cuts, fresh track id) ---- *)
Theorem C06_step_delete_node : forall st n pxo top a st',
  EditUDN.GWF st -> user_delete_node st n pxo top = Ok a st' -> EditUDN.GWF st'.
Proof. exact EditUDN.udn_GWF. Qed.

(* what a node deletion may relabel: lineage ids only strictly below the deleted node, track ids only
   when the parent of the deleted node divides (the sibling then continues the parent's track) *)
Theorem C06_frame_delete_node : forall st n pxo top a st',
  EditUDN.GWF st -> user_delete_node st n pxo top = Ok a st' ->
  (forall m, m <> n -> ~ EditWalk.reach st n m -> lin st' m = lin st m) /\
  ((forall q, edge st q n -> ~ divides st q) -> forall m, m <> n -> trk st' m = trk st m).
Proof. exact EditUDN.udn_id_frame. Qed.

(* UserAddNode, for attributes inside the documented domain (integer time / track id, no
   caller-supplied lineage id) *)
Theorem C06_step_add_node : forall st n a px force top act st',
  cfg_ok st -> W_dict st -> W_forest st -> W_trk st -> W_lin st -> W_book st ->
  EditBook.rp_disjoint st -> EditUAN.attrs_ok a -> haskey KLin a = false ->
  user_add_node st n a px force top = Ok act st' ->
  cfg_ok st' /\ W_dict st' /\ W_forest st' /\ W_trk st' /\ W_lin st' /\ W_book st'.
Proof. exact EditUAN.user_add_node_keeps_all. Qed.

(* every state reachable by edge-level calls from a well-formed state is well formed (WF includes W_trk) *)
Theorem C06_run_edge_calls : forall ops st,
  forallb EditWFEdge.edge_fragment ops = true -> WF st -> WF (run st ops).
Proof. exact EditWFEdge.run_edge_WF. Qed.

(* ---- undo / redo: the history mechanism this property quantifies over (Tracks.undo / redo,
        ActionHistory) is, in the model, the code translated on every run from the current
        actions/action_history.py (Gen/History_gen.v); C02_timeline states what it guarantees ---- *)
Theorem C06_history_is_generated : forall st a dA,
  (let h := fst (FT.Gen.History_gen.add_new_action state action (FT.Proofs.HistoryGen.to_hist st) a st) in
   undo_stack (hist_add st a) = FT.Gen.History_gen.undo_stack _ _ h /\ redo_stack (hist_add st a) = FT.Gen.History_gen.redo_stack _ _ h) /\
  (let gr := FT.Gen.History_gen.undo state action FT.Proofs.HistoryGen.inv_total dA (FT.Proofs.HistoryGen.to_hist st) in
   match undo st with
   | Ok b s' => snd gr = b /\ undo_stack s' = FT.Gen.History_gen.undo_stack _ _ (fst gr) /\ redo_stack s' = FT.Gen.History_gen.redo_stack _ _ (fst gr)
   | Err _ _ => True
   end).
Proof. exact FT.Props.C02.C02_edit_machine_uses_generated. Qed.

(* ---- the same with the node calls: every state reachable from a well-formed state by any sequence, of
        any length, of UserAddNode / UserDeleteNode / edge-level calls (accepted or refused) satisfies the
        complete invariant WF, provided each UserAddNode respects its documented preconditions at the moment
        it is made (op_pre: integer time / track id, no caller-supplied lineage id, and - with a
        segmentation - a non-zero id and pixels of the node's own frame that are background; the three
        accepted-but-invariant-breaking calls of Proofs/EditWFNodeExample.v show each part is needed) ---- *)
Theorem C06_run_node_calls : forall ops st,
  forallb EditWFNode.node_fragment ops = true -> WF st -> EditBook.rp_disjoint st ->
  (forall pre o post, ops = pre ++ o :: post -> EditWFNode.op_pre (run st pre) o) ->
  WF (run st ops).
Proof. exact EditWFNode.run_node_WF. Qed.

(* ---- sessions over the WHOLE public interface (Proofs/EditSessions.v, EditSessionsFull.v, EditSessionsAll.v):
        from a well-formed state with an empty history, EVERY state reached along ANY sequence - of any
        length - of calls of the edit machine (add / delete edge, forced or not, swap, add / delete node,
        attribute update, paint / erase stroke, undo, redo, queries, fresh ids), accepted or refused,
        satisfies the complete invariant WF.  No restriction on which calls occur.  Hypotheses: three
        configuration facts that no call changes (reg_ok: every active managed feature is registered;
        rp_decl: every active regionprops key is one the annotator declares; rp_disjoint: time / track id /
        lineage id are not regionprops keys - all true by construction of Tracks, C10_registry) and the
        documented per-call preconditions at the moment each call is made (pre_along_all: for UserAddNode
        integer time / track id, no caller-supplied lineage id, and with a segmentation a non-zero id and
        background pixels of its own frame; without a segmentation a deleted / added node has its
        position attributes; strokes, edge calls, attribute updates, undo, redo have none). ---- *)
Theorem C06_sessions : forall st0 ops,
  WF st0 -> EditSessions.reg_ok st0 -> EditBook.rp_disjoint st0 -> EditSessionsFull.rp_decl st0 ->
  undo_stack st0 = [] -> redo_stack st0 = [] -> EditSessionsAll.pre_along_all st0 ops ->
  forall pre post, ops = pre ++ post -> WF (run st0 pre).
Proof. exact EditSessionsAll.session_all_reachable_WF. Qed.

(* ---- paint / erase strokes (Proofs/EditWFPaint.v): every ACCEPTED stroke on a well-formed state yields
        a well-formed state, with no precondition on the stroke (labels and nodes stay one-to-one: nodes that
        lose all pixels are deleted, with the bridge edge; partially overwritten ones are re-measured; the
        painted label exists with exactly its pixels), and reachability over edge / node / stroke calls.
        Refused strokes included, the rolled-back one too (Proofs/EditWFPaintRollback.v): the only per-call
        precondition left is that of UserAddNode; strokes have none. ---- *)
Theorem C06_paint : forall st nv t idx T force a st',
  WF st -> EditBook.rp_disjoint st -> paint st nv t idx T force = Ok a st' -> WF st'.
Proof. exact EditWFPaint.paint_WF. Qed.

Theorem C06_run_paint_calls : forall ops st,
  forallb EditWFPaint.paint_fragment ops = true -> WF st -> EditBook.rp_disjoint st -> EditSessions.reg_ok st ->
  (forall pre o post, ops = pre ++ o :: post -> EditWFNode.op_pre (run st pre) o) ->
  WF (run st ops) /\ EditBook.rp_disjoint (run st ops) /\ EditSessions.reg_ok (run st ops).
Proof. exact EditWFPaintRollback.run_paint_WF_all. Qed.

(* ---- the seven composite user actions this property quantifies over are, in the model, the code
        translated on every run from the current user_actions/*.py (Gen/UserActions_gen.v, translator
        harness/translate_user_actions.py, fail closed): the generated definitions equal the hand-written
        ones the theorems above are about, for all arguments (UserAddNode: on states whose track lookup
        lists only nodes, which W_book implies). ---- *)
Theorem C06_user_actions_are_generated :
  (forall st u v top, FT.Gen.UserActions_gen.gen_user_delete_edge st u v top = user_delete_edge st u v top) /\
  (forall st u v force top, FT.Gen.UserActions_gen.gen_user_add_edge st u v force top = user_add_edge st u v force top) /\
  (forall st n1 n2, FT.Gen.UserActions_gen.gen_user_swap st n1 n2 = user_swap st n1 n2) /\
  (forall st n new, FT.Gen.UserActions_gen.gen_user_update_attrs st n new = user_update_attrs st n new) /\
  (forall st n px top, FT.Gen.UserActions_gen.gen_user_delete_node st n px top = user_delete_node st n px top) /\
  (forall st n a px force top, W_book st ->
     FT.Gen.UserActions_gen.gen_user_add_node st n a px force top = user_add_node st n a px force top) /\
  (forall st nv groups T force, FT.Gen.UserActions_gen.gen_user_update_seg st nv groups T force = user_update_seg st nv groups T force).
Proof.
  split; [exact FT.Proofs.UserActionsTie.gen_user_delete_edge_eq|]. split; [exact FT.Proofs.UserActionsTie.gen_user_add_edge_eq|].
  split; [exact FT.Proofs.UserActionsTie.gen_user_swap_eq|]. split; [exact FT.Proofs.UserActionsTie.gen_user_update_attrs_eq|].
  split; [exact FT.Proofs.UserActionsTie.gen_user_delete_node_eq|].
  split; [intros st n a px force top WB; exact (FT.Proofs.UserActionsTie.gen_user_add_node_eq st n a px force top (FT.Proofs.UserActionsTie.W_book_book_nodes st WB))|].
  exact FT.Proofs.UserActionsTie.gen_user_update_seg_eq.
Qed.

(* ---- ... and the start state need not be assumed well formed: for every valid RAW solution (a forward-in-time
        binary forest whose nodes carry only a time - and, without a segmentation, a position -, labels and
        nodes one-to-one, the feature table of a fresh Tracks, and the networkx oracle answers being the true
        unbranched segments / weakly connected components: raw_ok), the state constructed by enabling the core
        features with recomputation (Proofs/EditInit.v: construct, following Tracks.__init__ /
        _setup_core_computed_features) is well formed, satisfies the configuration facts and has an empty
        history; hence every session over the whole interface from it stays well formed. ---- *)
Theorem C06_sessions_from_construction : forall r0 posk ctrk clin extra ops,
  EditInit.raw_ok r0 posk ctrk clin ->
  (forall k, In k extra -> In k (Toggle.available r0)) ->
  EditSessionsAll.pre_along_all (EditInit.construct r0 ctrk clin extra) ops ->
  forall pre post, ops = pre ++ post -> WF (run (EditInit.construct r0 ctrk clin extra) pre).
Proof. exact EditInit.construct_session_WF. Qed.

(* ---- one level further down: the queries (get_track_neighbors with its in-place sort, has_track_id_at_time,
        next track / lineage id), the node-id counter, Tracks.undo / redo and the seven basic actions with their
        inverses (__init__, _apply, the annotator notifications, the track-annotator bookkeeping and relabel
        walk inlined) of the model equal the code translated on every run from data_model/solution_tracks.py,
        data_model/tracks.py, annotators/_track_annotator.py and actions/*.py (Gen/Core_gen.v; translator
        harness/translate_core.py, fail closed).  The statement is Proofs/CoreTieBundle.v: core_tie_statement.
        Not translated (hand models): the regionprops / edge annotators' update, the bulk compute paths. ---- *)
Theorem C06_core_is_generated : FT.Proofs.CoreTieBundle.core_tie_statement.
Proof. exact FT.Proofs.CoreTieBundle.core_tie. Qed.

(* ---- ... and for a graph that ARRIVES with managed features of its own (an imported or reloaded solution):
        the constructor as the code runs it (Model/EditCtor.v: construct_any, following Tracks.__init__,
        _check_existing_feature, _setup_core_computed_features and TrackAnnotator.__init__ /
        _get_max_id_and_map) fills the id lookups by a scan of whatever ids the nodes carry, then ACTIVATES
        every core feature the first node carries (values taken at face value) and COMPUTES every other one.
        If the features detected on the first node are valid on all nodes (supplied_ok: supplied track ids label
        exactly the unbranched segments, supplied lineage ids exactly the components, supplied positions /
        areas are those of the current masks; nothing is assumed about a feature the first node lacks), the
        constructed state is well formed - whatever combination of supplied and computed features - and so
        is every state of every session over the whole interface from it. Proofs/EditCtorExample.v: a
        solution with non-contiguous supplied track ids and a stale partial lineage id (accepted), and one
        whose supplied ids are invalid (raw_ok holds, supplied_ok fails, the constructed state is NOT well
        formed: the hypothesis is needed).  Tie: the constructor correspondence of every run compares
        construct_any with SolutionTracks.__init__ on every generated raw solution (harness/ctor.py). ---- *)
Theorem C06_sessions_from_any_construction : forall r0 posk ctrk clin extra ops,
  EditInit.raw_ok r0 posk ctrk clin ->
  EditCtor.supplied_ok r0 ->
  (forall k, In k extra -> In k (Toggle.available r0)) ->
  EditSessionsAll.pre_along_all (FT.Model.EditCtor.construct_any r0 ctrk clin extra) ops ->
  forall pre post, ops = pre ++ post -> WF (run (FT.Model.EditCtor.construct_any r0 ctrk clin extra) pre).
Proof. exact EditCtor.construct_any_session_WF. Qed.

(* ---- TrackAnnotator._get_max_id_and_map, on its own: for ANY attributes (ids missing on some nodes, values
        that are not integers are skipped) the lookup built by the scan is exactly the group-by of the id
        attribute - every list non-empty, duplicate free, holding exactly the nodes with that id - and the
        maximum bounds every id from above (so that ids issued later are fresh). ---- *)
Theorem C06_scan_is_group_by : forall st key, NoDup (node_ids st) ->
  book_ok st (snd (FT.Model.EditCtor.scan_ids st key)) (fun n => zattr st n key) (fst (FT.Model.EditCtor.scan_ids st key)).
Proof. exact EditCtor.scan_ids_book_ok. Qed.

(* ---- supplied ids are KEPT: a feature detected on the first node is neither renumbered nor recomputed, and
        its lookup and maximum are those of the scan of the caller's graph. ---- *)
Theorem C06_supplied_ids_kept : forall r0 posk ctrk clin, EditInit.raw_ok r0 posk ctrk clin -> EditCtor.supplied_ok r0 ->
  let st1 := FT.Model.EditCtor.construct_any r0 ctrk clin [] in
  (forall n k, k <> KPos -> k <> KArea -> k <> KTrack -> k <> KLin -> attr st1 n k = attr r0 n k) /\
  (FT.Model.EditCtor.first_has r0 KTrack = true -> (forall n, attr st1 n KTrack = attr r0 n KTrack) /\
     trk_book (bk st1) = snd (FT.Model.EditCtor.scan_ids r0 KTrack) /\ max_trk (bk st1) = fst (FT.Model.EditCtor.scan_ids r0 KTrack)) /\
  (FT.Model.EditCtor.first_has r0 KLin = true -> (forall n, attr st1 n KLin = attr r0 n KLin) /\
     lin_book (bk st1) = snd (FT.Model.EditCtor.scan_ids r0 KLin) /\ max_lin (bk st1) = fst (FT.Model.EditCtor.scan_ids r0 KLin)).
Proof. exact EditCtor.construct_any_supplied_books. Qed.

(* ---- ... and for tracks constructed with a PREPARED feature registry (features=<FeatureDict>: load_tracks of the
        internal save format, applications that build their own registry): Model/EditCtor.v construct_dict,
        following Tracks._activate_features_from_dict after TrackAnnotator.__init__ - the lookups are filled by the
        scan, every registered key an annotator can manage is activated, NOTHING is computed. If everything the
        registry lists is valid on the graph (EditCtorDict.dict_ok: time, track and lineage ids registered; track
        ids label the unbranched segments, lineage ids the components; every registered regionprops key stores
        the value of the node's current mask, a registered IoU the true overlap; the caller's table is otherwise
        arbitrary), the constructed state is well formed and so is every state of every session over the whole
        interface from it.  Proofs/EditCtorDictExample.v: a reloaded solution with a division, non-contiguous
        ids, positions, areas and IoUs (accepted; the first lineage id issued afterwards lies above the loaded
        maximum), and one with a stale registered area (dict_ok fails and the constructed state is NOT fresh).
        Tie: the constructor correspondence compares construct_dict with SolutionTracks(..., features=...)
        on 15 % of the generated raw solutions (harness/ctor.py, driver line CD). ---- *)
Theorem C06_sessions_from_prepared_registry : forall r0 ops,
  EditCtorDict.dict_ok r0 ->
  EditSessionsAll.pre_along_all (FT.Model.EditCtor.construct_dict r0) ops ->
  forall pre post, ops = pre ++ post -> WF (run (FT.Model.EditCtor.construct_dict r0) pre).
Proof. exact EditCtorDict.construct_dict_session_WF. Qed.

(* ---- the two constructor models agree: on a non-empty graph that carries none of the core features, the constructor
        as the code runs it (construct_any: scan, detect, activate or compute) IS the plain "compute everything"
        constructor of Proofs/EditInit.v - equality of states - so the earlier construction theorems are the
        special case.  (Proofs/EditCtorAgree.v; the raw state's lookups are empty, EditInit.raw_state has them so
        by definition; empty graph: construct_any only activates, the two resulting states coincide on the two
        evaluated examples.) ---- *)
Theorem C06_constructor_models_agree : forall r0 ctrk clin extra,
  bk r0 = FT.Proofs.EditCtorAgree.empty_books -> node_ids r0 <> [] ->
  (forall n k, In k (FT.Model.EditCtor.ctor_keys (FT.Model.EditCtor.with_seg r0)) -> attr r0 n k = None) ->
  FT.Model.EditCtor.construct_any r0 ctrk clin extra = EditInit.construct r0 ctrk clin extra.
Proof. exact FT.Proofs.EditCtorAgree.construct_any_is_construct. Qed.

Example C06_example_invariants : cfg_ok ex_state /\ rp_disjoint ex_state /\ W_book ex_state.
Proof.
  split; [unfold cfg_ok; cbn; intuition|]. split; [intros k _ []|].
  assert (Hn : forall n, is_node ex_state n <-> n = 1 \/ n = 2 \/ n = 3).
  { intros n. unfold is_node, node_ids. cbn. intuition. }
  split; (split; [cbn; repeat constructor; cbn; intuition discriminate|split]).
  - intros T l H. cbn in H. destruct (Z.eqb_spec T 1) as [->|H1]; [|destruct (Z.eqb_spec T 2) as [->|H2]; [|discriminate]];
      injection H as <-; (split; [discriminate|split; [repeat constructor; cbn; intuition discriminate|]]);
      intros n; rewrite Hn; cbn [In]; split.
    + intros [<-|[<-|[]]]; vm_compute; auto.
    + intros [[->|[->| ->]] H]; vm_compute in H; try discriminate; auto.
    + intros [<-|[]]; vm_compute; auto.
    + intros [[->|[->| ->]] H]; vm_compute in H; try discriminate; auto.
  - intros n T Hi H. apply Hn in Hi. destruct Hi as [->|[->| ->]]; vm_compute in H; injection H as <-; split; (reflexivity || discriminate).
  - intros T l H. cbn in H. destruct (Z.eqb_spec T 1) as [->|H1]; [|destruct (Z.eqb_spec T 2) as [->|H2]; [|discriminate]];
      injection H as <-; (split; [discriminate|split; [repeat constructor; cbn; intuition discriminate|]]);
      intros n; rewrite Hn; cbn [In]; split.
    + intros [<-|[<-|[]]]; vm_compute; auto.
    + intros [[->|[->| ->]] H]; vm_compute in H; try discriminate; auto.
    + intros [<-|[]]; vm_compute; auto.
    + intros [[->|[->| ->]] H]; vm_compute in H; try discriminate; auto.
  - intros n T Hi H. apply Hn in Hi. destruct Hi as [->|[->| ->]]; vm_compute in H; injection H as <-; split; (reflexivity || discriminate).
Qed.

(* what the model computes on it: neighbours of track 1 around t = 1 (and the in-place sort of the
   lookup list), presence of tracks at t = 2, three fresh node ids with the counter at 2 *)
Example C06_example_queries :
  snd (track_neighbors ex_state 1 1) = (Some 1, Some 2) /\
  trk_book (bk (fst (track_neighbors ex_state 1 1))) = [(1, [1; 2]); (2, [3])] /\
  has_track_at ex_state 1 2 = true /\ has_track_at ex_state 2 2 = false /\
  (next_trk ex_state, next_lin ex_state) = (3, 3) /\
  snd (get_new_node_ids ex_state 3) = [5; 6; 4].
Proof. vm_compute. repeat split; reflexivity. Qed.

Print Assumptions C06_issued_range.
Print Assumptions C06_issued_twice_disjoint.
Print Assumptions C06_counter_only_moved_by_issuing.
Print Assumptions C06_session_issued_ids_increase.
Print Assumptions C06_book_add_node.
Print Assumptions C06_book_del_node.
Print Assumptions C06_book_edge_attr_seg.
Print Assumptions C06_book_upd_track_visited.
Print Assumptions C06_book_upd_track.
Print Assumptions C06_dict_basic.
Print Assumptions C06_neighbors.
Print Assumptions C06_sort.
Print Assumptions C06_has_track_at.
Print Assumptions C06_fresh_track.
Print Assumptions C06_fresh_lineage.
Print Assumptions C06_fresh_node_ids.
Print Assumptions C06_step_delete_node.
Print Assumptions C06_frame_delete_node.
Print Assumptions C06_step_add_node.
Print Assumptions C06_run_edge_calls.
Print Assumptions C06_history_is_generated.
Print Assumptions C06_run_node_calls.
Print Assumptions C06_sessions.
Print Assumptions C06_paint.
Print Assumptions C06_run_paint_calls.
Print Assumptions C06_user_actions_are_generated.
Print Assumptions C06_sessions_from_construction.
Print Assumptions C06_core_is_generated.
Print Assumptions C06_sessions_from_any_construction.
Print Assumptions C06_scan_is_group_by.
Print Assumptions C06_supplied_ids_kept.
Print Assumptions C06_sessions_from_prepared_registry.
Print Assumptions C06_constructor_models_agree.
