(* Property C03 - edits keep a solution a forward-in-time binary forest.
   W_forest st: every node has at most one parent and at most two children, every edge leads
   from an earlier to a strictly later time point.  W_dict st: the graph dictionaries are
   well formed.  (Definitions in Proofs/EditInv.v.)
   PROVED here: UserDeleteEdge, UserAddEdge (all branches, forced variants included),
   UserSwapPredecessors, the relabel step UpdateTrackIDs, and the refusal clauses of
   UserAddEdge and UserSwapPredecessors.
   NOT YET PROVED as theorems (decided by the differential correspondence and the forest
   oracle only): UserAddNode, UserDeleteNode, the paint action, undo / redo.  See DESIGN.md section 9 (C03). *)
From Coq Require Import ZArith List Bool.
From FT Require Import Base.Dict Model.Edit Model.EditExec Proofs.EditInv Proofs.EditWalk Proofs.EditUserEdge Proofs.EditUserEdgeCor.
From FT Require Proofs.EditSwap.
From FT Require Proofs.EditNodeBasic Proofs.EditBook Proofs.EditUDN Proofs.EditUAN Proofs.EditWFEdge.
From FT Require Gen.History_gen Proofs.HistoryGen Props.C02.
From FT Require Proofs.EditBook Proofs.EditWFNode.
From FT Require Proofs.EditSessions Proofs.EditSessionsFull Proofs.EditSessionsAll Proofs.EditWFPaint Proofs.EditWFPaintRollback.
From FT Require Gen.UserActions_gen Proofs.UserActionsTie.
From FT Require Model.Toggle Proofs.EditInit.
From FT Require Proofs.CoreTieBundle.
From FT Require Model.EditCtor Proofs.EditCtor.
Import ListNotations.
Open Scope Z_scope.

Theorem C03_delete_edge : forall st u v top a st', W_dict st -> W_forest st ->
  user_delete_edge st u v top = Ok a st' ->
  W_dict st' /\ W_forest st' /\ (forall x y, edge st' x y <-> edge st x y /\ ~ (x = u /\ y = v)).
Proof. exact delete_edge_keeps_forest. Qed.

(* accepted UserAddEdge: forest kept; exactly the new edge is added; the only edges that can
   disappear are other in-edges of the target (the conflicting merge edge), and none without force *)
Theorem C03_add_edge : forall st u v force top a st', W_dict st -> W_forest st ->
  user_add_edge st u v force top = Ok a st' ->
  W_dict st' /\ W_forest st' /\
  (forall x y, edge st' x y <-> (edge st x y /\ y <> v) \/ (x = u /\ y = v)) /\
  (force = false -> forall x y, edge st x y -> edge st' x y).
Proof. exact add_edge_keeps_forest. Qed.

(* a merge, a third child or a non-forward edge is refused with InvalidActionError
   (forceable exactly for the merge), leaving the state as it was *)
Theorem C03_add_edge_refusals : forall st u v force top, W_dict st -> W_forest st ->
  ((has_node st u = false \/ has_node st v = false) -> user_add_edge st u v force top = Err (EInvalid false) st) /\
  (has_node st u = true -> has_node st v = true -> time_of st v <= time_of st u ->
     user_add_edge st u v force top = Err (EInvalid false) st) /\
  (has_node st u = true -> has_node st v = true -> time_of st u < time_of st v ->
     out_degree st u - (if has_edge st u v then 1 else 0) > 1 ->
     user_add_edge st u v force top = Err (EInvalid false) st) /\
  (has_node st u = true -> has_node st v = true -> time_of st u < time_of st v ->
     out_degree st u - (if has_edge st u v then 1 else 0) <= 1 -> in_degree st v > 0 -> force = false ->
     user_add_edge st u v force top = Err (EInvalid true) st).
Proof. exact add_edge_refusals. Qed.

(* the relabel walk terminates on every forest (a cycle would make it run forever: finding
   F-03a) and never touches the graph structure *)
Theorem C03_update_track_ids : forall st start newT newL, W_dict st -> W_forest st -> is_node st start ->
  exists b st', do_upd_track st start newT newL = Ok b st' /\ W_dict st' /\ W_forest st' /\
                (forall a c, edge st' a c <-> edge st a c).
Proof. exact upd_track_keeps_forest. Qed.


(* UserSwapPredecessors: an accepted swap keeps the forest; exactly the parents of the two nodes
   are exchanged *)
Theorem C03_swap : forall st n1 n2 a st', W_dict st -> W_forest st ->
  user_swap st n1 n2 = Ok a st' ->
  W_dict st' /\ W_forest st' /\
  (forall x y, edge st' x y <-> (edge st x y /\ y <> n1 /\ y <> n2) \/ (edge st x n1 /\ y = n2) \/ (edge st x n2 /\ y = n1)).
Proof. exact EditSwap.swap_keeps_forest. Qed.

(* it is accepted exactly when its own checks pass: none of the four nested edits can be refused
   afterwards *)
Theorem C03_swap_accepted_iff : forall st n1 n2, W_dict st -> W_forest st ->
  (EditSwap.swap_refused st n1 n2 = None <-> exists a st', user_swap st n1 n2 = Ok a st').
Proof. exact EditSwap.swap_accepted_iff. Qed.

(* non-vacuity: the fixture forest (division 1->2, 1->3; skip edge 3->5; isolated 6) *)
Definition fx_node (i t k l : Z) : Z * attrs := (i, [(KTime, VZ t); (KPos, VTok i); (KTrack, VZ k); (KLin, VZ l)]).
Definition fx_feats : feats := {| reg_node := [KTime; KPos; KTrack; KLin]; reg_edge := []; pos_keys := [KPos]; rp_all := []; rp_act := [];
                                  iou_avail := false; iou_act := false; trk_act := true; lin_act := true |}.
Definition fx : state :=
  mk_state [fx_node 1 0 1 1; fx_node 2 1 2 1; fx_node 3 1 3 1; fx_node 4 2 2 1; fx_node 5 4 3 1; fx_node 6 4 5 2]
           [(1, 2, []); (1, 3, []); (2, 4, []); (3, 5, [])] None fx_feats
           [(1, [1]); (2, [2; 4]); (3, [3; 5]); (5, [6])] [(1, [1; 2; 3; 4; 5]); (2, [6])] 5 2 1.

(* ---- UserDeleteNode: forest kept; exactly the node and its edges disappear, and the bridge edge
        from its in-track predecessor to its in-track successor appears (needs the track ids and the
        lookups to be right: W_trk, W_book - both counterexamples are in Proofs/EditUDNExample.v) ---- *)
Theorem C03_delete_node : forall st n pxo top a st', W_dict st -> W_forest st -> W_trk st -> W_book st ->
  user_delete_node st n pxo top = Ok a st' ->
  W_dict st' /\ W_forest st' /\
  (forall x, is_node st' x <-> is_node st x /\ x <> n) /\
  (forall x y, edge st' x y <-> (edge st x y /\ x <> n /\ y <> n) \/ EditUDN.udn_bridge st n x y) /\
  (forall m k, m <> n -> k <> KTrack -> k <> KLin -> attr st' m k = attr st m k) /\
  (forall m, m <> n -> time_of st' m = time_of st m) /\
  seg st' = EditNodeBasic.seg_after st (EditNodeBasic.del_px st n pxo) 0 /\ ft st' = ft st /\ nctr st' = nctr st.
Proof. exact EditUDN.udn_keeps_forest. Qed.

Theorem C03_delete_node_accepted_iff : forall st n pxo top, W_dict st -> W_forest st -> W_trk st -> W_book st ->
  (exists a st', user_delete_node st n pxo top = Ok a st') <->
  is_node st n /\ EditNodeBasic.px_ok st (EditNodeBasic.del_px st n pxo).
Proof. exact EditUDN.udn_accepted_iff. Qed.

(* ---- UserAddNode: accepted exactly when none of the six checks refuses; forest kept; the edge set is
        the old one minus the conflicting edges (only when forcing) minus the skip edge pred->succ,
        plus pred->n and n->succ ---- *)
Theorem C03_add_node : forall st n a px force top act st',
  W_dict st -> W_forest st -> W_trk st -> W_book st -> EditBook.rp_disjoint st -> EditUAN.attrs_ok a ->
  user_add_node st n a px force top = Ok act st' ->
  W_dict st' /\ W_forest st' /\
  (forall x, is_node st' x <-> is_node st x \/ x = n) /\
  time_of st' n = EditUAN.uan_time a /\ trk st' n = Some (EditUAN.uan_tid st a) /\
  (forall x y, edge st' x y <->
     (edge st x y /\ ~ In (x, y) (EditUAN.uan_conflict_edges st (EditUAN.uan_pred st a) (EditUAN.uan_succ st a)) /\
      ~ (EditUAN.uan_pred st a = Some x /\ EditUAN.uan_succ st a = Some y)) \/
     (EditUAN.uan_pred st a = Some x /\ y = n) \/ (x = n /\ EditUAN.uan_succ st a = Some y)).
Proof. exact EditUAN.user_add_node_keeps_forest. Qed.

Theorem C03_add_node_accepted_iff : forall st n a px force top,
  W_dict st -> W_forest st -> W_trk st -> W_book st -> EditBook.rp_disjoint st -> EditUAN.attrs_ok a ->
  (exists act st', user_add_node st n a px force top = Ok act st') <-> EditUAN.uan_refused st n a px force = None.
Proof. exact EditUAN.user_add_node_ok_iff. Qed.

(* ---- every state reachable by edge-level calls (add / delete edge with and without force, swap,
        queries, fresh ids) from a well-formed state is well formed: induction over the call list,
        no bound on its length.  WF includes W_forest. ---- *)
Theorem C03_run_edge_calls : forall ops st,
  forallb EditWFEdge.edge_fragment ops = true -> WF st -> WF (run st ops).
Proof. exact EditWFEdge.run_edge_WF. Qed.

(* ---- undo / redo: the history mechanism this property quantifies over (Tracks.undo / redo,
        ActionHistory) is, in the model, the code translated on every run from the current
        actions/action_history.py (Gen/History_gen.v); C02_timeline states what it guarantees ---- *)
Theorem C03_history_is_generated : forall st a dA,
  (let h := fst (FT.Gen.History_gen.add_new_action state action (FT.Proofs.HistoryGen.to_hist st) a st) in
   undo_stack (hist_add st a) = FT.Gen.History_gen.undo_stack _ _ h /\ redo_stack (hist_add st a) = FT.Gen.History_gen.redo_stack _ _ h) /\
  (let gr := FT.Gen.History_gen.undo state action FT.Proofs.HistoryGen.inv_total dA (FT.Proofs.HistoryGen.to_hist st) in
   match undo st with
   | Ok b s' => snd gr = b /\ undo_stack s' = FT.Gen.History_gen.undo_stack _ _ (fst gr) /\ redo_stack s' = FT.Gen.History_gen.redo_stack _ _ (fst gr)
   | Err _ _ => True
   end).
Proof. exact FT.Props.C02.C02_edit_machine_uses_generated. Qed.

(* ---- the same with the node calls: every state reachable from a well-formed state by any sequence, of
        any length, of UserAddNode / UserDeleteNode / edge-level calls (accepted or refused) satisfies the
        complete invariant WF, provided each UserAddNode respects its documented preconditions at the moment
        it is made (op_pre: integer time / track id, no caller-supplied lineage id, and - with a
        segmentation - a non-zero id and pixels of the node's own frame that are background; the three
        accepted-but-invariant-breaking calls of Proofs/EditWFNodeExample.v show each part is needed) ---- *)
Theorem C03_run_node_calls : forall ops st,
  forallb EditWFNode.node_fragment ops = true -> WF st -> EditBook.rp_disjoint st ->
  (forall pre o post, ops = pre ++ o :: post -> EditWFNode.op_pre (run st pre) o) ->
  WF (run st ops).
Proof. exact EditWFNode.run_node_WF. Qed.

(* ---- sessions over the WHOLE public interface (Proofs/EditSessions.v, EditSessionsFull.v, EditSessionsAll.v):
        from a well-formed state with an empty history, EVERY state reached along ANY sequence - of any
        length - of calls of the edit machine (add / delete edge, forced or not, swap, add / delete node,
        attribute update, paint / erase stroke, undo, redo, queries, fresh ids), accepted or refused,
        satisfies the complete invariant WF.  No restriction on which calls occur.  Hypotheses: three
        configuration facts that no call changes (reg_ok: every active managed feature is registered;
        rp_decl: every active regionprops key is one the annotator declares; rp_disjoint: time / track id /
        lineage id are not regionprops keys - all true by construction of Tracks, C10_registry) and the
        documented per-call preconditions at the moment each call is made (pre_along_all: for UserAddNode
        integer time / track id, no caller-supplied lineage id, and with a segmentation a non-zero id and
        background pixels of its own frame; without a segmentation a deleted / added node has its
        position attributes; strokes, edge calls, attribute updates, undo, redo have none). ---- *)
Theorem C03_sessions : forall st0 ops,
  WF st0 -> EditSessions.reg_ok st0 -> EditBook.rp_disjoint st0 -> EditSessionsFull.rp_decl st0 ->
  undo_stack st0 = [] -> redo_stack st0 = [] -> EditSessionsAll.pre_along_all st0 ops ->
  forall pre post, ops = pre ++ post -> WF (run st0 pre).
Proof. exact EditSessionsAll.session_all_reachable_WF. Qed.

(* ---- paint / erase strokes (Proofs/EditWFPaint.v): every ACCEPTED stroke on a well-formed state yields
        a well-formed state, with no precondition on the stroke (labels and nodes stay one-to-one: nodes that
        lose all pixels are deleted, with the bridge edge; partially overwritten ones are re-measured; the
        painted label exists with exactly its pixels), and reachability over edge / node / stroke calls.
        Refused strokes included, the rolled-back one too (Proofs/EditWFPaintRollback.v): the only per-call
        precondition left is that of UserAddNode; strokes have none. ---- *)
Theorem C03_paint : forall st nv t idx T force a st',
  WF st -> EditBook.rp_disjoint st -> paint st nv t idx T force = Ok a st' -> WF st'.
Proof. exact EditWFPaint.paint_WF. Qed.

Theorem C03_run_paint_calls : forall ops st,
  forallb EditWFPaint.paint_fragment ops = true -> WF st -> EditBook.rp_disjoint st -> EditSessions.reg_ok st ->
  (forall pre o post, ops = pre ++ o :: post -> EditWFNode.op_pre (run st pre) o) ->
  WF (run st ops) /\ EditBook.rp_disjoint (run st ops) /\ EditSessions.reg_ok (run st ops).
Proof. exact EditWFPaintRollback.run_paint_WF_all. Qed.

(* ---- the seven composite user actions this property quantifies over are, in the model, the code
        translated on every run from the current user_actions/*.py (Gen/UserActions_gen.v, translator
        harness/translate_user_actions.py, fail closed): the generated definitions equal the hand-written
        ones the theorems above are about, for all arguments (UserAddNode: on states whose track lookup
        lists only nodes, which W_book implies). ---- *)
Theorem C03_user_actions_are_generated :
  (forall st u v top, FT.Gen.UserActions_gen.gen_user_delete_edge st u v top = user_delete_edge st u v top) /\
  (forall st u v force top, FT.Gen.UserActions_gen.gen_user_add_edge st u v force top = user_add_edge st u v force top) /\
  (forall st n1 n2, FT.Gen.UserActions_gen.gen_user_swap st n1 n2 = user_swap st n1 n2) /\
  (forall st n new, FT.Gen.UserActions_gen.gen_user_update_attrs st n new = user_update_attrs st n new) /\
  (forall st n px top, FT.Gen.UserActions_gen.gen_user_delete_node st n px top = user_delete_node st n px top) /\
  (forall st n a px force top, W_book st ->
     FT.Gen.UserActions_gen.gen_user_add_node st n a px force top = user_add_node st n a px force top) /\
  (forall st nv groups T force, FT.Gen.UserActions_gen.gen_user_update_seg st nv groups T force = user_update_seg st nv groups T force).
Proof.
  split; [exact FT.Proofs.UserActionsTie.gen_user_delete_edge_eq|]. split; [exact FT.Proofs.UserActionsTie.gen_user_add_edge_eq|].
  split; [exact FT.Proofs.UserActionsTie.gen_user_swap_eq|]. split; [exact FT.Proofs.UserActionsTie.gen_user_update_attrs_eq|].
  split; [exact FT.Proofs.UserActionsTie.gen_user_delete_node_eq|].
  split; [intros st n a px force top WB; exact (FT.Proofs.UserActionsTie.gen_user_add_node_eq st n a px force top (FT.Proofs.UserActionsTie.W_book_book_nodes st WB))|].
  exact FT.Proofs.UserActionsTie.gen_user_update_seg_eq.
Qed.

(* ---- ... and the start state need not be assumed well formed: for every valid RAW solution (a forward-in-time
        binary forest whose nodes carry only a time - and, without a segmentation, a position -, labels and
        nodes one-to-one, the feature table of a fresh Tracks, and the networkx oracle answers being the true
        unbranched segments / weakly connected components: raw_ok), the state constructed by enabling the core
        features with recomputation (Proofs/EditInit.v: construct, following Tracks.__init__ /
        _setup_core_computed_features) is well formed, satisfies the configuration facts and has an empty
        history; hence every session over the whole interface from it stays well formed. ---- *)
Theorem C03_sessions_from_construction : forall r0 posk ctrk clin extra ops,
  EditInit.raw_ok r0 posk ctrk clin ->
  (forall k, In k extra -> In k (Toggle.available r0)) ->
  EditSessionsAll.pre_along_all (EditInit.construct r0 ctrk clin extra) ops ->
  forall pre post, ops = pre ++ post -> WF (run (EditInit.construct r0 ctrk clin extra) pre).
Proof. exact EditInit.construct_session_WF. Qed.

(* ---- one level further down: the queries (get_track_neighbors with its in-place sort, has_track_id_at_time,
        next track / lineage id), the node-id counter, Tracks.undo / redo and the seven basic actions with their
        inverses (__init__, _apply, the annotator notifications, the track-annotator bookkeeping and relabel
        walk inlined) of the model equal the code translated on every run from data_model/solution_tracks.py,
        data_model/tracks.py, annotators/_track_annotator.py and actions/*.py (Gen/Core_gen.v; translator
        harness/translate_core.py, fail closed).  The statement is Proofs/CoreTieBundle.v: core_tie_statement.
        Not translated (hand models): the regionprops / edge annotators' update, the bulk compute paths. ---- *)
Theorem C03_core_is_generated : FT.Proofs.CoreTieBundle.core_tie_statement.
Proof. exact FT.Proofs.CoreTieBundle.core_tie. Qed.

(* ---- ... and for a graph that ARRIVES with managed features of its own (an imported or reloaded solution):
        the constructor as the code runs it (Model/EditCtor.v: construct_any, following Tracks.__init__,
        _check_existing_feature, _setup_core_computed_features and TrackAnnotator.__init__ /
        _get_max_id_and_map) fills the id lookups by a scan of whatever ids the nodes carry, then ACTIVATES
        every core feature the first node carries (values taken at face value) and COMPUTES every other one.
        If the features detected on the first node are valid on all nodes (supplied_ok: supplied track ids label
        exactly the unbranched segments, supplied lineage ids exactly the components, supplied positions /
        areas are those of the current masks; nothing is assumed about a feature the first node lacks), the
        constructed state is well formed - whatever combination of supplied and computed features - and so
        is every state of every session over the whole interface from it. Proofs/EditCtorExample.v: a
        solution with non-contiguous supplied track ids and a stale partial lineage id (accepted), and one
        whose supplied ids are invalid (raw_ok holds, supplied_ok fails, the constructed state is NOT well
        formed: the hypothesis is needed).  Tie: the constructor correspondence of every run compares
        construct_any with SolutionTracks.__init__ on every generated raw solution (harness/ctor.py). ---- *)
Theorem C03_sessions_from_any_construction : forall r0 posk ctrk clin extra ops,
  EditInit.raw_ok r0 posk ctrk clin ->
  EditCtor.supplied_ok r0 ->
  (forall k, In k extra -> In k (Toggle.available r0)) ->
  EditSessionsAll.pre_along_all (FT.Model.EditCtor.construct_any r0 ctrk clin extra) ops ->
  forall pre post, ops = pre ++ post -> WF (run (FT.Model.EditCtor.construct_any r0 ctrk clin extra) pre).
Proof. exact EditCtor.construct_any_session_WF. Qed.

Example C03_nonvacuous :
  (* 6 cannot be a child of 1 (third child) but 4 -> 6 is fine; 2 -> 5 is a merge: refused (forceable), forced it cuts 3 -> 5 *)
  fst (snd (step fx (OAddEdge 1 6 false))) = 10 /\
  fst (snd (step fx (OAddEdge 4 6 false))) = 0 /\
  fst (snd (step fx (OAddEdge 2 5 false))) = 11 /\
  fst (snd (step fx (OAddEdge 2 5 true))) = 0 /\
  fst (snd (step fx (OAddEdge 4 5 true))) = 0 /\
  all_edges (fst (step fx (OAddEdge 4 5 true))) = [(1, 2); (1, 3); (2, 4); (4, 5)] /\
  fst (snd (step fx (OAddEdge 5 4 false))) = 10.
Proof. vm_compute. repeat split. Qed.

Print Assumptions C03_delete_edge.
Print Assumptions C03_add_edge.
Print Assumptions C03_add_edge_refusals.
Print Assumptions C03_update_track_ids.
Print Assumptions C03_swap.
Print Assumptions C03_swap_accepted_iff.
Print Assumptions C03_delete_node.
Print Assumptions C03_delete_node_accepted_iff.
Print Assumptions C03_add_node.
Print Assumptions C03_add_node_accepted_iff.
Print Assumptions C03_run_edge_calls.
Print Assumptions C03_history_is_generated.
Print Assumptions C03_run_node_calls.
Print Assumptions C03_sessions.
Print Assumptions C03_paint.
Print Assumptions C03_run_paint_calls.
Print Assumptions C03_user_actions_are_generated.
Print Assumptions C03_sessions_from_construction.
Print Assumptions C03_core_is_generated.
Print Assumptions C03_sessions_from_any_construction.
