(* Property C07 - Segmentation labels and nodes stay in one-to-one correspondence.
   This file holds only the property theorems (each closed by [exact] of a lemma of
   Proofs/EditSeg.v), non-vacuity examples on a concrete state, and Print Assumptions.

   Vocabulary (Model/Edit.v, Proofs/EditInv.v, Proofs/EditSeg.v):
     seg st = Some sg        the label array: a list of frames, each a flat list of pixel labels
     label_at sg t i         label of flat pixel i (a nat) of frame t (0 beyond the frame)
     mask_of sg t n          np.nonzero(seg[t] == n): the flat indices (as Z) carrying label n in frame t
     same_shape a b          same number of frames and same frame sizes
     W_seg st                (1) every node has a pixel, in an existing frame, namely its own time frame,
                             (2) every non-zero label of an existing frame is a node living in that frame,
                             (3) 0 is not a node
     hits sg t idx           idx contains an in-range pixel of frame t
     keeps_pixel sg t idx tm m   label m has, in frame tm, an in-range pixel outside (t, idx)
     pre_write st sg t idx ex    what W_seg says about everything but the pixels (t, idx): nodes are
                             non-zero and live in existing frames; every node not exempted by [ex] keeps a
                             pixel outside (t, idx); every non-zero label outside (t, idx) is a node in its
                             own frame.  (W_seg st implies it whenever (t, idx) covers only background and
                             exempted labels: Theorem C07_pre_write_of_W_seg.)
   The basic-level theorems come in a general form (hypothesis pre_write: this is what holds in the
   middle of a paint stroke, when the caller has already painted the array) and in the documented
   stand-alone form (hypothesis W_seg). *)
From Coq Require Import ZArith List Bool Sorted.
From FT Require Import Base.Dict Model.Edit Model.EditExec Proofs.EditInv Proofs.EditSeg Proofs.EditSegUndo Proofs.EditFresh Proofs.EditSegExample.
From FT Require Proofs.EditWFEdge.
From FT Require Gen.History_gen Proofs.HistoryGen Props.C02.
From FT Require Proofs.EditBook Proofs.EditWFNode.
From FT Require Proofs.EditSessions Proofs.EditSessionsFull Proofs.EditSessionsAll Proofs.EditWFPaint Proofs.EditWFPaintRollback.
From FT Require Gen.UserActions_gen Proofs.UserActionsTie.
From FT Require Model.Toggle Proofs.EditInit.
From FT Require Proofs.CoreTieBundle.
From FT Require Proofs.EditWFEdge Proofs.EditWFNodeExample.
From FT Require Model.EditCtor Proofs.EditCtor.
From FT Require Gen.Accessors_gen Proofs.AccessorsTie.
From FT Require Proofs.EditSegNone Proofs.EditSegShape Proofs.EditSessionsToggle Proofs.EditSegNoneToggle.
Import ListNotations.
Open Scope Z_scope.

(* ---------- A. the array primitives ---------- *)

(* tracks.set_pixels((t, idx), v): exactly the in-range pixels idx of frame t become v, the shape stays,
   nothing else of the state changes *)
Theorem C07_set_pixels : forall st t idx v s sg,
  set_pixels st (t, idx) v = Ok tt s -> seg st = Some sg ->
  frame_ok sg t = true /\ g s = g st /\ ft s = ft st /\
  exists sg', seg s = Some sg' /\ same_shape sg' sg /\
    forall t' i, 0 <= t' ->
      label_at sg' t' i = if (t' =? t) && memz (Z.of_nat i) idx && (i <? length (frame_of sg t))%nat then v else label_at sg t' i.
Proof. exact set_pixels_spec. Qed.

(* the mask of label n in frame t: exactly the in-range indices carrying n, strictly increasing *)
Theorem C07_mask_of : forall sg t n,
  (forall p, In p (mask_of sg t n) <-> 0 <= p < Z.of_nat (length (frame_of sg t)) /\ label_at sg t (Z.to_nat p) = n) /\
  StronglySorted Z.lt (mask_of sg t n) /\ NoDup (mask_of sg t n).
Proof. exact mask_of_spec. Qed.

(* tracks.get_pixels(node) returns the node's time frame and exactly the pixels carrying its label there *)
Theorem C07_pixels : forall st sg n t m,
  seg st = Some sg -> get_pixels st n = Some (t, m) ->
  t = time_of st n /\ NoDup m /\ StronglySorted Z.lt m /\
  forall p, In p m <-> 0 <= p < Z.of_nat (length (frame_of sg t)) /\ label_at sg t (Z.to_nat p) = n.
Proof. exact pixels_exact. Qed.

(* ---------- B. W_seg, basic action by basic action ---------- *)

Theorem C07_pre_write_of_W_seg : forall st sg t idx (ex : Z -> Prop),
  seg st = Some sg -> W_seg st ->
  (forall i, (i < length (frame_of sg t))%nat -> In (Z.of_nat i) idx -> label_at sg t i = 0 \/ ex (label_at sg t i)) ->
  pre_write st sg t idx ex.
Proof. exact W_seg_pre_write. Qed.

(* AddNode(n, attrs, pixels = (t, idx)), documented use: a new non-zero id, its time attribute is the
   frame painted, the pixels were background *)
Theorem C07_W_seg_add_node : forall st n a t idx b st' sg,
  do_add_node st n a (Some (t, idx)) = Ok b st' -> seg st = Some sg -> W_seg st ->
  ~ is_node st n -> n <> 0 ->
  NoDup (keys a) -> lookup KTime a = Some (VZ t) -> ~ In KTime (rp_act (ft st)) ->
  hits sg t idx ->
  (forall i, (i < length (frame_of sg t))%nat -> In (Z.of_nat i) idx -> label_at sg t i = 0) ->
  W_seg st'.
Proof. exact W_seg_add_node. Qed.

(* general form (the pixels may already carry the new label, as in a paint stroke) *)
Theorem C07_W_seg_add_node_gen : forall st n a t idx b st' sg,
  do_add_node st n a (Some (t, idx)) = Ok b st' -> seg st = Some sg ->
  ~ is_node st n -> n <> 0 ->
  NoDup (keys a) -> lookup KTime a = Some (VZ t) -> ~ In KTime (rp_act (ft st)) ->
  hits sg t idx ->
  pre_write st sg t idx (fun _ => False) ->
  W_seg st'.
Proof. exact W_seg_add_node_gen. Qed.

(* DeleteNode(n) without pixels: the node's own mask is cleared *)
Theorem C07_W_seg_del_node : forall st n b st',
  do_del_node st n None = Ok b st' -> W_seg st -> W_seg st'.
Proof. exact W_seg_del_node. Qed.

(* DeleteNode(n, pixels = (t, idx)), as UserUpdateSegmentation calls it: label n no longer occurs
   outside the given pixels *)
Theorem C07_W_seg_del_node_px : forall st n t idx b st' sg,
  do_del_node st n (Some (t, idx)) = Ok b st' -> seg st = Some sg ->
  pre_write st sg t idx (eq n) ->
  (forall t' i, frame_ok sg t' = true -> label_at sg t' i = n -> t' = t /\ In (Z.of_nat i) idx) ->
  W_seg st'.
Proof. exact W_seg_del_node_gen. Qed.

(* UpdateNodeSeg(n, pixels, added = True): grow inside the node's own frame, over background *)
Theorem C07_W_seg_upd_seg_grow : forall st n idx b st' sg,
  do_upd_seg st n (time_of st n, idx) true = Ok b st' -> seg st = Some sg -> W_seg st ->
  ~ In KTime (rp_act (ft st)) -> is_node st n ->
  (forall i, (i < length (frame_of sg (time_of st n)))%nat -> In (Z.of_nat i) idx ->
     label_at sg (time_of st n) i = 0 \/ label_at sg (time_of st n) i = n) ->
  W_seg st'.
Proof. exact W_seg_upd_seg_grow. Qed.

(* UpdateNodeSeg(n, pixels, added = False): shrink by pixels of the node, at least one pixel remains *)
Theorem C07_W_seg_upd_seg_shrink : forall st n t idx b st' sg,
  do_upd_seg st n (t, idx) false = Ok b st' -> seg st = Some sg -> W_seg st ->
  ~ In KTime (rp_act (ft st)) -> is_node st n ->
  (forall i, (i < length (frame_of sg t))%nat -> In (Z.of_nat i) idx -> label_at sg t i = n) ->
  keeps_pixel sg t idx (time_of st n) n ->
  W_seg st'.
Proof. exact W_seg_upd_seg_shrink. Qed.

(* general form of both *)
Theorem C07_W_seg_upd_seg_gen : forall st n t idx added b st' sg,
  do_upd_seg st n (t, idx) added = Ok b st' -> seg st = Some sg ->
  ~ In KTime (rp_act (ft st)) ->
  pre_write st sg t idx (fun m => added = true /\ m = n) ->
  (added = true -> is_node st n /\ time_of st n = t /\ (keeps_pixel sg t idx t n \/ hits sg t idx)) ->
  W_seg st'.
Proof. exact W_seg_upd_seg_gen. Qed.

(* the basic actions that do not write the array *)
Theorem C07_W_seg_add_edge : forall st u v a b st', do_add_edge st u v a = Ok b st' -> W_seg st -> W_seg st'.
Proof. exact W_seg_add_edge. Qed.
Theorem C07_W_seg_del_edge : forall st u v b st', do_del_edge st u v = Ok b st' -> W_seg st -> W_seg st'.
Proof. exact W_seg_del_edge. Qed.
Theorem C07_W_seg_upd_attrs : forall st n new b st', do_upd_attrs st n new = Ok b st' -> W_seg st -> W_seg st'.
Proof. exact W_seg_upd_attrs. Qed.
Theorem C07_W_seg_upd_track : forall st start newT newL b st',
  do_upd_track st start newT newL = Ok b st' -> W_seg st -> W_seg st'.
Proof. exact W_seg_upd_track. Qed.

(* ---------- C. the paint / erase stroke ---------- *)

(* [paint st nv t idx T force]: the caller paints value nv over pixels idx of frame t and calls
   UserUpdateSegmentation.  If the stroke succeeds - whatever nodes were deleted, shrunk, grown or
   added on the way - the array is exactly the painted one.  No hypothesis on st. *)
Theorem C07_paint_exact : forall st nv t idx T force a st' sg,
  paint st nv t idx T force = Ok a st' -> seg st = Some sg ->
  frame_ok sg t = true /\
  exists sg', seg st' = Some sg' /\ same_shape sg' sg /\
    forall t' i, 0 <= t' ->
      label_at sg' t' i = if (t' =? t) && memz (Z.of_nat i) idx && (i <? length (frame_of sg t))%nat then nv else label_at sg t' i.
Proof. exact paint_exact. Qed.

(* If the stroke raises - at the first checks, in the middle of the sub-actions, or after the rollback
   of a refused forceable action - the array is the previous one, bit for bit.  No hypothesis on st. *)
Theorem C07_paint_error_restores : forall st nv t idx T force e st' sg,
  paint st nv t idx T force = Err e st' -> seg st = Some sg -> seg st' = Some sg.
Proof. exact paint_error_restores. Qed.

(* Undoing a successful stroke (Tracks.undo right after it) succeeds and restores the previous array,
   bit for bit - whichever nodes the stroke deleted, shrank, grew or added.  Hypotheses: the labels were
   in correspondence before the stroke (W_seg; needed only when the stroke creates a new node: its label
   must not already occur in the frame), and "time" is not a regionprops key. *)
Theorem C07_paint_undo : forall st nv t idx T force a st1 sg r st2,
  paint st nv t idx T force = Ok a st1 -> seg st = Some sg ->
  W_seg st -> ~ In KTime (rp_act (ft st)) ->
  undo st1 = Ok r st2 ->
  r = true /\ seg st2 = Some sg.
Proof. exact paint_undo. Qed.

(* ---------- non-vacuity ---------- *)
(* ex0 (Proofs/EditSegExample.v): frames  1 1 / 0 0 ,  2 2 / 3 0 ,  0 4 / 4 0 ; node 1 (t=0) divides into
   2 and 3 (t=1), 2 continues to 4 (t=2); regionprops keys pos, area active; IoU active *)
(* ---- every state reachable by edge-level calls (add / delete edge with and without force, swap,
        queries, fresh ids) from a well-formed state is well formed: WF includes W_seg (labels and
        nodes in one-to-one correspondence) and W_fresh (every active regionprops feature is the value
        of the current mask, every IoU the overlap of the current masks).  Induction over the call
        list, no bound on its length. ---- *)
Theorem C07_run_edge_calls : forall ops st,
  forallb EditWFEdge.edge_fragment ops = true -> WF st -> WF (run st ops).
Proof. exact EditWFEdge.run_edge_WF. Qed.

(* ---- undo / redo: the history mechanism this property quantifies over (Tracks.undo / redo,
        ActionHistory) is, in the model, the code translated on every run from the current
        actions/action_history.py (Gen/History_gen.v); C02_timeline states what it guarantees ---- *)
Theorem C07_history_is_generated : forall st a dA,
  (let h := fst (FT.Gen.History_gen.add_new_action state action (FT.Proofs.HistoryGen.to_hist st) a st) in
   undo_stack (hist_add st a) = FT.Gen.History_gen.undo_stack _ _ h /\ redo_stack (hist_add st a) = FT.Gen.History_gen.redo_stack _ _ h) /\
  (let gr := FT.Gen.History_gen.undo state action FT.Proofs.HistoryGen.inv_total dA (FT.Proofs.HistoryGen.to_hist st) in
   match undo st with
   | Ok b s' => snd gr = b /\ undo_stack s' = FT.Gen.History_gen.undo_stack _ _ (fst gr) /\ redo_stack s' = FT.Gen.History_gen.redo_stack _ _ (fst gr)
   | Err _ _ => True
   end).
Proof. exact FT.Props.C02.C02_edit_machine_uses_generated. Qed.

(* ---- the same with the node calls: every state reachable from a well-formed state by any sequence, of
        any length, of UserAddNode / UserDeleteNode / edge-level calls (accepted or refused) satisfies the
        complete invariant WF, provided each UserAddNode respects its documented preconditions at the moment
        it is made (op_pre: integer time / track id, no caller-supplied lineage id, and - with a
        segmentation - a non-zero id and pixels of the node's own frame that are background; the three
        accepted-but-invariant-breaking calls of Proofs/EditWFNodeExample.v show each part is needed) ---- *)
Theorem C07_run_node_calls : forall ops st,
  forallb EditWFNode.node_fragment ops = true -> WF st -> EditBook.rp_disjoint st ->
  (forall pre o post, ops = pre ++ o :: post -> EditWFNode.op_pre (run st pre) o) ->
  WF (run st ops).
Proof. exact EditWFNode.run_node_WF. Qed.

(* ---- sessions over the WHOLE public interface (Proofs/EditSessions.v, EditSessionsFull.v, EditSessionsAll.v):
        from a well-formed state with an empty history, EVERY state reached along ANY sequence - of any
        length - of calls of the edit machine (add / delete edge, forced or not, swap, add / delete node,
        attribute update, paint / erase stroke, undo, redo, queries, fresh ids), accepted or refused,
        satisfies the complete invariant WF.  No restriction on which calls occur.  Hypotheses: three
        configuration facts that no call changes (reg_ok: every active managed feature is registered;
        rp_decl: every active regionprops key is one the annotator declares; rp_disjoint: time / track id /
        lineage id are not regionprops keys - all true by construction of Tracks, C10_registry) and the
        documented per-call preconditions at the moment each call is made (pre_along_all: for UserAddNode
        integer time / track id, no caller-supplied lineage id, and with a segmentation a non-zero id and
        background pixels of its own frame; without a segmentation a deleted / added node has its
        position attributes; strokes, edge calls, attribute updates, undo, redo have none). ---- *)
Theorem C07_sessions : forall st0 ops,
  WF st0 -> EditSessions.reg_ok st0 -> EditBook.rp_disjoint st0 -> EditSessionsFull.rp_decl st0 ->
  undo_stack st0 = [] -> redo_stack st0 = [] -> EditSessionsAll.pre_along_all st0 ops ->
  forall pre post, ops = pre ++ post -> WF (run st0 pre).
Proof. exact EditSessionsAll.session_all_reachable_WF. Qed.

(* ---- paint / erase strokes (Proofs/EditWFPaint.v): every ACCEPTED stroke on a well-formed state yields
        a well-formed state, with no precondition on the stroke (labels and nodes stay one-to-one: nodes that
        lose all pixels are deleted, with the bridge edge; partially overwritten ones are re-measured; the
        painted label exists with exactly its pixels), and reachability over edge / node / stroke calls.
        Refused strokes included, the rolled-back one too (Proofs/EditWFPaintRollback.v): the only per-call
        precondition left is that of UserAddNode; strokes have none. ---- *)
Theorem C07_paint : forall st nv t idx T force a st',
  WF st -> EditBook.rp_disjoint st -> paint st nv t idx T force = Ok a st' -> WF st'.
Proof. exact EditWFPaint.paint_WF. Qed.

Theorem C07_run_paint_calls : forall ops st,
  forallb EditWFPaint.paint_fragment ops = true -> WF st -> EditBook.rp_disjoint st -> EditSessions.reg_ok st ->
  (forall pre o post, ops = pre ++ o :: post -> EditWFNode.op_pre (run st pre) o) ->
  WF (run st ops) /\ EditBook.rp_disjoint (run st ops) /\ EditSessions.reg_ok (run st ops).
Proof. exact EditWFPaintRollback.run_paint_WF_all. Qed.

(* ---- the seven composite user actions this property quantifies over are, in the model, the code
        translated on every run from the current user_actions/*.py (Gen/UserActions_gen.v, translator
        harness/translate_user_actions.py, fail closed): the generated definitions equal the hand-written
        ones the theorems above are about, for all arguments (UserAddNode: on states whose track lookup
        lists only nodes, which W_book implies). ---- *)
Theorem C07_user_actions_are_generated :
  (forall st u v top, FT.Gen.UserActions_gen.gen_user_delete_edge st u v top = user_delete_edge st u v top) /\
  (forall st u v force top, FT.Gen.UserActions_gen.gen_user_add_edge st u v force top = user_add_edge st u v force top) /\
  (forall st n1 n2, FT.Gen.UserActions_gen.gen_user_swap st n1 n2 = user_swap st n1 n2) /\
  (forall st n new, FT.Gen.UserActions_gen.gen_user_update_attrs st n new = user_update_attrs st n new) /\
  (forall st n px top, FT.Gen.UserActions_gen.gen_user_delete_node st n px top = user_delete_node st n px top) /\
  (forall st n a px force top, W_book st ->
     FT.Gen.UserActions_gen.gen_user_add_node st n a px force top = user_add_node st n a px force top) /\
  (forall st nv groups T force, FT.Gen.UserActions_gen.gen_user_update_seg st nv groups T force = user_update_seg st nv groups T force).
Proof.
  split; [exact FT.Proofs.UserActionsTie.gen_user_delete_edge_eq|]. split; [exact FT.Proofs.UserActionsTie.gen_user_add_edge_eq|].
  split; [exact FT.Proofs.UserActionsTie.gen_user_swap_eq|]. split; [exact FT.Proofs.UserActionsTie.gen_user_update_attrs_eq|].
  split; [exact FT.Proofs.UserActionsTie.gen_user_delete_node_eq|].
  split; [intros st n a px force top WB; exact (FT.Proofs.UserActionsTie.gen_user_add_node_eq st n a px force top (FT.Proofs.UserActionsTie.W_book_book_nodes st WB))|].
  exact FT.Proofs.UserActionsTie.gen_user_update_seg_eq.
Qed.

(* ---- ... and the start state need not be assumed well formed: for every valid RAW solution (a forward-in-time
        binary forest whose nodes carry only a time - and, without a segmentation, a position -, labels and
        nodes one-to-one, the feature table of a fresh Tracks, and the networkx oracle answers being the true
        unbranched segments / weakly connected components: raw_ok), the state constructed by enabling the core
        features with recomputation (Proofs/EditInit.v: construct, following Tracks.__init__ /
        _setup_core_computed_features) is well formed, satisfies the configuration facts and has an empty
        history; hence every session over the whole interface from it stays well formed. ---- *)
Theorem C07_sessions_from_construction : forall r0 posk ctrk clin extra ops,
  EditInit.raw_ok r0 posk ctrk clin ->
  (forall k, In k extra -> In k (Toggle.available r0)) ->
  EditSessionsAll.pre_along_all (EditInit.construct r0 ctrk clin extra) ops ->
  forall pre post, ops = pre ++ post -> WF (run (EditInit.construct r0 ctrk clin extra) pre).
Proof. exact EditInit.construct_session_WF. Qed.

(* ---- one level further down: the queries (get_track_neighbors with its in-place sort, has_track_id_at_time,
        next track / lineage id), the node-id counter, Tracks.undo / redo and the seven basic actions with their
        inverses (__init__, _apply, the annotator notifications, the track-annotator bookkeeping and relabel
        walk inlined) of the model equal the code translated on every run from data_model/solution_tracks.py,
        data_model/tracks.py, annotators/_track_annotator.py and actions/*.py (Gen/Core_gen.v; translator
        harness/translate_core.py, fail closed).  The statement is Proofs/CoreTieBundle.v: core_tie_statement.
        Not translated (hand models): the regionprops / edge annotators' update, the bulk compute paths. ---- *)
Theorem C07_core_is_generated : FT.Proofs.CoreTieBundle.core_tie_statement.
Proof. exact FT.Proofs.CoreTieBundle.core_tie. Qed.

(* ---- known finding F-07b, as machine-checked refutations on the faithful model (Proofs/EditWFNodeExample.v): a
        DIRECT UserAddNode outside its documented preconditions (op_pre) is ACCEPTED (code 0) on a well-formed
        state and breaks the label / node correspondence: (a) pixels covering another node's mask, (b) no pixels
        on tracks with a segmentation, (c) pixels in a frame other than the time attribute.  The implementation
        checks none of the three (witnesses F-07b-* reproduce them on it); every other theorem of this file
        carries op_pre for UserAddNode. ---- *)
Theorem C07_direct_add_node_refuted :
  exists st0, WF st0 /\
  (exists o, ~ EditWFNode.op_pre st0 o /\ snd (step st0 o) = (0, []) /\ ~ W_seg (fst (step st0 o))) /\
  (exists o, ~ EditWFNode.op_pre st0 o /\ snd (step st0 o) = (0, []) /\ ~ W_seg (fst (step st0 o)) /\
             o = EditWFNodeExample.bad_b) /\
  (exists o, ~ EditWFNode.op_pre st0 o /\ snd (step st0 o) = (0, []) /\ ~ W_seg (fst (step st0 o)) /\
             o = EditWFNodeExample.bad_c).
Proof.
  exists EditWFEdge.exs.
  destruct EditWFNodeExample.uan_overwrite_breaks_W_seg as (W & A1 & A2 & A3).
  destruct EditWFNodeExample.uan_no_pixels_breaks_W_seg as (B1 & B2 & B3).
  destruct EditWFNodeExample.uan_wrong_frame_breaks_W_seg as (C1 & C2 & C3).
  split; [exact W|]. split; [exists EditWFNodeExample.bad_a; auto|].
  split; [exists EditWFNodeExample.bad_b; auto|exists EditWFNodeExample.bad_c; auto].
Qed.

(* ---- ... and for a graph that ARRIVES with managed features of its own (an imported or reloaded solution):
        the constructor as the code runs it (Model/EditCtor.v: construct_any, following Tracks.__init__,
        _check_existing_feature, _setup_core_computed_features and TrackAnnotator.__init__ /
        _get_max_id_and_map) fills the id lookups by a scan of whatever ids the nodes carry, then ACTIVATES
        every core feature the first node carries (values taken at face value) and COMPUTES every other one.
        If the features detected on the first node are valid on all nodes (supplied_ok: supplied track ids label
        exactly the unbranched segments, supplied lineage ids exactly the components, supplied positions /
        areas are those of the current masks; nothing is assumed about a feature the first node lacks), the
        constructed state is well formed - whatever combination of supplied and computed features - and so
        is every state of every session over the whole interface from it. Proofs/EditCtorExample.v: a
        solution with non-contiguous supplied track ids and a stale partial lineage id (accepted), and one
        whose supplied ids are invalid (raw_ok holds, supplied_ok fails, the constructed state is NOT well
        formed: the hypothesis is needed).  Tie: the constructor correspondence of every run compares
        construct_any with SolutionTracks.__init__ on every generated raw solution (harness/ctor.py). ---- *)
Theorem C07_sessions_from_any_construction : forall r0 posk ctrk clin extra ops,
  EditInit.raw_ok r0 posk ctrk clin ->
  EditCtor.supplied_ok r0 ->
  (forall k, In k extra -> In k (Toggle.available r0)) ->
  EditSessionsAll.pre_along_all (FT.Model.EditCtor.construct_any r0 ctrk clin extra) ops ->
  forall pre post, ops = pre ++ post -> WF (run (FT.Model.EditCtor.construct_any r0 ctrk clin extra) pre).
Proof. exact EditCtor.construct_any_session_WF. Qed.

(* ---- the array and attribute accessors under every translated method are themselves generated: Tracks.get_pixels,
        set_pixels, get_time, get_times, get_node_attr, get_nodes_attr, _set_node_attr, _set_nodes_attr of the model
        (Model/Edit.v: get_pixels, set_pixels, time_of, attr / zattr, set_node_attr; the primitives the other
        translators take for granted) equal, on the stated domains, the code translated on every run from
        data_model/tracks.py (Gen/Accessors_gen.v; translator harness/translate_accessors.py, fail closed: a decorator
        such as lru_cache, an override in SolutionTracks, a property named segmentation are refused).  Domains:
        get_pixels - no array, or the node's time is an integer and its frame exists (a missing node / frame raises
        in Python, the model is total there); set_pixels - no array, or the frame exists and every index lies inside
        the frame; whatever get_pixels returns lies inside that domain (gen_set_pixels_of_get_pixels).  Not
        translated: get_position(s) and the set_time / set_position family. ---- *)
Theorem C07_accessors_are_generated : FT.Proofs.AccessorsTie.accessors_tie_statement.
Proof. exact FT.Proofs.AccessorsTie.accessors_tie. Qed.

(* ---- tracks without a label array never acquire one: along EVERY session - edits of the whole public
        interface accepted or refused, undo, redo, queries, and feature switching with or without
        recomputation, in any order and number - seg stays None; no hypothesis on the start state beyond
        seg = None (Proofs/EditSegNone.v: the seven primitives, inv_action, every composite user action;
        Proofs/EditSegNoneToggle.v: enable / disable leave the array field untouched whatever they return).
        So the array-dependent clauses of C07 are vacuous exactly for the tracks they should be vacuous for,
        and a stroke on such tracks is refused with the state unchanged. ---- *)
Theorem C07_no_array_stays_none : forall ops st, seg st = None -> seg (run st ops) = None.
Proof. exact FT.Proofs.EditSegNone.run_seg_none. Qed.
Theorem C07_no_array_stays_none_switching : forall ops st, seg st = None ->
  seg (FT.Proofs.EditSessionsToggle.run2 st ops) = None.
Proof. exact FT.Proofs.EditSegNoneToggle.run2_seg_none. Qed.
(* ---- and an array that is there keeps its shape: along every such session the array is never dropped and
        keeps its number of frames and the size of every frame, whatever the calls return (strokes that raise
        and are rolled back included; Proofs/EditSegShape.v) ---- *)
Theorem C07_sessions_keep_array_shape : forall ops st sg, seg st = Some sg ->
  exists sg', seg (run st ops) = Some sg' /\ same_shape sg' sg.
Proof. exact FT.Proofs.EditSegShape.run_keeps_array_shape. Qed.
Theorem C07_sessions_keep_array_shape_switching : forall ops st sg, seg st = Some sg ->
  exists sg', seg (FT.Proofs.EditSessionsToggle.run2 st ops) = Some sg' /\ same_shape sg' sg.
Proof. exact FT.Proofs.EditSegNoneToggle.run2_keeps_array_shape. Qed.
Example C07_no_array_nonvacuous :
  seg (FT.Model.Edit.upd_seg ex0 None) = None /\
  fst (snd (step (FT.Model.Edit.upd_seg ex0 None) (OPaint 5 2 [0; 1] 9 false))) <> 0 /\
  seg (run (FT.Model.Edit.upd_seg ex0 None) [ODelEdge 1 2; OPaint 5 2 [0; 1] 9 false; OUndo; ORedo]) = None.
Proof. vm_compute. repeat split; congruence. Qed.

Example C07_ex0_W_seg : seg ex0 = Some sg0 /\ W_seg ex0 /\ ~ In KTime (rp_act (ft ex0)).
Proof. split; [reflexivity|split; [exact ex0_W_seg|exact (proj1 ex0_cfg)]]. Qed.

Definition show (r : state * (Z * list Z)) : Z * option (list (list Z)) * list Z := (fst (snd r), seg (fst r), keys (nodes (g (fst r)))).

(* a new label 5 painted in frame 2 over a background pixel and a pixel of node 4: node 4 shrinks, node 5
   is added; undo restores array and node set *)
Example C07_ex0_paint_new :
  let s1 := fst (step ex0 (OPaint 5 2 [0;1] 9 false)) in
  show (step ex0 (OPaint 5 2 [0;1] 9 false)) = (0, Some [[1;1;0;0]; [2;2;3;0]; [5;5;4;0]], [1;2;3;4;5]) /\
  show (step s1 OUndo) = (1, Some sg0, [1;2;3;4]) /\
  get_pixels s1 5 = Some (2, [0;1]) /\ get_pixels s1 4 = Some (2, [2]).
Proof. vm_compute. repeat split; reflexivity. Qed.

(* erasing all of node 3 deletes it; undo brings node and pixels back *)
Example C07_ex0_erase :
  let s1 := fst (step ex0 (OPaint 0 1 [2] 9 false)) in
  show (step ex0 (OPaint 0 1 [2] 9 false)) = (0, Some [[1;1;0;0]; [2;2;0;0]; [0;4;4;0]], [1;2;4]) /\
  show (step s1 OUndo) = (1, Some sg0, [1;2;4;3]).
Proof. vm_compute. split; reflexivity. Qed.

(* painting with the existing label 2 over node 3 and background: 3 is deleted, 2 grows *)
Example C07_ex0_paint_existing :
  let s1 := fst (step ex0 (OPaint 2 1 [2;3] 9 false)) in
  show (step ex0 (OPaint 2 1 [2;3] 9 false)) = (0, Some [[1;1;0;0]; [2;2;2;2]; [0;4;4;0]], [1;2;4]) /\
  show (step s1 OUndo) = (1, Some sg0, [1;2;4;3]).
Proof. vm_compute. split; reflexivity. Qed.

(* three refused strokes: label 1 lives in frame 0 (InvalidActionError, code 10); splicing node 5 into
   track 1 below the dividing node 1 needs force (code 11, raised after node 2 was already shrunk: the
   sub-actions are rolled back); frame 7 does not exist (IndexError, code 16).  The array is untouched. *)
Example C07_ex0_refused :
  show (step ex0 (OPaint 1 1 [3] 9 false)) = (10, Some sg0, [1;2;3;4]) /\
  show (step ex0 (OPaint 5 1 [1;3] 1 false)) = (11, Some sg0, [1;2;3;4]) /\
  show (step ex0 (OPaint 5 7 [0] 2 true)) = (16, Some sg0, [1;2;3;4]) /\
  show (step ex0 (OPaint 5 1 [1;3] 1 true)) = (0, Some [[1;1;0;0]; [2;5;3;5]; [0;4;4;0]], [1;2;3;4;5]).
Proof. vm_compute. repeat split; reflexivity. Qed.

(* W_seg cannot be dropped from C07_paint_undo: with a stray label 5 (no node) in frame 2, painting 5 creates
   node 5 whose mask includes the stray pixel; undo deletes the node together with all its pixels *)
Example C07_undo_needs_W_seg :
  let exS := upd_seg ex0 (Some [[1;1;0;0]; [2;2;3;0]; [0;4;4;5]]) in
  let s1 := fst (step exS (OPaint 5 2 [0] 9 false)) in
  show (step exS (OPaint 5 2 [0] 9 false)) = (0, Some [[1;1;0;0]; [2;2;3;0]; [5;4;4;5]], [1;2;3;4;5]) /\
  show (step s1 OUndo) = (1, Some [[1;1;0;0]; [2;2;3;0]; [0;4;4;0]], [1;2;3;4]).
Proof. vm_compute. split; reflexivity. Qed.

(* the hypotheses of the stand-alone basic-level theorems are satisfiable on ex0 *)
Example C07_ex0_basic :
  (exists b s, do_add_node ex0 5 [(KTime, VZ 2); (KTrack, VZ 9)] (Some (2, [0;3])) = Ok b s /\
     ~ is_node ex0 5 /\ hits sg0 2 [0;3] /\
     (forall i, (i < length (frame_of sg0 2))%nat -> In (Z.of_nat i) [0;3] -> label_at sg0 2 i = 0) /\
     seg s = Some [[1;1;0;0]; [2;2;3;0]; [5;4;4;5]]) /\
  (exists b s, do_del_node ex0 3 None = Ok b s /\ seg s = Some [[1;1;0;0]; [2;2;0;0]; [0;4;4;0]]) /\
  (exists b s, do_upd_seg ex0 4 (2, [1]) false = Ok b s /\ keeps_pixel sg0 2 [1] (time_of ex0 4) 4 /\
     seg s = Some [[1;1;0;0]; [2;2;3;0]; [0;0;4;0]]) /\
  (exists b s, do_upd_seg ex0 4 (time_of ex0 4, [0;1]) true = Ok b s /\ seg s = Some [[1;1;0;0]; [2;2;3;0]; [4;4;4;0]]).
Proof.
  split; [|split; [|split]].
  - eexists; eexists. split; [vm_compute; reflexivity|]. split; [intros H; apply ex0_nodes in H; intuition discriminate|].
    split; [exists 0%nat; split; [vm_compute; auto|now left]|]. split; [|reflexivity].
    intros i Hi [H|[H|[]]]; [replace i with 0%nat by (apply Nat2Z.inj; now rewrite <- H)|replace i with 3%nat by (apply Nat2Z.inj; now rewrite <- H)]; reflexivity.
  - eexists; eexists. split; [vm_compute; reflexivity|reflexivity].
  - eexists; eexists. split; [vm_compute; reflexivity|]. split; [|reflexivity].
    exists 2%nat. split; [vm_compute; auto|]. split; [reflexivity|]. intros [_ [H|[]]]. discriminate.
  - eexists; eexists. split; [vm_compute; reflexivity|reflexivity].
Qed.

Print Assumptions C07_set_pixels.
Print Assumptions C07_mask_of.
Print Assumptions C07_pixels.
Print Assumptions C07_pre_write_of_W_seg.
Print Assumptions C07_W_seg_add_node.
Print Assumptions C07_W_seg_add_node_gen.
Print Assumptions C07_W_seg_del_node.
Print Assumptions C07_W_seg_del_node_px.
Print Assumptions C07_W_seg_upd_seg_grow.
Print Assumptions C07_W_seg_upd_seg_shrink.
Print Assumptions C07_W_seg_upd_seg_gen.
Print Assumptions C07_W_seg_add_edge.
Print Assumptions C07_W_seg_del_edge.
Print Assumptions C07_W_seg_upd_attrs.
Print Assumptions C07_W_seg_upd_track.
Print Assumptions C07_paint_exact.
Print Assumptions C07_paint_error_restores.
Print Assumptions C07_paint_undo.
Print Assumptions C07_run_edge_calls.
Print Assumptions C07_history_is_generated.
Print Assumptions C07_run_node_calls.
Print Assumptions C07_sessions.
Print Assumptions C07_paint.
Print Assumptions C07_run_paint_calls.
Print Assumptions C07_user_actions_are_generated.
Print Assumptions C07_sessions_from_construction.
Print Assumptions C07_core_is_generated.
Print Assumptions C07_direct_add_node_refuted.
Print Assumptions C07_sessions_from_any_construction.
Print Assumptions C07_accessors_are_generated.
Print Assumptions C07_no_array_stays_none.
Print Assumptions C07_no_array_stays_none_switching.
Print Assumptions C07_sessions_keep_array_shape.
Print Assumptions C07_sessions_keep_array_shape_switching.
