(* Property C10 - Feature switching is history-independent; managed features are protected.
   This file holds only the property theorems (each closed by [exact] of a lemma of
   Proofs/ToggleProofs.v), non-vacuity examples on a concrete state, and Print Assumptions.

   Vocabulary (Model/Edit.v, Model/Toggle.v, Model/ToggleExec.v, Proofs/EditInv.v, Proofs/EditSeg.v,
   Proofs/EditFresh.v, Proofs/ToggleProofs.v):
     available st          every key some annotator can manage: rp_all (ft st) (regionprops), KIou when a
                           segmentation exists (iou_avail), KTrack, KLin      (AnnotatorRegistry.all_features)
     enable_features st ks recompute ctrk clin / disable_features st ks
                           Tracks.enable_features / disable_features; ctrk / clin are the answers of the
                           networkx weakly-connected-components oracle (tracklets / lineages)
     step2 st o            one call of the public API: an edit (OEdit), OEnable, ODisable
     active st k           k's flag is on: k in rp_act, or k = KIou / KTrack / KLin with iou_act / trk_act / lin_act
     in_reg st k           k is listed in tracks.features (reg_edge for the edge key KIou, reg_node otherwise)
     W_reg st              for every available key: listed in the registry <-> active
     cfg_keys st           static well-formedness of the configuration: rp_all is a duplicate-free list of keys
                           among pos, area, ellipse axes, circularity, perimeter; rp_act is a sublist of rp_all;
                           iou_act -> iou_avail
     frz k X s s'          ft s' = ft s  and, for every n outside X,  has_node s' n = has_node s n  and
                           attr s' n k = attr s n k
     efrz E s s'           ft s' = ft s  and  edge_attrs s' a b = edge_attrs s a b for every pair outside E
     nobody / noedge       the empty sets;  basic_nodes b / action_nodes a: the nodes that the recorded action(s)
                           add or delete;  op_nodes st o: the node an OAddNode / ODelNode names, the nodes added
                           or deleted by the action an OUndo / ORedo replays, for OPaint nv t idx (paint_nodes)
                           the labels the stroke overwrites and nv itself when nv is not yet a node
     rstate r              the state a call leaves behind, whether it returned (Ok) or raised (Err)
     VRp m                 "regionprops value of this key computed from mask m": the reference value
     iou_of st sg u v      the exact IoU of the masks of u and v in their own frames: the reference value
     rp_fresh / iou_fresh  the node / edge half of W_fresh (Proofs/EditFresh.v)
     comps_disjoint cs     no node occurs in two components of the list (part of the oracle contract)  *)
From Coq Require Import ZArith List Bool.
From FT Require Import Base.Dict Model.Edit Model.EditExec Model.Toggle Model.ToggleExec
  Proofs.EditInv Proofs.EditSeg Proofs.EditFresh Proofs.ToggleProofs Proofs.ToggleExample.
From FT Require Gen.Toggle_gen Proofs.ToggleTie Proofs.ToggleTieInv Proofs.ToggleRefuted.
From FT Require Proofs.AnnotatorsTie.
From FT Require Model.EditCtor Proofs.EditCtor Proofs.EditCtorDict Gen.Ctor_gen Proofs.CtorTie.
From FT Require Proofs.EditSessionsToggle.
From FT Require Proofs.EditSessionsToggle2.
From FT Require Proofs.EditSessionsToggle3.
Import ListNotations.
Open Scope Z_scope.

(* ---------- 1. unknown keys: KeyError, nothing changed, wherever the key sits in the list ---------- *)
Theorem C10_unknown : forall st ks rc ctrk clin k,
  In k ks -> ~ In k (available st) ->
  enable_features st ks rc ctrk clin = Err EKey st /\ disable_features st ks = Err EKey st.
Proof. exact unknown_key_refused. Qed.

Theorem C10_known : forall st ks rc ctrk clin,
  (forall k, In k ks -> In k (available st)) ->
  (exists st', enable_features st ks rc ctrk clin = Ok tt st') /\
  (exists st', disable_features st ks = Ok tt st').
Proof. exact known_keys_accepted. Qed.

(* ---------- 2. protected keys: independent of the activity flags ---------- *)
Theorem C10_protected_keys : forall st k, In k (protected_keys st) <-> In k (available st) \/ k = KTime.
Proof. exact protected_available. Qed.

Theorem C10_protected : forall st n new k,
  In k (keys new) -> In k (available st) \/ k = KTime ->
  do_upd_attrs st n new = Err EValue st /\ user_update_attrs st n new = Err EValue st.
Proof. exact protected_refused. Qed.

(* ---------- 3. the registry lists exactly the static plus the enabled features ---------- *)
Theorem C10_registry_enable : forall st ks rc ctrk clin st',
  cfg_keys st -> W_reg st -> enable_features st ks rc ctrk clin = Ok tt st' ->
  cfg_keys st' /\ W_reg st' /\
  (forall k, In k ks -> in_reg st' k /\ active st' k) /\
  (forall k, ~ In k ks -> (In k (reg_node (ft st')) <-> In k (reg_node (ft st))) /\
                          (In k (reg_edge (ft st')) <-> In k (reg_edge (ft st))) /\
                          (active st' k <-> active st k)).
Proof. exact enable_registry. Qed.

Theorem C10_registry_disable : forall st ks st',
  cfg_keys st -> W_reg st -> disable_features st ks = Ok tt st' ->
  cfg_keys st' /\ W_reg st' /\
  (forall k, In k ks -> ~ In k (reg_node (ft st')) /\ ~ In k (reg_edge (ft st')) /\ ~ active st' k) /\
  (forall k, ~ In k ks -> (In k (reg_node (ft st')) <-> In k (reg_node (ft st))) /\
                          (In k (reg_edge (ft st')) <-> In k (reg_edge (ft st))) /\
                          (active st' k <-> active st k)).
Proof. exact disable_registry. Qed.

(* no edit, undo, redo or query touches the flags or the registry *)
Theorem C10_edit_keeps_features : forall st o, ft (fst (step st o)) = ft st.
Proof. exact step_ft. Qed.

Theorem C10_registry_step2 : forall st o,
  cfg_keys st -> W_reg st -> cfg_keys (fst (step2 st o)) /\ W_reg (fst (step2 st o)).
Proof. exact registry_step2. Qed.

Theorem C10_registry_run2 : forall ops st,
  cfg_keys st -> W_reg st ->
  let st' := fold_left (fun s o => fst (step2 s o)) ops st in cfg_keys st' /\ W_reg st'.
Proof. exact registry_run2. Qed.

(* ---------- 4. a disabled feature is no longer changed by edits ---------- *)
(* basic actions (also when they raise), their inverses, inverses of whole recorded actions *)
Theorem C10_frozen_basic : forall st k,
  cfg_keys st -> In k (rp_all (ft st)) -> ~ In k (rp_act (ft st)) ->
  (forall n, frz k nobody st (rp_update st n)) /\
  (forall n px added, frz k nobody st (rstate (do_upd_seg st n px added))) /\
  (forall u v a, frz k nobody st (rstate (do_add_edge st u v a))) /\
  (forall u v, frz k nobody st (rstate (do_del_edge st u v))) /\
  (forall s T L, frz k nobody st (rstate (do_upd_track st s T L))) /\
  (forall n new, frz k nobody st (rstate (do_upd_attrs st n new))) /\
  (forall m a px, frz k (eq m) st (rstate (do_add_node st m a px))) /\
  (forall m pxo, frz k (eq m) st (rstate (do_del_node st m pxo))) /\
  (forall b, frz k (basic_nodes b) st (rstate (inv_basic st b))) /\
  (forall a, frz k (action_nodes a) st (rstate (inv_action st a))).
Proof. exact frozen_basic_summary. Qed.

(* the user actions (nested or top level) *)
Theorem C10_frozen_user : forall st k,
  cfg_keys st -> In k (rp_all (ft st)) -> ~ In k (rp_act (ft st)) ->
  (forall u v top, frz k nobody st (rstate (user_delete_edge st u v top))) /\
  (forall u v force top, frz k nobody st (rstate (user_add_edge st u v force top))) /\
  (forall n pxo top, frz k (eq n) st (rstate (user_delete_node st n pxo top))) /\
  (forall n a px force top, frz k (eq n) st (rstate (user_add_node st n a px force top))) /\
  (forall a b, frz k nobody st (rstate (user_swap st a b))) /\
  (forall n new, frz k nobody st (rstate (user_update_attrs st n new))).
Proof. exact frozen_user_summary. Qed.

(* a paint stroke (UserUpdateSegmentation with its rollback, and the caller's restore on failure) *)
Theorem C10_frozen_paint : forall k st nv t idx T force,
  cfg_keys st -> In k (rp_all (ft st)) -> ~ In k (rp_act (ft st)) ->
  frz k (paint_nodes st nv t idx) st (rstate (paint st nv t idx T force)).
Proof. exact frozen_paint_cfg. Qed.

(* one call of the public API: edits, undo, redo, queries *)
Theorem C10_frozen_step : forall st o k n,
  cfg_keys st -> In k (rp_all (ft st)) -> ~ In k (rp_act (ft st)) -> ~ op_nodes st o n ->
  has_node (fst (step st o)) n = has_node st n /\ attr (fst (step st o)) n k = attr st n k /\
  ~ In k (rp_act (ft (fst (step st o)))).
Proof. exact frozen_step_attr. Qed.

(* any history of such calls that never adds / deletes the node *)
Theorem C10_frozen_run : forall k n ops st,
  cfg_keys st -> In k (rp_all (ft st)) -> ~ In k (rp_act (ft st)) ->
  (forall pre o post, ops = pre ++ o :: post -> ~ op_nodes (run st pre) o n) ->
  has_node (run st ops) n = has_node st n /\ attr (run st ops) n k = attr st n k.
Proof. exact frozen_run. Qed.

(* the edge feature: the edge annotator's update is the identity, no basic action changes the attributes
   of an edge other than the one it adds / removes *)
Theorem C10_frozen_iou : forall st, iou_act (ft st) = false ->
  (forall es, iou_update_edges st es = st) /\
  (forall n px added, efrz noedge st (rstate (do_upd_seg st n px added))) /\
  (forall u v a, efrz (fun x y => x = u /\ y = v) st (rstate (do_add_edge st u v a))) /\
  (forall u v, efrz (fun x y => x = u /\ y = v) st (rstate (do_del_edge st u v))) /\
  (forall s T L, efrz noedge st (rstate (do_upd_track st s T L))) /\
  (forall n new, efrz noedge st (rstate (do_upd_attrs st n new))) /\
  (forall m a px, efrz noedge st (rstate (do_add_node st m a px))) /\
  (forall m pxo, efrz (fun x y => x = m \/ y = m) st (rstate (do_del_node st m pxo))).
Proof. exact iou_frozen_summary. Qed.

(* ---------- 5. enabled with recomputation = the reference values of the current state ---------- *)
Theorem C10_enable_fresh_rp : forall st sg ks ctrk clin st',
  cfg_keys st -> seg st = Some sg -> W_seg st ->
  enable_features st ks true ctrk clin = Ok tt st' ->
  seg st' = Some sg /\ (forall n, is_node st' n <-> is_node st n) /\ (forall n, time_of st' n = time_of st n) /\
  forall n k, is_node st' n -> In k ks -> In k (rp_all (ft st)) ->
    In k (rp_act (ft st')) /\ attr st' n k = Some (VRp (mask_of sg (time_of st' n) n)).
Proof. exact enable_fresh_rp_thm. Qed.

(* ... and the features that were already enabled stay fresh: the node half of W_fresh is preserved *)
Theorem C10_enable_rp_fresh : forall st sg ks ctrk clin st',
  cfg_keys st -> seg st = Some sg -> W_seg st ->
  enable_features st ks true ctrk clin = Ok tt st' -> rp_fresh st -> rp_fresh st'.
Proof. exact enable_rp_fresh_thm. Qed.

Theorem C10_enable_fresh_iou : forall st sg ks ctrk clin st',
  cfg_keys st -> seg st = Some sg -> W_seg st ->
  enable_features st ks true ctrk clin = Ok tt st' -> In KIou ks ->
  iou_act (ft st') = true /\ (forall u v, edge st' u v <-> edge st u v) /\
  forall u v, edge st' u v -> 0 <= time_of st' u < Z.of_nat (length sg) - 1 ->
    lookup KIou (edge_attrs st' u v) = Some (iou_of st' sg u v).
Proof. exact enable_fresh_iou_thm. Qed.

(* on a forward-in-time graph over the array every edge meets the range condition *)
Theorem C10_enable_iou_fresh : forall st sg ks ctrk clin st',
  cfg_keys st -> seg st = Some sg -> W_seg st ->
  enable_features st ks true ctrk clin = Ok tt st' -> In KIou ks ->
  W_dict st -> W_forest st -> iou_fresh st'.
Proof. exact enable_iou_fresh_thm. Qed.

(* track / lineage ids: component number (1-based) as id, the components as lookup lists *)
Theorem C10_enable_ids_trk : forall st ks ctrk clin st',
  enable_features st ks true ctrk clin = Ok tt st' -> In KTrack ks -> comps_disjoint ctrk ->
  trk_act (ft st') = true /\
  (forall j c n, nth_error ctrk j = Some c -> In n c -> is_node st n -> attr st' n KTrack = Some (VZ (1 + Z.of_nat j))) /\
  (forall j c, nth_error ctrk j = Some c -> lookup (1 + Z.of_nat j) (trk_book (bk st')) = Some c) /\
  keys (trk_book (bk st')) = map (fun j => 1 + Z.of_nat j) (seq 0 (length ctrk)) /\
  max_trk (bk st') = Z.of_nat (length ctrk).
Proof. exact enable_ids_trk_thm. Qed.

Theorem C10_enable_ids_lin : forall st ks ctrk clin st',
  enable_features st ks true ctrk clin = Ok tt st' -> In KLin ks -> comps_disjoint clin ->
  lin_act (ft st') = true /\
  (forall j c n, nth_error clin j = Some c -> In n c -> is_node st n -> attr st' n KLin = Some (VZ (1 + Z.of_nat j))) /\
  (forall j c, nth_error clin j = Some c -> lookup (1 + Z.of_nat j) (lin_book (bk st')) = Some c) /\
  keys (lin_book (bk st')) = map (fun j => 1 + Z.of_nat j) (seq 0 (length clin)) /\
  max_lin (bk st') = Z.of_nat (length clin).
Proof. exact enable_ids_lin_thm. Qed.

(* ---------- non-vacuity ---------- *)
(* c10_st (Proofs/ToggleExample.v): frames 1 1 / 0 0 , 2 2 / 0 0 ; nodes 1 (t = 0), 2 (t = 1), edge 1 -> 2;
   regionprops can manage pos, area, ellipse, circularity, perimeter; pos (1) and area (4) are enabled *)
(* ---- feature switching is, in the model, the code translated on every run from the current
        Tracks.enable_features / disable_features, AnnotatorRegistry, GraphAnnotator and the protected-key check
        of UpdateNodeAttrs (Gen/Toggle_gen.v; translator harness/translate_toggle.py, fail closed; object
        representation Model/PyRt4.v; the bulk compute bodies stay model functions).  repr_ok: two facts about
        the representation (rp_act listed in rp_all order; no key registered under the other feature kind),
        both kept by every call of the interface (C10_repr_run). ---- *)
Theorem C10_enable_is_generated : forall st ks rc ctrk clin,
  FT.Proofs.ToggleTie.rp_canon st -> FT.Proofs.ToggleTie.reg_typed st ->
  FT.Gen.Toggle_gen.gen_Tracks_enable_features st ks rc ctrk clin = enable_features st ks rc ctrk clin.
Proof. exact FT.Proofs.ToggleTie.gen_Tracks_enable_features_eq. Qed.

Theorem C10_disable_is_generated : forall st ks,
  FT.Proofs.ToggleTie.rp_canon st ->
  FT.Gen.Toggle_gen.gen_Tracks_disable_features st ks = disable_features st ks.
Proof. exact FT.Proofs.ToggleTie.gen_Tracks_disable_features_eq. Qed.

Theorem C10_protected_check_is_generated : forall st n new,
  FT.Gen.Toggle_gen.gen_UpdateNodeAttrs_init_check st n new =
  (if existsb (fun kv => memz (fst kv) (protected_keys st)) new then Err EValue st else Ok tt st).
Proof. exact FT.Proofs.ToggleTie.gen_UpdateNodeAttrs_init_check_eq. Qed.

Theorem C10_generated_along_runs : forall st0 ops ks rc ctrk clin,
  FT.Proofs.ToggleTieInv.repr_ok st0 ->
  let st := fold_left (fun s o => fst (step2 s o)) ops st0 in
  FT.Gen.Toggle_gen.gen_Tracks_enable_features st ks rc ctrk clin = enable_features st ks rc ctrk clin.
Proof. exact FT.Proofs.ToggleTieInv.gen_enable_along_run. Qed.

(* ---- the known finding F-10b, as a machine-checked refutation on the faithful model (Proofs/ToggleRefuted.v):
        from a well-formed state, delete an edge, re-enable track_id (already enabled: all ids are renumbered,
        the history is kept), undo: every call succeeds, W_trk holds after the switch and FAILS after the undo
        (nodes 2 and 4 on one unbranched segment carry ids 2 and 4).  Without the switch the same session stays
        well formed (F10b_sessions_boundary). ---- *)
Theorem C10_ids_recomputed_then_undo_refuted :
  exists (s0 s1 s2 s3 : state) (u v : Z) (ctrk clin : list (list Z)),
    WF s0 /\ trk_act (ft s0) = true /\
    step2 s0 (OEdit (ODelEdge u v)) = (s1, (0, [])) /\
    step2 s1 (OEnable [KTrack] true ctrk clin) = (s2, (0, [])) /\
    step2 s2 (OEdit OUndo) = (s3, (1, [])) /\
    W_trk s2 /\ ~ W_trk s3 /\
    edge s3 2 4 /\ ~ divides s3 2 /\ trk s3 2 = Some 2 /\ trk s3 4 = Some 4.
Proof.
  destruct FT.Proofs.ToggleRefuted.F10b_refuted as (s0 & s1 & s2 & s3 & u & v & ctrk & clin & H).
  exists s0, s1, s2, s3, u, v, ctrk, clin. intuition.
Qed.

(* ---- the annotators that feature switching activates are, for all arguments, the code translated on every
        run from _regionprops_annotator.py and _edge_annotator.py (Gen/Annotators_gen.v; Proofs/AnnotatorsTie.v):
        in particular WHICH keys an update writes (the enabled ones only) is read off the source. ---- *)
Theorem C10_regionprops_update_is_generated : ltac:(let t := type of @FT.Proofs.AnnotatorsTie.gen_RegionpropsAnnotator_update_eq in exact t).
Proof. exact @FT.Proofs.AnnotatorsTie.gen_RegionpropsAnnotator_update_eq. Qed.

Theorem C10_edge_update_is_generated : ltac:(let t := type of @FT.Proofs.AnnotatorsTie.gen_EdgeAnnotator_update_WF in exact t).
Proof. exact @FT.Proofs.AnnotatorsTie.gen_EdgeAnnotator_update_WF. Qed.

(* ---- the constructor, translated: TrackAnnotator._get_max_id_and_map (the scan of supplied ids), the bookkeeping part
        of TrackAnnotator.__init__, Tracks._check_existing_feature and the activate-or-compute loop of
        Tracks._setup_core_computed_features of the model (Model/EditCtor.v: scan_ids, scan_books, first_has,
        ctor_step) equal the code translated on every run from annotators/_track_annotator.py and
        data_model/tracks.py (Gen/Ctor_gen.v; translator harness/translate_ctor.py, fail closed; its callees are the
        generated enable / activate definitions of Gen/Toggle_gen.v).  Not translated: the first loop of
        _setup_core_computed_features, which collects the keys from the annotators (the model's ctor_keys), and the
        composition Tracks.__init__ (tied by the constructor correspondence of every run instead). ---- *)
Theorem C10_constructor_is_generated : FT.Proofs.CtorTie.ctor_tie_statement.
Proof. exact FT.Proofs.CtorTie.ctor_tie. Qed.

(* ---- construction with a prepared registry: exactly the registered keys that an annotator can manage are switched
        on, nothing else changes (graph, array, history, registry, the caller's table), the lookups are the scans. ---- *)
Theorem C10_prepared_registry_activation : ltac:(let t := type of @FT.Proofs.EditCtorDict.construct_dict_spec in exact t).
Proof. exact @FT.Proofs.EditCtorDict.construct_dict_spec. Qed.

(* ---- sessions that MIX edits with feature switching (Tracks.enable_features with recomputation /
        disable_features of the non-id features; switch_ok excludes the two id keys - Proofs/ToggleRefuted.v
        shows why - and registration without recomputation):
        C10_switch_step: one switch call keeps the complete invariant WF and the side facts (side_ok =
        cfg_keys, reg_ok, rp_disjoint, rp_decl) and touches neither the two history stacks nor the array; a
        refused call returns the state itself.
        C10_sessions_with_switching_partial: every state reached along   switches ++ (an editing session over
        the whole interface, undo / redo included) ++ (any mix of switches and edits in which nothing is undone
        or redone)   is well formed.  "partial": undo / redo AFTER a switch is not covered unconditionally.
        C10_sessions_with_switching_conditional: the statement for ANY interleaving, from the one hypothesis
        that is still open (transport_along: the recorded actions stay consistent transitions between the
        switched timeline states - a simulation of the inverses between two feature tables).
        Proofs/EditSessionsToggle.v also contains a refutation of the unconditional statement for a configuration
        the implementation cannot be in (regionprops keys declared without a label array): the model's
        hypotheses, not the code, are too weak there; with an array no counter-example is known and the
        correspondence runs such sessions on every check (toggles in C08 / C09 / C10). ---- *)
Theorem C10_switch_step : ltac:(let t := type of @FT.Proofs.EditSessionsToggle.switch_step2 in exact t).
Proof. exact @FT.Proofs.EditSessionsToggle.switch_step2. Qed.
Theorem C10_sessions_with_switching_partial : ltac:(let t := type of @FT.Proofs.EditSessionsToggle.session_toggle_sandwich_reachable_WF in exact t).
Proof. exact @FT.Proofs.EditSessionsToggle.session_toggle_sandwich_reachable_WF. Qed.
Theorem C10_sessions_with_switching_conditional : ltac:(let t := type of @FT.Proofs.EditSessionsToggle.session_toggle_reachable_WF_conditional in exact t).
Proof. exact @FT.Proofs.EditSessionsToggle.session_toggle_reachable_WF_conditional. Qed.

(* ---- the open hypothesis narrowed (Proofs/EditSessionsToggle2.v): observational equality is transported across a
        switch (sw_obs: two well-formed, observably equal states are switched to observably equal states - the newly
        registered values are functions of the array and the graph only), so the fully mixed theorem - undo / redo
        after switches included - holds from part (a) of the transport alone (C10_sessions_with_switching_modulo_a:
        the recorded actions stay consistent transitions between the switched timeline states); without a label
        array it is unconditional (C10_sessions_with_switching_noseg: no annotator owns a switchable key there,
        every accepted non-id switch is the identity).  With an array, 52 mixed calls (undo / redo of node
        deletions, strokes, edge actions, attribute updates across disable / enable of position, area, perimeter,
        IoU) are evaluated in the kernel and stay fresh (mixed_sessions_with_array_evidence: a test, not the
        theorem). ---- *)
Theorem C10_switch_keeps_observable_equality : ltac:(let t := type of @FT.Proofs.EditSessionsToggle2.sw_obs in exact t).
Proof. exact @FT.Proofs.EditSessionsToggle2.sw_obs. Qed.
Theorem C10_sessions_with_switching_modulo_a : ltac:(let t := type of @FT.Proofs.EditSessionsToggle2.session_toggle_reachable_WF_modulo_a in exact t).
Proof. exact @FT.Proofs.EditSessionsToggle2.session_toggle_reachable_WF_modulo_a. Qed.
Theorem C10_sessions_with_switching_noseg : ltac:(let t := type of @FT.Proofs.EditSessionsToggle2.session_toggle_reachable_WF_noseg in exact t).
Proof. exact @FT.Proofs.EditSessionsToggle2.session_toggle_reachable_WF_noseg. Qed.
(* the side condition of the modulo-(a) theorem ("no annotator features without a label array") is an invariant of
   every mixed run, so it is asked of the start state only (Proofs/EditSessionsToggle3.v; rests on: the array
   keeps its None-ness and shape along every run, no call changes rp_all / iou_avail) *)
Theorem C10_noseg_cfg_is_invariant : ltac:(let t := type of @FT.Proofs.EditSessionsToggle3.run2_noseg_cfg in exact t).
Proof. exact @FT.Proofs.EditSessionsToggle3.run2_noseg_cfg. Qed.
Theorem C10_sessions_with_switching_modulo_a_start : ltac:(let t := type of @FT.Proofs.EditSessionsToggle3.session_toggle_reachable_WF_modulo_a_start in exact t).
Proof. exact @FT.Proofs.EditSessionsToggle3.session_toggle_reachable_WF_modulo_a_start. Qed.

Example C10_ex_hyps :
  cfg_keys c10_st /\ W_reg c10_st /\ seg c10_st = Some c10_sg /\ W_seg c10_st /\ comps_disjoint [[2]; [1]].
Proof. exact (conj c10_cfg_keys (conj c10_W_reg (conj eq_refl (conj c10_W_seg c10_disjoint)))). Qed.

(* disable area; paint a third pixel onto node 2 (area stays at the old value, the enabled position follows);
   a request with the unknown key 999 raises KeyError (13) and changes nothing, although area comes first;
   re-enabling area with recomputation stores the value of the current three-pixel mask *)
Example C10_ex_run :
  let r1 := step2 c10_st (ODisable [KArea]) in
  let r2 := step2 (fst r1) (OEdit (OPaint 2 1 [2] 1 false)) in
  let r3 := step2 (fst r2) (OEnable [KArea; 999] true [] []) in
  let r4 := step2 (fst r3) (OEnable [KArea] true [] []) in
  snd r1 = (0, []) /\ reg_node (ft (fst r1)) = [KTime; KPos; KTrack; KLin] /\ rp_act (ft (fst r1)) = [KPos] /\
  snd r2 = (0, []) /\ seg (fst r2) = Some [[1;1;0;0]; [2;2;2;0]] /\
  attr (fst r2) 2 KArea = Some (VRp [0;1]) /\ attr (fst r2) 2 KPos = Some (VRp [0;1;2]) /\
  snd r3 = (13, []) /\ fst r3 = fst r2 /\
  snd r4 = (0, []) /\ attr (fst r4) 2 KArea = Some (VRp [0;1;2]) /\ attr (fst r4) 1 KArea = Some (VRp [0;1]) /\
  reg_node (ft (fst r4)) = [KTime; KPos; KTrack; KLin; KArea] /\ rp_act (ft (fst r4)) = [KPos; KArea].
Proof. vm_compute. repeat split; reflexivity. Qed.

(* disabling the edge feature and the track ids, then enabling them (and the lineage ids) again with the
   components [[2]; [1]] / [[1; 2]]: ids by component number, lookups = components, IoU of the current masks *)
Example C10_ex_ids :
  let r1 := step2 c10_st (OEdit (OPaint 2 1 [2] 1 false)) in
  let r2 := step2 (fst r1) (ODisable [KIou; KTrack]) in
  let r3 := step2 (fst r2) (OEnable [KTrack; KLin; KIou] true [[2]; [1]] [[1; 2]]) in
  snd r2 = (0, []) /\ reg_node (ft (fst r2)) = [KTime; KPos; KLin; KArea] /\ reg_edge (ft (fst r2)) = [] /\
  snd r3 = (0, []) /\ attr (fst r3) 1 KTrack = Some (VZ 2) /\ attr (fst r3) 2 KTrack = Some (VZ 1) /\
  trk_book (bk (fst r3)) = [(1, [2]); (2, [1])] /\ max_trk (bk (fst r3)) = 2 /\
  lin_book (bk (fst r3)) = [(1, [1; 2])] /\
  reg_node (ft (fst r3)) = [KTime; KPos; KLin; KArea; KTrack] /\ reg_edge (ft (fst r3)) = [KIou] /\
  lookup KIou (edge_attrs (fst r3) 1 2) = Some (VIou 2 3).
Proof. vm_compute. repeat split; reflexivity. Qed.

(* the stroke of C10_ex_run overwrites background only and its label 2 is already a node: node 2 is outside
   paint_nodes, so C10_frozen_step applies to it with k = area after the ODisable *)
Example C10_ex_frozen_hyps :
  let s1 := fst (step2 c10_st (ODisable [KArea])) in
  cfg_keys s1 /\ In KArea (rp_all (ft s1)) /\ ~ In KArea (rp_act (ft s1)) /\
  ~ op_nodes s1 (OPaint 2 1 [2] 1 false) 2 /\ ~ op_nodes s1 (OPaint 2 1 [2] 1 false) 1.
Proof.
  cbv zeta. split; [apply (C10_registry_step2 c10_st (ODisable [KArea]) c10_cfg_keys c10_W_reg)|].
  split; [vm_compute; auto|]. split; [vm_compute; intros [H|[]]; discriminate H|].
  split; vm_compute; intros [[H1 H2]|[H|[]]]; discriminate.
Qed.

(* perimeter is not enabled, yet an attribute update that mentions it is refused (ValueError, state untouched) *)
Example C10_ex_protected :
  do_upd_attrs c10_st 1 [(100, VTok 1); (KPerim, VTok 5)] = Err EValue c10_st /\
  ~ In KPerim (rp_act (ft c10_st)) /\ In KPerim (available c10_st).
Proof.
  split; [reflexivity|]. split; [|cbn; auto 10].
  cbn. unfold KPerim, KPos, KArea. intros [H|[H|[]]]; discriminate H.
Qed.

Print Assumptions C10_unknown.
Print Assumptions C10_known.
Print Assumptions C10_protected_keys.
Print Assumptions C10_protected.
Print Assumptions C10_registry_enable.
Print Assumptions C10_registry_disable.
Print Assumptions C10_edit_keeps_features.
Print Assumptions C10_registry_step2.
Print Assumptions C10_registry_run2.
Print Assumptions C10_frozen_basic.
Print Assumptions C10_frozen_user.
Print Assumptions C10_frozen_paint.
Print Assumptions C10_frozen_step.
Print Assumptions C10_frozen_run.
Print Assumptions C10_frozen_iou.
Print Assumptions C10_enable_fresh_rp.
Print Assumptions C10_enable_rp_fresh.
Print Assumptions C10_enable_fresh_iou.
Print Assumptions C10_enable_iou_fresh.
Print Assumptions C10_enable_ids_trk.
Print Assumptions C10_enable_ids_lin.
Print Assumptions C10_enable_is_generated.
Print Assumptions C10_disable_is_generated.
Print Assumptions C10_protected_check_is_generated.
Print Assumptions C10_generated_along_runs.
Print Assumptions C10_ids_recomputed_then_undo_refuted.
Print Assumptions C10_regionprops_update_is_generated.
Print Assumptions C10_edge_update_is_generated.
Print Assumptions C10_constructor_is_generated.
Print Assumptions C10_prepared_registry_activation.
Print Assumptions C10_switch_step.
Print Assumptions C10_sessions_with_switching_partial.
Print Assumptions C10_sessions_with_switching_conditional.
Print Assumptions C10_switch_keeps_observable_equality.
Print Assumptions C10_sessions_with_switching_modulo_a.
Print Assumptions C10_sessions_with_switching_noseg.
Print Assumptions C10_noseg_cfg_is_invariant.
Print Assumptions C10_sessions_with_switching_modulo_a_start.
