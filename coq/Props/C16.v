(* Property C16 - Exports, saves and queries never modify the tracks.
   Model side.  The edit-machine model (Model/Edit.v) mirrors the writes the code performs, so
   "read-only" is a theorem, not a typing fact: [track_neighbors] (SolutionTracks.get_track_neighbors)
   stores the queried lookup list back sorted by time, exactly as `candidates.sort(...)` does in
   place.  [ro_eq] is the observation equivalence of the property: graph, segmentation, feature
   registry and flags, both history stacks, refresh log, id counter, max ids and the lineage lookup
   equal; the track lookup equal "as a lookup" (same keys in the same order, every list a
   permutation of its counterpart).

   Excluded and said so: Tracks._get_new_node_ids (op ONewIds) advances node_id_counter, a private
   fresh-id source - it is NOT a read-only query (C16_new_ids_exception states what it may touch).

   C16_scale_note: the model state has no scale field because no modelled operation reads or
   writes tracks.scale after commit 2aa8c45 (export_to_geff used to assign tracks.scale when it
   was None).  Exports / saves are not modelled at all (their effect on the tracks is "none", the
   output files are C13 / C15 / C19 matters): the scale clause, the export / save clause and the
   queries of Tracks that have no model counterpart are decided by the deep snapshot oracle of
   harness/props/c16.py, not by a theorem.

   This file holds only the property theorems (each closed by [exact] of a theorem of
   Proofs/EditReadOnly.v), a non-vacuity example, and Print Assumptions. *)
From Coq Require Import ZArith List Bool Permutation.
From FT Require Import Base.Dict Model.Edit Model.EditExec Proofs.EditReadOnly.
From FT Require Gen.CoreQueries_gen Gen.CoreTracks_gen Proofs.CoreTieQueries Proofs.CoreTieTracks.
From FT Require Proofs.ExportTie.
Import ListNotations.
Open Scope Z_scope.

(* ro_eq is an equivalence relation *)
Theorem C16_ro_equivalence :
  (forall s, ro_eq s s) /\ (forall s s', ro_eq s s' -> ro_eq s' s) /\
  (forall s1 s2 s3, ro_eq s1 s2 -> ro_eq s2 s3 -> ro_eq s1 s3).
Proof. exact (conj ro_refl (conj ro_sym ro_trans)). Qed.

(* what "equal as lookups" means: same keys in the same order, and per key permuted lists *)
Theorem C16_book_eq_meaning : forall b b', book_eq b b' ->
  keys b = keys b' /\
  forall k, match lookup k b, lookup k b' with
            | Some l, Some l' => Permutation l l'
            | None, None => True
            | _, _ => False
            end.
Proof. intros b b' H. exact (conj (book_eq_keys b b' H) (book_eq_lookup b b' H)). Qed.

(* get_track_neighbors, for every state, track id and time (known or unknown id, any time) *)
Theorem C16_neighbors : forall st T t, ro_eq st (fst (track_neighbors st T t)).
Proof. exact neighbors_ro. Qed.

(* ... and precisely: no other list is touched, the queried one is stored back time-sorted *)
Theorem C16_neighbors_exact : forall st T t,
  let s := fst (track_neighbors st T t) in
  (forall k, k <> T -> lookup k (trk_book (bk s)) = lookup k (trk_book (bk st))) /\
  (forall l, lookup T (trk_book (bk st)) = Some l -> lookup T (trk_book (bk s)) = Some (sort_by_time st l)).
Proof. exact neighbors_exact. Qed.

(* one call of a query through the API interpreter: get_track_neighbors, has_track_id_at_time,
   get_next_track_id / get_next_lineage_id *)
Theorem C16_step_query : forall st o,
  match o with
  | ONeighbors _ _ | OHasTrackAt _ _ | ONextIds => ro_eq st (fst (step st o))
  | _ => True
  end.
Proof. intros st o. destruct o; try exact I; apply step_query_ro; reflexivity. Qed.

(* the queries that return no state in the model hand back the very same state *)
Theorem C16_has_track_at_next_ids : forall st o,
  match o with OHasTrackAt _ _ | ONextIds => fst (step st o) = st | _ => True end.
Proof. exact step_pure_query_same. Qed.

(* a whole run of queries *)
Theorem C16_run : forall ops st, forallb is_query ops = true -> ro_eq st (run st ops).
Proof. exact run_queries_ro. Qed.

(* the documented exception: _get_new_node_ids leaves everything but the counter alone and
   advances the counter by at least n *)
Theorem C16_new_ids_exception : forall st n,
  let s := fst (step st (ONewIds n)) in
  g s = g st /\ seg s = seg st /\ ft s = ft st /\ bk s = bk st /\
  undo_stack s = undo_stack st /\ redo_stack s = redo_stack st /\ rlog s = rlog st /\
  nctr st + Z.of_nat n <= nctr s.
Proof. exact new_ids_exception. Qed.

(* ro_eq is the right observation: no query of the model can tell equivalent states apart
   (get_pixels, successors, predecessors, attribute reads, has_track_at, next ids) *)
Theorem C16_queries_respect_ro : forall s s', ro_eq s s' ->
  (forall T t, has_track_at s T t = has_track_at s' T t) /\
  next_trk s = next_trk s' /\ next_lin s = next_lin s' /\
  (forall n, get_pixels s n = get_pixels s' n) /\
  (forall n, successors s n = successors s' n) /\
  (forall n, predecessors s n = predecessors s' n) /\
  (forall n k, attr s n k = attr s' n k).
Proof. exact queries_respect_ro. Qed.

(* non-vacuity: nodes 1@t0 -> 2@t1 -> 3@t2 on track 1, but the lookup list of track 1 is
   [3; 1; 2] (out of time order, as it is after edits that append to the list).
   get_track_neighbors(1, 1) returns (1, 3) and really permutes the stored list - the state
   changed - yet ro_eq holds; has_track_id_at_time answers the same before and after;
   _get_new_node_ids(2) moves the counter from 4 to 6 (so it is not ro_eq). *)
Definition ex_feats : feats :=
  {| reg_node := [KTime; KPos; KTrack; KLin]; reg_edge := []; pos_keys := [KPos];
     rp_all := []; rp_act := []; iou_avail := false; iou_act := false;
     trk_act := true; lin_act := true |}.
Definition ex_state : state :=
  mk_state [(1, [(KTime, VZ 0); (KPos, VTok 1); (KTrack, VZ 1); (KLin, VZ 1)]);
            (2, [(KTime, VZ 1); (KPos, VTok 2); (KTrack, VZ 1); (KLin, VZ 1)]);
            (3, [(KTime, VZ 2); (KPos, VTok 3); (KTrack, VZ 1); (KLin, VZ 1)])]
           [(1, 2, []); (2, 3, [])] None ex_feats [(1, [3; 1; 2])] [(1, [1; 2; 3])] 1 1 4.

(* ---- the queries are, in the model, the code translated on every run from data_model/solution_tracks.py and
        data_model/tracks.py (Gen/CoreQueries_gen.v, Gen/CoreTracks_gen.v; translator harness/translate_core.py,
        fail closed; Proofs/CoreTieQueries.v, CoreTieTracks.v): get_track_neighbors with its in-place sort of the
        lookup entry, has_track_id_at_time, the next track / lineage id, and _get_new_node_ids. ---- *)
Theorem C16_queries_are_generated :
  (forall st T t, FT.Gen.CoreQueries_gen.gen_get_track_neighbors st T t = (let '(s', r) := track_neighbors st T t in Ok r s')) /\
  (forall st T t, FT.Gen.CoreQueries_gen.gen_has_track_id_at_time st T t = Ok (has_track_at st T t) st) /\
  (forall st, FT.Gen.CoreQueries_gen.gen_get_next_track_id st = Ok (next_trk st) st) /\
  (forall st, FT.Gen.CoreQueries_gen.gen_get_next_lineage_id st = Ok (next_lin st) st) /\
  (forall st n fuel, (S (length (nodes (g st))) <= fuel)%nat ->
     FT.Gen.CoreTracks_gen.gen_get_new_node_ids fuel st (Z.of_nat n) = (let '(s', ids) := get_new_node_ids st n in Ok ids s')).
Proof.
  split; [exact FT.Proofs.CoreTieQueries.gen_get_track_neighbors_eq|].
  split; [exact FT.Proofs.CoreTieQueries.gen_has_track_id_at_time_eq|].
  split; [exact FT.Proofs.CoreTieQueries.gen_get_next_track_id_eq|].
  split; [exact FT.Proofs.CoreTieQueries.gen_get_next_lineage_id_eq|].
  exact FT.Proofs.CoreTieTracks.gen_get_new_node_ids_eq.
Qed.

(* ---- the exporters are, in the model, the code translated on every run from csv/_export.py, geff/_export.py,
        internal_format.py and _feature_dict.py (Gen/ExportPipeline_gen.v; Proofs/ExportTie.v).  The translator
        treats the tracks object as READ-ONLY: any in-place modification of it, or of a value reachable from it
        (graph, segmentation, scale, feature registry), is outside its idiom table and refused, so a generated
        exporter is a function from the tracks to the list of values handed to the file writers, and the theorems
        below say which values those are.  (What the translator cannot see - the library calls it maps to
        primitives - is covered by the deep before / after snapshot of the harness.) ---- *)
Theorem C16_export_csv_is_generated : ltac:(let t := type of @FT.Proofs.ExportTie.gen_export_to_csv_all_eq in exact t).
Proof. exact @FT.Proofs.ExportTie.gen_export_to_csv_all_eq. Qed.

Theorem C16_export_csv_subset_is_generated : ltac:(let t := type of @FT.Proofs.ExportTie.gen_export_to_csv_subset_eq in exact t).
Proof. exact @FT.Proofs.ExportTie.gen_export_to_csv_subset_eq. Qed.

Theorem C16_export_geff_is_generated : ltac:(let t := type of @FT.Proofs.ExportTie.gen_export_to_geff_all_seg_eq in exact t).
Proof. exact @FT.Proofs.ExportTie.gen_export_to_geff_all_seg_eq. Qed.

Theorem C16_export_geff_subset_is_generated : ltac:(let t := type of @FT.Proofs.ExportTie.gen_export_to_geff_subset_seg_eq in exact t).
Proof. exact @FT.Proofs.ExportTie.gen_export_to_geff_subset_seg_eq. Qed.

Theorem C16_save_is_generated : ltac:(let t := type of @FT.Proofs.ExportTie.gen_save_attrs_eq in exact t).
Proof. exact @FT.Proofs.ExportTie.gen_save_attrs_eq. Qed.

Example C16_nonvacuous :
  let '(s1, r) := track_neighbors ex_state 1 1 in
  r = (Some 1, Some 3) /\
  trk_book (bk ex_state) = [(1, [3; 1; 2])] /\ trk_book (bk s1) = [(1, [1; 2; 3])] /\
  s1 <> ex_state /\ ro_eq ex_state s1 /\
  has_track_at ex_state 1 2 = true /\ has_track_at s1 1 2 = true /\
  fst (step ex_state (OHasTrackAt 1 2)) = ex_state /\
  ro_eq ex_state (run ex_state [ONeighbors 1 1; OHasTrackAt 1 2; ONextIds; ONeighbors 7 0; ONeighbors 1 0]) /\
  nctr (fst (step ex_state (ONewIds 2))) = 6 /\ ~ ro_eq ex_state (fst (step ex_state (ONewIds 2))).
Proof.
  pose proof (C16_neighbors ex_state 1 1) as Hro.
  destruct (track_neighbors ex_state 1 1) as [s1 r] eqn:E.
  vm_compute in E. inversion E; subst s1 r; clear E. cbn [fst] in Hro.
  split; [reflexivity |]. split; [reflexivity |]. split; [reflexivity |].
  split; [intros H; discriminate H |]. split; [exact Hro |].
  split; [reflexivity |]. split; [reflexivity |]. split; [reflexivity |].
  split; [apply C16_run; reflexivity |].
  split; [reflexivity |].
  intros (_ & _ & _ & _ & _ & _ & Hn & _). vm_compute in Hn. discriminate Hn.
Qed.

Print Assumptions C16_ro_equivalence.
Print Assumptions C16_book_eq_meaning.
Print Assumptions C16_neighbors.
Print Assumptions C16_neighbors_exact.
Print Assumptions C16_step_query.
Print Assumptions C16_has_track_at_next_ids.
Print Assumptions C16_run.
Print Assumptions C16_new_ids_exception.
Print Assumptions C16_queries_respect_ro.
Print Assumptions C16_queries_are_generated.
Print Assumptions C16_export_csv_is_generated.
Print Assumptions C16_export_csv_subset_is_generated.
Print Assumptions C16_export_geff_is_generated.
Print Assumptions C16_export_geff_subset_is_generated.
Print Assumptions C16_save_is_generated.
