(* Property C19 - Label utilities: globally unique labels; relabelling by track.
   This file holds only the property theorems (each closed by [exact] of a lemma of
   Proofs/LabelUtilsProofs.v), non-vacuity examples, and Print Assumptions. *)
From Coq Require Import ZArith List Bool.
From FT Require Import Model.LabelUtils Proofs.LabelUtilsProofs.
From FT Require Gen.LabelUtils_gen Proofs.LabelUtilsTie.
Import ListNotations.
Open Scope Z_scope.

(* Making labels unique: the returned array has the shape of the input; within every
   frame background stays background and two pixels share a label iff they did before
   (the partition into regions is unchanged) ... *)
Theorem C19_unique_partition : forall fs, nonneg fs ->
  let out := ensure_unique_labels fs in
  length out = length fs /\
  (forall i, length (nth i out []) = length (nth i fs [])) /\
  (forall i p, label_at out i p = 0 <-> label_at fs i p = 0) /\
  (forall i p q, label_at out i p = label_at out i q <-> label_at fs i p = label_at fs i q).
Proof. exact unique_labels_partition. Qed.

(* ... and no non-zero label occurs in two different frames. *)
Theorem C19_unique_global : forall fs, nonneg fs ->
  let out := ensure_unique_labels fs in
  forall i j p q, label_at out i p = label_at out j q -> label_at out i p <> 0 -> i = j.
Proof. exact unique_labels_global. Qed.

(* multiseg=True is the same function on the (hypothesis, frame) pairs in row-major order. *)
Theorem C19_unique_multiseg : forall hs,
  let out := ensure_unique_labels_multiseg hs in
  concat out = ensure_unique_labels (concat hs) /\ map (@length _) out = map (@length _) hs.
Proof. exact unique_labels_multiseg. Qed.

(* Relabelling by track: pixel (t,p) gets label 1+k iff a node of the k-th segment owns
   the detection (t, old label); every other pixel becomes background. *)
Theorem C19_by_track : forall comps old t p,
  (t < length old)%nat -> (p < length (nth t old []))%nat ->
  NoDup (map key (concat comps)) ->
  let new := relabel_with_track_id comps old in
  same_shape new old /\
  (forall k ns n, nth_error comps k = Some ns -> In n ns ->
      n_time n = t -> n_seg n = label_at old t p -> label_at new t p = 1 + Z.of_nat k) /\
  ((forall n, In n (concat comps) -> ~ (n_time n = t /\ n_seg n = label_at old t p)) -> label_at new t p = 0).
Proof. exact relabel_by_track_spec. Qed.

Theorem C19_by_track_same_label : forall comps old (same_segment : tnode -> tnode -> Prop),
  (forall k k' ns ns' n n', nth_error comps k = Some ns -> nth_error comps k' = Some ns' ->
            In n ns -> In n' ns' -> (k = k' <-> same_segment n n')) ->
  NoDup (map key (concat comps)) ->
  forall k k' ns ns' n n' p p',
    nth_error comps k = Some ns -> nth_error comps k' = Some ns' -> In n ns -> In n' ns' ->
    (n_time n < length old)%nat -> (p < length (nth (n_time n) old []))%nat ->
    (n_time n' < length old)%nat -> (p' < length (nth (n_time n') old []))%nat ->
    label_at old (n_time n) p = n_seg n -> label_at old (n_time n') p' = n_seg n' ->
    let new := relabel_with_track_id comps old in
    (label_at new (n_time n) p = label_at new (n_time n') p' <-> same_segment n n') /\
    label_at new (n_time n) p <> 0.
Proof. exact relabel_by_track_same_label. Qed.

(* non-vacuity: the witness of finding F-19a satisfies the hypothesis and the model
   computes disjoint label sets for it; a by-track input with a division. *)
(* ---- the three functions are, for all arguments, the code translated on every run from the current
        utils/_segmentation_utils.py (Gen/LabelUtils_gen.v; translator harness/translate_numpy_utils.py with the
        numpy combinators of Model/NpRt.v, fail closed).  For the by-track painter the networkx calls are
        uninterpreted: the component list the model takes as input is exactly
        weakly_connected_components(copy with the out-edges of every dividing node removed). ---- *)
Theorem C19_unique_is_generated : forall fs,
  FT.Gen.LabelUtils_gen.gen_ensure_unique_labels fs = ensure_unique_labels fs.
Proof. exact FT.Proofs.LabelUtilsTie.gen_ensure_unique_labels_eq. Qed.

Theorem C19_unique_multiseg_is_generated : forall hs,
  FT.Gen.LabelUtils_gen.gen_ensure_unique_labels_multiseg hs = ensure_unique_labels_multiseg hs.
Proof. exact FT.Proofs.LabelUtilsTie.gen_ensure_unique_labels_multiseg_eq. Qed.

Theorem C19_by_track_is_generated : forall (Graph Edges : Type) out_degree copy out_edges remove_edges_from wcc node_attr (g : Graph) seg,
  FT.Gen.LabelUtils_gen.gen_relabel_segmentation_with_track_id Graph Edges out_degree copy out_edges remove_edges_from wcc node_attr g seg =
  relabel_with_track_id (FT.Proofs.LabelUtilsTie.comps_of Graph Edges out_degree copy out_edges remove_edges_from wcc node_attr g) seg.
Proof. exact FT.Proofs.LabelUtilsTie.gen_relabel_segmentation_with_track_id_eq. Qed.

Example C19_nonvacuous_unique :
  nonneg [[1;0;0;2];[0;0;0;0];[1;0;0;2]] /\
  ensure_unique_labels [[1;0;0;2];[0;0;0;0];[1;0;0;2]] = [[1;0;0;2];[0;0;0;0];[3;0;0;4]].
Proof. split; [repeat constructor; discriminate|reflexivity]. Qed.

Example C19_nonvacuous_by_track :
  let comps := [[{|n_id:=1;n_time:=0%nat;n_seg:=5|}; {|n_id:=2;n_time:=1%nat;n_seg:=5|}];
                [{|n_id:=3;n_time:=2%nat;n_seg:=7|}]; [{|n_id:=4;n_time:=2%nat;n_seg:=8|}]] in
  NoDup (map key (concat comps)) /\
  relabel_with_track_id comps [[5;5;0;9];[0;5;5;0];[7;8;0;6]] = [[1;1;0;0];[0;1;1;0];[2;3;0;0]].
Proof.
  split; [|reflexivity]. cbn. unfold key; cbn.
  repeat (constructor; [cbn; intuition congruence|]). constructor.
Qed.

Print Assumptions C19_unique_partition.
Print Assumptions C19_unique_global.
Print Assumptions C19_unique_multiseg.
Print Assumptions C19_by_track.
Print Assumptions C19_by_track_same_label.
Print Assumptions C19_unique_is_generated.
Print Assumptions C19_unique_multiseg_is_generated.
Print Assumptions C19_by_track_is_generated.
